import XrsVerif.Model.Proximity
/-
  Helper lemmas for Props/C06.lean (core Lean only).

  Layers: list access → the candidate phase of one pixel (`cand`) → one pixel → a sweep (`sweepN`,
  induction on the number of pixels done) → a raster line in one pass (`rowStep`) → the two passes
  (`tdN`, `buN`, induction on the number of lines done) → `run`.
-/
set_option linter.unusedVariables false
namespace XrsVerif.Prox

/-! ### list access -/

theorem getD_set_eq {α} (l : List α) (p : Nat) (v d : α) (h : p < l.length) : (l.set p v).getD p d = v := by
  simp [List.getD, h]

theorem getD_set_ne {α} (l : List α) (p q : Nat) (v d : α) (h : p ≠ q) : (l.set p v).getD q d = l.getD q d := by
  simp [List.getD, List.getElem?_set_ne h]

theorem getD_replicate_none {α} (n p : Nat) : (List.replicate n (none : Option α)).getD p none = none := by
  simp only [List.getD, List.getElem?_replicate]
  split <;> rfl

theorem getD_default_irrel {α} (l : List α) (i : Nat) (d1 d2 : α) (h : i < l.length) : l.getD i d1 = l.getD i d2 := by
  simp [List.getD, h]

theorem getD_none_of_le {α} (l : List (Option α)) (p : Nat) (h : l.length ≤ p) : l.getD p none = none := by
  simp [List.getD, h]

/-- the target `output_img` holds after merging the `nearest` arrays of a sweep -/
def curOf (al nr : List Tgt) (p : Nat) : Tgt :=
  match nr.getD p none with
  | some t => some t
  | none => al.getD p none

theorem mergeNr_length (al nr : List Tgt) (h : al.length = nr.length) : (mergeNr al nr).length = al.length := by
  simp [mergeNr, h]

theorem mergeNr_getD (al nr : List Tgt) (p : Nat) (h : al.length = nr.length) :
    (mergeNr al nr).getD p none = curOf al nr p := by
  unfold mergeNr curOf
  by_cases hp : p < al.length
  · have hp' : p < nr.length := h ▸ hp
    simp only [List.getD, List.getElem?_zipWith, List.getElem?_eq_getElem hp, List.getElem?_eq_getElem hp',
      Option.getD_some]
    cases nr[p] <;> rfl
  · have hp' : ¬ p < nr.length := h ▸ hp
    have h1 : al[p]? = none := by simp; omega
    have h2 : nr[p]? = none := by simp; omega
    simp [List.getD, List.getElem?_zipWith, h1, h2]

theorem curOf_replicate (al : List Tgt) (n p : Nat) : curOf al (List.replicate n none) p = al.getD p none := by
  unfold curOf
  rw [getD_replicate_none]

theorem curOf_set_eq (al nr : List Tgt) (p : Nat) (t : Nat × Nat) (h : p < nr.length) :
    curOf al (nr.set p (some t)) p = some t := by
  unfold curOf
  rw [getD_set_eq _ _ _ _ h]

theorem curOf_set_ne (al nr : List Tgt) (p q : Nat) (v : Tgt) (h : p ≠ q) :
    curOf al (nr.set p v) q = curOf al nr q := by
  unfold curOf
  rw [getD_set_ne _ _ _ _ _ h]

/-! ### positions -/

theorem posOf_lt (W : Nat) (fwd : Bool) (k : Nat) (h : k < W) : posOf W fwd k < W := by
  unfold posOf
  split <;> omega

theorem posOf_inj (W : Nat) (fwd : Bool) (j k : Nat) (hj : j < W) (hk : k < W)
    (h : posOf W fwd j = posOf W fwd k) : j = k := by
  unfold posOf at h
  split at h <;> omega

/-- every column is the position of exactly one step of a sweep -/
theorem posOf_surj (W : Nat) (fwd : Bool) (p : Nat) (h : p < W) : ∃ k, k < W ∧ posOf W fwd k = p := by
  cases fwd
  · exact ⟨W - 1 - p, by omega, by simp [posOf]; omega⟩
  · exact ⟨p, h, by simp [posOf]⟩

theorem adiff_posOf (W : Nat) (fwd : Bool) (j k : Nat) (hj : j < W) (hk : k < W) :
    adiff (posOf W fwd j) (posOf W fwd k) = adiff j k := by
  unfold posOf adiff
  split <;> omega

/-! ### the candidate phase of one pixel -/

/-- the squared distance from a remembered target to the pixel (row, p) -/
def dT (c : Cfg) (row p : Nat) (t : Nat × Nat) : Nat := dist2 c t.1 t.2 row p

/-- the three candidate steps of pixel `k`: above, previous in sweep order, next in sweep order -/
def cand (c : Cfg) (row : Nat) (fwd : Bool) (k : Nat) (pan : List Tgt) : List Tgt × Option Nat :=
  let p := posOf c.W fwd k
  let a := fromAbove c row p pan c.max2x2
  let b := stepNb c row p (k == 0) (posOf c.W fwd (k - 1)) a
  stepNb c row p (k + 1 == c.W) (posOf c.W fwd (k + 1)) b

theorem pixel_eq (c : Cfg) (tg : Nat → Nat → Bool) (row : Nat) (fwd : Bool) (s : LineSt) (k : Nat) :
    pixel c tg row fwd s k =
      if tg row (posOf c.W fwd k) then
        { pan := s.pan.set (posOf c.W fwd k) (some (row, posOf c.W fwd k)),
          lp := s.lp.set (posOf c.W fwd k) (some 0),
          nr := s.nr.set (posOf c.W fwd k) (some (row, posOf c.W fwd k)) }
      else update c s (posOf c.W fwd k) (cand c row fwd k s.pan).1 (cand c row fwd k s.pan).2 := rfl

/-- the invariant of the candidate phase at pixel `p`: `nds` is the distance to the remembered target,
    or still the initial bound when nothing is remembered -/
def J (c : Cfg) (row p : Nat) (a : List Tgt × Option Nat) : Prop :=
  (∀ t, a.1.getD p none = some t → a.2 = some (dT c row p t)) ∧ (a.1.getD p none = none → a.2 = c.max2x2)

/-- what a candidate step may do to the memory: same length, only entry `p` changes,
    and the new entry is an old entry -/
def Frame (p : Nat) (pan pan' : List Tgt) : Prop :=
  pan'.length = pan.length ∧ (∀ q, q ≠ p → pan'.getD q none = pan.getD q none) ∧
  (∀ t, pan'.getD p none = some t → ∃ q, pan.getD q none = some t)

theorem Frame.refl (p : Nat) (pan : List Tgt) : Frame p pan pan :=
  ⟨rfl, fun _ _ => rfl, fun t h => ⟨p, h⟩⟩

theorem Frame.trans {p : Nat} {a b d : List Tgt} (h1 : Frame p a b) (h2 : Frame p b d) : Frame p a d := by
  refine ⟨h2.1.trans h1.1, fun q hq => (h2.2.1 q hq).trans (h1.2.1 q hq), fun t ht => ?_⟩
  obtain ⟨q, hq⟩ := h2.2.2 t ht
  by_cases hqp : q = p
  · subst hqp; exact h1.2.2 t hq
  · exact ⟨q, (h1.2.1 q hqp) ▸ hq⟩

theorem fromAbove_frame (c : Cfg) (row p : Nat) (pan : List Tgt) (nds : Option Nat) :
    Frame p pan (fromAbove c row p pan nds).1 := by
  unfold fromAbove
  split
  · dsimp only
    split
    · exact Frame.refl p pan
    · refine ⟨by simp, fun q hq => getD_set_ne _ _ _ _ _ (Ne.symm hq), fun t ht => ?_⟩
      by_cases hp : p < pan.length
      · rw [getD_set_eq _ _ _ _ hp] at ht; cases ht
      · rw [getD_none_of_le _ _ (by simp; omega)] at ht; cases ht
  · exact Frame.refl p pan

theorem fromNeighbour_frame (c : Cfg) (row p q : Nat) (pan : List Tgt) (nds : Option Nat) :
    Frame p pan (fromNeighbour c row p q pan nds).1 := by
  unfold fromNeighbour
  split
  · rename_i tr tc heq
    dsimp only
    split
    · refine ⟨by simp, fun q' hq => getD_set_ne _ _ _ _ _ (Ne.symm hq), fun t ht => ?_⟩
      by_cases hp : p < pan.length
      · rw [getD_set_eq _ _ _ _ hp] at ht
        exact ⟨q, ht ▸ heq⟩
      · rw [getD_none_of_le _ _ (by simp; omega)] at ht; cases ht
    · exact Frame.refl p pan
  · exact Frame.refl p pan

theorem stepNb_frame (c : Cfg) (row p : Nat) (skip : Bool) (q : Nat) (a : List Tgt × Option Nat) :
    Frame p a.1 (stepNb c row p skip q a).1 := by
  unfold stepNb
  split
  · exact Frame.refl p a.1
  · exact fromNeighbour_frame c row p q a.1 a.2

theorem cand_frame (c : Cfg) (row : Nat) (fwd : Bool) (k : Nat) (pan : List Tgt) :
    Frame (posOf c.W fwd k) pan (cand c row fwd k pan).1 := by
  unfold cand
  exact ((fromAbove_frame c row _ pan c.max2x2).trans (stepNb_frame c row _ _ _ _)).trans (stepNb_frame c row _ _ _ _)

theorem fromAbove_J (c : Cfg) (row p : Nat) (pan : List Tgt) (hp : p < pan.length) :
    J c row p (fromAbove c row p pan c.max2x2) := by
  unfold fromAbove
  split
  · rename_i tr tc heq
    dsimp only
    split
    · refine ⟨fun t ht => ?_, fun hn => ?_⟩
      · dsimp only at ht ⊢
        rw [heq] at ht; cases ht; rfl
      · dsimp only at hn
        rw [heq] at hn; cases hn
    · refine ⟨fun t ht => ?_, fun hn => rfl⟩
      dsimp only at ht
      rw [getD_set_eq _ _ _ _ hp] at ht; cases ht
  · rename_i heq
    refine ⟨fun t ht => ?_, fun hn => rfl⟩
    dsimp only at ht
    rw [heq] at ht; cases ht

theorem fromNeighbour_J (c : Cfg) (row p q : Nat) (a : List Tgt × Option Nat) (hp : p < a.1.length)
    (h : J c row p a) : J c row p (fromNeighbour c row p q a.1 a.2) := by
  unfold fromNeighbour
  split
  · rename_i tr tc heq
    dsimp only
    split
    · refine ⟨fun t ht => ?_, fun hn => ?_⟩
      · dsimp only at ht ⊢
        rw [getD_set_eq _ _ _ _ hp] at ht; cases ht; rfl
      · dsimp only at hn
        rw [getD_set_eq _ _ _ _ hp] at hn; cases hn
    · exact h
  · exact h

theorem stepNb_J (c : Cfg) (row p : Nat) (skip : Bool) (q : Nat) (a : List Tgt × Option Nat) (hp : p < a.1.length)
    (h : J c row p a) : J c row p (stepNb c row p skip q a) := by
  unfold stepNb
  split
  · exact h
  · exact fromNeighbour_J c row p q a hp h

theorem cand_J (c : Cfg) (row : Nat) (fwd : Bool) (k : Nat) (pan : List Tgt) (hp : posOf c.W fwd k < pan.length) :
    J c row (posOf c.W fwd k) (cand c row fwd k pan) := by
  unfold cand
  have f1 := fromAbove_frame c row (posOf c.W fwd k) pan c.max2x2
  have j1 := fromAbove_J c row (posOf c.W fwd k) pan hp
  have f2 := stepNb_frame c row (posOf c.W fwd k) (k == 0) (posOf c.W fwd (k - 1)) (fromAbove c row (posOf c.W fwd k) pan c.max2x2)
  have j2 := stepNb_J c row (posOf c.W fwd k) (k == 0) (posOf c.W fwd (k - 1)) _ (by rw [f1.1]; exact hp) j1
  exact stepNb_J c row (posOf c.W fwd k) _ _ _ (by rw [f2.1, f1.1]; exact hp) j2

/-! "not above": `nds` (as an extended number, `none` = ∞) is at most `e` -/

theorem fromAbove_le (c : Cfg) (row p : Nat) (pan : List Tgt) (nds : Option Nat) (t : Nat × Nat)
    (h : pan.getD p none = some t) : ltOpt (dT c row p t) (fromAbove c row p pan nds).2 = false := by
  unfold fromAbove
  obtain ⟨tr, tc⟩ := t
  simp only [h]
  by_cases hlt : ltOpt (dist2 c tr tc row p) nds = true
  · rw [if_pos hlt]; simp [ltOpt, dT]
  · rw [if_neg hlt]; simpa [dT] using hlt

theorem fromNeighbour_le (c : Cfg) (row p q : Nat) (pan : List Tgt) (nds : Option Nat) (t : Nat × Nat)
    (h : pan.getD q none = some t) : ltOpt (dT c row p t) (fromNeighbour c row p q pan nds).2 = false := by
  unfold fromNeighbour
  obtain ⟨tr, tc⟩ := t
  simp only [h]
  by_cases hlt : ltOpt (dist2 c tr tc row p) nds = true
  · rw [if_pos hlt]; simp [ltOpt, dT]
  · rw [if_neg hlt]; simpa [dT] using hlt

theorem fromNeighbour_mono (c : Cfg) (row p q : Nat) (pan : List Tgt) (nds : Option Nat) (e : Nat)
    (h : ltOpt e nds = false) : ltOpt e (fromNeighbour c row p q pan nds).2 = false := by
  unfold fromNeighbour
  split
  · rename_i tr tc heq
    dsimp only
    split
    · rename_i hlt
      cases nds with
      | none => simp [ltOpt] at h
      | some b => simp [ltOpt] at h hlt ⊢; omega
    · exact h
  · exact h

theorem stepNb_mono (c : Cfg) (row p : Nat) (skip : Bool) (q : Nat) (a : List Tgt × Option Nat) (e : Nat)
    (h : ltOpt e a.2 = false) : ltOpt e (stepNb c row p skip q a).2 = false := by
  unfold stepNb
  split
  · exact h
  · exact fromNeighbour_mono c row p q a.1 a.2 e h

/-- the candidate phase ends at or below every candidate it looked at:
    `which = 0` the pixel's own memory, `1` the previous pixel of the sweep, `2` the next one -/
theorem cand_le (c : Cfg) (row : Nat) (fwd : Bool) (k : Nat) (pan : List Tgt) (t : Nat × Nat)
    (hk : k < c.W)
    (h : pan.getD (posOf c.W fwd k) none = some t ∨
         (0 < k ∧ pan.getD (posOf c.W fwd (k - 1)) none = some t) ∨
         (k + 1 < c.W ∧ pan.getD (posOf c.W fwd (k + 1)) none = some t)) :
    ltOpt (dT c row (posOf c.W fwd k) t) (cand c row fwd k pan).2 = false := by
  unfold cand
  have f1 := fromAbove_frame c row (posOf c.W fwd k) pan c.max2x2
  have f2 := stepNb_frame c row (posOf c.W fwd k) (k == 0) (posOf c.W fwd (k - 1)) (fromAbove c row (posOf c.W fwd k) pan c.max2x2)
  rcases h with h | ⟨hk0, h⟩ | ⟨hk1, h⟩
  · exact stepNb_mono _ _ _ _ _ _ _ (stepNb_mono _ _ _ _ _ _ _ (fromAbove_le c row _ pan _ t h))
  · apply stepNb_mono
    have hne : posOf c.W fwd (k - 1) ≠ posOf c.W fwd k := fun he => by
      have := posOf_inj c.W fwd (k - 1) k (by omega) hk he; omega
    have hk' : (k == 0) = false := by simp; omega
    simp only [stepNb, hk', Bool.false_eq_true, if_false]
    apply fromNeighbour_le
    rw [f1.2.1 _ hne]; exact h
  · have hne : posOf c.W fwd (k + 1) ≠ posOf c.W fwd k := fun he => by
      have := posOf_inj c.W fwd (k + 1) k hk1 hk he; omega
    have hk' : (k + 1 == c.W) = false := by simp; omega
    simp only [stepNb, hk', Bool.false_eq_true, if_false]
    apply fromNeighbour_le
    have := f2.2.1 _ hne
    simp only [stepNb] at this
    rw [this, f1.2.1 _ hne]; exact h

/-- a candidate below the bound is never lost: the pixel ends up remembering a target at least as near -/
theorem cand_adopts (c : Cfg) (row : Nat) (fwd : Bool) (k : Nat) (pan : List Tgt) (t : Nat × Nat)
    (hk : k < c.W) (hlen : pan.length = c.W)
    (h : pan.getD (posOf c.W fwd k) none = some t ∨
         (0 < k ∧ pan.getD (posOf c.W fwd (k - 1)) none = some t) ∨
         (k + 1 < c.W ∧ pan.getD (posOf c.W fwd (k + 1)) none = some t))
    (hb : ltOpt (dT c row (posOf c.W fwd k) t) c.max2x2 = true) :
    ∃ t', (cand c row fwd k pan).1.getD (posOf c.W fwd k) none = some t' ∧
      (cand c row fwd k pan).2 = some (dT c row (posOf c.W fwd k) t') ∧
      dT c row (posOf c.W fwd k) t' ≤ dT c row (posOf c.W fwd k) t := by
  have hle := cand_le c row fwd k pan t hk h
  have hJ := cand_J c row fwd k pan (by rw [hlen]; exact posOf_lt _ _ _ hk)
  cases hc : (cand c row fwd k pan).1.getD (posOf c.W fwd k) none with
  | none =>
    rw [hJ.2 hc] at hle
    rw [hle] at hb; cases hb
  | some t' =>
    have h2 := hJ.1 t' hc
    refine ⟨t', rfl, h2, ?_⟩
    rw [h2] at hle
    simp [ltOpt] at hle
    exact hle

/-! ### "Update our proximity value." -/

theorem update_cases (c : Cfg) (s : LineSt) (p : Nat) (pan : List Tgt) (nds : Option Nat) :
    (∃ t d, pan.getD p none = some t ∧ nds = some d ∧ withinMax c d = true ∧ better s.lp p d = true ∧
        update c s p pan nds = { pan := pan, lp := s.lp.set p (some d), nr := s.nr.set p (some t) }) ∨
    (update c s p pan nds = { pan := pan, lp := s.lp, nr := s.nr } ∧
      ∀ t d, pan.getD p none = some t → nds = some d → (withinMax c d && better s.lp p d) = false) := by
  unfold update
  cases hpan : pan.getD p none with
  | none => right; exact ⟨rfl, fun t d h => by cases h⟩
  | some t =>
    cases nds with
    | none => right; exact ⟨rfl, fun t d _ h => by cases h⟩
    | some d =>
      by_cases hc : (withinMax c d && better s.lp p d) = true
      · left
        refine ⟨t, d, rfl, rfl, ?_, ?_, ?_⟩
        · simp only [Bool.and_eq_true] at hc; exact hc.1
        · simp only [Bool.and_eq_true] at hc; exact hc.2
        · simp only [hc, if_true]
      · right
        refine ⟨by simp only [hc]; rfl, fun t' d' h1 h2 => ?_⟩
        cases h1; cases h2
        simpa using hc

/-! ### soundness: what is remembered / recorded is a real target at the recorded distance -/

/-- a target cell of the grid -/
def IsTarget (c : Cfg) (tg : Nat → Nat → Bool) (t : Nat × Nat) : Prop :=
  tg t.1 t.2 = true ∧ t.1 < c.H ∧ t.2 < c.W

def TOK (c : Cfg) (tg : Nat → Nat → Bool) (l : List Tgt) : Prop :=
  ∀ p t, l.getD p none = some t → IsTarget c tg t

theorem TOK_replicate (c : Cfg) (tg : Nat → Nat → Bool) (n : Nat) : TOK c tg (List.replicate n none) := by
  intro p t h
  rw [getD_replicate_none] at h; cases h

theorem TOK_set_some (c : Cfg) (tg : Nat → Nat → Bool) (l : List Tgt) (p : Nat) (t : Nat × Nat)
    (h : TOK c tg l) (ht : IsTarget c tg t) : TOK c tg (l.set p (some t)) := by
  intro q t' hq
  by_cases hpq : p = q
  · subst hpq
    by_cases hlt : p < l.length
    · rw [getD_set_eq _ _ _ _ hlt] at hq; cases hq; exact ht
    · rw [getD_none_of_le _ _ (by simp; omega)] at hq; cases hq
  · rw [getD_set_ne _ _ _ _ _ hpq] at hq; exact h q t' hq

theorem TOK_frame (c : Cfg) (tg : Nat → Nat → Bool) (p : Nat) (pan pan' : List Tgt)
    (h : TOK c tg pan) (f : Frame p pan pan') : TOK c tg pan' := by
  intro q t hq
  by_cases hqp : q = p
  · subst hqp
    obtain ⟨q', hq'⟩ := f.2.2 t hq
    exact h q' t hq'
  · rw [f.2.1 q hqp] at hq; exact h q t hq

/-- a line is sound: every defined squared proximity is the distance to the target `cur` names, that target is
    real and within `max_distance`; an undefined proximity comes with no target -/
def Snd (c : Cfg) (tg : Nat → Nat → Bool) (row : Nat) (lp : List (Option Nat)) (cur : Nat → Tgt) : Prop :=
  ∀ p, p < c.W →
    (∀ d, lp.getD p none = some d →
      ∃ t, cur p = some t ∧ IsTarget c tg t ∧ d = dT c row p t ∧ withinMax c d = true) ∧
    (lp.getD p none = none → cur p = none)

/-- the invariant of a sweep over line `row`; `al` = `output_img[row]` before the sweep -/
structure SOK (c : Cfg) (tg : Nat → Nat → Bool) (row : Nat) (al : List Tgt) (s : LineSt) : Prop where
  lpan : s.pan.length = c.W
  llp : s.lp.length = c.W
  lnr : s.nr.length = c.W
  tok : TOK c tg s.pan
  snd : Snd c tg row s.lp (curOf al s.nr)

/-- `dist(x, x) = 0` (true for the planar metrics and for great-circle) -/
def Cfg.Refl (c : Cfg) : Prop := ∀ r p, dist2 c r p r p = 0

theorem withinMax_zero (c : Cfg) : withinMax c 0 = true := by
  unfold withinMax
  cases c.max2x2 <;> simp

theorem pixel_SOK (c : Cfg) (tg : Nat → Nat → Bool) (row : Nat) (fwd : Bool) (al : List Tgt) (s : LineSt) (k : Nat)
    (hrefl : c.Refl) (hrow : row < c.H) (hk : k < c.W) (h : SOK c tg row al s) :
    SOK c tg row al (pixel c tg row fwd s k) := by
  have hp : posOf c.W fwd k < c.W := posOf_lt _ _ _ hk
  rw [pixel_eq]
  by_cases htg : tg row (posOf c.W fwd k) = true
  · simp only [htg, if_true]
    have hT : IsTarget c tg (row, posOf c.W fwd k) := ⟨htg, hrow, hp⟩
    refine ⟨by simp [h.lpan], by simp [h.llp], by simp [h.lnr], TOK_set_some _ _ _ _ _ h.tok hT, ?_⟩
    intro q hq
    by_cases hqp : posOf c.W fwd k = q
    · subst hqp
      dsimp only
      rw [getD_set_eq _ _ _ _ (by rw [h.llp]; exact hp), curOf_set_eq _ _ _ _ (by rw [h.lnr]; exact hp)]
      refine ⟨fun d hd => ?_, fun hn => by cases hn⟩
      cases hd
      exact ⟨_, rfl, hT, (hrefl row _).symm, withinMax_zero c⟩
    · dsimp only
      rw [getD_set_ne _ _ _ _ _ hqp, curOf_set_ne _ _ _ _ _ hqp]
      exact h.snd q hq
  · simp only [htg, Bool.false_eq_true, if_false]
    have fr := cand_frame c row fwd k s.pan
    have hJ := cand_J c row fwd k s.pan (by rw [h.lpan]; exact hp)
    have htok' : TOK c tg (cand c row fwd k s.pan).1 := TOK_frame c tg _ _ _ h.tok fr
    rcases update_cases c s (posOf c.W fwd k) (cand c row fwd k s.pan).1 (cand c row fwd k s.pan).2 with
      ⟨t, d, hpan, hnds, hwm, hbet, heq⟩ | ⟨heq, _⟩
    · rw [heq]
      refine ⟨by rw [← h.lpan]; exact fr.1, by simp [h.llp], by simp [h.lnr], htok', ?_⟩
      intro q hq
      by_cases hqp : posOf c.W fwd k = q
      · subst hqp
        dsimp only
        rw [getD_set_eq _ _ _ _ (by rw [h.llp]; exact hp), curOf_set_eq _ _ _ _ (by rw [h.lnr]; exact hp)]
        refine ⟨fun d' hd => ?_, fun hn => by cases hn⟩
        cases hd
        have := hJ.1 t hpan
        rw [hnds] at this
        cases this
        exact ⟨t, rfl, htok' _ t hpan, rfl, hwm⟩
      · dsimp only
        rw [getD_set_ne _ _ _ _ _ hqp, curOf_set_ne _ _ _ _ _ hqp]
        exact h.snd q hq
    · rw [heq]
      exact ⟨by rw [← h.lpan]; exact fr.1, h.llp, h.lnr, htok', h.snd⟩

theorem sweepN_SOK (c : Cfg) (tg : Nat → Nat → Bool) (row : Nat) (fwd : Bool) (al : List Tgt) (s0 : LineSt)
    (hrefl : c.Refl) (hrow : row < c.H) (h : SOK c tg row al s0) :
    ∀ n, n ≤ c.W → SOK c tg row al (sweepN c tg row fwd s0 n) := by
  intro n
  induction n with
  | zero => intro _; exact h
  | succ n ih =>
    intro hn
    exact pixel_SOK c tg row fwd al _ n hrefl hrow (by omega) (ih (by omega))

/-- lines as kept between passes -/
structure RowSound (c : Cfg) (tg : Nat → Nat → Bool) (row : Nat) (o : RowOut) : Prop where
  llp : o.lp.length = c.W
  lal : o.al.length = c.W
  snd : Snd c tg row o.lp (fun p => o.al.getD p none)

theorem Snd_congr (c : Cfg) (tg : Nat → Nat → Bool) (row : Nat) (lp : List (Option Nat)) (f g : Nat → Tgt)
    (hfg : ∀ p, f p = g p) (h : Snd c tg row lp f) : Snd c tg row lp g := by
  intro p hp
  rw [← hfg p]; exact h p hp

theorem sweep_SOK (c : Cfg) (tg : Nat → Nat → Bool) (row : Nat) (fwd : Bool) (al pan : List Tgt)
    (lp : List (Option Nat)) (hrefl : c.Refl) (hrow : row < c.H)
    (hpan : pan.length = c.W) (htok : TOK c tg pan) (hlp : lp.length = c.W)
    (hs : Snd c tg row lp (fun p => al.getD p none)) :
    SOK c tg row al (sweep c tg row fwd pan lp) := by
  unfold sweep
  apply sweepN_SOK c tg row fwd al _ hrefl hrow _ c.W (Nat.le_refl _)
  exact ⟨hpan, hlp, by simp, htok, Snd_congr _ _ _ _ _ _ (fun p => (curOf_replicate al c.W p).symm) hs⟩

theorem rowStep_sound (c : Cfg) (tg : Nat → Nat → Bool) (fwdFirst : Bool) (row : Nat) (pan : List Tgt) (o : RowOut)
    (hrefl : c.Refl) (hrow : row < c.H) (hpan : pan.length = c.W) (htok : TOK c tg pan)
    (ho : RowSound c tg row o) :
    (rowStep c tg fwdFirst row pan o).1.length = c.W ∧ TOK c tg (rowStep c tg fwdFirst row pan o).1 ∧
      RowSound c tg row (rowStep c tg fwdFirst row pan o).2 := by
  have h1 := sweep_SOK c tg row fwdFirst o.al pan o.lp hrefl hrow hpan htok ho.llp ho.snd
  have hl1 : o.al.length = (sweep c tg row fwdFirst pan o.lp).nr.length := by rw [ho.lal, h1.lnr]
  have hs1 : Snd c tg row (sweep c tg row fwdFirst pan o.lp).lp
      (fun p => (mergeNr o.al (sweep c tg row fwdFirst pan o.lp).nr).getD p none) :=
    Snd_congr _ _ _ _ _ _ (fun p => (mergeNr_getD _ _ p hl1).symm) h1.snd
  have h2 := sweep_SOK c tg row (!fwdFirst) (mergeNr o.al (sweep c tg row fwdFirst pan o.lp).nr)
    (sweep c tg row fwdFirst pan o.lp).pan (sweep c tg row fwdFirst pan o.lp).lp hrefl hrow h1.lpan h1.tok h1.llp hs1
  have hl2 : (mergeNr o.al (sweep c tg row fwdFirst pan o.lp).nr).length =
      (sweep c tg row (!fwdFirst) (sweep c tg row fwdFirst pan o.lp).pan (sweep c tg row fwdFirst pan o.lp).lp).nr.length := by
    rw [mergeNr_length _ _ hl1, ho.lal, h2.lnr]
  refine ⟨h2.lpan, h2.tok, ⟨h2.llp, ?_, ?_⟩⟩
  · show (mergeNr _ _).length = c.W
    rw [mergeNr_length _ _ hl2, mergeNr_length _ _ hl1, ho.lal]
  · exact Snd_congr _ _ _ _ _ _ (fun p => (mergeNr_getD _ _ p hl2).symm) h2.snd

/-! ### the two passes: induction on the number of lines done -/

theorem getD_append_left' {α} (l l' : List α) (i : Nat) (d : α) (h : i < l.length) : (l ++ l').getD i d = l.getD i d := by
  simp [List.getD, List.getElem?_append_left h]

theorem getD_append_single {α} (l : List α) (x d : α) : (l ++ [x]).getD l.length d = x := by
  simp [List.getD]

theorem tdN_succ (c : Cfg) (tg : Nat → Nat → Bool) (n : Nat) :
    tdN c tg (n + 1) = ((rowStep c tg true n (tdN c tg n).1 (blankRow c)).1,
      (tdN c tg n).2 ++ [(rowStep c tg true n (tdN c tg n).1 (blankRow c)).2]) := rfl

theorem buN_succ (c : Cfg) (tg : Nat → Nat → Bool) (td : List RowOut) (n : Nat) :
    buN c tg td (n + 1) = ((rowStep c tg false (c.H - 1 - n) (buN c tg td n).1 (td.getD (c.H - 1 - n) (blankRow c))).1,
      (rowStep c tg false (c.H - 1 - n) (buN c tg td n).1 (td.getD (c.H - 1 - n) (blankRow c))).2 :: (buN c tg td n).2) := rfl

/-- top-down pass: `P n` holds for the column memory after `n` lines, `Q i` for the i-th line kept -/
theorem tdN_rows (c : Cfg) (tg : Nat → Nat → Bool) (P : Nat → List Tgt → Prop) (Q : Nat → RowOut → Prop)
    (h0 : P 0 (List.replicate c.W none))
    (hstep : ∀ n pan, n < c.H → P n pan →
      P (n + 1) (rowStep c tg true n pan (blankRow c)).1 ∧ Q n (rowStep c tg true n pan (blankRow c)).2) :
    ∀ n, n ≤ c.H → P n (tdN c tg n).1 ∧ (tdN c tg n).2.length = n ∧
      ∀ i, i < n → Q i ((tdN c tg n).2.getD i (blankRow c)) := by
  intro n
  induction n with
  | zero => intro _; exact ⟨h0, rfl, fun i hi => by omega⟩
  | succ n ih =>
    intro hn
    obtain ⟨hP, hlen, hQ⟩ := ih (by omega)
    have hs := hstep n _ (by omega) hP
    rw [tdN_succ]
    refine ⟨hs.1, by simp [hlen], fun i hi => ?_⟩
    dsimp only
    by_cases hin : i < n
    · rw [getD_append_left' _ _ _ _ (by omega)]; exact hQ i hin
    · have : i = (tdN c tg n).2.length := by omega
      rw [this, getD_append_single]
      rw [hlen]; exact hs.2

/-- bottom-up pass: the j-th line kept after `n` lines is line `H - n + j` -/
theorem buN_rows (c : Cfg) (tg : Nat → Nat → Bool) (td : List RowOut) (P : Nat → List Tgt → Prop) (Q : Nat → RowOut → Prop)
    (h0 : P 0 (List.replicate c.W none))
    (hstep : ∀ n pan, n < c.H → P n pan →
      P (n + 1) (rowStep c tg false (c.H - 1 - n) pan (td.getD (c.H - 1 - n) (blankRow c))).1 ∧
      Q (c.H - 1 - n) (rowStep c tg false (c.H - 1 - n) pan (td.getD (c.H - 1 - n) (blankRow c))).2) :
    ∀ n, n ≤ c.H → P n (buN c tg td n).1 ∧ (buN c tg td n).2.length = n ∧
      ∀ j, j < n → Q (c.H - n + j) ((buN c tg td n).2.getD j (blankRow c)) := by
  intro n
  induction n with
  | zero => intro _; exact ⟨h0, rfl, fun i hi => by omega⟩
  | succ n ih =>
    intro hn
    obtain ⟨hP, hlen, hQ⟩ := ih (by omega)
    have hs := hstep n _ (by omega) hP
    rw [buN_succ]
    refine ⟨hs.1, by simp [hlen], fun j hj => ?_⟩
    dsimp only
    cases j with
    | zero =>
      rw [List.getD_cons_zero]
      have : c.H - (n + 1) + 0 = c.H - 1 - n := by omega
      rw [this]; exact hs.2
    | succ j =>
      rw [List.getD_cons_succ]
      have : c.H - (n + 1) + (j + 1) = c.H - n + j := by omega
      rw [this]; exact hQ j (by omega)

/-- both passes: a property `Q2` of every line of the result, from per-line steps -/
theorem run_rows (c : Cfg) (tg : Nat → Nat → Bool)
    (P1 : Nat → List Tgt → Prop) (Q1 : Nat → RowOut → Prop) (P2 : Nat → List Tgt → Prop) (Q2 : Nat → RowOut → Prop)
    (h01 : P1 0 (List.replicate c.W none))
    (hs1 : ∀ n pan, n < c.H → P1 n pan →
      P1 (n + 1) (rowStep c tg true n pan (blankRow c)).1 ∧ Q1 n (rowStep c tg true n pan (blankRow c)).2)
    (h02 : P2 0 (List.replicate c.W none))
    (hs2 : ∀ n pan o, n < c.H → P2 n pan → Q1 (c.H - 1 - n) o →
      P2 (n + 1) (rowStep c tg false (c.H - 1 - n) pan o).1 ∧ Q2 (c.H - 1 - n) (rowStep c tg false (c.H - 1 - n) pan o).2) :
    ∀ r, r < c.H → Q2 r (rowAt (run c tg) r) := by
  intro r hr
  have td := tdN_rows c tg P1 Q1 h01 hs1 c.H (Nat.le_refl _)
  have bu := buN_rows c tg (tdN c tg c.H).2 P2 Q2 h02
    (fun n pan hn hP => hs2 n pan _ hn hP (td.2.2 (c.H - 1 - n) (by omega))) c.H (Nat.le_refl _)
  have := bu.2.2 r hr
  have hidx : c.H - c.H + r = r := by omega
  rw [hidx] at this
  unfold rowAt run
  rw [getD_default_irrel _ _ _ (blankRow c) (by rw [bu.2.1]; exact hr)]
  exact this

theorem RowSound_blank (c : Cfg) (tg : Nat → Nat → Bool) (row : Nat) : RowSound c tg row (blankRow c) := by
  refine ⟨by simp [blankRow], by simp [blankRow], fun p hp => ⟨fun d hd => ?_, fun _ => ?_⟩⟩
  · simp only [blankRow] at hd; rw [getD_replicate_none] at hd; cases hd
  · simp only [blankRow]; exact getD_replicate_none _ _

/-- every line of the result is sound -/
theorem run_sound (c : Cfg) (tg : Nat → Nat → Bool) (hrefl : c.Refl) :
    ∀ r, r < c.H → RowSound c tg r (rowAt (run c tg) r) := by
  apply run_rows c tg (fun _ pan => pan.length = c.W ∧ TOK c tg pan) (RowSound c tg)
    (fun _ pan => pan.length = c.W ∧ TOK c tg pan) (RowSound c tg)
  · exact ⟨by simp, TOK_replicate c tg _⟩
  · intro n pan hn hP
    have := rowStep_sound c tg true n pan (blankRow c) hrefl hn hP.1 hP.2 (RowSound_blank c tg n)
    exact ⟨⟨this.1, this.2.1⟩, this.2.2⟩
  · exact ⟨by simp, TOK_replicate c tg _⟩
  · intro n pan o hn hP ho
    have := rowStep_sound c tg false (c.H - 1 - n) pan o hrefl (by omega) hP.1 hP.2 ho
    exact ⟨⟨this.1, this.2.1⟩, this.2.2⟩

/-- soundness of one cell of the result -/
theorem run_cell_sound (c : Cfg) (tg : Nat → Nat → Bool) (hrefl : c.Refl) (r p : Nat) (hr : r < c.H) (hp : p < c.W) :
    (∀ d, proxAt (run c tg) r p = some d →
      ∃ t, allocAt (run c tg) r p = some t ∧ IsTarget c tg t ∧ d = dT c r p t ∧ withinMax c d = true) ∧
    (proxAt (run c tg) r p = none → allocAt (run c tg) r p = none) :=
  (run_sound c tg hrefl r hr).snd p hp

/-! ### lengths and real targets only (no assumption on the metric) -/

structure LOK (c : Cfg) (tg : Nat → Nat → Bool) (s : LineSt) : Prop where
  lpan : s.pan.length = c.W
  llp : s.lp.length = c.W
  lnr : s.nr.length = c.W
  tok : TOK c tg s.pan

theorem pixel_LOK (c : Cfg) (tg : Nat → Nat → Bool) (row : Nat) (fwd : Bool) (s : LineSt) (k : Nat)
    (hrow : row < c.H) (hk : k < c.W) (h : LOK c tg s) : LOK c tg (pixel c tg row fwd s k) := by
  have hp : posOf c.W fwd k < c.W := posOf_lt _ _ _ hk
  rw [pixel_eq]
  by_cases htg : tg row (posOf c.W fwd k) = true
  · simp only [htg, if_true]
    exact ⟨by simp [h.lpan], by simp [h.llp], by simp [h.lnr], TOK_set_some _ _ _ _ _ h.tok ⟨htg, hrow, hp⟩⟩
  · simp only [htg, Bool.false_eq_true, if_false]
    have fr := cand_frame c row fwd k s.pan
    have htok' : TOK c tg (cand c row fwd k s.pan).1 := TOK_frame c tg _ _ _ h.tok fr
    rcases update_cases c s (posOf c.W fwd k) (cand c row fwd k s.pan).1 (cand c row fwd k s.pan).2 with
      ⟨t, d, _, _, _, _, heq⟩ | ⟨heq, _⟩
    · rw [heq]; exact ⟨by rw [← h.lpan]; exact fr.1, by simp [h.llp], by simp [h.lnr], htok'⟩
    · rw [heq]; exact ⟨by rw [← h.lpan]; exact fr.1, h.llp, h.lnr, htok'⟩

theorem sweepN_LOK (c : Cfg) (tg : Nat → Nat → Bool) (row : Nat) (fwd : Bool) (s0 : LineSt)
    (hrow : row < c.H) (h : LOK c tg s0) : ∀ n, n ≤ c.W → LOK c tg (sweepN c tg row fwd s0 n) := by
  intro n
  induction n with
  | zero => intro _; exact h
  | succ n ih => intro hn; exact pixel_LOK c tg row fwd _ n hrow (by omega) (ih (by omega))

theorem sweep_LOK (c : Cfg) (tg : Nat → Nat → Bool) (row : Nat) (fwd : Bool) (pan : List Tgt) (lp : List (Option Nat))
    (hrow : row < c.H) (hpan : pan.length = c.W) (htok : TOK c tg pan) (hlp : lp.length = c.W) :
    LOK c tg (sweep c tg row fwd pan lp) :=
  sweepN_LOK c tg row fwd _ hrow ⟨hpan, hlp, by simp, htok⟩ c.W (Nat.le_refl _)

/-! ### a defined proximity only ever decreases -/

theorem pixel_pan_other (c : Cfg) (tg : Nat → Nat → Bool) (row : Nat) (fwd : Bool) (s : LineSt) (k q : Nat)
    (hq : q ≠ posOf c.W fwd k) : (pixel c tg row fwd s k).pan.getD q none = s.pan.getD q none := by
  rw [pixel_eq]
  split
  · exact getD_set_ne _ _ _ _ _ (Ne.symm hq)
  · have fr := cand_frame c row fwd k s.pan
    rcases update_cases c s (posOf c.W fwd k) (cand c row fwd k s.pan).1 (cand c row fwd k s.pan).2 with
      ⟨t, d, _, _, _, _, heq⟩ | ⟨heq, _⟩ <;> rw [heq] <;> exact fr.2.1 q hq

theorem pixel_lp_mono (c : Cfg) (tg : Nat → Nat → Bool) (row : Nat) (fwd : Bool) (s : LineSt) (k q d : Nat)
    (h : s.lp.getD q none = some d) : ∃ d', (pixel c tg row fwd s k).lp.getD q none = some d' ∧ d' ≤ d := by
  have hql : q < s.lp.length := by
    apply Classical.byContradiction; intro hn
    rw [getD_none_of_le _ _ (by omega)] at h; cases h
  rw [pixel_eq]
  split
  · dsimp only
    by_cases hqp : posOf c.W fwd k = q
    · subst hqp
      rw [getD_set_eq _ _ _ _ hql]; exact ⟨0, rfl, Nat.zero_le _⟩
    · rw [getD_set_ne _ _ _ _ _ hqp]; exact ⟨d, h, Nat.le_refl _⟩
  · rcases update_cases c s (posOf c.W fwd k) (cand c row fwd k s.pan).1 (cand c row fwd k s.pan).2 with
      ⟨t, d1, _, _, _, hbet, heq⟩ | ⟨heq, _⟩
    · rw [heq]
      dsimp only
      by_cases hqp : posOf c.W fwd k = q
      · subst hqp
        rw [getD_set_eq _ _ _ _ hql]
        refine ⟨d1, rfl, ?_⟩
        unfold better at hbet
        rw [h] at hbet
        simp at hbet; omega
      · rw [getD_set_ne _ _ _ _ _ hqp]; exact ⟨d, h, Nat.le_refl _⟩
    · rw [heq]; exact ⟨d, h, Nat.le_refl _⟩

theorem sweepN_lp_mono (c : Cfg) (tg : Nat → Nat → Bool) (row : Nat) (fwd : Bool) (s0 : LineSt) (q : Nat) :
    ∀ m n d, n ≤ m → (sweepN c tg row fwd s0 n).lp.getD q none = some d →
      ∃ d', (sweepN c tg row fwd s0 m).lp.getD q none = some d' ∧ d' ≤ d := by
  intro m
  induction m with
  | zero =>
    intro n d hn h
    have : n = 0 := by omega
    subst this; exact ⟨d, h, Nat.le_refl _⟩
  | succ m ih =>
    intro n d hn h
    by_cases hnm : n = m + 1
    · subst hnm; exact ⟨d, h, Nat.le_refl _⟩
    · obtain ⟨d1, h1, hle1⟩ := ih n d (by omega) h
      obtain ⟨d2, h2, hle2⟩ := pixel_lp_mono c tg row fwd (sweepN c tg row fwd s0 m) m q d1 h1
      exact ⟨d2, h2, by omega⟩

theorem sweep_lp_mono (c : Cfg) (tg : Nat → Nat → Bool) (row : Nat) (fwd : Bool) (pan : List Tgt)
    (lp : List (Option Nat)) (q d : Nat) (h : lp.getD q none = some d) :
    ∃ d', (sweep c tg row fwd pan lp).lp.getD q none = some d' ∧ d' ≤ d :=
  sweepN_lp_mono c tg row fwd _ q c.W 0 d (Nat.zero_le _) h

theorem rowStep_lp_mono (c : Cfg) (tg : Nat → Nat → Bool) (fwdFirst : Bool) (row : Nat) (pan : List Tgt) (o : RowOut)
    (q d : Nat) (h : o.lp.getD q none = some d) :
    ∃ d', (rowStep c tg fwdFirst row pan o).2.lp.getD q none = some d' ∧ d' ≤ d := by
  obtain ⟨d1, h1, hle1⟩ := sweep_lp_mono c tg row fwdFirst pan o.lp q d h
  obtain ⟨d2, h2, hle2⟩ := sweep_lp_mono c tg row (!fwdFirst) (sweep c tg row fwdFirst pan o.lp).pan _ q d1 h1
  exact ⟨d2, h2, by omega⟩

/-! ### target cells get proximity 0 -/

theorem sweep_zero (c : Cfg) (tg : Nat → Nat → Bool) (row : Nat) (fwd : Bool) (pan : List Tgt)
    (lp : List (Option Nat)) (hrow : row < c.H) (hpan : pan.length = c.W) (htok : TOK c tg pan) (hlp : lp.length = c.W)
    (p : Nat) (hp : p < c.W) (htg : tg row p = true) :
    (sweep c tg row fwd pan lp).lp.getD p none = some 0 := by
  obtain ⟨k, hk, hpk⟩ := posOf_surj c.W fwd p hp
  have hL := sweepN_LOK c tg row fwd { pan := pan, lp := lp, nr := List.replicate c.W none } hrow
    ⟨hpan, hlp, by simp, htok⟩ k (by omega)
  have h1 : (sweepN c tg row fwd { pan := pan, lp := lp, nr := List.replicate c.W none } (k + 1)).lp.getD p none = some 0 := by
    show (pixel c tg row fwd _ k).lp.getD p none = some 0
    rw [pixel_eq, hpk, htg]
    simp only [if_true]
    exact getD_set_eq _ _ _ _ (by rw [hL.llp]; exact hp)
  obtain ⟨d', h2, hle⟩ := sweepN_lp_mono c tg row fwd _ p c.W (k + 1) 0 (by omega) h1
  have : d' = 0 := by omega
  subst this; exact h2

theorem rowStep_LOK (c : Cfg) (tg : Nat → Nat → Bool) (fwdFirst : Bool) (row : Nat) (pan : List Tgt) (o : RowOut)
    (hrow : row < c.H) (hpan : pan.length = c.W) (htok : TOK c tg pan) (hlp : o.lp.length = c.W) :
    (rowStep c tg fwdFirst row pan o).1.length = c.W ∧ TOK c tg (rowStep c tg fwdFirst row pan o).1 ∧
      (rowStep c tg fwdFirst row pan o).2.lp.length = c.W := by
  have h1 := sweep_LOK c tg row fwdFirst pan o.lp hrow hpan htok hlp
  have h2 := sweep_LOK c tg row (!fwdFirst) _ _ hrow h1.lpan h1.tok h1.llp
  exact ⟨h2.lpan, h2.tok, h2.llp⟩

theorem rowStep_zero (c : Cfg) (tg : Nat → Nat → Bool) (fwdFirst : Bool) (row : Nat) (pan : List Tgt) (o : RowOut)
    (hrow : row < c.H) (hpan : pan.length = c.W) (htok : TOK c tg pan) (hlp : o.lp.length = c.W)
    (p : Nat) (hp : p < c.W) (htg : tg row p = true) :
    (rowStep c tg fwdFirst row pan o).2.lp.getD p none = some 0 := by
  have h1 := sweep_LOK c tg row fwdFirst pan o.lp hrow hpan htok hlp
  exact sweep_zero c tg row (!fwdFirst) _ _ hrow h1.lpan h1.tok h1.llp p hp htg

/-- the light invariant of both passes -/
def PL (c : Cfg) (tg : Nat → Nat → Bool) (pan : List Tgt) : Prop := pan.length = c.W ∧ TOK c tg pan

theorem PL_blank (c : Cfg) (tg : Nat → Nat → Bool) : PL c tg (List.replicate c.W none) :=
  ⟨by simp, TOK_replicate c tg _⟩

theorem run_zero (c : Cfg) (tg : Nat → Nat → Bool) (r p : Nat) (hr : r < c.H) (hp : p < c.W)
    (htg : tg r p = true) : proxAt (run c tg) r p = some 0 := by
  have := run_rows c tg (fun _ pan => PL c tg pan) (fun _ o => o.lp.length = c.W)
    (fun _ pan => PL c tg pan) (fun row o => ∀ p, p < c.W → tg row p = true → o.lp.getD p none = some 0)
    (PL_blank c tg)
    (fun n pan hn hP => by
      have := rowStep_LOK c tg true n pan (blankRow c) hn hP.1 hP.2 (by simp [blankRow])
      exact ⟨⟨this.1, this.2.1⟩, this.2.2⟩)
    (PL_blank c tg)
    (fun n pan o hn hP ho => by
      have := rowStep_LOK c tg false (c.H - 1 - n) pan o (by omega) hP.1 hP.2 ho
      exact ⟨⟨this.1, this.2.1⟩, fun p hp htg => rowStep_zero c tg false _ pan o (by omega) hP.1 hP.2 ho p hp htg⟩)
    r hr
  exact this p hp htg

/-! ### how a remembered target spreads: along a line, then down (up) a column -/

/-- every real target is below the `2·max²` bound at (row, q): the memory is never reset there -/
def Good (c : Cfg) (tg : Nat → Nat → Bool) (row q : Nat) : Prop :=
  ∀ t, IsTarget c tg t → ltOpt (dT c row q t) c.max2x2 = true

/-- every real target is within `max_distance` of (row, q) -/
def Good2 (c : Cfg) (tg : Nat → Nat → Bool) (row q : Nat) : Prop :=
  ∀ t, IsTarget c tg t → withinMax c (dT c row q t) = true

theorem pixel_fill (c : Cfg) (tg : Nat → Nat → Bool) (row : Nat) (fwd : Bool) (s : LineSt) (k : Nat)
    (hrow : row < c.H) (hk : k < c.W) (h : LOK c tg s) (hG : Good c tg row (posOf c.W fwd k))
    (hsrc : (∃ t, s.pan.getD (posOf c.W fwd k) none = some t) ∨
            (0 < k ∧ ∃ t, s.pan.getD (posOf c.W fwd (k - 1)) none = some t) ∨
            (k + 1 < c.W ∧ ∃ t, s.pan.getD (posOf c.W fwd (k + 1)) none = some t) ∨
            tg row (posOf c.W fwd k) = true) :
    (∃ t, (pixel c tg row fwd s k).pan.getD (posOf c.W fwd k) none = some t) ∧
    (Good2 c tg row (posOf c.W fwd k) → ∃ d, (pixel c tg row fwd s k).lp.getD (posOf c.W fwd k) none = some d) := by
  have hp : posOf c.W fwd k < c.W := posOf_lt _ _ _ hk
  rw [pixel_eq]
  by_cases htg : tg row (posOf c.W fwd k) = true
  · simp only [htg, if_true]
    exact ⟨⟨_, getD_set_eq _ _ _ _ (by rw [h.lpan]; exact hp)⟩, fun _ => ⟨0, getD_set_eq _ _ _ _ (by rw [h.llp]; exact hp)⟩⟩
  · simp only [htg, Bool.false_eq_true, if_false]
    have hsrc' : ∃ t, IsTarget c tg t ∧ (s.pan.getD (posOf c.W fwd k) none = some t ∨
         (0 < k ∧ s.pan.getD (posOf c.W fwd (k - 1)) none = some t) ∨
         (k + 1 < c.W ∧ s.pan.getD (posOf c.W fwd (k + 1)) none = some t)) := by
      rcases hsrc with ⟨t, ht⟩ | ⟨hk0, t, ht⟩ | ⟨hk1, t, ht⟩ | ht
      · exact ⟨t, h.tok _ t ht, Or.inl ht⟩
      · exact ⟨t, h.tok _ t ht, Or.inr (Or.inl ⟨hk0, ht⟩)⟩
      · exact ⟨t, h.tok _ t ht, Or.inr (Or.inr ⟨hk1, ht⟩)⟩
      · exact absurd ht htg
    obtain ⟨t, hT, hs⟩ := hsrc'
    obtain ⟨t', hc1, hc2, _⟩ := cand_adopts c row fwd k s.pan t hk h.lpan hs (hG t hT)
    have fr := cand_frame c row fwd k s.pan
    have hT' : IsTarget c tg t' := TOK_frame c tg _ _ _ h.tok fr _ t' hc1
    rcases update_cases c s (posOf c.W fwd k) (cand c row fwd k s.pan).1 (cand c row fwd k s.pan).2 with
      ⟨t2, d2, _, _, _, _, heq⟩ | ⟨heq, hno⟩
    · rw [heq]
      exact ⟨⟨t', hc1⟩, fun _ => ⟨d2, getD_set_eq _ _ _ _ (by rw [h.llp]; exact hp)⟩⟩
    · rw [heq]
      refine ⟨⟨t', hc1⟩, fun hG2 => ?_⟩
      have hf := hno t' _ hc1 hc2
      rw [hG2 t' hT', Bool.true_and] at hf
      unfold better at hf
      dsimp only
      cases hl : s.lp.getD (posOf c.W fwd k) none with
      | none => rw [hl] at hf; simp at hf
      | some old => exact ⟨old, rfl⟩

theorem sweepN_pan_untouched (c : Cfg) (tg : Nat → Nat → Bool) (row : Nat) (fwd : Bool) (s0 : LineSt) :
    ∀ n m, n ≤ m → m < c.W →
      (sweepN c tg row fwd s0 n).pan.getD (posOf c.W fwd m) none = s0.pan.getD (posOf c.W fwd m) none := by
  intro n
  induction n with
  | zero => intro m _ _; rfl
  | succ n ih =>
    intro m hnm hm
    show (pixel c tg row fwd _ n).pan.getD _ none = _
    rw [pixel_pan_other c tg row fwd _ n _ (fun he => by
      have := posOf_inj c.W fwd m n hm (by omega) he; omega)]
    exact ih m (by omega) hm

theorem sweepN_fill (c : Cfg) (tg : Nat → Nat → Bool) (row : Nat) (fwd : Bool) (s0 : LineSt)
    (hrow : row < c.H) (h0 : LOK c tg s0) (G : Nat → Prop)
    (hG : ∀ q, q < c.W → G q → Good c tg row q) :
    ∀ n, n ≤ c.W → ∀ j, j < n →
      (∃ i, i ≤ j ∧ ((∃ t, s0.pan.getD (posOf c.W fwd i) none = some t) ∨ tg row (posOf c.W fwd i) = true) ∧
        ∀ i', i ≤ i' → i' ≤ j → G (posOf c.W fwd i')) →
      (∃ t, (sweepN c tg row fwd s0 n).pan.getD (posOf c.W fwd j) none = some t) ∧
      (Good2 c tg row (posOf c.W fwd j) → ∃ d, (sweepN c tg row fwd s0 n).lp.getD (posOf c.W fwd j) none = some d) := by
  intro n
  induction n with
  | zero => intro _ j hj; omega
  | succ n ih =>
    intro hn j hj hsrc
    have hL := sweepN_LOK c tg row fwd s0 hrow h0 n (by omega)
    by_cases hjn : j < n
    · obtain ⟨⟨t, ht⟩, hlp⟩ := ih (by omega) j hjn hsrc
      refine ⟨⟨t, ?_⟩, fun hG2 => ?_⟩
      · show (pixel c tg row fwd _ n).pan.getD _ none = _
        rw [pixel_pan_other c tg row fwd _ n _ (fun he => by
          have := posOf_inj c.W fwd j n (by omega) (by omega) he; omega)]
        exact ht
      · obtain ⟨d, hd⟩ := hlp hG2
        obtain ⟨d', hd', _⟩ := pixel_lp_mono c tg row fwd (sweepN c tg row fwd s0 n) n _ d hd
        exact ⟨d', hd'⟩
    · have hjeq : j = n := by omega
      subst hjeq
      obtain ⟨i, hij, hi, hGi⟩ := hsrc
      have hGood : Good c tg row (posOf c.W fwd j) := hG _ (posOf_lt _ _ _ (by omega)) (hGi j hij (Nat.le_refl _))
      apply pixel_fill c tg row fwd _ j hrow (by omega) hL hGood
      by_cases hij' : i = j
      · subst hij'
        rcases hi with ⟨t, ht⟩ | ht
        · left
          exact ⟨t, by rw [sweepN_pan_untouched c tg row fwd s0 i i (Nat.le_refl _) (by omega)]; exact ht⟩
        · right; right; right; exact ht
      · right; left
        refine ⟨by omega, ?_⟩
        exact (ih (by omega) (j - 1) (by omega) ⟨i, by omega, hi, fun i' h1 h2 => hGi i' h1 (by omega)⟩).1

/-- one sweep: a target remembered at (or sitting on) column `c0` upstream of column `p` reaches `p` when every
    column from `c0` to `p` is `Good` -/
theorem sweep_fill_col (c : Cfg) (tg : Nat → Nat → Bool) (row : Nat) (fwd : Bool) (pan : List Tgt) (lp : List (Option Nat))
    (hrow : row < c.H) (hpan : pan.length = c.W) (htok : TOK c tg pan) (hlp : lp.length = c.W)
    (p c0 : Nat) (hp : p < c.W) (hc0 : c0 < c.W)
    (hup : if fwd then c0 ≤ p else p ≤ c0)
    (hsrc : (∃ t, pan.getD c0 none = some t) ∨ tg row c0 = true)
    (hG : ∀ q, q < c.W → ((c0 ≤ q ∧ q ≤ p) ∨ (p ≤ q ∧ q ≤ c0)) → Good c tg row q) :
    (∃ t, (sweep c tg row fwd pan lp).pan.getD p none = some t) ∧
    (Good2 c tg row p → ∃ d, (sweep c tg row fwd pan lp).lp.getD p none = some d) := by
  have h0 : LOK c tg { pan := pan, lp := lp, nr := List.replicate c.W none } := ⟨hpan, hlp, by simp, htok⟩
  have key := sweepN_fill c tg row fwd _ hrow h0 (fun q => (c0 ≤ q ∧ q ≤ p) ∨ (p ≤ q ∧ q ≤ c0)) hG c.W (Nat.le_refl _)
  unfold sweep
  cases fwd
  · simp only [Bool.false_eq_true, if_false] at hup
    have hpos : ∀ i, posOf c.W false i = c.W - 1 - i := fun i => by simp [posOf]
    have := key (c.W - 1 - p) (by omega) ⟨c.W - 1 - c0, by omega, by
      rw [hpos]
      have : c.W - 1 - (c.W - 1 - c0) = c0 := by omega
      rw [this]; exact hsrc, fun i' h1 h2 => by rw [hpos]; right; omega⟩
    rw [hpos] at this
    have hpp : c.W - 1 - (c.W - 1 - p) = p := by omega
    rw [hpp] at this
    exact this
  · simp only [if_true] at hup
    have hpos : ∀ i, posOf c.W true i = i := fun i => by simp [posOf]
    have := key p hp ⟨c0, hup, by rw [hpos]; exact hsrc, fun i' h1 h2 => by rw [hpos]; left; omega⟩
    rw [hpos] at this
    exact this

/-- one raster line in one pass (two sweeps): column `p` ends up remembering a target when it did before
    (`c0 = p`) or when the line has a target at column `c0`, provided the columns in between are `Good` -/
theorem rowStep_fill (c : Cfg) (tg : Nat → Nat → Bool) (fwdFirst : Bool) (row : Nat) (pan : List Tgt) (o : RowOut)
    (hrow : row < c.H) (hpan : pan.length = c.W) (htok : TOK c tg pan) (hlp : o.lp.length = c.W)
    (p c0 : Nat) (hp : p < c.W) (hc0 : c0 < c.W)
    (hsrc : ((∃ t, pan.getD p none = some t) ∧ c0 = p) ∨ tg row c0 = true)
    (hG : ∀ q, q < c.W → ((c0 ≤ q ∧ q ≤ p) ∨ (p ≤ q ∧ q ≤ c0)) → Good c tg row q) :
    (∃ t, (rowStep c tg fwdFirst row pan o).1.getD p none = some t) ∧
    (Good2 c tg row p → ∃ d, (rowStep c tg fwdFirst row pan o).2.lp.getD p none = some d) := by
  have h1 := sweep_LOK c tg row fwdFirst pan o.lp hrow hpan htok hlp
  have hGp : ∀ q, q < c.W → ((p ≤ q ∧ q ≤ p) ∨ (p ≤ q ∧ q ≤ p)) → Good c tg row q := fun q hq hb => by
    have : q = p := by omega
    subst this
    exact hG q hq (by omega)
  -- the second sweep keeps what the first one achieved
  have second : (∃ t, (sweep c tg row fwdFirst pan o.lp).pan.getD p none = some t) →
      (∃ t, (rowStep c tg fwdFirst row pan o).1.getD p none = some t) ∧
      (Good2 c tg row p → ∃ d, (rowStep c tg fwdFirst row pan o).2.lp.getD p none = some d) := fun hs =>
    sweep_fill_col c tg row (!fwdFirst) _ _ hrow h1.lpan h1.tok h1.llp p p hp hp
      (by cases fwdFirst <;> simp) (Or.inl hs) hGp
  rcases hsrc with ⟨hs, hcp⟩ | htg
  · subst hcp
    exact second (sweep_fill_col c tg row fwdFirst pan o.lp hrow hpan htok hlp c0 c0 hp hp
      (by cases fwdFirst <;> simp) (Or.inl hs) hGp).1
  · by_cases hup : (if fwdFirst then c0 ≤ p else p ≤ c0)
    · exact second (sweep_fill_col c tg row fwdFirst pan o.lp hrow hpan htok hlp p c0 hp hc0 hup (Or.inr htg) hG).1
    · exact sweep_fill_col c tg row (!fwdFirst) _ _ hrow h1.lpan h1.tok h1.llp p c0 hp hc0
        (by cases fwdFirst <;> simp at hup ⊢ <;> omega) (Or.inr htg) hG

/-- **reach**: a target at (r0, c0) gives the cell (r, p) a defined proximity when no reset can happen along
    the line r0 from c0 to p and along the column p from r0 to r, and the cell is within `max_distance` of every target -/
theorem run_reach (c : Cfg) (tg : Nat → Nat → Bool) (r0 c0 r p : Nat) (ht0 : IsTarget c tg (r0, c0))
    (hr : r < c.H) (hp : p < c.W)
    (hrowG : ∀ q, q < c.W → ((c0 ≤ q ∧ q ≤ p) ∨ (p ≤ q ∧ q ≤ c0)) → Good c tg r0 q)
    (hcolG : ∀ row, ((r0 ≤ row ∧ row ≤ r) ∨ (r ≤ row ∧ row ≤ r0)) → Good c tg row p)
    (hfin : Good2 c tg r p) : ∃ d, proxAt (run c tg) r p = some d := by
  have hr0 : r0 < c.H := ht0.2.1
  have hc0 : c0 < c.W := ht0.2.2
  have hGp : ∀ row, ((r0 ≤ row ∧ row ≤ r) ∨ (r ≤ row ∧ row ≤ r0)) →
      ∀ q, q < c.W → ((p ≤ q ∧ q ≤ p) ∨ (p ≤ q ∧ q ≤ p)) → Good c tg row q := fun row hb q hq hq' => by
    have : q = p := by omega
    subst this; exact hcolG row hb
  by_cases hle : r0 ≤ r
  · -- the top-down pass reaches (r, p); the bottom-up pass keeps it
    have := run_rows c tg
      (fun n pan => PL c tg pan ∧ (r0 < n → n ≤ r + 1 → ∃ t, pan.getD p none = some t))
      (fun row o => o.lp.length = c.W ∧ (row = r → ∃ d, o.lp.getD p none = some d))
      (fun _ pan => PL c tg pan)
      (fun row o => row = r → ∃ d, o.lp.getD p none = some d)
      ⟨PL_blank c tg, fun h => by omega⟩
      (fun n pan hn hP => by
        have hl := rowStep_LOK c tg true n pan (blankRow c) hn hP.1.1 hP.1.2 (by simp [blankRow])
        by_cases hin : r0 ≤ n ∧ n ≤ r
        · have hf : (∃ t, (rowStep c tg true n pan (blankRow c)).1.getD p none = some t) ∧
              (Good2 c tg n p → ∃ d, (rowStep c tg true n pan (blankRow c)).2.lp.getD p none = some d) := by
            by_cases hn0 : n = r0
            · subst hn0
              exact rowStep_fill c tg true n pan (blankRow c) hn hP.1.1 hP.1.2 (by simp [blankRow]) p c0 hp hc0
                (Or.inr ht0.1) hrowG
            · exact rowStep_fill c tg true n pan (blankRow c) hn hP.1.1 hP.1.2 (by simp [blankRow]) p p hp hp
                (Or.inl ⟨hP.2 (by omega) (by omega), rfl⟩) (hGp n (by omega))
          exact ⟨⟨⟨hl.1, hl.2.1⟩, fun _ _ => hf.1⟩, hl.2.2, fun hnr => hf.2 (hnr ▸ hfin)⟩
        · exact ⟨⟨⟨hl.1, hl.2.1⟩, fun h1 h2 => by omega⟩, hl.2.2, fun hnr => by omega⟩)
      (PL_blank c tg)
      (fun n pan o hn hP ho => by
        have hl := rowStep_LOK c tg false (c.H - 1 - n) pan o (by omega) hP.1 hP.2 ho.1
        refine ⟨⟨hl.1, hl.2.1⟩, fun hnr => ?_⟩
        obtain ⟨d, hd⟩ := ho.2 hnr
        obtain ⟨d', hd', _⟩ := rowStep_lp_mono c tg false (c.H - 1 - n) pan o p d hd
        exact ⟨d', hd'⟩)
      r hr
    exact this rfl
  · -- the bottom-up pass reaches (r, p)
    have := run_rows c tg
      (fun _ pan => PL c tg pan)
      (fun _ o => o.lp.length = c.W)
      (fun n pan => PL c tg pan ∧ (c.H - 1 - r0 < n → n ≤ c.H - 1 - r + 1 → ∃ t, pan.getD p none = some t))
      (fun row o => row = r → ∃ d, o.lp.getD p none = some d)
      (PL_blank c tg)
      (fun n pan hn hP => by
        have hl := rowStep_LOK c tg true n pan (blankRow c) hn hP.1 hP.2 (by simp [blankRow])
        exact ⟨⟨hl.1, hl.2.1⟩, hl.2.2⟩)
      ⟨PL_blank c tg, fun h => by omega⟩
      (fun n pan o hn hP ho => by
        have hrow : c.H - 1 - n < c.H := by omega
        have hl := rowStep_LOK c tg false (c.H - 1 - n) pan o hrow hP.1.1 hP.1.2 ho
        by_cases hin : r ≤ c.H - 1 - n ∧ c.H - 1 - n ≤ r0
        · have hf : (∃ t, (rowStep c tg false (c.H - 1 - n) pan o).1.getD p none = some t) ∧
              (Good2 c tg (c.H - 1 - n) p → ∃ d, (rowStep c tg false (c.H - 1 - n) pan o).2.lp.getD p none = some d) := by
            by_cases hn0 : c.H - 1 - n = r0
            · rw [hn0]
              exact rowStep_fill c tg false r0 pan o hr0 hP.1.1 hP.1.2 ho p c0 hp hc0 (Or.inr ht0.1) hrowG
            · exact rowStep_fill c tg false (c.H - 1 - n) pan o hrow hP.1.1 hP.1.2 ho p p hp hp
                (Or.inl ⟨hP.2 (by omega) (by omega), rfl⟩) (hGp _ (by omega))
          exact ⟨⟨⟨hl.1, hl.2.1⟩, fun _ _ => hf.1⟩, fun hnr => hf.2 (hnr ▸ hfin)⟩
        · exact ⟨⟨⟨hl.1, hl.2.1⟩, fun h1 h2 => by omega⟩, fun hnr => by omega⟩)
      r hr
    exact this rfl

/-! ### the exact nearest distance -/

theorem mem_cells (c : Cfg) (t : Nat × Nat) : t ∈ cells c ↔ t.1 < c.H ∧ t.2 < c.W := by
  obtain ⟨a, b⟩ := t
  simp only [cells, List.mem_flatMap, List.mem_map, List.mem_range, Prod.mk.injEq]
  constructor
  · rintro ⟨r, hr, p, hp, h1, h2⟩; subst h1; subst h2; exact ⟨hr, hp⟩
  · rintro ⟨h1, h2⟩; exact ⟨a, h1, b, h2, rfl, rfl⟩

/-- one step of the fold in `exact` -/
def exStep (c : Cfg) (tg : Nat → Nat → Bool) (r p : Nat) (acc : Option Nat) (t : Nat × Nat) : Option Nat :=
  if tg t.1 t.2 then minOpt acc (dist2 c t.1 t.2 r p) else acc

theorem exact_eq (c : Cfg) (tg : Nat → Nat → Bool) (r p : Nat) :
    exact c tg r p = (cells c).foldl (exStep c tg r p) none := rfl

theorem exFold_mono (c : Cfg) (tg : Nat → Nat → Bool) (r p : Nat) (l : List (Nat × Nat)) :
    ∀ acc e, acc = some e → ∃ e', l.foldl (exStep c tg r p) acc = some e' ∧ e' ≤ e := by
  induction l with
  | nil => intro acc e h; exact ⟨e, h, Nat.le_refl _⟩
  | cons t l ih =>
    intro acc e h
    subst h
    simp only [List.foldl_cons]
    unfold exStep
    split
    · obtain ⟨e', h1, h2⟩ := ih _ (min e (dist2 c t.1 t.2 r p)) rfl
      exact ⟨e', h1, Nat.le_trans h2 (Nat.min_le_left _ _)⟩
    · exact ih _ e rfl

theorem exFold_le (c : Cfg) (tg : Nat → Nat → Bool) (r p : Nat) (l : List (Nat × Nat)) :
    ∀ acc t, t ∈ l → tg t.1 t.2 = true →
      ∃ e, l.foldl (exStep c tg r p) acc = some e ∧ e ≤ dist2 c t.1 t.2 r p := by
  induction l with
  | nil => intro acc t h; cases h
  | cons x l ih =>
    intro acc t hm htg
    simp only [List.foldl_cons]
    rcases List.mem_cons.mp hm with hx | hl
    · subst hx
      have hs : exStep c tg r p acc t = minOpt acc (dist2 c t.1 t.2 r p) := by simp [exStep, htg]
      rw [hs]
      cases acc with
      | none => exact exFold_mono c tg r p l _ _ rfl
      | some b =>
        obtain ⟨e', h1, h2⟩ := exFold_mono c tg r p l _ (min b (dist2 c t.1 t.2 r p)) rfl
        exact ⟨e', h1, Nat.le_trans h2 (Nat.min_le_right _ _)⟩
    · exact ih _ t hl htg

theorem exFold_attained (c : Cfg) (tg : Nat → Nat → Bool) (r p : Nat) (l : List (Nat × Nat)) :
    ∀ acc e, l.foldl (exStep c tg r p) acc = some e →
      acc = some e ∨ ∃ t, t ∈ l ∧ tg t.1 t.2 = true ∧ e = dist2 c t.1 t.2 r p := by
  induction l with
  | nil => intro acc e h; exact Or.inl h
  | cons x l ih =>
    intro acc e h
    simp only [List.foldl_cons] at h
    rcases ih _ e h with h1 | ⟨t, ht, htg, he⟩
    · unfold exStep at h1
      split at h1
      · rename_i hx
        cases acc with
        | none =>
          simp only [minOpt, Option.some.injEq] at h1
          exact Or.inr ⟨x, List.mem_cons_self, hx, h1.symm⟩
        | some b =>
          simp only [minOpt, Option.some.injEq] at h1
          by_cases hb : b ≤ dist2 c x.1 x.2 r p
          · left; rw [Nat.min_eq_left hb] at h1; rw [h1]
          · right
            rw [Nat.min_eq_right (by omega)] at h1
            exact ⟨x, List.mem_cons_self, hx, h1.symm⟩
      · exact Or.inl h1
    · exact Or.inr ⟨t, List.mem_cons_of_mem _ ht, htg, he⟩

/-- the exact nearest distance is at most the distance to any target of the grid -/
theorem exact_le (c : Cfg) (tg : Nat → Nat → Bool) (r p : Nat) (t : Nat × Nat) (ht : IsTarget c tg t) :
    ∃ e, exact c tg r p = some e ∧ e ≤ dT c r p t := by
  rw [exact_eq]
  exact exFold_le c tg r p (cells c) none t ((mem_cells c t).mpr ⟨ht.2.1, ht.2.2⟩) ht.1

/-- ... and it is the distance to some target of the grid -/
theorem exact_attained (c : Cfg) (tg : Nat → Nat → Bool) (r p e : Nat) (h : exact c tg r p = some e) :
    ∃ t, IsTarget c tg t ∧ e = dT c r p t := by
  rw [exact_eq] at h
  rcases exFold_attained c tg r p (cells c) none e h with h1 | ⟨t, ht, htg, he⟩
  · cases h1
  · exact ⟨t, ⟨htg, ((mem_cells c t).mp ht).1, ((mem_cells c t).mp ht).2⟩, he⟩

theorem exact_none (c : Cfg) (tg : Nat → Nat → Bool) (r p : Nat) (h : exact c tg r p = none) :
    ∀ t, ¬ IsTarget c tg t := by
  intro t ht
  obtain ⟨e, he, _⟩ := exact_le c tg r p t ht
  rw [h] at he; cases he

/-! ### planar metrics -/

def Cfg.Planar (c : Cfg) : Prop := c.metric = .euclid ∨ c.metric = .manh

theorem adiff_self (a : Nat) : adiff a a = 0 := by simp [adiff]

theorem adiff_eq_zero (a b : Nat) (h : adiff a b = 0) : a = b := by
  unfold adiff at h; omega

theorem planar_refl (c : Cfg) (h : c.Planar) : c.Refl := by
  intro r p
  unfold dist2
  rcases h with h | h <;> simp [h, adiff_self]

/-- distinct cells are at a positive distance (positive coordinate steps) -/
theorem planar_sep (c : Cfg) (h : c.Planar) (hsx : 0 < c.sx) (hsy : 0 < c.sy) (r1 c1 r2 c2 : Nat)
    (hd : dist2 c r1 c1 r2 c2 = 0) : r1 = r2 ∧ c1 = c2 := by
  unfold dist2 at hd
  have key : adiff c1 c2 * c.sx = 0 ∧ adiff r1 r2 * c.sy = 0 := by
    rcases h with h | h
    · rw [h] at hd
      simp only at hd
      have h1 := Nat.eq_zero_of_add_eq_zero_right hd
      have h2 := Nat.eq_zero_of_add_eq_zero_left hd
      exact ⟨by rcases Nat.mul_eq_zero.mp h1 with h | h <;> exact h, by rcases Nat.mul_eq_zero.mp h2 with h | h <;> exact h⟩
    · rw [h] at hd
      simp only at hd
      have h0 : adiff c1 c2 * c.sx + adiff r1 r2 * c.sy = 0 := by
        rcases Nat.mul_eq_zero.mp hd with h | h <;> exact h
      exact ⟨Nat.eq_zero_of_add_eq_zero_right h0, Nat.eq_zero_of_add_eq_zero_left h0⟩
  constructor
  · apply adiff_eq_zero
    rcases Nat.mul_eq_zero.mp key.2 with h | h
    · exact h
    · omega
  · apply adiff_eq_zero
    rcases Nat.mul_eq_zero.mp key.1 with h | h
    · exact h
    · omega

/-- planar distances grow with the row and column offsets -/
theorem planar_mono (c : Cfg) (h : c.Planar) (r0 c0 r1 c1 r2 c2 : Nat)
    (hr : adiff r0 r1 ≤ adiff r0 r2) (hc : adiff c0 c1 ≤ adiff c0 c2) :
    dist2 c r0 c0 r1 c1 ≤ dist2 c r0 c0 r2 c2 := by
  unfold dist2
  have hx : adiff c0 c1 * c.sx ≤ adiff c0 c2 * c.sx := Nat.mul_le_mul_right _ hc
  have hy : adiff r0 r1 * c.sy ≤ adiff r0 r2 * c.sy := Nat.mul_le_mul_right _ hr
  rcases h with h | h
  · rw [h]
    exact Nat.add_le_add (Nat.mul_le_mul hx hx) (Nat.mul_le_mul hy hy)
  · rw [h]
    exact Nat.mul_le_mul (Nat.add_le_add hx hy) (Nat.add_le_add hx hy)

/-! ### the model only looks at the target predicate inside the grid -/

/-- two target predicates that agree on the grid -/
def SameOnGrid (c : Cfg) (tg tg' : Nat → Nat → Bool) : Prop := ∀ r p, r < c.H → p < c.W → tg r p = tg' r p

theorem pixel_congr (c : Cfg) (tg tg' : Nat → Nat → Bool) (h : SameOnGrid c tg tg') (row : Nat) (fwd : Bool)
    (s : LineSt) (k : Nat) (hrow : row < c.H) (hk : k < c.W) :
    pixel c tg row fwd s k = pixel c tg' row fwd s k := by
  rw [pixel_eq, pixel_eq, h row _ hrow (posOf_lt _ _ _ hk)]

theorem sweepN_congr (c : Cfg) (tg tg' : Nat → Nat → Bool) (h : SameOnGrid c tg tg') (row : Nat) (fwd : Bool)
    (s0 : LineSt) (hrow : row < c.H) : ∀ n, n ≤ c.W → sweepN c tg row fwd s0 n = sweepN c tg' row fwd s0 n := by
  intro n
  induction n with
  | zero => intro _; rfl
  | succ n ih =>
    intro hn
    show pixel c tg row fwd (sweepN c tg row fwd s0 n) n = pixel c tg' row fwd (sweepN c tg' row fwd s0 n) n
    rw [ih (by omega), pixel_congr c tg tg' h row fwd _ n hrow (by omega)]

theorem rowStep_congr (c : Cfg) (tg tg' : Nat → Nat → Bool) (h : SameOnGrid c tg tg') (fwdFirst : Bool) (row : Nat)
    (pan : List Tgt) (o : RowOut) (hrow : row < c.H) :
    rowStep c tg fwdFirst row pan o = rowStep c tg' fwdFirst row pan o := by
  unfold rowStep sweep
  simp only [sweepN_congr c tg tg' h row _ _ hrow c.W (Nat.le_refl _)]

theorem tdN_congr (c : Cfg) (tg tg' : Nat → Nat → Bool) (h : SameOnGrid c tg tg') :
    ∀ n, n ≤ c.H → tdN c tg n = tdN c tg' n := by
  intro n
  induction n with
  | zero => intro _; rfl
  | succ n ih =>
    intro hn
    rw [tdN_succ, tdN_succ, ih (by omega), rowStep_congr c tg tg' h true n _ _ (by omega)]

theorem buN_congr (c : Cfg) (tg tg' : Nat → Nat → Bool) (h : SameOnGrid c tg tg') (td : List RowOut) :
    ∀ n, n ≤ c.H → buN c tg td n = buN c tg' td n := by
  intro n
  induction n with
  | zero => intro _; rfl
  | succ n ih =>
    intro hn
    rw [buN_succ, buN_succ, ih (by omega), rowStep_congr c tg tg' h false _ _ _ (by omega)]

theorem run_congr (c : Cfg) (tg tg' : Nat → Nat → Bool) (h : SameOnGrid c tg tg') : run c tg = run c tg' := by
  unfold run
  rw [tdN_congr c tg tg' h c.H (Nat.le_refl _), buN_congr c tg tg' h _ c.H (Nat.le_refl _)]

theorem foldl_congr_mem {α β} (f g : β → α → β) (l : List α) (h : ∀ acc x, x ∈ l → f acc x = g acc x) :
    ∀ a, l.foldl f a = l.foldl g a := by
  induction l with
  | nil => intro a; rfl
  | cons x l ih =>
    intro a
    simp only [List.foldl_cons]
    rw [h a x List.mem_cons_self]
    exact ih (fun acc y hy => h acc y (List.mem_cons_of_mem _ hy)) _

theorem exact_congr (c : Cfg) (tg tg' : Nat → Nat → Bool) (h : SameOnGrid c tg tg') (r p : Nat) :
    exact c tg r p = exact c tg' r p := by
  rw [exact_eq, exact_eq]
  apply foldl_congr_mem
  intro acc x hx
  unfold exStep
  rw [h x.1 x.2 ((mem_cells c x).mp hx).1 ((mem_cells c x).mp hx).2]

theorem exactCut_congr (c : Cfg) (tg tg' : Nat → Nat → Bool) (h : SameOnGrid c tg tg') (r p : Nat) :
    exactCut c tg r p = exactCut c tg' r p := by
  unfold exactCut
  rw [exact_congr c tg tg' h]

/-! ### every target layout is `layoutOf c m` for some mask `m < 2^(H·W)` -/

theorem bit_eq (m i : Nat) : ((m >>> i) % 2 == 1) = m.testBit i := by
  rw [Nat.testBit_eq_decide_div_mod_eq, Nat.shiftRight_eq_div_pow]
  rw [Bool.eq_iff_iff]
  simp

theorem bits_surj : ∀ (n : Nat) (f : Nat → Bool), ∃ m, m < 2 ^ n ∧ ∀ i, i < n → m.testBit i = f i := by
  intro n
  induction n with
  | zero => intro f; exact ⟨0, by simp, fun i hi => by omega⟩
  | succ n ih =>
    intro f
    obtain ⟨m, hm, hbits⟩ := ih f
    by_cases hf : f n = true
    · refine ⟨2 ^ n + m, by rw [Nat.pow_succ]; omega, fun i hi => ?_⟩
      by_cases hin : i < n
      · rw [Nat.testBit_two_pow_add_gt hin]; exact hbits i hin
      · have : i = n := by omega
        subst this
        rw [Nat.testBit_two_pow_add_eq, Nat.testBit_lt_two_pow hm, hf]; rfl
    · refine ⟨m, by rw [Nat.pow_succ]; omega, fun i hi => ?_⟩
      by_cases hin : i < n
      · exact hbits i hin
      · have : i = n := by omega
        subst this
        rw [Nat.testBit_lt_two_pow hm]
        simp at hf; exact hf.symm

theorem layout_surj (c : Cfg) (tg : Nat → Nat → Bool) :
    ∃ m, m < 2 ^ (c.H * c.W) ∧ SameOnGrid c tg (layoutOf c m) := by
  obtain ⟨m, hm, hbits⟩ := bits_surj (c.H * c.W) (fun i => tg (i / c.W) (i % c.W))
  refine ⟨m, hm, fun r p hr hp => ?_⟩
  unfold layoutOf
  have hW : 0 < c.W := by omega
  have hi : r * c.W + p < c.H * c.W := by
    have : (r + 1) * c.W ≤ c.H * c.W := Nat.mul_le_mul_right _ hr
    rw [Nat.add_mul] at this
    omega
  have hb := hbits (r * c.W + p) hi
  have h1 : (r * c.W + p) / c.W = r := by
    rw [Nat.add_comm, Nat.add_mul_div_right _ _ hW, Nat.div_eq_of_lt hp, Nat.zero_add]
  have h2 : (r * c.W + p) % c.W = p := by
    rw [Nat.add_comm, Nat.add_mul_mod_self_right, Nat.mod_eq_of_lt hp]
  rw [h1, h2] at hb
  simp only [hr, hp, decide_true, Bool.true_and, bit_eq]
  exact hb.symm

/-- from the finite table to every target predicate -/
theorem checkAll_spec (c : Cfg) (h : checkAll c = true) (tg : Nat → Nat → Bool) (r p : Nat)
    (hr : r < c.H) (hp : p < c.W) : proxAt (run c tg) r p = exactCut c tg r p := by
  obtain ⟨m, hm, hsame⟩ := layout_surj c tg
  rw [run_congr c tg _ hsame, exactCut_congr c tg _ hsame]
  unfold checkAll at h
  rw [List.all_eq_true] at h
  have h1 := h m (List.mem_range.mpr hm)
  unfold checkLayout at h1
  simp only [List.all_eq_true, List.mem_range] at h1
  have h2 := h1 r hr p hp
  exact eq_of_beq h2

end XrsVerif.Prox
