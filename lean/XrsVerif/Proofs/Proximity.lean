import XrsVerif.Model.Proximity
/-
  Helper lemmas for Props/C06.lean (core Lean only).

  Layers: list access → the candidate phase of one pixel (`cand`) → one pixel → a sweep (`sweepN`,
  induction on the number of pixels done) → a raster line in one pass (`rowStep`) → the two passes
  (`tdN`, `buN`, induction on the number of lines done) → `run`.
-/
set_option linter.unusedVariables false
namespace XrsVerif.Prox

/-! ### list access -/

theorem getD_set_eq {α} (l : List α) (p : Nat) (v d : α) (h : p < l.length) : (l.set p v).getD p d = v := by
  simp [List.getD, h]

theorem getD_set_ne {α} (l : List α) (p q : Nat) (v d : α) (h : p ≠ q) : (l.set p v).getD q d = l.getD q d := by
  simp [List.getD, List.getElem?_set_ne h]

theorem getD_replicate_none {α} (n p : Nat) : (List.replicate n (none : Option α)).getD p none = none := by
  simp only [List.getD, List.getElem?_replicate]
  split <;> rfl

theorem getD_default_irrel {α} (l : List α) (i : Nat) (d1 d2 : α) (h : i < l.length) : l.getD i d1 = l.getD i d2 := by
  simp [List.getD, h]

theorem getD_none_of_le {α} (l : List (Option α)) (p : Nat) (h : l.length ≤ p) : l.getD p none = none := by
  simp [List.getD, h]

/-- the target `output_img` holds after merging the `nearest` arrays of a sweep -/
def curOf (al nr : List Tgt) (p : Nat) : Tgt :=
  match nr.getD p none with
  | some t => some t
  | none => al.getD p none

theorem mergeNr_length (al nr : List Tgt) (h : al.length = nr.length) : (mergeNr al nr).length = al.length := by
  simp [mergeNr, h]

theorem mergeNr_getD (al nr : List Tgt) (p : Nat) (h : al.length = nr.length) :
    (mergeNr al nr).getD p none = curOf al nr p := by
  unfold mergeNr curOf
  by_cases hp : p < al.length
  · have hp' : p < nr.length := h ▸ hp
    simp only [List.getD, List.getElem?_zipWith, List.getElem?_eq_getElem hp, List.getElem?_eq_getElem hp',
      Option.getD_some]
    cases nr[p] <;> rfl
  · have hp' : ¬ p < nr.length := h ▸ hp
    have h1 : al[p]? = none := by simp; omega
    have h2 : nr[p]? = none := by simp; omega
    simp [List.getD, List.getElem?_zipWith, h1, h2]

theorem curOf_replicate (al : List Tgt) (n p : Nat) : curOf al (List.replicate n none) p = al.getD p none := by
  unfold curOf
  rw [getD_replicate_none]

theorem curOf_set_eq (al nr : List Tgt) (p : Nat) (t : Nat × Nat) (h : p < nr.length) :
    curOf al (nr.set p (some t)) p = some t := by
  unfold curOf
  rw [getD_set_eq _ _ _ _ h]

theorem curOf_set_ne (al nr : List Tgt) (p q : Nat) (v : Tgt) (h : p ≠ q) :
    curOf al (nr.set p v) q = curOf al nr q := by
  unfold curOf
  rw [getD_set_ne _ _ _ _ _ h]

/-! ### positions -/

theorem posOf_lt (W : Nat) (fwd : Bool) (k : Nat) (h : k < W) : posOf W fwd k < W := by
  unfold posOf
  split <;> omega

theorem posOf_inj (W : Nat) (fwd : Bool) (j k : Nat) (hj : j < W) (hk : k < W)
    (h : posOf W fwd j = posOf W fwd k) : j = k := by
  unfold posOf at h
  split at h <;> omega

/-- every column is the position of exactly one step of a sweep -/
theorem posOf_surj (W : Nat) (fwd : Bool) (p : Nat) (h : p < W) : ∃ k, k < W ∧ posOf W fwd k = p := by
  cases fwd
  · exact ⟨W - 1 - p, by omega, by simp [posOf]; omega⟩
  · exact ⟨p, h, by simp [posOf]⟩

theorem adiff_posOf (W : Nat) (fwd : Bool) (j k : Nat) (hj : j < W) (hk : k < W) :
    adiff (posOf W fwd j) (posOf W fwd k) = adiff j k := by
  unfold posOf adiff
  split <;> omega

/-! ### the candidate phase of one pixel -/

/-- the squared distance from a remembered target to the pixel (row, p) -/
def dT (c : Cfg) (row p : Nat) (t : Nat × Nat) : Nat := dist2 c t.1 t.2 row p

/-- the three candidate steps of pixel `k`: above, previous in sweep order, next in sweep order -/
def cand (c : Cfg) (row : Nat) (fwd : Bool) (k : Nat) (pan : List Tgt) : List Tgt × Option Nat :=
  let p := posOf c.W fwd k
  let a := fromAbove c row p pan c.max2x2
  let b := stepNb c row p (k == 0) (posOf c.W fwd (k - 1)) a
  stepNb c row p (k + 1 == c.W) (posOf c.W fwd (k + 1)) b

theorem pixel_eq (c : Cfg) (tg : Nat → Nat → Bool) (row : Nat) (fwd : Bool) (s : LineSt) (k : Nat) :
    pixel c tg row fwd s k =
      if tg row (posOf c.W fwd k) then
        { pan := s.pan.set (posOf c.W fwd k) (some (row, posOf c.W fwd k)),
          lp := s.lp.set (posOf c.W fwd k) (some 0),
          nr := s.nr.set (posOf c.W fwd k) (some (row, posOf c.W fwd k)) }
      else update c s (posOf c.W fwd k) (cand c row fwd k s.pan).1 (cand c row fwd k s.pan).2 := rfl

/-- the invariant of the candidate phase at pixel `p`: `nds` is the distance to the remembered target,
    or still the initial bound when nothing is remembered -/
def J (c : Cfg) (row p : Nat) (a : List Tgt × Option Nat) : Prop :=
  (∀ t, a.1.getD p none = some t → a.2 = some (dT c row p t)) ∧ (a.1.getD p none = none → a.2 = c.max2x2)

/-- what a candidate step may do to the memory: same length, only entry `p` changes,
    and the new entry is an old entry -/
def Frame (p : Nat) (pan pan' : List Tgt) : Prop :=
  pan'.length = pan.length ∧ (∀ q, q ≠ p → pan'.getD q none = pan.getD q none) ∧
  (∀ t, pan'.getD p none = some t → ∃ q, pan.getD q none = some t)

theorem Frame.refl (p : Nat) (pan : List Tgt) : Frame p pan pan :=
  ⟨rfl, fun _ _ => rfl, fun t h => ⟨p, h⟩⟩

theorem Frame.trans {p : Nat} {a b d : List Tgt} (h1 : Frame p a b) (h2 : Frame p b d) : Frame p a d := by
  refine ⟨h2.1.trans h1.1, fun q hq => (h2.2.1 q hq).trans (h1.2.1 q hq), fun t ht => ?_⟩
  obtain ⟨q, hq⟩ := h2.2.2 t ht
  by_cases hqp : q = p
  · subst hqp; exact h1.2.2 t hq
  · exact ⟨q, (h1.2.1 q hqp) ▸ hq⟩

theorem fromAbove_frame (c : Cfg) (row p : Nat) (pan : List Tgt) (nds : Option Nat) :
    Frame p pan (fromAbove c row p pan nds).1 := by
  unfold fromAbove
  split
  · dsimp only
    split
    · exact Frame.refl p pan
    · refine ⟨by simp, fun q hq => getD_set_ne _ _ _ _ _ (Ne.symm hq), fun t ht => ?_⟩
      by_cases hp : p < pan.length
      · rw [getD_set_eq _ _ _ _ hp] at ht; cases ht
      · rw [getD_none_of_le _ _ (by simp; omega)] at ht; cases ht
  · exact Frame.refl p pan

theorem fromNeighbour_frame (c : Cfg) (row p q : Nat) (pan : List Tgt) (nds : Option Nat) :
    Frame p pan (fromNeighbour c row p q pan nds).1 := by
  unfold fromNeighbour
  split
  · rename_i tr tc heq
    dsimp only
    split
    · refine ⟨by simp, fun q' hq => getD_set_ne _ _ _ _ _ (Ne.symm hq), fun t ht => ?_⟩
      by_cases hp : p < pan.length
      · rw [getD_set_eq _ _ _ _ hp] at ht
        exact ⟨q, ht ▸ heq⟩
      · rw [getD_none_of_le _ _ (by simp; omega)] at ht; cases ht
    · exact Frame.refl p pan
  · exact Frame.refl p pan

theorem stepNb_frame (c : Cfg) (row p : Nat) (skip : Bool) (q : Nat) (a : List Tgt × Option Nat) :
    Frame p a.1 (stepNb c row p skip q a).1 := by
  unfold stepNb
  split
  · exact Frame.refl p a.1
  · exact fromNeighbour_frame c row p q a.1 a.2

theorem cand_frame (c : Cfg) (row : Nat) (fwd : Bool) (k : Nat) (pan : List Tgt) :
    Frame (posOf c.W fwd k) pan (cand c row fwd k pan).1 := by
  unfold cand
  exact ((fromAbove_frame c row _ pan c.max2x2).trans (stepNb_frame c row _ _ _ _)).trans (stepNb_frame c row _ _ _ _)

theorem fromAbove_J (c : Cfg) (row p : Nat) (pan : List Tgt) (hp : p < pan.length) :
    J c row p (fromAbove c row p pan c.max2x2) := by
  unfold fromAbove
  split
  · rename_i tr tc heq
    dsimp only
    split
    · refine ⟨fun t ht => ?_, fun hn => ?_⟩
      · dsimp only at ht ⊢
        rw [heq] at ht; cases ht; rfl
      · dsimp only at hn
        rw [heq] at hn; cases hn
    · refine ⟨fun t ht => ?_, fun hn => rfl⟩
      dsimp only at ht
      rw [getD_set_eq _ _ _ _ hp] at ht; cases ht
  · rename_i heq
    refine ⟨fun t ht => ?_, fun hn => rfl⟩
    dsimp only at ht
    rw [heq] at ht; cases ht

theorem fromNeighbour_J (c : Cfg) (row p q : Nat) (a : List Tgt × Option Nat) (hp : p < a.1.length)
    (h : J c row p a) : J c row p (fromNeighbour c row p q a.1 a.2) := by
  unfold fromNeighbour
  split
  · rename_i tr tc heq
    dsimp only
    split
    · refine ⟨fun t ht => ?_, fun hn => ?_⟩
      · dsimp only at ht ⊢
        rw [getD_set_eq _ _ _ _ hp] at ht; cases ht; rfl
      · dsimp only at hn
        rw [getD_set_eq _ _ _ _ hp] at hn; cases hn
    · exact h
  · exact h

theorem stepNb_J (c : Cfg) (row p : Nat) (skip : Bool) (q : Nat) (a : List Tgt × Option Nat) (hp : p < a.1.length)
    (h : J c row p a) : J c row p (stepNb c row p skip q a) := by
  unfold stepNb
  split
  · exact h
  · exact fromNeighbour_J c row p q a hp h

theorem cand_J (c : Cfg) (row : Nat) (fwd : Bool) (k : Nat) (pan : List Tgt) (hp : posOf c.W fwd k < pan.length) :
    J c row (posOf c.W fwd k) (cand c row fwd k pan) := by
  unfold cand
  have f1 := fromAbove_frame c row (posOf c.W fwd k) pan c.max2x2
  have j1 := fromAbove_J c row (posOf c.W fwd k) pan hp
  have f2 := stepNb_frame c row (posOf c.W fwd k) (k == 0) (posOf c.W fwd (k - 1)) (fromAbove c row (posOf c.W fwd k) pan c.max2x2)
  have j2 := stepNb_J c row (posOf c.W fwd k) (k == 0) (posOf c.W fwd (k - 1)) _ (by rw [f1.1]; exact hp) j1
  exact stepNb_J c row (posOf c.W fwd k) _ _ _ (by rw [f2.1, f1.1]; exact hp) j2

/-! "not above": `nds` (as an extended number, `none` = ∞) is at most `e` -/

theorem fromAbove_le (c : Cfg) (row p : Nat) (pan : List Tgt) (nds : Option Nat) (t : Nat × Nat)
    (h : pan.getD p none = some t) : ltOpt (dT c row p t) (fromAbove c row p pan nds).2 = false := by
  unfold fromAbove
  obtain ⟨tr, tc⟩ := t
  simp only [h]
  by_cases hlt : ltOpt (dist2 c tr tc row p) nds = true
  · rw [if_pos hlt]; simp [ltOpt, dT]
  · rw [if_neg hlt]; simpa [dT] using hlt

theorem fromNeighbour_le (c : Cfg) (row p q : Nat) (pan : List Tgt) (nds : Option Nat) (t : Nat × Nat)
    (h : pan.getD q none = some t) : ltOpt (dT c row p t) (fromNeighbour c row p q pan nds).2 = false := by
  unfold fromNeighbour
  obtain ⟨tr, tc⟩ := t
  simp only [h]
  by_cases hlt : ltOpt (dist2 c tr tc row p) nds = true
  · rw [if_pos hlt]; simp [ltOpt, dT]
  · rw [if_neg hlt]; simpa [dT] using hlt

theorem fromNeighbour_mono (c : Cfg) (row p q : Nat) (pan : List Tgt) (nds : Option Nat) (e : Nat)
    (h : ltOpt e nds = false) : ltOpt e (fromNeighbour c row p q pan nds).2 = false := by
  unfold fromNeighbour
  split
  · rename_i tr tc heq
    dsimp only
    split
    · rename_i hlt
      cases nds with
      | none => simp [ltOpt] at h
      | some b => simp [ltOpt] at h hlt ⊢; omega
    · exact h
  · exact h

theorem stepNb_mono (c : Cfg) (row p : Nat) (skip : Bool) (q : Nat) (a : List Tgt × Option Nat) (e : Nat)
    (h : ltOpt e a.2 = false) : ltOpt e (stepNb c row p skip q a).2 = false := by
  unfold stepNb
  split
  · exact h
  · exact fromNeighbour_mono c row p q a.1 a.2 e h

/-- the candidate phase ends at or below every candidate it looked at:
    `which = 0` the pixel's own memory, `1` the previous pixel of the sweep, `2` the next one -/
theorem cand_le (c : Cfg) (row : Nat) (fwd : Bool) (k : Nat) (pan : List Tgt) (t : Nat × Nat)
    (hk : k < c.W)
    (h : pan.getD (posOf c.W fwd k) none = some t ∨
         (0 < k ∧ pan.getD (posOf c.W fwd (k - 1)) none = some t) ∨
         (k + 1 < c.W ∧ pan.getD (posOf c.W fwd (k + 1)) none = some t)) :
    ltOpt (dT c row (posOf c.W fwd k) t) (cand c row fwd k pan).2 = false := by
  unfold cand
  have f1 := fromAbove_frame c row (posOf c.W fwd k) pan c.max2x2
  have f2 := stepNb_frame c row (posOf c.W fwd k) (k == 0) (posOf c.W fwd (k - 1)) (fromAbove c row (posOf c.W fwd k) pan c.max2x2)
  rcases h with h | ⟨hk0, h⟩ | ⟨hk1, h⟩
  · exact stepNb_mono _ _ _ _ _ _ _ (stepNb_mono _ _ _ _ _ _ _ (fromAbove_le c row _ pan _ t h))
  · apply stepNb_mono
    have hne : posOf c.W fwd (k - 1) ≠ posOf c.W fwd k := fun he => by
      have := posOf_inj c.W fwd (k - 1) k (by omega) hk he; omega
    have hk' : (k == 0) = false := by simp; omega
    simp only [stepNb, hk', Bool.false_eq_true, if_false]
    apply fromNeighbour_le
    rw [f1.2.1 _ hne]; exact h
  · have hne : posOf c.W fwd (k + 1) ≠ posOf c.W fwd k := fun he => by
      have := posOf_inj c.W fwd (k + 1) k hk1 hk he; omega
    have hk' : (k + 1 == c.W) = false := by simp; omega
    simp only [stepNb, hk', Bool.false_eq_true, if_false]
    apply fromNeighbour_le
    have := f2.2.1 _ hne
    simp only [stepNb] at this
    rw [this, f1.2.1 _ hne]; exact h

/-- a candidate below the bound is never lost: the pixel ends up remembering a target at least as near -/
theorem cand_adopts (c : Cfg) (row : Nat) (fwd : Bool) (k : Nat) (pan : List Tgt) (t : Nat × Nat)
    (hk : k < c.W) (hlen : pan.length = c.W)
    (h : pan.getD (posOf c.W fwd k) none = some t ∨
         (0 < k ∧ pan.getD (posOf c.W fwd (k - 1)) none = some t) ∨
         (k + 1 < c.W ∧ pan.getD (posOf c.W fwd (k + 1)) none = some t))
    (hb : ltOpt (dT c row (posOf c.W fwd k) t) c.max2x2 = true) :
    ∃ t', (cand c row fwd k pan).1.getD (posOf c.W fwd k) none = some t' ∧
      (cand c row fwd k pan).2 = some (dT c row (posOf c.W fwd k) t') ∧
      dT c row (posOf c.W fwd k) t' ≤ dT c row (posOf c.W fwd k) t := by
  have hle := cand_le c row fwd k pan t hk h
  have hJ := cand_J c row fwd k pan (by rw [hlen]; exact posOf_lt _ _ _ hk)
  cases hc : (cand c row fwd k pan).1.getD (posOf c.W fwd k) none with
  | none =>
    rw [hJ.2 hc] at hle
    rw [hle] at hb; cases hb
  | some t' =>
    have h2 := hJ.1 t' hc
    refine ⟨t', rfl, h2, ?_⟩
    rw [h2] at hle
    simp [ltOpt] at hle
    exact hle

/-! ### "Update our proximity value." -/

theorem update_cases (c : Cfg) (s : LineSt) (p : Nat) (pan : List Tgt) (nds : Option Nat) :
    (∃ t d, pan.getD p none = some t ∧ nds = some d ∧ withinMax c d = true ∧ better s.lp p d = true ∧
        update c s p pan nds = { pan := pan, lp := s.lp.set p (some d), nr := s.nr.set p (some t) }) ∨
    (update c s p pan nds = { pan := pan, lp := s.lp, nr := s.nr } ∧
      ∀ t d, pan.getD p none = some t → nds = some d → (withinMax c d && better s.lp p d) = false) := by
  unfold update
  cases hpan : pan.getD p none with
  | none => right; exact ⟨rfl, fun t d h => by cases h⟩
  | some t =>
    cases nds with
    | none => right; exact ⟨rfl, fun t d _ h => by cases h⟩
    | some d =>
      by_cases hc : (withinMax c d && better s.lp p d) = true
      · left
        refine ⟨t, d, rfl, rfl, ?_, ?_, ?_⟩
        · simp only [Bool.and_eq_true] at hc; exact hc.1
        · simp only [Bool.and_eq_true] at hc; exact hc.2
        · simp only [hc, if_true]
      · right
        refine ⟨by simp only [hc]; rfl, fun t' d' h1 h2 => ?_⟩
        cases h1; cases h2
        simpa using hc

/-! ### soundness: what is remembered / recorded is a real target at the recorded distance -/

/-- a target cell of the grid -/
def IsTarget (c : Cfg) (tg : Nat → Nat → Bool) (t : Nat × Nat) : Prop :=
  tg t.1 t.2 = true ∧ t.1 < c.H ∧ t.2 < c.W

def TOK (c : Cfg) (tg : Nat → Nat → Bool) (l : List Tgt) : Prop :=
  ∀ p t, l.getD p none = some t → IsTarget c tg t

theorem TOK_replicate (c : Cfg) (tg : Nat → Nat → Bool) (n : Nat) : TOK c tg (List.replicate n none) := by
  intro p t h
  rw [getD_replicate_none] at h; cases h

theorem TOK_set_some (c : Cfg) (tg : Nat → Nat → Bool) (l : List Tgt) (p : Nat) (t : Nat × Nat)
    (h : TOK c tg l) (ht : IsTarget c tg t) : TOK c tg (l.set p (some t)) := by
  intro q t' hq
  by_cases hpq : p = q
  · subst hpq
    by_cases hlt : p < l.length
    · rw [getD_set_eq _ _ _ _ hlt] at hq; cases hq; exact ht
    · rw [getD_none_of_le _ _ (by simp; omega)] at hq; cases hq
  · rw [getD_set_ne _ _ _ _ _ hpq] at hq; exact h q t' hq

theorem TOK_frame (c : Cfg) (tg : Nat → Nat → Bool) (p : Nat) (pan pan' : List Tgt)
    (h : TOK c tg pan) (f : Frame p pan pan') : TOK c tg pan' := by
  intro q t hq
  by_cases hqp : q = p
  · subst hqp
    obtain ⟨q', hq'⟩ := f.2.2 t hq
    exact h q' t hq'
  · rw [f.2.1 q hqp] at hq; exact h q t hq

/-- a line is sound: every defined squared proximity is the distance to the target `cur` names, that target is
    real and within `max_distance`; an undefined proximity comes with no target -/
def Snd (c : Cfg) (tg : Nat → Nat → Bool) (row : Nat) (lp : List (Option Nat)) (cur : Nat → Tgt) : Prop :=
  ∀ p, p < c.W →
    (∀ d, lp.getD p none = some d →
      ∃ t, cur p = some t ∧ IsTarget c tg t ∧ d = dT c row p t ∧ withinMax c d = true) ∧
    (lp.getD p none = none → cur p = none)

/-- the invariant of a sweep over line `row`; `al` = `output_img[row]` before the sweep -/
structure SOK (c : Cfg) (tg : Nat → Nat → Bool) (row : Nat) (al : List Tgt) (s : LineSt) : Prop where
  lpan : s.pan.length = c.W
  llp : s.lp.length = c.W
  lnr : s.nr.length = c.W
  tok : TOK c tg s.pan
  snd : Snd c tg row s.lp (curOf al s.nr)

/-- `dist(x, x) = 0` (true for the planar metrics and for great-circle) -/
def Cfg.Refl (c : Cfg) : Prop := ∀ r p, dist2 c r p r p = 0

theorem withinMax_zero (c : Cfg) : withinMax c 0 = true := by
  unfold withinMax
  cases c.max2x2 <;> simp

theorem pixel_SOK (c : Cfg) (tg : Nat → Nat → Bool) (row : Nat) (fwd : Bool) (al : List Tgt) (s : LineSt) (k : Nat)
    (hrefl : c.Refl) (hrow : row < c.H) (hk : k < c.W) (h : SOK c tg row al s) :
    SOK c tg row al (pixel c tg row fwd s k) := by
  have hp : posOf c.W fwd k < c.W := posOf_lt _ _ _ hk
  rw [pixel_eq]
  by_cases htg : tg row (posOf c.W fwd k) = true
  · simp only [htg, if_true]
    have hT : IsTarget c tg (row, posOf c.W fwd k) := ⟨htg, hrow, hp⟩
    refine ⟨by simp [h.lpan], by simp [h.llp], by simp [h.lnr], TOK_set_some _ _ _ _ _ h.tok hT, ?_⟩
    intro q hq
    by_cases hqp : posOf c.W fwd k = q
    · subst hqp
      dsimp only
      rw [getD_set_eq _ _ _ _ (by rw [h.llp]; exact hp), curOf_set_eq _ _ _ _ (by rw [h.lnr]; exact hp)]
      refine ⟨fun d hd => ?_, fun hn => by cases hn⟩
      cases hd
      exact ⟨_, rfl, hT, (hrefl row _).symm, withinMax_zero c⟩
    · dsimp only
      rw [getD_set_ne _ _ _ _ _ hqp, curOf_set_ne _ _ _ _ _ hqp]
      exact h.snd q hq
  · simp only [htg, Bool.false_eq_true, if_false]
    have fr := cand_frame c row fwd k s.pan
    have hJ := cand_J c row fwd k s.pan (by rw [h.lpan]; exact hp)
    have htok' : TOK c tg (cand c row fwd k s.pan).1 := TOK_frame c tg _ _ _ h.tok fr
    rcases update_cases c s (posOf c.W fwd k) (cand c row fwd k s.pan).1 (cand c row fwd k s.pan).2 with
      ⟨t, d, hpan, hnds, hwm, hbet, heq⟩ | ⟨heq, _⟩
    · rw [heq]
      refine ⟨by rw [← h.lpan]; exact fr.1, by simp [h.llp], by simp [h.lnr], htok', ?_⟩
      intro q hq
      by_cases hqp : posOf c.W fwd k = q
      · subst hqp
        dsimp only
        rw [getD_set_eq _ _ _ _ (by rw [h.llp]; exact hp), curOf_set_eq _ _ _ _ (by rw [h.lnr]; exact hp)]
        refine ⟨fun d' hd => ?_, fun hn => by cases hn⟩
        cases hd
        have := hJ.1 t hpan
        rw [hnds] at this
        cases this
        exact ⟨t, rfl, htok' _ t hpan, rfl, hwm⟩
      · dsimp only
        rw [getD_set_ne _ _ _ _ _ hqp, curOf_set_ne _ _ _ _ _ hqp]
        exact h.snd q hq
    · rw [heq]
      exact ⟨by rw [← h.lpan]; exact fr.1, h.llp, h.lnr, htok', h.snd⟩

theorem sweepN_SOK (c : Cfg) (tg : Nat → Nat → Bool) (row : Nat) (fwd : Bool) (al : List Tgt) (s0 : LineSt)
    (hrefl : c.Refl) (hrow : row < c.H) (h : SOK c tg row al s0) :
    ∀ n, n ≤ c.W → SOK c tg row al (sweepN c tg row fwd s0 n) := by
  intro n
  induction n with
  | zero => intro _; exact h
  | succ n ih =>
    intro hn
    exact pixel_SOK c tg row fwd al _ n hrefl hrow (by omega) (ih (by omega))

/-- lines as kept between passes -/
structure RowSound (c : Cfg) (tg : Nat → Nat → Bool) (row : Nat) (o : RowOut) : Prop where
  llp : o.lp.length = c.W
  lal : o.al.length = c.W
  snd : Snd c tg row o.lp (fun p => o.al.getD p none)

theorem Snd_congr (c : Cfg) (tg : Nat → Nat → Bool) (row : Nat) (lp : List (Option Nat)) (f g : Nat → Tgt)
    (hfg : ∀ p, f p = g p) (h : Snd c tg row lp f) : Snd c tg row lp g := by
  intro p hp
  rw [← hfg p]; exact h p hp

theorem sweep_SOK (c : Cfg) (tg : Nat → Nat → Bool) (row : Nat) (fwd : Bool) (al pan : List Tgt)
    (lp : List (Option Nat)) (hrefl : c.Refl) (hrow : row < c.H)
    (hpan : pan.length = c.W) (htok : TOK c tg pan) (hlp : lp.length = c.W)
    (hs : Snd c tg row lp (fun p => al.getD p none)) :
    SOK c tg row al (sweep c tg row fwd pan lp) := by
  unfold sweep
  apply sweepN_SOK c tg row fwd al _ hrefl hrow _ c.W (Nat.le_refl _)
  exact ⟨hpan, hlp, by simp, htok, Snd_congr _ _ _ _ _ _ (fun p => (curOf_replicate al c.W p).symm) hs⟩

theorem rowStep_sound (c : Cfg) (tg : Nat → Nat → Bool) (fwdFirst : Bool) (row : Nat) (pan : List Tgt) (o : RowOut)
    (hrefl : c.Refl) (hrow : row < c.H) (hpan : pan.length = c.W) (htok : TOK c tg pan)
    (ho : RowSound c tg row o) :
    (rowStep c tg fwdFirst row pan o).1.length = c.W ∧ TOK c tg (rowStep c tg fwdFirst row pan o).1 ∧
      RowSound c tg row (rowStep c tg fwdFirst row pan o).2 := by
  have h1 := sweep_SOK c tg row fwdFirst o.al pan o.lp hrefl hrow hpan htok ho.llp ho.snd
  have hl1 : o.al.length = (sweep c tg row fwdFirst pan o.lp).nr.length := by rw [ho.lal, h1.lnr]
  have hs1 : Snd c tg row (sweep c tg row fwdFirst pan o.lp).lp
      (fun p => (mergeNr o.al (sweep c tg row fwdFirst pan o.lp).nr).getD p none) :=
    Snd_congr _ _ _ _ _ _ (fun p => (mergeNr_getD _ _ p hl1).symm) h1.snd
  have h2 := sweep_SOK c tg row (!fwdFirst) (mergeNr o.al (sweep c tg row fwdFirst pan o.lp).nr)
    (sweep c tg row fwdFirst pan o.lp).pan (sweep c tg row fwdFirst pan o.lp).lp hrefl hrow h1.lpan h1.tok h1.llp hs1
  have hl2 : (mergeNr o.al (sweep c tg row fwdFirst pan o.lp).nr).length =
      (sweep c tg row (!fwdFirst) (sweep c tg row fwdFirst pan o.lp).pan (sweep c tg row fwdFirst pan o.lp).lp).nr.length := by
    rw [mergeNr_length _ _ hl1, ho.lal, h2.lnr]
  refine ⟨h2.lpan, h2.tok, ⟨h2.llp, ?_, ?_⟩⟩
  · show (mergeNr _ _).length = c.W
    rw [mergeNr_length _ _ hl2, mergeNr_length _ _ hl1, ho.lal]
  · exact Snd_congr _ _ _ _ _ _ (fun p => (mergeNr_getD _ _ p hl2).symm) h2.snd

/-! ### the two passes: induction on the number of lines done -/

theorem getD_append_left' {α} (l l' : List α) (i : Nat) (d : α) (h : i < l.length) : (l ++ l').getD i d = l.getD i d := by
  simp [List.getD, List.getElem?_append_left h]

theorem getD_append_single {α} (l : List α) (x d : α) : (l ++ [x]).getD l.length d = x := by
  simp [List.getD]

theorem tdN_succ (c : Cfg) (tg : Nat → Nat → Bool) (n : Nat) :
    tdN c tg (n + 1) = ((rowStep c tg true n (tdN c tg n).1 (blankRow c)).1,
      (tdN c tg n).2 ++ [(rowStep c tg true n (tdN c tg n).1 (blankRow c)).2]) := rfl

theorem buN_succ (c : Cfg) (tg : Nat → Nat → Bool) (td : List RowOut) (n : Nat) :
    buN c tg td (n + 1) = ((rowStep c tg false (c.H - 1 - n) (buN c tg td n).1 (td.getD (c.H - 1 - n) (blankRow c))).1,
      (rowStep c tg false (c.H - 1 - n) (buN c tg td n).1 (td.getD (c.H - 1 - n) (blankRow c))).2 :: (buN c tg td n).2) := rfl

/-- top-down pass: `P n` holds for the column memory after `n` lines, `Q i` for the i-th line kept -/
theorem tdN_rows (c : Cfg) (tg : Nat → Nat → Bool) (P : Nat → List Tgt → Prop) (Q : Nat → RowOut → Prop)
    (h0 : P 0 (List.replicate c.W none))
    (hstep : ∀ n pan, n < c.H → P n pan →
      P (n + 1) (rowStep c tg true n pan (blankRow c)).1 ∧ Q n (rowStep c tg true n pan (blankRow c)).2) :
    ∀ n, n ≤ c.H → P n (tdN c tg n).1 ∧ (tdN c tg n).2.length = n ∧
      ∀ i, i < n → Q i ((tdN c tg n).2.getD i (blankRow c)) := by
  intro n
  induction n with
  | zero => intro _; exact ⟨h0, rfl, fun i hi => by omega⟩
  | succ n ih =>
    intro hn
    obtain ⟨hP, hlen, hQ⟩ := ih (by omega)
    have hs := hstep n _ (by omega) hP
    rw [tdN_succ]
    refine ⟨hs.1, by simp [hlen], fun i hi => ?_⟩
    dsimp only
    by_cases hin : i < n
    · rw [getD_append_left' _ _ _ _ (by omega)]; exact hQ i hin
    · have : i = (tdN c tg n).2.length := by omega
      rw [this, getD_append_single]
      rw [hlen]; exact hs.2

/-- bottom-up pass: the j-th line kept after `n` lines is line `H - n + j` -/
theorem buN_rows (c : Cfg) (tg : Nat → Nat → Bool) (td : List RowOut) (P : Nat → List Tgt → Prop) (Q : Nat → RowOut → Prop)
    (h0 : P 0 (List.replicate c.W none))
    (hstep : ∀ n pan, n < c.H → P n pan →
      P (n + 1) (rowStep c tg false (c.H - 1 - n) pan (td.getD (c.H - 1 - n) (blankRow c))).1 ∧
      Q (c.H - 1 - n) (rowStep c tg false (c.H - 1 - n) pan (td.getD (c.H - 1 - n) (blankRow c))).2) :
    ∀ n, n ≤ c.H → P n (buN c tg td n).1 ∧ (buN c tg td n).2.length = n ∧
      ∀ j, j < n → Q (c.H - n + j) ((buN c tg td n).2.getD j (blankRow c)) := by
  intro n
  induction n with
  | zero => intro _; exact ⟨h0, rfl, fun i hi => by omega⟩
  | succ n ih =>
    intro hn
    obtain ⟨hP, hlen, hQ⟩ := ih (by omega)
    have hs := hstep n _ (by omega) hP
    rw [buN_succ]
    refine ⟨hs.1, by simp [hlen], fun j hj => ?_⟩
    dsimp only
    cases j with
    | zero =>
      rw [List.getD_cons_zero]
      have : c.H - (n + 1) + 0 = c.H - 1 - n := by omega
      rw [this]; exact hs.2
    | succ j =>
      rw [List.getD_cons_succ]
      have : c.H - (n + 1) + (j + 1) = c.H - n + j := by omega
      rw [this]; exact hQ j (by omega)

/-- both passes: a property `Q2` of every line of the result, from per-line steps -/
theorem run_rows (c : Cfg) (tg : Nat → Nat → Bool)
    (P1 : Nat → List Tgt → Prop) (Q1 : Nat → RowOut → Prop) (P2 : Nat → List Tgt → Prop) (Q2 : Nat → RowOut → Prop)
    (h01 : P1 0 (List.replicate c.W none))
    (hs1 : ∀ n pan, n < c.H → P1 n pan →
      P1 (n + 1) (rowStep c tg true n pan (blankRow c)).1 ∧ Q1 n (rowStep c tg true n pan (blankRow c)).2)
    (h02 : P2 0 (List.replicate c.W none))
    (hs2 : ∀ n pan o, n < c.H → P2 n pan → Q1 (c.H - 1 - n) o →
      P2 (n + 1) (rowStep c tg false (c.H - 1 - n) pan o).1 ∧ Q2 (c.H - 1 - n) (rowStep c tg false (c.H - 1 - n) pan o).2) :
    ∀ r, r < c.H → Q2 r (rowAt (run c tg) r) := by
  intro r hr
  have td := tdN_rows c tg P1 Q1 h01 hs1 c.H (Nat.le_refl _)
  have bu := buN_rows c tg (tdN c tg c.H).2 P2 Q2 h02
    (fun n pan hn hP => hs2 n pan _ hn hP (td.2.2 (c.H - 1 - n) (by omega))) c.H (Nat.le_refl _)
  have := bu.2.2 r hr
  have hidx : c.H - c.H + r = r := by omega
  rw [hidx] at this
  unfold rowAt run
  rw [getD_default_irrel _ _ _ (blankRow c) (by rw [bu.2.1]; exact hr)]
  exact this

theorem RowSound_blank (c : Cfg) (tg : Nat → Nat → Bool) (row : Nat) : RowSound c tg row (blankRow c) := by
  refine ⟨by simp [blankRow], by simp [blankRow], fun p hp => ⟨fun d hd => ?_, fun _ => ?_⟩⟩
  · simp only [blankRow] at hd; rw [getD_replicate_none] at hd; cases hd
  · simp only [blankRow]; exact getD_replicate_none _ _

/-- every line of the result is sound -/
theorem run_sound (c : Cfg) (tg : Nat → Nat → Bool) (hrefl : c.Refl) :
    ∀ r, r < c.H → RowSound c tg r (rowAt (run c tg) r) := by
  apply run_rows c tg (fun _ pan => pan.length = c.W ∧ TOK c tg pan) (RowSound c tg)
    (fun _ pan => pan.length = c.W ∧ TOK c tg pan) (RowSound c tg)
  · exact ⟨by simp, TOK_replicate c tg _⟩
  · intro n pan hn hP
    have := rowStep_sound c tg true n pan (blankRow c) hrefl hn hP.1 hP.2 (RowSound_blank c tg n)
    exact ⟨⟨this.1, this.2.1⟩, this.2.2⟩
  · exact ⟨by simp, TOK_replicate c tg _⟩
  · intro n pan o hn hP ho
    have := rowStep_sound c tg false (c.H - 1 - n) pan o hrefl (by omega) hP.1 hP.2 ho
    exact ⟨⟨this.1, this.2.1⟩, this.2.2⟩

end XrsVerif.Prox
