import XrsVerif.Proofs.ILViewshedIns
/-
  Proofs/ILViewshedInsProg.lean -- `Gen.IL.vsInsert` (`_insert_into_tree` with `_compare`, `_create_tree_nodes`,
  `_find_value_min_value`, `_rb_insert_fixup` and the rotations inlined) up to the colour fixup: the descent to the
  empty slot, the creation and linking of the new node, and the upward propagation of its minimum gradient compute the
  hand model's `leafInsert` (in the code-exact form `insCoreC`).  `vsInsert_body` ties the cut to the regenerated
  program by `rfl`; the fixup (`insFixup`: the recolouring loop with six inlined rotations) is NOT covered here.
-/
set_option linter.unusedSectionVars false
set_option linter.unusedVariables false
set_option linter.unusedSimpArgs false
namespace XrsVerif.ILVs
open XrsVerif XrsVerif.IL XrsVerif.Viewshed
variable {F : Type} [Fl F]

def insDesc0Items : List St :=
  [(.setI "cur_node" (.var "root")),
   (.setF "_compare1$a" (.ld1 "value" (.lit 0))),
   (.setF "_compare1$b" (.ld2 "tree_vals" (.var "cur_node") (.lit 0))),
   (cmpScope "_compare1$a" "_compare1$b" "_compare1$ret0"),
   (.ite (.cmpI .eq (.var "_compare1$ret0") (.lit (-1))) (.setI "next_node" (.ld2 "tree_nodes" (.var "cur_node") (.lit 1))) (.setI "next_node" (.ld2 "tree_nodes" (.var "cur_node") (.lit 2))))]

def insDescBody : St :=
  (.seq (.setI "cur_node" (.var "next_node"))
  (.seq (.setF "_compare2$a" (.ld1 "value" (.lit 0)))
  (.seq (.setF "_compare2$b" (.ld2 "tree_vals" (.var "cur_node") (.lit 0)))
  (.seq (cmpScope "_compare2$a" "_compare2$b" "_compare2$ret0")
  (.ite (.cmpI .eq (.var "_compare2$ret0") (.lit (-1)))
    (.setI "next_node" (.ld2 "tree_nodes" (.var "cur_node") (.lit 1)))
    (.setI "next_node" (.ld2 "tree_nodes" (.var "cur_node") (.lit 2))))))))

def insDescLoop : St := .while (.cmpI .ne (.var "next_node") (.lit (-1))) insDescBody

def insCreateItems : List St :=
  [(.setI "_create_tree_nodes3$x" (.var "node_id")),
   (.setI "_create_tree_nodes3$color" (.lit 0)),
   (.scope (.seq (.stF2 "tree_vals" (.var "_create_tree_nodes3$x") (.lit 0) (.ld1 "value" (.lit 0))) (.seq (.stF2 "tree_vals" (.var "_create_tree_nodes3$x") (.lit 1) (.ld1 "value" (.lit 1))) (.seq (.stF2 "tree_vals" (.var "_create_tree_nodes3$x") (.lit 2) (.ld1 "value" (.lit 2))) (.seq (.stF2 "tree_vals" (.var "_create_tree_nodes3$x") (.lit 3) (.ld1 "value" (.lit 3))) (.seq (.stF2 "tree_vals" (.var "_create_tree_nodes3$x") (.lit 4) (.ld1 "value" (.lit 4))) (.seq (.stF2 "tree_vals" (.var "_create_tree_nodes3$x") (.lit 5) (.ld1 "value" (.lit 5))) (.seq (.stF2 "tree_vals" (.var "_create_tree_nodes3$x") (.lit 6) (.ld1 "value" (.lit 6))) (.seq (.stF2 "tree_vals" (.var "_create_tree_nodes3$x") (.lit 7) (.lit (-10000000000000000000000) 1)) (.seq (.stI2 "tree_nodes" (.var "_create_tree_nodes3$x") (.lit 0) (.var "_create_tree_nodes3$color")) (.seq (.stI2 "tree_nodes" (.var "_create_tree_nodes3$x") (.lit 1) (.lit (-1))) (.seq (.stI2 "tree_nodes" (.var "_create_tree_nodes3$x") (.lit 2) (.lit (-1))) (.seq (.stI2 "tree_nodes" (.var "_create_tree_nodes3$x") (.lit 3) (.lit (-1))) .ret)))))))))))))]

def insLinkItems : List St :=
  [(.setI "next_node" (.var "node_id")),
   (.stI2 "tree_nodes" (.var "next_node") (.lit 3) (.var "cur_node")),
   (.setF "_compare4$a" (.ld1 "value" (.lit 0))),
   (.setF "_compare4$b" (.ld2 "tree_vals" (.var "cur_node") (.lit 0))),
   (cmpScope "_compare4$a" "_compare4$b" "_compare4$ret0"),
   (.ite (.cmpI .eq (.var "_compare4$ret0") (.lit (-1))) (.stI2 "tree_nodes" (.var "cur_node") (.lit 1) (.var "next_node")) (.stI2 "tree_nodes" (.var "cur_node") (.lit 2) (.var "next_node"))),
   (.setI "inserted" (.var "next_node")),
   (.setI "_find_value_min_value5$node_id" (.var "next_node")),
   (minvScope "_find_value_min_value5$node_id" "_find_value_min_value5$ret0"),
   (.stF2 "tree_vals" (.var "next_node") (.lit 7) (.var "_find_value_min_value5$ret0"))]

def insPropBody : St :=
  (.seq (.setI "next_parent" (.ld2 "tree_nodes" (.var "next_node") (.lit 3)))
  (.seq (.ite (.cmpF .lt (.ld2 "tree_vals" (.var "next_parent") (.lit 7)) (.ld2 "tree_vals" (.var "next_node") (.lit 7)))
      (.stF2 "tree_vals" (.var "next_parent") (.lit 7) (.ld2 "tree_vals" (.var "next_node") (.lit 7)))
      .skip)
  (.seq (.ite (.cmpF .gt (.ld2 "tree_vals" (.var "next_parent") (.lit 7)) (.ld2 "tree_vals" (.var "next_node") (.lit 7)))
      .brk
      .skip)
  (.setI "next_node" (.var "next_parent")))))

def insPropLoop : St := .while (.cmpI .ne (.ld2 "tree_nodes" (.var "next_node") (.lit 3)) (.lit (-1))) insPropBody

def insFixup : St :=
  (.seq (.setI "_rb_insert_fixup6$root" (.var "root"))
  (.seq (.setI "_rb_insert_fixup6$z" (.var "inserted"))
  (.seq (.scope (.seq (.setI "_rb_insert_fixup6$z_parent" (.ld2 "tree_nodes" (.var "_rb_insert_fixup6$z") (.lit 3)))
      (.seq (.while (.cmpI .eq (.ld2 "tree_nodes" (.var "_rb_insert_fixup6$z_parent") (.lit 0)) (.lit 0))
          (.seq (.setI "_rb_insert_fixup6$z_parent_parent" (.ld2 "tree_nodes" (.var "_rb_insert_fixup6$z_parent") (.lit 3)))
          (.seq (.setI "_rb_insert_fixup6$n1" (.ld2 "tree_nodes" (.var "_rb_insert_fixup6$z") (.lit 3)))
          (.seq (.setI "_rb_insert_fixup6$n2" (.ld2 "tree_nodes" (.var "_rb_insert_fixup6$z_parent_parent") (.lit 1)))
          (.seq (.ite (.cmpI .eq (.var "_rb_insert_fixup6$n1") (.var "_rb_insert_fixup6$n2"))
              (.seq (.setI "_rb_insert_fixup6$y" (.ld2 "tree_nodes" (.var "_rb_insert_fixup6$z_parent_parent") (.lit 2)))
              (.ite (.cmpI .eq (.ld2 "tree_nodes" (.var "_rb_insert_fixup6$y") (.lit 0)) (.lit 0))
                (.seq (.stI2 "tree_nodes" (.var "_rb_insert_fixup6$z_parent") (.lit 0) (.lit 1))
                (.seq (.stI2 "tree_nodes" (.var "_rb_insert_fixup6$y") (.lit 0) (.lit 1))
                (.seq (.stI2 "tree_nodes" (.var "_rb_insert_fixup6$z_parent_parent") (.lit 0) (.lit 0))
                (.setI "_rb_insert_fixup6$z" (.var "_rb_insert_fixup6$z_parent_parent")))))
                (.seq (.ite (.cmpI .eq (.var "_rb_insert_fixup6$z") (.ld2 "tree_nodes" (.var "_rb_insert_fixup6$z_parent") (.lit 2)))
                    (.seq (.setI "_rb_insert_fixup6$z" (.var "_rb_insert_fixup6$z_parent"))
                    (.seq (.setI "_rb_insert_fixup6$_left_rotate7$root" (.var "_rb_insert_fixup6$root"))
                    (.seq (.setI "_rb_insert_fixup6$_left_rotate7$x" (.var "_rb_insert_fixup6$z"))
                    (.seq (.scope (.seq (.setI "_rb_insert_fixup6$_left_rotate7$y" (.ld2 "tree_nodes" (.var "_rb_insert_fixup6$_left_rotate7$x") (.lit 2)))
                        (.seq (.setI "_rb_insert_fixup6$_left_rotate7$x_left" (.ld2 "tree_nodes" (.var "_rb_insert_fixup6$_left_rotate7$x") (.lit 1)))
                        (.seq (.setI "_rb_insert_fixup6$_left_rotate7$y_left" (.ld2 "tree_nodes" (.var "_rb_insert_fixup6$_left_rotate7$y") (.lit 1)))
                        (.seq (selMax "_rb_insert_fixup6$_left_rotate7$tmp_max" (.ld2 "tree_vals" (.var "_rb_insert_fixup6$_left_rotate7$x_left") (.lit 7)) (.ld2 "tree_vals" (.var "_rb_insert_fixup6$_left_rotate7$y_left") (.lit 7)))
                        (.seq (.setI "_rb_insert_fixup6$_left_rotate7$_find_value_min_value8$node_id" (.var "_rb_insert_fixup6$_left_rotate7$x"))
                        (.seq (minvScope "_rb_insert_fixup6$_left_rotate7$_find_value_min_value8$node_id" "_rb_insert_fixup6$_left_rotate7$_find_value_min_value8$ret0")
                        (.seq (.setF "_rb_insert_fixup6$_left_rotate7$min_value" (.var "_rb_insert_fixup6$_left_rotate7$_find_value_min_value8$ret0"))
                        (.seq (stMax "tree_vals" (.var "_rb_insert_fixup6$_left_rotate7$x") (.lit 7) (.var "_rb_insert_fixup6$_left_rotate7$tmp_max") (.var "_rb_insert_fixup6$_left_rotate7$min_value"))
                        (.seq (.setI "_rb_insert_fixup6$_left_rotate7$y_right" (.ld2 "tree_nodes" (.var "_rb_insert_fixup6$_left_rotate7$y") (.lit 2)))
                        (.seq (selMax "_rb_insert_fixup6$_left_rotate7$tmp_max" (.ld2 "tree_vals" (.var "_rb_insert_fixup6$_left_rotate7$x") (.lit 7)) (.ld2 "tree_vals" (.var "_rb_insert_fixup6$_left_rotate7$y_right") (.lit 7)))
                        (.seq (.setI "_rb_insert_fixup6$_left_rotate7$_find_value_min_value9$node_id" (.var "_rb_insert_fixup6$_left_rotate7$y"))
                        (.seq (minvScope "_rb_insert_fixup6$_left_rotate7$_find_value_min_value9$node_id" "_rb_insert_fixup6$_left_rotate7$_find_value_min_value9$ret0")
                        (.seq (.setF "_rb_insert_fixup6$_left_rotate7$min_value" (.var "_rb_insert_fixup6$_left_rotate7$_find_value_min_value9$ret0"))
                        (.seq (stMax "tree_vals" (.var "_rb_insert_fixup6$_left_rotate7$y") (.lit 7) (.var "_rb_insert_fixup6$_left_rotate7$tmp_max") (.var "_rb_insert_fixup6$_left_rotate7$min_value"))
                        (.seq (.stI2 "tree_nodes" (.var "_rb_insert_fixup6$_left_rotate7$x") (.lit 2) (.ld2 "tree_nodes" (.var "_rb_insert_fixup6$_left_rotate7$y") (.lit 1)))
                        (.seq (.setI "_rb_insert_fixup6$_left_rotate7$y_left" (.ld2 "tree_nodes" (.var "_rb_insert_fixup6$_left_rotate7$y") (.lit 1)))
                        (.seq (.stI2 "tree_nodes" (.var "_rb_insert_fixup6$_left_rotate7$y_left") (.lit 3) (.var "_rb_insert_fixup6$_left_rotate7$x"))
                        (.seq (.stI2 "tree_nodes" (.var "_rb_insert_fixup6$_left_rotate7$y") (.lit 3) (.ld2 "tree_nodes" (.var "_rb_insert_fixup6$_left_rotate7$x") (.lit 3)))
                        (.seq (.ite (.cmpI .eq (.ld2 "tree_nodes" (.var "_rb_insert_fixup6$_left_rotate7$x") (.lit 3)) (.lit (-1)))
                            (.setI "_rb_insert_fixup6$_left_rotate7$root" (.var "_rb_insert_fixup6$_left_rotate7$y"))
                            (.seq (.setI "_rb_insert_fixup6$_left_rotate7$x_parent" (.ld2 "tree_nodes" (.var "_rb_insert_fixup6$_left_rotate7$x") (.lit 3)))
                            (.ite (.cmpI .eq (.var "_rb_insert_fixup6$_left_rotate7$x") (.ld2 "tree_nodes" (.var "_rb_insert_fixup6$_left_rotate7$x_parent") (.lit 1)))
                              (.stI2 "tree_nodes" (.var "_rb_insert_fixup6$_left_rotate7$x_parent") (.lit 1) (.var "_rb_insert_fixup6$_left_rotate7$y"))
                              (.stI2 "tree_nodes" (.var "_rb_insert_fixup6$_left_rotate7$x_parent") (.lit 2) (.var "_rb_insert_fixup6$_left_rotate7$y")))))
                        (.seq (.stI2 "tree_nodes" (.var "_rb_insert_fixup6$_left_rotate7$y") (.lit 1) (.var "_rb_insert_fixup6$_left_rotate7$x"))
                        (.seq (.stI2 "tree_nodes" (.var "_rb_insert_fixup6$_left_rotate7$x") (.lit 3) (.var "_rb_insert_fixup6$_left_rotate7$y"))
                        (.seq (.setI "_rb_insert_fixup6$_left_rotate7$ret0" (.var "_rb_insert_fixup6$_left_rotate7$root"))
                        .ret)))))))))))))))))))))))
                    (.setI "_rb_insert_fixup6$root" (.var "_rb_insert_fixup6$_left_rotate7$ret0"))))))
                    .skip)
                (.seq (.setI "_rb_insert_fixup6$z_parent" (.ld2 "tree_nodes" (.var "_rb_insert_fixup6$z") (.lit 3)))
                (.seq (.setI "_rb_insert_fixup6$z_parent_parent" (.ld2 "tree_nodes" (.var "_rb_insert_fixup6$z_parent") (.lit 3)))
                (.seq (.stI2 "tree_nodes" (.var "_rb_insert_fixup6$z_parent") (.lit 0) (.lit 1))
                (.seq (.stI2 "tree_nodes" (.var "_rb_insert_fixup6$z_parent_parent") (.lit 0) (.lit 0))
                (.seq (.setI "_rb_insert_fixup6$_right_rotate10$root" (.var "_rb_insert_fixup6$root"))
                (.seq (.setI "_rb_insert_fixup6$_right_rotate10$y" (.var "_rb_insert_fixup6$z_parent_parent"))
                (.seq (.scope (.seq (.setI "_rb_insert_fixup6$_right_rotate10$x" (.ld2 "tree_nodes" (.var "_rb_insert_fixup6$_right_rotate10$y") (.lit 1)))
                    (.seq (.setI "_rb_insert_fixup6$_right_rotate10$x_right" (.ld2 "tree_nodes" (.var "_rb_insert_fixup6$_right_rotate10$x") (.lit 2)))
                    (.seq (.setI "_rb_insert_fixup6$_right_rotate10$y_right" (.ld2 "tree_nodes" (.var "_rb_insert_fixup6$_right_rotate10$y") (.lit 2)))
                    (.seq (selMax "_rb_insert_fixup6$_right_rotate10$tmp_max" (.ld2 "tree_vals" (.var "_rb_insert_fixup6$_right_rotate10$x_right") (.lit 7)) (.ld2 "tree_vals" (.var "_rb_insert_fixup6$_right_rotate10$y_right") (.lit 7)))
                    (.seq (.setI "_rb_insert_fixup6$_right_rotate10$_find_value_min_value11$node_id" (.var "_rb_insert_fixup6$_right_rotate10$y"))
                    (.seq (minvScope "_rb_insert_fixup6$_right_rotate10$_find_value_min_value11$node_id" "_rb_insert_fixup6$_right_rotate10$_find_value_min_value11$ret0")
                    (.seq (.setF "_rb_insert_fixup6$_right_rotate10$min_value" (.var "_rb_insert_fixup6$_right_rotate10$_find_value_min_value11$ret0"))
                    (.seq (stMax "tree_vals" (.var "_rb_insert_fixup6$_right_rotate10$y") (.lit 7) (.var "_rb_insert_fixup6$_right_rotate10$tmp_max") (.var "_rb_insert_fixup6$_right_rotate10$min_value"))
                    (.seq (.setI "_rb_insert_fixup6$_right_rotate10$x_left" (.ld2 "tree_nodes" (.var "_rb_insert_fixup6$_right_rotate10$x") (.lit 1)))
                    (.seq (selMax "_rb_insert_fixup6$_right_rotate10$tmp_max" (.ld2 "tree_vals" (.var "_rb_insert_fixup6$_right_rotate10$x_left") (.lit 7)) (.ld2 "tree_vals" (.var "_rb_insert_fixup6$_right_rotate10$y") (.lit 7)))
                    (.seq (.setI "_rb_insert_fixup6$_right_rotate10$_find_value_min_value12$node_id" (.var "_rb_insert_fixup6$_right_rotate10$x"))
                    (.seq (minvScope "_rb_insert_fixup6$_right_rotate10$_find_value_min_value12$node_id" "_rb_insert_fixup6$_right_rotate10$_find_value_min_value12$ret0")
                    (.seq (.setF "_rb_insert_fixup6$_right_rotate10$min_value" (.var "_rb_insert_fixup6$_right_rotate10$_find_value_min_value12$ret0"))
                    (.seq (stMax "tree_vals" (.var "_rb_insert_fixup6$_right_rotate10$x") (.lit 7) (.var "_rb_insert_fixup6$_right_rotate10$tmp_max") (.var "_rb_insert_fixup6$_right_rotate10$min_value"))
                    (.seq (.stI2 "tree_nodes" (.var "_rb_insert_fixup6$_right_rotate10$y") (.lit 1) (.ld2 "tree_nodes" (.var "_rb_insert_fixup6$_right_rotate10$x") (.lit 2)))
                    (.seq (.setI "_rb_insert_fixup6$_right_rotate10$x_right" (.ld2 "tree_nodes" (.var "_rb_insert_fixup6$_right_rotate10$x") (.lit 2)))
                    (.seq (.stI2 "tree_nodes" (.var "_rb_insert_fixup6$_right_rotate10$x_right") (.lit 3) (.var "_rb_insert_fixup6$_right_rotate10$y"))
                    (.seq (.stI2 "tree_nodes" (.var "_rb_insert_fixup6$_right_rotate10$x") (.lit 3) (.ld2 "tree_nodes" (.var "_rb_insert_fixup6$_right_rotate10$y") (.lit 3)))
                    (.seq (.ite (.cmpI .eq (.ld2 "tree_nodes" (.var "_rb_insert_fixup6$_right_rotate10$y") (.lit 3)) (.lit (-1)))
                        (.setI "_rb_insert_fixup6$_right_rotate10$root" (.var "_rb_insert_fixup6$_right_rotate10$x"))
                        (.seq (.setI "_rb_insert_fixup6$_right_rotate10$y_parent" (.ld2 "tree_nodes" (.var "_rb_insert_fixup6$_right_rotate10$y") (.lit 3)))
                        (.ite (.cmpI .eq (.ld2 "tree_nodes" (.var "_rb_insert_fixup6$_right_rotate10$y_parent") (.lit 1)) (.var "_rb_insert_fixup6$_right_rotate10$y"))
                          (.stI2 "tree_nodes" (.var "_rb_insert_fixup6$_right_rotate10$y_parent") (.lit 1) (.var "_rb_insert_fixup6$_right_rotate10$x"))
                          (.stI2 "tree_nodes" (.var "_rb_insert_fixup6$_right_rotate10$y_parent") (.lit 2) (.var "_rb_insert_fixup6$_right_rotate10$x")))))
                    (.seq (.stI2 "tree_nodes" (.var "_rb_insert_fixup6$_right_rotate10$x") (.lit 2) (.var "_rb_insert_fixup6$_right_rotate10$y"))
                    (.seq (.stI2 "tree_nodes" (.var "_rb_insert_fixup6$_right_rotate10$y") (.lit 3) (.var "_rb_insert_fixup6$_right_rotate10$x"))
                    (.seq (.setI "_rb_insert_fixup6$_right_rotate10$ret0" (.var "_rb_insert_fixup6$_right_rotate10$root"))
                    .ret)))))))))))))))))))))))
                (.setI "_rb_insert_fixup6$root" (.var "_rb_insert_fixup6$_right_rotate10$ret0"))))))))))))
              (.seq (.setI "_rb_insert_fixup6$y" (.ld2 "tree_nodes" (.var "_rb_insert_fixup6$z_parent_parent") (.lit 1)))
              (.ite (.cmpI .eq (.ld2 "tree_nodes" (.var "_rb_insert_fixup6$y") (.lit 0)) (.lit 0))
                (.seq (.stI2 "tree_nodes" (.var "_rb_insert_fixup6$z_parent") (.lit 0) (.lit 1))
                (.seq (.stI2 "tree_nodes" (.var "_rb_insert_fixup6$y") (.lit 0) (.lit 1))
                (.seq (.stI2 "tree_nodes" (.var "_rb_insert_fixup6$z_parent_parent") (.lit 0) (.lit 0))
                (.setI "_rb_insert_fixup6$z" (.var "_rb_insert_fixup6$z_parent_parent")))))
                (.seq (.ite (.cmpI .eq (.var "_rb_insert_fixup6$z") (.ld2 "tree_nodes" (.var "_rb_insert_fixup6$z_parent") (.lit 1)))
                    (.seq (.setI "_rb_insert_fixup6$z" (.var "_rb_insert_fixup6$z_parent"))
                    (.seq (.setI "_rb_insert_fixup6$_right_rotate13$root" (.var "_rb_insert_fixup6$root"))
                    (.seq (.setI "_rb_insert_fixup6$_right_rotate13$y" (.var "_rb_insert_fixup6$z"))
                    (.seq (.scope (.seq (.setI "_rb_insert_fixup6$_right_rotate13$x" (.ld2 "tree_nodes" (.var "_rb_insert_fixup6$_right_rotate13$y") (.lit 1)))
                        (.seq (.setI "_rb_insert_fixup6$_right_rotate13$x_right" (.ld2 "tree_nodes" (.var "_rb_insert_fixup6$_right_rotate13$x") (.lit 2)))
                        (.seq (.setI "_rb_insert_fixup6$_right_rotate13$y_right" (.ld2 "tree_nodes" (.var "_rb_insert_fixup6$_right_rotate13$y") (.lit 2)))
                        (.seq (selMax "_rb_insert_fixup6$_right_rotate13$tmp_max" (.ld2 "tree_vals" (.var "_rb_insert_fixup6$_right_rotate13$x_right") (.lit 7)) (.ld2 "tree_vals" (.var "_rb_insert_fixup6$_right_rotate13$y_right") (.lit 7)))
                        (.seq (.setI "_rb_insert_fixup6$_right_rotate13$_find_value_min_value14$node_id" (.var "_rb_insert_fixup6$_right_rotate13$y"))
                        (.seq (minvScope "_rb_insert_fixup6$_right_rotate13$_find_value_min_value14$node_id" "_rb_insert_fixup6$_right_rotate13$_find_value_min_value14$ret0")
                        (.seq (.setF "_rb_insert_fixup6$_right_rotate13$min_value" (.var "_rb_insert_fixup6$_right_rotate13$_find_value_min_value14$ret0"))
                        (.seq (stMax "tree_vals" (.var "_rb_insert_fixup6$_right_rotate13$y") (.lit 7) (.var "_rb_insert_fixup6$_right_rotate13$tmp_max") (.var "_rb_insert_fixup6$_right_rotate13$min_value"))
                        (.seq (.setI "_rb_insert_fixup6$_right_rotate13$x_left" (.ld2 "tree_nodes" (.var "_rb_insert_fixup6$_right_rotate13$x") (.lit 1)))
                        (.seq (selMax "_rb_insert_fixup6$_right_rotate13$tmp_max" (.ld2 "tree_vals" (.var "_rb_insert_fixup6$_right_rotate13$x_left") (.lit 7)) (.ld2 "tree_vals" (.var "_rb_insert_fixup6$_right_rotate13$y") (.lit 7)))
                        (.seq (.setI "_rb_insert_fixup6$_right_rotate13$_find_value_min_value15$node_id" (.var "_rb_insert_fixup6$_right_rotate13$x"))
                        (.seq (minvScope "_rb_insert_fixup6$_right_rotate13$_find_value_min_value15$node_id" "_rb_insert_fixup6$_right_rotate13$_find_value_min_value15$ret0")
                        (.seq (.setF "_rb_insert_fixup6$_right_rotate13$min_value" (.var "_rb_insert_fixup6$_right_rotate13$_find_value_min_value15$ret0"))
                        (.seq (stMax "tree_vals" (.var "_rb_insert_fixup6$_right_rotate13$x") (.lit 7) (.var "_rb_insert_fixup6$_right_rotate13$tmp_max") (.var "_rb_insert_fixup6$_right_rotate13$min_value"))
                        (.seq (.stI2 "tree_nodes" (.var "_rb_insert_fixup6$_right_rotate13$y") (.lit 1) (.ld2 "tree_nodes" (.var "_rb_insert_fixup6$_right_rotate13$x") (.lit 2)))
                        (.seq (.setI "_rb_insert_fixup6$_right_rotate13$x_right" (.ld2 "tree_nodes" (.var "_rb_insert_fixup6$_right_rotate13$x") (.lit 2)))
                        (.seq (.stI2 "tree_nodes" (.var "_rb_insert_fixup6$_right_rotate13$x_right") (.lit 3) (.var "_rb_insert_fixup6$_right_rotate13$y"))
                        (.seq (.stI2 "tree_nodes" (.var "_rb_insert_fixup6$_right_rotate13$x") (.lit 3) (.ld2 "tree_nodes" (.var "_rb_insert_fixup6$_right_rotate13$y") (.lit 3)))
                        (.seq (.ite (.cmpI .eq (.ld2 "tree_nodes" (.var "_rb_insert_fixup6$_right_rotate13$y") (.lit 3)) (.lit (-1)))
                            (.setI "_rb_insert_fixup6$_right_rotate13$root" (.var "_rb_insert_fixup6$_right_rotate13$x"))
                            (.seq (.setI "_rb_insert_fixup6$_right_rotate13$y_parent" (.ld2 "tree_nodes" (.var "_rb_insert_fixup6$_right_rotate13$y") (.lit 3)))
                            (.ite (.cmpI .eq (.ld2 "tree_nodes" (.var "_rb_insert_fixup6$_right_rotate13$y_parent") (.lit 1)) (.var "_rb_insert_fixup6$_right_rotate13$y"))
                              (.stI2 "tree_nodes" (.var "_rb_insert_fixup6$_right_rotate13$y_parent") (.lit 1) (.var "_rb_insert_fixup6$_right_rotate13$x"))
                              (.stI2 "tree_nodes" (.var "_rb_insert_fixup6$_right_rotate13$y_parent") (.lit 2) (.var "_rb_insert_fixup6$_right_rotate13$x")))))
                        (.seq (.stI2 "tree_nodes" (.var "_rb_insert_fixup6$_right_rotate13$x") (.lit 2) (.var "_rb_insert_fixup6$_right_rotate13$y"))
                        (.seq (.stI2 "tree_nodes" (.var "_rb_insert_fixup6$_right_rotate13$y") (.lit 3) (.var "_rb_insert_fixup6$_right_rotate13$x"))
                        (.seq (.setI "_rb_insert_fixup6$_right_rotate13$ret0" (.var "_rb_insert_fixup6$_right_rotate13$root"))
                        .ret)))))))))))))))))))))))
                    (.setI "_rb_insert_fixup6$root" (.var "_rb_insert_fixup6$_right_rotate13$ret0"))))))
                    .skip)
                (.seq (.setI "_rb_insert_fixup6$z_parent" (.ld2 "tree_nodes" (.var "_rb_insert_fixup6$z") (.lit 3)))
                (.seq (.setI "_rb_insert_fixup6$z_parent_parent" (.ld2 "tree_nodes" (.var "_rb_insert_fixup6$z_parent") (.lit 3)))
                (.seq (.stI2 "tree_nodes" (.var "_rb_insert_fixup6$z_parent") (.lit 0) (.lit 1))
                (.seq (.stI2 "tree_nodes" (.var "_rb_insert_fixup6$z_parent_parent") (.lit 0) (.lit 0))
                (.seq (.setI "_rb_insert_fixup6$_left_rotate16$root" (.var "_rb_insert_fixup6$root"))
                (.seq (.setI "_rb_insert_fixup6$_left_rotate16$x" (.var "_rb_insert_fixup6$z_parent_parent"))
                (.seq (.scope (.seq (.setI "_rb_insert_fixup6$_left_rotate16$y" (.ld2 "tree_nodes" (.var "_rb_insert_fixup6$_left_rotate16$x") (.lit 2)))
                    (.seq (.setI "_rb_insert_fixup6$_left_rotate16$x_left" (.ld2 "tree_nodes" (.var "_rb_insert_fixup6$_left_rotate16$x") (.lit 1)))
                    (.seq (.setI "_rb_insert_fixup6$_left_rotate16$y_left" (.ld2 "tree_nodes" (.var "_rb_insert_fixup6$_left_rotate16$y") (.lit 1)))
                    (.seq (selMax "_rb_insert_fixup6$_left_rotate16$tmp_max" (.ld2 "tree_vals" (.var "_rb_insert_fixup6$_left_rotate16$x_left") (.lit 7)) (.ld2 "tree_vals" (.var "_rb_insert_fixup6$_left_rotate16$y_left") (.lit 7)))
                    (.seq (.setI "_rb_insert_fixup6$_left_rotate16$_find_value_min_value17$node_id" (.var "_rb_insert_fixup6$_left_rotate16$x"))
                    (.seq (minvScope "_rb_insert_fixup6$_left_rotate16$_find_value_min_value17$node_id" "_rb_insert_fixup6$_left_rotate16$_find_value_min_value17$ret0")
                    (.seq (.setF "_rb_insert_fixup6$_left_rotate16$min_value" (.var "_rb_insert_fixup6$_left_rotate16$_find_value_min_value17$ret0"))
                    (.seq (stMax "tree_vals" (.var "_rb_insert_fixup6$_left_rotate16$x") (.lit 7) (.var "_rb_insert_fixup6$_left_rotate16$tmp_max") (.var "_rb_insert_fixup6$_left_rotate16$min_value"))
                    (.seq (.setI "_rb_insert_fixup6$_left_rotate16$y_right" (.ld2 "tree_nodes" (.var "_rb_insert_fixup6$_left_rotate16$y") (.lit 2)))
                    (.seq (selMax "_rb_insert_fixup6$_left_rotate16$tmp_max" (.ld2 "tree_vals" (.var "_rb_insert_fixup6$_left_rotate16$x") (.lit 7)) (.ld2 "tree_vals" (.var "_rb_insert_fixup6$_left_rotate16$y_right") (.lit 7)))
                    (.seq (.setI "_rb_insert_fixup6$_left_rotate16$_find_value_min_value18$node_id" (.var "_rb_insert_fixup6$_left_rotate16$y"))
                    (.seq (minvScope "_rb_insert_fixup6$_left_rotate16$_find_value_min_value18$node_id" "_rb_insert_fixup6$_left_rotate16$_find_value_min_value18$ret0")
                    (.seq (.setF "_rb_insert_fixup6$_left_rotate16$min_value" (.var "_rb_insert_fixup6$_left_rotate16$_find_value_min_value18$ret0"))
                    (.seq (stMax "tree_vals" (.var "_rb_insert_fixup6$_left_rotate16$y") (.lit 7) (.var "_rb_insert_fixup6$_left_rotate16$tmp_max") (.var "_rb_insert_fixup6$_left_rotate16$min_value"))
                    (.seq (.stI2 "tree_nodes" (.var "_rb_insert_fixup6$_left_rotate16$x") (.lit 2) (.ld2 "tree_nodes" (.var "_rb_insert_fixup6$_left_rotate16$y") (.lit 1)))
                    (.seq (.setI "_rb_insert_fixup6$_left_rotate16$y_left" (.ld2 "tree_nodes" (.var "_rb_insert_fixup6$_left_rotate16$y") (.lit 1)))
                    (.seq (.stI2 "tree_nodes" (.var "_rb_insert_fixup6$_left_rotate16$y_left") (.lit 3) (.var "_rb_insert_fixup6$_left_rotate16$x"))
                    (.seq (.stI2 "tree_nodes" (.var "_rb_insert_fixup6$_left_rotate16$y") (.lit 3) (.ld2 "tree_nodes" (.var "_rb_insert_fixup6$_left_rotate16$x") (.lit 3)))
                    (.seq (.ite (.cmpI .eq (.ld2 "tree_nodes" (.var "_rb_insert_fixup6$_left_rotate16$x") (.lit 3)) (.lit (-1)))
                        (.setI "_rb_insert_fixup6$_left_rotate16$root" (.var "_rb_insert_fixup6$_left_rotate16$y"))
                        (.seq (.setI "_rb_insert_fixup6$_left_rotate16$x_parent" (.ld2 "tree_nodes" (.var "_rb_insert_fixup6$_left_rotate16$x") (.lit 3)))
                        (.ite (.cmpI .eq (.var "_rb_insert_fixup6$_left_rotate16$x") (.ld2 "tree_nodes" (.var "_rb_insert_fixup6$_left_rotate16$x_parent") (.lit 1)))
                          (.stI2 "tree_nodes" (.var "_rb_insert_fixup6$_left_rotate16$x_parent") (.lit 1) (.var "_rb_insert_fixup6$_left_rotate16$y"))
                          (.stI2 "tree_nodes" (.var "_rb_insert_fixup6$_left_rotate16$x_parent") (.lit 2) (.var "_rb_insert_fixup6$_left_rotate16$y")))))
                    (.seq (.stI2 "tree_nodes" (.var "_rb_insert_fixup6$_left_rotate16$y") (.lit 1) (.var "_rb_insert_fixup6$_left_rotate16$x"))
                    (.seq (.stI2 "tree_nodes" (.var "_rb_insert_fixup6$_left_rotate16$x") (.lit 3) (.var "_rb_insert_fixup6$_left_rotate16$y"))
                    (.seq (.setI "_rb_insert_fixup6$_left_rotate16$ret0" (.var "_rb_insert_fixup6$_left_rotate16$root"))
                    .ret)))))))))))))))))))))))
                (.setI "_rb_insert_fixup6$root" (.var "_rb_insert_fixup6$_left_rotate16$ret0")))))))))))))
          (.setI "_rb_insert_fixup6$z_parent" (.ld2 "tree_nodes" (.var "_rb_insert_fixup6$z") (.lit 3))))))))
      (.seq (.stI2 "tree_nodes" (.var "_rb_insert_fixup6$root") (.lit 0) (.lit 1))
      (.seq (.setI "_rb_insert_fixup6$ret0" (.var "_rb_insert_fixup6$root")) .ret)))))
  (.seq (.setI "root" (.var "_rb_insert_fixup6$ret0")) (.seq (.setI "ret0" (.var "root")) .ret)))))

theorem vsInsert_body : Gen.IL.vsInsert.body =
    seqK insDesc0Items (.seq insDescLoop (seqK insCreateItems (seqK insLinkItems (.seq insPropLoop insFixup)))) := rfl


/-- the parameter `value` (a 1-D array of at least the seven node fields) -/
structure VVal (s : State F) (m : Nat) : Prop where
  shp : s.shp "value" = [m]
  len : (s.fa "value").length = m
  big : 7 ≤ m

/-- `value[k]` -/
def valAt (s : State F) (k : Nat) : Fv F := ⟨(s.fa "value").getD k Fl.nan⟩

/-- the node `value` describes -/
def valNode (s : State F) : Node (Fv F) :=
  ⟨valAt s 0, valAt s 1, valAt s 2, valAt s 3, valAt s 4, valAt s 5, valAt s 6⟩

theorem evalVal (s : State F) (m : Nat) (hs : s.shp "value" = [m]) (k : Int) (hk : 0 ≤ k) :
    FE.eval s (.ld1 "value" (.lit k)) = (valAt s k.toNat).v := by
  obtain ⟨j, rfl⟩ := Int.eq_ofNat_of_zero_le hk
  simp only [FE.eval, IE.eval, hs, valAt, Int.toNat_natCast, off1_nat]

theorem okVal (s : State F) (m : Nat) (hs : s.shp "value" = [m]) (k : Int) (hk : 0 ≤ k ∧ k < m) :
    FE.ok s (.ld1 "value" (.lit k)) = true := by
  obtain ⟨j, rfl⟩ := Int.eq_ofNat_of_zero_le hk.1
  simp [FE.ok, IE.ok, IE.eval, hs, inRange_of_lt j m (by omega)]

theorem cmp3_neg_one (a b : F) : cmp3 a b = -1 ↔ Fl.lt a b = true := by
  unfold cmp3
  by_cases h1 : Fl.lt a b = true
  · simp [h1]
  · by_cases h2 : Fl.lt b a = true <;> simp [h1, h2]

def insDiv : List String := ["cur_node", "next_node", "_compare1$ret0", "_compare2$ret0"]
def insDfv : List String := ["_compare1$a", "_compare1$b", "_compare2$a", "_compare2$b"]

/-- one step of the descent at the node `i`: the next pointer is the left child iff the new key is below `i`'s -/
theorem insDescBody_spec (n m fuel : Nat) (s : State F) (hv : VS s n) (hm : VVal s m) (hrun : s.ctl = .run) (i : Nat)
    (hi : i + 1 < n) (hnext : s.ienv "next_node" = i) :
    let r := exec fuel insDescBody s
    r.ctl = .run ∧ Frame insDiv insDfv [] s r ∧ r.ienv "cur_node" = i ∧
      r.ienv "next_node" = (if valAt s 0 < vAt (s.fa "tree_vals") i 0 then nAt (s.ia "tree_nodes") i 1
        else nAt (s.ia "tree_nodes") i 2) := by
  have eN := fun (s' : State F) => evalN s' n
  have oN := fun (s' : State F) => okN s' n
  have eV := fun (s' : State F) => evalV s' n
  have oV := fun (s' : State F) => okV s' n
  have eA := fun (s' : State F) => evalVal s' m
  have oA := fun (s' : State F) => okVal s' m
  have hin : inRange (i : Int) n = true := inRange_ptr n _ (by omega) hv.pos
  have hm0 : (0 : Int) < m := by have := hm.big; omega
  have hm0' : 0 < m := by have := hm.big; omega
  have eA0 : ∀ (s' : State F), s'.fa = s.fa → valAt s' 0 = valAt s 0 := fun s' e => by simp only [valAt, e]
  intro r
  have hfr : ∀ (r' : State F), r'.ia = s.ia → r'.fa = s.fa → r'.shp = s.shp → r'.ext = s.ext → r'.benv = s.benv →
      (∀ v, v ∉ insDiv → r'.ienv v = s.ienv v) → (∀ v, v ∉ insDfv → r'.fenv v = s.fenv v) → Frame insDiv insDfv [] s r' :=
    fun r' a b c d e f g => ⟨a, b, c, d, f, g, fun _ _ => by rw [e]⟩
  by_cases h1 : Fl.lt (valAt s 0).v (vAt (s.fa "tree_vals") i 0).v = true
  · have h1' : valAt s 0 < vAt (s.fa "tree_vals") i 0 := h1
    simp [r, insDescBody, exec, cmpScope_spec, eN, oN, eV, oV, eA, oA, eA0, hv.shpN, hv.shpV, hm.shp, hm0, hm0', hnext, hin,
      IE.ok_var, IE.eval_var, IE.ok_lit, IE.eval_lit, FE.ok_var, FE.eval_var, BE.ok, BE.eval, cmpInt, setS, hrun,
      (cmp3_neg_one _ _).mpr h1, h1']
    apply hfr <;> try rfl
    all_goals intro v hv'
    all_goals simp only [insDiv, insDfv, List.mem_cons, List.not_mem_nil, or_false, not_or] at hv'
    all_goals simp [setS, hv']
  · have h1' : ¬ valAt s 0 < vAt (s.fa "tree_vals") i 0 := h1
    have hc : ¬ (cmp3 (valAt s 0).v (vAt (s.fa "tree_vals") i 0).v = -1) := fun e => h1 ((cmp3_neg_one _ _).mp e)
    simp [r, insDescBody, exec, cmpScope_spec, eN, oN, eV, oV, eA, oA, eA0, hv.shpN, hv.shpV, hm.shp, hm0, hm0', hnext, hin,
      IE.ok_var, IE.eval_var, IE.ok_lit, IE.eval_lit, FE.ok_var, FE.eval_var, BE.ok, BE.eval, cmpInt, setS, hrun, hc, h1']
    apply hfr <;> try rfl
    all_goals intro v hv'
    all_goals simp only [insDiv, insDfv, List.mem_cons, List.not_mem_nil, or_false, not_or] at hv'
    all_goals simp [setS, hv']

theorem insDescLoop_spec (n m : Nat) : ∀ (sub : Sh) (ctx : Ctx) (fuel : Nat) (s : State F), VS s n → VVal s m → s.ctl = .run →
    Linked (s.ia "tree_nodes") n (ctxPar ctx) sub → s.ienv "next_node" = sub.ptr → s.ienv "cur_node" = ctxPar ctx →
    sub.height < fuel →
    let r := exec fuel insDescLoop s
    r.ctl = .run ∧ Frame insDiv insDfv [] s r ∧
      r.ienv "cur_node" = ctxPar (insZ (s.fa "tree_vals") (valAt s 0) sub ctx) := by
  intro sub
  induction sub with
  | nil =>
    intro ctx fuel s hv hm hrun hl hnext hcur hf
    obtain ⟨fuel, rfl⟩ : ∃ f, fuel = f + 1 := ⟨fuel - 1, by omega⟩
    intro r
    have hr : r = s := by
      simp only [r, insDescLoop]
      rw [exec_while_exit]
      · simp [BE.ok, IE.ok_var, IE.ok_lit]
      · simp [BE.eval, IE.eval_var, IE.eval_lit, hnext, Sh.ptr, cmpInt]
    rw [hr]
    exact ⟨hrun, Frame.refl _ _ _ _, by simpa [insZ] using hcur⟩
  | node l i rr ihl ihr =>
    intro ctx fuel s hv hm hrun hl hnext hcur hf
    obtain ⟨fuel, rfl⟩ : ∃ f, fuel = f + 1 := ⟨fuel - 1, by omega⟩
    obtain ⟨hi, hL, hR, hP, hlL, hlR⟩ := hl
    simp only [Sh.ptr] at hnext
    obtain ⟨b1, b2, b3, b4⟩ := insDescBody_spec n m fuel s hv hm hrun i hi hnext
    intro r
    have hr : r = exec fuel insDescLoop (exec fuel insDescBody s) := by
      simp only [r, insDescLoop]
      rw [exec_while_step _ _ _ _ _ _ b1]
      · simp [BE.ok, IE.ok_var, IE.ok_lit]
      · simp [BE.eval, IE.eval_var, IE.eval_lit, hnext, cmpInt]
    have hval : valAt (exec fuel insDescBody s) 0 = valAt s 0 := by simp only [valAt, b2.fa]
    have hm' : VVal (exec fuel insDescBody s) m := ⟨by rw [b2.shp]; exact hm.shp, by rw [b2.fa]; exact hm.len, hm.big⟩
    simp only [Sh.height] at hf
    rw [hr]
    simp only [insZ]
    by_cases h1 : valAt s 0 < vAt (s.fa "tree_vals") i 0
    · simp only [h1, if_true] at b4 ⊢
      have := ihl (.L i rr :: ctx) fuel (exec fuel insDescBody s) (b2.vs hv) hm' b1 (by rw [b2.ia]; exact hlL)
        (by rw [b4, hL]) (by rw [b3]; rfl) (by omega)
      rw [hval, b2.fa] at this
      exact ⟨this.1, b2.trans this.2.1, this.2.2⟩
    · simp only [h1, if_false] at b4 ⊢
      have := ihr (.R l i :: ctx) fuel (exec fuel insDescBody s) (b2.vs hv) hm' b1 (by rw [b2.ia]; exact hlR)
        (by rw [b4, hR]) (by rw [b3]; rfl) (by omega)
      rw [hval, b2.fa] at this
      exact ⟨this.1, b2.trans this.2.1, this.2.2⟩

/-- the whole descent: `cur_node` ends at the node below which the new key belongs -/
theorem insDesc_spec (n m fuel : Nat) (s : State F) (hv : VS s n) (hm : VVal s m) (hrun : s.ctl = .run)
    (l : Sh) (i : Nat) (rr : Sh) (hl : Linked (s.ia "tree_nodes") n (-1) (.node l i rr)) (hroot : s.ienv "root" = i)
    (hf : (Sh.node l i rr).height < fuel) :
    let r := exec fuel (.seq (seqL insDesc0Items) insDescLoop) s
    r.ctl = .run ∧ Frame insDiv insDfv [] s r ∧
      r.ienv "cur_node" = ctxPar (insZ (s.fa "tree_vals") (valAt s 0) (.node l i rr) []) := by
  -- the first comparison is the loop body entered with `next_node = root`
  have h0 : ∀ (s' : State F), exec fuel (seqL insDesc0Items) s' =
      exec fuel (.seq (.setI "cur_node" (.var "root")) (.seq (.setF "_compare1$a" (.ld1 "value" (.lit 0)))
        (.seq (.setF "_compare1$b" (.ld2 "tree_vals" (.var "cur_node") (.lit 0)))
        (.seq (cmpScope "_compare1$a" "_compare1$b" "_compare1$ret0")
        (.ite (.cmpI .eq (.var "_compare1$ret0") (.lit (-1)))
          (.setI "next_node" (.ld2 "tree_nodes" (.var "cur_node") (.lit 1)))
          (.setI "next_node" (.ld2 "tree_nodes" (.var "cur_node") (.lit 2)))))))) s' := fun _ => rfl
  obtain ⟨hi, hL, hR, hP, hlL, hlR⟩ := hl
  have eN := fun (s' : State F) => evalN s' n
  have oN := fun (s' : State F) => okN s' n
  have eV := fun (s' : State F) => evalV s' n
  have oV := fun (s' : State F) => okV s' n
  have eA := fun (s' : State F) => evalVal s' m
  have oA := fun (s' : State F) => okVal s' m
  have hin : inRange (i : Int) n = true := inRange_ptr n _ (by omega) hv.pos
  have hm0 : (0 : Int) < m := by have := hm.big; omega
  have hm0' : 0 < m := by have := hm.big; omega
  have eA0 : ∀ (s' : State F), s'.fa = s.fa → valAt s' 0 = valAt s 0 := fun s' e => by simp only [valAt, e]
  simp only [Sh.height] at hf
  intro r
  have hfr : ∀ (r' : State F), r'.ia = s.ia → r'.fa = s.fa → r'.shp = s.shp → r'.ext = s.ext → r'.benv = s.benv →
      (∀ v, v ∉ insDiv → r'.ienv v = s.ienv v) → (∀ v, v ∉ insDfv → r'.fenv v = s.fenv v) → Frame insDiv insDfv [] s r' :=
    fun r' a b c d e f g => ⟨a, b, c, d, f, g, fun _ _ => by rw [e]⟩
  simp only [insZ]
  by_cases h1 : Fl.lt (valAt s 0).v (vAt (s.fa "tree_vals") i 0).v = true
  · have h1' : valAt s 0 < vAt (s.fa "tree_vals") i 0 := h1
    have hs1 : exec fuel (seqL insDesc0Items) s =
        { s with ienv := setS (setS (setS s.ienv "cur_node" (i : Int)) "_compare1$ret0" (-1)) "next_node" l.ptr,
                 fenv := setS (setS s.fenv "_compare1$a" (valAt s 0).v) "_compare1$b" (vAt (s.fa "tree_vals") i 0).v } := by
      rw [h0]
      simp [exec, cmpScope_spec, eN, oN, eV, oV, eA, oA, eA0, hv.shpN, hv.shpV, hm.shp, hm0, hm0', hroot, hin,
        IE.ok_var, IE.eval_var, IE.ok_lit, IE.eval_lit, FE.ok_var, FE.eval_var, BE.ok, BE.eval, cmpInt, setS, hrun,
        (cmp3_neg_one _ _).mpr h1, hL]
    have hfr1 : Frame insDiv insDfv [] s (exec fuel (seqL insDesc0Items) s) := by
      rw [hs1]
      apply hfr <;> try rfl
      all_goals intro v hv'
      all_goals simp only [insDiv, insDfv, List.mem_cons, List.not_mem_nil, or_false, not_or] at hv'
      all_goals simp [setS, hv']
    have hL' := insDescLoop_spec n m l [.L i rr] fuel (exec fuel (seqL insDesc0Items) s) (hfr1.vs hv)
      ⟨by rw [hfr1.shp]; exact hm.shp, by rw [hfr1.fa]; exact hm.len, hm.big⟩ (by rw [hs1]; exact hrun)
      (by rw [hfr1.ia]; exact hlL) (by rw [hs1]; simp [setS]) (by rw [hs1]; simp [setS, ctxPar]) (by omega)
    have hr : r = exec fuel insDescLoop (exec fuel (seqL insDesc0Items) s) := by
      simp only [r]; rw [exec_seq_run _ _ _ _ (by rw [hs1]; exact hrun)]
    rw [hr]
    simp only [h1', if_true]
    have hval : valAt (exec fuel (seqL insDesc0Items) s) 0 = valAt s 0 := by simp only [valAt, hfr1.fa]
    rw [hval, hfr1.fa] at hL'
    exact ⟨hL'.1, hfr1.trans hL'.2.1, hL'.2.2⟩
  · have h1' : ¬ valAt s 0 < vAt (s.fa "tree_vals") i 0 := h1
    have hc : ¬ (cmp3 (valAt s 0).v (vAt (s.fa "tree_vals") i 0).v = -1) := fun e => h1 ((cmp3_neg_one _ _).mp e)
    have hs1 : exec fuel (seqL insDesc0Items) s =
        { s with ienv := setS (setS (setS s.ienv "cur_node" (i : Int)) "_compare1$ret0"
                   (cmp3 (valAt s 0).v (vAt (s.fa "tree_vals") i 0).v)) "next_node" rr.ptr,
                 fenv := setS (setS s.fenv "_compare1$a" (valAt s 0).v) "_compare1$b" (vAt (s.fa "tree_vals") i 0).v } := by
      rw [h0]
      simp [exec, cmpScope_spec, eN, oN, eV, oV, eA, oA, eA0, hv.shpN, hv.shpV, hm.shp, hm0, hm0', hroot, hin,
        IE.ok_var, IE.eval_var, IE.ok_lit, IE.eval_lit, FE.ok_var, FE.eval_var, BE.ok, BE.eval, cmpInt, setS, hrun, hc, hR]
    have hfr1 : Frame insDiv insDfv [] s (exec fuel (seqL insDesc0Items) s) := by
      rw [hs1]
      apply hfr <;> try rfl
      all_goals intro v hv'
      all_goals simp only [insDiv, insDfv, List.mem_cons, List.not_mem_nil, or_false, not_or] at hv'
      all_goals simp [setS, hv']
    have hL' := insDescLoop_spec n m rr [.R l i] fuel (exec fuel (seqL insDesc0Items) s) (hfr1.vs hv)
      ⟨by rw [hfr1.shp]; exact hm.shp, by rw [hfr1.fa]; exact hm.len, hm.big⟩ (by rw [hs1]; exact hrun)
      (by rw [hfr1.ia]; exact hlR) (by rw [hs1]; simp [setS]) (by rw [hs1]; simp [setS, ctxPar]) (by omega)
    have hr : r = exec fuel insDescLoop (exec fuel (seqL insDesc0Items) s) := by
      simp only [r]; rw [exec_seq_run _ _ _ _ (by rw [hs1]; exact hrun)]
    rw [hr]
    simp only [h1', if_false]
    have hval : valAt (exec fuel (seqL insDesc0Items) s) 0 = valAt s 0 := by simp only [valAt, hfr1.fa]
    rw [hval, hfr1.fa] at hL'
    exact ⟨hL'.1, hfr1.trans hL'.2.1, hL'.2.2⟩

end XrsVerif.ILVs
