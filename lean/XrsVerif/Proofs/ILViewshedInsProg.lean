import XrsVerif.Proofs.ILViewshedIns
/-
  Proofs/ILViewshedInsProg.lean -- `Gen.IL.vsInsert` (`_insert_into_tree` with `_compare`, `_create_tree_nodes`,
  `_find_value_min_value`, `_rb_insert_fixup` and the rotations inlined) up to the colour fixup: the descent to the
  empty slot, the creation and linking of the new node, and the upward propagation of its minimum gradient compute the
  hand model's `leafInsert` (in the code-exact form `insCoreC`).  `vsInsert_body` ties the cut to the regenerated
  program by `rfl`; the fixup (`insFixup`: the recolouring loop with six inlined rotations) is NOT covered here.
-/
set_option linter.unusedSectionVars false
set_option linter.unusedVariables false
set_option linter.unusedSimpArgs false
namespace XrsVerif.ILVs
open XrsVerif XrsVerif.IL XrsVerif.Viewshed
variable {F : Type} [Fl F]

def insDesc0Items : List St :=
  [(.setI "cur_node" (.var "root")),
   (.setF "_compare1$a" (.ld1 "value" (.lit 0))),
   (.setF "_compare1$b" (.ld2 "tree_vals" (.var "cur_node") (.lit 0))),
   (cmpScope "_compare1$a" "_compare1$b" "_compare1$ret0"),
   (.ite (.cmpI .eq (.var "_compare1$ret0") (.lit (-1))) (.setI "next_node" (.ld2 "tree_nodes" (.var "cur_node") (.lit 1))) (.setI "next_node" (.ld2 "tree_nodes" (.var "cur_node") (.lit 2))))]

def insDescBody : St :=
  (.seq (.setI "cur_node" (.var "next_node"))
  (.seq (.setF "_compare2$a" (.ld1 "value" (.lit 0)))
  (.seq (.setF "_compare2$b" (.ld2 "tree_vals" (.var "cur_node") (.lit 0)))
  (.seq (cmpScope "_compare2$a" "_compare2$b" "_compare2$ret0")
  (.ite (.cmpI .eq (.var "_compare2$ret0") (.lit (-1)))
    (.setI "next_node" (.ld2 "tree_nodes" (.var "cur_node") (.lit 1)))
    (.setI "next_node" (.ld2 "tree_nodes" (.var "cur_node") (.lit 2))))))))

def insDescLoop : St := .while (.cmpI .ne (.var "next_node") (.lit (-1))) insDescBody

def insCreateItems : List St :=
  [(.setI "_create_tree_nodes3$x" (.var "node_id")),
   (.setI "_create_tree_nodes3$color" (.lit 0)),
   (.scope (.seq (.stF2 "tree_vals" (.var "_create_tree_nodes3$x") (.lit 0) (.ld1 "value" (.lit 0))) (.seq (.stF2 "tree_vals" (.var "_create_tree_nodes3$x") (.lit 1) (.ld1 "value" (.lit 1))) (.seq (.stF2 "tree_vals" (.var "_create_tree_nodes3$x") (.lit 2) (.ld1 "value" (.lit 2))) (.seq (.stF2 "tree_vals" (.var "_create_tree_nodes3$x") (.lit 3) (.ld1 "value" (.lit 3))) (.seq (.stF2 "tree_vals" (.var "_create_tree_nodes3$x") (.lit 4) (.ld1 "value" (.lit 4))) (.seq (.stF2 "tree_vals" (.var "_create_tree_nodes3$x") (.lit 5) (.ld1 "value" (.lit 5))) (.seq (.stF2 "tree_vals" (.var "_create_tree_nodes3$x") (.lit 6) (.ld1 "value" (.lit 6))) (.seq (.stF2 "tree_vals" (.var "_create_tree_nodes3$x") (.lit 7) (.lit (-10000000000000000000000) 1)) (.seq (.stI2 "tree_nodes" (.var "_create_tree_nodes3$x") (.lit 0) (.var "_create_tree_nodes3$color")) (.seq (.stI2 "tree_nodes" (.var "_create_tree_nodes3$x") (.lit 1) (.lit (-1))) (.seq (.stI2 "tree_nodes" (.var "_create_tree_nodes3$x") (.lit 2) (.lit (-1))) (.seq (.stI2 "tree_nodes" (.var "_create_tree_nodes3$x") (.lit 3) (.lit (-1))) .ret)))))))))))))]

def insLinkItems : List St :=
  [(.setI "next_node" (.var "node_id")),
   (.stI2 "tree_nodes" (.var "next_node") (.lit 3) (.var "cur_node")),
   (.setF "_compare4$a" (.ld1 "value" (.lit 0))),
   (.setF "_compare4$b" (.ld2 "tree_vals" (.var "cur_node") (.lit 0))),
   (cmpScope "_compare4$a" "_compare4$b" "_compare4$ret0"),
   (.ite (.cmpI .eq (.var "_compare4$ret0") (.lit (-1))) (.stI2 "tree_nodes" (.var "cur_node") (.lit 1) (.var "next_node")) (.stI2 "tree_nodes" (.var "cur_node") (.lit 2) (.var "next_node"))),
   (.setI "inserted" (.var "next_node")),
   (.setI "_find_value_min_value5$node_id" (.var "next_node")),
   (minvScope "_find_value_min_value5$node_id" "_find_value_min_value5$ret0"),
   (.stF2 "tree_vals" (.var "next_node") (.lit 7) (.var "_find_value_min_value5$ret0"))]

def insPropBody : St :=
  (.seq (.setI "next_parent" (.ld2 "tree_nodes" (.var "next_node") (.lit 3)))
  (.seq (.ite (.cmpF .lt (.ld2 "tree_vals" (.var "next_parent") (.lit 7)) (.ld2 "tree_vals" (.var "next_node") (.lit 7)))
      (.stF2 "tree_vals" (.var "next_parent") (.lit 7) (.ld2 "tree_vals" (.var "next_node") (.lit 7)))
      .skip)
  (.seq (.ite (.cmpF .gt (.ld2 "tree_vals" (.var "next_parent") (.lit 7)) (.ld2 "tree_vals" (.var "next_node") (.lit 7)))
      .brk
      .skip)
  (.setI "next_node" (.var "next_parent")))))

def insPropLoop : St := .while (.cmpI .ne (.ld2 "tree_nodes" (.var "next_node") (.lit 3)) (.lit (-1))) insPropBody

def insFixup : St :=
  (.seq (.setI "_rb_insert_fixup6$root" (.var "root"))
  (.seq (.setI "_rb_insert_fixup6$z" (.var "inserted"))
  (.seq (.scope (.seq (.setI "_rb_insert_fixup6$z_parent" (.ld2 "tree_nodes" (.var "_rb_insert_fixup6$z") (.lit 3)))
      (.seq (.while (.cmpI .eq (.ld2 "tree_nodes" (.var "_rb_insert_fixup6$z_parent") (.lit 0)) (.lit 0))
          (.seq (.setI "_rb_insert_fixup6$z_parent_parent" (.ld2 "tree_nodes" (.var "_rb_insert_fixup6$z_parent") (.lit 3)))
          (.seq (.setI "_rb_insert_fixup6$n1" (.ld2 "tree_nodes" (.var "_rb_insert_fixup6$z") (.lit 3)))
          (.seq (.setI "_rb_insert_fixup6$n2" (.ld2 "tree_nodes" (.var "_rb_insert_fixup6$z_parent_parent") (.lit 1)))
          (.seq (.ite (.cmpI .eq (.var "_rb_insert_fixup6$n1") (.var "_rb_insert_fixup6$n2"))
              (.seq (.setI "_rb_insert_fixup6$y" (.ld2 "tree_nodes" (.var "_rb_insert_fixup6$z_parent_parent") (.lit 2)))
              (.ite (.cmpI .eq (.ld2 "tree_nodes" (.var "_rb_insert_fixup6$y") (.lit 0)) (.lit 0))
                (.seq (.stI2 "tree_nodes" (.var "_rb_insert_fixup6$z_parent") (.lit 0) (.lit 1))
                (.seq (.stI2 "tree_nodes" (.var "_rb_insert_fixup6$y") (.lit 0) (.lit 1))
                (.seq (.stI2 "tree_nodes" (.var "_rb_insert_fixup6$z_parent_parent") (.lit 0) (.lit 0))
                (.setI "_rb_insert_fixup6$z" (.var "_rb_insert_fixup6$z_parent_parent")))))
                (.seq (.ite (.cmpI .eq (.var "_rb_insert_fixup6$z") (.ld2 "tree_nodes" (.var "_rb_insert_fixup6$z_parent") (.lit 2)))
                    (.seq (.setI "_rb_insert_fixup6$z" (.var "_rb_insert_fixup6$z_parent"))
                    (.seq (.setI "_rb_insert_fixup6$_left_rotate7$root" (.var "_rb_insert_fixup6$root"))
                    (.seq (.setI "_rb_insert_fixup6$_left_rotate7$x" (.var "_rb_insert_fixup6$z"))
                    (.seq (.scope (.seq (.setI "_rb_insert_fixup6$_left_rotate7$y" (.ld2 "tree_nodes" (.var "_rb_insert_fixup6$_left_rotate7$x") (.lit 2)))
                        (.seq (.setI "_rb_insert_fixup6$_left_rotate7$x_left" (.ld2 "tree_nodes" (.var "_rb_insert_fixup6$_left_rotate7$x") (.lit 1)))
                        (.seq (.setI "_rb_insert_fixup6$_left_rotate7$y_left" (.ld2 "tree_nodes" (.var "_rb_insert_fixup6$_left_rotate7$y") (.lit 1)))
                        (.seq (selMax "_rb_insert_fixup6$_left_rotate7$tmp_max" (.ld2 "tree_vals" (.var "_rb_insert_fixup6$_left_rotate7$x_left") (.lit 7)) (.ld2 "tree_vals" (.var "_rb_insert_fixup6$_left_rotate7$y_left") (.lit 7)))
                        (.seq (.setI "_rb_insert_fixup6$_left_rotate7$_find_value_min_value8$node_id" (.var "_rb_insert_fixup6$_left_rotate7$x"))
                        (.seq (minvScope "_rb_insert_fixup6$_left_rotate7$_find_value_min_value8$node_id" "_rb_insert_fixup6$_left_rotate7$_find_value_min_value8$ret0")
                        (.seq (.setF "_rb_insert_fixup6$_left_rotate7$min_value" (.var "_rb_insert_fixup6$_left_rotate7$_find_value_min_value8$ret0"))
                        (.seq (stMax "tree_vals" (.var "_rb_insert_fixup6$_left_rotate7$x") (.lit 7) (.var "_rb_insert_fixup6$_left_rotate7$tmp_max") (.var "_rb_insert_fixup6$_left_rotate7$min_value"))
                        (.seq (.setI "_rb_insert_fixup6$_left_rotate7$y_right" (.ld2 "tree_nodes" (.var "_rb_insert_fixup6$_left_rotate7$y") (.lit 2)))
                        (.seq (selMax "_rb_insert_fixup6$_left_rotate7$tmp_max" (.ld2 "tree_vals" (.var "_rb_insert_fixup6$_left_rotate7$x") (.lit 7)) (.ld2 "tree_vals" (.var "_rb_insert_fixup6$_left_rotate7$y_right") (.lit 7)))
                        (.seq (.setI "_rb_insert_fixup6$_left_rotate7$_find_value_min_value9$node_id" (.var "_rb_insert_fixup6$_left_rotate7$y"))
                        (.seq (minvScope "_rb_insert_fixup6$_left_rotate7$_find_value_min_value9$node_id" "_rb_insert_fixup6$_left_rotate7$_find_value_min_value9$ret0")
                        (.seq (.setF "_rb_insert_fixup6$_left_rotate7$min_value" (.var "_rb_insert_fixup6$_left_rotate7$_find_value_min_value9$ret0"))
                        (.seq (stMax "tree_vals" (.var "_rb_insert_fixup6$_left_rotate7$y") (.lit 7) (.var "_rb_insert_fixup6$_left_rotate7$tmp_max") (.var "_rb_insert_fixup6$_left_rotate7$min_value"))
                        (.seq (.stI2 "tree_nodes" (.var "_rb_insert_fixup6$_left_rotate7$x") (.lit 2) (.ld2 "tree_nodes" (.var "_rb_insert_fixup6$_left_rotate7$y") (.lit 1)))
                        (.seq (.setI "_rb_insert_fixup6$_left_rotate7$y_left" (.ld2 "tree_nodes" (.var "_rb_insert_fixup6$_left_rotate7$y") (.lit 1)))
                        (.seq (.stI2 "tree_nodes" (.var "_rb_insert_fixup6$_left_rotate7$y_left") (.lit 3) (.var "_rb_insert_fixup6$_left_rotate7$x"))
                        (.seq (.stI2 "tree_nodes" (.var "_rb_insert_fixup6$_left_rotate7$y") (.lit 3) (.ld2 "tree_nodes" (.var "_rb_insert_fixup6$_left_rotate7$x") (.lit 3)))
                        (.seq (.ite (.cmpI .eq (.ld2 "tree_nodes" (.var "_rb_insert_fixup6$_left_rotate7$x") (.lit 3)) (.lit (-1)))
                            (.setI "_rb_insert_fixup6$_left_rotate7$root" (.var "_rb_insert_fixup6$_left_rotate7$y"))
                            (.seq (.setI "_rb_insert_fixup6$_left_rotate7$x_parent" (.ld2 "tree_nodes" (.var "_rb_insert_fixup6$_left_rotate7$x") (.lit 3)))
                            (.ite (.cmpI .eq (.var "_rb_insert_fixup6$_left_rotate7$x") (.ld2 "tree_nodes" (.var "_rb_insert_fixup6$_left_rotate7$x_parent") (.lit 1)))
                              (.stI2 "tree_nodes" (.var "_rb_insert_fixup6$_left_rotate7$x_parent") (.lit 1) (.var "_rb_insert_fixup6$_left_rotate7$y"))
                              (.stI2 "tree_nodes" (.var "_rb_insert_fixup6$_left_rotate7$x_parent") (.lit 2) (.var "_rb_insert_fixup6$_left_rotate7$y")))))
                        (.seq (.stI2 "tree_nodes" (.var "_rb_insert_fixup6$_left_rotate7$y") (.lit 1) (.var "_rb_insert_fixup6$_left_rotate7$x"))
                        (.seq (.stI2 "tree_nodes" (.var "_rb_insert_fixup6$_left_rotate7$x") (.lit 3) (.var "_rb_insert_fixup6$_left_rotate7$y"))
                        (.seq (.setI "_rb_insert_fixup6$_left_rotate7$ret0" (.var "_rb_insert_fixup6$_left_rotate7$root"))
                        .ret)))))))))))))))))))))))
                    (.setI "_rb_insert_fixup6$root" (.var "_rb_insert_fixup6$_left_rotate7$ret0"))))))
                    .skip)
                (.seq (.setI "_rb_insert_fixup6$z_parent" (.ld2 "tree_nodes" (.var "_rb_insert_fixup6$z") (.lit 3)))
                (.seq (.setI "_rb_insert_fixup6$z_parent_parent" (.ld2 "tree_nodes" (.var "_rb_insert_fixup6$z_parent") (.lit 3)))
                (.seq (.stI2 "tree_nodes" (.var "_rb_insert_fixup6$z_parent") (.lit 0) (.lit 1))
                (.seq (.stI2 "tree_nodes" (.var "_rb_insert_fixup6$z_parent_parent") (.lit 0) (.lit 0))
                (.seq (.setI "_rb_insert_fixup6$_right_rotate10$root" (.var "_rb_insert_fixup6$root"))
                (.seq (.setI "_rb_insert_fixup6$_right_rotate10$y" (.var "_rb_insert_fixup6$z_parent_parent"))
                (.seq (.scope (.seq (.setI "_rb_insert_fixup6$_right_rotate10$x" (.ld2 "tree_nodes" (.var "_rb_insert_fixup6$_right_rotate10$y") (.lit 1)))
                    (.seq (.setI "_rb_insert_fixup6$_right_rotate10$x_right" (.ld2 "tree_nodes" (.var "_rb_insert_fixup6$_right_rotate10$x") (.lit 2)))
                    (.seq (.setI "_rb_insert_fixup6$_right_rotate10$y_right" (.ld2 "tree_nodes" (.var "_rb_insert_fixup6$_right_rotate10$y") (.lit 2)))
                    (.seq (selMax "_rb_insert_fixup6$_right_rotate10$tmp_max" (.ld2 "tree_vals" (.var "_rb_insert_fixup6$_right_rotate10$x_right") (.lit 7)) (.ld2 "tree_vals" (.var "_rb_insert_fixup6$_right_rotate10$y_right") (.lit 7)))
                    (.seq (.setI "_rb_insert_fixup6$_right_rotate10$_find_value_min_value11$node_id" (.var "_rb_insert_fixup6$_right_rotate10$y"))
                    (.seq (minvScope "_rb_insert_fixup6$_right_rotate10$_find_value_min_value11$node_id" "_rb_insert_fixup6$_right_rotate10$_find_value_min_value11$ret0")
                    (.seq (.setF "_rb_insert_fixup6$_right_rotate10$min_value" (.var "_rb_insert_fixup6$_right_rotate10$_find_value_min_value11$ret0"))
                    (.seq (stMax "tree_vals" (.var "_rb_insert_fixup6$_right_rotate10$y") (.lit 7) (.var "_rb_insert_fixup6$_right_rotate10$tmp_max") (.var "_rb_insert_fixup6$_right_rotate10$min_value"))
                    (.seq (.setI "_rb_insert_fixup6$_right_rotate10$x_left" (.ld2 "tree_nodes" (.var "_rb_insert_fixup6$_right_rotate10$x") (.lit 1)))
                    (.seq (selMax "_rb_insert_fixup6$_right_rotate10$tmp_max" (.ld2 "tree_vals" (.var "_rb_insert_fixup6$_right_rotate10$x_left") (.lit 7)) (.ld2 "tree_vals" (.var "_rb_insert_fixup6$_right_rotate10$y") (.lit 7)))
                    (.seq (.setI "_rb_insert_fixup6$_right_rotate10$_find_value_min_value12$node_id" (.var "_rb_insert_fixup6$_right_rotate10$x"))
                    (.seq (minvScope "_rb_insert_fixup6$_right_rotate10$_find_value_min_value12$node_id" "_rb_insert_fixup6$_right_rotate10$_find_value_min_value12$ret0")
                    (.seq (.setF "_rb_insert_fixup6$_right_rotate10$min_value" (.var "_rb_insert_fixup6$_right_rotate10$_find_value_min_value12$ret0"))
                    (.seq (stMax "tree_vals" (.var "_rb_insert_fixup6$_right_rotate10$x") (.lit 7) (.var "_rb_insert_fixup6$_right_rotate10$tmp_max") (.var "_rb_insert_fixup6$_right_rotate10$min_value"))
                    (.seq (.stI2 "tree_nodes" (.var "_rb_insert_fixup6$_right_rotate10$y") (.lit 1) (.ld2 "tree_nodes" (.var "_rb_insert_fixup6$_right_rotate10$x") (.lit 2)))
                    (.seq (.setI "_rb_insert_fixup6$_right_rotate10$x_right" (.ld2 "tree_nodes" (.var "_rb_insert_fixup6$_right_rotate10$x") (.lit 2)))
                    (.seq (.stI2 "tree_nodes" (.var "_rb_insert_fixup6$_right_rotate10$x_right") (.lit 3) (.var "_rb_insert_fixup6$_right_rotate10$y"))
                    (.seq (.stI2 "tree_nodes" (.var "_rb_insert_fixup6$_right_rotate10$x") (.lit 3) (.ld2 "tree_nodes" (.var "_rb_insert_fixup6$_right_rotate10$y") (.lit 3)))
                    (.seq (.ite (.cmpI .eq (.ld2 "tree_nodes" (.var "_rb_insert_fixup6$_right_rotate10$y") (.lit 3)) (.lit (-1)))
                        (.setI "_rb_insert_fixup6$_right_rotate10$root" (.var "_rb_insert_fixup6$_right_rotate10$x"))
                        (.seq (.setI "_rb_insert_fixup6$_right_rotate10$y_parent" (.ld2 "tree_nodes" (.var "_rb_insert_fixup6$_right_rotate10$y") (.lit 3)))
                        (.ite (.cmpI .eq (.ld2 "tree_nodes" (.var "_rb_insert_fixup6$_right_rotate10$y_parent") (.lit 1)) (.var "_rb_insert_fixup6$_right_rotate10$y"))
                          (.stI2 "tree_nodes" (.var "_rb_insert_fixup6$_right_rotate10$y_parent") (.lit 1) (.var "_rb_insert_fixup6$_right_rotate10$x"))
                          (.stI2 "tree_nodes" (.var "_rb_insert_fixup6$_right_rotate10$y_parent") (.lit 2) (.var "_rb_insert_fixup6$_right_rotate10$x")))))
                    (.seq (.stI2 "tree_nodes" (.var "_rb_insert_fixup6$_right_rotate10$x") (.lit 2) (.var "_rb_insert_fixup6$_right_rotate10$y"))
                    (.seq (.stI2 "tree_nodes" (.var "_rb_insert_fixup6$_right_rotate10$y") (.lit 3) (.var "_rb_insert_fixup6$_right_rotate10$x"))
                    (.seq (.setI "_rb_insert_fixup6$_right_rotate10$ret0" (.var "_rb_insert_fixup6$_right_rotate10$root"))
                    .ret)))))))))))))))))))))))
                (.setI "_rb_insert_fixup6$root" (.var "_rb_insert_fixup6$_right_rotate10$ret0"))))))))))))
              (.seq (.setI "_rb_insert_fixup6$y" (.ld2 "tree_nodes" (.var "_rb_insert_fixup6$z_parent_parent") (.lit 1)))
              (.ite (.cmpI .eq (.ld2 "tree_nodes" (.var "_rb_insert_fixup6$y") (.lit 0)) (.lit 0))
                (.seq (.stI2 "tree_nodes" (.var "_rb_insert_fixup6$z_parent") (.lit 0) (.lit 1))
                (.seq (.stI2 "tree_nodes" (.var "_rb_insert_fixup6$y") (.lit 0) (.lit 1))
                (.seq (.stI2 "tree_nodes" (.var "_rb_insert_fixup6$z_parent_parent") (.lit 0) (.lit 0))
                (.setI "_rb_insert_fixup6$z" (.var "_rb_insert_fixup6$z_parent_parent")))))
                (.seq (.ite (.cmpI .eq (.var "_rb_insert_fixup6$z") (.ld2 "tree_nodes" (.var "_rb_insert_fixup6$z_parent") (.lit 1)))
                    (.seq (.setI "_rb_insert_fixup6$z" (.var "_rb_insert_fixup6$z_parent"))
                    (.seq (.setI "_rb_insert_fixup6$_right_rotate13$root" (.var "_rb_insert_fixup6$root"))
                    (.seq (.setI "_rb_insert_fixup6$_right_rotate13$y" (.var "_rb_insert_fixup6$z"))
                    (.seq (.scope (.seq (.setI "_rb_insert_fixup6$_right_rotate13$x" (.ld2 "tree_nodes" (.var "_rb_insert_fixup6$_right_rotate13$y") (.lit 1)))
                        (.seq (.setI "_rb_insert_fixup6$_right_rotate13$x_right" (.ld2 "tree_nodes" (.var "_rb_insert_fixup6$_right_rotate13$x") (.lit 2)))
                        (.seq (.setI "_rb_insert_fixup6$_right_rotate13$y_right" (.ld2 "tree_nodes" (.var "_rb_insert_fixup6$_right_rotate13$y") (.lit 2)))
                        (.seq (selMax "_rb_insert_fixup6$_right_rotate13$tmp_max" (.ld2 "tree_vals" (.var "_rb_insert_fixup6$_right_rotate13$x_right") (.lit 7)) (.ld2 "tree_vals" (.var "_rb_insert_fixup6$_right_rotate13$y_right") (.lit 7)))
                        (.seq (.setI "_rb_insert_fixup6$_right_rotate13$_find_value_min_value14$node_id" (.var "_rb_insert_fixup6$_right_rotate13$y"))
                        (.seq (minvScope "_rb_insert_fixup6$_right_rotate13$_find_value_min_value14$node_id" "_rb_insert_fixup6$_right_rotate13$_find_value_min_value14$ret0")
                        (.seq (.setF "_rb_insert_fixup6$_right_rotate13$min_value" (.var "_rb_insert_fixup6$_right_rotate13$_find_value_min_value14$ret0"))
                        (.seq (stMax "tree_vals" (.var "_rb_insert_fixup6$_right_rotate13$y") (.lit 7) (.var "_rb_insert_fixup6$_right_rotate13$tmp_max") (.var "_rb_insert_fixup6$_right_rotate13$min_value"))
                        (.seq (.setI "_rb_insert_fixup6$_right_rotate13$x_left" (.ld2 "tree_nodes" (.var "_rb_insert_fixup6$_right_rotate13$x") (.lit 1)))
                        (.seq (selMax "_rb_insert_fixup6$_right_rotate13$tmp_max" (.ld2 "tree_vals" (.var "_rb_insert_fixup6$_right_rotate13$x_left") (.lit 7)) (.ld2 "tree_vals" (.var "_rb_insert_fixup6$_right_rotate13$y") (.lit 7)))
                        (.seq (.setI "_rb_insert_fixup6$_right_rotate13$_find_value_min_value15$node_id" (.var "_rb_insert_fixup6$_right_rotate13$x"))
                        (.seq (minvScope "_rb_insert_fixup6$_right_rotate13$_find_value_min_value15$node_id" "_rb_insert_fixup6$_right_rotate13$_find_value_min_value15$ret0")
                        (.seq (.setF "_rb_insert_fixup6$_right_rotate13$min_value" (.var "_rb_insert_fixup6$_right_rotate13$_find_value_min_value15$ret0"))
                        (.seq (stMax "tree_vals" (.var "_rb_insert_fixup6$_right_rotate13$x") (.lit 7) (.var "_rb_insert_fixup6$_right_rotate13$tmp_max") (.var "_rb_insert_fixup6$_right_rotate13$min_value"))
                        (.seq (.stI2 "tree_nodes" (.var "_rb_insert_fixup6$_right_rotate13$y") (.lit 1) (.ld2 "tree_nodes" (.var "_rb_insert_fixup6$_right_rotate13$x") (.lit 2)))
                        (.seq (.setI "_rb_insert_fixup6$_right_rotate13$x_right" (.ld2 "tree_nodes" (.var "_rb_insert_fixup6$_right_rotate13$x") (.lit 2)))
                        (.seq (.stI2 "tree_nodes" (.var "_rb_insert_fixup6$_right_rotate13$x_right") (.lit 3) (.var "_rb_insert_fixup6$_right_rotate13$y"))
                        (.seq (.stI2 "tree_nodes" (.var "_rb_insert_fixup6$_right_rotate13$x") (.lit 3) (.ld2 "tree_nodes" (.var "_rb_insert_fixup6$_right_rotate13$y") (.lit 3)))
                        (.seq (.ite (.cmpI .eq (.ld2 "tree_nodes" (.var "_rb_insert_fixup6$_right_rotate13$y") (.lit 3)) (.lit (-1)))
                            (.setI "_rb_insert_fixup6$_right_rotate13$root" (.var "_rb_insert_fixup6$_right_rotate13$x"))
                            (.seq (.setI "_rb_insert_fixup6$_right_rotate13$y_parent" (.ld2 "tree_nodes" (.var "_rb_insert_fixup6$_right_rotate13$y") (.lit 3)))
                            (.ite (.cmpI .eq (.ld2 "tree_nodes" (.var "_rb_insert_fixup6$_right_rotate13$y_parent") (.lit 1)) (.var "_rb_insert_fixup6$_right_rotate13$y"))
                              (.stI2 "tree_nodes" (.var "_rb_insert_fixup6$_right_rotate13$y_parent") (.lit 1) (.var "_rb_insert_fixup6$_right_rotate13$x"))
                              (.stI2 "tree_nodes" (.var "_rb_insert_fixup6$_right_rotate13$y_parent") (.lit 2) (.var "_rb_insert_fixup6$_right_rotate13$x")))))
                        (.seq (.stI2 "tree_nodes" (.var "_rb_insert_fixup6$_right_rotate13$x") (.lit 2) (.var "_rb_insert_fixup6$_right_rotate13$y"))
                        (.seq (.stI2 "tree_nodes" (.var "_rb_insert_fixup6$_right_rotate13$y") (.lit 3) (.var "_rb_insert_fixup6$_right_rotate13$x"))
                        (.seq (.setI "_rb_insert_fixup6$_right_rotate13$ret0" (.var "_rb_insert_fixup6$_right_rotate13$root"))
                        .ret)))))))))))))))))))))))
                    (.setI "_rb_insert_fixup6$root" (.var "_rb_insert_fixup6$_right_rotate13$ret0"))))))
                    .skip)
                (.seq (.setI "_rb_insert_fixup6$z_parent" (.ld2 "tree_nodes" (.var "_rb_insert_fixup6$z") (.lit 3)))
                (.seq (.setI "_rb_insert_fixup6$z_parent_parent" (.ld2 "tree_nodes" (.var "_rb_insert_fixup6$z_parent") (.lit 3)))
                (.seq (.stI2 "tree_nodes" (.var "_rb_insert_fixup6$z_parent") (.lit 0) (.lit 1))
                (.seq (.stI2 "tree_nodes" (.var "_rb_insert_fixup6$z_parent_parent") (.lit 0) (.lit 0))
                (.seq (.setI "_rb_insert_fixup6$_left_rotate16$root" (.var "_rb_insert_fixup6$root"))
                (.seq (.setI "_rb_insert_fixup6$_left_rotate16$x" (.var "_rb_insert_fixup6$z_parent_parent"))
                (.seq (.scope (.seq (.setI "_rb_insert_fixup6$_left_rotate16$y" (.ld2 "tree_nodes" (.var "_rb_insert_fixup6$_left_rotate16$x") (.lit 2)))
                    (.seq (.setI "_rb_insert_fixup6$_left_rotate16$x_left" (.ld2 "tree_nodes" (.var "_rb_insert_fixup6$_left_rotate16$x") (.lit 1)))
                    (.seq (.setI "_rb_insert_fixup6$_left_rotate16$y_left" (.ld2 "tree_nodes" (.var "_rb_insert_fixup6$_left_rotate16$y") (.lit 1)))
                    (.seq (selMax "_rb_insert_fixup6$_left_rotate16$tmp_max" (.ld2 "tree_vals" (.var "_rb_insert_fixup6$_left_rotate16$x_left") (.lit 7)) (.ld2 "tree_vals" (.var "_rb_insert_fixup6$_left_rotate16$y_left") (.lit 7)))
                    (.seq (.setI "_rb_insert_fixup6$_left_rotate16$_find_value_min_value17$node_id" (.var "_rb_insert_fixup6$_left_rotate16$x"))
                    (.seq (minvScope "_rb_insert_fixup6$_left_rotate16$_find_value_min_value17$node_id" "_rb_insert_fixup6$_left_rotate16$_find_value_min_value17$ret0")
                    (.seq (.setF "_rb_insert_fixup6$_left_rotate16$min_value" (.var "_rb_insert_fixup6$_left_rotate16$_find_value_min_value17$ret0"))
                    (.seq (stMax "tree_vals" (.var "_rb_insert_fixup6$_left_rotate16$x") (.lit 7) (.var "_rb_insert_fixup6$_left_rotate16$tmp_max") (.var "_rb_insert_fixup6$_left_rotate16$min_value"))
                    (.seq (.setI "_rb_insert_fixup6$_left_rotate16$y_right" (.ld2 "tree_nodes" (.var "_rb_insert_fixup6$_left_rotate16$y") (.lit 2)))
                    (.seq (selMax "_rb_insert_fixup6$_left_rotate16$tmp_max" (.ld2 "tree_vals" (.var "_rb_insert_fixup6$_left_rotate16$x") (.lit 7)) (.ld2 "tree_vals" (.var "_rb_insert_fixup6$_left_rotate16$y_right") (.lit 7)))
                    (.seq (.setI "_rb_insert_fixup6$_left_rotate16$_find_value_min_value18$node_id" (.var "_rb_insert_fixup6$_left_rotate16$y"))
                    (.seq (minvScope "_rb_insert_fixup6$_left_rotate16$_find_value_min_value18$node_id" "_rb_insert_fixup6$_left_rotate16$_find_value_min_value18$ret0")
                    (.seq (.setF "_rb_insert_fixup6$_left_rotate16$min_value" (.var "_rb_insert_fixup6$_left_rotate16$_find_value_min_value18$ret0"))
                    (.seq (stMax "tree_vals" (.var "_rb_insert_fixup6$_left_rotate16$y") (.lit 7) (.var "_rb_insert_fixup6$_left_rotate16$tmp_max") (.var "_rb_insert_fixup6$_left_rotate16$min_value"))
                    (.seq (.stI2 "tree_nodes" (.var "_rb_insert_fixup6$_left_rotate16$x") (.lit 2) (.ld2 "tree_nodes" (.var "_rb_insert_fixup6$_left_rotate16$y") (.lit 1)))
                    (.seq (.setI "_rb_insert_fixup6$_left_rotate16$y_left" (.ld2 "tree_nodes" (.var "_rb_insert_fixup6$_left_rotate16$y") (.lit 1)))
                    (.seq (.stI2 "tree_nodes" (.var "_rb_insert_fixup6$_left_rotate16$y_left") (.lit 3) (.var "_rb_insert_fixup6$_left_rotate16$x"))
                    (.seq (.stI2 "tree_nodes" (.var "_rb_insert_fixup6$_left_rotate16$y") (.lit 3) (.ld2 "tree_nodes" (.var "_rb_insert_fixup6$_left_rotate16$x") (.lit 3)))
                    (.seq (.ite (.cmpI .eq (.ld2 "tree_nodes" (.var "_rb_insert_fixup6$_left_rotate16$x") (.lit 3)) (.lit (-1)))
                        (.setI "_rb_insert_fixup6$_left_rotate16$root" (.var "_rb_insert_fixup6$_left_rotate16$y"))
                        (.seq (.setI "_rb_insert_fixup6$_left_rotate16$x_parent" (.ld2 "tree_nodes" (.var "_rb_insert_fixup6$_left_rotate16$x") (.lit 3)))
                        (.ite (.cmpI .eq (.var "_rb_insert_fixup6$_left_rotate16$x") (.ld2 "tree_nodes" (.var "_rb_insert_fixup6$_left_rotate16$x_parent") (.lit 1)))
                          (.stI2 "tree_nodes" (.var "_rb_insert_fixup6$_left_rotate16$x_parent") (.lit 1) (.var "_rb_insert_fixup6$_left_rotate16$y"))
                          (.stI2 "tree_nodes" (.var "_rb_insert_fixup6$_left_rotate16$x_parent") (.lit 2) (.var "_rb_insert_fixup6$_left_rotate16$y")))))
                    (.seq (.stI2 "tree_nodes" (.var "_rb_insert_fixup6$_left_rotate16$y") (.lit 1) (.var "_rb_insert_fixup6$_left_rotate16$x"))
                    (.seq (.stI2 "tree_nodes" (.var "_rb_insert_fixup6$_left_rotate16$x") (.lit 3) (.var "_rb_insert_fixup6$_left_rotate16$y"))
                    (.seq (.setI "_rb_insert_fixup6$_left_rotate16$ret0" (.var "_rb_insert_fixup6$_left_rotate16$root"))
                    .ret)))))))))))))))))))))))
                (.setI "_rb_insert_fixup6$root" (.var "_rb_insert_fixup6$_left_rotate16$ret0")))))))))))))
          (.setI "_rb_insert_fixup6$z_parent" (.ld2 "tree_nodes" (.var "_rb_insert_fixup6$z") (.lit 3))))))))
      (.seq (.stI2 "tree_nodes" (.var "_rb_insert_fixup6$root") (.lit 0) (.lit 1))
      (.seq (.setI "_rb_insert_fixup6$ret0" (.var "_rb_insert_fixup6$root")) .ret)))))
  (.seq (.setI "root" (.var "_rb_insert_fixup6$ret0")) (.seq (.setI "ret0" (.var "root")) .ret)))))

theorem vsInsert_body : Gen.IL.vsInsert.body =
    seqK insDesc0Items (.seq insDescLoop (seqK insCreateItems (seqK insLinkItems (.seq insPropLoop insFixup)))) := rfl


/-- the parameter `value` (a 1-D array of at least the seven node fields) -/
structure VVal (s : State F) (m : Nat) : Prop where
  shp : s.shp "value" = [m]
  len : (s.fa "value").length = m
  big : 7 ≤ m

/-- `value[k]` -/
def valAt (s : State F) (k : Nat) : Fv F := ⟨(s.fa "value").getD k Fl.nan⟩

/-- the node `value` describes -/
def valNode (s : State F) : Node (Fv F) :=
  ⟨valAt s 0, valAt s 1, valAt s 2, valAt s 3, valAt s 4, valAt s 5, valAt s 6⟩

theorem evalVal (s : State F) (m : Nat) (hs : s.shp "value" = [m]) (k : Int) (hk : 0 ≤ k) :
    FE.eval s (.ld1 "value" (.lit k)) = (valAt s k.toNat).v := by
  obtain ⟨j, rfl⟩ := Int.eq_ofNat_of_zero_le hk
  simp only [FE.eval, IE.eval, hs, valAt, Int.toNat_natCast, off1_nat]

theorem okVal (s : State F) (m : Nat) (hs : s.shp "value" = [m]) (k : Int) (hk : 0 ≤ k ∧ k < m) :
    FE.ok s (.ld1 "value" (.lit k)) = true := by
  obtain ⟨j, rfl⟩ := Int.eq_ofNat_of_zero_le hk.1
  simp [FE.ok, IE.ok, IE.eval, hs, inRange_of_lt j m (by omega)]

theorem cmp3_neg_one (a b : F) : cmp3 a b = -1 ↔ Fl.lt a b = true := by
  unfold cmp3
  by_cases h1 : Fl.lt a b = true
  · simp [h1]
  · by_cases h2 : Fl.lt b a = true <;> simp [h1, h2]

def insDiv : List String := ["cur_node", "next_node", "_compare1$ret0", "_compare2$ret0"]
def insDfv : List String := ["_compare1$a", "_compare1$b", "_compare2$a", "_compare2$b"]

/-- one step of the descent at the node `i`: the next pointer is the left child iff the new key is below `i`'s -/
theorem insDescBody_spec (n m fuel : Nat) (s : State F) (hv : VS s n) (hm : VVal s m) (hrun : s.ctl = .run) (i : Nat)
    (hi : i + 1 < n) (hnext : s.ienv "next_node" = i) :
    let r := exec fuel insDescBody s
    r.ctl = .run ∧ Frame insDiv insDfv [] s r ∧ r.ienv "cur_node" = i ∧
      r.ienv "next_node" = (if valAt s 0 < vAt (s.fa "tree_vals") i 0 then nAt (s.ia "tree_nodes") i 1
        else nAt (s.ia "tree_nodes") i 2) := by
  have eN := fun (s' : State F) => evalN s' n
  have oN := fun (s' : State F) => okN s' n
  have eV := fun (s' : State F) => evalV s' n
  have oV := fun (s' : State F) => okV s' n
  have eA := fun (s' : State F) => evalVal s' m
  have oA := fun (s' : State F) => okVal s' m
  have hin : inRange (i : Int) n = true := inRange_ptr n _ (by omega) hv.pos
  have hm0 : (0 : Int) < m := by have := hm.big; omega
  have hm0' : 0 < m := by have := hm.big; omega
  have eA0 : ∀ (s' : State F), s'.fa = s.fa → valAt s' 0 = valAt s 0 := fun s' e => by simp only [valAt, e]
  intro r
  have hfr : ∀ (r' : State F), r'.ia = s.ia → r'.fa = s.fa → r'.shp = s.shp → r'.ext = s.ext → r'.benv = s.benv →
      (∀ v, v ∉ insDiv → r'.ienv v = s.ienv v) → (∀ v, v ∉ insDfv → r'.fenv v = s.fenv v) → Frame insDiv insDfv [] s r' :=
    fun r' a b c d e f g => ⟨a, b, c, d, f, g, fun _ _ => by rw [e]⟩
  by_cases h1 : Fl.lt (valAt s 0).v (vAt (s.fa "tree_vals") i 0).v = true
  · have h1' : valAt s 0 < vAt (s.fa "tree_vals") i 0 := h1
    simp [r, insDescBody, exec, cmpScope_spec, eN, oN, eV, oV, eA, oA, eA0, hv.shpN, hv.shpV, hm.shp, hm0, hm0', hnext, hin,
      IE.ok_var, IE.eval_var, IE.ok_lit, IE.eval_lit, FE.ok_var, FE.eval_var, BE.ok, BE.eval, cmpInt, setS, hrun,
      (cmp3_neg_one _ _).mpr h1, h1']
    apply hfr <;> try rfl
    all_goals intro v hv'
    all_goals simp only [insDiv, insDfv, List.mem_cons, List.not_mem_nil, or_false, not_or] at hv'
    all_goals simp [setS, hv']
  · have h1' : ¬ valAt s 0 < vAt (s.fa "tree_vals") i 0 := h1
    have hc : ¬ (cmp3 (valAt s 0).v (vAt (s.fa "tree_vals") i 0).v = -1) := fun e => h1 ((cmp3_neg_one _ _).mp e)
    simp [r, insDescBody, exec, cmpScope_spec, eN, oN, eV, oV, eA, oA, eA0, hv.shpN, hv.shpV, hm.shp, hm0, hm0', hnext, hin,
      IE.ok_var, IE.eval_var, IE.ok_lit, IE.eval_lit, FE.ok_var, FE.eval_var, BE.ok, BE.eval, cmpInt, setS, hrun, hc, h1']
    apply hfr <;> try rfl
    all_goals intro v hv'
    all_goals simp only [insDiv, insDfv, List.mem_cons, List.not_mem_nil, or_false, not_or] at hv'
    all_goals simp [setS, hv']

theorem insDescLoop_spec (n m : Nat) : ∀ (sub : Sh) (ctx : Ctx) (fuel : Nat) (s : State F), VS s n → VVal s m → s.ctl = .run →
    Linked (s.ia "tree_nodes") n (ctxPar ctx) sub → s.ienv "next_node" = sub.ptr → s.ienv "cur_node" = ctxPar ctx →
    sub.height < fuel →
    let r := exec fuel insDescLoop s
    r.ctl = .run ∧ Frame insDiv insDfv [] s r ∧
      r.ienv "cur_node" = ctxPar (insZ (s.fa "tree_vals") (valAt s 0) sub ctx) := by
  intro sub
  induction sub with
  | nil =>
    intro ctx fuel s hv hm hrun hl hnext hcur hf
    obtain ⟨fuel, rfl⟩ : ∃ f, fuel = f + 1 := ⟨fuel - 1, by omega⟩
    intro r
    have hr : r = s := by
      simp only [r, insDescLoop]
      rw [exec_while_exit]
      · simp [BE.ok, IE.ok_var, IE.ok_lit]
      · simp [BE.eval, IE.eval_var, IE.eval_lit, hnext, Sh.ptr, cmpInt]
    rw [hr]
    exact ⟨hrun, Frame.refl _ _ _ _, by simpa [insZ] using hcur⟩
  | node l i rr ihl ihr =>
    intro ctx fuel s hv hm hrun hl hnext hcur hf
    obtain ⟨fuel, rfl⟩ : ∃ f, fuel = f + 1 := ⟨fuel - 1, by omega⟩
    obtain ⟨hi, hL, hR, hP, hlL, hlR⟩ := hl
    simp only [Sh.ptr] at hnext
    obtain ⟨b1, b2, b3, b4⟩ := insDescBody_spec n m fuel s hv hm hrun i hi hnext
    intro r
    have hr : r = exec fuel insDescLoop (exec fuel insDescBody s) := by
      simp only [r, insDescLoop]
      rw [exec_while_step _ _ _ _ _ _ b1]
      · simp [BE.ok, IE.ok_var, IE.ok_lit]
      · simp [BE.eval, IE.eval_var, IE.eval_lit, hnext, cmpInt]
    have hval : valAt (exec fuel insDescBody s) 0 = valAt s 0 := by simp only [valAt, b2.fa]
    have hm' : VVal (exec fuel insDescBody s) m := ⟨by rw [b2.shp]; exact hm.shp, by rw [b2.fa]; exact hm.len, hm.big⟩
    simp only [Sh.height] at hf
    rw [hr]
    simp only [insZ]
    by_cases h1 : valAt s 0 < vAt (s.fa "tree_vals") i 0
    · simp only [h1, if_true] at b4 ⊢
      have := ihl (.L i rr :: ctx) fuel (exec fuel insDescBody s) (b2.vs hv) hm' b1 (by rw [b2.ia]; exact hlL)
        (by rw [b4, hL]) (by rw [b3]; rfl) (by omega)
      rw [hval, b2.fa] at this
      exact ⟨this.1, b2.trans this.2.1, this.2.2⟩
    · simp only [h1, if_false] at b4 ⊢
      have := ihr (.R l i :: ctx) fuel (exec fuel insDescBody s) (b2.vs hv) hm' b1 (by rw [b2.ia]; exact hlR)
        (by rw [b4, hR]) (by rw [b3]; rfl) (by omega)
      rw [hval, b2.fa] at this
      exact ⟨this.1, b2.trans this.2.1, this.2.2⟩

/-- the whole descent: `cur_node` ends at the node below which the new key belongs -/
theorem insDesc_spec (n m fuel : Nat) (s : State F) (hv : VS s n) (hm : VVal s m) (hrun : s.ctl = .run)
    (l : Sh) (i : Nat) (rr : Sh) (hl : Linked (s.ia "tree_nodes") n (-1) (.node l i rr)) (hroot : s.ienv "root" = i)
    (hf : (Sh.node l i rr).height < fuel) :
    let r := exec fuel (.seq (seqL insDesc0Items) insDescLoop) s
    r.ctl = .run ∧ Frame insDiv insDfv [] s r ∧
      r.ienv "cur_node" = ctxPar (insZ (s.fa "tree_vals") (valAt s 0) (.node l i rr) []) := by
  -- the first comparison is the loop body entered with `next_node = root`
  have h0 : ∀ (s' : State F), exec fuel (seqL insDesc0Items) s' =
      exec fuel (.seq (.setI "cur_node" (.var "root")) (.seq (.setF "_compare1$a" (.ld1 "value" (.lit 0)))
        (.seq (.setF "_compare1$b" (.ld2 "tree_vals" (.var "cur_node") (.lit 0)))
        (.seq (cmpScope "_compare1$a" "_compare1$b" "_compare1$ret0")
        (.ite (.cmpI .eq (.var "_compare1$ret0") (.lit (-1)))
          (.setI "next_node" (.ld2 "tree_nodes" (.var "cur_node") (.lit 1)))
          (.setI "next_node" (.ld2 "tree_nodes" (.var "cur_node") (.lit 2)))))))) s' := fun _ => rfl
  obtain ⟨hi, hL, hR, hP, hlL, hlR⟩ := hl
  have eN := fun (s' : State F) => evalN s' n
  have oN := fun (s' : State F) => okN s' n
  have eV := fun (s' : State F) => evalV s' n
  have oV := fun (s' : State F) => okV s' n
  have eA := fun (s' : State F) => evalVal s' m
  have oA := fun (s' : State F) => okVal s' m
  have hin : inRange (i : Int) n = true := inRange_ptr n _ (by omega) hv.pos
  have hm0 : (0 : Int) < m := by have := hm.big; omega
  have hm0' : 0 < m := by have := hm.big; omega
  have eA0 : ∀ (s' : State F), s'.fa = s.fa → valAt s' 0 = valAt s 0 := fun s' e => by simp only [valAt, e]
  simp only [Sh.height] at hf
  intro r
  have hfr : ∀ (r' : State F), r'.ia = s.ia → r'.fa = s.fa → r'.shp = s.shp → r'.ext = s.ext → r'.benv = s.benv →
      (∀ v, v ∉ insDiv → r'.ienv v = s.ienv v) → (∀ v, v ∉ insDfv → r'.fenv v = s.fenv v) → Frame insDiv insDfv [] s r' :=
    fun r' a b c d e f g => ⟨a, b, c, d, f, g, fun _ _ => by rw [e]⟩
  simp only [insZ]
  by_cases h1 : Fl.lt (valAt s 0).v (vAt (s.fa "tree_vals") i 0).v = true
  · have h1' : valAt s 0 < vAt (s.fa "tree_vals") i 0 := h1
    have hs1 : exec fuel (seqL insDesc0Items) s =
        { s with ienv := setS (setS (setS s.ienv "cur_node" (i : Int)) "_compare1$ret0" (-1)) "next_node" l.ptr,
                 fenv := setS (setS s.fenv "_compare1$a" (valAt s 0).v) "_compare1$b" (vAt (s.fa "tree_vals") i 0).v } := by
      rw [h0]
      simp [exec, cmpScope_spec, eN, oN, eV, oV, eA, oA, eA0, hv.shpN, hv.shpV, hm.shp, hm0, hm0', hroot, hin,
        IE.ok_var, IE.eval_var, IE.ok_lit, IE.eval_lit, FE.ok_var, FE.eval_var, BE.ok, BE.eval, cmpInt, setS, hrun,
        (cmp3_neg_one _ _).mpr h1, hL]
    have hfr1 : Frame insDiv insDfv [] s (exec fuel (seqL insDesc0Items) s) := by
      rw [hs1]
      apply hfr <;> try rfl
      all_goals intro v hv'
      all_goals simp only [insDiv, insDfv, List.mem_cons, List.not_mem_nil, or_false, not_or] at hv'
      all_goals simp [setS, hv']
    have hL' := insDescLoop_spec n m l [.L i rr] fuel (exec fuel (seqL insDesc0Items) s) (hfr1.vs hv)
      ⟨by rw [hfr1.shp]; exact hm.shp, by rw [hfr1.fa]; exact hm.len, hm.big⟩ (by rw [hs1]; exact hrun)
      (by rw [hfr1.ia]; exact hlL) (by rw [hs1]; simp [setS]) (by rw [hs1]; simp [setS, ctxPar]) (by omega)
    have hr : r = exec fuel insDescLoop (exec fuel (seqL insDesc0Items) s) := by
      simp only [r]; rw [exec_seq_run _ _ _ _ (by rw [hs1]; exact hrun)]
    rw [hr]
    simp only [h1', if_true]
    have hval : valAt (exec fuel (seqL insDesc0Items) s) 0 = valAt s 0 := by simp only [valAt, hfr1.fa]
    rw [hval, hfr1.fa] at hL'
    exact ⟨hL'.1, hfr1.trans hL'.2.1, hL'.2.2⟩
  · have h1' : ¬ valAt s 0 < vAt (s.fa "tree_vals") i 0 := h1
    have hc : ¬ (cmp3 (valAt s 0).v (vAt (s.fa "tree_vals") i 0).v = -1) := fun e => h1 ((cmp3_neg_one _ _).mp e)
    have hs1 : exec fuel (seqL insDesc0Items) s =
        { s with ienv := setS (setS (setS s.ienv "cur_node" (i : Int)) "_compare1$ret0"
                   (cmp3 (valAt s 0).v (vAt (s.fa "tree_vals") i 0).v)) "next_node" rr.ptr,
                 fenv := setS (setS s.fenv "_compare1$a" (valAt s 0).v) "_compare1$b" (vAt (s.fa "tree_vals") i 0).v } := by
      rw [h0]
      simp [exec, cmpScope_spec, eN, oN, eV, oV, eA, oA, eA0, hv.shpN, hv.shpV, hm.shp, hm0, hm0', hroot, hin,
        IE.ok_var, IE.eval_var, IE.ok_lit, IE.eval_lit, FE.ok_var, FE.eval_var, BE.ok, BE.eval, cmpInt, setS, hrun, hc, hR]
    have hfr1 : Frame insDiv insDfv [] s (exec fuel (seqL insDesc0Items) s) := by
      rw [hs1]
      apply hfr <;> try rfl
      all_goals intro v hv'
      all_goals simp only [insDiv, insDfv, List.mem_cons, List.not_mem_nil, or_false, not_or] at hv'
      all_goals simp [setS, hv']
    have hL' := insDescLoop_spec n m rr [.R l i] fuel (exec fuel (seqL insDesc0Items) s) (hfr1.vs hv)
      ⟨by rw [hfr1.shp]; exact hm.shp, by rw [hfr1.fa]; exact hm.len, hm.big⟩ (by rw [hs1]; exact hrun)
      (by rw [hfr1.ia]; exact hlR) (by rw [hs1]; simp [setS]) (by rw [hs1]; simp [setS, ctxPar]) (by omega)
    have hr : r = exec fuel insDescLoop (exec fuel (seqL insDesc0Items) s) := by
      simp only [r]; rw [exec_seq_run _ _ _ _ (by rw [hs1]; exact hrun)]
    rw [hr]
    simp only [h1', if_false]
    have hval : valAt (exec fuel (seqL insDesc0Items) s) 0 = valAt s 0 := by simp only [valAt, hfr1.fa]
    rw [hval, hfr1.fa] at hL'
    exact ⟨hL'.1, hfr1.trans hL'.2.1, hL'.2.2⟩

/-! ### the propagation loop -/

theorem insPropBody_spec (n fuel : Nat) (s : State F) (hv : VS s n) (hrun : s.ctl = .run) (j p : Nat) (hj : j + 1 < n)
    (hp : p + 1 < n) (hjp : j ≠ p) (hpar : nAt (s.ia "tree_nodes") j 3 = (p : Int)) (hnext : s.ienv "next_node" = j) :
    let V := s.fa "tree_vals"
    let cm := vAt V j 7
    let mx := vAt V p 7
    let V1 := if mx < cm then V.set (p * 8 + 7) cm.v else V
    let mx' := if mx < cm then cm else mx
    let r := exec fuel insPropBody s
    r.ia = s.ia ∧ r.shp = s.shp ∧ r.fa "tree_vals" = V1 ∧ (∀ a, a ≠ "tree_vals" → r.fa a = s.fa a) ∧
      (∀ v, v ≠ "next_node" → v ≠ "next_parent" → r.ienv v = s.ienv v) ∧
      (cm < mx' → r.ctl = .brk) ∧ (¬ cm < mx' → r.ctl = .run ∧ r.ienv "next_node" = p) := by
  have eN := fun (s' : State F) => evalN s' n
  have oN := fun (s' : State F) => okN s' n
  have eV := fun (s' : State F) => evalV s' n
  have oV := fun (s' : State F) => okV s' n
  have sV := fun (s' : State F) => exec_stV fuel s' n
  have hinj : inRange (j : Int) n = true := inRange_ptr n _ (by omega) hv.pos
  have hinp : inRange (p : Int) n = true := inRange_ptr n _ (by omega) hv.pos
  have hlen : p * 8 + 7 < (s.fa "tree_vals").length := by rw [hv.lenV]; omega
  intro V cm mx V1 mx' r
  by_cases h1 : Fl.lt (vAt (s.fa "tree_vals") p 7).v (vAt (s.fa "tree_vals") j 7).v = true
  · have h1' : mx < cm := h1
    by_cases h2 : Fl.lt (vAt (s.fa "tree_vals") j 7).v (vAt (s.fa "tree_vals") j 7).v = true
    · have h2' : cm < mx' := by simp only [mx', h1', if_true]; exact h2
      simp [r, V1, insPropBody, exec, sV, eN, oN, eV, oV, hv.shpN, hv.shpV, hnext, hinj, hinp, hpar, IE.ok_var, IE.eval_var,
        FE.ok_var, FE.eval_var, BE.ok, BE.eval, CmpOp.eval, setS, hrun, h1, h1', h2, h2', vAt_set, hlen, hjp, hjp.symm, V, cm, mx]
      all_goals first | done | (refine ⟨?_, ?_⟩ <;> intros <;> simp_all) | (intros; simp_all)
    · have h2' : ¬ cm < mx' := by simp only [mx', h1', if_true]; exact h2
      simp [r, V1, insPropBody, exec, sV, eN, oN, eV, oV, hv.shpN, hv.shpV, hnext, hinj, hinp, hpar, IE.ok_var, IE.eval_var,
        FE.ok_var, FE.eval_var, BE.ok, BE.eval, CmpOp.eval, setS, hrun, h1, h1', h2, h2', vAt_set, hlen, hjp, hjp.symm, V, cm, mx]
      all_goals first | done | (refine ⟨?_, ?_⟩ <;> intros <;> simp_all) | (intros; simp_all)
  · have h1' : ¬ mx < cm := h1
    by_cases h2 : Fl.lt (vAt (s.fa "tree_vals") j 7).v (vAt (s.fa "tree_vals") p 7).v = true
    · have h2' : cm < mx' := by simp only [mx', h1', if_false]; exact h2
      simp [r, V1, insPropBody, exec, sV, eN, oN, eV, oV, hv.shpN, hv.shpV, hnext, hinj, hinp, hpar, IE.ok_var, IE.eval_var,
        FE.ok_var, FE.eval_var, BE.ok, BE.eval, CmpOp.eval, setS, hrun, h1, h1', h2, h2', V, cm, mx]
      all_goals first | done | (refine ⟨?_, ?_⟩ <;> intros <;> simp_all) | (intros; simp_all)
    · have h2' : ¬ cm < mx' := by simp only [mx', h1', if_false]; exact h2
      simp [r, V1, insPropBody, exec, sV, eN, oN, eV, oV, hv.shpN, hv.shpV, hnext, hinj, hinp, hpar, IE.ok_var, IE.eval_var,
        FE.ok_var, FE.eval_var, BE.ok, BE.eval, CmpOp.eval, setS, hrun, h1, h1', h2, h2', V, cm, mx]
      all_goals first | done | (refine ⟨?_, ?_⟩ <;> intros <;> simp_all) | (intros; simp_all)

theorem insPropLoop_spec (n : Nat) : ∀ (ctx : Ctx) (j : Nat) (fuel : Nat) (s : State F), VS s n → s.ctl = .run →
    CtxLinked (s.ia "tree_nodes") n (j : Int) ctx → nAt (s.ia "tree_nodes") j 3 = ctxPar ctx → j + 1 < n →
    s.ienv "next_node" = j → (j :: ctx.map Fr.idx).Nodup → ctx.length < fuel →
    let r := exec fuel insPropLoop s
    r.ctl = .run ∧ r.ia = s.ia ∧ r.shp = s.shp ∧
      r.fa "tree_vals" = propArr (s.fa "tree_vals") (vAt (s.fa "tree_vals") j 7) ctx ∧
      (∀ a, a ≠ "tree_vals" → r.fa a = s.fa a) ∧
      (∀ v, v ≠ "next_node" → v ≠ "next_parent" → r.ienv v = s.ienv v) := by
  intro ctx
  induction ctx with
  | nil =>
    intro j fuel s hv hrun hc hpar hj hnext hnd hf
    obtain ⟨fuel, rfl⟩ : ∃ f, fuel = f + 1 := ⟨fuel - 1, by omega⟩
    have hin : inRange (j : Int) n = true := inRange_ptr n _ (by omega) hv.pos
    intro r
    have hr : r = s := by
      simp only [r, insPropLoop]
      rw [exec_while_exit]
      · simp [BE.ok, okN s n hv.shpN, hnext, hin, IE.ok_lit]
      · simp [BE.eval, evalN s n hv.shpN, hnext, hpar, ctxPar, cmpInt, IE.eval_lit]
    rw [hr]
    exact ⟨hrun, rfl, rfl, rfl, fun _ _ => rfl, fun _ _ _ => rfl⟩
  | cons fr rest ih =>
    intro j fuel s hv hrun hc hpar hj hnext hnd hf
    obtain ⟨fuel, rfl⟩ : ∃ f, fuel = f + 1 := ⟨fuel - 1, by omega⟩
    have hin : inRange (j : Int) n = true := inRange_ptr n _ (by omega) hv.pos
    obtain ⟨hs1, hs2, hs3⟩ := hc.step
    rw [ctxPar_cons] at hpar
    simp only [List.map_cons, List.nodup_cons, List.mem_cons, not_or] at hnd
    have hjp : j ≠ fr.idx := hnd.1.1
    have hb := insPropBody_spec n fuel s hv hrun j fr.idx hj hs1 hjp hpar hnext
    obtain ⟨b1, b2, b3, b4, b5, b6, b7⟩ := hb
    have hok : (BE.cmpI .ne (.ld2 "tree_nodes" (.var "next_node") (.lit 3)) (.lit (-1))).ok s = true := by
      simp [BE.ok, okN s n hv.shpN, hnext, hin, IE.ok_lit]
    have hev : (BE.cmpI .ne (.ld2 "tree_nodes" (.var "next_node") (.lit 3)) (.lit (-1))).eval s = true := by
      simp [BE.eval, evalN s n hv.shpN, hnext, hpar, cmpInt, IE.eval_lit]
    have hlenp : fr.idx * 8 + 7 < (s.fa "tree_vals").length := by rw [hv.lenV]; omega
    intro r
    rw [propArr_cons]
    -- the array after the body, and the stored maximum of the frame's row in it
    have hV1len : ((exec fuel insPropBody s).fa "tree_vals").length = n * 8 := by
      rw [b3]; split <;> simp [hv.lenV]
    have hvB : VS (exec fuel insPropBody s) n :=
      ⟨by rw [b2]; exact hv.shpV, by rw [b2]; exact hv.shpN, hV1len, by rw [b1]; exact hv.lenN, hv.pos⟩
    by_cases h1 : vAt (s.fa "tree_vals") fr.idx 7 < vAt (s.fa "tree_vals") j 7
    · simp only [h1, if_true] at b3 b6 b7 ⊢
      by_cases h2 : vAt (s.fa "tree_vals") j 7 < vAt (s.fa "tree_vals") j 7
      · simp only [h2, if_true]
        have hbrk := b6 h2
        have hr : r = { exec fuel insPropBody s with ctl := .run } := by
          simp only [r, insPropLoop]; rw [exec_while_brk _ _ _ _ hok hev hbrk]
        rw [hr]
        exact ⟨rfl, b1, b2, b3, b4, b5⟩
      · simp only [h2, if_false]
        obtain ⟨c1, c2⟩ := b7 h2
        have hr : r = exec fuel insPropLoop (exec fuel insPropBody s) := by
          simp only [r, insPropLoop]; rw [exec_while_step _ _ _ _ hok hev c1]
        have := ih fr.idx fuel (exec fuel insPropBody s) hvB c1 (by rw [b1]; exact hs3) (by rw [b1]; exact hs2) hs1 c2
          (by simp only [List.nodup_cons]; exact hnd.2) (by simp only [List.length_cons] at hf; omega)
        rw [hr]
        obtain ⟨d1, d2, d3, d4, d5, d6⟩ := this
        refine ⟨d1, d2.trans b1, d3.trans b2, ?_, fun a ha => (d5 a ha).trans (b4 a ha),
          fun v h1 h2 => (d6 v h1 h2).trans (b5 v h1 h2)⟩
        rw [d4, b3, vAt_set _ _ _ _ _ _ (by decide) (by decide) hlenp]
        simp
    · simp only [h1, if_false] at b3 b6 b7 ⊢
      by_cases h2 : vAt (s.fa "tree_vals") j 7 < vAt (s.fa "tree_vals") fr.idx 7
      · simp only [h2, if_true]
        have hbrk := b6 h2
        have hr : r = { exec fuel insPropBody s with ctl := .run } := by
          simp only [r, insPropLoop]; rw [exec_while_brk _ _ _ _ hok hev hbrk]
        rw [hr]
        exact ⟨rfl, b1, b2, b3, b4, b5⟩
      · simp only [h2, if_false]
        obtain ⟨c1, c2⟩ := b7 h2
        have hr : r = exec fuel insPropLoop (exec fuel insPropBody s) := by
          simp only [r, insPropLoop]; rw [exec_while_step _ _ _ _ hok hev c1]
        have := ih fr.idx fuel (exec fuel insPropBody s) hvB c1 (by rw [b1]; exact hs3) (by rw [b1]; exact hs2) hs1 c2
          (by simp only [List.nodup_cons]; exact hnd.2) (by simp only [List.length_cons] at hf; omega)
        rw [hr]
        obtain ⟨d1, d2, d3, d4, d5, d6⟩ := this
        refine ⟨d1, d2.trans b1, d3.trans b2, ?_, fun a ha => (d5 a ha).trans (b4 a ha),
          fun v h1 h2 => (d6 v h1 h2).trans (b5 v h1 h2)⟩
        rw [d4, b3]

/-! ### creation and linking of the new node -/

/-- the new node is written into row `nid` and hung below `p` on the side the comparison of the keys says -/
theorem insCreateLink_spec (n m fuel : Nat) (s : State F) (hv : VS s n) (hm : VVal s m) (hrun : s.ctl = .run)
    (p nid : Nat) (hp : p + 1 < n) (hnid : nid + 1 < n) (hne : nid ≠ p) (hcur : s.ienv "cur_node" = p)
    (hid : s.ienv "node_id" = nid) :
    let r := exec fuel (.seq (seqL insCreateItems) (seqL insLinkItems)) s
    let V := s.fa "tree_vals"
    let N := s.ia "tree_nodes"
    let V1 := r.fa "tree_vals"
    let N1 := r.ia "tree_nodes"
    r.ctl = .run ∧ r.shp = s.shp ∧ V1.length = V.length ∧ N1.length = N.length ∧
      (∀ i, i ≠ nid → ∀ c, c < 8 → vAt V1 i c = vAt V i c) ∧ nodeAt V1 nid = valNode s ∧ vAt V1 nid 7 = minv (valNode s) ∧
      nAt N1 nid 0 = 0 ∧ nAt N1 nid 1 = -1 ∧ nAt N1 nid 2 = -1 ∧ nAt N1 nid 3 = p ∧
      (if valAt s 0 < vAt V p 0 then nAt N1 p 1 = nid ∧ nAt N1 p 2 = nAt N p 2 else nAt N1 p 2 = nid ∧ nAt N1 p 1 = nAt N p 1) ∧
      nAt N1 p 3 = nAt N p 3 ∧ nAt N1 p 0 = nAt N p 0 ∧
      (∀ i, i ≠ nid → i ≠ p → ∀ c, c < 4 → nAt N1 i c = nAt N i c) ∧
      r.ienv "next_node" = nid ∧ r.ienv "inserted" = nid ∧ r.ienv "root" = s.ienv "root" := by
  have sV := fun (s' : State F) => exec_stV fuel s' n
  have sN := fun (s' : State F) => exec_stN fuel s' n
  have eN := fun (s' : State F) => evalN s' n
  have oN := fun (s' : State F) => okN s' n
  have eV := fun (s' : State F) => evalV s' n
  have oV := fun (s' : State F) => okV s' n
  have eA := fun (s' : State F) => evalVal s' m
  have oA := fun (s' : State F) => okVal s' m
  have mS := fun (a b : String) (s' : State F) => minvScope_spec a b fuel n s'
  have hin : inRange (nid : Int) n = true := inRange_ptr n _ (by omega) hv.pos
  have hinp : inRange (p : Int) n = true := inRange_ptr n _ (by omega) hv.pos
  have hm7 : 7 ≤ m := hm.big
  have k0 : (0 : Int) < m := by omega
  have k1 : (1 : Int) < m := by omega
  have k2 : (2 : Int) < m := by omega
  have k3 : (3 : Int) < m := by omega
  have k4 : (4 : Int) < m := by omega
  have k5 : (5 : Int) < m := by omega
  have k6 : (6 : Int) < m := by omega
  have k0' : 0 < m := by omega
  have k1' : 1 < m := by omega
  have k2' : 2 < m := by omega
  have k3' : 3 < m := by omega
  have k4' : 4 < m := by omega
  have k5' : 5 < m := by omega
  have k6' : 6 < m := by omega
  have hLV : (s.fa "tree_vals").length = n * 8 := hv.lenV
  have hLN : (s.ia "tree_nodes").length = n * 4 := hv.lenN
  have lv0 : nid * 8 < (s.fa "tree_vals").length := by omega
  have lv1 : nid * 8 + 1 < (s.fa "tree_vals").length := by omega
  have lv2 : nid * 8 + 2 < (s.fa "tree_vals").length := by omega
  have lv3 : nid * 8 + 3 < (s.fa "tree_vals").length := by omega
  have lv4 : nid * 8 + 4 < (s.fa "tree_vals").length := by omega
  have lv5 : nid * 8 + 5 < (s.fa "tree_vals").length := by omega
  have lv6 : nid * 8 + 6 < (s.fa "tree_vals").length := by omega
  have lv7 : nid * 8 + 7 < (s.fa "tree_vals").length := by omega
  have ln0 : nid * 4 < (s.ia "tree_nodes").length := by omega
  have ln1 : nid * 4 + 1 < (s.ia "tree_nodes").length := by omega
  have ln2 : nid * 4 + 2 < (s.ia "tree_nodes").length := by omega
  have ln3 : nid * 4 + 3 < (s.ia "tree_nodes").length := by omega
  have lp1 : p * 4 + 1 < (s.ia "tree_nodes").length := by omega
  have lp2 : p * 4 + 2 < (s.ia "tree_nodes").length := by omega
  intro r V N V1 N1
  by_cases h1 : Fl.lt (valAt s 0).v (vAt (s.fa "tree_vals") p 0).v = true
  · have h1' : valAt s 0 < vAt (s.fa "tree_vals") p 0 := h1
    have hcmp : cmp3 ((s.fa "value")[0]?.getD Fl.nan) (vAt (s.fa "tree_vals") p 0).v = -1 := by
      have := (cmp3_neg_one _ _).mpr h1
      simpa [valAt] using this
    have h1'' : Fl.lt ((s.fa "value")[0]?.getD Fl.nan) (vAt (s.fa "tree_vals") p 0).v = true := by simpa [valAt] using h1
    simp [r, V, N, V1, N1, insCreateItems, insLinkItems, seqL, exec, sV, sN, eN, oN, eV, oV, eA, oA, mS, cmpScope_spec,
      hv.shpN, hv.shpV, hm.shp, hid, hcur, hin, hinp, IE.ok_var, IE.eval_var, IE.ok_lit, IE.eval_lit, FE.ok_lit, FE.eval_lit,
      FE.ok_var, FE.eval_var, BE.ok, BE.eval, cmpInt, setS, hrun, k0, k1, k2, k3, k4, k5, k6, k0', k1', k2', k3', k4', k5', k6',
      vAt_set, vAt_set0, nAt_set, nAt_set0, lv0, lv1, lv2, lv3, lv4, lv5, lv6, lv7, ln0, ln1, ln2, ln3, lp1, lp2, hne, hne.symm,
      hcmp, h1'', fv_lt, nodeAt, valNode, valAt, minv, setS_setS_same]
    refine ⟨fun i hi c hc => ?_, fun i hi1 hi2 c hc => ?_⟩
    · simp [vAt_set, vAt_set0, lv0, lv1, lv2, lv3, lv4, lv5, lv6, lv7, hi, hc]
    · simp [nAt_set, nAt_set0, ln0, ln1, ln2, ln3, lp1, lp2, hi1, hi2, hc]
  · have h1' : ¬ valAt s 0 < vAt (s.fa "tree_vals") p 0 := h1
    have hcmp : ¬ (cmp3 ((s.fa "value")[0]?.getD Fl.nan) (vAt (s.fa "tree_vals") p 0).v = -1) := by
      intro e
      have := (cmp3_neg_one ((s.fa "value")[0]?.getD Fl.nan) (vAt (s.fa "tree_vals") p 0).v).mp e
      exact h1 (by simpa [valAt] using this)
    have h1'' : ¬ (Fl.lt ((s.fa "value")[0]?.getD Fl.nan) (vAt (s.fa "tree_vals") p 0).v = true) := by simpa [valAt] using h1
    simp [r, V, N, V1, N1, insCreateItems, insLinkItems, seqL, exec, sV, sN, eN, oN, eV, oV, eA, oA, mS, cmpScope_spec,
      hv.shpN, hv.shpV, hm.shp, hid, hcur, hin, hinp, IE.ok_var, IE.eval_var, IE.ok_lit, IE.eval_lit, FE.ok_lit, FE.eval_lit,
      FE.ok_var, FE.eval_var, BE.ok, BE.eval, cmpInt, setS, hrun, k0, k1, k2, k3, k4, k5, k6, k0', k1', k2', k3', k4', k5', k6',
      vAt_set, vAt_set0, nAt_set, nAt_set0, lv0, lv1, lv2, lv3, lv4, lv5, lv6, lv7, ln0, ln1, ln2, ln3, lp1, lp2, hne, hne.symm,
      hcmp, h1'', fv_lt, nodeAt, valNode, valAt, minv, setS_setS_same]
    refine ⟨fun i hi c hc => ?_, fun i hi1 hi2 c hc => ?_⟩
    · simp [vAt_set, vAt_set0, lv0, lv1, lv2, lv3, lv4, lv5, lv6, lv7, hi, hc]
    · simp [nAt_set, nAt_set0, ln0, ln1, ln2, ln3, lp1, lp2, hi1, hi2, hc]

/-! ### `_insert_into_tree` up to the colour fixup -/

/-- the shape after the insertion of row `nid` (before the fixup): the new leaf plugged into the empty slot -/
def insShape (V : List F) (K : Fv F) (sh : Sh) (nid : Nat) : Sh := plug (.node .nil nid .nil) (insZ V K sh [])

/-- **Refinement of `_insert_into_tree` up to `_rb_insert_fixup`** (partial: the fixup `insFixup` -- the recolouring loop
    with its six inlined rotations -- is not covered): on a state whose arrays hold a well-linked non-empty tree, with
    `node_id` a fresh row and `value` the new node, the program reaches the fixup in a state whose arrays hold the
    hand model's `leafInsert` of the abstracted tree (code-exact form `insCoreC`), well linked and without repeated
    rows, the new node in row `node_id`. -/
theorem vsInsert_prefix_refines (s : State F) (fuel n m : Nat) (hv : VS s n) (hm : VVal s m) (hrun : s.ctl = .run)
    (l : Sh) (i : Nat) (rr : Sh) (hL : Linked (s.ia "tree_nodes") n (-1) (.node l i rr))
    (hN : (Sh.node l i rr).idxs.Nodup) (hroot : s.ienv "root" = i) (nid : Nat) (hnid : nid + 1 < n)
    (hfresh : nid ∉ (Sh.node l i rr).idxs) (hid : s.ienv "node_id" = nid)
    (hfuel : (Sh.node l i rr).height + 1 < fuel) :
    let V := s.fa "tree_vals"
    let N := s.ia "tree_nodes"
    let sh' := insShape V (valAt s 0) (.node l i rr) nid
    ∃ sP : State F, Gen.IL.vsInsert.run s fuel = exec fuel insFixup sP ∧ sP.ctl = .run ∧ VS sP n ∧
      Linked (sP.ia "tree_nodes") n (-1) sh' ∧ sh'.idxs.Nodup ∧
      absT (sP.fa "tree_vals") (sP.ia "tree_nodes") sh' = (insCoreC (valNode s) (absT V N (.node l i rr))).1 ∧
      sP.ienv "inserted" = nid ∧ sP.ienv "root" = i ∧ vAt (sP.fa "tree_vals") (n - 1) 7 = vAt V (n - 1) 7 ∧
      nAt (sP.ia "tree_nodes") (n - 1) 0 = nAt N (n - 1) 0 := by
  intro V N
  simp only [insShape]
  -- the position of the empty slot
  generalize hctx : insZ V (valAt s 0) (.node l i rr) [] = ctx
  have hctx_ne : ctx ≠ [] := hctx ▸ insZ_ne_nil V (valAt s 0) (.node l i rr) [] (Or.inl (by simp))
  have hplug : plug .nil ctx = .node l i rr := by rw [← hctx]; exact insZ_plug V (valAt s 0) _ []
  obtain ⟨_, hcl, _⟩ := unplug ctx .nil (by rw [hplug]; exact hL) (by rw [hplug]; exact hN)
  simp only [Sh.ptr] at hcl
  have hmem : ∀ j, j ∈ ctxIdxs ctx → j ∈ (Sh.node l i rr).idxs := fun j hj => by
    rw [← hplug, mem_plug_iff]; exact Or.inr hj
  have hnd_ctx : (ctxIdxs ctx).Nodup := by
    have := (nodup_plug_iff ctx .nil).mp (by rw [hplug]; exact hN)
    simpa [Sh.idxs] using this
  have hnid_ctx : nid ∉ ctxIdxs ctx := fun h => hfresh (hmem nid h)
  obtain ⟨fr, rest, rfl⟩ : ∃ fr rest, ctx = fr :: rest := by
    cases ctx with
    | nil => exact absurd rfl hctx_ne
    | cons a b => exact ⟨a, b, rfl⟩
  obtain ⟨hp, hpP, hclr⟩ := hcl.step
  have hp_mem : fr.idx ∈ ctxIdxs (fr :: rest) := by cases fr <;> simp [ctxIdxs, Fr.idx]
  have hne : nid ≠ fr.idx := fun e => hnid_ctx (e ▸ hp_mem)
  -- 1. the descent
  have h1 := insDesc_spec n m fuel s hv hm hrun l i rr hL hroot (by omega)
  rw [hctx, ctxPar_cons] at h1
  obtain ⟨a1, a2, a3⟩ := h1
  generalize hs1 : exec fuel (.seq (seqL insDesc0Items) insDescLoop) s = s1 at a1 a2 a3
  have hv1 : VS s1 n := a2.vs hv
  have hm1 : VVal s1 m := ⟨by rw [a2.shp]; exact hm.shp, by rw [a2.fa]; exact hm.len, hm.big⟩
  have hid1 : s1.ienv "node_id" = nid := by rw [a2.ienv _ (by simp [insDiv])]; exact hid
  have hroot1 : s1.ienv "root" = i := by rw [a2.ienv _ (by simp [insDiv])]; exact hroot
  have hval1 : valAt s1 0 = valAt s 0 := by simp only [valAt, a2.fa]
  have hvn1 : valNode s1 = valNode s := by simp only [valNode, valAt, a2.fa]
  -- 2. creation and linking
  have h2 := insCreateLink_spec n m fuel s1 hv1 hm1 a1 fr.idx nid hp hnid hne a3 hid1
  simp only [a2.fa, a2.ia, hval1, hvn1] at h2
  obtain ⟨b1, b2, b3, b4, b5, b6, b7, b8, b9, b10, b11, b12, b13, b14, b15, b16, b17, b18⟩ := h2
  generalize hs2 : exec fuel (.seq (seqL insCreateItems) (seqL insLinkItems)) s1 = s2 at b1 b2 b3 b4 b5 b6 b7 b8 b9 b10 b11 b12 b13 b14 b15 b16 b17 b18
  have hv2 : VS s2 n := ⟨by rw [b2, a2.shp]; exact hv.shpV, by rw [b2, a2.shp]; exact hv.shpN, by rw [b3]; exact hv.lenV,
    by rw [b4]; exact hv.lenN, hv.pos⟩
  -- the links of the new tree
  have hside : (∃ r0, fr = .L fr.idx r0 ∧ valAt s 0 < vAt V fr.idx 0) ∨ (∃ l0, fr = .R l0 fr.idx ∧ ¬ valAt s 0 < vAt V fr.idx 0) := by
    -- the last frame of the descent records the comparison at its row
    have : ∀ (sh : Sh) (c : Ctx) (f : Fr) (rs : Ctx), insZ V (valAt s 0) sh c = f :: rs → (sh ≠ .nil) →
        (∃ r0, f = .L f.idx r0 ∧ valAt s 0 < vAt V f.idx 0) ∨ (∃ l0, f = .R l0 f.idx ∧ ¬ valAt s 0 < vAt V f.idx 0) := by
      intro sh
      induction sh with
      | nil => intro c f rs _ h; exact absurd rfl h
      | node l0 i0 r0 ihl ihr =>
        intro c f rs h _
        simp only [insZ] at h
        by_cases hk : valAt s 0 < vAt V i0 0
        · simp only [hk, if_true] at h
          cases l0 with
          | nil => simp only [insZ, List.cons.injEq] at h; obtain ⟨rfl, _⟩ := h; exact Or.inl ⟨r0, rfl, hk⟩
          | node a b c' => exact ihl _ f rs h (by simp)
        · simp only [hk, if_false] at h
          cases r0 with
          | nil => simp only [insZ, List.cons.injEq] at h; obtain ⟨rfl, _⟩ := h; exact Or.inr ⟨l0, rfl, hk⟩
          | node a b c' => exact ihr _ f rs h (by simp)
    exact this _ [] fr rest hctx (by simp)
  have hN1other : ∀ j ∈ ctxIdxs (fr :: rest), j ≠ fr.idx →
      nAt (s2.ia "tree_nodes") j 1 = nAt N j 1 ∧ nAt (s2.ia "tree_nodes") j 2 = nAt N j 2 ∧ nAt (s2.ia "tree_nodes") j 3 = nAt N j 3 :=
    fun j hj hjp => by
      have hjn : j ≠ nid := fun e => hnid_ctx (e ▸ hj)
      exact ⟨b15 j hjn hjp 1 (by decide), b15 j hjn hjp 2 (by decide), b15 j hjn hjp 3 (by decide)⟩
  have b12L : valAt s 0 < vAt V fr.idx 0 →
      nAt (s2.ia "tree_nodes") fr.idx 1 = nid ∧ nAt (s2.ia "tree_nodes") fr.idx 2 = nAt N fr.idx 2 :=
    fun h => by rw [if_pos h] at b12; exact b12
  have b12R : ¬ valAt s 0 < vAt V fr.idx 0 →
      nAt (s2.ia "tree_nodes") fr.idx 2 = nid ∧ nAt (s2.ia "tree_nodes") fr.idx 1 = nAt N fr.idx 1 :=
    fun h => by rw [if_neg h] at b12; exact b12
  have hcl2 : CtxLinked (s2.ia "tree_nodes") n (nid : Int) (fr :: rest) := by
    cases fr with
    | L p r0 =>
      have hk : valAt s 0 < vAt V p 0 := by
        rcases hside with ⟨_, _, hk⟩ | ⟨_, h, _⟩
        · exact hk
        · cases h
      have e1 : nAt (s2.ia "tree_nodes") p 1 = nid := (b12L hk).1
      have e2 : nAt (s2.ia "tree_nodes") p 2 = nAt N p 2 := (b12L hk).2
      have e3 : nAt (s2.ia "tree_nodes") p 3 = nAt N p 3 := b13
      have hoth : ∀ j ∈ ctxIdxs (Fr.L p r0 :: rest), j ≠ p →
          nAt (s2.ia "tree_nodes") j 1 = nAt N j 1 ∧ nAt (s2.ia "tree_nodes") j 2 = nAt N j 2 ∧
            nAt (s2.ia "tree_nodes") j 3 = nAt N j 3 := hN1other
      obtain ⟨h1, h2, h3, h4, h5, h6, h7⟩ := hcl
      have hnd' : (p :: (r0.idxs ++ ctxIdxs rest)).Nodup := by simpa [ctxIdxs] using hnd_ctx
      have hnd'' := List.nodup_cons.mp hnd'
      refine ⟨h1, e1, by rw [e2]; exact h3, fun _ e => ?_, by rw [e3]; exact h5, ?_, ?_⟩
      · exact hnid_ctx (by simp [ctxIdxs, Sh.ptr_mem r0 nid e])
      · exact h6.congr (fun j hj => hoth j (by simp [ctxIdxs, hj]) (fun e => hnd''.1 (by simp [← e, hj])))
      · exact h7.congr (fun j hj => hoth j (by simp [ctxIdxs, hj]) (fun e => hnd''.1 (by simp [← e, hj])))
    | R l0 p =>
      have hk : ¬ valAt s 0 < vAt V p 0 := by
        rcases hside with ⟨_, h, _⟩ | ⟨_, _, hk⟩
        · cases h
        · exact hk
      have e1 : nAt (s2.ia "tree_nodes") p 2 = nid := (b12R hk).1
      have e2 : nAt (s2.ia "tree_nodes") p 1 = nAt N p 1 := (b12R hk).2
      have e3 : nAt (s2.ia "tree_nodes") p 3 = nAt N p 3 := b13
      have hoth : ∀ j ∈ ctxIdxs (Fr.R l0 p :: rest), j ≠ p →
          nAt (s2.ia "tree_nodes") j 1 = nAt N j 1 ∧ nAt (s2.ia "tree_nodes") j 2 = nAt N j 2 ∧
            nAt (s2.ia "tree_nodes") j 3 = nAt N j 3 := hN1other
      obtain ⟨h1, h2, h3, h4, h5, h6, h7⟩ := hcl
      have hnd' : (p :: (l0.idxs ++ ctxIdxs rest)).Nodup := by simpa [ctxIdxs] using hnd_ctx
      have hnd'' := List.nodup_cons.mp hnd'
      refine ⟨h1, by rw [e2]; exact h2, e1, fun _ e => ?_, by rw [e3]; exact h5, ?_, ?_⟩
      · exact hnid_ctx (by simp [ctxIdxs, Sh.ptr_mem l0 nid e])
      · exact h6.congr (fun j hj => hoth j (by simp [ctxIdxs, hj]) (fun e => hnd''.1 (by simp [← e, hj])))
      · exact h7.congr (fun j hj => hoth j (by simp [ctxIdxs, hj]) (fun e => hnd''.1 (by simp [← e, hj])))
  have hleaf : Linked (s2.ia "tree_nodes") n (ctxPar (fr :: rest)) (.node .nil nid .nil) := by
    rw [ctxPar_cons]
    exact ⟨hnid, b9, b10, b11, trivial, trivial⟩
  have hLnew : Linked (s2.ia "tree_nodes") n (-1) (plug (.node .nil nid .nil) (fr :: rest)) := replug (fr :: rest) _ hleaf (by simpa [Sh.ptr] using hcl2)
  have hNnew : (plug (.node .nil nid .nil) (fr :: rest)).idxs.Nodup := by
    rw [nodup_plug_iff]
    simp only [Sh.idxs, List.nil_append, List.cons_append]
    exact List.nodup_cons.mpr ⟨hnid_ctx, hnd_ctx⟩
  -- 3. the propagation
  have hrows : (nid :: (fr :: rest).map Fr.idx).Nodup :=
    List.nodup_cons.mpr ⟨fun h => hnid_ctx ((frameRows_sublist (fr :: rest)).subset h),
      hnd_ctx.sublist (frameRows_sublist (fr :: rest))⟩
  have h3 := insPropLoop_spec n (fr :: rest) nid fuel s2 hv2 b1 hcl2 (by rw [ctxPar_cons]; exact b11) hnid b16 hrows
    (by
      have := plug_height (fr :: rest) .nil
      rw [hplug] at this
      simp only [Sh.height] at this hfuel ⊢
      omega)
  obtain ⟨c1, c2, c3, c4, c5, c6⟩ := h3
  generalize hs3 : exec fuel insPropLoop s2 = s3 at c1 c2 c3 c4 c5 c6
  refine ⟨s3, ?_, c1, ?_, by rw [c2]; exact hLnew, hNnew, ?_, by rw [c6 _ (by decide) (by decide)]; exact b17,
    by rw [c6 _ (by decide) (by decide), b18]; exact hroot1, ?_,
    by rw [c2]; exact b15 (n - 1) (by omega) (by omega) 0 (by decide)⟩
  · -- the program is the prefix followed by the fixup
    simp only [Prog.run, vsInsert_body, insDesc0Items]
    rw [exec_seqK, exec_seq_assoc, exec_seq_run _ _ _ _ (by rw [← insDesc0Items, hs1]; exact a1), ← insDesc0Items, hs1]
    simp only [insCreateItems]
    rw [exec_seqK]
    have hreg : ∀ (A Z : St) (t : State F), exec fuel (.seq A (seqK insLinkItems Z)) t =
        exec fuel (.seq (.seq A (seqL insLinkItems)) Z) t := by
      intro A Z t
      rw [← exec_seq_assoc]
      simp only [exec_seq]
      have : ∀ u : State F, exec fuel (seqK insLinkItems Z) u = exec fuel (.seq (seqL insLinkItems) Z) u := by
        intro u; simp only [insLinkItems]; exact exec_seqK fuel _ _ _ u
      simp only [this, exec_seq]
    rw [hreg, ← insCreateItems, exec_seq_run _ _ _ _ (by rw [hs2]; exact b1), hs2,
      exec_seq_run _ _ _ _ (by rw [hs3]; exact c1), hs3]
  · exact ⟨by rw [c3]; exact hv2.shpV, by rw [c3]; exact hv2.shpN, by rw [c4, propArr_length]; exact hv2.lenV,
      by rw [c2]; exact hv2.lenN, hv.pos⟩
  · -- the abstraction
    rw [c4, c2]
    have hlenctx : ∀ j ∈ ctxIdxs (fr :: rest), j * 8 + 7 < (s2.fa "tree_vals").length := by
      intro j hj
      have := Linked.idx_lt hL j (hmem j hj)
      rw [b3, hv.lenV]; omega
    rw [absT_propArr (s2.ia "tree_nodes") (fr :: rest) (s2.fa "tree_vals") (.node .nil nid .nil) _
      (by simpa [Sh.idxs] using List.nodup_cons.mpr ⟨hnid_ctx, hnd_ctx⟩) hlenctx]
    have hleafT : absT (s2.fa "tree_vals") (s2.ia "tree_nodes") (.node .nil nid .nil) = leafT (valNode s) := by
      simp only [absT, b6, b7, b8, leafT, decide_true]
    have hctxT : absCtx (s2.fa "tree_vals") (s2.ia "tree_nodes") (fr :: rest) = absCtx V N (fr :: rest) := by
      refine absCtx_congr _ (fun j hj => ?_)
      have hjn : j ≠ nid := fun e => hnid_ctx (e ▸ hj)
      refine ⟨fun c hc => b5 j hjn c hc, ?_⟩
      by_cases hjp : j = fr.idx
      · rw [hjp]; exact b14
      · exact b15 j hjn hjp 0 (by decide)
    rw [hleafT, hctxT, b7, ← hctx, absCtx_insZ]
    exact propT_insPathT (valNode s) (absT V N (.node l i rr)) []
  · -- the NIL row
    rw [c4]
    have hnil : ∀ (cx : Ctx) (W : List F) (cm : Fv F), (∀ j ∈ cx.map Fr.idx, j + 1 < n) → W.length = n * 8 →
        vAt (propArr W cm cx) (n - 1) 7 = vAt W (n - 1) 7 := by
      intro cx
      induction cx with
      | nil => intro W cm _ _; rfl
      | cons f rs ih =>
        intro W cm hr hW
        have hf : f.idx + 1 < n := hr f.idx (by simp)
        have hset : vAt (W.set (f.idx * 8 + 7) cm.v) (n - 1) 7 = vAt W (n - 1) 7 := by
          rw [vAt_set _ _ _ _ _ _ (by decide) (by decide) (by rw [hW]; omega)]
          have : ¬ (n - 1 = f.idx) := by omega
          simp [this]
        rw [propArr_cons]
        by_cases k1 : vAt W f.idx 7 < cm
        · simp only [k1, if_true]
          by_cases k2 : cm < cm
          · simp only [k2, if_true]; exact hset
          · simp only [k2, if_false]
            rw [ih _ _ (fun j hj => hr j (by simp [hj])) (by simp [hW]), hset]
        · simp only [k1, if_false]
          by_cases k2 : cm < vAt W f.idx 7
          · simp only [k2, if_true]
          · simp only [k2, if_false]
            exact ih _ _ (fun j hj => hr j (by simp [hj])) hW
    rw [hnil _ _ _ (fun j hj => Linked.idx_lt hL j (hmem j ((frameRows_sublist (fr :: rest)).subset hj))) (by rw [b3]; exact hv.lenV)]
    exact b5 (n - 1) (by omega) 7 (by decide)

end XrsVerif.ILVs
