import XrsVerif.Proofs.ILViewshedFixRot
import XrsVerif.Proofs.ILViewshedInsProg
/-
  Proofs/ILViewshedFixIns.lean -- `_rb_insert_fixup` as it is inlined in `Gen.IL.vsInsert` (`insFixup` of
  Proofs/ILViewshedInsProg.lean), block by block.

  * the cut: `insFixup'` is `insFixup` written with the six inlined rotations as `rotCall Gen.IL.vsLeftRotate.body …`
    / `rotCall Gen.IL.vsRightRotate.body …` (renamed copies of the stand-alone programs); `insFixup_eq` checks that by
    `decide` against the regenerated program;
  * the blocks of one loop iteration at a position of the whole tree, each = steps of the model (`atPath`):
      `recolL_spec` / `recolR_spec`   red uncle: three colour writes, `z` moves to the grandparent;
      `inL_spec` / `inR_spec`         inner child: `z = z.parent`, rotation at it;
      `outL_spec` / `outR_spec`       outer child: parent black, grandparent red, rotation at the grandparent.
-/
set_option linter.unusedSectionVars false
set_option linter.unusedVariables false
set_option linter.unusedSimpArgs false
namespace XrsVerif.ILVs
open XrsVerif XrsVerif.IL XrsVerif.Viewshed
variable {F : Type} [Fl F]

/-! ### the cut of `_rb_insert_fixup` -/

/-- red uncle: recolour, `z` moves two levels up -/
def recolBlock : St :=
  (.seq (.stI2 "tree_nodes" (.var "_rb_insert_fixup6$z_parent") (.lit 0) (.lit 1))
  (.seq (.stI2 "tree_nodes" (.var "_rb_insert_fixup6$y") (.lit 0) (.lit 1))
  (.seq (.stI2 "tree_nodes" (.var "_rb_insert_fixup6$z_parent_parent") (.lit 0) (.lit 0))
  (.setI "_rb_insert_fixup6$z" (.var "_rb_insert_fixup6$z_parent_parent")))))

/-- "case 3": parent black, grandparent red, rotation at the grandparent -/
def case3 (rotOut : St) : St :=
  (.seq (.setI "_rb_insert_fixup6$z_parent" (.ld2 "tree_nodes" (.var "_rb_insert_fixup6$z") (.lit 3)))
  (.seq (.setI "_rb_insert_fixup6$z_parent_parent" (.ld2 "tree_nodes" (.var "_rb_insert_fixup6$z_parent") (.lit 3)))
  (.seq (.stI2 "tree_nodes" (.var "_rb_insert_fixup6$z_parent") (.lit 0) (.lit 1))
  (.seq (.stI2 "tree_nodes" (.var "_rb_insert_fixup6$z_parent_parent") (.lit 0) (.lit 0))
  rotOut))))

/-- "case 2": `z = z.parent`, rotation at it -/
def case2 (rotIn : St) : St := (.seq (.setI "_rb_insert_fixup6$z" (.var "_rb_insert_fixup6$z_parent")) rotIn)

def insFixCase (sideUncle sideInner : Int) (rotIn rotOut : St) : St :=
  (.seq (.setI "_rb_insert_fixup6$y" (.ld2 "tree_nodes" (.var "_rb_insert_fixup6$z_parent_parent") (.lit sideUncle)))
  (.ite (.cmpI .eq (.ld2 "tree_nodes" (.var "_rb_insert_fixup6$y") (.lit 0)) (.lit 0))
    recolBlock
    (.seq (.ite (.cmpI .eq (.var "_rb_insert_fixup6$z") (.ld2 "tree_nodes" (.var "_rb_insert_fixup6$z_parent") (.lit sideInner)))
        (case2 rotIn)
        .skip)
    (case3 rotOut))))

def ren7 : String → String := rotRen "_rb_insert_fixup6$_left_rotate7$" "8" "9"
def ren10 : String → String := rotRen "_rb_insert_fixup6$_right_rotate10$" "11" "12"
def ren13 : String → String := rotRen "_rb_insert_fixup6$_right_rotate13$" "14" "15"
def ren16 : String → String := rotRen "_rb_insert_fixup6$_left_rotate16$" "17" "18"

def lrot7 : St := rotCall Gen.IL.vsLeftRotate.body ren7 "x" "_rb_insert_fixup6$root" "_rb_insert_fixup6$z"
def rrot10 : St := rotCall Gen.IL.vsRightRotate.body ren10 "y" "_rb_insert_fixup6$root" "_rb_insert_fixup6$z_parent_parent"
def rrot13 : St := rotCall Gen.IL.vsRightRotate.body ren13 "y" "_rb_insert_fixup6$root" "_rb_insert_fixup6$z"
def lrot16 : St := rotCall Gen.IL.vsLeftRotate.body ren16 "x" "_rb_insert_fixup6$root" "_rb_insert_fixup6$z_parent_parent"

def insFixPre : St :=
  (.seq (.setI "_rb_insert_fixup6$z_parent_parent" (.ld2 "tree_nodes" (.var "_rb_insert_fixup6$z_parent") (.lit 3)))
  (.seq (.setI "_rb_insert_fixup6$n1" (.ld2 "tree_nodes" (.var "_rb_insert_fixup6$z") (.lit 3)))
  (.setI "_rb_insert_fixup6$n2" (.ld2 "tree_nodes" (.var "_rb_insert_fixup6$z_parent_parent") (.lit 1)))))

def insFixTail : St := (.setI "_rb_insert_fixup6$z_parent" (.ld2 "tree_nodes" (.var "_rb_insert_fixup6$z") (.lit 3)))

def insFixBody : St :=
  (.seq (.setI "_rb_insert_fixup6$z_parent_parent" (.ld2 "tree_nodes" (.var "_rb_insert_fixup6$z_parent") (.lit 3)))
  (.seq (.setI "_rb_insert_fixup6$n1" (.ld2 "tree_nodes" (.var "_rb_insert_fixup6$z") (.lit 3)))
  (.seq (.setI "_rb_insert_fixup6$n2" (.ld2 "tree_nodes" (.var "_rb_insert_fixup6$z_parent_parent") (.lit 1)))
  (.seq (.ite (.cmpI .eq (.var "_rb_insert_fixup6$n1") (.var "_rb_insert_fixup6$n2"))
      (insFixCase 2 2 lrot7 rrot10)
      (insFixCase 1 1 rrot13 lrot16))
  insFixTail))))

def insFixLoop : St :=
  .while (.cmpI .eq (.ld2 "tree_nodes" (.var "_rb_insert_fixup6$z_parent") (.lit 0)) (.lit 0)) insFixBody

def insFixEnd : St :=
  (.seq (.stI2 "tree_nodes" (.var "_rb_insert_fixup6$root") (.lit 0) (.lit 1))
  (.seq (.setI "_rb_insert_fixup6$ret0" (.var "_rb_insert_fixup6$root")) .ret))

def insFixup' : St :=
  (.seq (.setI "_rb_insert_fixup6$root" (.var "root"))
  (.seq (.setI "_rb_insert_fixup6$z" (.var "inserted"))
  (.seq (.scope (.seq (.setI "_rb_insert_fixup6$z_parent" (.ld2 "tree_nodes" (.var "_rb_insert_fixup6$z") (.lit 3)))
      (.seq insFixLoop insFixEnd)))
  (.seq (.setI "root" (.var "_rb_insert_fixup6$ret0")) (.seq (.setI "ret0" (.var "root")) .ret)))))

/-- the inlined `_rb_insert_fixup` of the regenerated program is the loop over the four renamed rotation bodies -/
theorem insFixup_eq : insFixup = insFixup' := by decide

/-! ### red uncle -/

/-- `z.parent` is the left child `ai` of the grandparent `g`, the uncle `bi` its right child: both black, `g` red -/
theorem recolL_spec (fuel n : Nat) (s : State F) (hv : VS s n) (hrun : s.ctl = .run)
    (al : Sh) (ai : Nat) (ar : Sh) (g : Nat) (bl : Sh) (bi : Nat) (br : Sh) (rest : Ctx)
    (hL : Linked (s.ia "tree_nodes") n (-1) (plug (.node (.node al ai ar) g (.node bl bi br)) rest))
    (hN : (plug (.node (.node al ai ar) g (.node bl bi br)) rest).idxs.Nodup)
    (hzp : s.ienv "_rb_insert_fixup6$z_parent" = ai) (hy : s.ienv "_rb_insert_fixup6$y" = bi)
    (hzpp : s.ienv "_rb_insert_fixup6$z_parent_parent" = g) :
    let r := exec fuel recolBlock s
    let T := absT (s.fa "tree_vals") (s.ia "tree_nodes") (plug (.node (.node al ai ar) g (.node bl bi br)) rest)
    r.ctl = .run ∧ VS r n ∧ r.fa = s.fa ∧ r.ienv = setS s.ienv "_rb_insert_fixup6$z" (g : Int) ∧
      Linked (r.ia "tree_nodes") n (-1) (plug (.node (.node al ai ar) g (.node bl bi br)) rest) ∧
      absT (r.fa "tree_vals") (r.ia "tree_nodes") (plug (.node (.node al ai ar) g (.node bl bi br)) rest) =
        atPath (setCol true) (pathOf rest) (atPath (setCol false) (pathOf rest ++ [Dir.R])
          (atPath (setCol false) (pathOf rest ++ [Dir.L]) T)) ∧
      (∀ j k, 0 < k → k < 4 → nAt (r.ia "tree_nodes") j k = nAt (s.ia "tree_nodes") j k) ∧
      nAt (r.ia "tree_nodes") (n - 1) 0 = nAt (s.ia "tree_nodes") (n - 1) 0 := by
  intro r T
  have hai : ai + 1 < n := Linked.idx_lt hL ai (mem_plug _ rest _ (by simp [Sh.idxs]))
  have hbi : bi + 1 < n := Linked.idx_lt hL bi (mem_plug _ rest _ (by simp [Sh.idxs]))
  have hg : g + 1 < n := Linked.idx_lt hL g (mem_plug _ rest _ (by simp [Sh.idxs]))
  -- 1. the parent
  obtain ⟨a1, a2, a3, a4, a5, a6, a7, _⟩ := stCol_at fuel n s hv hrun "_rb_insert_fixup6$z_parent" 1
    (.L g (.node bl bi br) :: rest) al ai ar hL hN hzp
  generalize hs1 : exec fuel (.stI2 "tree_nodes" (.var "_rb_insert_fixup6$z_parent") (.lit 0) (.lit 1)) s = s1 at a1 a2 a3 a4 a5 a6 a7
  -- 2. the uncle
  obtain ⟨b1, b2, b3, b4, b5, b6, b7, _⟩ := stCol_at fuel n s1 a2 a1 "_rb_insert_fixup6$y" 1
    (.R (.node al ai ar) g :: rest) bl bi br a5 hN (by rw [a3]; exact hy)
  generalize hs2 : exec fuel (.stI2 "tree_nodes" (.var "_rb_insert_fixup6$y") (.lit 0) (.lit 1)) s1 = s2 at b1 b2 b3 b4 b5 b6 b7
  -- 3. the grandparent
  obtain ⟨c1, c2, c3, c4, c5, c6, c7, _⟩ := stCol_at fuel n s2 b2 b1 "_rb_insert_fixup6$z_parent_parent" 0
    rest (.node al ai ar) g (.node bl bi br) b5 hN (by rw [b3, a3]; exact hzpp)
  generalize hs3 : exec fuel (.stI2 "tree_nodes" (.var "_rb_insert_fixup6$z_parent_parent") (.lit 0) (.lit 0)) s2 = s3 at c1 c2 c3 c4 c5 c6 c7
  have hr : r = { s3 with ienv := setS s3.ienv "_rb_insert_fixup6$z" (g : Int) } := by
    simp only [r, recolBlock]
    rw [exec_seq_run _ _ _ _ (by rw [hs1]; exact a1), hs1, exec_seq_run _ _ _ _ (by rw [hs2]; exact b1), hs2,
      exec_seq_run _ _ _ _ (by rw [hs3]; exact c1), hs3, exec_setI _ _ _ _ (IE.ok_var _ _), IE.eval_var, c3, b3, a3, hzpp]
  have hd1 : decide ((1 : Int) = 0) = false := by decide
  have hd0 : decide ((0 : Int) = 0) = true := by decide
  rw [hd1] at a6 b6
  rw [hd0] at c6
  rw [hr]
  refine ⟨c1, ⟨c2.shpV, c2.shpN, c2.lenV, c2.lenN, c2.pos⟩, by show s3.fa = s.fa; rw [c4, b4, a4],
    by show setS s3.ienv _ _ = _; rw [c3, b3, a3], c5, ?_, ?_, ?_⟩
  · show absT (s3.fa "tree_vals") (s3.ia "tree_nodes") _ = _
    have a6' : absT (s1.fa "tree_vals") (s1.ia "tree_nodes") (plug (.node (.node al ai ar) g (.node bl bi br)) rest) =
        atPath (setCol false) (pathOf rest ++ [Dir.L]) T := a6
    have b6' : absT (s2.fa "tree_vals") (s2.ia "tree_nodes") (plug (.node (.node al ai ar) g (.node bl bi br)) rest) =
        atPath (setCol false) (pathOf rest ++ [Dir.R])
          (absT (s1.fa "tree_vals") (s1.ia "tree_nodes") (plug (.node (.node al ai ar) g (.node bl bi br)) rest)) := b6
    rw [c6, b6', a6']
  · intro j k hk0 hk
    show nAt (s3.ia "tree_nodes") j k = _
    rw [c7 j k hk (by omega), b7 j k hk (by omega), a7 j k hk (by omega)]
  · show nAt (s3.ia "tree_nodes") (n - 1) 0 = _
    rw [c7 _ 0 (by decide) (by omega), b7 _ 0 (by decide) (by omega), a7 _ 0 (by decide) (by omega)]

/-! ### reading a link cell -/

theorem exec_ldN (fuel n : Nat) (s : State F) (hs : s.shp "tree_nodes" = [n, 4]) (v x : String) (c : Int)
    (hc : 0 ≤ c ∧ c < 4) (hin : inRange (s.ienv x) n = true) (val : Int)
    (hval : nAt (s.ia "tree_nodes") (rowOf n (s.ienv x)) c.toNat = val) :
    exec fuel (.setI v (.ld2 "tree_nodes" (.var x) (.lit c))) s = { s with ienv := setS s.ienv v val } := by
  rw [exec_setI _ _ _ _ (by rw [okN s n hs x c hc]; exact hin), evalN s n hs x c hc.1, hval]

theorem ctxPar_eq_neg_one (ctx : Ctx) : ctxPar ctx = -1 ↔ ctx = [] := by
  cases ctx with
  | nil => simp [ctxPar]
  | cons fr rest => rw [ctxPar_cons]; simp

/-! ### outer child ("case 3"), `z.parent` the left child of the grandparent -/

theorem outL_spec (fuel n : Nat) (s : State F) (hv : VS s n) (hrun : s.ctl = .run)
    (cl : Sh) (c : Nat) (cr : Sh) (q : Nat) (qr : Sh) (g : Nat) (u : Sh) (rest : Ctx)
    (hL : Linked (s.ia "tree_nodes") n (-1) (plug (.node cl c cr) (.L q qr :: .L g u :: rest)))
    (hN : (plug (.node cl c cr) (.L q qr :: .L g u :: rest)).idxs.Nodup)
    (hz : s.ienv "_rb_insert_fixup6$z" = c)
    (hroot : s.ienv "_rb_insert_fixup6$root" = (plug (.node cl c cr) (.L q qr :: .L g u :: rest)).ptr) :
    let r := exec fuel (case3 rrot10) s
    let T := absT (s.fa "tree_vals") (s.ia "tree_nodes") (plug (.node cl c cr) (.L q qr :: .L g u :: rest))
    let S : Fv F := vAt (s.fa "tree_vals") (n - 1) 7
    r.ctl = .run ∧ VS r n ∧
      Linked (r.ia "tree_nodes") n (-1) (plug (.node cl c cr) (.L q (.node qr g u) :: rest)) ∧
      (plug (.node cl c cr) (.L q (.node qr g u) :: rest)).idxs.Nodup ∧
      absT (r.fa "tree_vals") (r.ia "tree_nodes") (plug (.node cl c cr) (.L q (.node qr g u) :: rest)) =
        atPath (rotR S) (pathOf rest) (atPath (setCol true) (pathOf rest)
          (atPath (setCol false) (pathOf rest ++ [Dir.L]) T)) ∧
      r.ienv "_rb_insert_fixup6$z" = c ∧
      r.ienv "_rb_insert_fixup6$root" = (plug (.node cl c cr) (.L q (.node qr g u) :: rest)).ptr ∧
      vAt (r.fa "tree_vals") (n - 1) 7 = S ∧
      nAt (r.ia "tree_nodes") (n - 1) 0 = nAt (s.ia "tree_nodes") (n - 1) 0 ∧
      nAt (r.ia "tree_nodes") q 0 = 1 := by
  intro r T S
  obtain ⟨hlc, hcl, _⟩ := unplug _ _ hL hN
  obtain ⟨hq, hq1, hq2, _, hq3, hlqr, hcg⟩ := hcl
  obtain ⟨hg, hg1, hg2, _, hg3, hlu, hcr⟩ := hcg
  have hc3 : nAt (s.ia "tree_nodes") c 3 = q := hlc.2.2.2.1
  have hcn : c + 1 < n := hlc.1
  have hq3' : nAt (s.ia "tree_nodes") q 3 = g := hq3
  -- the two reads
  have h1 := exec_ldN fuel n s hv.shpN "_rb_insert_fixup6$z_parent" "_rb_insert_fixup6$z" 3 (by decide)
    (by rw [hz]; exact inRange_ptr n _ (by omega) hv.pos) q (by rw [hz, rowOf_nat]; exact hc3)
  generalize hs1 : ({ s with ienv := setS s.ienv "_rb_insert_fixup6$z_parent" (q : Int) } : State F) = s1 at h1
  have hv1 : VS s1 n := by rw [← hs1]; exact hv.of_eq rfl rfl rfl
  have e1 : s1.ienv "_rb_insert_fixup6$z_parent" = q := by rw [← hs1]; simp [setS]
  have hia1 : s1.ia = s.ia := by rw [← hs1]
  have h2 := exec_ldN fuel n s1 hv1.shpN "_rb_insert_fixup6$z_parent_parent" "_rb_insert_fixup6$z_parent" 3 (by decide)
    (by rw [e1]; exact inRange_ptr n _ (by omega) hv.pos) g (by rw [e1, rowOf_nat, hia1]; exact hq3')
  generalize hs2 : ({ s1 with ienv := setS s1.ienv "_rb_insert_fixup6$z_parent_parent" (g : Int) } : State F) = s2 at h2
  have hv2 : VS s2 n := by rw [← hs2]; exact hv1.of_eq rfl rfl rfl
  have hrun2 : s2.ctl = .run := by rw [← hs2, ← hs1]; exact hrun
  have hia2 : s2.ia = s.ia := by rw [← hs2]; exact hia1
  have hfa2 : s2.fa = s.fa := by rw [← hs2, ← hs1]
  have e2 : s2.ienv "_rb_insert_fixup6$z_parent" = q := by rw [← hs2]; simp [setS, e1]
  have e3 : s2.ienv "_rb_insert_fixup6$z_parent_parent" = g := by rw [← hs2]; simp [setS]
  have e4 : s2.ienv "_rb_insert_fixup6$z" = c := by rw [← hs2, ← hs1]; simp [setS, hz]
  have e5 : s2.ienv "_rb_insert_fixup6$root" = s.ienv "_rb_insert_fixup6$root" := by rw [← hs2, ← hs1]; simp [setS]
  -- the parent becomes black
  obtain ⟨a1, a2, a3, a4, a5, a6, a7, a8⟩ := stCol_at fuel n s2 hv2 hrun2 "_rb_insert_fixup6$z_parent" 1
    (.L g u :: rest) (.node cl c cr) q qr (by rw [hia2]; exact hL) hN e2
  generalize hs3 : exec fuel (.stI2 "tree_nodes" (.var "_rb_insert_fixup6$z_parent") (.lit 0) (.lit 1)) s2 = s3 at a1 a2 a3 a4 a5 a6 a7 a8
  -- the grandparent red
  obtain ⟨b1, b2, b3, b4, b5, b6, b7, b8⟩ := stCol_at fuel n s3 a2 a1 "_rb_insert_fixup6$z_parent_parent" 0
    rest (.node (.node cl c cr) q qr) g u a5 hN (by rw [a3]; exact e3)
  generalize hs4 : exec fuel (.stI2 "tree_nodes" (.var "_rb_insert_fixup6$z_parent_parent") (.lit 0) (.lit 0)) s3 = s4 at b1 b2 b3 b4 b5 b6 b7 b8
  -- the rotation at the grandparent
  obtain ⟨c1, c2, c3, c4, c5, c6, c7, c8⟩ := rrotCall_at_path ren10 (rotRen_inj _ _ _) "_rb_insert_fixup6$root"
    "_rb_insert_fixup6$z_parent_parent" (by decide) s4 fuel n b2 b1 rest (.node cl c cr) q qr g u b5 hN
    (by rw [b3, a3]; exact e3)
  have hr : r = exec fuel rrot10 s4 := by
    simp only [r, case3]
    rw [exec_seq_run _ _ _ _ (by rw [h1, ← hs1]; exact hrun), h1, exec_seq_run _ _ _ _ (by rw [h2]; exact hrun2), h2,
      exec_seq_run _ _ _ _ (by rw [hs3]; exact a1), hs3, exec_seq_run _ _ _ _ (by rw [hs4]; exact b1), hs4]
  have hfr := exec_frame fuel rrot10 s4
  rw [← hr] at hfr
  rw [show exec fuel (rotCall Gen.IL.vsRightRotate.body ren10 "y" "_rb_insert_fixup6$root"
    "_rb_insert_fixup6$z_parent_parent") s4 = r from hr.symm] at c1 c2 c3 c5 c6 c7 c8
  have hd1 : decide ((1 : Int) = 0) = false := by decide
  have hd0 : decide ((0 : Int) = 0) = true := by decide
  rw [hd1] at a6
  rw [hd0] at b6
  have hqg : q ≠ g := by
    obtain ⟨_, _, hng⟩ := unplug rest (.node (.node (.node cl c cr) q qr) g u) hL hN
    have := (Sh.ptr_ne_of_nodup _ _ _ hng).2.2.2.2.1
    intro e; exact this (by simp [Sh.idxs, e])
  refine ⟨c1, c2, c3, c4, ?_, ?_, ?_, ?_, ?_, ?_⟩
  · have a6' : absT (s3.fa "tree_vals") (s3.ia "tree_nodes") (plug (.node (.node (.node cl c cr) q qr) g u) rest) =
        atPath (setCol false) (pathOf rest ++ [Dir.L]) T := by
      have := a6; rw [hfa2, hia2] at this; exact this
    refine c5.trans ?_
    rw [b6, a6', b4, a4, hfa2]
  · rw [hfr.ienv _ (by decide), b3, a3]; exact e4
  · rw [c6, b3, a3, e5, hroot]
    cases rest with
    | nil => simp [ctxPar, plug, Sh.ptr]
    | cons f rs =>
      have : ¬ (ctxPar (f :: rs) = -1) := by rw [ctxPar_eq_neg_one]; simp
      rw [if_neg this]
      exact plug_ptr_cons f rs _ _
  · rw [c7, b4, a4, hfa2]
  · rw [c8, b7 _ 0 (by decide) (by omega), a7 _ 0 (by decide) (by omega), hia2]
  · rw [c8, b7 _ 0 (by decide) (by simp [hqg]), a8]

/-! ### inner child ("case 2"), `z` the right child of its parent, the parent the left child of the grandparent -/

theorem inL_spec (fuel n : Nat) (s : State F) (hv : VS s n) (hrun : s.ctl = .run)
    (zl : Sh) (z : Nat) (zr : Sh) (pl : Sh) (p : Nat) (g : Nat) (u : Sh) (rest : Ctx)
    (hL : Linked (s.ia "tree_nodes") n (-1) (plug (.node zl z zr) (.R pl p :: .L g u :: rest)))
    (hN : (plug (.node zl z zr) (.R pl p :: .L g u :: rest)).idxs.Nodup)
    (hzp : s.ienv "_rb_insert_fixup6$z_parent" = p)
    (hroot : s.ienv "_rb_insert_fixup6$root" = (plug (.node zl z zr) (.R pl p :: .L g u :: rest)).ptr) :
    let r := exec fuel (case2 lrot7) s
    let T := absT (s.fa "tree_vals") (s.ia "tree_nodes") (plug (.node zl z zr) (.R pl p :: .L g u :: rest))
    let S : Fv F := vAt (s.fa "tree_vals") (n - 1) 7
    r.ctl = .run ∧ VS r n ∧
      Linked (r.ia "tree_nodes") n (-1) (plug (.node pl p zl) (.L z zr :: .L g u :: rest)) ∧
      (plug (.node pl p zl) (.L z zr :: .L g u :: rest)).idxs.Nodup ∧
      absT (r.fa "tree_vals") (r.ia "tree_nodes") (plug (.node pl p zl) (.L z zr :: .L g u :: rest)) =
        atPath (rotL S) (pathOf rest ++ [Dir.L]) T ∧
      r.ienv "_rb_insert_fixup6$z" = p ∧
      r.ienv "_rb_insert_fixup6$root" = (plug (.node pl p zl) (.L z zr :: .L g u :: rest)).ptr ∧
      vAt (r.fa "tree_vals") (n - 1) 7 = S ∧
      (∀ i, nAt (r.ia "tree_nodes") i 0 = nAt (s.ia "tree_nodes") i 0) := by
  intro r T S
  have h1 : exec fuel (.setI "_rb_insert_fixup6$z" (.var "_rb_insert_fixup6$z_parent")) s =
      { s with ienv := setS s.ienv "_rb_insert_fixup6$z" (p : Int) } := by
    rw [exec_setI _ _ _ _ (IE.ok_var _ _), IE.eval_var, hzp]
  generalize hs1 : ({ s with ienv := setS s.ienv "_rb_insert_fixup6$z" (p : Int) } : State F) = s1 at h1
  have hv1 : VS s1 n := by rw [← hs1]; exact hv.of_eq rfl rfl rfl
  have hrun1 : s1.ctl = .run := by rw [← hs1]; exact hrun
  have hia1 : s1.ia = s.ia := by rw [← hs1]
  have hfa1 : s1.fa = s.fa := by rw [← hs1]
  have e1 : s1.ienv "_rb_insert_fixup6$z" = p := by rw [← hs1]; simp [setS]
  have e2 : s1.ienv "_rb_insert_fixup6$root" = s.ienv "_rb_insert_fixup6$root" := by rw [← hs1]; simp [setS]
  obtain ⟨c1, c2, c3, c4, c5, c6, c7, c8⟩ := lrotCall_at_path ren7 (rotRen_inj _ _ _) "_rb_insert_fixup6$root"
    "_rb_insert_fixup6$z" (by decide) s1 fuel n hv1 hrun1 (.L g u :: rest) pl p zl z zr (by rw [hia1]; exact hL) hN e1
  have hr : r = exec fuel lrot7 s1 := by
    simp only [r, case2]
    rw [exec_seq_run _ _ _ _ (by rw [h1]; exact hrun1), h1]
  have hfr := exec_frame fuel lrot7 s1
  rw [← hr] at hfr
  rw [show exec fuel (rotCall Gen.IL.vsLeftRotate.body ren7 "x" "_rb_insert_fixup6$root" "_rb_insert_fixup6$z") s1 = r
    from hr.symm] at c1 c2 c3 c5 c6 c7 c8
  refine ⟨c1, c2, c3, c4, ?_, ?_, ?_, ?_, ?_⟩
  · have := c5; rw [hfa1, hia1] at this; exact this
  · rw [hfr.ienv _ (by decide)]; exact e1
  · rw [c6, e2, hroot]
    have : ¬ (ctxPar (Fr.L g u :: rest) = -1) := by rw [ctxPar_eq_neg_one]; simp
    rw [if_neg this]
    exact plug_ptr_cons (Fr.L g u) rest (.node pl p (.node zl z zr)) (.node (.node pl p zl) z zr)
  · rw [c7, hfa1]
  · intro i; rw [c8, hia1]

/-! ### the mirror images: `z.parent` the right child of the grandparent -/

/-- `z.parent` is the right child `bi` of the grandparent `g`, the uncle `ai` its left child -/
theorem recolR_spec (fuel n : Nat) (s : State F) (hv : VS s n) (hrun : s.ctl = .run)
    (al : Sh) (ai : Nat) (ar : Sh) (g : Nat) (bl : Sh) (bi : Nat) (br : Sh) (rest : Ctx)
    (hL : Linked (s.ia "tree_nodes") n (-1) (plug (.node (.node al ai ar) g (.node bl bi br)) rest))
    (hN : (plug (.node (.node al ai ar) g (.node bl bi br)) rest).idxs.Nodup)
    (hzp : s.ienv "_rb_insert_fixup6$z_parent" = bi) (hy : s.ienv "_rb_insert_fixup6$y" = ai)
    (hzpp : s.ienv "_rb_insert_fixup6$z_parent_parent" = g) :
    let r := exec fuel recolBlock s
    let T := absT (s.fa "tree_vals") (s.ia "tree_nodes") (plug (.node (.node al ai ar) g (.node bl bi br)) rest)
    r.ctl = .run ∧ VS r n ∧ r.fa = s.fa ∧ r.ienv = setS s.ienv "_rb_insert_fixup6$z" (g : Int) ∧
      Linked (r.ia "tree_nodes") n (-1) (plug (.node (.node al ai ar) g (.node bl bi br)) rest) ∧
      absT (r.fa "tree_vals") (r.ia "tree_nodes") (plug (.node (.node al ai ar) g (.node bl bi br)) rest) =
        atPath (setCol true) (pathOf rest) (atPath (setCol false) (pathOf rest ++ [Dir.L])
          (atPath (setCol false) (pathOf rest ++ [Dir.R]) T)) ∧
      (∀ j k, 0 < k → k < 4 → nAt (r.ia "tree_nodes") j k = nAt (s.ia "tree_nodes") j k) ∧
      nAt (r.ia "tree_nodes") (n - 1) 0 = nAt (s.ia "tree_nodes") (n - 1) 0 := by
  intro r T
  have hai : ai + 1 < n := Linked.idx_lt hL ai (mem_plug _ rest _ (by simp [Sh.idxs]))
  have hbi : bi + 1 < n := Linked.idx_lt hL bi (mem_plug _ rest _ (by simp [Sh.idxs]))
  have hg : g + 1 < n := Linked.idx_lt hL g (mem_plug _ rest _ (by simp [Sh.idxs]))
  obtain ⟨a1, a2, a3, a4, a5, a6, a7, _⟩ := stCol_at fuel n s hv hrun "_rb_insert_fixup6$z_parent" 1
    (.R (.node al ai ar) g :: rest) bl bi br hL hN hzp
  generalize hs1 : exec fuel (.stI2 "tree_nodes" (.var "_rb_insert_fixup6$z_parent") (.lit 0) (.lit 1)) s = s1 at a1 a2 a3 a4 a5 a6 a7
  obtain ⟨b1, b2, b3, b4, b5, b6, b7, _⟩ := stCol_at fuel n s1 a2 a1 "_rb_insert_fixup6$y" 1
    (.L g (.node bl bi br) :: rest) al ai ar a5 hN (by rw [a3]; exact hy)
  generalize hs2 : exec fuel (.stI2 "tree_nodes" (.var "_rb_insert_fixup6$y") (.lit 0) (.lit 1)) s1 = s2 at b1 b2 b3 b4 b5 b6 b7
  obtain ⟨c1, c2, c3, c4, c5, c6, c7, _⟩ := stCol_at fuel n s2 b2 b1 "_rb_insert_fixup6$z_parent_parent" 0
    rest (.node al ai ar) g (.node bl bi br) b5 hN (by rw [b3, a3]; exact hzpp)
  generalize hs3 : exec fuel (.stI2 "tree_nodes" (.var "_rb_insert_fixup6$z_parent_parent") (.lit 0) (.lit 0)) s2 = s3 at c1 c2 c3 c4 c5 c6 c7
  have hr : r = { s3 with ienv := setS s3.ienv "_rb_insert_fixup6$z" (g : Int) } := by
    simp only [r, recolBlock]
    rw [exec_seq_run _ _ _ _ (by rw [hs1]; exact a1), hs1, exec_seq_run _ _ _ _ (by rw [hs2]; exact b1), hs2,
      exec_seq_run _ _ _ _ (by rw [hs3]; exact c1), hs3, exec_setI _ _ _ _ (IE.ok_var _ _), IE.eval_var, c3, b3, a3, hzpp]
  have hd1 : decide ((1 : Int) = 0) = false := by decide
  have hd0 : decide ((0 : Int) = 0) = true := by decide
  rw [hd1] at a6 b6
  rw [hd0] at c6
  rw [hr]
  refine ⟨c1, ⟨c2.shpV, c2.shpN, c2.lenV, c2.lenN, c2.pos⟩, by show s3.fa = s.fa; rw [c4, b4, a4],
    by show setS s3.ienv _ _ = _; rw [c3, b3, a3], c5, ?_, ?_, ?_⟩
  · show absT (s3.fa "tree_vals") (s3.ia "tree_nodes") _ = _
    have a6' : absT (s1.fa "tree_vals") (s1.ia "tree_nodes") (plug (.node (.node al ai ar) g (.node bl bi br)) rest) =
        atPath (setCol false) (pathOf rest ++ [Dir.R]) T := a6
    have b6' : absT (s2.fa "tree_vals") (s2.ia "tree_nodes") (plug (.node (.node al ai ar) g (.node bl bi br)) rest) =
        atPath (setCol false) (pathOf rest ++ [Dir.L])
          (absT (s1.fa "tree_vals") (s1.ia "tree_nodes") (plug (.node (.node al ai ar) g (.node bl bi br)) rest)) := b6
    rw [c6, b6', a6']
  · intro j k hk0 hk
    show nAt (s3.ia "tree_nodes") j k = _
    rw [c7 j k hk (by omega), b7 j k hk (by omega), a7 j k hk (by omega)]
  · show nAt (s3.ia "tree_nodes") (n - 1) 0 = _
    rw [c7 _ 0 (by decide) (by omega), b7 _ 0 (by decide) (by omega), a7 _ 0 (by decide) (by omega)]

theorem outR_spec (fuel n : Nat) (s : State F) (hv : VS s n) (hrun : s.ctl = .run)
    (cl : Sh) (c : Nat) (cr : Sh) (ql : Sh) (q : Nat) (u : Sh) (g : Nat) (rest : Ctx)
    (hL : Linked (s.ia "tree_nodes") n (-1) (plug (.node cl c cr) (.R ql q :: .R u g :: rest)))
    (hN : (plug (.node cl c cr) (.R ql q :: .R u g :: rest)).idxs.Nodup)
    (hz : s.ienv "_rb_insert_fixup6$z" = c)
    (hroot : s.ienv "_rb_insert_fixup6$root" = (plug (.node cl c cr) (.R ql q :: .R u g :: rest)).ptr) :
    let r := exec fuel (case3 lrot16) s
    let T := absT (s.fa "tree_vals") (s.ia "tree_nodes") (plug (.node cl c cr) (.R ql q :: .R u g :: rest))
    let S : Fv F := vAt (s.fa "tree_vals") (n - 1) 7
    r.ctl = .run ∧ VS r n ∧
      Linked (r.ia "tree_nodes") n (-1) (plug (.node cl c cr) (.R (.node u g ql) q :: rest)) ∧
      (plug (.node cl c cr) (.R (.node u g ql) q :: rest)).idxs.Nodup ∧
      absT (r.fa "tree_vals") (r.ia "tree_nodes") (plug (.node cl c cr) (.R (.node u g ql) q :: rest)) =
        atPath (rotL S) (pathOf rest) (atPath (setCol true) (pathOf rest)
          (atPath (setCol false) (pathOf rest ++ [Dir.R]) T)) ∧
      r.ienv "_rb_insert_fixup6$z" = c ∧
      r.ienv "_rb_insert_fixup6$root" = (plug (.node cl c cr) (.R (.node u g ql) q :: rest)).ptr ∧
      vAt (r.fa "tree_vals") (n - 1) 7 = S ∧
      nAt (r.ia "tree_nodes") (n - 1) 0 = nAt (s.ia "tree_nodes") (n - 1) 0 ∧
      nAt (r.ia "tree_nodes") q 0 = 1 := by
  intro r T S
  obtain ⟨hlc, hcl, _⟩ := unplug _ _ hL hN
  obtain ⟨hq, hq1, hq2, _, hq3, hlql, hcg⟩ := hcl
  obtain ⟨hg, hg1, hg2, _, hg3, hlu, hcr⟩ := hcg
  have hc3 : nAt (s.ia "tree_nodes") c 3 = q := hlc.2.2.2.1
  have hcn : c + 1 < n := hlc.1
  have hq3' : nAt (s.ia "tree_nodes") q 3 = g := hq3
  have h1 := exec_ldN fuel n s hv.shpN "_rb_insert_fixup6$z_parent" "_rb_insert_fixup6$z" 3 (by decide)
    (by rw [hz]; exact inRange_ptr n _ (by omega) hv.pos) q (by rw [hz, rowOf_nat]; exact hc3)
  generalize hs1 : ({ s with ienv := setS s.ienv "_rb_insert_fixup6$z_parent" (q : Int) } : State F) = s1 at h1
  have hv1 : VS s1 n := by rw [← hs1]; exact hv.of_eq rfl rfl rfl
  have e1 : s1.ienv "_rb_insert_fixup6$z_parent" = q := by rw [← hs1]; simp [setS]
  have hia1 : s1.ia = s.ia := by rw [← hs1]
  have h2 := exec_ldN fuel n s1 hv1.shpN "_rb_insert_fixup6$z_parent_parent" "_rb_insert_fixup6$z_parent" 3 (by decide)
    (by rw [e1]; exact inRange_ptr n _ (by omega) hv.pos) g (by rw [e1, rowOf_nat, hia1]; exact hq3')
  generalize hs2 : ({ s1 with ienv := setS s1.ienv "_rb_insert_fixup6$z_parent_parent" (g : Int) } : State F) = s2 at h2
  have hv2 : VS s2 n := by rw [← hs2]; exact hv1.of_eq rfl rfl rfl
  have hrun2 : s2.ctl = .run := by rw [← hs2, ← hs1]; exact hrun
  have hia2 : s2.ia = s.ia := by rw [← hs2]; exact hia1
  have hfa2 : s2.fa = s.fa := by rw [← hs2, ← hs1]
  have e2 : s2.ienv "_rb_insert_fixup6$z_parent" = q := by rw [← hs2]; simp [setS, e1]
  have e3 : s2.ienv "_rb_insert_fixup6$z_parent_parent" = g := by rw [← hs2]; simp [setS]
  have e4 : s2.ienv "_rb_insert_fixup6$z" = c := by rw [← hs2, ← hs1]; simp [setS, hz]
  have e5 : s2.ienv "_rb_insert_fixup6$root" = s.ienv "_rb_insert_fixup6$root" := by rw [← hs2, ← hs1]; simp [setS]
  obtain ⟨a1, a2, a3, a4, a5, a6, a7, a8⟩ := stCol_at fuel n s2 hv2 hrun2 "_rb_insert_fixup6$z_parent" 1
    (.R u g :: rest) ql q (.node cl c cr) (by rw [hia2]; exact hL) hN e2
  generalize hs3 : exec fuel (.stI2 "tree_nodes" (.var "_rb_insert_fixup6$z_parent") (.lit 0) (.lit 1)) s2 = s3 at a1 a2 a3 a4 a5 a6 a7 a8
  obtain ⟨b1, b2, b3, b4, b5, b6, b7, b8⟩ := stCol_at fuel n s3 a2 a1 "_rb_insert_fixup6$z_parent_parent" 0
    rest u g (.node ql q (.node cl c cr)) a5 hN (by rw [a3]; exact e3)
  generalize hs4 : exec fuel (.stI2 "tree_nodes" (.var "_rb_insert_fixup6$z_parent_parent") (.lit 0) (.lit 0)) s3 = s4 at b1 b2 b3 b4 b5 b6 b7 b8
  obtain ⟨c1, c2, c3, c4, c5, c6, c7, c8⟩ := lrotCall_at_path ren16 (rotRen_inj _ _ _) "_rb_insert_fixup6$root"
    "_rb_insert_fixup6$z_parent_parent" (by decide) s4 fuel n b2 b1 rest u g ql q (.node cl c cr) b5 hN
    (by rw [b3, a3]; exact e3)
  have hr : r = exec fuel lrot16 s4 := by
    simp only [r, case3]
    rw [exec_seq_run _ _ _ _ (by rw [h1, ← hs1]; exact hrun), h1, exec_seq_run _ _ _ _ (by rw [h2]; exact hrun2), h2,
      exec_seq_run _ _ _ _ (by rw [hs3]; exact a1), hs3, exec_seq_run _ _ _ _ (by rw [hs4]; exact b1), hs4]
  have hfr := exec_frame fuel lrot16 s4
  rw [← hr] at hfr
  rw [show exec fuel (rotCall Gen.IL.vsLeftRotate.body ren16 "x" "_rb_insert_fixup6$root"
    "_rb_insert_fixup6$z_parent_parent") s4 = r from hr.symm] at c1 c2 c3 c5 c6 c7 c8
  have hd1 : decide ((1 : Int) = 0) = false := by decide
  have hd0 : decide ((0 : Int) = 0) = true := by decide
  rw [hd1] at a6
  rw [hd0] at b6
  have hqg : q ≠ g := by
    obtain ⟨_, _, hng⟩ := unplug rest (.node u g (.node ql q (.node cl c cr))) hL hN
    have := (Sh.ptr_ne_of_nodup _ _ _ hng).2.2.2.2.2
    intro e; exact this (by simp [Sh.idxs, e])
  refine ⟨c1, c2, c3, c4, ?_, ?_, ?_, ?_, ?_, ?_⟩
  · have a6' : absT (s3.fa "tree_vals") (s3.ia "tree_nodes") (plug (.node u g (.node ql q (.node cl c cr))) rest) =
        atPath (setCol false) (pathOf rest ++ [Dir.R]) T := by
      have := a6; rw [hfa2, hia2] at this; exact this
    refine c5.trans ?_
    rw [b6, a6', b4, a4, hfa2]
  · rw [hfr.ienv _ (by decide), b3, a3]; exact e4
  · rw [c6, b3, a3, e5, hroot]
    cases rest with
    | nil => simp [ctxPar, plug, Sh.ptr]
    | cons f rs =>
      have : ¬ (ctxPar (f :: rs) = -1) := by rw [ctxPar_eq_neg_one]; simp
      rw [if_neg this]
      exact plug_ptr_cons f rs _ _
  · rw [c7, b4, a4, hfa2]
  · rw [c8, b7 _ 0 (by decide) (by omega), a7 _ 0 (by decide) (by omega), hia2]
  · rw [c8, b7 _ 0 (by decide) (by simp [hqg]), a8]

theorem inR_spec (fuel n : Nat) (s : State F) (hv : VS s n) (hrun : s.ctl = .run)
    (zl : Sh) (z : Nat) (zr : Sh) (p : Nat) (pr : Sh) (u : Sh) (g : Nat) (rest : Ctx)
    (hL : Linked (s.ia "tree_nodes") n (-1) (plug (.node zl z zr) (.L p pr :: .R u g :: rest)))
    (hN : (plug (.node zl z zr) (.L p pr :: .R u g :: rest)).idxs.Nodup)
    (hzp : s.ienv "_rb_insert_fixup6$z_parent" = p)
    (hroot : s.ienv "_rb_insert_fixup6$root" = (plug (.node zl z zr) (.L p pr :: .R u g :: rest)).ptr) :
    let r := exec fuel (case2 rrot13) s
    let T := absT (s.fa "tree_vals") (s.ia "tree_nodes") (plug (.node zl z zr) (.L p pr :: .R u g :: rest))
    let S : Fv F := vAt (s.fa "tree_vals") (n - 1) 7
    r.ctl = .run ∧ VS r n ∧
      Linked (r.ia "tree_nodes") n (-1) (plug (.node zr p pr) (.R zl z :: .R u g :: rest)) ∧
      (plug (.node zr p pr) (.R zl z :: .R u g :: rest)).idxs.Nodup ∧
      absT (r.fa "tree_vals") (r.ia "tree_nodes") (plug (.node zr p pr) (.R zl z :: .R u g :: rest)) =
        atPath (rotR S) (pathOf rest ++ [Dir.R]) T ∧
      r.ienv "_rb_insert_fixup6$z" = p ∧
      r.ienv "_rb_insert_fixup6$root" = (plug (.node zr p pr) (.R zl z :: .R u g :: rest)).ptr ∧
      vAt (r.fa "tree_vals") (n - 1) 7 = S ∧
      (∀ i, nAt (r.ia "tree_nodes") i 0 = nAt (s.ia "tree_nodes") i 0) := by
  intro r T S
  have h1 : exec fuel (.setI "_rb_insert_fixup6$z" (.var "_rb_insert_fixup6$z_parent")) s =
      { s with ienv := setS s.ienv "_rb_insert_fixup6$z" (p : Int) } := by
    rw [exec_setI _ _ _ _ (IE.ok_var _ _), IE.eval_var, hzp]
  generalize hs1 : ({ s with ienv := setS s.ienv "_rb_insert_fixup6$z" (p : Int) } : State F) = s1 at h1
  have hv1 : VS s1 n := by rw [← hs1]; exact hv.of_eq rfl rfl rfl
  have hrun1 : s1.ctl = .run := by rw [← hs1]; exact hrun
  have hia1 : s1.ia = s.ia := by rw [← hs1]
  have hfa1 : s1.fa = s.fa := by rw [← hs1]
  have e1 : s1.ienv "_rb_insert_fixup6$z" = p := by rw [← hs1]; simp [setS]
  have e2 : s1.ienv "_rb_insert_fixup6$root" = s.ienv "_rb_insert_fixup6$root" := by rw [← hs1]; simp [setS]
  obtain ⟨c1, c2, c3, c4, c5, c6, c7, c8⟩ := rrotCall_at_path ren13 (rotRen_inj _ _ _) "_rb_insert_fixup6$root"
    "_rb_insert_fixup6$z" (by decide) s1 fuel n hv1 hrun1 (.R u g :: rest) zl z zr p pr (by rw [hia1]; exact hL) hN e1
  have hr : r = exec fuel rrot13 s1 := by
    simp only [r, case2]
    rw [exec_seq_run _ _ _ _ (by rw [h1]; exact hrun1), h1]
  have hfr := exec_frame fuel rrot13 s1
  rw [← hr] at hfr
  rw [show exec fuel (rotCall Gen.IL.vsRightRotate.body ren13 "y" "_rb_insert_fixup6$root" "_rb_insert_fixup6$z") s1 = r
    from hr.symm] at c1 c2 c3 c5 c6 c7 c8
  refine ⟨c1, c2, c3, c4, ?_, ?_, ?_, ?_, ?_⟩
  · have := c5; rw [hfa1, hia1] at this; exact this
  · rw [hfr.ienv _ (by decide)]; exact e1
  · rw [c6, e2, hroot]
    have : ¬ (ctxPar (Fr.R u g :: rest) = -1) := by rw [ctxPar_eq_neg_one]; simp
    rw [if_neg this]
    exact plug_ptr_cons (Fr.R u g) rest (.node (.node zl z zr) p pr) (.node zl z (.node zr p pr))
  · rw [c7, hfa1]
  · intro i; rw [c8, hia1]

end XrsVerif.ILVs
