import XrsVerif.Proofs.ILAStarSearchDefs
/-
  Proofs/ILAStarSearch.lean -- the neighbour loop of the generated `_a_star_search`:
  one pass of its body (`rxBody`) is the hand model's `relax`, the whole `for y, x in zip(...)` loop (`rxLoop`) is
  `nbrs.foldl (relax e u)`.
-/
namespace XrsVerif.IL
open XrsVerif XrsVerif.AStar
variable {F : Type} [Fl F]
set_option linter.unusedSectionVars false
set_option linter.unusedVariables false
set_option linter.unusedSimpArgs false

/-- the scalars an expansion of `u` must leave alone -/
def keepI : List String := ["height", "width", "goal_py", "goal_px", "start_py", "start_px", "py", "px"]

/-- invariant of the expansion of the popped cell `u` -/
structure IterInv (e : Env F) (u : Cell) (s : State F) (mst : AStar.St F) : Prop where
  const : SrchConst e s
  abs : SrchAbs e s mst
  py : s.ienv "py" = u.1
  px : s.ienv "px" = u.2

theorem IterInv.const_frame {e : Env F} {u : Cell} {s r : State F} {mst : AStar.St F} (hinv : IterInv e u s mst)
    (hshp : r.shp = s.shp)
    (hd : r.fa "data" = s.fa "data") (hb : r.fa "barriers" = s.fa "barriers")
    (hn1 : r.ia "neighbor_ys" = s.ia "neighbor_ys") (hn2 : r.ia "neighbor_xs" = s.ia "neighbor_xs")
    (hi : ∀ x ∈ keepI, r.ienv x = s.ienv x) :
    SrchConst e r ∧ r.ienv "py" = u.1 ∧ r.ienv "px" = u.2 :=
  ⟨hinv.const.of_frame hshp hd hb hn1 hn2 (hi _ (by decide)) (hi _ (by decide)) (hi _ (by decide))
    (hi _ (by decide)) (hi _ (by decide)) (hi _ (by decide)),
   by rw [hi _ (by decide)]; exact hinv.py, by rw [hi _ (by decide)]; exact hinv.px⟩

theorem IterInv.of_frame {e : Env F} {u : Cell} {s r : State F} {mst : AStar.St F} (hinv : IterInv e u s mst)
    (hshp : r.shp = s.shp) (hia : r.ia = s.ia) (hfa : r.fa = s.fa) (hi : ∀ x ∈ keepI, r.ienv x = s.ienv x) :
    IterInv e u r mst := by
  have := hinv.const_frame hshp (by rw [hfa]) (by rw [hfa]) (by rw [hia]) (by rw [hia]) hi
  exact ⟨this.1, hinv.abs.of_eq hia hfa, this.2.1, this.2.2⟩

/-- `keep_tac`: the listed scalars are untouched by a state given as nested `setS` on other names -/
macro "keep_tac" : tactic => `(tactic|
  (intro x hx; simp only [keepI, List.mem_cons, List.not_mem_nil, or_false] at hx;
   rcases hx with hx | hx | hx | hx | hx | hx | hx | hx <;> subst hx <;>
   first | rfl | simp +zetaDelta [setS_apply, afterBody]))

theorem relax_outside (e : Env F) (u off : Cell) (mst : AStar.St F)
    (h : inside e.h e.w (u.1 + off.1, u.2 + off.2) = false) : relax e u mst off = mst := by
  simp [relax, h]

theorem relax_barrier (e : Env F) (u off : Cell) (mst : AStar.St F)
    (h : e.cross (u.1 + off.1, u.2 + off.2) = false) : relax e u mst off = mst := by
  simp only [relax, h]; split <;> simp

theorem relax_closed (e : Env F) (u off : Cell) (mst : AStar.St F)
    (h : mst.isClosed (u.1 + off.1, u.2 + off.2) = true) : relax e u mst off = mst := by
  simp only [relax, h]; split <;> (try rfl); split <;> simp

theorem relax_worse (e : Env F) (u off : Cell) (mst : AStar.St F)
    (h : (mst.isOpen (u.1 + off.1, u.2 + off.2) &&
      e.ops.lt (mst.g (u.1 + off.1, u.2 + off.2))
        (e.ops.add (mst.g u) (e.ops.step u (u.1 + off.1, u.2 + off.2)))) = true) :
    relax e u mst off = mst := by
  simp only [relax, h]; split <;> (try rfl); split <;> (try rfl); split <;> simp

theorem relax_update (e : Env F) (u off : Cell) (mst : AStar.St F)
    (h1 : inside e.h e.w (u.1 + off.1, u.2 + off.2) = true) (h2 : e.cross (u.1 + off.1, u.2 + off.2) = true)
    (h3 : mst.isClosed (u.1 + off.1, u.2 + off.2) = false)
    (h4 : (mst.isOpen (u.1 + off.1, u.2 + off.2) &&
      e.ops.lt (mst.g (u.1 + off.1, u.2 + off.2))
        (e.ops.add (mst.g u) (e.ops.step u (u.1 + off.1, u.2 + off.2)))) = false) :
    relax e u mst off = relaxedSt mst u (u.1 + off.1, u.2 + off.2)
      (e.ops.add (mst.g u) (e.ops.step u (u.1 + off.1, u.2 + off.2)))
      (e.ops.add (e.ops.add (mst.g u) (e.ops.step u (u.1 + off.1, u.2 + off.2)))
        (e.ops.heur (u.1 + off.1, u.2 + off.2) e.goal)) := by
  simp [relax, h1, h2, h3, h4, relaxedSt]

theorem nbrs_get {e : Env F} {s : State F} (hc : SrchConst e s) (k : Nat) (hk : k < e.nbrs.length) :
    k < (s.ia "neighbor_ys").length ∧ k < (s.ia "neighbor_xs").length ∧
    e.nbrs[k] = ((s.ia "neighbor_ys").getD k 0, (s.ia "neighbor_xs").getD k 0) := by
  have hn := hc.nbrs
  have hl : e.nbrs.length = min (s.ia "neighbor_ys").length (s.ia "neighbor_xs").length := by
    rw [hn, List.length_zip]
  have h1 : k < (s.ia "neighbor_ys").length := by omega
  have h2 : k < (s.ia "neighbor_xs").length := by omega
  refine ⟨h1, h2, ?_⟩
  have : e.nbrs[k] = ((s.ia "neighbor_ys").zip (s.ia "neighbor_xs"))[k]'(by rw [← hn]; exact hk) := by
    congr 1
  rw [this, List.getElem_zip]
  simp [List.getD_eq_getElem?_getD, h1, h2]

/-- **one pass of the neighbour loop is `relax`** -/
theorem rx_body (e : Env F) (u : Cell) (hu : inside e.h e.w u = true) (mst : AStar.St F) (st : State F)
    (hst : st.ctl = .run) (hinv : IterInv e u st mst) (fuel : Nat) (k : Nat) (hk : k < e.nbrs.length)
    (hkv : st.ienv "zip1$k" = (k : Int)) :
    (afterBody (exec fuel rxBody st)).ctl = .run ∧
      IterInv e u (afterBody (exec fuel rxBody st)) (relax e u mst e.nbrs[k]) ∧
      (afterBody (exec fuel rxBody st)).fa "path_img" = st.fa "path_img" := by
  have hc := hinv.const
  have ha := hinv.abs
  obtain ⟨hk1, hk2, hoff⟩ := nbrs_get hc k hk
  generalize e.nbrs[k] = off at hoff ⊢
  have ho1 : off.1 = (st.ia "neighbor_ys").getD k 0 := by rw [hoff]
  have ho2 : off.2 = (st.ia "neighbor_xs").getD k 0 := by rw [hoff]
  obtain ⟨v, hv⟩ : ∃ v : Cell, v = (u.1 + off.1, u.2 + off.2) := ⟨_, rfl⟩
  have r1 := inRange_of_lt k _ hk1
  have r2 := inRange_of_lt k _ hk2
  let st1 : State F :=
    { st with ienv := setS (setS (setS (setS st.ienv "y" off.1) "x" off.2) "neighbor_y" v.1) "neighbor_x" v.2 }
  have h1 : exec fuel rxBody st = exec fuel rx1 st1 := by
    ilsimp [rxBody, st1, hst, hc.s_nys, hc.s_nxs, r1, r2, off1_nat, hkv, hinv.py, hinv.px, ← ho1, ← ho2, hv]
  rw [h1]
  by_cases hin : inside e.h e.w v = true
  swap
  · have h2 : exec fuel rx1 st1 = { st1 with ctl := .cont } := by
      have hb : ((e.h : Int) - 1 < v.1 ∨ v.1 < 0 ∨ (e.w : Int) - 1 < v.2 ∨ v.2 < 0) := by
        rw [inside_iff] at hin; omega
      ilsimp [rx1, st1, hst, hc.height, hc.width, hb]
    rw [h2, relax_outside e u off mst (by rw [← hv]; simpa using hin)]
    exact ⟨rfl, hinv.of_frame rfl rfl rfl (by keep_tac), rfl⟩
  · have hin' := (inside_iff e.h e.w v).1 hin
    have hnb : ¬ ((e.h : Int) - 1 < v.1 ∨ v.1 < 0 ∨ (e.w : Int) - 1 < v.2 ∨ v.2 < 0) := by omega
    have rv1 : inRange v.1 e.h = true := inRange_inside hin'.1 hin'.2.1
    have rv2 : inRange v.2 e.w = true := inRange_inside hin'.2.2.1 hin'.2.2.2
    have hov := off2_inside e.h e.w v hin
    have hcr := hc.cross v hin
    generalize hdv : (st.fa "data").getD (cidx e.w v) Fl.nan = dv at hcr
    let st2 : State F := { st1 with fenv := setS st1.fenv "_is_not_crossable6$cell_value" dv }
    obtain ⟨z, hz⟩ := nc_scope "_is_not_crossable6$cell_value" "_is_not_crossable6$i" "_is_not_crossable6$ret0"
      (by decide) fuel st2 hst hc.s_bars
    let st3 : State F :=
      { st2 with
        benv := setS st2.benv "_is_not_crossable6$ret0"
          (notCross (st2.fenv "_is_not_crossable6$cell_value") (st2.fa "barriers")),
        fenv := setS st2.fenv "_is_not_crossable6$i" z }
    have hz' : exec fuel (.scope (ncSt "_is_not_crossable6$cell_value" "_is_not_crossable6$i"
      "_is_not_crossable6$ret0")) st2 = st3 := hz
    have h2 : exec fuel rx1 st1 = exec fuel rx2 st3 := by
      rw [rx1, exec_seq_to (s1 := st1) (by ilsimp [st1, hc.height, hc.width, hnb]) hst,
        exec_seq_to (s1 := st2) (by ilsimp [st1, st2, hc.s_data, rv1, rv2, hov, hdv]) hst,
        exec_seq_to hz' hst]
    rw [h2]
    by_cases hbar : notCross dv (st.fa "barriers") = true
    · rw [relax_barrier e u off mst (by rw [← hv, hcr, hbar]; rfl)]
      ilsimp [rx2, st3, st2, st1, hbar, afterBody, hst]
      exact hinv.of_frame rfl rfl rfl (by keep_tac)
    · have hcross : e.cross v = true := by rw [hcr]; simp [hbar]
      by_cases hcl : (st.ia "is_closed").getD (cidx e.w v) 0 = 0
      swap
      · rw [relax_closed e u off mst (by rw [← hv, ha.isClosed v hin]; simpa using hcl)]
        ilsimp [rx2, st3, st2, st1, hbar, hcl, afterBody, hst, hc.s_closed, rv1, rv2, hov]
        exact hinv.of_frame rfl rfl rfl (by keep_tac)
      · have hu' := (inside_iff e.h e.w u).1 hu
        have ru1 : inRange u.1 e.h = true := inRange_inside hu'.1 hu'.2.1
        have ru2 : inRange u.2 e.w = true := inRange_inside hu'.2.2.1 hu'.2.2.2
        have hou := off2_inside e.h e.w u hu
        obtain ⟨gu, hgu⟩ : ∃ gu : F, gu = (st.fa "d_from_start").getD (cidx e.w u) Fl.nan := ⟨_, rfl⟩
        obtain ⟨dval, hdval⟩ : ∃ dval : F, dval = Fl.add gu (flDist u v) := ⟨_, rfl⟩
        let st4 : State F :=
          { st3 with
            ienv := setS (setS (setS (setS st3.ienv "_distance7$x1" u.2) "_distance7$y1" u.1)
              "_distance7$x2" v.2) "_distance7$y2" v.1,
            fenv := setS (setS st3.fenv "_distance7$ret0" (flDist u v)) "d" dval }
        have h3 : exec fuel rx2 st3 = exec fuel rx4 st4 := by
          ilsimp [rx2, rx3, st4, st3, st2, st1, hbar, hcl, hst, hc.s_closed, hc.s_g, rv1, rv2, hov, ru1, ru2, hou,
            hinv.py, hinv.px, flDist, sqDist, hdval, hgu]
        rw [h3]
        have h4 : exec fuel rx4 st4 =
            if (decide ((st.ia "is_open").getD (cidx e.w v) 0 ≠ 0) &&
                Fl.lt ((st.fa "d_from_start").getD (cidx e.w v) Fl.nan) dval) = true
            then { st4 with ctl := .cont } else exec fuel rx5 st4 := by
          by_cases ho : (st.ia "is_open").getD (cidx e.w v) 0 = 0
          · ilsimp [rx4, st4, st3, st2, st1, hst, hc.s_open, hc.s_g, rv1, rv2, hov, ho]
          · by_cases hl : Fl.lt ((st.fa "d_from_start").getD (cidx e.w v) Fl.nan) dval = true
            · ilsimp [rx4, st4, st3, st2, st1, hst, hc.s_open, hc.s_g, rv1, rv2, hov, ho, hl]
            · ilsimp [rx4, st4, st3, st2, st1, hst, hc.s_open, hc.s_g, rv1, rv2, hov, ho, hl]
        rw [h4]
        have hmodel : (mst.isOpen (u.1 + off.1, u.2 + off.2) &&
            e.ops.lt (mst.g (u.1 + off.1, u.2 + off.2))
              (e.ops.add (mst.g u) (e.ops.step u (u.1 + off.1, u.2 + off.2)))) =
            (decide ((st.ia "is_open").getD (cidx e.w v) 0 ≠ 0) &&
                Fl.lt ((st.fa "d_from_start").getD (cidx e.w v) Fl.nan) dval) := by
          rw [← hv, ha.isOpen v hin, ha.g v hin, ha.g u hu, hc.ops, hdval, hgu]; rfl
        by_cases hw : (decide ((st.ia "is_open").getD (cidx e.w v) 0 ≠ 0) &&
                Fl.lt ((st.fa "d_from_start").getD (cidx e.w v) Fl.nan) dval) = true
        · rw [if_pos hw, relax_worse e u off mst (by rw [hmodel]; exact hw)]
          exact ⟨rfl, hinv.of_frame rfl rfl rfl (by keep_tac), rfl⟩
        · rw [if_neg hw]
          have hlt : cidx e.w v < (st.fa "d_from_start").length := by rw [ha.l_g]; exact cidx_lt _ _ _ hin
          have hrel := relax_update e u off mst (by rw [← hv]; exact hin) (by rw [← hv]; exact hcross)
            (by rw [← hv, ha.isClosed v hin]; simpa using hcl) (by rw [hmodel]; simpa using hw)
          rw [← hv, ha.g u hu, hc.ops] at hrel
          simp only [flOps] at hrel
          rw [← hgu, ← hdval] at hrel
          rw [hrel]
          ilsimp [rx5, st4, st3, st2, st1, hst, hc.s_open, hc.s_g, hc.s_f, hc.s_py, hc.s_px, rv1, rv2, hov, hc.gy,
            hc.gx, getD_set_same _ _ _ _ hlt, afterBody, hinv.py, hinv.px]
          refine ⟨(hinv.const_frame ?_ ?_ ?_ ?_ ?_ ?_).1,
            ha.relaxed u v hu hin hc.start_in dval (Fl.add dval (flDist v e.goal)) ?_ ?_ ?_ ?_ ?_ ?_, ?_, ?_⟩
          all_goals first
            | rfl
            | keep_tac
            | simp [setS_apply, flDist, sqDist, hinv.py, hinv.px]

/-- **the neighbour loop `for y, x in zip(neighbor_ys, neighbor_xs)` is `nbrs.foldl (relax e u)`** -/
theorem rx_loop (e : Env F) (u : Cell) (hu : inside e.h e.w u = true) (mst : AStar.St F) (st : State F)
    (hst : st.ctl = .run) (hinv : IterInv e u st mst) (fuel : Nat) :
    (exec fuel rxLoop st).ctl = .run ∧ IterInv e u (exec fuel rxLoop st) (e.nbrs.foldl (relax e u) mst) ∧
      (exec fuel rxLoop st).fa "path_img" = st.fa "path_img" := by
  have hc := hinv.const
  have hlen : e.nbrs.length = min (st.ia "neighbor_ys").length (st.ia "neighbor_xs").length := by
    rw [hc.nbrs, List.length_zip]
  have key := forRange_up "zip1$k" (.bin .min (.dim "neighbor_ys" 0) (.dim "neighbor_xs" 0)) rxBody e.nbrs.length fuel
    st hst (by simp [IE.ok, hc.s_nys, hc.s_nxs])
    (by
      simp only [IE.eval, IOp.eval, hc.s_nys, hc.s_nxs, getD_single_0, hlen]
      split <;> omega)
    (fun k st' => IterInv e u st' ((e.nbrs.take k).foldl (relax e u) mst) ∧
      st'.fa "path_img" = st.fa "path_img")
    (by simpa using hinv)
    (fun k hk st' hst' ⟨hinv', hpath'⟩ => by
      have hb := rx_body e u hu _ { st' with ienv := setS st'.ienv "zip1$k" (k : Int) } hst'
        (hinv'.of_frame rfl rfl rfl (by keep_tac)) fuel k hk (by simp)
      rw [List.take_succ_eq_append_getElem hk, List.foldl_append]
      exact ⟨hb.1, hb.2.1, hb.2.2.trans hpath'⟩)
  rw [List.take_length] at key
  exact key

end XrsVerif.IL
