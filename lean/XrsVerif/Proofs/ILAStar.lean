import XrsVerif.Proofs.ILangAstar
import XrsVerif.Gen.IL
/-
  Proofs/ILAStar.lean -- refinement: the programs generated (layer T3, Gen/IL.lean) from the helper functions of
  xrspatial/pathfinding.py compute the hand model of Model/AStar.lean.

    `Gen.IL.isNotCrossable`  = `notCross`           (NaN, or `==` to a listed barrier value)
    `Gen.IL.isInside`        = `AStar.inside`
    `Gen.IL.minCostPixelId`  = `AStar.minCostOpen`  (first minimum in row-major order below the `(h+w)^2` bound)

  Every block lemma is stated for a renamed copy of the function body (`ncSt cv iv rv`, `mcSt q`), so that it
  applies both to the stand-alone program and to the copies the translator inlines into `_find_nearest_pixel`
  and `_a_star_search`; the `*_body` theorems (`rfl`) tie the parametrised text to `Gen.IL.*`.
  Generic in the number type `[Fl F]`: only comparisons and NaN tests are used.
-/
namespace XrsVerif.IL
open XrsVerif XrsVerif.AStar
variable {F : Type} [Fl F]
set_option linter.unusedSectionVars false
set_option linter.unusedVariables false
set_option linter.unusedSimpArgs false

/-! ### `_is_not_crossable` -/

/-- `_is_not_crossable(v, barriers)` -/
def notCross (v : F) (bars : List F) : Bool := Fl.isnan v || bars.any (fun b => Fl.eq v b)

def ncLoopBody (cv iv rv : String) : St :=
  .ite (.cmpF .eq (.var cv) (.var iv)) (.seq (.setB rv .tt) .ret) .skip

/-- the body of `_is_not_crossable` with its locals named `cv` (cell value), `iv` (loop variable), `rv` (result) -/
def ncSt (cv iv rv : String) : St :=
  .seq (.ite (.isnan (.var cv)) (.seq (.setB rv .tt) .ret) .skip)
  (.seq (.forIn iv "barriers" (ncLoopBody cv iv rv))
  (.seq (.setB rv .ff) .ret))

theorem nc_loop (cv iv rv : String) (hne : iv ≠ cv) (fuel : Nat) (bars : List F) (s : State F) (hs : s.ctl = .run) :
    ∃ x, loopOver (fun st y => exec fuel (ncLoopBody cv iv rv) { st with fenv := setS st.fenv iv y }) bars s =
      if bars.any (fun b => Fl.eq (s.fenv cv) b) then
        { s with ctl := .ret, benv := setS s.benv rv true, fenv := setS s.fenv iv x }
      else { s with fenv := setS s.fenv iv x } := by
  induction bars generalizing s with
  | nil => exact ⟨s.fenv iv, by cases s; simp_all [setS_self]⟩
  | cons b bs ih =>
    rw [loopOver_cons _ _ _ _ hs]
    by_cases hb : Fl.eq (s.fenv cv) b = true
    · refine ⟨b, ?_⟩
      ilsimp [ncLoopBody, hne.symm, hb, hs, afterBody, afterLoop]
    · obtain ⟨x, hx⟩ := ih { s with fenv := setS s.fenv iv b } hs
      refine ⟨x, ?_⟩
      ilsimp [ncLoopBody, hne.symm, hb, hs, afterBody, setS_setS] at hx ⊢
      rw [hx]

theorem nc_exec (cv iv rv : String) (hne : iv ≠ cv) (fuel : Nat) (s : State F) (hs : s.ctl = .run)
    (hb : (s.shp "barriers").length = 1) :
    ∃ x, exec fuel (ncSt cv iv rv) s =
      { s with ctl := .ret, benv := setS s.benv rv (notCross (s.fenv cv) (s.fa "barriers")),
               fenv := setS s.fenv iv x } := by
  by_cases hn : Fl.isnan (s.fenv cv) = true
  · exact ⟨s.fenv iv, by simp [ncSt, exec, BE.ok, FE.ok, BE.eval, FE.eval, hn, hs, notCross, setS_self]⟩
  · obtain ⟨x, hx⟩ := nc_loop cv iv rv hne fuel (s.fa "barriers") s hs
    refine ⟨x, ?_⟩
    by_cases ha : (s.fa "barriers").any (fun b => Fl.eq (s.fenv cv) b) = true
    · rw [if_pos ha] at hx
      simp [ncSt, exec, BE.ok, FE.ok, BE.eval, FE.eval, hn, notCross, hs, hb, hx, ha]
    · rw [if_neg ha] at hx
      simp [ncSt, exec, BE.ok, FE.ok, BE.eval, FE.eval, hn, notCross, hs, hb, hx, ha]

/-- an inlined call of `_is_not_crossable`: the result variable receives `notCross`, the loop variable some value,
    nothing else changes -/
theorem nc_scope (cv iv rv : String) (hne : iv ≠ cv) (fuel : Nat) (s : State F) (hs : s.ctl = .run)
    (hb : (s.shp "barriers").length = 1) :
    ∃ x, exec fuel (.scope (ncSt cv iv rv)) s =
      { s with benv := setS s.benv rv (notCross (s.fenv cv) (s.fa "barriers")),
               fenv := setS s.fenv iv x } := by
  obtain ⟨x, hx⟩ := nc_exec cv iv rv hne fuel s hs hb
  refine ⟨x, ?_⟩
  rw [exec, hx]; simp [hs]

theorem isNotCrossable_body : Gen.IL.isNotCrossable.body = ncSt "cell_value" "i" "ret0" := rfl

/-- **`Gen.IL.isNotCrossable` computes `notCross`**: NaN, or `==` to one of the barrier values -/
theorem isNotCrossable_refines (s : State F) (fuel : Nat) (hs : s.ctl = .run)
    (hb : (s.shp "barriers").length = 1) :
    let r := Gen.IL.isNotCrossable.run s fuel
    r.ctl = .ret ∧ r.benv "ret0" = notCross (s.fenv "cell_value") (s.fa "barriers") ∧
      r.fa = s.fa ∧ r.ia = s.ia := by
  obtain ⟨x, hx⟩ := nc_exec "cell_value" "i" "ret0" (by decide) fuel s hs hb
  simp only [Prog.run, isNotCrossable_body, hx]
  simp

/-! ### `_is_inside` -/

/-- **`Gen.IL.isInside` computes `AStar.inside`** -/
theorem isInside_refines (s : State F) (fuel : Nat) (hs : s.ctl = .run) (h w : Nat)
    (hh : s.ienv "h" = (h : Int)) (hw : s.ienv "w" = (w : Int)) :
    let r := Gen.IL.isInside.run s fuel
    r.ctl = .ret ∧ r.benv "ret0" = inside h w (s.ienv "py", s.ienv "px") := by
  simp only [Prog.run, Gen.IL.isInside, inside]
  by_cases h1 : s.ienv "px" < 0 <;> by_cases h2 : (w : Int) ≤ s.ienv "px" <;>
  by_cases h3 : s.ienv "py" < 0 <;> by_cases h4 : (h : Int) ≤ s.ienv "py" <;>
  simp [exec, hs, BE.ok, IE.ok, BE.eval, IE.eval, cmpInt, setS, h1, h2, h3, h4, hh, hw] <;> omega

/-! ### `_min_cost_pixel_id` -/

def mcBody (q : String → String) : St :=
  .ite (.and (.cmpI .ne (.ld2 "is_open" (.var (q "i")) (.var (q "j"))) (.lit 0))
             (.cmpF .lt (.ld2 "cost" (.var (q "i")) (.var (q "j"))) (.var (q "min_cost"))))
    (.seq (.setF (q "min_cost") (.ld2 "cost" (.var (q "i")) (.var (q "j"))))
    (.seq (.setI (q "py") (.var (q "i")))
    (.setI (q "px") (.var (q "j")))))
    .skip

def mcLoops (q : String → String) : St :=
  .forRange (q "i") (.lit 0) (.var (q "height")) (.lit 1)
    (.forRange (q "j") (.lit 0) (.var (q "width")) (.lit 1) (mcBody q))

/-- the body of `_min_cost_pixel_id` with its locals renamed by `q` -/
def mcSt (q : String → String) : St :=
  .seq (.setI (q "height") (.dim "cost" 0))
  (.seq (.setI (q "width") (.dim "cost" 1))
  (.seq (.setI (q "py") (.lit (-1)))
  (.seq (.setI (q "px") (.lit (-1)))
  (.seq (.setF (q "min_cost") (.ofInt (.bin .mul (.bin .add (.var (q "height")) (.var (q "width")))
                                                  (.bin .add (.var (q "height")) (.var (q "width"))))))
  (.seq (mcLoops q)
  (.seq (.setI (q "ret0") (.var (q "py")))
  (.seq (.setI (q "ret1") (.var (q "px")))
  .ret)))))))

theorem minCostPixelId_body : Gen.IL.minCostPixelId.body = mcSt (fun a => a) := rfl

/-- the scalar variables `_min_cost_pixel_id` writes -/
def mcI (q : String → String) : List String :=
  [q "height", q "width", q "py", q "px", q "i", q "j", q "ret0", q "ret1"]
def mcF (q : String → String) : List String := [q "min_cost"]

theorem mc_body (q : String → String) (hq : Ren q) (fuel : Nat) (st : State F) (h w i j : Nat)
    (hi : i < h) (hj : j < w) (hso : st.shp "is_open" = [h, w]) (hsc : st.shp "cost" = [h, w])
    (hst : st.ctl = .run) (hiv : st.ienv (q "i") = (i : Int)) (hjv : st.ienv (q "j") = (j : Int)) :
    exec fuel (mcBody q) st =
      if (decide ((st.ia "is_open").getD (i * w + j) 0 ≠ 0) &&
          Fl.lt ((st.fa "cost").getD (i * w + j) Fl.nan) (st.fenv (q "min_cost"))) = true then
        { st with fenv := setS st.fenv (q "min_cost") ((st.fa "cost").getD (i * w + j) Fl.nan),
                  ienv := setS (setS st.ienv (q "py") (i : Int)) (q "px") (j : Int) }
      else st := by
  have r1 := inRange_of_lt i h hi
  have r2 := inRange_of_lt j w hj
  by_cases c1 : (st.ia "is_open").getD (i * w + j) 0 = 0
  · ilsimp [mcBody, hso, hsc, hiv, hjv, r1, r2, off2_nat, c1, hst]
  · by_cases c2 : Fl.lt ((st.fa "cost").getD (i * w + j) Fl.nan) (st.fenv (q "min_cost")) = true
    · ilsimp [mcBody, hso, hsc, hiv, hjv, r1, r2, off2_nat, c1, c2, hst, hq.inj]
    · ilsimp [mcBody, hso, hsc, hiv, hjv, r1, r2, off2_nat, c1, c2, hst]

/-- what the scan reads: the model's `isOpen` / `f` are the arrays `is_open` / `cost` (on the cells of the raster),
    `<` is the float comparison, the initial bound is `(height + width)^2` -/
structure McAbs (e : Env F) (mst : AStar.St F) (s : State F) : Prop where
  lt : e.ops.lt = Fl.lt
  big : e.ops.big e.h e.w = Fl.lit (((e.h : Int) + (e.w : Int)) * ((e.h : Int) + (e.w : Int))) 1
  so : s.shp "is_open" = [e.h, e.w]
  sc : s.shp "cost" = [e.h, e.w]
  isOpen : ∀ c, inside e.h e.w c = true → mst.isOpen c = decide ((s.ia "is_open").getD (cidx e.w c) 0 ≠ 0)
  f : ∀ c, inside e.h e.w c = true → mst.f c = (s.fa "cost").getD (cidx e.w c) Fl.nan

/-- loop invariant of the scan: the running minimum `(py, px, min_cost)` is the model's accumulator -/
structure McInv (q : String → String) (e : Env F) (s st : State F) (acc : Option Cell × F) : Prop where
  frame : Frame (mcI q) (mcF q) [] s st
  hh : st.ienv (q "height") = (e.h : Int)
  ww : st.ienv (q "width") = (e.w : Int)
  pos : (st.ienv (q "py"), st.ienv (q "px")) = enc acc.1
  mc : st.fenv (q "min_cost") = acc.2

theorem mc_row (q : String → String) (hq : Ren q) (e : Env F) (mst : AStar.St F) (s : State F)
    (habs : McAbs e mst s) (fuel : Nat) (i : Nat) (hi : i < e.h) (st : State F) (hst : st.ctl = .run)
    (acc : Option Cell × F) (hinv : McInv q e s st acc) (hiv : st.ienv (q "i") = (i : Int)) :
    let r := exec fuel (.forRange (q "j") (.lit 0) (.var (q "width")) (.lit 1) (mcBody q)) st
    r.ctl = .run ∧ r.ienv (q "i") = (i : Int) ∧
      McInv q e s r (((List.range e.w).map fun (j : Nat) => ((i : Int), (j : Int))).foldl (minStep e mst) acc) := by
  intro r
  have key := forRange_up (q "j") (.var (q "width")) (mcBody q) e.w fuel st hst (by simp [IE.ok])
    (by simp [IE.eval, hinv.ww])
    (fun j st' => st'.ienv (q "i") = (i : Int) ∧
      McInv q e s st' (((List.range j).map fun (j : Nat) => ((i : Int), (j : Int))).foldl (minStep e mst) acc))
    ⟨hiv, by simpa using hinv⟩
    (fun j hj st' hst' ⟨hiv', hinv'⟩ => by
      have hb := mc_body q hq fuel { st' with ienv := setS st'.ienv (q "j") (j : Int) } e.h e.w i j hi hj
        (by simp [hinv'.frame.shp, habs.so]) (by simp [hinv'.frame.shp, habs.sc]) hst'
        (by simp [setS_apply, hq.inj, hiv']) (by simp)
      rw [hb, foldl_map_range_succ]
      generalize ((List.range j).map fun (j : Nat) => ((i : Int), (j : Int))).foldl (minStep e mst) acc = a at hinv' ⊢
      have hin := inside_nat e.h e.w i j hi hj
      simp only [minStep, habs.isOpen _ hin, habs.f _ hin, habs.lt, cidx_nat, hinv'.frame.ia, hinv'.frame.fa,
        hinv'.mc]
      split
      · refine ⟨by simp [afterBody, hst'], by simp [afterBody, hst', setS_apply, hq.inj, hiv'], ?_⟩
        simp only [afterBody, hst']
        exact ⟨by frame_from [mcI, mcF] hinv'.frame,
          by simp [setS_apply, hq.inj, hinv'.hh], by simp [setS_apply, hq.inj, hinv'.ww],
          by simp [setS_apply, hq.inj, enc], by simp⟩
      · refine ⟨by simp [afterBody, hst'], by simp [afterBody, hst', setS_apply, hq.inj, hiv'], ?_⟩
        simp only [afterBody, hst']
        exact ⟨by frame_from [mcI, mcF] hinv'.frame,
          by simp [setS_apply, hq.inj, hinv'.hh], by simp [setS_apply, hq.inj, hinv'.ww],
          by simp [setS_apply, hq.inj, hinv'.pos], by simp [hinv'.mc]⟩)
  exact ⟨key.1, key.2.1, key.2.2⟩

theorem McInv.setI_i {q : String → String} (hq : Ren q) {e : Env F} {s st : State F} {acc : Option Cell × F}
    (h : McInv q e s st acc) (x : Int) : McInv q e s { st with ienv := setS st.ienv (q "i") x } acc :=
  ⟨by frame_from [mcI, mcF] h.frame, by simp [setS_apply, hq.inj, h.hh], by simp [setS_apply, hq.inj, h.ww],
   by simp [setS_apply, hq.inj, h.pos], by simp [h.mc]⟩

theorem mc_loops (q : String → String) (hq : Ren q) (e : Env F) (mst : AStar.St F) (s : State F)
    (habs : McAbs e mst s) (fuel : Nat) (st : State F) (hst : st.ctl = .run)
    (acc : Option Cell × F) (hinv : McInv q e s st acc) :
    let r := exec fuel (mcLoops q) st
    r.ctl = .run ∧ McInv q e s r ((cells e.h e.w).foldl (minStep e mst) acc) := by
  intro r
  rw [foldl_cells]
  exact forRange_up (q "i") (.var (q "height")) _ e.h fuel st hst (by simp [IE.ok])
    (by simp [IE.eval, hinv.hh])
    (fun i st' => McInv q e s st' ((List.range i).foldl (fun acc (i : Nat) =>
        ((List.range e.w).map fun (j : Nat) => ((i : Int), (j : Int))).foldl (minStep e mst) acc) acc))
    (by simpa using hinv)
    (fun i hi st' hst' hinv' => by
      have hr := mc_row q hq e mst s habs fuel i hi { st' with ienv := setS st'.ienv (q "i") (i : Int) } hst' _
        (hinv'.setI_i hq i) (by simp)
      rw [foldl_range_succ]
      exact ⟨by rw [afterBody_run _ hr.1]; exact hr.1, by rw [afterBody_run _ hr.1]; exact hr.2.2⟩)

/-- the whole body of `_min_cost_pixel_id` (renamed by `q`): ends with `return`, writes only its own locals, and
    `(ret0, ret1)` is the model's `minCostOpen` (`(-1, -1)` for `none`) -/
theorem mc_exec (q : String → String) (hq : Ren q) (e : Env F) (mst : AStar.St F) (s : State F)
    (hs : s.ctl = .run) (habs : McAbs e mst s) (fuel : Nat) :
    let r := exec fuel (mcSt q) s
    r.ctl = .ret ∧ Frame (mcI q) (mcF q) [] s r ∧
      (r.ienv (q "ret0"), r.ienv (q "ret1")) = enc (minCostOpen e mst) := by
  intro r
  have hl := mc_loops q hq e mst s habs fuel
    { s with ienv := setS (setS (setS (setS s.ienv (q "height") (e.h : Int)) (q "width") (e.w : Int))
                            (q "py") (-1)) (q "px") (-1),
             fenv := setS s.fenv (q "min_cost")
               (Fl.lit (((e.h : Int) + (e.w : Int)) * ((e.h : Int) + (e.w : Int))) 1), ctl := .run } rfl
    (none, e.ops.big e.h e.w)
    ⟨by frame_from [mcI, mcF] (Frame.refl (mcI q) (mcF q) [] s), by simp [setS_apply, hq.inj],
     by simp [setS_apply, hq.inj], by simp [setS_apply, hq.inj, enc], by simp [habs.big]⟩
  show (exec fuel (mcSt q) s).ctl = .ret ∧ Frame (mcI q) (mcF q) [] s (exec fuel (mcSt q) s) ∧ ((exec fuel (mcSt q) s).ienv (q "ret0"), (exec fuel (mcSt q) s).ienv (q "ret1")) = enc (minCostOpen e mst)
  ilsimp [mcSt, hs, habs.sc, hq.inj, hl.1]
  generalize exec (F := F) fuel (mcLoops q) _ = rl at hl ⊢
  exact ⟨by frame_from [mcI, mcF] hl.2.frame, hl.2.pos⟩


/-- an inlined call of `_min_cost_pixel_id` -/
theorem mc_scope (q : String → String) (hq : Ren q) (e : Env F) (mst : AStar.St F) (s : State F)
    (hs : s.ctl = .run) (habs : McAbs e mst s) (fuel : Nat) :
    let r := exec fuel (.scope (mcSt q)) s
    r.ctl = .run ∧ Frame (mcI q) (mcF q) [] s r ∧
      (r.ienv (q "ret0"), r.ienv (q "ret1")) = enc (minCostOpen e mst) := by
  have h := mc_exec q hq e mst s hs habs fuel
  simp only [exec, h.1, if_true]
  exact ⟨trivial, by frame_from [mcI, mcF] h.2.1, h.2.2⟩

/-- **`Gen.IL.minCostPixelId` computes `AStar.minCostOpen`**: for every model state whose `isOpen` / `f` are the
    arrays `is_open` / `cost` (shape `[h, w]`), the program returns the first cell, in row-major order, that is open
    and whose cost is strictly below every earlier candidate and below `(h + w)^2`; `(-1, -1)` if there is none.
    The arrays are not written. -/
theorem minCostPixelId_refines (e : Env F) (mst : AStar.St F) (s : State F) (fuel : Nat)
    (hs : s.ctl = .run) (habs : McAbs e mst s) :
    let r := Gen.IL.minCostPixelId.run s fuel
    r.ctl = .ret ∧ (r.ienv "ret0", r.ienv "ret1") = enc (minCostOpen e mst) ∧ r.ia = s.ia ∧ r.fa = s.fa := by
  have h := mc_exec (fun a => a) Ren.id e mst s hs habs fuel
  simp only [Prog.run, minCostPixelId_body]
  exact ⟨h.1, h.2.2, h.2.1.ia, h.2.1.fa⟩

end XrsVerif.IL
