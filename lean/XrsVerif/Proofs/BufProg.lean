import XrsVerif.Model.BufProg
/-!
  Helper lemmas for C10: the abstraction relation between concrete states and taint sets, its
  preservation by every primitive step, and the post-fixpoint property of `aloop`.
-/
namespace XrsVerif.BP

/-- abstraction relation: every variable that concretely points below `k` (into an input buffer) is
    tainted, fresh buffer ids are `≥ k`, and no input buffer has been written -/
def Rel (k : Nat) (s : St) (l : Taint) : Prop :=
  k ≤ s.next ∧ (∀ v b, s.env v = some b → b < k → l.has v = true) ∧ (∀ b, b < k → s.dirty b = false)

theorem has_iff {l : Taint} {v : Nat} : l.has v = true ↔ v ∈ l := by
  simp [Taint.has]

theorem has_clear {l : Taint} {d v : Nat} : (l.clear d).has v = true ↔ (l.has v = true ∧ v ≠ d) := by
  simp [Taint.has, Taint.clear]

theorem has_join {a b : Taint} {v : Nat} : (a.join b).has v = true ↔ (a.has v = true ∨ b.has v = true) := by
  simp only [Taint.has, Taint.join, List.contains_eq_mem, List.mem_append, List.mem_filter,
    decide_eq_true_eq, Bool.not_eq_true', decide_eq_false_iff_not]
  constructor
  · rintro (h | ⟨h, _⟩)
    · exact Or.inl h
    · exact Or.inr h
  · rintro (h | h)
    · exact Or.inl h
    · by_cases hv : v ∈ a
      · exact Or.inl hv
      · exact Or.inr ⟨h, hv⟩

theorem sub_iff {a b : Taint} : a.sub b = true ↔ ∀ v, a.has v = true → b.has v = true := by
  simp [Taint.sub, Taint.has]

theorem Rel.weaken {k : Nat} {s : St} {l m : Taint} (h : Rel k s l)
    (hsub : ∀ v, l.has v = true → m.has v = true) : Rel k s m :=
  ⟨h.1, fun v b hv hb => hsub v (h.2.1 v b hv hb), h.2.2⟩

theorem rel_init (k : Nat) : Rel k (init k) (inputs k) := by
  refine ⟨Nat.le_refl k, ?_, fun _ _ => rfl⟩
  intro v b hv _
  simp only [init] at hv
  by_cases hvk : v < k
  · simp [inputs, Taint.has, hvk]
  · simp [hvk] at hv

/-- binding a destination to a fresh buffer -/
theorem rel_bindFresh {k : Nat} {s : St} {l : Taint} (d : Nat) (h : Rel k s l) :
    Rel k (s.bindFresh d) (l.clear d) := by
  obtain ⟨hn, henv, hd⟩ := h
  refine ⟨by simp only [St.bindFresh]; omega, ?_, by simpa [St.bindFresh] using hd⟩
  intro v b hv hb
  simp only [St.bindFresh] at hv
  by_cases hvd : v = d
  · simp only [hvd, if_true, Option.some.injEq] at hv
    omega
  · simp only [hvd, if_false] at hv
    exact has_clear.mpr ⟨henv v b hv hb, hvd⟩

/-- binding a destination to whatever the source points to -/
theorem rel_bindTo {k : Nat} {s : St} {l : Taint} (d src : Nat) (h : Rel k s l) :
    Rel k (s.bindTo d (s.env src)) (if l.has src then d :: l.clear d else l.clear d) := by
  obtain ⟨hn, henv, hd⟩ := h
  refine ⟨by simpa [St.bindTo] using hn, ?_, by simpa [St.bindTo] using hd⟩
  intro v b hv hb
  simp only [St.bindTo] at hv
  by_cases hvd : v = d
  · simp only [hvd, if_true] at hv
    have hs := henv src b hv hb
    rw [if_pos hs, hvd]
    simp [Taint.has]
  · simp only [hvd, if_false] at hv
    have h1 : (l.clear d).has v = true := has_clear.mpr ⟨henv v b hv hb, hvd⟩
    split
    · simp only [Taint.has, List.contains_cons, Bool.or_eq_true]
      exact Or.inr (by simpa [Taint.has] using h1)
    · exact h1

/-- binding a destination to some buffer that is an input buffer only if `flag` says so -/
theorem rel_bindTo' {k : Nat} {s : St} {l : Taint} (d : Nat) (ob : Option Nat) (flag : Bool) (h : Rel k s l)
    (hf : ∀ b, ob = some b → b < k → flag = true) :
    Rel k (s.bindTo d ob) (if flag then d :: l.clear d else l.clear d) := by
  obtain ⟨hn, henv, hd⟩ := h
  refine ⟨by simpa [St.bindTo] using hn, ?_, by simpa [St.bindTo] using hd⟩
  intro v b hv hb
  simp only [St.bindTo] at hv
  by_cases hvd : v = d
  · simp only [hvd, if_true] at hv
    rw [if_pos (hf b hv hb), hvd]
    simp [Taint.has]
  · simp only [hvd, if_false] at hv
    have h1 : (l.clear d).has v = true := has_clear.mpr ⟨henv v b hv hb, hvd⟩
    split
    · simp only [Taint.has, List.contains_cons, Bool.or_eq_true]
      exact Or.inr (by simpa [Taint.has] using h1)
    · exact h1

/-- filling one slot of a wrapper primitive's result: the source is read in the state `pre` the primitive
    was called in, whose abstraction is `l0` -/
theorem rel_bindPart {k : Nat} {s pre : St} {l l0 : Taint} (p : Part) (sh : Bool)
    (hpre : Rel k pre l0) (h : Rel k s l) (hok : p.admits sh) :
    Rel k (s.bindPart pre p sh) (l.bindPart l0 p) := by
  cases sh with
  | true =>
    simp only [St.bindPart, if_true, Taint.bindPart]
    refine rel_bindTo' p.dst _ (p.tainted l0) h ?_
    intro b hb hlt
    simp only [Part.admits, if_true] at hok
    cases hsrc : p.src with
    | none => simp [hsrc] at hb
    | some x =>
      simp only [hsrc, Option.bind_some] at hb
      simp [Part.tainted, hok, hsrc, hpre.2.1 x b hb hlt]
  | false =>
    simp only [St.bindPart, Bool.false_eq_true, if_false, Taint.bindPart]
    refine (rel_bindFresh p.dst h).weaken ?_
    intro v hv
    split
    · simp only [Taint.has, List.contains_cons, Bool.or_eq_true]
      exact Or.inr (by simpa [Taint.has] using hv)
    · exact hv

theorem step_rel {k : Nat} {s s' : St} {l l' : Taint} {o : Op}
    (hx : OpStep o s s') (h : Rel k s l) (ha : astep l o = some l') : Rel k s' l' := by
  cases hx with
  | alloc d =>
    simp only [astep, Option.some.injEq] at ha; subst ha; exact rel_bindFresh d h
  | copyOf d src =>
    simp only [astep, Option.some.injEq] at ha; subst ha; exact rel_bindFresh d h
  | viewOf d src =>
    simp only [astep, Option.some.injEq] at ha; subst ha; exact rel_bindTo d src h
  | maybeIsView d src =>
    simp only [astep, Option.some.injEq] at ha; subst ha; exact rel_bindTo d src h
  | maybeIsCopy d src =>
    simp only [astep, Option.some.injEq] at ha; subst ha
    refine (rel_bindFresh d h).weaken ?_
    intro v hv
    split
    · simp only [Taint.has, List.contains_cons, Bool.or_eq_true]
      exact Or.inr (by simpa [Taint.has] using hv)
    · exact hv
  | write d =>
    simp only [astep] at ha
    split at ha
    · simp at ha
    · rename_i hnot
      simp only [Option.some.injEq] at ha; subst ha
      obtain ⟨hn, henv, hd⟩ := h
      cases hed : s.env d with
      | none => exact ⟨hn, henv, hd⟩
      | some b =>
        refine ⟨by simpa [St.mark] using hn, by simpa [St.mark] using henv, ?_⟩
        intro x hx
        have hbx : x ≠ b := by
          intro hh; subst hh
          exact hnot (henv d x hed hx)
        simp [St.mark, hbx, hd x hx]
  | unknown => simp [astep] at ha
  | build a b c x y z _ ha' hb' hc' =>
    simp only [astep, Option.some.injEq] at ha; subst ha
    exact rel_bindPart c z h (rel_bindPart b y h (rel_bindPart a x h h ha') hb') hc'

/-- what `aloop` returns is a post-fixpoint of the abstract body that contains the entry taint -/
theorem aloop_spec {f : Taint → Option Taint} {fuel : Nat} {l m : Taint}
    (h : aloop f fuel l = some m) :
    (∀ v, l.has v = true → m.has v = true) ∧ ∃ m', f m = some m' ∧ m'.sub m = true := by
  induction fuel generalizing l with
  | zero => simp [aloop] at h
  | succ n ih =>
    simp only [aloop] at h
    cases hf : f l with
    | none => simp [hf] at h
    | some l' =>
      simp only [hf] at h
      by_cases hs : l'.sub l = true
      · simp only [hs, if_true, Option.some.injEq] at h; subst h
        exact ⟨fun _ hv => hv, l', hf, hs⟩
      · simp only [hs] at h
        obtain ⟨h1, h2⟩ := ih h
        exact ⟨fun v hv => h1 v (has_join.mpr (Or.inl hv)), h2⟩

/-- re-entering the loop check at its own result returns that result again -/
theorem aloop_stable {f : Taint → Option Taint} {fuel : Nat} {l m : Taint}
    (h : aloop f fuel l = some m) : aloop f fuel m = some m := by
  obtain ⟨_, m', hf, hs⟩ := aloop_spec h
  cases fuel with
  | zero => simp [aloop] at h
  | succ n => simp [aloop, hf, hs]

end XrsVerif.BP
