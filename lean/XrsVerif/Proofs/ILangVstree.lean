import XrsVerif.Proofs.ILang
/-
  Proofs/ILangVstree.lean -- generic ILang lemmas added for the refinement proofs of viewshed's status tree
  (Proofs/ILViewshed*.lean): one rewriting rule per statement kind (so that a proof steps through a program
  instead of unfolding `exec` over a whole block), the `while` rules, `scope`, and reads / writes of a 2-D
  array through a row *pointer* that is either a natural row index or numba's `-1` (= the last row).

  Own namespace (`XrsVerif.ILVs`): other refinement files define rules with the same obvious names.
-/
namespace XrsVerif.ILVs
open XrsVerif XrsVerif.IL
variable {F : Type} [Fl F]
set_option linter.unusedSectionVars false

/-! ### one rule per statement -/

theorem exec_seq (fuel : Nat) (a b : St) (s : State F) :
    exec fuel (.seq a b) s =
      if (exec fuel a s).ctl = .run then exec fuel b (exec fuel a s) else exec fuel a s := by
  simp only [exec]

theorem exec_seq_run (fuel : Nat) (a b : St) (s : State F) (h : (exec fuel a s).ctl = .run) :
    exec fuel (.seq a b) s = exec fuel b (exec fuel a s) := by
  rw [exec_seq]; simp [h]

theorem exec_seq_stop (fuel : Nat) (a b : St) (s : State F) (h : (exec fuel a s).ctl ≠ .run) :
    exec fuel (.seq a b) s = exec fuel a s := by
  rw [exec_seq]; simp [h]

theorem exec_setI (fuel : Nat) (v : String) (e : IE) (s : State F) (h : e.ok s = true) :
    exec fuel (.setI v e) s = { s with ienv := setS s.ienv v (e.eval s) } := by
  simp only [exec, h, if_true]

theorem exec_setF (fuel : Nat) (v : String) (e : FE) (s : State F) (h : e.ok s = true) :
    exec fuel (.setF v e) s = { s with fenv := setS s.fenv v (e.eval s) } := by
  simp only [exec, h, if_true]

theorem exec_setB (fuel : Nat) (v : String) (c : BE) (s : State F) (h : c.ok s = true) :
    exec fuel (.setB v c) s = { s with benv := setS s.benv v (c.eval s) } := by
  simp only [exec, h, if_true]

theorem exec_ite (fuel : Nat) (c : BE) (t f : St) (s : State F) (hok : c.ok s = true) :
    exec fuel (.ite c t f) s = if c.eval s = true then exec fuel t s else exec fuel f s := by
  simp only [exec, hok, if_true]

theorem exec_ite_true (fuel : Nat) (c : BE) (t f : St) (s : State F) (hok : c.ok s = true)
    (h : c.eval s = true) : exec fuel (.ite c t f) s = exec fuel t s := by
  simp only [exec, hok, h, if_true]

theorem exec_ite_false (fuel : Nat) (c : BE) (t f : St) (s : State F) (hok : c.ok s = true)
    (h : c.eval s = false) : exec fuel (.ite c t f) s = exec fuel f s := by
  simp [exec, hok, h]

theorem exec_skip (fuel : Nat) (s : State F) : exec fuel .skip s = s := by simp only [exec]
theorem exec_brk (fuel : Nat) (s : State F) : exec fuel .brk s = { s with ctl := .brk } := by simp only [exec]
theorem exec_ret (fuel : Nat) (s : State F) : exec fuel .ret s = { s with ctl := .ret } := by simp only [exec]

theorem exec_scope (fuel : Nat) (b : St) (s : State F) :
    exec fuel (.scope b) s =
      if (exec fuel b s).ctl = .ret then { exec fuel b s with ctl := .run } else exec fuel b s := by
  simp only [exec]

/-- the loop test fails: the `while` ends, one unit of fuel is enough -/
theorem exec_while_exit (fuel : Nat) (c : BE) (b : St) (s : State F) (hok : c.ok s = true)
    (h : c.eval s = false) : exec (fuel + 1) (.while c b) s = s := by
  simp [exec, hok, h]

/-- one iteration whose body ends normally -/
theorem exec_while_step (fuel : Nat) (c : BE) (b : St) (s : State F) (hok : c.ok s = true)
    (h : c.eval s = true) (hb : (exec fuel b s).ctl = .run) :
    exec (fuel + 1) (.while c b) s = exec fuel (.while c b) (exec fuel b s) := by
  simp only [exec, hok, h, if_true]
  split <;> simp_all

/-- one iteration whose body ends with `break` -/
theorem exec_while_brk (fuel : Nat) (c : BE) (b : St) (s : State F) (hok : c.ok s = true)
    (h : c.eval s = true) (hb : (exec fuel b s).ctl = .brk) :
    exec (fuel + 1) (.while c b) s = { exec fuel b s with ctl := .run } := by
  simp only [exec, hok, h, if_true]
  split <;> simp_all

/-- one iteration whose body ends with `return` -/
theorem exec_while_ret (fuel : Nat) (c : BE) (b : St) (s : State F) (hok : c.ok s = true)
    (h : c.eval s = true) (hb : (exec fuel b s).ctl = .ret) :
    exec (fuel + 1) (.while c b) s = exec fuel b s := by
  simp only [exec, hok, h, if_true]
  split <;> simp_all

/-- sequencing is associative (the translator nests to the right; proofs may regroup) -/
theorem exec_seq_assoc (fuel : Nat) (a b c : St) (s : State F) :
    exec fuel (.seq a (.seq b c)) s = exec fuel (.seq (.seq a b) c) s := by
  simp only [exec_seq]
  by_cases h1 : (exec fuel a s).ctl = .run
  · simp only [h1, if_true]
  · simp only [h1, if_false]

/-- a block `a₁; a₂; …; aₖ` continued by `k` (the translator's right-nested form) -/
def seqK : List St → St → St
  | [], k => k
  | a :: as, k => .seq a (seqK as k)

/-- the block alone -/
def seqL : List St → St
  | [] => .skip
  | [a] => a
  | a :: b :: r => .seq a (seqL (b :: r))

/-- a block can be split off the front of a sequence -/
theorem exec_seqK (fuel : Nat) : ∀ (as : List St) (a : St) (k : St) (s : State F),
    exec fuel (seqK (a :: as) k) s = exec fuel (.seq (seqL (a :: as)) k) s := by
  intro as
  induction as with
  | nil => intro a k s; rfl
  | cons b r ih =>
    intro a k s
    have h1 : exec fuel (seqK (a :: b :: r) k) s = exec fuel (.seq a (.seq (seqL (b :: r)) k)) s := by
      simp only [seqK, exec_seq]
      have := ih b k
      simp only [seqK, exec_seq] at this
      simp only [this]
    rw [h1, exec_seq_assoc]
    rfl

/-! ### controlled unfolding of expressions (never through an array read) -/

theorem FE.ok_bin (s : State F) (op : BinOp) (a b : FE) : (FE.bin op a b).ok s = (a.ok s && b.ok s) := by
  simp only [FE.ok]
theorem FE.ok_var (s : State F) (v : String) : (FE.var v).ok s = true := by simp only [FE.ok]
theorem FE.ok_lit (s : State F) (n : Int) (d : Nat) : (FE.lit n d).ok s = true := by simp only [FE.ok]
theorem FE.eval_bin (s : State F) (op : BinOp) (a b : FE) : (FE.bin op a b).eval s = op.eval (a.eval s) (b.eval s) := by
  simp only [FE.eval]
theorem FE.eval_var (s : State F) (v : String) : (FE.var v).eval s = s.fenv v := by simp only [FE.eval]
theorem FE.eval_lit (s : State F) (n : Int) (d : Nat) : (FE.lit n d).eval s = Fl.lit n d := by simp only [FE.eval]
theorem FE.ok_ofInt (s : State F) (e : IE) : (FE.ofInt e).ok s = e.ok s := by simp only [FE.ok]
theorem FE.eval_ofInt (s : State F) (e : IE) : (FE.ofInt e).eval s = Fl.lit (e.eval s) 1 := by simp only [FE.eval]
theorem IE.ok_var (s : State F) (v : String) : (IE.var v).ok s = true := by simp only [IE.ok]
theorem IE.ok_lit (s : State F) (n : Int) : (IE.lit n).ok s = true := by simp only [IE.ok]
theorem IE.eval_var (s : State F) (v : String) : (IE.var v).eval s = s.ienv v := by simp only [IE.eval]
theorem IE.eval_lit (s : State F) (n : Int) : (IE.lit n).eval s = n := by simp only [IE.eval]
theorem BE.ok_cmpI (s : State F) (op : CmpOp) (a b : IE) : (BE.cmpI op a b).ok s = (a.ok s && b.ok s) := by
  simp only [BE.ok]
theorem BE.ok_cmpF (s : State F) (op : CmpOp) (a b : FE) : (BE.cmpF op a b).ok s = (a.ok s && b.ok s) := by
  simp only [BE.ok]
theorem BE.eval_cmpI (s : State F) (op : CmpOp) (a b : IE) : (BE.cmpI op a b).eval s = cmpInt op (a.eval s) (b.eval s) := by
  simp only [BE.eval]
theorem BE.eval_cmpF (s : State F) (op : CmpOp) (a b : FE) : (BE.cmpF op a b).eval s = op.eval (a.eval s) (b.eval s) := by
  simp only [BE.eval]
theorem BE.ok_and (s : State F) (a b : BE) : (BE.and a b).ok s = (a.ok s && (!(a.eval s) || b.ok s)) := by
  simp only [BE.ok]
theorem BE.eval_and (s : State F) (a b : BE) : (BE.and a b).eval s = (a.eval s && b.eval s) := by
  simp only [BE.eval]
theorem BE.ok_not (s : State F) (a : BE) : (BE.not a).ok s = a.ok s := by simp only [BE.ok]
theorem BE.eval_not (s : State F) (a : BE) : (BE.not a).eval s = !(a.eval s) := by simp only [BE.eval]
theorem BE.ok_var (s : State F) (v : String) : (BE.var v).ok s = true := by simp only [BE.ok]
theorem BE.eval_var (s : State F) (v : String) : (BE.var v).eval s = s.benv v := by simp only [BE.eval]
theorem BE.ok_tt (s : State F) : BE.tt.ok s = true := by simp only [BE.ok]
theorem BE.eval_tt (s : State F) : BE.tt.eval s = true := by simp only [BE.eval]
theorem BE.ok_ff (s : State F) : BE.ff.ok s = true := by simp only [BE.ok]
theorem BE.eval_ff (s : State F) : BE.ff.eval s = false := by simp only [BE.eval]

/-! ### row pointers: a natural row index, or numba's `-1` = the last row -/

/-- the row a pointer addresses in an array of `n` rows -/
def rowOf (n : Nat) (p : Int) : Nat := (normIdx p n).toNat

@[simp] theorem rowOf_nat (n i : Nat) : rowOf n (i : Int) = i := by
  unfold rowOf; rw [normIdx_nat]; simp

@[simp] theorem rowOf_neg_one (n : Nat) : rowOf n (-1) = n - 1 := by
  unfold rowOf normIdx; simp; omega

theorem inRange_iff (i : Int) (n : Nat) :
    inRange i n = true ↔ (0 ≤ i ∧ i < n) ∨ (i < 0 ∧ 0 ≤ i + n) := by
  unfold inRange normIdx
  split <;> simp <;> omega

/-- a pointer of a tree of `n` rows: `-1` (NIL, the last row) or a row index -/
theorem inRange_ptr (n : Nat) (p : Int) (h : -1 ≤ p ∧ p < n) (hn : 0 < n) : inRange p n = true := by
  rw [inRange_iff]; omega

theorem inRange_col (c : Nat) (j : Nat) (h : j < c) : inRange (j : Int) c = true := inRange_of_lt j c h

theorem off2_ptr (n c : Nat) (p : Int) (j : Nat) : off2 [n, c] p (j : Int) = rowOf n p * c + j := by
  unfold off2 rowOf; simp [normIdx_nat]

theorem rowOf_lt (n : Nat) (p : Int) (h : -1 ≤ p ∧ p < n) (hn : 0 < n) : rowOf n p < n := by
  unfold rowOf normIdx; split <;> omega

end XrsVerif.ILVs
