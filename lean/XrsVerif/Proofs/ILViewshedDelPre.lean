import XrsVerif.Proofs.ILViewshedDelL2
/-
  Proofs/ILViewshedDelPre.lean -- `_delete_from_tree` from the splice to the recomputation F1 on the arrays
  (`delL1F1_spec`): the links afterwards are `spliceArr`, the abstraction of `x`'s subtree and of the context of the
  spliced-out node are the model's `l1f1T` (loop L1, then F1 at `y`'s parent -- or at `x` when `y` was the root).
-/
set_option linter.unusedSectionVars false
set_option linter.unusedVariables false
set_option linter.unusedSimpArgs false
namespace XrsVerif.ILVs
open XrsVerif XrsVerif.IL XrsVerif.Viewshed
variable {F : Type} [Fl F]

/-- the recomputation F1 / C of a frame read off the arrays -/
theorem recompF_absFr (V : List F) (N : List Int) (n : Nat) (c : Int) (fr : Fr) (rest : Ctx)
    (hc : CtxLinked N n c (fr :: rest)) :
    (absFr V N fr).recompF (vAt V (n - 1) 7) (mxAt V n c) = fixMax V n fr.idx (nAt N fr.idx 1) (nAt N fr.idx 2) := by
  cases fr with
  | L p sib =>
    obtain ⟨_, h1, h2, _⟩ := hc
    simp only [absFr, TFr.recompF, TFr.kids, TFr.nd, fixMax, Fr.idx, h1, h2, mxAt_absT V N n sib]
  | R sib p =>
    obtain ⟨_, h1, h2, _⟩ := hc
    simp only [absFr, TFr.recompF, TFr.kids, TFr.nd, fixMax, Fr.idx, h1, h2, mxAt_absT V N n sib]

/-- the stored maximum of the head frame's row is overwritten -/
theorem absCtx_setHead (V : List F) (N : List Int) (fr : Fr) (rest : Ctx) (m : Fv F)
    (hnd : (ctxIdxs (fr :: rest)).Nodup) (hlen : fr.idx * 8 + 7 < V.length) :
    absCtx (V.set (fr.idx * 8 + 7) m.v) N (fr :: rest) = (absFr V N fr).setMx m :: absCtx V N rest := by
  rw [ctxIdxs_cons] at hnd
  have hnd2 := List.nodup_cons.mp hnd
  have hs := SetMax.set V fr.idx m hlen
  simp only [absCtx, List.map_cons]
  rw [absFr_setMx V N fr m hlen (fun h => hnd2.1 (by simp [h]))]
  congr 1
  exact hs.absCtx N rest (fun h => hnd2.1 (by simp [h]))

/-- abstractions only read the colour column of `tree_nodes` -/
theorem absT_col {V : List F} {N N' : List Int} (h0 : ∀ j, nAt N' j 0 = nAt N j 0) (sh : Sh) : absT V N' sh = absT V N sh :=
  absT_congr sh (fun i _ => ⟨fun _ _ => rfl, h0 i⟩)

theorem absCtx_col {V : List F} {N N' : List Int} (h0 : ∀ j, nAt N' j 0 = nAt N j 0) (ctx : Ctx) :
    absCtx V N' ctx = absCtx V N ctx :=
  absCtx_congr ctx (fun i _ => ⟨fun _ _ => rfl, h0 i⟩)

/-- **the splice, loop L1 and the recomputation F1** -/
theorem delL1F1_spec (fuel n : Nat) (s : State F) (hv : VS s n) (hrun : s.ctl = .run) (cy : Ctx) (yl : Sh) (y : Nat)
    (yr : Sh) (hone : yl = .nil ∨ yr = .nil)
    (hL : Linked (s.ia "tree_nodes") n (-1) (plug (.node yl y yr) cy)) (hN : (plug (.node yl y yr) cy).idxs.Nodup)
    (hy : s.ienv "y" = y) (hne : cy = [] → spliceSub yl yr ≠ .nil) (hf : cy.length < fuel) :
    let xsh := spliceSub yl yr
    let V := s.fa "tree_vals"
    let N := s.ia "tree_nodes"
    let N' := spliceArr N n xsh.ptr cy
    let r := exec fuel (.seq (.seq (seqL delSpliceItems) delL1) (seqL (recompFixItems "10"))) s
    let res := l1f1T feq (vAt V (n - 1) 7) (absT V N xsh) (nodeAt V y) (absCtx V N cy)
    r.ctl = .run ∧ VS r n ∧ r.ia "tree_nodes" = N' ∧
      absT (r.fa "tree_vals") N' xsh = res.1 ∧ absCtx (r.fa "tree_vals") N' cy = res.2 ∧
      (∀ i k, k < 8 → (k ≠ 7 ∨ (i ∉ cy.map Fr.idx ∧ (cy = [] → (i : Int) ≠ xsh.ptr))) →
        vAt (r.fa "tree_vals") i k = vAt V i k) ∧
      r.ienv "x" = xsh.ptr ∧ r.ienv "root" = rootOr xsh.ptr (s.ienv "root") cy ∧ r.ienv "y" = y ∧
      r.ienv "deleted" = y ∧ r.ienv "z" = s.ienv "z" := by
  intro xsh V N N' r res
  -- the splice
  obtain ⟨a1, a2, a3, a4, a5, a6, a7, a8, a9, a10, a11⟩ := delSplice_spec fuel n s hv hrun cy yl y yr hone hL hN hy
  obtain ⟨g1, g2, g3, g4, g5, g6, g7, g8, g9⟩ := spliceArr_linked cy yl y yr hone hL hN hv.lenN hv.pos
  generalize hs0 : exec fuel (seqL delSpliceItems) s = s0 at a1 a2 a3 a4 a5 a6 a7 a8 a9 a10 a11
  have hv0 : VS s0 n := ⟨by rw [a3]; exact hv.shpV, by rw [a3]; exact hv.shpN, by rw [a2]; exact hv.lenV,
    by rw [a4, g3]; exact hv.lenN, hv.pos⟩
  obtain ⟨hlx, hcx, _⟩ := unplug cy xsh g1 g2
  have hyn : y + 1 < n := Linked.idx_lt hL y (mem_plug _ cy _ (by simp [Sh.idxs]))
  have hy3 : nAt (s0.ia "tree_nodes") y 3 = ctxPar cy := by
    rw [a4, g5 3 (by decide)]
    exact (unplug cy _ hL hN).1.2.2.2.1
  have hxOK : PtrOK n xsh.ptr := hlx.ptrOK hv.pos
  -- loop L1
  obtain ⟨b1, b2, b3, b4, b5⟩ := delL1_spec n y hyn cy xsh.ptr y fuel s0 hv0 a1 (by rw [a4]; exact hcx) hy3 hyn hxOK a8 a10 hf
  rw [a2, a4] at b4
  have hfr1 := exec_frame fuel delL1 s0
  generalize hs1 : exec fuel delL1 s0 = s1 at b1 b2 b3 b4 b5 hfr1
  have hN1 : s1.ia "tree_nodes" = N' := by rw [b2, a4]
  have hlenV1 : (s1.fa "tree_vals").length = n * 8 := by rw [b4, scanArr_length]; exact hv.lenV
  have hv1 : VS s1 n := ⟨by rw [b3]; exact hv0.shpV, by rw [b3]; exact hv0.shpN, hlenV1, by rw [hN1, g3]; exact hv.lenN, hv.pos⟩
  have hnd := (nodup_plug_iff cy xsh).mp g2
  have hndc : (ctxIdxs cy).Nodup := (List.nodup_append.mp hnd).2.1
  have hctxlt : ∀ i ∈ ctxIdxs cy, i * 8 + 7 < V.length := fun i hi => by
    have := Linked.idx_lt g1 i ((mem_plug_iff cy xsh i).mpr (Or.inr hi))
    simp only [V]; rw [hv.lenV]; omega
  have hfrlen : ∀ fr ∈ cy, fr.idx * 8 + 7 < V.length := fun fr hfr =>
    hctxlt _ ((frameRows_sublist cy).subset (List.mem_map_of_mem hfr))
  -- the abstraction after L1
  have habs1 : absCtx (s1.fa "tree_vals") N' cy =
      scanT (l1Step feq (vAt V (n - 1) 7) (minv (nodeAt V y))) (mxAt V n xsh.ptr) (absCtx V N cy) := by
    rw [b4, absCtx_scanArr _ n N' cy V xsh.ptr hndc hctxlt, absCtx_col g4]
  have hoth1 : ∀ i k, k < 8 → (i ∉ cy.map Fr.idx ∨ k ≠ 7) → vAt (s1.fa "tree_vals") i k = vAt V i k := by
    intro i k hk h
    rw [b4]; exact scanArr_other _ n N' cy V xsh.ptr hfrlen i k hk h
  have hS1 : vAt (s1.fa "tree_vals") (n - 1) 7 = vAt V (n - 1) 7 := hoth1 _ _ (by decide) (Or.inl (fun h => by
    obtain ⟨fr, hfr, e⟩ := List.mem_map.mp h
    have := Linked.idx_lt g1 fr.idx ((mem_plug_iff cy xsh _).mpr (Or.inr ((frameRows_sublist cy).subset (List.mem_map_of_mem hfr))))
    omega))
  have hxmx : mxOf (vAt V (n - 1) 7) (absT V N xsh) = mxAt V n xsh.ptr := (mxAt_absT V N n xsh).symm
  have e_tofix : s1.ienv "to_fix" = headOr xsh.ptr cy := by rw [hfr1.ienv _ (by decide)]; exact a6
  have hr : r = exec fuel (seqL (recompFixItems "10")) s1 := by
    simp only [r]
    rw [exec_seq_run _ _ _ _ (by rw [exec_seq_run _ _ _ _ (by rw [hs0]; exact a1), hs0, hs1]; exact b1),
      exec_seq_run _ _ _ _ (by rw [hs0]; exact a1), hs0, hs1]
  have hscal : ∀ (q : State F), (∀ v, v ∉ wI (seqL (recompFixItems "10")) → q.ienv v = s1.ienv v) →
      q.ienv "x" = xsh.ptr ∧ q.ienv "root" = rootOr xsh.ptr (s.ienv "root") cy ∧ q.ienv "y" = y ∧
        q.ienv "deleted" = y ∧ q.ienv "z" = s.ienv "z" := by
    intro q hq
    refine ⟨?_, ?_, ?_, ?_, ?_⟩
    · rw [hq _ (by decide), hfr1.ienv _ (by decide)]; exact a5
    · rw [hq _ (by decide), hfr1.ienv _ (by decide)]; exact a7
    · rw [hq _ (by decide), hfr1.ienv _ (by decide)]; exact a10
    · rw [hq _ (by decide), hfr1.ienv _ (by decide)]; exact a9
    · rw [hq _ (by decide), hfr1.ienv _ (by decide)]; exact a11
  have hfr2 := exec_frame fuel (seqL (recompFixItems "10")) s1
  rw [← hr] at hfr2
  cases cy with
  | nil =>
    -- `y` was the root: F1 recomputes `x`
    have hxne := hne rfl
    obtain ⟨xl, xi, xr, hxsh⟩ : ∃ xl xi xr, xsh = .node xl xi xr := by
      cases h : xsh with
      | nil => exact absurd h hxne
      | node a b c => exact ⟨a, b, c, rfl⟩
    rw [hxsh] at hlx
    obtain ⟨hxin, hx1, hx2, _, hlxl, hlxr⟩ := hlx
    have hV1 : s1.fa "tree_vals" = V := by rw [b4]; rfl
    have e1 : s1.ienv "to_fix" = xi := by rw [e_tofix, hxsh]; rfl
    obtain ⟨c1, c2, c3, c4, c5⟩ := recompFix10_spec fuel n s1 hv1 b1 xi hxin
      (by rw [hN1, hx1]; exact hlxl.ptrOK hv.pos) (by rw [hN1, hx2]; exact hlxr.ptrOK hv.pos) e1
    rw [← hr] at c1 c2 c3 c4 c5
    rw [hV1, hN1, hx1, hx2] at c4
    have hlen : xi * 8 + 7 < V.length := by simp only [V]; rw [hv.lenV]; omega
    have hsm := SetMax.set V xi (fixMax V n xi xl.ptr xr.ptr) hlen
    have hdx := Sh.ptr_ne_of_nodup xl xr xi (by rw [← hxsh]; exact (unplug [] xsh g1 g2).2.2)
    refine ⟨c1, ⟨by rw [c3]; exact hv1.shpV, by rw [c3]; exact hv1.shpN, by rw [c4]; simp [V, hv.lenV],
      by rw [c2, hN1, g3]; exact hv.lenN, hv.pos⟩, by rw [c2, hN1], ?_, ?_, ?_, hscal r hfr2.ienv⟩
    · rw [c4, hxsh]
      have e : absT (V.set (xi * 8 + 7) (fixMax V n xi xl.ptr xr.ptr).v) N' (.node xl xi xr) =
          .node (absT V N xl) (nodeAt V xi) (fixMax V n xi xl.ptr xr.ptr) (decide (nAt N xi 0 = 0)) (absT V N xr) := by
        simp only [absT, hsm.nodeAt, hsm.2.2.1, hsm.absT N' xl hdx.2.2.2.2.1, hsm.absT N' xr hdx.2.2.2.2.2]
        rw [absT_col g4 xl, absT_col g4 xr, g4 xi]
      rw [e]
      simp only [res, l1f1T, absCtx, List.map_nil, scanT, refresh, hxsh, absT, recomp, fixMax, mxAt_absT V N n xl,
        mxAt_absT V N n xr]
    · rw [c4]; rfl
    · intro i k hk h
      rw [c4, vAt_set _ _ _ _ _ _ (by decide) hk hlen]
      have : ¬ (i = xi ∧ k = 7) := by
        rintro ⟨rfl, rfl⟩
        rcases h with h | h
        · exact h rfl
        · exact h.2 rfl (by rw [hxsh]; rfl)
      simp [this]
  | cons fr rest =>
    -- F1 recomputes `y`'s parent
    obtain ⟨hpn, _, _⟩ := hcx.step
    obtain ⟨hk1, hk2⟩ := hcx.kidsOK hxOK hv.pos
    have e1 : s1.ienv "to_fix" = fr.idx := by rw [e_tofix]; rfl
    obtain ⟨c1, c2, c3, c4, c5⟩ := recompFix10_spec fuel n s1 hv1 b1 fr.idx hpn (by rw [hN1]; exact hk1)
      (by rw [hN1]; exact hk2) e1
    rw [← hr] at c1 c2 c3 c4 c5
    rw [hN1] at c4
    have hlen1 : fr.idx * 8 + 7 < (s1.fa "tree_vals").length := by rw [hlenV1]; omega
    -- the value F1 stores, in terms of the frame after L1
    have hxrow1 : mxAt (s1.fa "tree_vals") n xsh.ptr = mxAt V n xsh.ptr := by
      simp only [mxAt]
      refine hoth1 _ _ (by decide) (Or.inl (fun h => ?_))
      have hmem : rowOf n xsh.ptr ∈ ctxIdxs (fr :: rest) := (frameRows_sublist (fr :: rest)).subset h
      have hlt := Linked.idx_lt g1 _ ((mem_plug_iff (fr :: rest) xsh _).mpr (Or.inr hmem))
      rcases rowOf_ptr_cases (unplug (fr :: rest) xsh g1 g2).1 with e | e
      · omega
      · exact (List.nodup_append.mp hnd).2.2 _ e _ hmem rfl
    have hval : fixMax (s1.fa "tree_vals") n fr.idx (nAt N' fr.idx 1) (nAt N' fr.idx 2) =
        (absFr (s1.fa "tree_vals") N' fr).recompF (vAt V (n - 1) 7) (mxAt V n xsh.ptr) := by
      rw [← recompF_absFr (s1.fa "tree_vals") N' n xsh.ptr fr rest hcx, hS1, hxrow1]
    refine ⟨c1, ⟨by rw [c3]; exact hv1.shpV, by rw [c3]; exact hv1.shpN, by rw [c4]; simp [hlenV1],
      by rw [c2, hN1, g3]; exact hv.lenN, hv.pos⟩, by rw [c2, hN1], ?_, ?_, ?_, hscal r hfr2.ienv⟩
    · -- `x`'s subtree is untouched
      rw [c4]
      have hxrows : ∀ i ∈ xsh.idxs, i ∉ (fr :: rest).map Fr.idx := fun i hi h =>
        (List.nodup_append.mp hnd).2.2 i hi i ((frameRows_sublist (fr :: rest)).subset h) rfl
      have : absT ((s1.fa "tree_vals").set (fr.idx * 8 + 7)
          (fixMax (s1.fa "tree_vals") n fr.idx (nAt N' fr.idx 1) (nAt N' fr.idx 2)).v) N' xsh = absT V N xsh := by
        refine absT_congr xsh (fun i hi => ⟨fun k hk => ?_, g4 i⟩)
        rw [vAt_set _ _ _ _ _ _ (by decide) hk hlen1]
        have hne' : i ≠ fr.idx := fun e => hxrows i hi (by simp [e])
        simp only [hne', false_and, if_false]
        exact hoth1 i k hk (Or.inl (hxrows i hi))
      rw [this]
      simp only [res, l1f1T]
      rw [← hxmx] at habs1
      rw [show absCtx V N (fr :: rest) = absFr V N fr :: absCtx V N rest from rfl] at habs1 ⊢
      cases hsc : scanT (l1Step feq (vAt V (n - 1) 7) (minv (nodeAt V y))) (mxOf (vAt V (n - 1) 7) (absT V N xsh))
          (absFr V N fr :: absCtx V N rest) with
      | nil =>
        have := scanT_length (l1Step feq (vAt V (n - 1) 7) (minv (nodeAt V y))) (absFr V N fr :: absCtx V N rest)
          (mxOf (vAt V (n - 1) 7) (absT V N xsh))
        rw [hsc] at this; simp at this
      | cons f rs => rfl
    · rw [c4, absCtx_setHead _ N' fr rest _ hndc hlen1, hval]
      simp only [res, l1f1T]
      rw [← hxmx] at habs1
      rw [show absCtx V N (fr :: rest) = absFr V N fr :: absCtx V N rest from rfl] at habs1 ⊢
      cases hsc : scanT (l1Step feq (vAt V (n - 1) 7) (minv (nodeAt V y))) (mxOf (vAt V (n - 1) 7) (absT V N xsh))
          (absFr V N fr :: absCtx V N rest) with
      | nil =>
        have := scanT_length (l1Step feq (vAt V (n - 1) 7) (minv (nodeAt V y))) (absFr V N fr :: absCtx V N rest)
          (mxOf (vAt V (n - 1) 7) (absT V N xsh))
        rw [hsc] at this; simp at this
      | cons f rs =>
        rw [hsc] at habs1
        simp only [absCtx, List.map_cons, List.cons.injEq] at habs1
        simp only [hxmx]
        rw [habs1.1, ← habs1.2]
        rfl
    · intro i k hk h
      rw [c4, vAt_set _ _ _ _ _ _ (by decide) hk hlen1]
      have : ¬ (i = fr.idx ∧ k = 7) := by
        rintro ⟨rfl, rfl⟩
        rcases h with h | h
        · exact h rfl
        · exact h.1 (by simp)
      simp only [this, if_false]
      refine hoth1 i k hk ?_
      rcases h with h | h
      · exact Or.inr h
      · exact Or.inl h.1

end XrsVerif.ILVs
