import XrsVerif.Proofs.ILRegionsDefs
/-
  Proofs/ILRegionsGather.lean -- step 1 of the refinement of `Gen.IL.areaConnectivity`: the window-gathering block.

  `exec_gather`: in a state at cell `(y, x)` of a `rows × cols` raster, with `n = 8` (resp. `n = 4`), the block
  `if n == 8: src_window[0] = data[max(y-1,0), max(x-1,0)] … else: …` leaves everything alone except that afterwards
  `src_window = (gridNbrs rows cols n8 (y, x)).map (data at ·)` and `area_window = (gridNbrs …).map (out at ·)`:
  the k-th entry is the value at the k-th clamped neighbour of the model's neighbour list.  No read is out of range.
-/
namespace XrsVerif.IL.Rg
open XrsVerif XrsVerif.IL XrsVerif.Regions
variable {F : Type} [Fl F]
set_option linter.unusedSectionVars false
set_option linter.unusedVariables false

/-! ### clamped index expressions -/

theorem clampAdd_lt (n : Nat) (d : D) (k : Nat) (h : k < n) : clampAdd n d k < n := by
  cases d <;> simp only [clampAdd] <;> omega

theorem cidx_ok (v lim : String) (d : D) (s : State F) : (cidx v lim d).ok s = true := by
  cases d <;> simp [cidx, cm, cp, IE.ok]

theorem cidx_eval (v lim : String) (d : D) (s : State F) (k n : Nat) (hv : s.ienv v = (k : Int))
    (hl : s.ienv lim = (n : Int)) (h : k < n) : (cidx v lim d).eval s = ((clampAdd n d k : Nat) : Int) := by
  cases d <;> simp only [cidx, cm, cp, IE.eval, IOp.eval, hv, hl, clampAdd] <;> split <;> omega

/-- the flat position of a cell -/
def pos (cols : Nat) (c : Cell) : Nat := c.1 * cols + c.2

/-- the value of the flat array `A` at cell `c` -/
def at_ (cols : Nat) (A : List F) (c : Cell) : F := A.getD (pos cols c) Fl.nan

/-! ### the stores of one window -/

/-- `dst[k0 + i] = src[cy dy_i, cx dx_i]` for all offsets of `w`, then `more` -/
theorem exec_stores (fuel : Nat) (dst src : String) (hne : src ≠ dst) (rows cols n y x : Nat) (hy : y < rows) (hx : x < cols)
    (w : List (D × D)) (more : List St) (k0 : Nat) (s : State F)
    (hrun : s.ctl = .run) (hyv : s.ienv "y" = (y : Int)) (hxv : s.ienv "x" = (x : Int))
    (hrv : s.ienv "rows" = (rows : Int)) (hcv : s.ienv "cols" = (cols : Int))
    (hsrc : s.shp src = [rows, cols]) (hdst : s.shp dst = [n]) (hk : k0 + w.length ≤ n) :
    exec fuel (seqL (stores dst src w k0 ++ more)) s =
      exec fuel (seqL more)
        { s with
          fa := setS s.fa dst
                  (putFrom (s.fa dst) k0
                    (w.map fun d => at_ cols (s.fa src) (clampAdd rows d.1 y, clampAdd cols d.2 x))) } := by
  induction w generalizing k0 s with
  | nil =>
    simp only [stores, List.nil_append, List.map_nil, putFrom, setS_self]
  | cons d w ih =>
    simp only [List.length_cons] at hk
    have hey := cidx_eval "y" "rows" d.1 s y rows hyv hrv hy
    have hex := cidx_eval "x" "cols" d.2 s x cols hxv hcv hx
    have h1 := clampAdd_lt rows d.1 y hy
    have h2 := clampAdd_lt cols d.2 x hx
    have hst : exec fuel (.stF1 dst (.lit (k0 : Int)) (.ld2 src (cidx "y" "rows" d.1) (cidx "x" "cols" d.2))) s =
        { s with
          fa := setS s.fa dst ((s.fa dst).set k0
                  (at_ cols (s.fa src) (clampAdd rows d.1 y, clampAdd cols d.2 x))) } := by
      rw [exec_stF1]
      simp only [IE.ok, FE.ok, FE.eval, IE.eval, cidx_ok, hey, hex, hsrc, hdst, List.length_cons,
        List.length_nil, List.getD_cons_zero, List.getD_cons_succ, decide_true, Bool.and_true,
        inRange_of_lt _ _ h1, inRange_of_lt _ _ h2, inRange_of_lt k0 n (by omega), off2_nat, off1_nat, if_true,
        at_, pos]
    simp only [stores, List.cons_append]
    rw [exec_seqL_cons, hst, if_pos (by exact hrun)]
    refine (ih (k0 + 1) _ (by exact hrun) (by exact hyv) (by exact hxv) (by exact hrv) (by exact hcv)
      (by exact hsrc) (by exact hdst) (by omega)).trans ?_
    have hs : setS s.fa dst ((s.fa dst).set k0 (at_ cols (s.fa src) (clampAdd rows d.1 y, clampAdd cols d.2 x))) src
        = s.fa src := setS_other _ _ _ _ hne
    simp only [hs, setS_same, setS_setS, List.map_cons, putFrom]

/-- the model's clamped window positions of a cell -/
theorem gridNbrs_eq (rows cols : Nat) (n8 : Bool) (c : Cell) :
    gridNbrs rows cols n8 c = (window n8).map fun d => (clampAdd rows d.1 c.1, clampAdd cols d.2 c.2) := rfl

/-- one branch of the gathering block, for any window list of the right length -/
theorem exec_gatherW (fuel : Nat) (rows cols n y x : Nat) (hy : y < rows) (hx : x < cols)
    (w : List (D × D)) (hw : w.length = n) (s : State F)
    (hrun : s.ctl = .run) (hyv : s.ienv "y" = (y : Int)) (hxv : s.ienv "x" = (x : Int))
    (hrv : s.ienv "rows" = (rows : Int)) (hcv : s.ienv "cols" = (cols : Int))
    (hd : s.shp "data" = [rows, cols]) (ho : s.shp "out" = [rows, cols])
    (hsw : s.shp "src_window" = [n]) (haw : s.shp "area_window" = [n])
    (hsl : (s.fa "src_window").length = n) (hal : (s.fa "area_window").length = n) :
    exec fuel (gatherW w) s =
      { s with
        fa := setS (setS s.fa "src_window"
                (w.map fun d => at_ cols (s.fa "data") (clampAdd rows d.1 y, clampAdd cols d.2 x))) "area_window"
                (w.map fun d => at_ cols (s.fa "out") (clampAdd rows d.1 y, clampAdd cols d.2 x)) } := by
  unfold gatherW
  rw [exec_stores fuel "src_window" "data" (by decide) rows cols n y x hy hx w _ 0 s hrun hyv hxv hrv hcv hd hsw
    (by omega)]
  have := exec_stores fuel "area_window" "out" (by decide) rows cols n y x hy hx w [] 0
    { s with
      fa := setS s.fa "src_window"
              (putFrom (s.fa "src_window") 0
                (w.map fun d => at_ cols (s.fa "data") (clampAdd rows d.1 y, clampAdd cols d.2 x))) }
    hrun hyv hxv hrv hcv ho haw (by omega)
  simp only [List.append_nil] at this
  rw [this]
  simp only [seqL, exec_skip]
  rw [putFrom_all _ _ (by simp [hw, hsl])]
  have h1 : setS s.fa "src_window" (w.map fun d => at_ cols (s.fa "data") (clampAdd rows d.1 y, clampAdd cols d.2 x))
      "area_window" = s.fa "area_window" := setS_other _ _ _ _ (by decide)
  have h2 : setS s.fa "src_window" (w.map fun d => at_ cols (s.fa "data") (clampAdd rows d.1 y, clampAdd cols d.2 x))
      "out" = s.fa "out" := setS_other _ _ _ _ (by decide)
  rw [h1, h2, putFrom_all _ _ (by simp [hw, hal])]

/-- **step 1**: the window-gathering block (`n = 8` or `n = 4`) -/
theorem exec_gather (fuel : Nat) (rows cols n y x : Nat) (hn : n = 4 ∨ n = 8) (hy : y < rows) (hx : x < cols)
    (s : State F) (hrun : s.ctl = .run) (hyv : s.ienv "y" = (y : Int)) (hxv : s.ienv "x" = (x : Int))
    (hrv : s.ienv "rows" = (rows : Int)) (hcv : s.ienv "cols" = (cols : Int)) (hnv : s.ienv "n" = (n : Int))
    (hd : s.shp "data" = [rows, cols]) (ho : s.shp "out" = [rows, cols])
    (hsw : s.shp "src_window" = [n]) (haw : s.shp "area_window" = [n])
    (hsl : (s.fa "src_window").length = n) (hal : (s.fa "area_window").length = n) :
    exec fuel gather s =
      { s with
        fa := setS (setS s.fa "src_window"
                ((gridNbrs rows cols (decide (n = 8)) (y, x)).map (at_ cols (s.fa "data")))) "area_window"
                ((gridNbrs rows cols (decide (n = 8)) (y, x)).map (at_ cols (s.fa "out"))) } := by
  unfold gather
  rw [exec_ite]
  rcases hn with hn | hn
  · subst hn
    have : exec fuel (gatherW window4) s = _ :=
      exec_gatherW fuel rows cols 4 y x hy hx window4 rfl s hrun hyv hxv hrv hcv hd ho hsw haw hsl hal
    simp only [BE.ok, IE.ok, BE.eval, IE.eval, cmpInt, hnv, Bool.and_self, if_true]
    simp only [show ((4 : Nat) : Int) = 8 ↔ False by decide, decide_false, Bool.false_eq_true, if_false, this,
      gridNbrs_eq, window, List.map_map, show (4 : Nat) = 8 ↔ False by decide]
    rfl
  · subst hn
    have : exec fuel (gatherW window8) s = _ :=
      exec_gatherW fuel rows cols 8 y x hy hx window8 rfl s hrun hyv hxv hrv hcv hd ho hsw haw hsl hal
    simp only [BE.ok, IE.ok, BE.eval, IE.eval, cmpInt, hnv, Bool.and_self, if_true]
    simp only [show ((8 : Nat) : Int) = 8 ↔ True by decide, decide_true, if_true, this,
      gridNbrs_eq, window, List.map_map]
    rfl

end XrsVerif.IL.Rg
