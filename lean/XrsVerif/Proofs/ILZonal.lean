import XrsVerif.Proofs.ILangStrides
import XrsVerif.Gen.IL
import XrsVerif.Model.Zonal
/-
  Proofs/ILZonal.lean -- refinement (layer T3): the ILang program `Gen.IL.strides`, generated statement by
  statement from `_strides` of xrspatial/zonal.py, computes the hand model `Zonal.strides` (Model/Zonal.lean)
  for all arrays.

  * `stridesBy eq`: the hand model with the comparison of elements as a parameter (`strides = stridesBy (· == ·)`,
    `stridesBy_beq`); the program compares with `Fl.eq` (IEEE `==`: NaN equals nothing).
  * `strides_while`: the inner `while` advances `count` over the run of elements `Fl.eq` to `unique_zones[i]`,
    never reads out of range (the bound test comes first, `and` short-circuits), changes nothing else.
  * `strides_for`: the `for` loop stores the pointer after each zone.
  * `strides_refines`: the whole program, stated directly about `Gen.IL.strides`.
-/
namespace XrsVerif.Zonal
open XrsVerif XrsVerif.IL XrsVerif.IL.Sd
set_option linter.unusedSectionVars false
set_option linter.unusedSimpArgs false

/-- `strides` with the element comparison as a parameter (`eq x u`: the element `x` of `flatten_zones` equals
    the id `u`) -/
def stridesBy {κ : Type} (eq : κ → κ → Bool) : List κ → Nat → List κ → List Nat
  | _, _, [] => []
  | fz, c, u :: us =>
      let k := (fz.takeWhile (fun x => eq x u)).length
      (c + k) :: stridesBy eq (fz.drop k) (c + k) us

theorem stridesBy_beq {κ : Type} [DecidableEq κ] (fz : List κ) (c : Nat) (us : List κ) :
    stridesBy (fun x u => x == u) fz c us = strides fz c us := by
  induction us generalizing fz c with
  | nil => rfl
  | cons u us ih => simp only [stridesBy, strides, ih]

/-- the breaks of the images under an embedding that reflects the comparison -/
theorem stridesBy_map {κ F : Type} (e : F → F → Bool) (d : κ → κ → Bool) (emb : κ → F)
    (h : ∀ x y, e (emb x) (emb y) = d x y) (fz : List κ) (c : Nat) (us : List κ) :
    stridesBy e (fz.map emb) c (us.map emb) = stridesBy d fz c us := by
  induction us generalizing fz c with
  | nil => rfl
  | cons u us ih =>
    have hk : ((fz.map emb).takeWhile (fun x => e x (emb u))).length = (fz.takeWhile (fun x => d x u)).length := by
      induction fz with
      | nil => rfl
      | cons x xs ihx =>
        simp only [List.map_cons, List.takeWhile_cons, h]
        split <;> simp [ihx]
    simp only [List.map_cons, stridesBy, hk, ← List.map_drop, ih]

variable {F : Type} [Fl F]

/-! ### the pieces of `Gen.IL.strides` -/

def stCond : BE :=
  .and (.cmpI .lt (.var "count") (.var "num_elements"))
    (.cmpF .eq (.ld1 "flatten_zones" (.var "count")) (.ld1 "unique_zones" (.var "i")))
def stWhile : St := .while stCond (.setI "count" (.bin .add (.var "count") (.lit 1)))
def stBody : St := .seq stWhile (.stI1 "strides" (.var "i") (.var "count"))

/-- what the loops need of the state: the two arrays with their shapes, `num_elements` -/
structure StInv (fz uz : List F) (s : State F) : Prop where
  ctl : s.ctl = .run
  shf : s.shp "flatten_zones" = [fz.length]
  shu : s.shp "unique_zones" = [uz.length]
  faf : s.fa "flatten_zones" = fz
  fau : s.fa "unique_zones" = uz
  ne : s.ienv "num_elements" = fz.length

theorem state_eta_run (s : State F) (v : String) (x : Int) (h : s.ctl = .run) (hx : s.ienv v = x) :
    { s with ienv := setS s.ienv v x, ctl := .run } = s := by
  cases s; simp only at h hx; subst h hx; simp only [setS_self]

/-- the inner `while`: from `count = c` it stops at `c + k`, `k` = length of the run of elements equal (`Fl.eq`)
    to `u = unique_zones[i]` at the front of `fz.drop c`; nothing else changes; no read is out of range -/
theorem strides_while (fz uz : List F) (u : F) (fuel : Nat) :
    ∀ (s : State F) (c j : Nat), StInv fz uz s → s.ienv "count" = c → s.ienv "i" = j → uz[j]? = some u →
      fz.length - c < fuel →
      exec fuel stWhile s =
        { s with ienv := setS s.ienv "count" ((c + ((fz.drop c).takeWhile (fun x => Fl.eq x u)).length : Nat) : Int), ctl := .run } := by
  induction fuel with
  | zero => intro s c j _ _ _ _ h; omega
  | succ fuel ih =>
    intro s c j hI hc hj hu hf
    have hjl : j < uz.length := by
      rcases Nat.lt_or_ge j uz.length with h | h
      · exact h
      · rw [List.getElem?_eq_none h] at hu; cases hu
    have huj : uz[j] = u := by
      rw [List.getElem?_eq_getElem hjl] at hu; exact Option.some.inj hu
    have hjr : inRange (j : Int) uz.length = true := inRange_of_lt j uz.length hjl
    by_cases hlt : c < fz.length
    · have hcr : inRange (c : Int) fz.length = true := inRange_of_lt c fz.length hlt
      have hd : fz.drop c = fz[c] :: fz.drop (c + 1) := List.drop_eq_getElem_cons hlt
      have hok : stCond.ok s = true := by
        simp [stCond, BE.ok, FE.ok, IE.ok, IE.eval, hI.shf, hI.shu, hc, hj, hcr, hjr]
      have hev : stCond.eval s = Fl.eq fz[c] u := by
        simp [stCond, BE.eval, FE.eval, IE.eval, CmpOp.eval, cmpInt, hI.shf, hI.shu, hI.faf, hI.fau, hI.ne, hc, hj,
          off1_nat, hlt, hjl, huj]
      by_cases he : Fl.eq fz[c] u = true
      · -- one more element equal to u
        have hs1 : exec fuel (.setI "count" (.bin .add (.var "count") (.lit 1))) s
            = { s with ienv := setS s.ienv "count" ((c + 1 : Nat) : Int) } := by
          simp [exec, IE.ok, IE.eval, IOp.eval, hc]
        simp only [stWhile, exec, hok, hev, he, if_true, hs1]
        simp only [hI.ctl]
        have hI1 : StInv fz uz { s with ienv := setS s.ienv "count" ((c + 1 : Nat) : Int) } :=
          ⟨hI.ctl, hI.shf, hI.shu, hI.faf, hI.fau, by simp [setS, hI.ne]⟩
        have := ih _ (c + 1) j hI1 (by simp) (by simp [setS, hj]) hu (by omega)
        simp only [stWhile, hI.ctl] at this
        rw [this, hd, List.takeWhile_cons]
        simp only [he, if_true, List.length_cons, setS_setS]
        congr 3; omega
      · simp only [stWhile, exec, hok, hev, he, if_true]
        rw [hd, List.takeWhile_cons]
        simp only [he, List.length_nil, Nat.add_zero]
        exact (state_eta_run s "count" _ hI.ctl hc).symm
    · have hd : fz.drop c = [] := List.drop_eq_nil_of_le (by omega)
      have hok : stCond.ok s = true := by
        simp [stCond, BE.ok, FE.ok, IE.ok, BE.eval, IE.eval, cmpInt, hI.ne, hc]; omega
      have hev : stCond.eval s = false := by
        simp [stCond, BE.eval, IE.eval, cmpInt, hI.ne, hc]; omega
      simp only [stWhile, exec, hok, hev, if_true]
      simp only [hd, List.takeWhile_nil, List.length_nil, Nat.add_zero]
      exact (state_eta_run s "count" _ hI.ctl hc).symm

/-- one iteration of the `for`: the pointer after zone `u = unique_zones[j]` is stored at position `j` -/
theorem strides_step (fz uz : List F) (u : F) (fuel : Nat) (s : State F) (c j : Nat)
    (hI : StInv fz uz s) (hsh : s.shp "strides" = [uz.length]) (hc : s.ienv "count" = c)
    (hu : uz[j]? = some u) (hf : fz.length < fuel) :
    exec fuel stBody { s with ienv := setS s.ienv "i" (j : Int) } =
      { s with ienv := setS (setS s.ienv "i" (j : Int)) "count"
                  ((c + ((fz.drop c).takeWhile (fun x => Fl.eq x u)).length : Nat) : Int),
               ia := setS s.ia "strides" ((s.ia "strides").set j
                  ((c + ((fz.drop c).takeWhile (fun x => Fl.eq x u)).length : Nat) : Int)),
               ctl := .run } := by
  have hjl : j < uz.length := by
    rcases Nat.lt_or_ge j uz.length with h | h
    · exact h
    · rw [List.getElem?_eq_none h] at hu; cases hu
  have hI1 : StInv fz uz { s with ienv := setS s.ienv "i" (j : Int) } :=
    ⟨hI.ctl, hI.shf, hI.shu, hI.faf, hI.fau, by simp [setS, hI.ne]⟩
  have hw := strides_while fz uz u fuel { s with ienv := setS s.ienv "i" (j : Int) } c j hI1
    (by simp [setS, hc]) (by simp) hu (by omega)
  simp only [stBody, exec, hw]
  simp [IE.ok, IE.eval, hsh, inRange_of_lt j uz.length hjl, off1_nat, setS]

/-- the `for` loop over the remaining zones `us` (positions `pre.length ..`), entered with `count = c` -/
theorem strides_for (fz uz : List F) (fuel : Nat) (hf : fz.length < fuel) :
    ∀ (us pre : List F) (s : State F) (c : Nat), uz = pre ++ us → StInv fz uz s →
      s.shp "strides" = [uz.length] → (s.ia "strides").length = uz.length → s.ienv "count" = c →
      let r := loopOver (fun st i => exec fuel stBody { st with ienv := setS st.ienv "i" i })
        ((List.range' pre.length us.length).map (fun (k : Nat) => (k : Int))) s
      r.ctl = .run ∧ r.shp = s.shp ∧ r.fa = s.fa ∧
      r.ia "strides" = (s.ia "strides").take pre.length ++ (stridesBy Fl.eq (fz.drop c) c us).map (fun (k : Nat) => (k : Int)) := by
  intro us
  induction us with
  | nil =>
    intro pre s c huz hI _ hl _
    simp only [List.length_nil, List.range'_zero, List.map_nil, loopOver_nil, afterLoop_run _ hI.ctl, stridesBy,
      List.append_nil]
    rw [huz, List.append_nil] at hl
    exact ⟨hI.ctl, trivial, trivial, by rw [← hl, List.take_length]⟩
  | cons u us ih =>
    intro pre s c huz hI hsh hl hc
    have hu : uz[pre.length]? = some u := by rw [huz]; simp
    have hst := strides_step fz uz u fuel s c pre.length hI hsh hc hu hf
    simp only [List.length_cons, List.range'_succ, List.map_cons]
    rw [loopOver_cons _ _ _ _ hI.ctl]
    simp only [hst]
    rw [afterBody_run _ rfl]
    simp only [if_true]
    have hI1 : StInv fz uz { s with
        ienv := setS (setS s.ienv "i" (pre.length : Int)) "count"
                  ((c + ((fz.drop c).takeWhile (fun x => Fl.eq x u)).length : Nat) : Int),
        ia := setS s.ia "strides" ((s.ia "strides").set pre.length
                  ((c + ((fz.drop c).takeWhile (fun x => Fl.eq x u)).length : Nat) : Int)),
        ctl := .run } :=
      ⟨rfl, hI.shf, hI.shu, hI.faf, hI.fau, by simp [setS, hI.ne]⟩
    have := ih (pre ++ [u]) _ (c + ((fz.drop c).takeWhile (fun x => Fl.eq x u)).length)
      (by rw [huz]; simp) hI1 hsh (by simpa using hl) (by simp)
    simp only [List.length_append, List.length_cons, List.length_nil, Nat.zero_add] at this
    refine ⟨this.1, this.2.1, this.2.2.1, ?_⟩
    rw [this.2.2.2]
    have hlt : pre.length < (s.ia "strides").length := by rw [hl, huz]; simp
    simp only [stridesBy, List.drop_drop, setS_same, List.map_cons]
    rw [List.take_add_one]
    simp [List.take_set_of_le, hlt]

/-- well-formed inputs of `_strides`: two 1-D numeric arrays -/
structure StridesInput (fz uz : List F) (s : State F) : Prop where
  ctl : s.ctl = .run
  shf : s.shp "flatten_zones" = [fz.length]
  shu : s.shp "unique_zones" = [uz.length]
  faf : s.fa "flatten_zones" = fz
  fau : s.fa "unique_zones" = uz

/-- **refinement.** the program generated from `_strides`, run on any two arrays with fuel exceeding the number
    of elements, returns (never reading out of range) the integer array of the hand model's breaks, with `Fl.eq`
    as the comparison of elements; the input arrays are unchanged -/
theorem strides_refines (fz uz : List F) (s : State F) (fuel : Nat) (hin : StridesInput fz uz s)
    (hf : fz.length < fuel) :
    let r := Gen.IL.strides.run s fuel
    r.ctl = .ret ∧ r.shp "strides" = [uz.length] ∧ r.fa = s.fa ∧
    r.ia "strides" = (stridesBy Fl.eq fz 0 uz).map (fun (k : Nat) => (k : Int)) := by
  have hbody : Gen.IL.strides.body =
      .seq (.setI "num_elements" (.dim "flatten_zones" 0))
      (.seq (.setI "num_zones" (.dim "unique_zones" 0))
      (.seq (.allocI "strides" [(.dim "unique_zones" 0)] (.lit 0))
      (.seq (.setI "count" (.lit 0))
      (.seq (.forRange "i" (.lit 0) (.var "num_zones") (.lit 1) stBody)
      .ret)))) := rfl
  simp only [Prog.run, hbody]
  rw [exec_seq_eq fuel _ _ s { s with ienv := setS s.ienv "num_elements" (fz.length : Int) }
        (by simp [exec, IE.ok, IE.eval, hin.shf]) hin.ctl]
  rw [exec_seq_eq fuel _ _ _ { s with ienv := setS (setS s.ienv "num_elements" (fz.length : Int)) "num_zones" (uz.length : Int) }
        (by simp [exec, IE.ok, IE.eval, hin.shu]) hin.ctl]
  rw [exec_seq_eq fuel _ _ _ { s with
          ienv := setS (setS s.ienv "num_elements" (fz.length : Int)) "num_zones" (uz.length : Int),
          shp := setS s.shp "strides" [uz.length],
          ia := setS s.ia "strides" (List.replicate uz.length 0) }
        (by simp [exec, IE.ok, IE.eval, hin.shu]) hin.ctl]
  rw [exec_seq_eq fuel _ _ _ { s with
          ienv := setS (setS (setS s.ienv "num_elements" (fz.length : Int)) "num_zones" (uz.length : Int)) "count" 0,
          shp := setS s.shp "strides" [uz.length],
          ia := setS s.ia "strides" (List.replicate uz.length 0) }
        (by simp [exec, IE.ok, IE.eval]) hin.ctl]
  have hI : StInv fz uz { s with
          ienv := setS (setS (setS s.ienv "num_elements" (fz.length : Int)) "num_zones" (uz.length : Int)) "count" 0,
          shp := setS s.shp "strides" [uz.length],
          ia := setS s.ia "strides" (List.replicate uz.length 0) } :=
    ⟨hin.ctl, by simp [setS, hin.shf], by simp [setS, hin.shu], hin.faf, hin.fau, by simp [setS]⟩
  have hfor := strides_for fz uz fuel hf uz [] _ 0 rfl hI (by simp) (by simp) (by simp)
  simp only [List.length_nil, List.take_zero, List.nil_append, List.drop_zero, ← List.range_eq_range'] at hfor
  rw [exec_seq_eq fuel _ _ _ _ (exec_forRange_up fuel "i" (.var "num_zones") stBody _ uz.length rfl (by simp [IE.eval, setS]))
        hfor.1]
  simp only [exec]
  exact ⟨trivial, by rw [hfor.2.1]; simp, hfor.2.2.1, hfor.2.2.2⟩

/-- **refinement to `Zonal.strides`.** for ids of a type `κ` with decidable equality embedded into the number
    type such that `Fl.eq` on images is equality of ids (finite numbers: `some : K → NV K`; NaN is not in the image),
    the generated program returns the breaks `strides fz 0 uz` of the hand model -/
theorem strides_refines_model {κ : Type} [DecidableEq κ] (emb : κ → F)
    (hemb : ∀ x y, Fl.eq (emb x) (emb y) = decide (x = y)) (fz uz : List κ) (s : State F) (fuel : Nat)
    (hin : StridesInput (fz.map emb) (uz.map emb) s) (hf : fz.length < fuel) :
    let r := Gen.IL.strides.run s fuel
    r.ctl = .ret ∧ r.shp "strides" = [uz.length] ∧ r.fa = s.fa ∧
    r.ia "strides" = (strides fz 0 uz).map (fun (k : Nat) => (k : Int)) := by
  have h := strides_refines (fz.map emb) (uz.map emb) s fuel hin (by simpa using hf)
  simp only [List.length_map] at h
  rw [stridesBy_map Fl.eq (fun x u => x == u) emb (by intro x y; rw [hemb]; rfl), stridesBy_beq] at h
  exact h


/-- a state holding the two arrays and nothing else -/
def stridesState (fz uz : List F) : State F :=
  { (State.empty : State F) with
    fa := fun a => if a = "flatten_zones" then fz else if a = "unique_zones" then uz else []
    shp := fun a => if a = "flatten_zones" then [fz.length] else if a = "unique_zones" then [uz.length] else [] }

theorem stridesState_input (fz uz : List F) : StridesInput fz uz (stridesState fz uz) :=
  ⟨rfl, by simp [stridesState], by simp [stridesState], by simp [stridesState], by simp [stridesState]⟩

end XrsVerif.Zonal
