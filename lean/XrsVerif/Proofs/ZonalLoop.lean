import XrsVerif.Model.ZonalLoop
/-
  Proofs/ZonalLoop.lean -- the loop program of `_strides` (in the translator's normal form) computes the
  hand model `strides` of Model/Zonal.lean, for all arrays.

  Normal form (harness/facts_zonal.py): temporaries that are bound once are inlined
  (`num_elements = flatten_zones.shape[0]`), the array parameters are called `a0`, `a1`, the scalars
  `v0`, `v1`, ... in the order in which they are first bound, `x += k` is `x = x + k`, the allocation of the
  returned array is `outLen`.
-/
namespace XrsVerif.Zonal
variable {κ : Type} [DecidableEq κ]

/-- `_strides` as written in /repo, in normal form:
    `count = 0; for i in range(len(unique_zones)): while count < len(flatten_zones) and
     flatten_zones[count] == unique_zones[i]: count += 1; strides[i] = count` -/
def stridesSrc : LProg :=
  { outLen := .len "a1"
    body := [ .assign "v0" (.lit 0),
              .forRange "v1" (.len "a1")
                [ .whileDo (.and (.lt (.var "v0") (.len "a0")) (.eqAt "a0" (.var "v0") "a1" (.var "v1")))
                    [ .assign "v0" (.add (.var "v0") (.lit 1)) ],
                  .store (.var "v1") (.var "v0") ] ]
    ok := true }

/-- the two array parameters: `flatten_zones`, `unique_zones` -/
def stridesArrs (fz uz : List κ) : String → List κ :=
  fun a => if a = "a0" then fz else if a = "a1" then uz else []

omit [DecidableEq κ] in
@[simp] theorem stridesArrs_fz (fz uz : List κ) : stridesArrs fz uz "a0" = fz := by simp [stridesArrs]
omit [DecidableEq κ] in
@[simp] theorem stridesArrs_uz (fz uz : List κ) : stridesArrs fz uz "a1" = uz := by simp [stridesArrs]

abbrev whileC : BE := .and (.lt (.var "v0") (.len "a0")) (.eqAt "a0" (.var "v0") "a1" (.var "v1"))
abbrev whileB : List LS := [ .assign "v0" (.add (.var "v0") (.lit 1)) ]

/-- the inner `while`: from `count = c` it stops at `c + k`, `k` = length of the run of `u` at the front
    of `fz.drop c`; nothing else changes -/
theorem while_run (fz uz : List κ) (u : κ) (fuel : Nat) :
    ∀ (s : LState) (c : Nat), s.env "v0" = c → uz[s.env "v1"]? = some u → fz.length - c < fuel →
      let r := LS.exec (stridesArrs fz uz) fuel (.whileDo whileC whileB) s
      r.env "v0" = c + ((fz.drop c).takeWhile (· == u)).length ∧ r.out = s.out ∧
      ∀ v, v ≠ "v0" → r.env v = s.env v := by
  induction fuel with
  | zero => intro s c _ _ h; omega
  | succ fuel ih =>
    intro s c hc hi hf
    simp only [LS.exec]
    by_cases hcond : BE.eval (stridesArrs fz uz) s.env whileC = true
    · -- one more element equal to u
      simp only [hcond, if_true]
      simp only [BE.eval, NE.eval, hc, stridesArrs_fz, stridesArrs_uz, Bool.and_eq_true, decide_eq_true_eq] at hcond
      obtain ⟨hlt, heq⟩ := hcond
      have hfz : fz[c]? = some fz[c] := List.getElem?_eq_getElem hlt
      simp only [hfz, hi] at heq
      have heq' : fz[c] = u := by simpa using heq
      let s1 := execList (stridesArrs fz uz) fuel whileB s
      have hs1c : s1.env "v0" = c + 1 := by simp [s1, execList, LS.exec, setEnv, NE.eval, hc]
      have hs1o : s1.out = s.out := by simp [s1, execList, LS.exec]
      have hs1v : ∀ v, v ≠ "v0" → s1.env v = s.env v := by
        intro v hv; simp [s1, execList, LS.exec, setEnv, hv]
      obtain ⟨h1, h2, h3⟩ := ih s1 (c + 1) hs1c (by rw [hs1v _ (by decide)]; exact hi) (by omega)
      refine ⟨?_, by rw [h2, hs1o], fun v hv => by rw [h3 v hv, hs1v v hv]⟩
      rw [h1]
      have hd : fz.drop c = fz[c] :: fz.drop (c + 1) := List.drop_eq_getElem_cons hlt
      rw [hd, List.takeWhile_cons]
      simp [heq']
      omega
    · -- the loop stops
      simp only [hcond]
      refine ⟨?_, rfl, fun _ _ => rfl⟩
      simp only [Bool.not_eq_true] at hcond
      simp only [Bool.false_eq_true, if_false, hc]
      simp only [BE.eval, NE.eval, hc, stridesArrs_fz, stridesArrs_uz, hi] at hcond
      by_cases hlt : c < fz.length
      · have hfz : fz[c]? = some fz[c] := List.getElem?_eq_getElem hlt
        simp only [hlt, decide_true, Bool.true_and, hfz] at hcond
        have hd : fz.drop c = fz[c] :: fz.drop (c + 1) := List.drop_eq_getElem_cons hlt
        rw [hd, List.takeWhile_cons]
        have : (fz[c] == u) = false := by simpa using hcond
        simp [this]
      · have : fz.drop c = [] := List.drop_eq_nil_of_le (by omega)
        simp [this]

abbrev forBody : List LS := [ .whileDo whileC whileB, .store (.var "v1") (.var "v0") ]

/-- one iteration of the `for`: the break of zone `u` is stored at position `j` -/
theorem for_step (fz uz : List κ) (u : κ) (fuel : Nat) (s : LState) (c j : Nat)
    (hc : s.env "v0" = c) (hj : uz[j]? = some u) (hf : fz.length < fuel) :
    let r := execList (stridesArrs fz uz) fuel forBody { s with env := setEnv s.env "v1" j }
    r.env "v0" = c + ((fz.drop c).takeWhile (· == u)).length ∧
    r.out = s.out.set j (c + ((fz.drop c).takeWhile (· == u)).length) := by
  obtain ⟨h1, h2, h3⟩ := while_run fz uz u fuel { s with env := setEnv s.env "v1" j } c
    (by simp [setEnv, hc]) (by simpa [setEnv] using hj) (by omega)
  simp only [execList, LS.exec, NE.eval]
  refine ⟨h1, ?_⟩
  rw [h1, h2, h3 _ (by decide)]; simp [setEnv]

/-- the `for` loop over the remaining zones `us` (positions `pre.length ..`), started with `count = c` -/
theorem for_run (fz uz : List κ) (fuel : Nat) (hf : fz.length < fuel) :
    ∀ (us pre : List κ) (s : LState) (c : Nat), uz = pre ++ us →
      s.env "v0" = c → s.out.length = uz.length →
      ((List.range' pre.length us.length).foldl
          (fun st i => execList (stridesArrs fz uz) fuel forBody { st with env := setEnv st.env "v1" i }) s).out
        = s.out.take pre.length ++ strides (fz.drop c) c us := by
  intro us
  induction us with
  | nil =>
    intro pre s c huz _ hl
    simp only [List.length_nil, List.range'_zero, List.foldl_nil, strides, List.append_nil]
    rw [huz, List.append_nil] at hl
    rw [← hl, List.take_length]
  | cons u us ih =>
    intro pre s c huz hc hl
    have hj : uz[pre.length]? = some u := by rw [huz]; simp
    obtain ⟨h1, h3⟩ := for_step fz uz u fuel s c pre.length hc hj hf
    simp only [List.length_cons, List.range'_succ, List.foldl_cons]
    have := ih (pre ++ [u]) _ _ (by rw [huz]; simp) h1 (by rw [h3]; simpa using hl)
    simp only [List.length_append, List.length_cons, List.length_nil] at this
    rw [this, h3]
    have hlt : pre.length < s.out.length := by rw [hl, huz]; simp
    simp only [strides]
    rw [List.drop_drop]
    have : (s.out.set pre.length (c + ((fz.drop c).takeWhile (· == u)).length)).take (pre.length + 1)
        = s.out.take pre.length ++ [c + ((fz.drop c).takeWhile (· == u)).length] := by
      rw [List.take_add_one]
      simp [List.take_set_of_le, hlt]
    rw [this]
    simp

/-- **the program written in /repo computes the model's `strides`** for every pair of arrays
    (`fuel` only has to exceed the number of elements: every `while` makes at most that many steps) -/
theorem stridesSrc_run (fz uz : List κ) (fuel : Nat) (hf : fz.length < fuel) :
    stridesSrc.run (stridesArrs fz uz) fuel = strides fz 0 uz := by
  simp only [LProg.run, stridesSrc, execList, LS.exec, NE.eval, stridesArrs_uz]
  have h := for_run fz uz fuel hf uz [] { env := setEnv (fun _ => 0) "v0" 0, out := List.replicate uz.length 0 } 0 rfl
    (by simp [setEnv]) (by simp)
  simp only [List.length_nil, List.take_zero, List.nil_append, List.drop_zero] at h
  rw [← h]
  simp only [List.range_eq_range', execList, LS.exec, NE.eval]

end XrsVerif.Zonal
