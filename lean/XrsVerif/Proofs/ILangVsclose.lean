import XrsVerif.Proofs.ILangVsinsdel
import Mathlib.Data.List.Nodup
/-
  Proofs/ILangVsclose.lean -- the companion of `exec_ren` (Proofs/ILangVsinsdel.lean) for *array names*:

  * **array renaming** (`exec_renA`): for an injective renaming `σ` of the array names, running the renamed statement
    `renAS σ st` in a state `s` is running `st` in the state whose array `a` is the array `σ a` of `s` (`pullA σ s`);
    scalars and control are the same.  An inlined callee of the generated sweep is the stand-alone program's body with
    its scalars prefixed / renumbered (`renS`) and its array parameters replaced by the caller's arrays (`renAS`):
    `tree_vals ↦ status_values`, `tree_nodes ↦ status_struct`, `value ↦ status_node`.
  * `swapL`: a composition of transpositions of names given as a list of pairs (injective by construction).
-/
set_option linter.unusedSectionVars false
set_option linter.unusedVariables false
namespace XrsVerif.ILVs
open XrsVerif XrsVerif.IL
variable {F : Type} [Fl F]

/-! ### renaming of array names -/

def renAI (σ : String → String) : IE → IE
  | .lit n => .lit n
  | .var v => .var v
  | .bin op a b => .bin op (renAI σ a) (renAI σ b)
  | .neg a => .neg (renAI σ a)
  | .dim a k => .dim (σ a) k
  | .ld1 a i => .ld1 (σ a) (renAI σ i)
  | .ld2 a i j => .ld2 (σ a) (renAI σ i) (renAI σ j)
  | .sum a => .sum (σ a)

def renAF (σ : String → String) : FE → FE
  | .lit n d => .lit n d
  | .nan => .nan
  | .inf => .inf
  | .pi => .pi
  | .var v => .var v
  | .ofInt e => .ofInt (renAI σ e)
  | .ld1 a i => .ld1 (σ a) (renAI σ i)
  | .ld2 a i j => .ld2 (σ a) (renAI σ i) (renAI σ j)
  | .un op a => .un op (renAF σ a)
  | .bin op a b => .bin op (renAF σ a) (renAF σ b)
  | .ext fn a b c d k => .ext fn (renAF σ a) (renAF σ b) (renAF σ c) (renAF σ d) (renAI σ k)
  | .red op a => .red op (σ a)

def renAB (σ : String → String) : BE → BE
  | .tt => .tt
  | .ff => .ff
  | .var v => .var v
  | .cmpI op a b => .cmpI op (renAI σ a) (renAI σ b)
  | .cmpF op a b => .cmpF op (renAF σ a) (renAF σ b)
  | .isnan a => .isnan (renAF σ a)
  | .isfinite a => .isfinite (renAF σ a)
  | .and a b => .and (renAB σ a) (renAB σ b)
  | .or a b => .or (renAB σ a) (renAB σ b)
  | .not a => .not (renAB σ a)

def renAS (σ : String → String) : St → St
  | .skip => .skip
  | .seq a b => .seq (renAS σ a) (renAS σ b)
  | .setI v e => .setI v (renAI σ e)
  | .setF v e => .setF v (renAF σ e)
  | .setB v c => .setB v (renAB σ c)
  | .stF1 a i e => .stF1 (σ a) (renAI σ i) (renAF σ e)
  | .stF2 a i j e => .stF2 (σ a) (renAI σ i) (renAI σ j) (renAF σ e)
  | .stI1 a i e => .stI1 (σ a) (renAI σ i) (renAI σ e)
  | .stI2 a i j e => .stI2 (σ a) (renAI σ i) (renAI σ j) (renAI σ e)
  | .allocF a dims fill => .allocF (σ a) (dims.map (renAI σ)) (renAF σ fill)
  | .allocI a dims fill => .allocI (σ a) (dims.map (renAI σ)) (renAI σ fill)
  | .ite c t f => .ite (renAB σ c) (renAS σ t) (renAS σ f)
  | .while c b => .while (renAB σ c) (renAS σ b)
  | .forRange v lo hi step b => .forRange v (renAI σ lo) (renAI σ hi) (renAI σ step) (renAS σ b)
  | .forIn v a b => .forIn v (σ a) (renAS σ b)
  | .brk => .brk
  | .cont => .cont
  | .ret => .ret
  | .scope b => .scope (renAS σ b)
  | .fail m => .fail m

/-- the state seen through a renaming of the arrays: the array `a` is the array `σ a` of `s` -/
def pullA (σ : String → String) (s : State F) : State F :=
  { s with ia := fun a => s.ia (σ a), fa := fun a => s.fa (σ a), shp := fun a => s.shp (σ a) }

@[simp] theorem pullA_ctl (σ : String → String) (s : State F) : (pullA σ s).ctl = s.ctl := rfl
@[simp] theorem pullA_ia (σ : String → String) (s : State F) (a : String) : (pullA σ s).ia a = s.ia (σ a) := rfl
@[simp] theorem pullA_fa (σ : String → String) (s : State F) (a : String) : (pullA σ s).fa a = s.fa (σ a) := rfl
@[simp] theorem pullA_shp (σ : String → String) (s : State F) (a : String) : (pullA σ s).shp a = s.shp (σ a) := rfl
@[simp] theorem pullA_ext (σ : String → String) (s : State F) : (pullA σ s).ext = s.ext := rfl
@[simp] theorem pullA_ienv (σ : String → String) (s : State F) : (pullA σ s).ienv = s.ienv := rfl
@[simp] theorem pullA_fenv (σ : String → String) (s : State F) : (pullA σ s).fenv = s.fenv := rfl
@[simp] theorem pullA_benv (σ : String → String) (s : State F) : (pullA σ s).benv = s.benv := rfl

theorem renAI_eval (σ : String → String) (s : State F) : ∀ e : IE, (renAI σ e).eval s = e.eval (pullA σ s) := by
  intro e
  induction e with
  | lit n => rfl
  | var v => rfl
  | bin op a b iha ihb => simp only [renAI, IE.eval, iha, ihb]
  | neg a iha => simp only [renAI, IE.eval, iha]
  | dim a k => rfl
  | ld1 a i ihi => simp only [renAI, IE.eval, ihi, pullA_shp, pullA_ia]
  | ld2 a i j ihi ihj => simp only [renAI, IE.eval, ihi, ihj, pullA_shp, pullA_ia]
  | sum a => rfl

theorem renAI_ok (σ : String → String) (s : State F) : ∀ e : IE, (renAI σ e).ok s = e.ok (pullA σ s) := by
  intro e
  induction e with
  | lit n => rfl
  | var v => rfl
  | bin op a b iha ihb => simp only [renAI, IE.ok, iha, ihb, renAI_eval]
  | neg a iha => simp only [renAI, IE.ok, iha]
  | dim a k => rfl
  | ld1 a i ihi => simp only [renAI, IE.ok, ihi, renAI_eval, pullA_shp]; rfl
  | ld2 a i j ihi ihj => simp only [renAI, IE.ok, ihi, ihj, renAI_eval, pullA_shp]; rfl
  | sum a => rfl

theorem renAF_eval (σ : String → String) (s : State F) : ∀ e : FE, (renAF σ e).eval s = e.eval (pullA σ s) := by
  intro e
  induction e with
  | lit n d => rfl
  | nan => rfl
  | inf => rfl
  | pi => rfl
  | var v => rfl
  | ofInt e => simp only [renAF, FE.eval, renAI_eval]
  | ld1 a i => simp only [renAF, FE.eval, renAI_eval, pullA_shp, pullA_fa]
  | ld2 a i j => simp only [renAF, FE.eval, renAI_eval, pullA_shp, pullA_fa]
  | un op a iha => simp only [renAF, FE.eval, iha]
  | bin op a b iha ihb => simp only [renAF, FE.eval, iha, ihb]
  | ext fn a b c d k iha ihb ihc ihd => simp only [renAF, FE.eval, iha, ihb, ihc, ihd, renAI_eval, pullA_ext]
  | red op a => rfl

theorem renAF_ok (σ : String → String) (s : State F) : ∀ e : FE, (renAF σ e).ok s = e.ok (pullA σ s) := by
  intro e
  induction e with
  | lit n d => rfl
  | nan => rfl
  | inf => rfl
  | pi => rfl
  | var v => rfl
  | ofInt e => simp only [renAF, FE.ok, renAI_ok]
  | ld1 a i => simp only [renAF, FE.ok, renAI_ok, renAI_eval, pullA_shp]; rfl
  | ld2 a i j => simp only [renAF, FE.ok, renAI_ok, renAI_eval, pullA_shp]; rfl
  | un op a iha => simp only [renAF, FE.ok, iha]
  | bin op a b iha ihb => simp only [renAF, FE.ok, iha, ihb]
  | ext fn a b c d k iha ihb ihc ihd => simp only [renAF, FE.ok, iha, ihb, ihc, ihd, renAI_ok]
  | red op a => rfl

theorem renAB_eval (σ : String → String) (s : State F) : ∀ e : BE, (renAB σ e).eval s = e.eval (pullA σ s) := by
  intro e
  induction e with
  | tt => rfl
  | ff => rfl
  | var v => rfl
  | cmpI op a b => simp only [renAB, BE.eval, renAI_eval]
  | cmpF op a b => simp only [renAB, BE.eval, renAF_eval]
  | isnan a => simp only [renAB, BE.eval, renAF_eval]
  | isfinite a => simp only [renAB, BE.eval, renAF_eval]
  | and a b iha ihb => simp only [renAB, BE.eval, iha, ihb]
  | or a b iha ihb => simp only [renAB, BE.eval, iha, ihb]
  | not a iha => simp only [renAB, BE.eval, iha]

theorem renAB_ok (σ : String → String) (s : State F) : ∀ e : BE, (renAB σ e).ok s = e.ok (pullA σ s) := by
  intro e
  induction e with
  | tt => rfl
  | ff => rfl
  | var v => rfl
  | cmpI op a b => simp only [renAB, BE.ok, renAI_ok]
  | cmpF op a b => simp only [renAB, BE.ok, renAF_ok]
  | isnan a => simp only [renAB, BE.ok, renAF_ok]
  | isfinite a => simp only [renAB, BE.ok, renAF_ok]
  | and a b iha ihb => simp only [renAB, BE.ok, iha, ihb, renAB_eval]
  | or a b iha ihb => simp only [renAB, BE.ok, iha, ihb, renAB_eval]
  | not a iha => simp only [renAB, BE.ok, iha]

theorem pullA_afterBody (σ : String → String) (s : State F) : pullA σ (afterBody s) = afterBody (pullA σ s) := by
  unfold afterBody; simp only [pullA_ctl]; split <;> rfl

theorem pullA_afterLoop (σ : String → String) (s : State F) : pullA σ (afterLoop s) = afterLoop (pullA σ s) := by
  unfold afterLoop; simp only [pullA_ctl]; split <;> rfl

theorem pullA_loopOver {α} (σ : String → String) (f g : State F → α → State F) (xs : List α)
    (h : ∀ st x, pullA σ (f st x) = g (pullA σ st) x) (s : State F) :
    pullA σ (loopOver f xs s) = loopOver g xs (pullA σ s) := by
  unfold loopOver
  rw [pullA_afterLoop]
  congr 1
  induction xs generalizing s with
  | nil => rfl
  | cons x xs ih =>
    simp only [List.foldl_cons]
    rw [ih]
    congr 1
    by_cases hs : s.ctl = .run
    · simp only [hs, pullA_ctl, if_true, pullA_afterBody, h]
    · simp only [hs, pullA_ctl, if_false]

theorem all_renAI_ok (σ : String → String) (s : State F) (dims : List IE) :
    (dims.map (renAI σ)).all (·.ok s) = dims.all (·.ok (pullA σ s)) := by
  simp only [List.all_map, Function.comp_def, renAI_ok]

theorem all_renAI_nonneg (σ : String → String) (s : State F) (dims : List IE) :
    (dims.map (renAI σ)).all (fun d => decide (0 ≤ d.eval s)) = dims.all (fun d => decide (0 ≤ d.eval (pullA σ s))) := by
  simp only [List.all_map, Function.comp_def, renAI_eval]

theorem map_renAI_eval (σ : String → String) (s : State F) (dims : List IE) :
    (dims.map (renAI σ)).map (fun d => (d.eval s).toNat) = dims.map (fun d => (d.eval (pullA σ s)).toNat) := by
  simp only [List.map_map, Function.comp_def, renAI_eval]

/-- **array-renaming theorem**: the statement with its arrays renamed acts on the state as the statement acts on the
    state seen through the renaming -/
theorem exec_renA (σ : String → String) (hσ : Inj σ) :
    ∀ (fuel : Nat) (st : St) (s : State F), pullA σ (exec fuel (renAS σ st) s) = exec fuel st (pullA σ s) := by
  intro fuel
  induction fuel using Nat.strongRecOn with
  | _ fuel ihf =>
    intro st
    induction st with
    | skip => intro s; simp only [renAS, exec]
    | seq a b iha ihb =>
      intro s
      simp only [renAS, exec]
      have h1 := iha s
      have hc : (exec fuel (renAS σ a) s).ctl = (exec fuel a (pullA σ s)).ctl := by rw [← h1]; rfl
      rw [← hc]
      split
      · rw [ihb, h1]
      · exact h1
    | setI v e =>
      intro s
      simp only [renAS, exec, renAI_ok, renAI_eval]
      split <;> rfl
    | setF v e =>
      intro s
      simp only [renAS, exec, renAF_ok, renAF_eval]
      split <;> rfl
    | setB v e =>
      intro s
      simp only [renAS, exec, renAB_ok, renAB_eval]
      split <;> rfl
    | stF1 a i e =>
      intro s
      simp only [renAS, exec, renAI_ok, renAI_eval, renAF_ok, renAF_eval, pullA_shp, pullA_fa]
      rw [apply_ite (pullA σ)]
      congr 1
      simp only [pullA, pull_setS σ hσ]
    | stF2 a i j e =>
      intro s
      simp only [renAS, exec, renAI_ok, renAI_eval, renAF_ok, renAF_eval, pullA_shp, pullA_fa]
      rw [apply_ite (pullA σ)]
      congr 1
      simp only [pullA, pull_setS σ hσ]
    | stI1 a i e =>
      intro s
      simp only [renAS, exec, renAI_ok, renAI_eval, pullA_shp, pullA_ia]
      rw [apply_ite (pullA σ)]
      congr 1
      simp only [pullA, pull_setS σ hσ]
    | stI2 a i j e =>
      intro s
      simp only [renAS, exec, renAI_ok, renAI_eval, pullA_shp, pullA_ia]
      rw [apply_ite (pullA σ)]
      congr 1
      simp only [pullA, pull_setS σ hσ]
    | allocF a dims fill =>
      intro s
      simp only [renAS, exec, all_renAI_ok, all_renAI_nonneg, map_renAI_eval, renAF_ok, renAF_eval]
      rw [apply_ite (pullA σ)]
      congr 1
      simp only [pullA, pull_setS σ hσ]
    | allocI a dims fill =>
      intro s
      simp only [renAS, exec, all_renAI_ok, all_renAI_nonneg, map_renAI_eval, renAI_ok, renAI_eval]
      rw [apply_ite (pullA σ)]
      congr 1
      simp only [pullA, pull_setS σ hσ]
    | ite c t f iht ihf' =>
      intro s
      simp only [renAS, exec, renAB_ok, renAB_eval]
      split
      · split
        · exact iht s
        · exact ihf' s
      · rfl
    | «while» c b ihb =>
      intro s
      cases fuel with
      | zero => simp only [renAS, exec]; rfl
      | succ f =>
        simp only [renAS, exec, renAB_ok, renAB_eval]
        split
        · split
          · have h1 := ihf f (Nat.lt_succ_self f) b s
            have hw := ihf f (Nat.lt_succ_self f) (.while c b)
            simp only [renAS] at hw
            rw [← h1]
            generalize exec f (renAS σ b) s = s1
            cases hctl : s1.ctl with
            | run => simp only [pullA_ctl, hctl]; exact hw s1
            | cont => simp only [pullA_ctl, hctl]; exact hw _
            | brk => simp only [pullA_ctl, hctl]; rfl
            | ret => simp only [pullA_ctl, hctl]
            | err m => simp only [pullA_ctl, hctl]
          · rfl
        · rfl
    | forRange v lo hi step b ihb =>
      intro s
      simp only [renAS, exec, renAI_ok, renAI_eval]
      split
      · apply pullA_loopOver
        intro st x
        rw [ihb]
        rfl
      · rfl
    | forIn v a b ihb =>
      intro s
      simp only [renAS, exec]
      by_cases hc : (s.shp (σ a)).length = 1
      · rw [if_pos hc, if_pos (show ((pullA σ s).shp a).length = 1 from hc)]
        apply pullA_loopOver
        intro st x
        rw [ihb]
        rfl
      · rw [if_neg hc, if_neg (show ¬ ((pullA σ s).shp a).length = 1 from hc)]; rfl
    | brk => intro s; simp only [renAS, exec]; rfl
    | cont => intro s; simp only [renAS, exec]; rfl
    | ret => intro s; simp only [renAS, exec]; rfl
    | scope b ihb =>
      intro s
      simp only [renAS, exec]
      have h1 := ihb s
      have hc : (exec fuel (renAS σ b) s).ctl = (exec fuel b (pullA σ s)).ctl := by rw [← h1]; rfl
      rw [← hc, ← h1]
      split <;> rfl
    | fail m => intro s; simp only [renAS, exec]; rfl

/-! ### a list of transpositions -/

/-- exchange the two names of every pair, the last pair of the list first -/
def swapL : List (String × String) → String → String
  | [], v => v
  | (a, b) :: rest, v => swapS a b (swapL rest v)

theorem inj_swapL : ∀ l : List (String × String), Inj (swapL l)
  | [] => fun _ _ h => h
  | (a, b) :: rest => fun x y h => inj_swapL rest _ _ (inj_swapS a b _ _ h)


/-! ### a table of disjoint transpositions, evaluated by first match -/

/-- exchange `a` and `b` for every row `(a, b)` of the table (first match) -/
def swapT (tbl : List (String × String)) (v : String) : String :=
  match tbl.find? (fun p => p.1 == v) with
  | some p => p.2
  | none =>
    match tbl.find? (fun p => p.2 == v) with
    | some p => p.1
    | none => v

/-- the names of the table are pairwise different -/
def TblOK (tbl : List (String × String)) : Prop := (tbl.map Prod.fst ++ tbl.map Prod.snd).Nodup

instance (tbl : List (String × String)) : Decidable (TblOK tbl) := by unfold TblOK; infer_instance

theorem swapT_invol (tbl : List (String × String)) (h : TblOK tbl) (v : String) : swapT tbl (swapT tbl v) = v := by
  obtain ⟨h1, h2, h3⟩ := List.nodup_append.mp h
  have inj1 := List.inj_on_of_nodup_map h1
  have inj2 := List.inj_on_of_nodup_map h2
  cases hf : tbl.find? (fun p => p.1 == v) with
  | some p =>
    have hp := List.find?_some hf
    have hm := List.mem_of_find?_eq_some hf
    simp only [beq_iff_eq] at hp
    have e1 : swapT tbl v = p.2 := by simp only [swapT, hf]
    rw [e1]
    have hn : tbl.find? (fun q => q.1 == p.2) = none := by
      rw [List.find?_eq_none]
      intro q hq hqe
      simp only [beq_iff_eq] at hqe
      exact h3 q.1 (List.mem_map_of_mem hq) p.2 (List.mem_map_of_mem hm) hqe
    cases hg : tbl.find? (fun q => q.2 == p.2) with
    | some q =>
      have hq := List.find?_some hg
      have hqm := List.mem_of_find?_eq_some hg
      simp only [beq_iff_eq] at hq
      have : q = p := inj2 hqm hm hq
      simp only [swapT, hn, hg, this, hp]
    | none =>
      rw [List.find?_eq_none] at hg
      exact absurd (by simp) (hg p hm)
  | none =>
    cases hg : tbl.find? (fun q => q.2 == v) with
    | some p =>
      have hp := List.find?_some hg
      have hm := List.mem_of_find?_eq_some hg
      simp only [beq_iff_eq] at hp
      have e1 : swapT tbl v = p.1 := by simp only [swapT, hf, hg]
      rw [e1]
      cases hh : tbl.find? (fun q => q.1 == p.1) with
      | some q =>
        have hq := List.find?_some hh
        have hqm := List.mem_of_find?_eq_some hh
        simp only [beq_iff_eq] at hq
        have : q = p := inj1 hqm hm hq
        simp only [swapT, hh, this, hp]
      | none =>
        rw [List.find?_eq_none] at hh
        exact absurd (by simp) (hh p hm)
    | none =>
      have e1 : swapT tbl v = v := by simp only [swapT, hf, hg]
      rw [e1, e1]

theorem inj_swapT (tbl : List (String × String)) (h : TblOK tbl) : Inj (swapT tbl) := fun x y e => by
  have := congrArg (swapT tbl) e
  rwa [swapT_invol tbl h, swapT_invol tbl h] at this

end XrsVerif.ILVs
