import XrsVerif.Proofs.ILViewshedFixInsLoop
/-
  Proofs/ILViewshedFixInsMain.lean -- the loop of `_rb_insert_fixup`, the whole fix-up, and **`vsInsert_refines`**:
  the generated `_insert_into_tree` leaves arrays that hold the model's complete insertion
  `rbInsFix S (insDirsR key t []) (insCoreC node t).1` -- leaf insertion with its upward propagation, then the colour
  fix-up started at the new leaf, the root blackened -- well linked, without repeated rows, the rows of the old tree
  plus the new one; it returns the root; the NIL row keeps its maximum and its colour; no other array is touched.
-/
set_option linter.unusedSectionVars false
set_option linter.unusedVariables false
set_option linter.unusedSimpArgs false
namespace XrsVerif.ILVs
open XrsVerif XrsVerif.IL XrsVerif.Viewshed
variable {F : Type} [Fl F]

/-! ### one iteration -/

theorem insFixBody_spec (fuel n : Nat) (s : State F) (zl : Sh) (z : Nat) (zr : Sh) (pf : Fr) (rest0 : Ctx)
    (h : FixCore s n zl z zr (pf :: rest0)) (hzp : s.ienv "_rb_insert_fixup6$z_parent" = pf.idx)
    (hred : nAt (s.ia "tree_nodes") pf.idx 0 = 0) :
    let r := exec fuel insFixBody s
    r.ctl = .run ∧ ∃ (zl' : Sh) (z' : Nat) (zr' : Sh) (ctx' : Ctx), FixCore r n zl' z' zr' ctx' ∧
      r.ienv "_rb_insert_fixup6$z_parent" = ctxPar ctx' ∧ ctx'.length < (pf :: rest0).length ∧
      (plug (.node zl' z' zr') ctx').idxs = (plug (.node zl z zr) (pf :: rest0)).idxs ∧
      vAt (r.fa "tree_vals") (n - 1) 7 = vAt (s.fa "tree_vals") (n - 1) 7 ∧
      insFixP (vAt (s.fa "tree_vals") (n - 1) 7) (ctx'.map Fr.dir)
          (absT (r.fa "tree_vals") (r.ia "tree_nodes") (plug (.node zl' z' zr') ctx')) =
        insFixP (vAt (s.fa "tree_vals") (n - 1) 7) ((pf :: rest0).map Fr.dir)
          (absT (s.fa "tree_vals") (s.ia "tree_nodes") (plug (.node zl z zr) (pf :: rest0))) := by
  intro r
  have hv := h.vs
  have hrun := h.run
  -- the parent is not the root: the root is black
  obtain ⟨gf, rest, rfl⟩ : ∃ gf rest, rest0 = gf :: rest := by
    cases rest0 with
    | nil =>
      have := h.rootBlack (by simp)
      rw [plug_cons] at this
      simp only [plug, isRed_fill, hred, decide_true] at this
      exact absurd this (by simp)
    | cons a b => exact ⟨a, b, rfl⟩
  obtain ⟨hlz, hcz, _⟩ := unplug _ _ h.linked h.nodup
  obtain ⟨hpn, hp3, hcp⟩ := hcz.step
  rw [ctxPar_cons] at hp3
  have hz3 : nAt (s.ia "tree_nodes") z 3 = pf.idx := by have := hlz.2.2.2.1; rw [ctxPar_cons] at this; exact this
  have hzn : z + 1 < n := hlz.1
  obtain ⟨hgn, _, _⟩ := hcp.step
  -- the three reads
  have h1 := exec_ldN fuel n s hv.shpN "_rb_insert_fixup6$z_parent_parent" "_rb_insert_fixup6$z_parent" 3 (by decide)
    (by rw [hzp]; exact inRange_ptr n _ (by omega) hv.pos) gf.idx (by rw [hzp, rowOf_nat]; exact hp3)
  generalize hs1 : ({ s with ienv := setS s.ienv "_rb_insert_fixup6$z_parent_parent" (gf.idx : Int) } : State F) = s1 at h1
  have hv1 : VS s1 n := by rw [← hs1]; exact hv.of_eq rfl rfl rfl
  have hia1 : s1.ia = s.ia := by rw [← hs1]
  have ez1 : s1.ienv "_rb_insert_fixup6$z" = z := by rw [← hs1]; simp [setS, h.hz]
  have h2 := exec_ldN fuel n s1 hv1.shpN "_rb_insert_fixup6$n1" "_rb_insert_fixup6$z" 3 (by decide)
    (by rw [ez1]; exact inRange_ptr n _ (by omega) hv.pos) pf.idx (by rw [ez1, rowOf_nat, hia1]; exact hz3)
  generalize hs2 : ({ s1 with ienv := setS s1.ienv "_rb_insert_fixup6$n1" (pf.idx : Int) } : State F) = s2 at h2
  have hv2 : VS s2 n := by rw [← hs2]; exact hv1.of_eq rfl rfl rfl
  have hia2 : s2.ia = s.ia := by rw [← hs2]; exact hia1
  have ezpp2 : s2.ienv "_rb_insert_fixup6$z_parent_parent" = gf.idx := by rw [← hs2, ← hs1]; simp [setS]
  have h3 := exec_ldN fuel n s2 hv2.shpN "_rb_insert_fixup6$n2" "_rb_insert_fixup6$z_parent_parent" 1 (by decide)
    (by rw [ezpp2]; exact inRange_ptr n _ (by omega) hv.pos) (nAt (s.ia "tree_nodes") gf.idx 1)
    (by rw [ezpp2, rowOf_nat, hia2]; rfl)
  generalize hs3 : ({ s2 with ienv := setS s2.ienv "_rb_insert_fixup6$n2" (nAt (s.ia "tree_nodes") gf.idx 1) } : State F) = s3 at h3
  have hrun3 : s3.ctl = .run := by rw [← hs3, ← hs2, ← hs1]; exact hrun
  have hia3 : s3.ia = s.ia := by rw [← hs3]; exact hia2
  have hfa3 : s3.fa = s.fa := by rw [← hs3, ← hs2, ← hs1]
  have hshp3 : s3.shp = s.shp := by rw [← hs3, ← hs2, ← hs1]
  have en1 : s3.ienv "_rb_insert_fixup6$n1" = pf.idx := by rw [← hs3, ← hs2]; simp [setS]
  have en2 : s3.ienv "_rb_insert_fixup6$n2" = nAt (s.ia "tree_nodes") gf.idx 1 := by rw [← hs3]; simp [setS]
  have ezp3 : s3.ienv "_rb_insert_fixup6$z_parent" = pf.idx := by rw [← hs3, ← hs2, ← hs1]; simp [setS, hzp]
  have ezpp3 : s3.ienv "_rb_insert_fixup6$z_parent_parent" = gf.idx := by rw [← hs3, ← hs2, ← hs1]; simp [setS]
  have hcore3 : FixCore s3 n zl z zr (pf :: gf :: rest) :=
    h.of_eq hshp3 hfa3 hia3 (by rw [hrun3, hrun]) (by rw [← hs3, ← hs2, ← hs1]; simp [setS])
      (by rw [← hs3, ← hs2, ← hs1]; simp [setS])
  have hr0 : r = exec fuel (.seq (.ite (.cmpI .eq (.var "_rb_insert_fixup6$n1") (.var "_rb_insert_fixup6$n2"))
      (insFixCase 2 2 lrot7 rrot10) (insFixCase 1 1 rrot13 lrot16)) insFixTail) s3 := by
    simp only [r, insFixBody]
    rw [exec_seq_run _ _ _ _ (by rw [h1, ← hs1]; exact hrun), h1,
      exec_seq_run _ _ _ _ (by rw [h2, ← hs2, ← hs1]; exact hrun), h2,
      exec_seq_run _ _ _ _ (by rw [h3]; exact hrun3), h3]
  have hcok : BE.ok s3 (.cmpI .eq (.var "_rb_insert_fixup6$n1") (.var "_rb_insert_fixup6$n2")) = true := by
    rw [BE.ok_cmpI, IE.ok_var, IE.ok_var]; rfl
  have hcev : BE.eval s3 (.cmpI .eq (.var "_rb_insert_fixup6$n1") (.var "_rb_insert_fixup6$n2")) =
      decide ((pf.idx : Int) = nAt (s.ia "tree_nodes") gf.idx 1) := by
    rw [BE.eval_cmpI, IE.eval_var, IE.eval_var, en1, en2]; rfl
  -- the case, then the tail
  have key : ∀ (r1 : State F), r1.ctl = .run → FixStep s3 r1 n zl z zr (pf :: gf :: rest) →
      r = exec fuel insFixTail r1 →
      r.ctl = .run ∧ ∃ (zl' : Sh) (z' : Nat) (zr' : Sh) (ctx' : Ctx), FixCore r n zl' z' zr' ctx' ∧
        r.ienv "_rb_insert_fixup6$z_parent" = ctxPar ctx' ∧ ctx'.length < (pf :: gf :: rest).length ∧
        (plug (.node zl' z' zr') ctx').idxs = (plug (.node zl z zr) (pf :: gf :: rest)).idxs ∧
        vAt (r.fa "tree_vals") (n - 1) 7 = vAt (s.fa "tree_vals") (n - 1) 7 ∧
        insFixP (vAt (s.fa "tree_vals") (n - 1) 7) (ctx'.map Fr.dir)
            (absT (r.fa "tree_vals") (r.ia "tree_nodes") (plug (.node zl' z' zr') ctx')) =
          insFixP (vAt (s.fa "tree_vals") (n - 1) 7) ((pf :: gf :: rest).map Fr.dir)
            (absT (s.fa "tree_vals") (s.ia "tree_nodes") (plug (.node zl z zr) (pf :: gf :: rest))) := by
    intro r1 hrun1 hstep hr
    obtain ⟨zl', z', zr', ctx', k1, k2, k3, k4, k5⟩ := hstep
    rw [hfa3, hia3] at k5
    rw [hfa3] at k4
    obtain ⟨hlz', _, _⟩ := unplug _ _ k1.linked k1.nodup
    have ht := exec_ldN fuel n r1 k1.vs.shpN "_rb_insert_fixup6$z_parent" "_rb_insert_fixup6$z" 3 (by decide)
      (by rw [k1.hz]; exact inRange_ptr n _ (by have := hlz'.1; omega) k1.vs.pos) (ctxPar ctx')
      (by rw [k1.hz, rowOf_nat]; exact hlz'.2.2.2.1)
    have hr' : r = { r1 with ienv := setS r1.ienv "_rb_insert_fixup6$z_parent" (ctxPar ctx') } := by
      rw [hr]; exact ht
    rw [hr']
    refine ⟨hrun1, zl', z', zr', ctx', k1.of_eq rfl rfl rfl rfl (by simp [setS]) (by simp [setS]), by simp [setS],
      k2, k3, k4, k5⟩
  cases gf with
  | L g u =>
    obtain ⟨_, hg1, _⟩ := hcp
    have hg1' : nAt (s.ia "tree_nodes") g 1 = pf.idx := hg1
    obtain ⟨c1, c2⟩ := caseL_spec fuel n s3 zl z zr pf g u rest hcore3 ezp3 ezpp3 (by rw [hia3]; exact hred)
    refine key _ c1 c2 ?_
    rw [hr0, exec_seq_run _ _ _ _ (by
      rw [exec_ite_true _ _ _ _ _ hcok (by rw [hcev]; simp [Fr.idx, hg1'])]; exact c1),
      exec_ite_true _ _ _ _ _ hcok (by rw [hcev]; simp [Fr.idx, hg1'])]
  | R u g =>
    obtain ⟨_, hg1, _, hg4, _⟩ := hcp
    have hne : ¬ ((pf.idx : Int) = nAt (s.ia "tree_nodes") g 1) := by
      rw [hg1]; intro e; exact hg4 (by omega) e.symm
    obtain ⟨c1, c2⟩ := caseR_spec fuel n s3 zl z zr pf u g rest hcore3 ezp3 ezpp3 (by rw [hia3]; exact hred)
    refine key _ c1 c2 ?_
    rw [hr0, exec_seq_run _ _ _ _ (by
      rw [exec_ite_false _ _ _ _ _ hcok (by rw [hcev]; exact decide_eq_false hne)]; exact c1),
      exec_ite_false _ _ _ _ _ hcok (by rw [hcev]; exact decide_eq_false hne)]

/-! ### the loop -/

theorem insFixLoop_spec (n : Nat) : ∀ (k : Nat) (ctx : Ctx), ctx.length ≤ k → ∀ (zl : Sh) (z : Nat) (zr : Sh) (fuel : Nat)
    (s : State F), FixCore s n zl z zr ctx → s.ienv "_rb_insert_fixup6$z_parent" = ctxPar ctx → k + 1 ≤ fuel →
    let r := exec fuel insFixLoop s
    r.ctl = .run ∧ ∃ (zl' : Sh) (z' : Nat) (zr' : Sh) (ctx' : Ctx), FixCore r n zl' z' zr' ctx' ∧
      (plug (.node zl' z' zr') ctx').idxs = (plug (.node zl z zr) ctx).idxs ∧
      vAt (r.fa "tree_vals") (n - 1) 7 = vAt (s.fa "tree_vals") (n - 1) 7 ∧
      absT (r.fa "tree_vals") (r.ia "tree_nodes") (plug (.node zl' z' zr') ctx') =
        insFixP (vAt (s.fa "tree_vals") (n - 1) 7) (ctx.map Fr.dir)
          (absT (s.fa "tree_vals") (s.ia "tree_nodes") (plug (.node zl z zr) ctx)) := by
  intro k
  induction k with
  | zero =>
    intro ctx hk zl z zr fuel s h hzp hf
    have : ctx = [] := List.length_eq_zero_iff.mp (Nat.le_zero.mp hk)
    subst this
    obtain ⟨fuel, rfl⟩ : ∃ f, fuel = f + 1 := ⟨fuel - 1, by omega⟩
    intro r
    have hin : inRange (s.ienv "_rb_insert_fixup6$z_parent") n = true := by
      rw [hzp]; exact inRange_ptr n _ (by simp [ctxPar]; omega) h.vs.pos
    have hr : r = s := by
      simp only [r, insFixLoop]
      rw [exec_while_exit]
      · rw [BE.ok_cmpI, okN s n h.vs.shpN _ 0 (by decide), hin, IE.ok_lit]; rfl
      · rw [BE.eval_cmpI, evalN s n h.vs.shpN _ 0 (by decide), hzp, IE.eval_lit]
        simp [ctxPar, cmpInt, h.nilBlack]
    rw [hr]
    exact ⟨h.run, zl, z, zr, [], h, rfl, rfl, by simp [insFixP]⟩
  | succ k ih =>
    intro ctx hk zl z zr fuel s h hzp hf
    obtain ⟨fuel, rfl⟩ : ∃ f, fuel = f + 1 := ⟨fuel - 1, by omega⟩
    intro r
    cases ctx with
    | nil =>
      have hin : inRange (s.ienv "_rb_insert_fixup6$z_parent") n = true := by
        rw [hzp]; exact inRange_ptr n _ (by simp [ctxPar]; omega) h.vs.pos
      have hr : r = s := by
        simp only [r, insFixLoop]
        rw [exec_while_exit]
        · rw [BE.ok_cmpI, okN s n h.vs.shpN _ 0 (by decide), hin, IE.ok_lit]; rfl
        · rw [BE.eval_cmpI, evalN s n h.vs.shpN _ 0 (by decide), hzp, IE.eval_lit]
          simp [ctxPar, cmpInt, h.nilBlack]
      rw [hr]
      exact ⟨h.run, zl, z, zr, [], h, rfl, rfl, by simp [insFixP]⟩
    | cons pf rest0 =>
      rw [ctxPar_cons] at hzp
      have hpn : pf.idx + 1 < n := Linked.idx_lt h.linked _ (by
        rw [plug_cons]; exact mem_plug _ _ _ (Sh.ptr_mem _ _ (fill_ptr pf _)))
      have hin : inRange (s.ienv "_rb_insert_fixup6$z_parent") n = true := by
        rw [hzp]; exact inRange_ptr n _ (by omega) h.vs.pos
      have hok : BE.ok s (.cmpI .eq (.ld2 "tree_nodes" (.var "_rb_insert_fixup6$z_parent") (.lit 0)) (.lit 0)) = true := by
        rw [BE.ok_cmpI, okN s n h.vs.shpN _ 0 (by decide), hin, IE.ok_lit]; rfl
      have hev : BE.eval s (.cmpI .eq (.ld2 "tree_nodes" (.var "_rb_insert_fixup6$z_parent") (.lit 0)) (.lit 0)) =
          decide (nAt (s.ia "tree_nodes") pf.idx 0 = 0) := by
        rw [BE.eval_cmpI, evalN s n h.vs.shpN _ 0 (by decide), hzp, rowOf_nat, IE.eval_lit]; rfl
      by_cases hred : nAt (s.ia "tree_nodes") pf.idx 0 = 0
      · -- one iteration
        obtain ⟨b1, zl1, z1, zr1, ctx1, b2, b3, b4, b5, b6, b7⟩ := insFixBody_spec fuel n s zl z zr pf rest0 h hzp hred
        generalize hs1 : exec fuel insFixBody s = s1 at b1 b2 b3 b5 b6 b7
        have hr : r = exec fuel insFixLoop s1 := by
          simp only [r, insFixLoop]
          rw [exec_while_step _ _ _ _ hok (by rw [hev]; simp [hred]) (by rw [hs1]; exact b1), hs1]
        obtain ⟨c1, zl2, z2, zr2, ctx2, c2, c3, c4, c5⟩ := ih ctx1 (by simp only [List.length_cons] at b4 hk; omega)
          zl1 z1 zr1 fuel s1 b2 b3 (by omega)
        rw [← hr] at c1 c2 c4 c5
        exact ⟨c1, zl2, z2, zr2, ctx2, c2, c3.trans b5, by rw [c4, b6], by rw [c5, b6, b7]⟩
      · -- black parent: the loop ends
        have hr : r = s := by
          simp only [r, insFixLoop]
          rw [exec_while_exit _ _ _ _ hok (by rw [hev]; simp [hred])]
        rw [hr]
        refine ⟨h.run, zl, z, zr, pf :: rest0, h, rfl, rfl, ?_⟩
        rw [insFixP_stop _ _ _ _ _ (fun pf' rest' e => by
          simp only [List.cons.injEq] at e; rw [← e.1]; exact hred)]

end XrsVerif.ILVs
