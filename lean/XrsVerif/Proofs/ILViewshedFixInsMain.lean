import XrsVerif.Proofs.ILViewshedFixInsLoop
/-
  Proofs/ILViewshedFixInsMain.lean -- the loop of `_rb_insert_fixup`, the whole fix-up, and **`vsInsert_refines`**:
  the generated `_insert_into_tree` leaves arrays that hold the model's complete insertion
  `rbInsFix S (insDirsR key t []) (insCoreC node t).1` -- leaf insertion with its upward propagation, then the colour
  fix-up started at the new leaf, the root blackened -- well linked, without repeated rows, the rows of the old tree
  plus the new one; it returns the root; the NIL row keeps its maximum and its colour; no other array is touched.
-/
set_option linter.unusedSectionVars false
set_option linter.unusedVariables false
set_option linter.unusedSimpArgs false
namespace XrsVerif.ILVs
open XrsVerif XrsVerif.IL XrsVerif.Viewshed
variable {F : Type} [Fl F]

/-! ### one iteration -/

theorem insFixBody_spec (fuel n : Nat) (s : State F) (zl : Sh) (z : Nat) (zr : Sh) (pf : Fr) (rest0 : Ctx)
    (h : FixCore s n zl z zr (pf :: rest0)) (hzp : s.ienv "_rb_insert_fixup6$z_parent" = pf.idx)
    (hred : nAt (s.ia "tree_nodes") pf.idx 0 = 0) :
    let r := exec fuel insFixBody s
    r.ctl = .run ∧ ∃ (zl' : Sh) (z' : Nat) (zr' : Sh) (ctx' : Ctx), FixCore r n zl' z' zr' ctx' ∧
      r.ienv "_rb_insert_fixup6$z_parent" = ctxPar ctx' ∧ ctx'.length < (pf :: rest0).length ∧
      (plug (.node zl' z' zr') ctx').idxs = (plug (.node zl z zr) (pf :: rest0)).idxs ∧
      vAt (r.fa "tree_vals") (n - 1) 7 = vAt (s.fa "tree_vals") (n - 1) 7 ∧
      insFixP (vAt (s.fa "tree_vals") (n - 1) 7) (ctx'.map Fr.dir)
          (absT (r.fa "tree_vals") (r.ia "tree_nodes") (plug (.node zl' z' zr') ctx')) =
        insFixP (vAt (s.fa "tree_vals") (n - 1) 7) ((pf :: rest0).map Fr.dir)
          (absT (s.fa "tree_vals") (s.ia "tree_nodes") (plug (.node zl z zr) (pf :: rest0))) := by
  intro r
  have hv := h.vs
  have hrun := h.run
  -- the parent is not the root: the root is black
  obtain ⟨gf, rest, rfl⟩ : ∃ gf rest, rest0 = gf :: rest := by
    cases rest0 with
    | nil =>
      have := h.rootBlack (by simp)
      rw [plug_cons] at this
      simp only [plug, isRed_fill, hred, decide_true] at this
      exact absurd this (by simp)
    | cons a b => exact ⟨a, b, rfl⟩
  obtain ⟨hlz, hcz, _⟩ := unplug _ _ h.linked h.nodup
  obtain ⟨hpn, hp3, hcp⟩ := hcz.step
  rw [ctxPar_cons] at hp3
  have hz3 : nAt (s.ia "tree_nodes") z 3 = pf.idx := by have := hlz.2.2.2.1; rw [ctxPar_cons] at this; exact this
  have hzn : z + 1 < n := hlz.1
  obtain ⟨hgn, _, _⟩ := hcp.step
  -- the three reads
  have h1 := exec_ldN fuel n s hv.shpN "_rb_insert_fixup6$z_parent_parent" "_rb_insert_fixup6$z_parent" 3 (by decide)
    (by rw [hzp]; exact inRange_ptr n _ (by omega) hv.pos) gf.idx (by rw [hzp, rowOf_nat]; exact hp3)
  generalize hs1 : ({ s with ienv := setS s.ienv "_rb_insert_fixup6$z_parent_parent" (gf.idx : Int) } : State F) = s1 at h1
  have hv1 : VS s1 n := by rw [← hs1]; exact hv.of_eq rfl rfl rfl
  have hia1 : s1.ia = s.ia := by rw [← hs1]
  have ez1 : s1.ienv "_rb_insert_fixup6$z" = z := by rw [← hs1]; simp [setS, h.hz]
  have h2 := exec_ldN fuel n s1 hv1.shpN "_rb_insert_fixup6$n1" "_rb_insert_fixup6$z" 3 (by decide)
    (by rw [ez1]; exact inRange_ptr n _ (by omega) hv.pos) pf.idx (by rw [ez1, rowOf_nat, hia1]; exact hz3)
  generalize hs2 : ({ s1 with ienv := setS s1.ienv "_rb_insert_fixup6$n1" (pf.idx : Int) } : State F) = s2 at h2
  have hv2 : VS s2 n := by rw [← hs2]; exact hv1.of_eq rfl rfl rfl
  have hia2 : s2.ia = s.ia := by rw [← hs2]; exact hia1
  have ezpp2 : s2.ienv "_rb_insert_fixup6$z_parent_parent" = gf.idx := by rw [← hs2, ← hs1]; simp [setS]
  have h3 := exec_ldN fuel n s2 hv2.shpN "_rb_insert_fixup6$n2" "_rb_insert_fixup6$z_parent_parent" 1 (by decide)
    (by rw [ezpp2]; exact inRange_ptr n _ (by omega) hv.pos) (nAt (s.ia "tree_nodes") gf.idx 1)
    (by rw [ezpp2, rowOf_nat, hia2]; rfl)
  generalize hs3 : ({ s2 with ienv := setS s2.ienv "_rb_insert_fixup6$n2" (nAt (s.ia "tree_nodes") gf.idx 1) } : State F) = s3 at h3
  have hrun3 : s3.ctl = .run := by rw [← hs3, ← hs2, ← hs1]; exact hrun
  have hia3 : s3.ia = s.ia := by rw [← hs3]; exact hia2
  have hfa3 : s3.fa = s.fa := by rw [← hs3, ← hs2, ← hs1]
  have hshp3 : s3.shp = s.shp := by rw [← hs3, ← hs2, ← hs1]
  have en1 : s3.ienv "_rb_insert_fixup6$n1" = pf.idx := by rw [← hs3, ← hs2]; simp [setS]
  have en2 : s3.ienv "_rb_insert_fixup6$n2" = nAt (s.ia "tree_nodes") gf.idx 1 := by rw [← hs3]; simp [setS]
  have ezp3 : s3.ienv "_rb_insert_fixup6$z_parent" = pf.idx := by rw [← hs3, ← hs2, ← hs1]; simp [setS, hzp]
  have ezpp3 : s3.ienv "_rb_insert_fixup6$z_parent_parent" = gf.idx := by rw [← hs3, ← hs2, ← hs1]; simp [setS]
  have hcore3 : FixCore s3 n zl z zr (pf :: gf :: rest) :=
    h.of_eq hshp3 hfa3 hia3 (by rw [hrun3, hrun]) (by rw [← hs3, ← hs2, ← hs1]; simp [setS])
      (by rw [← hs3, ← hs2, ← hs1]; simp [setS])
  have hr0 : r = exec fuel (.seq (.ite (.cmpI .eq (.var "_rb_insert_fixup6$n1") (.var "_rb_insert_fixup6$n2"))
      (insFixCase 2 2 lrot7 rrot10) (insFixCase 1 1 rrot13 lrot16)) insFixTail) s3 := by
    simp only [r, insFixBody]
    rw [exec_seq_run _ _ _ _ (by rw [h1, ← hs1]; exact hrun), h1,
      exec_seq_run _ _ _ _ (by rw [h2, ← hs2, ← hs1]; exact hrun), h2,
      exec_seq_run _ _ _ _ (by rw [h3]; exact hrun3), h3]
  have hcok : BE.ok s3 (.cmpI .eq (.var "_rb_insert_fixup6$n1") (.var "_rb_insert_fixup6$n2")) = true := by
    rw [BE.ok_cmpI, IE.ok_var, IE.ok_var]; rfl
  have hcev : BE.eval s3 (.cmpI .eq (.var "_rb_insert_fixup6$n1") (.var "_rb_insert_fixup6$n2")) =
      decide ((pf.idx : Int) = nAt (s.ia "tree_nodes") gf.idx 1) := by
    rw [BE.eval_cmpI, IE.eval_var, IE.eval_var, en1, en2]; rfl
  -- the case, then the tail
  have key : ∀ (r1 : State F), r1.ctl = .run → FixStep s3 r1 n zl z zr (pf :: gf :: rest) →
      r = exec fuel insFixTail r1 →
      r.ctl = .run ∧ ∃ (zl' : Sh) (z' : Nat) (zr' : Sh) (ctx' : Ctx), FixCore r n zl' z' zr' ctx' ∧
        r.ienv "_rb_insert_fixup6$z_parent" = ctxPar ctx' ∧ ctx'.length < (pf :: gf :: rest).length ∧
        (plug (.node zl' z' zr') ctx').idxs = (plug (.node zl z zr) (pf :: gf :: rest)).idxs ∧
        vAt (r.fa "tree_vals") (n - 1) 7 = vAt (s.fa "tree_vals") (n - 1) 7 ∧
        insFixP (vAt (s.fa "tree_vals") (n - 1) 7) (ctx'.map Fr.dir)
            (absT (r.fa "tree_vals") (r.ia "tree_nodes") (plug (.node zl' z' zr') ctx')) =
          insFixP (vAt (s.fa "tree_vals") (n - 1) 7) ((pf :: gf :: rest).map Fr.dir)
            (absT (s.fa "tree_vals") (s.ia "tree_nodes") (plug (.node zl z zr) (pf :: gf :: rest))) := by
    intro r1 hrun1 hstep hr
    obtain ⟨zl', z', zr', ctx', k1, k2, k3, k4, k5⟩ := hstep
    rw [hfa3, hia3] at k5
    rw [hfa3] at k4
    obtain ⟨hlz', _, _⟩ := unplug _ _ k1.linked k1.nodup
    have ht := exec_ldN fuel n r1 k1.vs.shpN "_rb_insert_fixup6$z_parent" "_rb_insert_fixup6$z" 3 (by decide)
      (by rw [k1.hz]; exact inRange_ptr n _ (by have := hlz'.1; omega) k1.vs.pos) (ctxPar ctx')
      (by rw [k1.hz, rowOf_nat]; exact hlz'.2.2.2.1)
    have hr' : r = { r1 with ienv := setS r1.ienv "_rb_insert_fixup6$z_parent" (ctxPar ctx') } := by
      rw [hr]; exact ht
    rw [hr']
    refine ⟨hrun1, zl', z', zr', ctx', k1.of_eq rfl rfl rfl rfl (by simp [setS]) (by simp [setS]), by simp [setS],
      k2, k3, k4, k5⟩
  cases gf with
  | L g u =>
    obtain ⟨_, hg1, _⟩ := hcp
    have hg1' : nAt (s.ia "tree_nodes") g 1 = pf.idx := hg1
    obtain ⟨c1, c2⟩ := caseL_spec fuel n s3 zl z zr pf g u rest hcore3 ezp3 ezpp3 (by rw [hia3]; exact hred)
    refine key _ c1 c2 ?_
    rw [hr0, exec_seq_run _ _ _ _ (by
      rw [exec_ite_true _ _ _ _ _ hcok (by rw [hcev]; simp [Fr.idx, hg1'])]; exact c1),
      exec_ite_true _ _ _ _ _ hcok (by rw [hcev]; simp [Fr.idx, hg1'])]
  | R u g =>
    obtain ⟨_, hg1, _, hg4, _⟩ := hcp
    have hne : ¬ ((pf.idx : Int) = nAt (s.ia "tree_nodes") g 1) := by
      rw [hg1]; intro e; exact hg4 (by omega) e.symm
    obtain ⟨c1, c2⟩ := caseR_spec fuel n s3 zl z zr pf u g rest hcore3 ezp3 ezpp3 (by rw [hia3]; exact hred)
    refine key _ c1 c2 ?_
    rw [hr0, exec_seq_run _ _ _ _ (by
      rw [exec_ite_false _ _ _ _ _ hcok (by rw [hcev]; exact decide_eq_false hne)]; exact c1),
      exec_ite_false _ _ _ _ _ hcok (by rw [hcev]; exact decide_eq_false hne)]

/-! ### the loop -/

theorem insFixLoop_spec (n : Nat) : ∀ (k : Nat) (ctx : Ctx), ctx.length ≤ k → ∀ (zl : Sh) (z : Nat) (zr : Sh) (fuel : Nat)
    (s : State F), FixCore s n zl z zr ctx → s.ienv "_rb_insert_fixup6$z_parent" = ctxPar ctx → k + 1 ≤ fuel →
    let r := exec fuel insFixLoop s
    r.ctl = .run ∧ ∃ (zl' : Sh) (z' : Nat) (zr' : Sh) (ctx' : Ctx), FixCore r n zl' z' zr' ctx' ∧
      (plug (.node zl' z' zr') ctx').idxs = (plug (.node zl z zr) ctx).idxs ∧
      vAt (r.fa "tree_vals") (n - 1) 7 = vAt (s.fa "tree_vals") (n - 1) 7 ∧
      absT (r.fa "tree_vals") (r.ia "tree_nodes") (plug (.node zl' z' zr') ctx') =
        insFixP (vAt (s.fa "tree_vals") (n - 1) 7) (ctx.map Fr.dir)
          (absT (s.fa "tree_vals") (s.ia "tree_nodes") (plug (.node zl z zr) ctx)) := by
  intro k
  induction k with
  | zero =>
    intro ctx hk zl z zr fuel s h hzp hf
    have : ctx = [] := List.length_eq_zero_iff.mp (Nat.le_zero.mp hk)
    subst this
    obtain ⟨fuel, rfl⟩ : ∃ f, fuel = f + 1 := ⟨fuel - 1, by omega⟩
    intro r
    have hin : inRange (s.ienv "_rb_insert_fixup6$z_parent") n = true := by
      rw [hzp]; exact inRange_ptr n _ (by simp [ctxPar]; omega) h.vs.pos
    have hr : r = s := by
      simp only [r, insFixLoop]
      rw [exec_while_exit]
      · rw [BE.ok_cmpI, okN s n h.vs.shpN _ 0 (by decide), hin, IE.ok_lit]; rfl
      · rw [BE.eval_cmpI, evalN s n h.vs.shpN _ 0 (by decide), hzp, IE.eval_lit]
        simp [ctxPar, cmpInt, h.nilBlack]
    rw [hr]
    exact ⟨h.run, zl, z, zr, [], h, rfl, rfl, by simp [insFixP]⟩
  | succ k ih =>
    intro ctx hk zl z zr fuel s h hzp hf
    obtain ⟨fuel, rfl⟩ : ∃ f, fuel = f + 1 := ⟨fuel - 1, by omega⟩
    intro r
    cases ctx with
    | nil =>
      have hin : inRange (s.ienv "_rb_insert_fixup6$z_parent") n = true := by
        rw [hzp]; exact inRange_ptr n _ (by simp [ctxPar]; omega) h.vs.pos
      have hr : r = s := by
        simp only [r, insFixLoop]
        rw [exec_while_exit]
        · rw [BE.ok_cmpI, okN s n h.vs.shpN _ 0 (by decide), hin, IE.ok_lit]; rfl
        · rw [BE.eval_cmpI, evalN s n h.vs.shpN _ 0 (by decide), hzp, IE.eval_lit]
          simp [ctxPar, cmpInt, h.nilBlack]
      rw [hr]
      exact ⟨h.run, zl, z, zr, [], h, rfl, rfl, by simp [insFixP]⟩
    | cons pf rest0 =>
      rw [ctxPar_cons] at hzp
      have hpn : pf.idx + 1 < n := Linked.idx_lt h.linked _ (by
        rw [plug_cons]; exact mem_plug _ _ _ (Sh.ptr_mem _ _ (fill_ptr pf _)))
      have hin : inRange (s.ienv "_rb_insert_fixup6$z_parent") n = true := by
        rw [hzp]; exact inRange_ptr n _ (by omega) h.vs.pos
      have hok : BE.ok s (.cmpI .eq (.ld2 "tree_nodes" (.var "_rb_insert_fixup6$z_parent") (.lit 0)) (.lit 0)) = true := by
        rw [BE.ok_cmpI, okN s n h.vs.shpN _ 0 (by decide), hin, IE.ok_lit]; rfl
      have hev : BE.eval s (.cmpI .eq (.ld2 "tree_nodes" (.var "_rb_insert_fixup6$z_parent") (.lit 0)) (.lit 0)) =
          decide (nAt (s.ia "tree_nodes") pf.idx 0 = 0) := by
        rw [BE.eval_cmpI, evalN s n h.vs.shpN _ 0 (by decide), hzp, rowOf_nat, IE.eval_lit]; rfl
      by_cases hred : nAt (s.ia "tree_nodes") pf.idx 0 = 0
      · -- one iteration
        obtain ⟨b1, zl1, z1, zr1, ctx1, b2, b3, b4, b5, b6, b7⟩ := insFixBody_spec fuel n s zl z zr pf rest0 h hzp hred
        generalize hs1 : exec fuel insFixBody s = s1 at b1 b2 b3 b5 b6 b7
        have hr : r = exec fuel insFixLoop s1 := by
          simp only [r, insFixLoop]
          rw [exec_while_step _ _ _ _ hok (by rw [hev]; simp [hred]) (by rw [hs1]; exact b1), hs1]
        obtain ⟨c1, zl2, z2, zr2, ctx2, c2, c3, c4, c5⟩ := ih ctx1 (by simp only [List.length_cons] at b4 hk; omega)
          zl1 z1 zr1 fuel s1 b2 b3 (by omega)
        rw [← hr] at c1 c2 c4 c5
        exact ⟨c1, zl2, z2, zr2, ctx2, c2, c3.trans b5, by rw [c4, b6], by rw [c5, b6, b7]⟩
      · -- black parent: the loop ends
        have hr : r = s := by
          simp only [r, insFixLoop]
          rw [exec_while_exit _ _ _ _ hok (by rw [hev]; simp [hred])]
        rw [hr]
        refine ⟨h.run, zl, z, zr, pf :: rest0, h, rfl, rfl, ?_⟩
        rw [insFixP_stop _ _ _ _ _ (fun pf' rest' e => by
          simp only [List.cons.injEq] at e; rw [← e.1]; exact hred)]

/-! ### the whole fix-up -/

theorem plug_is_node : ∀ (ctx : Ctx) (a : Sh) (i : Nat) (b : Sh), ∃ l j r, plug (.node a i b) ctx = .node l j r := by
  intro ctx
  induction ctx with
  | nil => intro a i b; exact ⟨a, i, b, rfl⟩
  | cons fr rest ih =>
    intro a i b
    cases fr with
    | L p r => exact ih _ _ _
    | R l p => exact ih _ _ _

/-- **`_rb_insert_fixup` inlined** (`insFixup'`), started with `inserted` = a red node at the position `ctx` of a
    well-linked tree whose root and NIL row are black: the arrays afterwards hold `rbInsFix` of the abstraction -/
theorem insFixup_spec (fuel n : Nat) (s : State F) (zl : Sh) (z : Nat) (zr : Sh) (ctx : Ctx) (hv : VS s n)
    (hrun : s.ctl = .run) (hL : Linked (s.ia "tree_nodes") n (-1) (plug (.node zl z zr) ctx))
    (hN : (plug (.node zl z zr) ctx).idxs.Nodup) (hins : s.ienv "inserted" = z)
    (hroot : s.ienv "root" = (plug (.node zl z zr) ctx).ptr) (hnil : nAt (s.ia "tree_nodes") (n - 1) 0 ≠ 0)
    (hrb : ctx ≠ [] → isRed (absT (s.fa "tree_vals") (s.ia "tree_nodes") (plug (.node zl z zr) ctx)) = false)
    (hf : ctx.length + 2 ≤ fuel) :
    let r := exec fuel insFixup' s
    let S : Fv F := vAt (s.fa "tree_vals") (n - 1) 7
    r.ctl = .ret ∧ VS r n ∧ ∃ sh' : Sh, Linked (r.ia "tree_nodes") n (-1) sh' ∧
      sh'.idxs = (plug (.node zl z zr) ctx).idxs ∧
      absT (r.fa "tree_vals") (r.ia "tree_nodes") sh' =
        rbInsFix S (ctx.map Fr.dir) (absT (s.fa "tree_vals") (s.ia "tree_nodes") (plug (.node zl z zr) ctx)) ∧
      r.ienv "ret0" = sh'.ptr ∧ vAt (r.fa "tree_vals") (n - 1) 7 = S ∧
      nAt (r.ia "tree_nodes") (n - 1) 0 ≠ 0 := by
  intro r S
  -- the two parameter assignments
  have h1 : exec fuel (.setI "_rb_insert_fixup6$root" (.var "root")) s =
      { s with ienv := setS s.ienv "_rb_insert_fixup6$root" (plug (.node zl z zr) ctx).ptr } := by
    rw [exec_setI _ _ _ _ (IE.ok_var _ _), IE.eval_var, hroot]
  generalize hs1 : ({ s with ienv := setS s.ienv "_rb_insert_fixup6$root" (plug (.node zl z zr) ctx).ptr } : State F) = s1 at h1
  have h2 : exec fuel (.setI "_rb_insert_fixup6$z" (.var "inserted")) s1 =
      { s1 with ienv := setS s1.ienv "_rb_insert_fixup6$z" (z : Int) } := by
    rw [exec_setI _ _ _ _ (IE.ok_var _ _), IE.eval_var, ← hs1]; simp [setS, hins]
  generalize hs2 : ({ s1 with ienv := setS s1.ienv "_rb_insert_fixup6$z" (z : Int) } : State F) = s2 at h2
  have hv2 : VS s2 n := by rw [← hs2, ← hs1]; exact hv.of_eq rfl rfl rfl
  have hrun2 : s2.ctl = .run := by rw [← hs2, ← hs1]; exact hrun
  have hia2 : s2.ia = s.ia := by rw [← hs2, ← hs1]
  have hfa2 : s2.fa = s.fa := by rw [← hs2, ← hs1]
  have ez2 : s2.ienv "_rb_insert_fixup6$z" = z := by rw [← hs2]; simp [setS]
  have er2 : s2.ienv "_rb_insert_fixup6$root" = (plug (.node zl z zr) ctx).ptr := by rw [← hs2, ← hs1]; simp [setS]
  obtain ⟨hlz, _, _⟩ := unplug _ _ hL hN
  -- z_parent
  have h3 := exec_ldN fuel n s2 hv2.shpN "_rb_insert_fixup6$z_parent" "_rb_insert_fixup6$z" 3 (by decide)
    (by rw [ez2]; exact inRange_ptr n _ (by have := hlz.1; omega) hv.pos) (ctxPar ctx)
    (by rw [ez2, rowOf_nat, hia2]; exact hlz.2.2.2.1)
  generalize hs3 : ({ s2 with ienv := setS s2.ienv "_rb_insert_fixup6$z_parent" (ctxPar ctx) } : State F) = s3 at h3
  have hia3 : s3.ia = s.ia := by rw [← hs3]; exact hia2
  have hfa3 : s3.fa = s.fa := by rw [← hs3]; exact hfa2
  have hcore3 : FixCore s3 n zl z zr ctx :=
    ⟨by rw [← hs3]; exact hv2.of_eq rfl rfl rfl, by rw [← hs3]; exact hrun2, by rw [hia3]; exact hL, hN,
     by rw [← hs3]; simp [setS, ez2], by rw [← hs3]; simp [setS, er2], by rw [hia3]; exact hnil,
     by rw [hfa3, hia3]; exact hrb⟩
  -- the loop
  obtain ⟨fuel, rfl⟩ : ∃ f, fuel = f + 1 := ⟨fuel - 1, by omega⟩
  obtain ⟨c1, zl4, z4, zr4, ctx4, c2, c3, c4, c5⟩ := insFixLoop_spec n ctx.length ctx (Nat.le_refl _) zl z zr (fuel + 1) s3
    hcore3 (by rw [← hs3]; simp [setS]) (by omega)
  generalize hs4 : exec (fuel + 1) insFixLoop s3 = s4 at c1 c2 c4 c5
  rw [hfa3] at c4 c5
  rw [hia3] at c5
  -- the root is blackened
  obtain ⟨l4, i4, r4, hsh4⟩ := plug_is_node ctx4 zl4 z4 zr4
  have hL4 := c2.linked
  have hN4 := c2.nodup
  have hr4 := c2.hroot
  rw [hsh4] at hL4 hN4 hr4 c3 c5
  obtain ⟨d1, d2, d3, d4, d5, d6, d7, d8⟩ := stCol_at (fuel + 1) n s4 c2.vs c2.run "_rb_insert_fixup6$root" 1 [] l4 i4 r4
    hL4 hN4 hr4
  generalize hs5 : exec (fuel + 1) (.stI2 "tree_nodes" (.var "_rb_insert_fixup6$root") (.lit 0) (.lit 1)) s4 = s5 at d1 d2 d3 d4 d5 d6 d7 d8
  have hi4 : i4 + 1 < n := hL4.1
  have hend : exec (fuel + 1) insFixEnd s4 =
      { s5 with ienv := setS s5.ienv "_rb_insert_fixup6$ret0" (i4 : Int), ctl := .ret } := by
    simp only [insFixEnd]
    rw [exec_seq_run _ _ _ _ (by rw [hs5]; exact d1), hs5, exec_seq_run _ _ _ _ (by
      rw [exec_setI _ _ _ _ (IE.ok_var _ _)]; exact d1), exec_setI _ _ _ _ (IE.ok_var _ _), IE.eval_var, exec_ret, d3, hr4]
    rfl
  have hscope : exec (fuel + 1) (.scope (.seq (.setI "_rb_insert_fixup6$z_parent"
      (.ld2 "tree_nodes" (.var "_rb_insert_fixup6$z") (.lit 3))) (.seq insFixLoop insFixEnd))) s2 =
      { s5 with ienv := setS s5.ienv "_rb_insert_fixup6$ret0" (i4 : Int), ctl := .run } := by
    rw [exec_scope, exec_seq_run _ _ _ _ (by rw [h3, ← hs3]; exact hrun2), h3,
      exec_seq_run _ _ _ _ (by rw [hs4]; exact c1), hs4, hend]
    simp
  have hr : r = { s5 with
      ienv := (setS (setS (setS s5.ienv "_rb_insert_fixup6$ret0" (i4 : Int)) "root" (i4 : Int)) "ret0" (i4 : Int)),
      ctl := .ret } := by
    simp only [r, insFixup']
    rw [exec_seq_run _ _ _ _ (by rw [h1, ← hs1]; exact hrun), h1, exec_seq_run _ _ _ _ (by rw [h2]; exact hrun2), h2,
      exec_seq_run _ _ _ _ (by rw [hscope]), hscope,
      exec_seq_run _ _ _ _ (by rw [exec_setI _ _ _ _ (IE.ok_var _ _)]),
      exec_setI _ _ _ _ (IE.ok_var _ _), IE.eval_var,
      exec_seq_run _ _ _ _ (by rw [exec_setI _ _ _ _ (IE.ok_var _ _)]),
      exec_setI _ _ _ _ (IE.ok_var _ _), IE.eval_var, exec_ret]
    simp [setS]
  have hd1 : decide ((1 : Int) = 0) = false := by decide
  rw [hd1] at d6
  rw [hr]
  refine ⟨rfl, ⟨d2.shpV, d2.shpN, d2.lenV, d2.lenN, d2.pos⟩, .node l4 i4 r4, d5, c3, ?_, by simp [setS, Sh.ptr], ?_, ?_⟩
  · show absT (s5.fa "tree_vals") (s5.ia "tree_nodes") _ = _
    have d6' : absT (s5.fa "tree_vals") (s5.ia "tree_nodes") (.node l4 i4 r4) =
        setCol false (absT (s4.fa "tree_vals") (s4.ia "tree_nodes") (.node l4 i4 r4)) := d6
    rw [d6', c5]
    rfl
  · show vAt (s5.fa "tree_vals") (n - 1) 7 = S
    rw [d4, c4]
  · show nAt (s5.ia "tree_nodes") (n - 1) 0 ≠ 0
    rw [d7 _ 0 (by decide) (by omega)]
    exact c2.nilBlack

/-! ### `_insert_into_tree` complete -/

theorem isRed_insCoreC {α : Type} [LT α] [DecidableLT α] [LE α] [DecidableLE α] (nn : Node α) (l : Tree α) (nd : Node α)
    (mx : α) (c : Bool) (r : Tree α) : isRed (insCoreC nn (.node l nd mx c r)).1 = c := by
  simp only [insCoreC]
  split
  · split <;> rfl
  · split <;> rfl

/-- the descent of the insertion on shapes follows the model's path -/
theorem insZ_dirs (V : List F) (N : List Int) (K : Fv F) : ∀ (sh : Sh) (c : Ctx),
    (insZ V K sh c).map Fr.dir = insDirsR K (absT V N sh) (c.map Fr.dir) := by
  intro sh
  induction sh with
  | nil => intro c; rfl
  | node l i r ihl ihr =>
    intro c
    simp only [insZ, absT, insDirsR, nodeAt_key]
    by_cases h : K < vAt V i 0
    · simp only [h, if_true]; rw [ihl]; rfl
    · simp only [h, if_false]; rw [ihr]; rfl

/-- the model's complete insertion in the code-exact form of the propagation (`insCoreC`: the value travelling
    upwards is the child's stored maximum); over a linear order it is `rbInsert` (Proofs/ILViewshedOrder.lean) -/
def rbInsertC {α : Type} [LT α] [DecidableLT α] [LE α] [DecidableLE α] (S : α) (nn : Node α) (t : Tree α) : Tree α :=
  rbInsFix S (insDirsR nn.key t []) (insCoreC nn t).1

theorem vsInsert_wIA : ∀ a ∈ wIA Gen.IL.vsInsert.body, a = "tree_nodes" := by decide
theorem vsInsert_wFA : ∀ a ∈ wFA Gen.IL.vsInsert.body, a = "tree_vals" := by decide
theorem vsInsert_wSh : wSh Gen.IL.vsInsert.body = [] := by decide

/-- **Refinement of `_insert_into_tree`** (the whole routine: descent, creation and linking of the red leaf, upward
    propagation of its minimum gradient, `_rb_insert_fixup` with its inlined rotations, blackening of the root).
    On a state whose arrays hold a well-linked non-empty tree without repeated rows, the root and the NIL row black,
    `node_id` a fresh row and `value` the new node, the program returns (`ret`) with arrays that hold **the model's
    complete insertion `rbInsertC`** of the abstracted tree -- shape, colours, keys, gradients, stored maxima -- well
    linked, the rows of the old tree plus `node_id`; `ret0` is the root row; the NIL row keeps its maximum (the
    sentinel) and stays black; the root is black; no other array and no shape is touched. -/
theorem vsInsert_refines (s : State F) (fuel n m : Nat) (hv : VS s n) (hm : VVal s m) (hrun : s.ctl = .run)
    (l : Sh) (i : Nat) (rr : Sh) (hL : Linked (s.ia "tree_nodes") n (-1) (.node l i rr))
    (hN : (Sh.node l i rr).idxs.Nodup) (hroot : s.ienv "root" = i) (nid : Nat) (hnid : nid + 1 < n)
    (hfresh : nid ∉ (Sh.node l i rr).idxs) (hid : s.ienv "node_id" = nid)
    (hnil : nAt (s.ia "tree_nodes") (n - 1) 0 ≠ 0) (hblack : nAt (s.ia "tree_nodes") i 0 ≠ 0)
    (hfuel : (Sh.node l i rr).height + 2 ≤ fuel) :
    let r := Gen.IL.vsInsert.run s fuel
    let S : Fv F := vAt (s.fa "tree_vals") (n - 1) 7
    let t0 := absT (s.fa "tree_vals") (s.ia "tree_nodes") (.node l i rr)
    r.ctl = .ret ∧ VS r n ∧ ∃ sh' : Sh, Linked (r.ia "tree_nodes") n (-1) sh' ∧ sh'.idxs.Nodup ∧
      sh'.idxs.Perm (nid :: (Sh.node l i rr).idxs) ∧
      absT (r.fa "tree_vals") (r.ia "tree_nodes") sh' = rbInsertC S (valNode s) t0 ∧
      r.ienv "ret0" = sh'.ptr ∧ vAt (r.fa "tree_vals") (n - 1) 7 = S ∧ nAt (r.ia "tree_nodes") (n - 1) 0 ≠ 0 ∧
      isRed (absT (r.fa "tree_vals") (r.ia "tree_nodes") sh') = false ∧
      (∀ a, a ≠ "tree_nodes" → r.ia a = s.ia a) ∧ (∀ a, a ≠ "tree_vals" → r.fa a = s.fa a) ∧ r.shp = s.shp := by
  intro r S t0
  obtain ⟨sP, p1, p2, p3, p4, p5, p6, p7, p8, p9, p10⟩ :=
    vsInsert_prefix_refines s fuel n m hv hm hrun l i rr hL hN hroot nid hnid hfresh hid (by omega)
  simp only [insShape] at p4 p5 p6
  generalize hctx : insZ (s.fa "tree_vals") (valAt s 0) (.node l i rr) [] = ctx at p4 p5 p6
  have hplug : plug .nil ctx = .node l i rr := by rw [← hctx]; exact insZ_plug _ _ _ []
  have hctx_ne : ctx ≠ [] := hctx ▸ insZ_ne_nil _ (valAt s 0) (.node l i rr) [] (Or.inl (by simp))
  obtain ⟨fr, rest, rfl⟩ : ∃ fr rest, ctx = fr :: rest := by
    cases ctx with
    | nil => exact absurd rfl hctx_ne
    | cons a b => exact ⟨a, b, rfl⟩
  have hptr : (plug (.node .nil nid .nil) (fr :: rest)).ptr = (i : Int) := by
    rw [plug_ptr_cons fr rest (.node .nil nid .nil) .nil, hplug]; rfl
  have hlen : (fr :: rest).length ≤ (Sh.node l i rr).height := by
    have := plug_height (fr :: rest) .nil
    rw [hplug] at this
    simpa [Sh.height] using this
  have hrbP : isRed (absT (sP.fa "tree_vals") (sP.ia "tree_nodes") (plug (.node .nil nid .nil) (fr :: rest))) = false := by
    rw [p6]
    show isRed (insCoreC (valNode s) (.node _ _ _ _ _)).1 = false
    rw [isRed_insCoreC]
    simp [hblack]
  have hf := insFixup_spec fuel n sP .nil nid .nil (fr :: rest) p3 p2 p4 p5 p7 (by rw [p8, hptr])
    (by rw [p10]; exact hnil) (fun _ => hrbP) (by omega)
  rw [← insFixup_eq, ← p1] at hf
  obtain ⟨f1, f2, sh', f3, f4, f5, f6, f7, f8⟩ := hf
  have hfr := exec_frame fuel Gen.IL.vsInsert.body s
  have hperm : sh'.idxs.Perm (nid :: (Sh.node l i rr).idxs) := by
    rw [f4, ← hplug]
    refine (idxs_plug_perm (fr :: rest) _).trans ?_
    refine List.Perm.trans ?_ (List.Perm.cons nid (idxs_plug_perm (fr :: rest) .nil).symm)
    simp [Sh.idxs]
  refine ⟨f1, f2, sh', f3, by rw [f4]; exact p5, hperm, ?_, f6, by rw [f7, p9], f8, ?_,
    fun a ha => hfr.ia a (fun hmem => ha (vsInsert_wIA a hmem)),
    fun a ha => hfr.fa a (fun hmem => ha (vsInsert_wFA a hmem)), ?_⟩
  · rw [f5, p6, p9]
    unfold rbInsertC
    congr 1
    have := insZ_dirs (s.fa "tree_vals") (s.ia "tree_nodes") (valAt s 0) (.node l i rr) []
    rw [hctx] at this
    exact this
  · rw [f5]
    unfold rbInsFix
    cases hh : insFixP (vAt (sP.fa "tree_vals") (n - 1) 7) (List.map Fr.dir (fr :: rest))
        (absT (sP.fa "tree_vals") (sP.ia "tree_nodes") (plug (.node .nil nid .nil) (fr :: rest))) <;> rfl
  · funext a
    exact hfr.shp a (by rw [vsInsert_wSh]; simp)

end XrsVerif.ILVs
