import XrsVerif.Proofs.ILVsInitCell
/-
  Proofs/ILVsInitRow.lean -- the per-cell loop `for j in range(n_cols)` of the generated `_init_event_list`: invariant
  `PosInv` (all cells at linear positions below `pos` processed: their three records in the event list in row-major order,
  the observer-row buffer `data`, the observer's 180 in the visibility grid, `count_event`), `cellLoop_exec`.
-/
namespace XrsVerif.ILSw
open XrsVerif XrsVerif.IL XrsVerif.ViewshedEvents
variable {F : Type} [Fl F]
set_option linter.unusedSectionVars false
set_option linter.unusedSimpArgs false
set_option linter.unusedVariables false

/-- number of non-observer cells before the linear position `pos` (`obs` = the observer's) -/
def cntBefore (obs pos : Nat) : Nat := pos - (if obs < pos then 1 else 0)

/-- the event codes in the order `_init_event_list` appends them -/
def tyOf (t : Nat) : Int := if t = 0 then 1 else if t = 1 then 0 else -1

/-- the event list holds the three records of every non-observer cell at a linear position below `pos` -/
def ELDone (el : List F) (T : Int → Int → F) (h w vr vc pos : Nat) : Prop :=
  ∀ p, p < pos → p ≠ vr * w + vc → ∀ t, t < 3 → ∀ k, k < 7 →
    el.getD ((3 * cntBefore (vr * w + vc) p + t) * 7 + k) Fl.nan =
      (evRowF T h w vr vc ((p / w : Nat) : Int) ((p % w : Nat) : Int) (tyOf t)).getD k Fl.nan

/-- the three elevations (entering corner, centre, exiting corner) `data` holds for column `col` of the observer's row -/
def dataTriple (T : Int → Int → F) (h w vr vc col : Nat) : F × F × F :=
  if col = vc then (T vr vc, T vr vc, T vr vc)
  else (cornerElevF T h w vr vc 1 vr col, T vr col, cornerElevF T h w vr vc (-1) vr col)

def DataDone (d : List F) (T : Int → Int → F) (h w vr vc pos : Nat) : Prop :=
  ∀ col, col < w → vr * w + col < pos →
    d.getD col Fl.nan = (dataTriple T h w vr vc col).1 ∧ d.getD (w + col) Fl.nan = (dataTriple T h w vr vc col).2.1 ∧
    d.getD (2 * w + col) Fl.nan = (dataTriple T h w vr vc col).2.2

/-- the state of `_init_event_list` when all cells below the linear position `pos` (in row `i`) have been processed -/
structure PosInv (s0 s : State F) (T : Int → Int → F) (h w n vr vc i pos : Nat) : Prop where
  cell : CellInv s T h w n vr vc i
  cnt : s.ienv "count_event" = ((3 * cntBefore (vr * w + vc) pos : Nat) : Int)
  rast : s.fa "raster" = s0.fa "raster"
  el : ELDone (s.fa "event_list") T h w vr vc pos
  data : DataDone (s.fa "data") T h w vr vc pos
  vis : s.fa "visibility_grid" = if vr * w + vc < pos then (s0.fa "visibility_grid").set (vr * w + vc) (Fl.lit 180 1)
    else s0.fa "visibility_grid"

theorem div_mod_pos (i k w : Nat) (hk : k < w) : (i * w + k) / w = i ∧ (i * w + k) % w = k := by
  have hw : 0 < w := by omega
  constructor
  · rw [Nat.add_comm, Nat.add_mul_div_right _ _ hw, Nat.div_eq_of_lt hk, Nat.zero_add]
  · rw [Nat.add_comm, Nat.add_mul_mod_self_right, Nat.mod_eq_of_lt hk]

theorem CellInv.setJ {s : State F} {T : Int → Int → F} {h w n vr vc i : Nat} (c : CellInv s T h w n vr vc i) (x : Int) :
    CellInv { s with ienv := setS s.ienv "j" x } T h w n vr vc i :=
  ⟨c.ctl, c.shInr, c.shE, c.lenE, c.shEL, c.lenEL, c.shD, c.lenD, c.shV, c.lenV, c.ring,
   by simp [setS_apply, c.vi], by simp [setS_apply, c.nr], by simp [setS_apply, c.nc], by simp [setS_apply, c.vpr],
   by simp [setS_apply, c.vpc], c.shR⟩


theorem getD_setRow3 (el : List F) (c : Nat) (f0 f1 f2 : Nat → F) (idx : Nat) (hlen : (c + 3) * 7 ≤ el.length) :
    (setRow (setRow (setRow el 7 c f0) 7 (c + 1) f1) 7 (c + 2) f2).getD idx Fl.nan =
      if idx < c * 7 ∨ (c + 3) * 7 ≤ idx then el.getD idx Fl.nan
      else if idx < (c + 1) * 7 then f0 (idx - c * 7)
      else if idx < (c + 2) * 7 then f1 (idx - (c + 1) * 7) else f2 (idx - (c + 2) * 7) := by
  simp only [getD_setRow, length_setRow]
  by_cases h1 : idx < c * 7 ∨ (c + 3) * 7 ≤ idx
  · have a1 : ¬ ((c + 2) * 7 ≤ idx ∧ idx < (c + 2) * 7 + 7 ∧ idx < el.length) := by omega
    have a2 : ¬ ((c + 1) * 7 ≤ idx ∧ idx < (c + 1) * 7 + 7 ∧ idx < el.length) := by omega
    have a3 : ¬ (c * 7 ≤ idx ∧ idx < c * 7 + 7 ∧ idx < el.length) := by omega
    rw [if_neg a1, if_neg a2, if_neg a3, if_pos h1]
  · rw [if_neg h1]
    by_cases h2 : idx < (c + 1) * 7
    · have a1 : ¬ ((c + 2) * 7 ≤ idx ∧ idx < (c + 2) * 7 + 7 ∧ idx < el.length) := by omega
      have a2 : ¬ ((c + 1) * 7 ≤ idx ∧ idx < (c + 1) * 7 + 7 ∧ idx < el.length) := by omega
      have a3 : (c * 7 ≤ idx ∧ idx < c * 7 + 7 ∧ idx < el.length) := by omega
      rw [if_neg a1, if_neg a2, if_pos a3, if_pos h2]
    · by_cases h3 : idx < (c + 2) * 7
      · have a1 : ¬ ((c + 2) * 7 ≤ idx ∧ idx < (c + 2) * 7 + 7 ∧ idx < el.length) := by omega
        have a2 : ((c + 1) * 7 ≤ idx ∧ idx < (c + 1) * 7 + 7 ∧ idx < el.length) := by omega
        rw [if_neg a1, if_pos a2, if_neg h2, if_pos h3]
      · have a1 : ((c + 2) * 7 ≤ idx ∧ idx < (c + 2) * 7 + 7 ∧ idx < el.length) := by omega
        rw [if_pos a1, if_neg h2, if_neg h3]

theorem getD_dataSet (d : List F) (w j : Nat) (a b c : F) (idx : Nat) (hj : j < w) (hlen : d.length = 3 * w) :
    (dataSet d w j a b c).getD idx Fl.nan =
      if idx = 2 * w + j then c else if idx = w + j then b else if idx = j then a else d.getD idx Fl.nan := by
  unfold dataSet
  rw [IL.Px.getD_set, IL.Px.getD_set, IL.Px.getD_set]
  simp only [List.length_set, hlen]
  by_cases h1 : idx = 2 * w + j
  · subst h1
    have : 2 * w + j = 2 * w + j ∧ 2 * w + j < 3 * w := ⟨rfl, by omega⟩
    rw [if_pos this, if_pos rfl]
  · have n1 : ¬ (2 * w + j = idx ∧ idx < 3 * w) := fun e => h1 e.1.symm
    rw [if_neg n1, if_neg h1]
    by_cases h2 : idx = w + j
    · subst h2
      have : w + j = w + j ∧ w + j < 3 * w := ⟨rfl, by omega⟩
      rw [if_pos this, if_pos rfl]
    · have n2 : ¬ (w + j = idx ∧ idx < 3 * w) := fun e => h2 e.1.symm
      rw [if_neg n2, if_neg h2]
      by_cases h3 : idx = j
      · subst h3
        have : idx = idx ∧ idx < 3 * w := ⟨rfl, by omega⟩
        rw [if_pos this, if_pos rfl]
      · have n3 : ¬ (j = idx ∧ idx < 3 * w) := fun e => h3 e.1.symm
        rw [if_neg n3, if_neg h3]

/-- one non-observer cell -/
theorem posInv_other (hL : LitOK F) (hH : HalfOK F) (s0 st : State F) (fuel : Nat) (T : Int → Int → F) (h w n vr vc i k : Nat)
    (hn : n = 3 * (h * w - 1)) (hih : i < h) (hkw : k < w) (hvr : vr < h) (hvc : vc < w) (hne : ¬ (i = vr ∧ k = vc))
    (inv : PosInv s0 st T h w n vr vc i (i * w + k)) :
    let r := exec fuel cellBody { st with ienv := setS st.ienv "j" (k : Int) }
    r.ctl = .run ∧ PosInv s0 r T h w n vr vc i (i * w + (k + 1)) ∧ r.fa "inrast" = st.fa "inrast" := by
  have hobs : i * w + k ≠ vr * w + vc := by
    intro e
    have h1 := div_mod_pos i k w hkw
    have h2 := div_mod_pos vr vc w hvc
    rw [e] at h1
    exact hne ⟨h1.1.symm.trans h2.1, h1.2.symm.trans h2.2⟩
  have hpos : i * w + k < h * w := by
    have : (i + 1) * w ≤ h * w := Nat.mul_le_mul_right w (by omega)
    rw [Nat.add_mul] at this; omega
  have hobsl : vr * w + vc < h * w := by
    have : (vr + 1) * w ≤ h * w := Nat.mul_le_mul_right w (by omega)
    rw [Nat.add_mul] at this; omega
  have hcn : 3 * cntBefore (vr * w + vc) (i * w + k) + 3 ≤ n := by
    unfold cntBefore; split <;> omega
  have hc := cellBody_other hL hH { st with ienv := setS st.ienv "j" (k : Int) } fuel T h w n vr vc i k
    (3 * cntBefore (vr * w + vc) (i * w + k)) (inv.cell.setJ k) (by simp [setS_apply]) hkw hih
    (by simp [setS_apply, inv.cnt]) hcn hne
  unfold Post CellPost at hc
  obtain ⟨c1, c2, c3, c4, c5, c6, c7⟩ := hc
  simp only at c2 c3 c4 c6 c7
  intro r
  have hcnt : cntBefore (vr * w + vc) (i * w + (k + 1)) = cntBefore (vr * w + vc) (i * w + k) + 1 := by
    unfold cntBefore; split <;> split <;> omega
  refine ⟨c1.ctl, ⟨c1, ?_, c2.trans inv.rast, ?_, ?_, ?_⟩, c3⟩
  · rw [c5, hcnt]; push_cast; ring
  · -- the event list
    intro p hp hpo t ht kk hkk
    rw [c6]
    have hlen := inv.cell.lenEL
    have hl3 : (3 * cntBefore (vr * w + vc) (i * w + k) + 3) * 7 ≤ (st.fa "event_list").length := by rw [hlen]; omega
    rw [getD_setRow3 _ _ _ _ _ _ hl3]
    by_cases hpp : p = i * w + k
    · subst hpp
      obtain ⟨d1, d2⟩ := div_mod_pos i k w hkw
      rw [d1, d2]
      have g1 : ¬ ((3 * cntBefore (vr * w + vc) (i * w + k) + t) * 7 + kk < 3 * cntBefore (vr * w + vc) (i * w + k) * 7 ∨
          (3 * cntBefore (vr * w + vc) (i * w + k) + 3) * 7 ≤ (3 * cntBefore (vr * w + vc) (i * w + k) + t) * 7 + kk) := by omega
      rw [if_neg g1]
      generalize 3 * cntBefore (vr * w + vc) (i * w + k) = c
      have ht' : t = 0 ∨ t = 1 ∨ t = 2 := by omega
      rcases ht' with rfl | rfl | rfl
      · have g2 : (c + 0) * 7 + kk < (c + 1) * 7 := by omega
        rw [if_pos g2]
        have : (c + 0) * 7 + kk - c * 7 = kk := by omega
        rw [this]; rfl
      · have g2 : ¬ (c + 1) * 7 + kk < (c + 1) * 7 := by omega
        have g3 : (c + 1) * 7 + kk < (c + 2) * 7 := by omega
        rw [if_neg g2, if_pos g3]
        have : (c + 1) * 7 + kk - (c + 1) * 7 = kk := by omega
        rw [this]; rfl
      · have g2 : ¬ (c + 2) * 7 + kk < (c + 1) * 7 := by omega
        have g3 : ¬ (c + 2) * 7 + kk < (c + 2) * 7 := by omega
        rw [if_neg g2, if_neg g3]
        have : (c + 2) * 7 + kk - (c + 2) * 7 = kk := by omega
        rw [this]; rfl
    · have hp' : p < i * w + k := by omega
      have hlt : cntBefore (vr * w + vc) p < cntBefore (vr * w + vc) (i * w + k) := by
        unfold cntBefore; split <;> split <;> omega
      have g1 : (3 * cntBefore (vr * w + vc) p + t) * 7 + kk < 3 * cntBefore (vr * w + vc) (i * w + k) * 7 := by omega
      rw [if_pos (Or.inl g1)]
      exact inv.el p hp' hpo t ht kk hkk
  · -- the observer-row buffer
    intro col hcol hlt
    rw [c7]
    have hl := inv.cell.lenD
    by_cases hiv : i = vr
    · subst hiv
      simp only [if_true]
      have hck : col ≤ k := by omega
      have hkv : k ≠ vc := fun e => hne ⟨rfl, e⟩
      rw [getD_dataSet _ _ _ _ _ _ _ hkw hl, getD_dataSet _ _ _ _ _ _ _ hkw hl, getD_dataSet _ _ _ _ _ _ _ hkw hl]
      by_cases hce : col = k
      · subst hce
        have e1 : ¬ (col = 2 * w + col) := by omega
        have e2 : ¬ (col = w + col) := by omega
        have e3 : ¬ (w + col = 2 * w + col) := by omega
        have hw0 : ¬ w = 0 := by omega
        have hw2 : ¬ (w = 2 * w) := by omega
        simp [dataTriple, hkv, e1, e2, e3, hw0, hw2]
      · have hlt' : i * w + col < i * w + k := by omega
        have e1 : ¬ (col = 2 * w + k) := by omega
        have e2 : ¬ (col = w + k) := by omega
        have e3 : ¬ (w + col = 2 * w + k) := by omega
        have e4 : ¬ (w + col = w + k) := by omega
        have e5 : ¬ (w + col = k) := by omega
        have e6 : ¬ (2 * w + col = 2 * w + k) := by omega
        have e7 : ¬ (2 * w + col = w + k) := by omega
        have e8 : ¬ (2 * w + col = k) := by omega
        simp only [e1, e2, e3, e4, e5, e6, e7, e8, hce, if_false]
        exact inv.data col hcol hlt'
    · simp only [hiv, if_false]
      refine inv.data col hcol ?_
      by_cases hvi : vr < i
      · have : (vr + 1) * w ≤ i * w := Nat.mul_le_mul_right w (by omega)
        rw [Nat.add_mul] at this; omega
      · have : (i + 1) * w ≤ vr * w := Nat.mul_le_mul_right w (by omega)
        rw [Nat.add_mul] at this; omega
  · -- the visibility grid
    rw [c4, inv.vis]
    have : (vr * w + vc < i * w + (k + 1)) = (vr * w + vc < i * w + k) := by apply propext; omega
    simp only [setS_apply, this]

/-- the observer's cell -/
theorem posInv_obs (s0 st : State F) (fuel : Nat) (T : Int → Int → F) (h w n vr vc : Nat)
    (hvr : vr < h) (hvc : vc < w) (inv : PosInv s0 st T h w n vr vc vr (vr * w + vc)) :
    let r := afterBody (exec fuel cellBody { st with ienv := setS st.ienv "j" (vc : Int) })
    r.ctl = .run ∧ PosInv s0 r T h w n vr vc vr (vr * w + (vc + 1)) ∧ r.fa "inrast" = st.fa "inrast" := by
  have hc := cellBody_obs { st with ienv := setS st.ienv "j" (vc : Int) } fuel T h w n vr vc
    (3 * cntBefore (vr * w + vc) (vr * w + vc)) (inv.cell.setJ vc) (by simp [setS_apply]) hvc hvr
    (by simp [setS_apply, inv.cnt])
  unfold Post ObsPost at hc
  obtain ⟨c0, c1, c2, c3, c4, c5, c6, c7⟩ := hc
  simp only at c2 c3 c4 c6 c7
  intro r
  have hr : r = { exec fuel cellBody { st with ienv := setS st.ienv "j" (vc : Int) } with ctl := .run } := by
    simp only [r, afterBody, c0]
  have hcnt : cntBefore (vr * w + vc) (vr * w + (vc + 1)) = cntBefore (vr * w + vc) (vr * w + vc) := by
    unfold cntBefore; split <;> split <;> omega
  rw [hr]
  refine ⟨rfl, ⟨c1, ?_, c2.trans inv.rast, ?_, ?_, ?_⟩, c3⟩
  · simp only []; rw [c5, hcnt]
  · intro p hp hpo t ht kk hkk
    simp only []; rw [c4]
    exact inv.el p (by omega) hpo t ht kk hkk
  · intro col hcol hlt
    simp only []; rw [c7]
    have hl := inv.cell.lenD
    rw [getD_dataSet _ _ _ _ _ _ _ hvc hl, getD_dataSet _ _ _ _ _ _ _ hvc hl, getD_dataSet _ _ _ _ _ _ _ hvc hl]
    by_cases hce : col = vc
    · subst hce
      have e1 : ¬ (col = 2 * w + col) := by omega
      have e2 : ¬ (col = w + col) := by omega
      have e3 : ¬ (w + col = 2 * w + col) := by omega
      have hw0 : ¬ w = 0 := by omega
      have hw2 : ¬ (w = 2 * w) := by omega
      simp [dataTriple, e1, e2, e3, hw0, hw2]
    · have hlt' : vr * w + col < vr * w + vc := by omega
      have e1 : ¬ (col = 2 * w + vc) := by omega
      have e2 : ¬ (col = w + vc) := by omega
      have e3 : ¬ (w + col = 2 * w + vc) := by omega
      have e4 : ¬ (w + col = w + vc) := by omega
      have e5 : ¬ (w + col = vc) := by omega
      have e6 : ¬ (2 * w + col = 2 * w + vc) := by omega
      have e7 : ¬ (2 * w + col = w + vc) := by omega
      have e8 : ¬ (2 * w + col = vc) := by omega
      simp only [e1, e2, e3, e4, e5, e6, e7, e8, hce, if_false]
      exact inv.data col hcol hlt'
  · simp only []; rw [c6, inv.vis]
    have a1 : ¬ (vr * w + vc < vr * w + vc) := by omega
    have a2 : vr * w + vc < vr * w + (vc + 1) := by omega
    simp only [a1, a2, if_true, if_false]

/-- **the per-cell loop of row `i`** -/
theorem cellLoop_exec (hL : LitOK F) (hH : HalfOK F) (s0 s : State F) (fuel : Nat) (T : Int → Int → F) (h w n vr vc i : Nat)
    (hn : n = 3 * (h * w - 1)) (hih : i < h) (hvr : vr < h) (hvc : vc < w)
    (inv : PosInv s0 s T h w n vr vc i (i * w)) :
    let r := exec fuel cellLoop s
    r.ctl = .run ∧ PosInv s0 r T h w n vr vc i (i * w + w) ∧ r.fa "inrast" = s.fa "inrast" := by
  have h := Px.forRange_up "j" (.var "n_cols") cellBody s fuel w inv.cell.ctl (by simp [IE.ok]) (by simp [IE.eval, inv.cell.nc])
    (fun k st => PosInv s0 st T h w n vr vc i (i * w + k) ∧ st.fa "inrast" = s.fa "inrast")
    ⟨inv, rfl⟩
    (fun k hk st hrun hP => by
      by_cases hobs : i = vr ∧ k = vc
      · obtain ⟨rfl, rfl⟩ := hobs
        obtain ⟨a, b, c⟩ := posInv_obs s0 st fuel T h w n i k hvr hvc hP.1
        exact ⟨a, b, c.trans hP.2⟩
      · obtain ⟨a, b, c⟩ := posInv_other hL hH s0 st fuel T h w n vr vc i k hn hih hk hvr hvc hobs hP.1
        have : afterBody (exec fuel cellBody { st with ienv := setS st.ienv "j" (k : Int) }) =
            exec fuel cellBody { st with ienv := setS st.ienv "j" (k : Int) } := afterBody_run _ a
        rw [this]
        exact ⟨a, b, c.trans hP.2⟩)
  exact ⟨h.1, h.2.1, h.2.2⟩
end XrsVerif.ILSw
