import XrsVerif.Model.ViewshedEvents
import Mathlib.Tactic.Ring
import Mathlib.Tactic.Linarith
/-
  C05 -- lemmas about the event geometry (Model/ViewshedEvents.lean): the corner tables read from the source, exact
  bearings by cross products, the event list as a nested flatMap.
-/
namespace XrsVerif.ViewshedEvents
open XrsVerif.Gen.Viewshed

theorem sg_cases (x : Int) : (x < 0 ∧ sg x = -1) ∨ (x = 0 ∧ sg x = 0) ∨ (0 < x ∧ sg x = 1) := by
  unfold sg
  rcases Int.lt_trichotomy x 0 with h | h | h
  · left; simp [h]
  · right; left; simp [h]
  · right; right
    have h1 : ¬ x < 0 := by omega
    have h2 : ¬ x = 0 := by omega
    exact ⟨h, by simp [h1, h2]⟩

/-- an if-chain table as a function of the two signs -/
def pickS (tbl : List Row6) (ty sr sc : Int) : Int × Int :=
  match branch tbl sr sc with
  | some (_, _, ey, ex, xy, xx) => if ty = 1 then (ey, ex) else (xy, xx)
  | none => (0, 0)

def posS (ty sr sc : Int) : Int × Int := if ty = 0 then (0, 0) else pickS calcEventPosTable ty sr sc
def nbS (ty sr sc : Int) : Int × Int := pickS calcEventRowColTable ty sr sc

theorem posOff_eq (ty dr dc : Int) : posOff ty dr dc = posS ty (sg dr) (sg dc) := rfl
theorem nbOff_eq (ty dr dc : Int) : nbOff ty dr dc = nbS ty (sg dr) (sg dc) := rfl

/-- **the corner table of `_calc_event_pos`, as read from the source** (a changed branch breaks this `decide`) -/
theorem posS_table :
    posS 1 (-1) (-1) = (-1, 1) ∧ posS (-1) (-1) (-1) = (1, -1) ∧
    posS 1 (-1) 0 = (1, 1) ∧ posS (-1) (-1) 0 = (1, -1) ∧
    posS 1 (-1) 1 = (1, 1) ∧ posS (-1) (-1) 1 = (-1, -1) ∧
    posS 1 0 1 = (1, -1) ∧ posS (-1) 0 1 = (-1, -1) ∧
    posS 1 1 1 = (1, -1) ∧ posS (-1) 1 1 = (-1, 1) ∧
    posS 1 1 0 = (-1, -1) ∧ posS (-1) 1 0 = (-1, 1) ∧
    posS 1 1 (-1) = (-1, -1) ∧ posS (-1) 1 (-1) = (1, 1) ∧
    posS 1 0 (-1) = (-1, 1) ∧ posS (-1) 0 (-1) = (1, 1) ∧
    posS 1 0 0 = (0, 0) ∧ posS (-1) 0 0 = (0, 0) := by decide

/-- `_calculate_event_row_col` names the diagonal neighbour beyond the very corner `_calc_event_pos` returns -/
theorem nbS_eq_posS : ∀ ty ∈ [1, -1], ∀ sr ∈ [-1, 0, 1], ∀ sc ∈ [-1, 0, 1], nbS ty sr sc = posS ty sr sc := by decide

theorem sg_mem (x : Int) : sg x ∈ [-1, 0, 1] := by
  rcases sg_cases x with ⟨_, h⟩ | ⟨_, h⟩ | ⟨_, h⟩ <;> simp [h]

theorem nbOff_eq_posOff (ty dr dc : Int) (hty : ty = 1 ∨ ty = -1) : nbOff ty dr dc = posOff ty dr dc := by
  rw [nbOff_eq, posOff_eq]
  exact nbS_eq_posS ty (by rcases hty with h | h <;> simp [h]) _ (sg_mem dr) _ (sg_mem dc)

theorem sg_neg {x : Int} (h : x < 0) : sg x = -1 := by simp [sg, h]
theorem sg_zero : sg 0 = 0 := by decide
theorem sg_pos {x : Int} (h : 0 < x) : sg x = 1 := by
  have h1 : ¬ x < 0 := by omega
  have h2 : ¬ x = 0 := by omega
  simp [sg, h1, h2]

/-- case analysis on the position of a cell relative to the observer, with the offsets evaluated -/
theorem posOff_cases (dr dc : Int) :
    (dr < 0 ∧ dc < 0 ∧ posOff 1 dr dc = (-1, 1) ∧ posOff (-1) dr dc = (1, -1)) ∨
    (dr < 0 ∧ dc = 0 ∧ posOff 1 dr dc = (1, 1) ∧ posOff (-1) dr dc = (1, -1)) ∨
    (dr < 0 ∧ 0 < dc ∧ posOff 1 dr dc = (1, 1) ∧ posOff (-1) dr dc = (-1, -1)) ∨
    (dr = 0 ∧ 0 < dc ∧ posOff 1 dr dc = (1, -1) ∧ posOff (-1) dr dc = (-1, -1)) ∨
    (0 < dr ∧ 0 < dc ∧ posOff 1 dr dc = (1, -1) ∧ posOff (-1) dr dc = (-1, 1)) ∨
    (0 < dr ∧ dc = 0 ∧ posOff 1 dr dc = (-1, -1) ∧ posOff (-1) dr dc = (-1, 1)) ∨
    (0 < dr ∧ dc < 0 ∧ posOff 1 dr dc = (-1, -1) ∧ posOff (-1) dr dc = (1, 1)) ∨
    (dr = 0 ∧ dc < 0 ∧ posOff 1 dr dc = (-1, 1) ∧ posOff (-1) dr dc = (1, 1)) ∨
    (dr = 0 ∧ dc = 0 ∧ posOff 1 dr dc = (0, 0) ∧ posOff (-1) dr dc = (0, 0)) := by
  obtain ⟨h1, h2, h3, h4, h5, h6, h7, h8, h9, h10, h11, h12, h13, h14, h15, h16, h17, h18⟩ := posS_table
  simp only [posOff_eq]
  rcases Int.lt_trichotomy dr 0 with hr | hr | hr <;> rcases Int.lt_trichotomy dc 0 with hc | hc | hc
  · rw [sg_neg hr, sg_neg hc]; exact Or.inl ⟨hr, hc, h1, h2⟩
  · subst hc; rw [sg_neg hr, sg_zero]; exact Or.inr (Or.inl ⟨hr, rfl, h3, h4⟩)
  · rw [sg_neg hr, sg_pos hc]; exact Or.inr (Or.inr (Or.inl ⟨hr, hc, h5, h6⟩))
  · subst hr; rw [sg_zero, sg_neg hc]; exact Or.inr (Or.inr (Or.inr (Or.inr (Or.inr (Or.inr (Or.inr (Or.inl ⟨rfl, hc, h15, h16⟩)))))))
  · subst hr; subst hc; rw [sg_zero]
    exact Or.inr (Or.inr (Or.inr (Or.inr (Or.inr (Or.inr (Or.inr (Or.inr ⟨rfl, rfl, h17, h18⟩)))))))
  · subst hr; rw [sg_zero, sg_pos hc]; exact Or.inr (Or.inr (Or.inr (Or.inl ⟨rfl, hc, h7, h8⟩)))
  · rw [sg_pos hr, sg_neg hc]; exact Or.inr (Or.inr (Or.inr (Or.inr (Or.inr (Or.inr (Or.inl ⟨hr, hc, h13, h14⟩))))))
  · subst hc; rw [sg_pos hr, sg_zero]; exact Or.inr (Or.inr (Or.inr (Or.inr (Or.inr (Or.inl ⟨hr, rfl, h11, h12⟩)))))
  · rw [sg_pos hr, sg_pos hc]; exact Or.inr (Or.inr (Or.inr (Or.inr (Or.inl ⟨hr, hc, h9, h10⟩))))

theorem posOff_centre (dr dc : Int) : posOff 0 dr dc = (0, 0) := rfl

/-! ### cross products of the doubled vectors (x east, y north) -/

theorem cross_corner_centre (dr dc oy ox : Int) :
    cross (2 * dc + ox) (-(2 * dr + oy)) (2 * dc) (-(2 * dr)) = 2 * (dc * oy - dr * ox) := by
  unfold cross; ring

theorem cross_centre_corner (dr dc oy ox : Int) :
    cross (2 * dc) (-(2 * dr)) (2 * dc + ox) (-(2 * dr + oy)) = 2 * (dr * ox - dc * oy) := by
  unfold cross; ring

theorem cross_corner_corner (dr dc oy ox py px : Int) :
    cross (2 * dc + ox) (-(2 * dr + oy)) (2 * dc + px) (-(2 * dr + py)) =
      2 * (dc * (oy - py) - dr * (ox - px)) + (oy * px - ox * py) := by
  unfold cross; ring

/-! ### the event list as a nested flatMap -/

theorem filter_flatMap_range_single {α : Type} (n i0 : Nat) (hi : i0 < n) (f : Nat → List α) (p : α → Bool)
    (hne : ∀ i, i ≠ i0 → ∀ x ∈ f i, p x = false) :
    ((List.range n).flatMap f).filter p = (f i0).filter p := by
  induction n with
  | zero => omega
  | succ n ih =>
    rw [List.range_succ, List.flatMap_append, List.filter_append]
    simp only [List.flatMap_cons, List.flatMap_nil, List.append_nil]
    by_cases h : i0 = n
    · subst h
      have : ((List.range i0).flatMap f).filter p = [] := by
        rw [List.filter_eq_nil_iff]
        intro x hx
        rw [List.mem_flatMap] at hx
        obtain ⟨i, hi', hx⟩ := hx
        rw [List.mem_range] at hi'
        simp [hne i (by omega) x hx]
      rw [this, List.nil_append]
    · rw [ih (by omega)]
      have : (f n).filter p = [] := by
        rw [List.filter_eq_nil_iff]
        intro x hx
        simp [hne n (fun h' => h h'.symm) x hx]
      rw [this, List.append_nil]

theorem filter_flatMap_range_none {α : Type} (n : Nat) (f : Nat → List α) (p : α → Bool)
    (hne : ∀ i, ∀ x ∈ f i, p x = false) : ((List.range n).flatMap f).filter p = [] := by
  rw [List.filter_eq_nil_iff]
  intro x hx
  rw [List.mem_flatMap] at hx
  obtain ⟨i, _, hx⟩ := hx
  simp [hne i x hx]

/-- is this an event of cell `(r, c)` -/
def ofCell (r c : Int) (e : Event) : Bool := decide (e.row = r) && decide (e.col = c)

theorem cellEvents_ofCell (T : Int → Int → Rat) (h w vr vc row col r c : Int) :
    ∀ e ∈ cellEvents T h w vr vc row col, ofCell r c e = (decide (row = r) && decide (col = c)) := by
  intro e he
  simp only [cellEvents, List.mem_cons, List.not_mem_nil, or_false] at he
  rcases he with rfl | rfl | rfl <;> rfl

theorem mem_cell_row (T : Int → Int → Rat) (h w : Nat) (vr vc : Int) (i : Nat) (x : Event)
    (hx : x ∈ (List.range w).flatMap fun (j : Nat) =>
      if (i : Int) = vr ∧ (j : Int) = vc then [] else cellEvents T h w vr vc i j) : x.row = i := by
  rw [List.mem_flatMap] at hx
  obtain ⟨j, _, hx⟩ := hx
  split at hx
  · simp at hx
  · simp only [cellEvents, List.mem_cons, List.not_mem_nil, or_false] at hx
    rcases hx with rfl | rfl | rfl <;> rfl

/-- the events of one cell of the raster are exactly its ENTER, CENTER, EXIT events, in this order; the observer's cell
    and cells outside the raster have none -/
theorem eventList_filter_cell (T : Int → Int → Rat) (h w : Nat) (vr vc : Int) (r c : Nat) :
    (eventList T h w vr vc).filter (ofCell r c) =
      if r < h ∧ c < w ∧ ¬((r : Int) = vr ∧ (c : Int) = vc) then cellEvents T h w vr vc r c else [] := by
  unfold eventList
  have outer_ne : ∀ i : Nat, i ≠ r → ∀ x ∈ ((List.range w).flatMap fun (j : Nat) =>
      if (i : Int) = vr ∧ (j : Int) = vc then [] else cellEvents T h w vr vc i j), ofCell r c x = false := by
    intro i hi x hx
    have := mem_cell_row T h w vr vc i x hx
    have hne : ¬ x.row = (r : Int) := by omega
    simp [ofCell, hne]
  by_cases hr : r < h
  · rw [filter_flatMap_range_single h r hr _ _ outer_ne]
    have inner_ne : ∀ j : Nat, j ≠ c → ∀ x ∈ (if (r : Int) = vr ∧ (j : Int) = vc then [] else cellEvents T h w vr vc r j),
        ofCell r c x = false := by
      intro j hj x hx
      split at hx
      · simp at hx
      · rw [cellEvents_ofCell T h w vr vc r j r c x hx]
        have : ¬ (j : Int) = c := by omega
        simp [this]
    by_cases hc : c < w
    · rw [filter_flatMap_range_single w c hc _ _ inner_ne]
      by_cases ho : (r : Int) = vr ∧ (c : Int) = vc
      · simp [ho]
      · simp only [ho, if_false, hr, hc, not_false_eq_true, and_self, if_true]
        rw [List.filter_eq_self]
        intro e he
        rw [cellEvents_ofCell T h w vr vc r c r c e he]; simp
    · have : ((List.range w).flatMap fun (j : Nat) =>
          if (r : Int) = vr ∧ (j : Int) = vc then [] else cellEvents T h w vr vc r j).filter (ofCell r c) = [] := by
        rw [List.filter_eq_nil_iff]
        intro x hx
        rw [List.mem_flatMap] at hx
        obtain ⟨j, hj, hx⟩ := hx
        rw [List.mem_range] at hj
        simp [inner_ne j (by omega) x hx]
      rw [this]; simp [hc]
  · have : ((List.range h).flatMap fun (i : Nat) => (List.range w).flatMap fun (j : Nat) =>
        if (i : Int) = vr ∧ (j : Int) = vc then [] else cellEvents T h w vr vc i j).filter (ofCell r c) = [] := by
      rw [List.filter_eq_nil_iff]
      intro x hx
      rw [List.mem_flatMap] at hx
      obtain ⟨i, hi, hx⟩ := hx
      rw [List.mem_range] at hi
      simp [outer_ne i (by omega) x hx]
    rw [this]; simp [hr]

/-! ### counting -/

theorem length_flatMap_range_one_exception {α : Type} (n k : Nat) (hk : k < n) (f : Nat → List α) (a b : Nat)
    (ha : ∀ j, j ≠ k → (f j).length = a) (hb : (f k).length = b) :
    ((List.range n).flatMap f).length = (n - 1) * a + b := by
  have gen : ∀ m, ((List.range m).flatMap f).length = if k < m then (m - 1) * a + b else m * a := by
    intro m
    induction m with
    | zero => simp
    | succ m ih =>
      rw [List.range_succ, List.flatMap_append, List.length_append, ih]
      simp only [List.flatMap_cons, List.flatMap_nil, List.append_nil]
      by_cases h1 : k < m
      · have : k < m + 1 := by omega
        simp only [h1, this, if_true]
        rw [ha m (by omega)]
        have : m + 1 - 1 = (m - 1) + 1 := by omega
        rw [this, Nat.add_mul]; omega
      · by_cases h2 : k = m
        · subst h2
          simp only [Nat.lt_irrefl, if_false, Nat.lt_succ_self, if_true, hb]
          simp
        · have : ¬ k < m + 1 := by omega
          simp only [h1, this, if_false]
          rw [ha m (by omega), Nat.add_mul]; omega
  rw [gen n]; simp [hk]

theorem int_le_sq (x : Int) : x ≤ x * x ∧ -x ≤ x * x := by
  by_cases h : 1 ≤ x
  · constructor <;> nlinarith
  · by_cases h0 : x < 0
    · constructor <;> nlinarith
    · have : x = 0 := by omega
      subst this; simp

/-- the key (squared map distance) of a cell other than the observer's is positive: it never collides with the permanent
    dummy node's key 0 -/
theorem key_pos (ew ns : Rat) (vr vc row col : Int) (hew : ew ≠ 0) (hns : ns ≠ 0) (hne : row ≠ vr ∨ col ≠ vc) :
    0 < key ew ns vr vc row col := by
  unfold key
  rcases hne with h | h
  · have h1 : ((row - vr : Int) : Rat) ≠ 0 := by exact_mod_cast (by omega : row - vr ≠ 0)
    have : 0 < (((row - vr : Int) : Rat) * ns) * (((row - vr : Int) : Rat) * ns) :=
      mul_self_pos.mpr (mul_ne_zero h1 hns)
    nlinarith [mul_self_nonneg (((col - vc : Int) : Rat) * ew)]
  · have h1 : ((col - vc : Int) : Rat) ≠ 0 := by exact_mod_cast (by omega : col - vc ≠ 0)
    have : 0 < (((col - vc : Int) : Rat) * ew) * (((col - vc : Int) : Rat) * ew) :=
      mul_self_pos.mpr (mul_ne_zero h1 hew)
    nlinarith [mul_self_nonneg (((row - vr : Int) : Rat) * ns)]

end XrsVerif.ViewshedEvents
