import XrsVerif.Proofs.ILangVstree
/-
  Proofs/ILangVsinsdel.lean -- two generic facts about the ILang interpreter, proved once for every program, used to
  make the refinement theorems of `_left_rotate` / `_right_rotate` serve their *inlined copies* in
  `_rb_insert_fixup` / `_rb_delete_fixup` (other variable names), and to state frames:

  * **renaming** (`exec_ren`): for an injective renaming `ρ` of the scalar variables, running the renamed statement
    `renS ρ st` in a state `s` is running `st` in the state seen through `ρ` (`pull ρ s`): arrays, shapes and
    control are the same, the scalar `ρ v` of the one run is the scalar `v` of the other.  So a theorem about a
    stand-alone program (`Gen.IL.vsLeftRotate`) transfers to every inlined copy `renS ρ body` -- and that a copy *is*
    `renS ρ body` is checked by `rfl` / `decide` against the regenerated program.
  * **frame** (`exec_frame`): a statement changes only the scalars it syntactically assigns (`wI`, `wF`, `wB`) and the
    arrays it syntactically stores to or allocates (`wIA`, `wFA`); shapes change only by allocation.

  Injective renamings: a prefix (`ren_pre`), a transposition of two names (`swapS`), compositions.
-/
set_option linter.unusedSectionVars false
set_option linter.unusedVariables false
namespace XrsVerif.ILVs
open XrsVerif XrsVerif.IL
variable {F : Type} [Fl F]

/-! ### renaming of scalar variables -/

def renI (ρ : String → String) : IE → IE
  | .lit n => .lit n
  | .var v => .var (ρ v)
  | .bin op a b => .bin op (renI ρ a) (renI ρ b)
  | .neg a => .neg (renI ρ a)
  | .dim a k => .dim a k
  | .ld1 a i => .ld1 a (renI ρ i)
  | .ld2 a i j => .ld2 a (renI ρ i) (renI ρ j)
  | .sum a => .sum a

def renF (ρ : String → String) : FE → FE
  | .lit n d => .lit n d
  | .nan => .nan
  | .inf => .inf
  | .pi => .pi
  | .var v => .var (ρ v)
  | .ofInt e => .ofInt (renI ρ e)
  | .ld1 a i => .ld1 a (renI ρ i)
  | .ld2 a i j => .ld2 a (renI ρ i) (renI ρ j)
  | .un op a => .un op (renF ρ a)
  | .bin op a b => .bin op (renF ρ a) (renF ρ b)
  | .ext fn a b c d k => .ext fn (renF ρ a) (renF ρ b) (renF ρ c) (renF ρ d) (renI ρ k)
  | .red op a => .red op a

def renB (ρ : String → String) : BE → BE
  | .tt => .tt
  | .ff => .ff
  | .var v => .var (ρ v)
  | .cmpI op a b => .cmpI op (renI ρ a) (renI ρ b)
  | .cmpF op a b => .cmpF op (renF ρ a) (renF ρ b)
  | .isnan a => .isnan (renF ρ a)
  | .isfinite a => .isfinite (renF ρ a)
  | .and a b => .and (renB ρ a) (renB ρ b)
  | .or a b => .or (renB ρ a) (renB ρ b)
  | .not a => .not (renB ρ a)

def renS (ρ : String → String) : St → St
  | .skip => .skip
  | .seq a b => .seq (renS ρ a) (renS ρ b)
  | .setI v e => .setI (ρ v) (renI ρ e)
  | .setF v e => .setF (ρ v) (renF ρ e)
  | .setB v c => .setB (ρ v) (renB ρ c)
  | .stF1 a i e => .stF1 a (renI ρ i) (renF ρ e)
  | .stF2 a i j e => .stF2 a (renI ρ i) (renI ρ j) (renF ρ e)
  | .stI1 a i e => .stI1 a (renI ρ i) (renI ρ e)
  | .stI2 a i j e => .stI2 a (renI ρ i) (renI ρ j) (renI ρ e)
  | .allocF a dims fill => .allocF a (dims.map (renI ρ)) (renF ρ fill)
  | .allocI a dims fill => .allocI a (dims.map (renI ρ)) (renI ρ fill)
  | .ite c t f => .ite (renB ρ c) (renS ρ t) (renS ρ f)
  | .while c b => .while (renB ρ c) (renS ρ b)
  | .forRange v lo hi step b => .forRange (ρ v) (renI ρ lo) (renI ρ hi) (renI ρ step) (renS ρ b)
  | .forIn v a b => .forIn (ρ v) a (renS ρ b)
  | .brk => .brk
  | .cont => .cont
  | .ret => .ret
  | .scope b => .scope (renS ρ b)
  | .fail m => .fail m

/-- the state seen through a renaming: the scalar `v` is the scalar `ρ v` of `s` -/
def pull (ρ : String → String) (s : State F) : State F :=
  { s with ienv := fun v => s.ienv (ρ v), fenv := fun v => s.fenv (ρ v), benv := fun v => s.benv (ρ v) }

@[simp] theorem pull_ctl (ρ : String → String) (s : State F) : (pull ρ s).ctl = s.ctl := rfl
@[simp] theorem pull_ia (ρ : String → String) (s : State F) : (pull ρ s).ia = s.ia := rfl
@[simp] theorem pull_fa (ρ : String → String) (s : State F) : (pull ρ s).fa = s.fa := rfl
@[simp] theorem pull_shp (ρ : String → String) (s : State F) : (pull ρ s).shp = s.shp := rfl
@[simp] theorem pull_ext (ρ : String → String) (s : State F) : (pull ρ s).ext = s.ext := rfl
@[simp] theorem pull_ienv (ρ : String → String) (s : State F) (v : String) : (pull ρ s).ienv v = s.ienv (ρ v) := rfl
@[simp] theorem pull_fenv (ρ : String → String) (s : State F) (v : String) : (pull ρ s).fenv v = s.fenv (ρ v) := rfl
@[simp] theorem pull_benv (ρ : String → String) (s : State F) (v : String) : (pull ρ s).benv v = s.benv (ρ v) := rfl

theorem renI_eval (ρ : String → String) (s : State F) : ∀ e : IE, (renI ρ e).eval s = e.eval (pull ρ s) := by
  intro e
  induction e with
  | lit n => rfl
  | var v => rfl
  | bin op a b iha ihb => simp only [renI, IE.eval, iha, ihb]
  | neg a iha => simp only [renI, IE.eval, iha]
  | dim a k => rfl
  | ld1 a i ihi => simp only [renI, IE.eval, ihi, pull_shp, pull_ia]
  | ld2 a i j ihi ihj => simp only [renI, IE.eval, ihi, ihj, pull_shp, pull_ia]
  | sum a => rfl

theorem renI_ok (ρ : String → String) (s : State F) : ∀ e : IE, (renI ρ e).ok s = e.ok (pull ρ s) := by
  intro e
  induction e with
  | lit n => rfl
  | var v => rfl
  | bin op a b iha ihb => simp only [renI, IE.ok, iha, ihb, renI_eval]
  | neg a iha => simp only [renI, IE.ok, iha]
  | dim a k => rfl
  | ld1 a i ihi => simp only [renI, IE.ok, ihi, renI_eval, pull_shp]; rfl
  | ld2 a i j ihi ihj => simp only [renI, IE.ok, ihi, ihj, renI_eval, pull_shp]; rfl
  | sum a => rfl

theorem renF_eval (ρ : String → String) (s : State F) : ∀ e : FE, (renF ρ e).eval s = e.eval (pull ρ s) := by
  intro e
  induction e with
  | lit n d => rfl
  | nan => rfl
  | inf => rfl
  | pi => rfl
  | var v => rfl
  | ofInt e => simp only [renF, FE.eval, renI_eval]
  | ld1 a i => simp only [renF, FE.eval, renI_eval, pull_shp, pull_fa]
  | ld2 a i j => simp only [renF, FE.eval, renI_eval, pull_shp, pull_fa]
  | un op a iha => simp only [renF, FE.eval, iha]
  | bin op a b iha ihb => simp only [renF, FE.eval, iha, ihb]
  | ext fn a b c d k iha ihb ihc ihd => simp only [renF, FE.eval, iha, ihb, ihc, ihd, renI_eval, pull_ext]
  | red op a => rfl

theorem renF_ok (ρ : String → String) (s : State F) : ∀ e : FE, (renF ρ e).ok s = e.ok (pull ρ s) := by
  intro e
  induction e with
  | lit n d => rfl
  | nan => rfl
  | inf => rfl
  | pi => rfl
  | var v => rfl
  | ofInt e => simp only [renF, FE.ok, renI_ok]
  | ld1 a i => simp only [renF, FE.ok, renI_ok, renI_eval, pull_shp]; rfl
  | ld2 a i j => simp only [renF, FE.ok, renI_ok, renI_eval, pull_shp]; rfl
  | un op a iha => simp only [renF, FE.ok, iha]
  | bin op a b iha ihb => simp only [renF, FE.ok, iha, ihb]
  | ext fn a b c d k iha ihb ihc ihd => simp only [renF, FE.ok, iha, ihb, ihc, ihd, renI_ok]
  | red op a => rfl

theorem renB_eval (ρ : String → String) (s : State F) : ∀ e : BE, (renB ρ e).eval s = e.eval (pull ρ s) := by
  intro e
  induction e with
  | tt => rfl
  | ff => rfl
  | var v => rfl
  | cmpI op a b => simp only [renB, BE.eval, renI_eval]
  | cmpF op a b => simp only [renB, BE.eval, renF_eval]
  | isnan a => simp only [renB, BE.eval, renF_eval]
  | isfinite a => simp only [renB, BE.eval, renF_eval]
  | and a b iha ihb => simp only [renB, BE.eval, iha, ihb]
  | or a b iha ihb => simp only [renB, BE.eval, iha, ihb]
  | not a iha => simp only [renB, BE.eval, iha]

theorem renB_ok (ρ : String → String) (s : State F) : ∀ e : BE, (renB ρ e).ok s = e.ok (pull ρ s) := by
  intro e
  induction e with
  | tt => rfl
  | ff => rfl
  | var v => rfl
  | cmpI op a b => simp only [renB, BE.ok, renI_ok]
  | cmpF op a b => simp only [renB, BE.ok, renF_ok]
  | isnan a => simp only [renB, BE.ok, renF_ok]
  | isfinite a => simp only [renB, BE.ok, renF_ok]
  | and a b iha ihb => simp only [renB, BE.ok, iha, ihb, renB_eval]
  | or a b iha ihb => simp only [renB, BE.ok, iha, ihb, renB_eval]
  | not a iha => simp only [renB, BE.ok, iha]

/-- an injective renaming -/
def Inj (ρ : String → String) : Prop := ∀ a b, ρ a = ρ b → a = b

theorem pull_setS {α} (ρ : String → String) (hρ : Inj ρ) (env : String → α) (v : String) (x : α) :
    (fun w => setS env (ρ v) x (ρ w)) = setS (fun w => env (ρ w)) v x := by
  funext w
  simp only [setS]
  by_cases h : w = v
  · simp [h]
  · have : ρ w ≠ ρ v := fun e => h (hρ _ _ e)
    simp [h, this]

theorem pull_afterBody (ρ : String → String) (s : State F) : pull ρ (afterBody s) = afterBody (pull ρ s) := by
  unfold afterBody; simp only [pull_ctl]; split <;> rfl

theorem pull_afterLoop (ρ : String → String) (s : State F) : pull ρ (afterLoop s) = afterLoop (pull ρ s) := by
  unfold afterLoop; simp only [pull_ctl]; split <;> rfl

theorem pull_loopOver {α} (ρ : String → String) (f g : State F → α → State F) (xs : List α)
    (h : ∀ st x, pull ρ (f st x) = g (pull ρ st) x) (s : State F) :
    pull ρ (loopOver f xs s) = loopOver g xs (pull ρ s) := by
  unfold loopOver
  rw [pull_afterLoop]
  congr 1
  induction xs generalizing s with
  | nil => rfl
  | cons x xs ih =>
    simp only [List.foldl_cons]
    rw [ih]
    congr 1
    by_cases hs : s.ctl = .run
    · simp only [hs, pull_ctl, if_true, pull_afterBody, h]
    · simp only [hs, pull_ctl, if_false]

/-- **renaming theorem**: the renamed statement acts on the state as the statement acts on the pulled-back state -/
theorem exec_ren (ρ : String → String) (hρ : Inj ρ) :
    ∀ (fuel : Nat) (st : St) (s : State F), pull ρ (exec fuel (renS ρ st) s) = exec fuel st (pull ρ s) := by
  intro fuel
  induction fuel using Nat.strongRecOn with
  | _ fuel ihf =>
    intro st
    induction st with
    | skip => intro s; simp only [renS, exec]
    | seq a b iha ihb =>
      intro s
      simp only [renS, exec]
      have h1 := iha s
      have hc : (exec fuel (renS ρ a) s).ctl = (exec fuel a (pull ρ s)).ctl := by rw [← h1]; rfl
      rw [← hc]
      split
      · rw [ihb, h1]
      · exact h1
    | setI v e =>
      intro s
      simp only [renS, exec, renI_ok, renI_eval]
      split
      · simp only [pull, pull_setS ρ hρ]
      · rfl
    | setF v e =>
      intro s
      simp only [renS, exec, renF_ok, renF_eval]
      split
      · simp only [pull, pull_setS ρ hρ]
      · rfl
    | setB v e =>
      intro s
      simp only [renS, exec, renB_ok, renB_eval]
      split
      · simp only [pull, pull_setS ρ hρ]
      · rfl
    | stF1 a i e =>
      intro s
      simp only [renS, exec, renI_ok, renI_eval, renF_ok, renF_eval]
      rw [apply_ite (pull ρ)]; rfl
    | stF2 a i j e =>
      intro s
      simp only [renS, exec, renI_ok, renI_eval, renF_ok, renF_eval]
      rw [apply_ite (pull ρ)]; rfl
    | stI1 a i e =>
      intro s
      simp only [renS, exec, renI_ok, renI_eval]
      rw [apply_ite (pull ρ)]; rfl
    | stI2 a i j e =>
      intro s
      simp only [renS, exec, renI_ok, renI_eval]
      rw [apply_ite (pull ρ)]; rfl
    | allocF a dims fill =>
      intro s
      simp only [renS, exec, List.all_map, Function.comp_def, List.map_map, renI_ok, renI_eval, renF_ok, renF_eval]
      rw [apply_ite (pull ρ)]; rfl
    | allocI a dims fill =>
      intro s
      simp only [renS, exec, List.all_map, Function.comp_def, List.map_map, renI_ok, renI_eval]
      rw [apply_ite (pull ρ)]; rfl
    | ite c t f iht ihf' =>
      intro s
      simp only [renS, exec, renB_ok, renB_eval]
      split
      · split
        · exact iht s
        · exact ihf' s
      · rfl
    | «while» c b ihb =>
      intro s
      cases fuel with
      | zero => simp only [renS, exec]; rfl
      | succ f =>
        simp only [renS, exec, renB_ok, renB_eval]
        split
        · split
          · have h1 := ihf f (Nat.lt_succ_self f) b s
            have hw := ihf f (Nat.lt_succ_self f) (.while c b)
            simp only [renS] at hw
            rw [← h1]
            generalize exec f (renS ρ b) s = s1
            cases hctl : s1.ctl with
            | run => simp only [pull_ctl, hctl]; exact hw s1
            | cont => simp only [pull_ctl, hctl]; exact hw _
            | brk => simp only [pull_ctl, hctl]; rfl
            | ret => simp only [pull_ctl, hctl]
            | err m => simp only [pull_ctl, hctl]
          · rfl
        · rfl
    | forRange v lo hi step b ihb =>
      intro s
      simp only [renS, exec, renI_ok, renI_eval]
      split
      · apply pull_loopOver
        intro st x
        rw [ihb]
        congr 1
        simp only [pull, pull_setS ρ hρ]
      · rfl
    | forIn v a b ihb =>
      intro s
      simp only [renS, exec]
      by_cases hc : (s.shp a).length = 1
      · rw [if_pos hc, if_pos (show ((pull ρ s).shp a).length = 1 from hc)]
        apply pull_loopOver
        intro st x
        rw [ihb]
        congr 1
        simp only [pull, pull_setS ρ hρ]
      · rw [if_neg hc, if_neg (show ¬ ((pull ρ s).shp a).length = 1 from hc)]; rfl
    | brk => intro s; simp only [renS, exec]; rfl
    | cont => intro s; simp only [renS, exec]; rfl
    | ret => intro s; simp only [renS, exec]; rfl
    | scope b ihb =>
      intro s
      simp only [renS, exec]
      have h1 := ihb s
      have hc : (exec fuel (renS ρ b) s).ctl = (exec fuel b (pull ρ s)).ctl := by rw [← h1]; rfl
      rw [← hc, ← h1]
      split <;> rfl
    | fail m => intro s; simp only [renS, exec]; rfl

/-! ### injective renamings -/

theorem inj_pre (p : String) : Inj (fun a => p ++ a) := fun _ _ h => (String.append_right_inj p).1 h

/-- exchange two names -/
def swapS (a b : String) (v : String) : String := if v = a then b else if v = b then a else v

theorem swapS_invol (a b v : String) : swapS a b (swapS a b v) = v := by
  unfold swapS
  by_cases h1 : v = a
  · by_cases h2 : b = a <;> simp [h1, h2]
  · by_cases h2 : v = b
    · simp [h1, h2]
    · simp [h1, h2]

theorem inj_swapS (a b : String) : Inj (swapS a b) := fun x y h => by
  have := congrArg (swapS a b) h
  rwa [swapS_invol, swapS_invol] at this

theorem Inj.comp {f g : String → String} (hf : Inj f) (hg : Inj g) : Inj (fun v => f (g v)) :=
  fun a b h => hg _ _ (hf _ _ h)

/-! ### what a statement writes -/

def wI : St → List String
  | .setI v _ => [v]
  | .seq a b => wI a ++ wI b
  | .ite _ t f => wI t ++ wI f
  | .while _ b => wI b
  | .forRange v _ _ _ b => v :: wI b
  | .forIn _ _ b => wI b
  | .scope b => wI b
  | _ => []

def wF : St → List String
  | .setF v _ => [v]
  | .seq a b => wF a ++ wF b
  | .ite _ t f => wF t ++ wF f
  | .while _ b => wF b
  | .forRange _ _ _ _ b => wF b
  | .forIn v _ b => v :: wF b
  | .scope b => wF b
  | _ => []

def wB : St → List String
  | .setB v _ => [v]
  | .seq a b => wB a ++ wB b
  | .ite _ t f => wB t ++ wB f
  | .while _ b => wB b
  | .forRange _ _ _ _ b => wB b
  | .forIn _ _ b => wB b
  | .scope b => wB b
  | _ => []

/-- integer arrays stored to or allocated -/
def wIA : St → List String
  | .stI1 a _ _ => [a]
  | .stI2 a _ _ _ => [a]
  | .allocI a _ _ => [a]
  | .seq a b => wIA a ++ wIA b
  | .ite _ t f => wIA t ++ wIA f
  | .while _ b => wIA b
  | .forRange _ _ _ _ b => wIA b
  | .forIn _ _ b => wIA b
  | .scope b => wIA b
  | _ => []

/-- numeric arrays stored to or allocated -/
def wFA : St → List String
  | .stF1 a _ _ => [a]
  | .stF2 a _ _ _ => [a]
  | .allocF a _ _ => [a]
  | .seq a b => wFA a ++ wFA b
  | .ite _ t f => wFA t ++ wFA f
  | .while _ b => wFA b
  | .forRange _ _ _ _ b => wFA b
  | .forIn _ _ b => wFA b
  | .scope b => wFA b
  | _ => []

/-- arrays allocated (the only way a shape changes) -/
def wSh : St → List String
  | .allocI a _ _ => [a]
  | .allocF a _ _ => [a]
  | .seq a b => wSh a ++ wSh b
  | .ite _ t f => wSh t ++ wSh f
  | .while _ b => wSh b
  | .forRange _ _ _ _ b => wSh b
  | .forIn _ _ b => wSh b
  | .scope b => wSh b
  | _ => []

/-- `r` differs from `s` only in the listed scalars / arrays (and in control) -/
structure Mods (iv fv bv ias fas shs : List String) (s r : State F) : Prop where
  ienv : ∀ v, v ∉ iv → r.ienv v = s.ienv v
  fenv : ∀ v, v ∉ fv → r.fenv v = s.fenv v
  benv : ∀ v, v ∉ bv → r.benv v = s.benv v
  ia : ∀ a, a ∉ ias → r.ia a = s.ia a
  fa : ∀ a, a ∉ fas → r.fa a = s.fa a
  shp : ∀ a, a ∉ shs → r.shp a = s.shp a
  ext : r.ext = s.ext

theorem Mods.refl (iv fv bv ias fas shs : List String) (s : State F) : Mods iv fv bv ias fas shs s s :=
  ⟨fun _ _ => rfl, fun _ _ => rfl, fun _ _ => rfl, fun _ _ => rfl, fun _ _ => rfl, fun _ _ => rfl, rfl⟩

theorem Mods.trans {iv fv bv ias fas shs : List String} {a b c : State F} (h1 : Mods iv fv bv ias fas shs a b)
    (h2 : Mods iv fv bv ias fas shs b c) : Mods iv fv bv ias fas shs a c :=
  ⟨fun v hv => (h2.ienv v hv).trans (h1.ienv v hv), fun v hv => (h2.fenv v hv).trans (h1.fenv v hv),
   fun v hv => (h2.benv v hv).trans (h1.benv v hv), fun v hv => (h2.ia v hv).trans (h1.ia v hv),
   fun v hv => (h2.fa v hv).trans (h1.fa v hv), fun v hv => (h2.shp v hv).trans (h1.shp v hv), h2.ext.trans h1.ext⟩

theorem Mods.mono {iv fv bv ias fas shs iv' fv' bv' ias' fas' shs' : List String} {a b : State F}
    (h : Mods iv fv bv ias fas shs a b) (h1 : iv ⊆ iv') (h2 : fv ⊆ fv') (h3 : bv ⊆ bv') (h4 : ias ⊆ ias') (h5 : fas ⊆ fas')
    (h6 : shs ⊆ shs') : Mods iv' fv' bv' ias' fas' shs' a b :=
  ⟨fun v hv => h.ienv v (fun hh => hv (h1 hh)), fun v hv => h.fenv v (fun hh => hv (h2 hh)),
   fun v hv => h.benv v (fun hh => hv (h3 hh)), fun v hv => h.ia v (fun hh => hv (h4 hh)),
   fun v hv => h.fa v (fun hh => hv (h5 hh)), fun v hv => h.shp v (fun hh => hv (h6 hh)), h.ext⟩

theorem Mods.ctl {iv fv bv ias fas shs : List String} {a b : State F} (h : Mods iv fv bv ias fas shs a b) (k : Ctl) :
    Mods iv fv bv ias fas shs a { b with ctl := k } :=
  ⟨h.ienv, h.fenv, h.benv, h.ia, h.fa, h.shp, h.ext⟩

theorem Mods.afterBody {iv fv bv ias fas shs : List String} {a b : State F} (h : Mods iv fv bv ias fas shs a b) :
    Mods iv fv bv ias fas shs a (afterBody b) := by
  unfold IL.afterBody; split
  · exact h.ctl _
  · exact h

theorem Mods.afterLoop {iv fv bv ias fas shs : List String} {a b : State F} (h : Mods iv fv bv ias fas shs a b) :
    Mods iv fv bv ias fas shs a (afterLoop b) := by
  unfold IL.afterLoop; split
  · exact h.ctl _
  · exact h

theorem setS_ne {α} (env : String → α) (v w : String) (x : α) (h : w ≠ v) : setS env v x w = env w := by
  simp [setS, h]

theorem mods_loopOver {α} {iv fv bv ias fas shs : List String} (f : State F → α → State F) (xs : List α)
    (h : ∀ st x, Mods iv fv bv ias fas shs st (f st x)) (s : State F) :
    Mods iv fv bv ias fas shs s (loopOver f xs s) := by
  unfold loopOver
  apply Mods.afterLoop
  induction xs generalizing s with
  | nil => exact Mods.refl _ _ _ _ _ _ s
  | cons x xs ih =>
    simp only [List.foldl_cons]
    refine Mods.trans ?_ (ih _)
    split
    · exact (h s x).afterBody
    · exact Mods.refl _ _ _ _ _ _ s

/-- **frame theorem**: a statement changes only what it syntactically writes -/
theorem exec_frame : ∀ (fuel : Nat) (st : St) (s : State F),
    Mods (wI st) (wF st) (wB st) (wIA st) (wFA st) (wSh st) s (exec fuel st s) := by
  intro fuel
  induction fuel using Nat.strongRecOn with
  | _ fuel ihf =>
    intro st
    induction st with
    | skip => intro s; simp only [exec]; exact Mods.refl _ _ _ _ _ _ s
    | seq a b iha ihb =>
      intro s
      simp only [exec]
      have h1 := (iha s).mono (iv' := wI (.seq a b)) (fv' := wF (.seq a b)) (bv' := wB (.seq a b)) (ias' := wIA (.seq a b))
        (fas' := wFA (.seq a b)) (shs' := wSh (.seq a b))
        (by simp [wI]) (by simp [wF]) (by simp [wB]) (by simp [wIA]) (by simp [wFA]) (by simp [wSh])
      split
      · refine h1.trans ((ihb _).mono ?_ ?_ ?_ ?_ ?_ ?_) <;> simp [wI, wF, wB, wIA, wFA, wSh]
      · exact h1
    | setI v e =>
      intro s
      simp only [exec]
      split
      · exact ⟨fun w hw => setS_ne _ _ _ _ (by simpa [wI] using hw), fun _ _ => rfl, fun _ _ => rfl, fun _ _ => rfl,
          fun _ _ => rfl, fun _ _ => rfl, rfl⟩
      · exact (Mods.refl _ _ _ _ _ _ s).ctl _
    | setF v e =>
      intro s
      simp only [exec]
      split
      · exact ⟨fun _ _ => rfl, fun w hw => setS_ne _ _ _ _ (by simpa [wF] using hw), fun _ _ => rfl, fun _ _ => rfl,
          fun _ _ => rfl, fun _ _ => rfl, rfl⟩
      · exact (Mods.refl _ _ _ _ _ _ s).ctl _
    | setB v e =>
      intro s
      simp only [exec]
      split
      · exact ⟨fun _ _ => rfl, fun _ _ => rfl, fun w hw => setS_ne _ _ _ _ (by simpa [wB] using hw), fun _ _ => rfl,
          fun _ _ => rfl, fun _ _ => rfl, rfl⟩
      · exact (Mods.refl _ _ _ _ _ _ s).ctl _
    | stF1 a i e =>
      intro s
      simp only [exec]
      split
      · exact ⟨fun _ _ => rfl, fun _ _ => rfl, fun _ _ => rfl, fun _ _ => rfl,
          fun w hw => setS_ne _ _ _ _ (by simpa [wFA] using hw), fun _ _ => rfl, rfl⟩
      · exact (Mods.refl _ _ _ _ _ _ s).ctl _
    | stF2 a i j e =>
      intro s
      simp only [exec]
      split
      · exact ⟨fun _ _ => rfl, fun _ _ => rfl, fun _ _ => rfl, fun _ _ => rfl,
          fun w hw => setS_ne _ _ _ _ (by simpa [wFA] using hw), fun _ _ => rfl, rfl⟩
      · exact (Mods.refl _ _ _ _ _ _ s).ctl _
    | stI1 a i e =>
      intro s
      simp only [exec]
      split
      · exact ⟨fun _ _ => rfl, fun _ _ => rfl, fun _ _ => rfl, fun w hw => setS_ne _ _ _ _ (by simpa [wIA] using hw),
          fun _ _ => rfl, fun _ _ => rfl, rfl⟩
      · exact (Mods.refl _ _ _ _ _ _ s).ctl _
    | stI2 a i j e =>
      intro s
      simp only [exec]
      split
      · exact ⟨fun _ _ => rfl, fun _ _ => rfl, fun _ _ => rfl, fun w hw => setS_ne _ _ _ _ (by simpa [wIA] using hw),
          fun _ _ => rfl, fun _ _ => rfl, rfl⟩
      · exact (Mods.refl _ _ _ _ _ _ s).ctl _
    | allocF a dims fill =>
      intro s
      simp only [exec]
      split
      · exact ⟨fun _ _ => rfl, fun _ _ => rfl, fun _ _ => rfl, fun _ _ => rfl,
          fun w hw => setS_ne _ _ _ _ (by simpa [wFA] using hw), fun w hw => setS_ne _ _ _ _ (by simpa [wSh] using hw), rfl⟩
      · exact (Mods.refl _ _ _ _ _ _ s).ctl _
    | allocI a dims fill =>
      intro s
      simp only [exec]
      split
      · exact ⟨fun _ _ => rfl, fun _ _ => rfl, fun _ _ => rfl, fun w hw => setS_ne _ _ _ _ (by simpa [wIA] using hw),
          fun _ _ => rfl, fun w hw => setS_ne _ _ _ _ (by simpa [wSh] using hw), rfl⟩
      · exact (Mods.refl _ _ _ _ _ _ s).ctl _
    | ite c t f iht ihf' =>
      intro s
      simp only [exec]
      split
      · split
        · exact (iht s).mono (by simp [wI]) (by simp [wF]) (by simp [wB]) (by simp [wIA]) (by simp [wFA]) (by simp [wSh])
        · exact (ihf' s).mono (by simp [wI]) (by simp [wF]) (by simp [wB]) (by simp [wIA]) (by simp [wFA]) (by simp [wSh])
      · exact (Mods.refl _ _ _ _ _ _ s).ctl _
    | «while» c b ihb =>
      intro s
      cases fuel with
      | zero => simp only [exec]; exact (Mods.refl _ _ _ _ _ _ s).ctl _
      | succ f =>
        simp only [exec]
        split
        · split
          · have h1 : Mods (wI (.while c b)) (wF (.while c b)) (wB (.while c b)) (wIA (.while c b)) (wFA (.while c b))
                (wSh (.while c b)) s (exec f b s) := ihf f (Nat.lt_succ_self f) b s
            have hw := ihf f (Nat.lt_succ_self f) (.while c b)
            generalize exec f b s = s1 at h1
            cases hctl : s1.ctl with
            | run => simp only; exact h1.trans (hw s1)
            | cont => simp only; exact (h1.ctl _).trans (hw _)
            | brk => simp only; exact h1.ctl _
            | ret => simp only; exact h1
            | err m => simp only; exact h1
          · exact Mods.refl _ _ _ _ _ _ s
        · exact (Mods.refl _ _ _ _ _ _ s).ctl _
    | forRange v lo hi step b ihb =>
      intro s
      simp only [exec]
      split
      · apply mods_loopOver
        intro st x
        have h1 := (ihb { st with ienv := setS st.ienv v x }).mono (iv' := wI (.forRange v lo hi step b))
          (fv' := wF (.forRange v lo hi step b)) (bv' := wB (.forRange v lo hi step b)) (ias' := wIA (.forRange v lo hi step b))
          (fas' := wFA (.forRange v lo hi step b)) (shs' := wSh (.forRange v lo hi step b))
          (by simp [wI]) (by simp [wF]) (by simp [wB]) (by simp [wIA]) (by simp [wFA]) (by simp [wSh])
        refine Mods.trans ?_ h1
        exact ⟨fun w hw => setS_ne _ _ _ _ (by simp [wI] at hw; exact hw.1), fun _ _ => rfl, fun _ _ => rfl,
          fun _ _ => rfl, fun _ _ => rfl, fun _ _ => rfl, rfl⟩
      · exact (Mods.refl _ _ _ _ _ _ s).ctl _
    | forIn v a b ihb =>
      intro s
      simp only [exec]
      split
      · apply mods_loopOver
        intro st x
        have h1 := (ihb { st with fenv := setS st.fenv v x }).mono (iv' := wI (.forIn v a b))
          (fv' := wF (.forIn v a b)) (bv' := wB (.forIn v a b)) (ias' := wIA (.forIn v a b))
          (fas' := wFA (.forIn v a b)) (shs' := wSh (.forIn v a b))
          (by simp [wI]) (by simp [wF]) (by simp [wB]) (by simp [wIA]) (by simp [wFA]) (by simp [wSh])
        refine Mods.trans ?_ h1
        exact ⟨fun _ _ => rfl, fun w hw => setS_ne _ _ _ _ (by simp [wF] at hw; exact hw.1), fun _ _ => rfl,
          fun _ _ => rfl, fun _ _ => rfl, fun _ _ => rfl, rfl⟩
      · exact (Mods.refl _ _ _ _ _ _ s).ctl _
    | brk => intro s; simp only [exec]; exact (Mods.refl _ _ _ _ _ _ s).ctl _
    | cont => intro s; simp only [exec]; exact (Mods.refl _ _ _ _ _ _ s).ctl _
    | ret => intro s; simp only [exec]; exact (Mods.refl _ _ _ _ _ _ s).ctl _
    | scope b ihb =>
      intro s
      simp only [exec]
      have h1 : Mods (wI (.scope b)) (wF (.scope b)) (wB (.scope b)) (wIA (.scope b)) (wFA (.scope b)) (wSh (.scope b)) s
          (exec fuel b s) := ihb s
      split
      · exact h1.ctl _
      · exact h1
    | fail m => intro s; simp only [exec]; exact (Mods.refl _ _ _ _ _ _ s).ctl _

end XrsVerif.ILVs
