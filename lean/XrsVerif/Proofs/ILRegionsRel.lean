import XrsVerif.Proofs.ILRegionsMatch
import XrsVerif.Proofs.Regions
/-
  Proofs/ILRegionsRel.lean -- the abstraction between the states of `Gen.IL.areaConnectivity` and the hand model
  `Model/Regions.lean`, and the laws of the number type the refinement needs.

  * the program stores labels in the *numeric* array `out` (`np.zeros_like(data)`): the label `k` is the number
    `lab k = Fl.lit k 1`.  `LabelLaws F` lists what is used about these numbers: comparisons of labels agree with the
    comparisons of the naturals (`area_val > 0`, `assigned_values_min != area_val`, `… > area_val`,
    `out[y1, x1] == …`), a NaN never `==` a label, and a NaN window value is never close to the centre.  They hold
    for exact arithmetic with NaN (`NV K`, see Props/C16.lean) and for IEEE doubles as long as labels stay below 2^53;
    float32 rasters round labels above 2^24 -- outside ILang, like the int64 wrap-around.
  * `dataOf cols D` is the model's `data`: `none` at NaN cells; the model's match relation is `closeF`.
  * `Geo` collects what every cell step keeps: scalars `rows`, `cols`, `n`, the shapes, `data` itself.
  * `Rel`: at non-NaN raster cells `out` holds `lab (L c)`.
-/
namespace XrsVerif.IL.Rg
open XrsVerif XrsVerif.IL XrsVerif.Regions
variable {F : Type} [Fl F]
set_option linter.unusedSectionVars false
set_option linter.unusedVariables false
set_option linter.unusedSimpArgs false

/-- the number that stands for label `k` (`out[y, x] = uid` converts the integer) -/
def lab (k : Nat) : F := Fl.lit (k : Int) 1

/-- what the refinement uses about the number type -/
structure LabelLaws (F : Type) [Fl F] : Prop where
  lt_lab : ∀ a b : Nat, Fl.lt (lab a : F) (lab b) = decide (a < b)
  eq_lab : ∀ a b : Nat, Fl.eq (lab a : F) (lab b) = decide (a = b)
  eq_nan : ∀ (x : F) (a : Nat), Fl.isnan x = true → Fl.eq x (lab a) = false
  close_nan : ∀ (v x : F), Fl.isnan x = true → closeF v x = false

theorem lab_inj (laws : LabelLaws F) (a b : Nat) (h : (lab a : F) = lab b) : a = b := by
  have h1 := laws.eq_lab a b
  rw [h, laws.eq_lab b b] at h1
  simpa using h1.symm

/-- the model's `data`: `none` = NaN -/
def dataOf (cols : Nat) (D : List F) : Cell → Option F := fun c =>
  if Fl.isnan (at_ cols D c) then none else some (at_ cols D c)

theorem dataOf_none (cols : Nat) (D : List F) (c : Cell) (h : Fl.isnan (at_ cols D c) = true) :
    dataOf cols D c = none := by simp [dataOf, h]

theorem dataOf_some (cols : Nat) (D : List F) (c : Cell) (h : Fl.isnan (at_ cols D c) = false) :
    dataOf cols D c = some (at_ cols D c) := by simp [dataOf, h]

/-- the model's `matched` is the program's test on the raw window value -/
theorem matched_eq (laws : LabelLaws F) (cols : Nat) (D : List F) (v : F) (q : Cell) :
    matched closeF (dataOf cols D) v q = closeF v (at_ cols D q) := by
  unfold matched dataOf
  by_cases h : Fl.isnan (at_ cols D q) = true
  · simp [h, laws.close_nan v _ h]
  · simp [h]

/-- what every cell step keeps -/
structure Geo (rows cols n : Nat) (D : List F) (s : State F) : Prop where
  run : s.ctl = .run
  rv : s.ienv "rows" = (rows : Int)
  cv : s.ienv "cols" = (cols : Int)
  nv : s.ienv "n" = (n : Int)
  dshp : s.shp "data" = [rows, cols]
  oshp : s.shp "out" = [rows, cols]
  sshp : s.shp "src_window" = [n]
  ashp : s.shp "area_window" = [n]
  dat : s.fa "data" = D
  olen : (s.fa "out").length = rows * cols
  slen : (s.fa "src_window").length = n
  alen : (s.fa "area_window").length = n

/-- at non-NaN raster cells `out` holds the label of the model -/
def Rel (rows cols : Nat) (D out : List F) (L : Cell → Nat) : Prop :=
  ∀ c : Cell, c.1 < rows → c.2 < cols → Fl.isnan (at_ cols D c) = false → at_ cols out c = lab (L c)

/-- NaN cells among the first `k` cells (raster order) hold their input value -/
def NaNDone (rows cols : Nat) (D out : List F) (k : Nat) : Prop :=
  ∀ c : Cell, c.1 < rows → c.2 < cols → pos cols c < k → Fl.isnan (at_ cols D c) = true →
    at_ cols out c = at_ cols D c

theorem pos_lt (rows cols : Nat) (c : Cell) (h1 : c.1 < rows) (h2 : c.2 < cols) : pos cols c < rows * cols := by
  unfold pos
  calc c.1 * cols + c.2 < c.1 * cols + cols := by omega
    _ = (c.1 + 1) * cols := by rw [Nat.add_mul, Nat.one_mul]
    _ ≤ rows * cols := Nat.mul_le_mul_right _ h1

theorem pos_inj (cols : Nat) (c p : Cell) (h1 : c.2 < cols) (h2 : p.2 < cols) (h : pos cols c = pos cols p) :
    c = p := by
  unfold pos at h
  obtain ⟨cy, cx⟩ := c
  obtain ⟨py, px⟩ := p
  simp only at h h1 h2
  have hy : cy = py := by
    rcases Nat.lt_trichotomy cy py with hlt | heq | hgt
    · exfalso
      have : (cy + 1) * cols ≤ py * cols := Nat.mul_le_mul_right _ hlt
      rw [Nat.add_mul, Nat.one_mul] at this; omega
    · exact heq
    · exfalso
      have : (py + 1) * cols ≤ cy * cols := Nat.mul_le_mul_right _ hgt
      rw [Nat.add_mul, Nat.one_mul] at this; omega
  subst hy
  have : cx = px := by omega
  rw [this]

/-- reading `out` after `out[p] = v` -/
theorem at_set (rows cols : Nat) (out : List F) (p c : Cell) (v : F) (hl : out.length = rows * cols)
    (hp1 : p.1 < rows) (hp2 : p.2 < cols) (hc2 : c.2 < cols) :
    at_ cols (out.set (pos cols p) v) c = if c = p then v else at_ cols out c := by
  unfold at_
  have hlt := pos_lt rows cols p hp1 hp2
  by_cases h : c = p
  · subst h
    simp only [if_true, List.getD_eq_getElem?_getD, List.getElem?_set]
    simp [hl, hlt]
  · have : pos cols p ≠ pos cols c := fun e => h (pos_inj cols c p hc2 hp2 e.symm)
    simp only [h, if_false, List.getD_eq_getElem?_getD, List.getElem?_set, this]

/-- window cells are raster cells -/
theorem nbrs_in_grid (rows cols : Nat) (n8 : Bool) (y x : Nat) (hy : y < rows) (hx : x < cols) (q : Cell)
    (hq : q ∈ gridNbrs rows cols n8 (y, x)) : q.1 < rows ∧ q.2 < cols :=
  mem_gridCells.mp (gridNbrs_closed rows cols n8 (y, x) (mem_gridCells.mpr ⟨hy, hx⟩) q hq)

theorem gridNbrs_length (rows cols n : Nat) (hn : n = 4 ∨ n = 8) (c : Cell) :
    (gridNbrs rows cols (decide (n = 8)) c).length = n := by
  rcases hn with h | h <;> subst h <;> simp [gridNbrs, window, window4, window8]

end XrsVerif.IL.Rg
