import XrsVerif.Proofs.ViewshedDelete
/-!
  C05 helper lemmas, part 7: when no two nodes tie in their minimum gradient, the deletion's
  augmentation repairs (loops L1 / L2, the recomputations F1 / C) keep the stored maxima exact.
-/
set_option linter.unusedSectionVars false
set_option linter.unusedVariables false
namespace XrsVerif.Viewshed

variable {α : Type} [LinearOrder α]

theorem trueMax_mem (S : α) (t : Tree α) : trueMax S t = S ∨ ∃ n ∈ t.toList, trueMax S t = minv n := by
  induction t with
  | nil => exact Or.inl rfl
  | node l n mx c r ihl ihr =>
    rw [trueMax_node]
    simp only [Tree.toList, List.mem_append, List.mem_cons]
    rcases le_total (max (trueMax S l) (minv n)) (trueMax S r) with h | h
    · rw [max_eq_right h]
      rcases ihr with h' | ⟨b, hb, h'⟩
      · exact Or.inl h'
      · exact Or.inr ⟨b, Or.inr (Or.inr hb), h'⟩
    · rw [max_eq_left h]
      rcases le_total (trueMax S l) (minv n) with h2 | h2
      · rw [max_eq_right h2]; exact Or.inr ⟨n, Or.inr (Or.inl rfl), rfl⟩
      · rw [max_eq_left h2]
        rcases ihl with h' | ⟨b, hb, h'⟩
        · exact Or.inl h'
        · exact Or.inr ⟨b, Or.inl hb, h'⟩

/-- the values `ancestor` computes, as a function of numbers only:
    `pm1` / `pf` = the path child's stored maximum after L1 / final, `ov` = the other child's -/
def ancP1 (d : Dir) (hit : Bool) (mx pm1 ov m : α) : α :=
  if hit then (match d with | .L => recompM pm1 ov m | .R => recompM ov pm1 m) else mx

def ancFin (d : Dir) (atY : Bool) (zg : Option α) (p1 pf ov m xpr : α) : α :=
  let lf := match d with | .L => pf | .R => ov
  let rf := match d with | .L => ov | .R => pf
  let f1 := if atY then recompM lf rf m else p1
  let xpr' := if atY then rf else xpr
  match zg with
  | none => f1
  | some zg =>
    if eqv f1 zg then
      if !(eqv m zg) && !(eqv lf zg && eqv xpr' zg) then recompM lf rf m else f1
    else if f1 < pf then pf else f1

theorem ancestor_m1' (S : α) (d : Dir) (n : Node α) (mx : α) (c : Bool) (o : Tree α) (res : DelRes α) :
    (ancestor S d n mx c o res).m1 = ancP1 d (res.l1 && eqv mx res.yv) mx res.m1 (mxOf S o) (minv n) := by
  cases d <;> rfl

theorem ancestor_l1' (S : α) (d : Dir) (n : Node α) (mx : α) (c : Bool) (o : Tree α) (res : DelRes α) :
    (ancestor S d n mx c o res).l1 = (res.l1 && eqv mx res.yv) := rfl

theorem ancestor_t' (S : α) (d : Dir) (n : Node α) (mx : α) (c : Bool) (o : Tree α) (res : DelRes α) :
    (ancestor S d n mx c o res).t =
      (let fin := ancFin d res.atY res.zg (ancP1 d (res.l1 && eqv mx res.yv) mx res.m1 (mxOf S o) (minv n))
          (mxOf S res.t) (mxOf S o) (minv n) res.xpr
       match d with
       | .L => Tree.node res.t n fin c o
       | .R => Tree.node o n fin c res.t) := by
  cases d <;> rfl

theorem ancP1_none (d : Dir) (l1 : Bool) (mx F ov m yv : α) (hmx : mx = max (max (max F yv) m) ov)
    (hne : F ≠ yv) (hm : m ≠ yv) (ho : ov ≠ yv) (hl1 : F < yv → l1 = true) :
    ancP1 d (l1 && eqv mx yv) mx F ov m = max (max F m) ov := by
  unfold ancP1
  by_cases hl : l1 = true <;> by_cases he : mx = yv
  · have : eqv mx yv = true := (eqv_iff _ _).mpr he
    cases d <;> simp only [hl, this, Bool.and_self, if_true, recompM_eq] <;> order
  · have : eqv mx yv = false := by rw [Bool.eq_false_iff]; exact fun h => he ((eqv_iff _ _).mp h)
    simp only [this, Bool.and_false, Bool.false_eq_true, if_false]; order
  · have hl' : l1 = false := by simpa using hl
    have : ¬ F < yv := fun h => hl (hl1 h)
    simp only [hl', Bool.false_and, Bool.false_eq_true, if_false]; order
  · have hl' : l1 = false := by simpa using hl
    have : ¬ F < yv := fun h => hl (hl1 h)
    simp only [hl', Bool.false_and, Bool.false_eq_true, if_false]; order

theorem ancFin_none (d : Dir) (atY : Bool) (p1 F ov m xpr : α) (hp1 : p1 = max (max F m) ov) :
    ancFin d atY none p1 F ov m xpr = max (max F m) ov := by
  unfold ancFin
  cases d <;> cases atY <;> simp only [recompM_eq, if_true, Bool.false_eq_true, if_false, hp1] <;> order

theorem ancP1_some (d : Dir) (l1 : Bool) (mx c zg yv ov m : α)
    (hmx : mx = max (max (max (max c zg) yv) m) ov)
    (hcz : c ≠ zg) (hcy : c ≠ yv) (hzy : zg ≠ yv) (hmy : m ≠ yv) (hoy : ov ≠ yv)
    (hl1 : max c zg < yv → l1 = true) :
    ancP1 d (l1 && eqv mx yv) mx (max c zg) ov m = max (max (max c ov) m) zg := by
  unfold ancP1
  by_cases hl : l1 = true <;> by_cases he : mx = yv
  · have : eqv mx yv = true := (eqv_iff _ _).mpr he
    cases d <;> simp only [hl, this, Bool.and_self, if_true, recompM_eq] <;> order
  · have : eqv mx yv = false := by rw [Bool.eq_false_iff]; exact fun h => he ((eqv_iff _ _).mp h)
    simp only [this, Bool.and_false, Bool.false_eq_true, if_false]; order
  · have hl' : l1 = false := by simpa using hl
    have : ¬ max c zg < yv := fun h => hl (hl1 h)
    simp only [hl', Bool.false_and, Bool.false_eq_true, if_false]; order
  · have hl' : l1 = false := by simpa using hl
    have : ¬ max c zg < yv := fun h => hl (hl1 h)
    simp only [hl', Bool.false_and, Bool.false_eq_true, if_false]; order

theorem eqv_false {a b : α} (h : a ≠ b) : eqv a b = false := by
  rw [Bool.eq_false_iff]; exact fun h' => h ((eqv_iff _ _).mp h')

theorem ancFin_some (d : Dir) (p1 pf ov m xpr c zg yv : α)
    (hp1 : p1 = max (max (max c ov) m) zg) (hpf : pf = max c yv)
    (hcz : c ≠ zg) (hzy : zg ≠ yv) (hmz : m ≠ zg) (hoz : ov ≠ zg) :
    ancFin d false (some zg) p1 pf ov m xpr = max (max (max c ov) m) yv := by
  unfold ancFin
  have hpfz : pf ≠ zg := by rw [hpf]; intro h; order
  by_cases he : p1 = zg
  · have e1 : eqv p1 zg = true := (eqv_iff _ _).mpr he
    cases d <;>
      simp only [Bool.false_eq_true, if_false, e1, if_true, eqv_false hmz, eqv_false hpfz, eqv_false hoz,
        Bool.not_false, Bool.false_and, Bool.and_self, recompM_eq] <;> order
  · have e1 : eqv p1 zg = false := eqv_false he
    cases d <;> simp only [Bool.false_eq_true, if_false, e1] <;> split <;> order

theorem ancestor_yv (S : α) (d : Dir) (n : Node α) (mx : α) (c : Bool) (o : Tree α) (res : DelRes α) :
    (ancestor S d n mx c o res).yv = res.yv := rfl

theorem ancestor_zg (S : α) (d : Dir) (n : Node α) (mx : α) (c : Bool) (o : Tree α) (res : DelRes α) :
    (ancestor S d n mx c o res).zg = res.zg := rfl

theorem ancestor_atY (S : α) (d : Dir) (n : Node α) (mx : α) (c : Bool) (o : Tree α) (res : DelRes α) :
    (ancestor S d n mx c o res).atY = false := rfl

/-! ### small facts about maxima (kept apart so that `order` sees only atoms) -/

theorem max_ne {a b v : α} (ha : a ≠ v) (hb : b ≠ v) : max a b ≠ v := by
  rcases max_choice a b with h | h <;> rw [h] <;> assumption

theorem mx_swap (F m o : α) : max (max o m) F = max (max F m) o := by order
theorem mx_T (F yv m o : α) : max (max (max F yv) m) o = max (max (max F m) o) yv := by order
theorem mx_lt_left {F m o yv : α} (h : max (max F m) o < yv) : F < yv := by order
theorem mx_eq_yv {F m o yv : α} (h : max (max F m) o < yv) : max (max (max F yv) m) o = yv := by order
theorem mz_swap (c o m yv : α) : max (max o m) (max c yv) = max (max (max c o) m) yv := by order
theorem mz_swapL (c o m yv : α) : max (max (max c yv) m) o = max (max (max c o) m) yv := by order
theorem mz_T (c zg yv m o : α) : max (max (max (max c zg) yv) m) o = max (max (max (max c o) m) zg) yv := by order
theorem mz_lt {c o m zg yv : α} (h : max (max (max c o) m) zg < yv) : max c zg < yv := by order
theorem mz_eq_yv {c o m zg yv : α} (h : max (max (max c o) m) zg < yv) :
    max (max (max (max c zg) yv) m) o = yv := by order

/-! ### summaries of a deletion result -/

/-- result summary while no successor copy has happened at or below this position:
    `T` is the old true maximum of the position -/
structure SumN (S T : α) (res : DelRes α) : Prop where
  zg : res.zg = none
  exact : Exact S res.t
  m1 : res.m1 = trueMax S res.t
  T : T = max (trueMax S res.t) res.yv
  ne : trueMax S res.t ≠ res.yv
  l1 : trueMax S res.t < res.yv → res.l1 = true

/-- result summary once the successor copy happened at or below: `c` is the true maximum of the
    position without `y` and without `z` -/
def SumZ (S T : α) (res : DelRes α) : Prop :=
  ∃ zg c, res.zg = some zg ∧ res.atY = false ∧ Exact S res.t ∧ res.m1 = max c zg ∧
    trueMax S res.t = max c res.yv ∧ T = max (max c zg) res.yv ∧ c ≠ zg ∧ c ≠ res.yv ∧ zg ≠ res.yv ∧
    (max c zg < res.yv → res.l1 = true)

theorem ancestor_sumN {S T0 : α} (d : Dir) (n : Node α) (mx : α) (c : Bool) (O : Tree α) (res : DelRes α)
    (h : SumN S T0 res) (hO : Exact S O) (hmx : mx = max (max T0 (minv n)) (trueMax S O))
    (hm : minv n ≠ res.yv) (ho : trueMax S O ≠ res.yv) :
    SumN S mx (ancestor S d n mx c O res) := by
  obtain ⟨hz, hex, hm1, hT, hne, hl1⟩ := h
  have hmx' : mx = max (max (max (trueMax S res.t) res.yv) (minv n)) (trueMax S O) := by rw [hmx, hT]
  have hp1 := ancP1_none d res.l1 mx (trueMax S res.t) (trueMax S O) (minv n) res.yv hmx' hne hm ho hl1
  have hfin := ancFin_none d res.atY _ (trueMax S res.t) (trueMax S O) (minv n) res.xpr hp1
  have htm : trueMax S (ancestor S d n mx c O res).t = max (max (trueMax S res.t) (minv n)) (trueMax S O) := by
    rw [ancestor_t']
    cases d
    · simp only [trueMax_node]
    · simp only [trueMax_node]; exact mx_swap _ _ _
  refine ⟨hz, ?_, ?_, ?_, ?_, ?_⟩
  · rw [ancestor_t', hm1, hex.mxOf_eq, hO.mxOf_eq, hz, hfin]
    cases d
    · exact ⟨by rw [trueMax_node], hex, hO⟩
    · exact ⟨by rw [trueMax_node]; exact (mx_swap _ _ _).symm, hO, hex⟩
  · rw [ancestor_m1', hm1, hO.mxOf_eq, hp1, htm]
  · rw [htm, ancestor_yv, hmx']; exact mx_T _ _ _ _
  · rw [htm, ancestor_yv]; exact max_ne (max_ne hne hm) ho
  · rw [htm, ancestor_yv, ancestor_l1']
    intro hlt
    have h1 : res.l1 = true := hl1 (mx_lt_left hlt)
    have h2 : mx = res.yv := by rw [hmx']; exact mx_eq_yv hlt
    rw [h1, (eqv_iff _ _).mpr h2]; rfl

theorem ancestor_sumZ {S T0 : α} (d : Dir) (n : Node α) (mx : α) (c : Bool) (O : Tree α) (res : DelRes α)
    (h : SumZ S T0 res) (hO : Exact S O) (hmx : mx = max (max T0 (minv n)) (trueMax S O))
    (hm : minv n ≠ res.yv) (ho : trueMax S O ≠ res.yv)
    (hmz : ∀ zg, res.zg = some zg → minv n ≠ zg ∧ trueMax S O ≠ zg) :
    SumZ S mx (ancestor S d n mx c O res) := by
  obtain ⟨zg, cc, hz, hy, hex, hm1, hF, hT, hcz, hcy, hzy, hl1⟩ := h
  obtain ⟨hmz', hoz⟩ := hmz zg hz
  have hmx' : mx = max (max (max (max cc zg) res.yv) (minv n)) (trueMax S O) := by rw [hmx, hT]
  have hp1 := ancP1_some d res.l1 mx cc zg res.yv (trueMax S O) (minv n) hmx' hcz hcy hzy hm ho hl1
  have hfin := ancFin_some d _ (trueMax S res.t) (trueMax S O) (minv n) res.xpr cc zg res.yv hp1 hF hcz hzy hmz' hoz
  have htm : trueMax S (ancestor S d n mx c O res).t = max (max (max cc (trueMax S O)) (minv n)) res.yv := by
    rw [ancestor_t']
    cases d
    · simp only [trueMax_node, hF]; exact mz_swapL _ _ _ _
    · simp only [trueMax_node, hF]; exact mz_swap _ _ _ _
  refine ⟨zg, max (max cc (trueMax S O)) (minv n), hz, rfl, ?_, ?_, ?_, ?_, ?_, ?_, hzy, ?_⟩
  · rw [ancestor_t', hm1, hex.mxOf_eq, hO.mxOf_eq, hz, hy, hfin]
    cases d
    · exact ⟨by rw [trueMax_node, hF]; exact (mz_swapL _ _ _ _).symm, hex, hO⟩
    · exact ⟨by rw [trueMax_node, hF]; exact (mz_swap _ _ _ _).symm, hO, hex⟩
  · rw [ancestor_m1', hm1, hO.mxOf_eq, hp1]
  · rw [htm, ancestor_yv]
  · rw [ancestor_yv, hmx']; exact mz_T _ _ _ _ _
  · exact max_ne (max_ne hcz hoz) hmz'
  · rw [ancestor_yv]; exact max_ne (max_ne hcy ho) hm
  · rw [ancestor_yv, ancestor_l1']
    intro hlt
    have h1 : res.l1 = true := hl1 (mz_lt hlt)
    have h2 : mx = res.yv := by rw [hmx']; exact mz_eq_yv hlt
    rw [h1, (eqv_iff _ _).mpr h2]; rfl

/-! ### the induction -/

/-- what the exactness proof assumes of a (sub)tree from which key `k` is deleted -/
structure DelHyp (S k : α) (t : Tree α) : Prop where
  bst : BST t
  exact : Exact S t
  /-- no two nodes tie in their minimum gradient -/
  notie : ∀ a ∈ t.toList, ∀ b ∈ t.toList, minv a = minv b → a.key = b.key
  /-- only nodes nearer than the deleted one may carry the sentinel (the dummy has the smallest key) -/
  sent : ∀ n ∈ t.toList, minv n = S → n.key < k

theorem DelHyp.left {S k : α} {l r : Tree α} {n : Node α} {mx : α} {c : Bool} (h : DelHyp S k (.node l n mx c r)) :
    DelHyp S k l :=
  ⟨h.bst.2.2.1, h.exact.2.1, fun a ha b hb => h.notie a (by simp [Tree.toList, ha]) b (by simp [Tree.toList, hb]),
   fun a ha => h.sent a (by simp [Tree.toList, ha])⟩

theorem DelHyp.right {S k : α} {l r : Tree α} {n : Node α} {mx : α} {c : Bool} (h : DelHyp S k (.node l n mx c r)) :
    DelHyp S k r :=
  ⟨h.bst.2.2.2, h.exact.2.2, fun a ha b hb => h.notie a (by simp [Tree.toList, ha]) b (by simp [Tree.toList, hb]),
   fun a ha => h.sent a (by simp [Tree.toList, ha])⟩

theorem DelHyp.mx_eq {S k : α} {l r : Tree α} {n : Node α} {mx : α} {c : Bool} (h : DelHyp S k (.node l n mx c r)) :
    mx = max (max (trueMax S l) (minv n)) (trueMax S r) := by
  rw [← trueMax_node S l n mx c r]; exact h.exact.1

/-- a node `y` of the left subtree whose key is not below `k`: its minimum gradient is met neither
    at the root nor anywhere in the right subtree -/
theorem DelHyp.sepL {S k : α} {l r : Tree α} {n : Node α} {mx : α} {c : Bool} (h : DelHyp S k (.node l n mx c r))
    {y : Node α} (hy : y ∈ l.toList) (hk : ¬ y.key < k) : minv n ≠ minv y ∧ trueMax S r ≠ minv y := by
  have hyt : y ∈ (Tree.node l n mx c r).toList := by simp [Tree.toList, hy]
  have hlt : y.key < n.key := h.bst.1 y hy
  refine ⟨fun e => ?_, fun e => ?_⟩
  · have := h.notie n (by simp [Tree.toList]) y hyt e
    exact absurd hlt (by rw [this]; exact lt_irrefl _)
  · rcases trueMax_mem S r with e' | ⟨b, hb, e'⟩
    · exact hk (h.sent y hyt (by rw [← e, e']))
    · have := h.notie b (by simp [Tree.toList, hb]) y hyt (by rw [← e', e])
      have hb' : n.key < b.key := h.bst.2.1 b hb
      rw [this] at hb'
      exact absurd (lt_trans hlt hb') (lt_irrefl _)

theorem DelHyp.sepR {S k : α} {l r : Tree α} {n : Node α} {mx : α} {c : Bool} (h : DelHyp S k (.node l n mx c r))
    {y : Node α} (hy : y ∈ r.toList) (hk : ¬ y.key < k) : minv n ≠ minv y ∧ trueMax S l ≠ minv y := by
  have hyt : y ∈ (Tree.node l n mx c r).toList := by simp [Tree.toList, hy]
  have hlt : n.key < y.key := h.bst.2.1 y hy
  refine ⟨fun e => ?_, fun e => ?_⟩
  · have := h.notie n (by simp [Tree.toList]) y hyt e
    exact absurd hlt (by rw [this]; exact lt_irrefl _)
  · rcases trueMax_mem S l with e' | ⟨b, hb, e'⟩
    · exact hk (h.sent y hyt (by rw [← e, e']))
    · have := h.notie b (by simp [Tree.toList, hb]) y hyt (by rw [← e', e])
      have hb' : b.key < n.key := h.bst.1 b hb
      rw [this] at hb'
      exact absurd (lt_trans hlt hb') (lt_irrefl _)

/-- the root's own minimum gradient is met in neither subtree (when its key is not below `k`) -/
theorem DelHyp.sepN {S k : α} {l r : Tree α} {n : Node α} {mx : α} {c : Bool} (h : DelHyp S k (.node l n mx c r))
    (hk : ¬ n.key < k) : trueMax S l ≠ minv n ∧ trueMax S r ≠ minv n := by
  have hnt : n ∈ (Tree.node l n mx c r).toList := by simp [Tree.toList]
  refine ⟨fun e => ?_, fun e => ?_⟩
  · rcases trueMax_mem S l with e' | ⟨b, hb, e'⟩
    · exact hk (h.sent n hnt (by rw [← e, e']))
    · have := h.notie b (by simp [Tree.toList, hb]) n hnt (by rw [← e', e])
      exact absurd (h.bst.1 b hb) (by rw [this]; exact lt_irrefl _)
  · rcases trueMax_mem S r with e' | ⟨b, hb, e'⟩
    · exact hk (h.sent n hnt (by rw [← e, e']))
    · have := h.notie b (by simp [Tree.toList, hb]) n hnt (by rw [← e', e])
      exact absurd (h.bst.2.1 b hb) (by rw [this]; exact lt_irrefl _)

theorem mx_c (L Fr y : α) : max (max L Fr) y = max (max L y) Fr := by order
theorem mx_c' (Fr zg L : α) : max (max Fr zg) L = max (max L Fr) zg := by order
theorem mx_found (L zg Fr yv : α) : max (max L zg) (max Fr yv) = max (max (max Fr yv) zg) L := by order
theorem mx_found' (L zg Fr yv : α) : max (max L zg) (max Fr yv) = max (max (max L Fr) zg) yv := by order
theorem mx_found_lt {L Fr zg yv : α} (h : max (max L Fr) zg < yv) : Fr < yv := by order
theorem mx_found_eq {L Fr zg yv : α} (h : max (max L Fr) zg < yv) : max (max (max Fr yv) zg) L = yv := by order
theorem mx_base (S a m : α) (h : S ≤ a) : max (max S m) a = max a m := by order
theorem mx_base' (S a m : α) (h : S ≤ a) : max (max a m) S = max a m := by order

/-- the position of `y` itself (`y` has at most one child `x`) -/
theorem sumN_atY {S : α} (x : Tree α) (n : Node α) (T : α) (hx : Exact S x) (hT : T = max (trueMax S x) (minv n))
    (hne : trueMax S x ≠ minv n) :
    SumN S T { t := x, m1 := mxOf S x, l1 := true, yv := minv n, atY := true, xpr := S, zg := none } :=
  ⟨rfl, hx, hx.mxOf_eq, hT, hne, fun _ => rfl⟩

theorem delMin_sum (S k : α) {t : Tree α} {yn : Node α} {res : DelRes α}
    (h : delMin S t = some (yn, res)) (hh : DelHyp S k t) (hk : ∀ n ∈ t.toList, ¬ n.key < k) :
    SumN S (trueMax S t) res ∧ res.yv = minv yn ∧ yn ∈ t.toList := by
  induction t generalizing yn res with
  | nil => simp [delMin] at h
  | node l n mx c r ihl ihr =>
    cases l with
    | nil =>
      simp only [delMin, Option.some.injEq, Prod.mk.injEq] at h
      obtain ⟨rfl, rfl⟩ := h
      refine ⟨sumN_atY r n _ hh.exact.2.2 ?_ (hh.sepN (hk n (by simp [Tree.toList]))).2, rfl, by simp [Tree.toList]⟩
      rw [trueMax_node]; simp only [trueMax]; exact mx_base S _ _ (S_le_trueMax S r)
    | node ll ln lmx lc lr =>
      simp only [delMin] at h
      split at h
      · simp at h
      · rename_i yn0 res0 heq
        simp only [Option.some.injEq, Prod.mk.injEq] at h
        obtain ⟨rfl, rfl⟩ := h
        obtain ⟨hs, hyv, hmem⟩ := ihl heq hh.left (fun a ha => hk a (by simp [Tree.toList] at ha ⊢; tauto))
        have hsep := hh.sepL hmem (hk yn0 (by simp [Tree.toList] at hmem ⊢; tauto))
        have := ancestor_sumN .L n mx c r res0 hs hh.exact.2.2 hh.mx_eq (by rw [hyv]; exact hsep.1) (by rw [hyv]; exact hsep.2)
        refine ⟨?_, hyv, by simp [Tree.toList] at hmem ⊢; tauto⟩
        rw [← hh.exact.1]; exact this

theorem del_sum (S k : α) {t : Tree α} {res : DelRes α} (h : del S k t = some res) (hh : DelHyp S k t) :
    (SumN S (trueMax S t) res ∨ SumZ S (trueMax S t) res) ∧
    (∃ y ∈ t.toList, res.yv = minv y ∧ ¬ y.key < k) ∧
    (∀ zg, res.zg = some zg → ∃ z ∈ t.toList, zg = minv z ∧ ¬ z.key < k) := by
  induction t generalizing res with
  | nil => simp [del] at h
  | node l n mx c r ihl ihr =>
    simp only [del] at h
    split at h
    · -- descend left
      rw [Option.map_eq_some_iff] at h
      obtain ⟨res0, h0, rfl⟩ := h
      obtain ⟨hs, ⟨y, hy, hyv, hyk⟩, hz⟩ := ihl h0 hh.left
      have hsep := hh.sepL hy hyk
      refine ⟨?_, ⟨y, by simp [Tree.toList, hy], hyv, hyk⟩, fun zg hzg => ?_⟩
      · rw [← hh.exact.1]
        rcases hs with hs | hs
        · exact Or.inl (ancestor_sumN .L n mx c r res0 hs hh.exact.2.2 hh.mx_eq (by rw [hyv]; exact hsep.1) (by rw [hyv]; exact hsep.2))
        · refine Or.inr (ancestor_sumZ .L n mx c r res0 hs hh.exact.2.2 hh.mx_eq (by rw [hyv]; exact hsep.1)
            (by rw [hyv]; exact hsep.2) (fun zg hzg => ?_))
          obtain ⟨z, hzm, rfl, hzk⟩ := hz zg hzg
          exact hh.sepL hzm hzk
      · obtain ⟨z, hzm, e, hzk⟩ := hz zg hzg
        exact ⟨z, by simp [Tree.toList, hzm], e, hzk⟩
    · split at h
      · -- descend right
        rw [Option.map_eq_some_iff] at h
        obtain ⟨res0, h0, rfl⟩ := h
        obtain ⟨hs, ⟨y, hy, hyv, hyk⟩, hz⟩ := ihr h0 hh.right
        have hsep := hh.sepR hy hyk
        have hmx : mx = max (max (trueMax S r) (minv n)) (trueMax S l) := by rw [hh.mx_eq]; exact (mx_swap _ _ _)
        refine ⟨?_, ⟨y, by simp [Tree.toList, hy], hyv, hyk⟩, fun zg hzg => ?_⟩
        · rw [← hh.exact.1]
          rcases hs with hs | hs
          · exact Or.inl (ancestor_sumN .R n mx c l res0 hs hh.exact.2.1 hmx (by rw [hyv]; exact hsep.1) (by rw [hyv]; exact hsep.2))
          · refine Or.inr (ancestor_sumZ .R n mx c l res0 hs hh.exact.2.1 hmx (by rw [hyv]; exact hsep.1)
              (by rw [hyv]; exact hsep.2) (fun zg hzg => ?_))
            obtain ⟨z, hzm, rfl, hzk⟩ := hz zg hzg
            exact hh.sepR hzm hzk
        · obtain ⟨z, hzm, e, hzk⟩ := hz zg hzg
          exact ⟨z, by simp [Tree.toList, hzm], e, hzk⟩
      · -- found
        rename_i hnlt hngt
        have hnk : ¬ n.key < k := hngt
        have hsepn := hh.sepN hnk
        split at h
        · simp only [Option.some.injEq] at h
          subst h
          refine ⟨Or.inl (sumN_atY _ n _ hh.exact.2.2 ?_ hsepn.2), ⟨n, by simp [Tree.toList], rfl, hnk⟩, fun zg hzg => by simp at hzg⟩
          rw [trueMax_node]; simp only [trueMax]; exact mx_base S _ _ (S_le_trueMax S _)
        · simp only [Option.some.injEq] at h
          subst h
          refine ⟨Or.inl (sumN_atY _ n _ hh.exact.2.1 ?_ hsepn.1), ⟨n, by simp [Tree.toList], rfl, hnk⟩, fun zg hzg => by simp at hzg⟩
          rw [trueMax_node]; simp only [trueMax]; exact mx_base' S _ _ (S_le_trueMax S _)
        · split at h
          · simp at h
          · rename_i yn res0 heq
            simp only [Option.some.injEq] at h
            subst h
            have hkr : ∀ b ∈ r.toList, ¬ b.key < k := fun b hb hbk =>
              hngt (lt_trans (hh.bst.2.1 b hb) hbk)
            obtain ⟨hs, hyv, hmem⟩ := delMin_sum S k heq hh.right hkr
            obtain ⟨hz0, hex0, hm10, hT0, hne0, hl10⟩ := hs
            have hsy := hh.sepR hmem (hkr yn hmem)
            obtain ⟨hb0, hr0⟩ := delMin_spec S heq hh.bst.2.2.2
            have hFz : trueMax S res0.t ≠ minv n := by
              intro e
              rcases trueMax_mem S res0.t with e' | ⟨b, hb, e'⟩
              · exact hnk (hh.sent n (by simp [Tree.toList]) (by rw [← e, e']))
              · have hbr : b ∈ r.toList := by rw [hr0]; exact List.mem_cons_of_mem _ hb
                have := hh.notie b (by simp [Tree.toList, hbr]) n (by simp [Tree.toList]) (by rw [← e', e])
                exact absurd (hh.bst.2.1 b hbr) (by rw [this]; exact lt_irrefl _)
            have hmx' : mx = max (max (max (trueMax S res0.t) res0.yv) (minv n)) (trueMax S l) := by
              rw [hh.mx_eq, hT0]; exact mx_found _ _ _ _
            have hzy : minv n ≠ res0.yv := by rw [hyv]; exact hsy.1
            have hLy : trueMax S l ≠ res0.yv := by rw [hyv]; exact hsy.2
            refine ⟨Or.inr ⟨minv n, max (trueMax S l) (trueMax S res0.t), rfl, rfl, ?_, ?_, ?_, ?_, ?_, ?_, ?_, ?_⟩,
              ⟨yn, by simp [Tree.toList, hmem], hyv, hkr yn hmem⟩, fun zg hzg => ?_⟩
            · refine ⟨?_, hh.exact.2.1, hex0⟩
              rw [recompM_eq, hh.exact.2.1.mxOf_eq, hex0.mxOf_eq, trueMax_node]; exact mx_c _ _ _
            · show ancP1 .R (res0.l1 && eqv mx res0.yv) mx res0.m1 (mxOf S l) (minv n) = _
              rw [hm10, hh.exact.2.1.mxOf_eq,
                ancP1_none .R res0.l1 mx (trueMax S res0.t) (trueMax S l) (minv n) res0.yv hmx' hne0 hzy hLy hl10]
              exact mx_c' _ _ _
            · show trueMax S (Tree.node l yn _ c res0.t) = _
              rw [trueMax_node, hyv]; exact (mx_c _ _ _).symm
            · show trueMax S (Tree.node l n mx c r) = _
              rw [trueMax_node, hT0]; exact mx_found' _ _ _ _
            · exact max_ne hsepn.1 hFz
            · exact max_ne hLy hne0
            · exact hzy
            · intro hlt
              show (res0.l1 && eqv mx res0.yv) = true
              have h1 : res0.l1 = true := hl10 (mx_found_lt hlt)
              have h2 : mx = res0.yv := by rw [hmx']; exact mx_found_eq hlt
              rw [h1, (eqv_iff _ _).mpr h2]; rfl
            · simp only [Option.some.injEq] at hzg
              exact ⟨n, by simp [Tree.toList], hzg.symm, hnk⟩

theorem refresh_exact {S : α} {t : Tree α} (h : Exact S t) : Exact S (refresh S t) := by
  cases t with
  | nil => exact h
  | node l n mx c r =>
    refine ⟨?_, h.2.1, h.2.2⟩
    rw [recomp_eq, h.2.1.mxOf_eq, h.2.2.mxOf_eq, trueMax_node]; exact mx_c _ _ _

/-- **without gradient ties the deletion keeps the stored maxima exact** -/
theorem delCore_exact (S k : α) {t u : Tree α} (h : delCore S k t = some u) (hh : DelHyp S k t) : Exact S u := by
  unfold delCore at h
  rw [Option.map_eq_some_iff] at h
  obtain ⟨res, hres, rfl⟩ := h
  have hex : Exact S res.t := by
    rcases (del_sum S k hres hh).1 with hs | ⟨_, _, _, _, hex, _⟩
    · exact hs.exact
    · exact hex
  split
  · exact refresh_exact hex
  · exact hex

end XrsVerif.Viewshed
