import XrsVerif.Proofs.ILViewshedFixDelR
import XrsVerif.Proofs.ILViewshedFixInsMain
/-
  Proofs/ILViewshedFixDelLoop.lean -- one iteration of the loop of `_rb_delete_fixup` (inlined in `Gen.IL.vsDelete`)
  is one step of the model's `delFixP` (Model/ViewshedFix.lean):

  * `DFCore s n xl x xr ctx`   the loop invariant: well-formed arrays, the tree well linked without repeated rows, `x`
                               at the position `ctx`, the fix-up's `root` the root row, the NIL row black, every
                               colour cell of the tree `RB_RED` or `RB_BLACK`;
  * `dfLeftB_spec` / `dfRightB_spec`   the iteration after case 1 (NIL sibling / case 2 / case 3 / case 4) = `dfB`.
-/
set_option linter.unusedSectionVars false
set_option linter.unusedVariables false
set_option linter.unusedSimpArgs false
namespace XrsVerif.ILVs
open XrsVerif XrsVerif.IL XrsVerif.Viewshed
variable {F : Type} [Fl F]

structure DFCore (s : State F) (n : Nat) (xl : Sh) (x : Nat) (xr : Sh) (ctx : Ctx) : Prop where
  vs : VS s n
  run : s.ctl = .run
  linked : Linked (s.ia "tree_nodes") n (-1) (plug (.node xl x xr) ctx)
  nodup : (plug (.node xl x xr) ctx).idxs.Nodup
  hx : s.ienv "_rb_delete_fixup17$x" = x
  hroot : s.ienv "_rb_delete_fixup17$root" = (plug (.node xl x xr) ctx).ptr
  nilBlack : nAt (s.ia "tree_nodes") (n - 1) 0 = 1
  colOK : ∀ j ∈ (plug (.node xl x xr) ctx).idxs, ColV (nAt (s.ia "tree_nodes") j 0)

/-- the state with control reset to `run` (what the `while` does after `continue`) -/
def runOf (s : State F) : State F := { s with ctl := .run }

/-- what an iteration (or its part after case 1) establishes: the invariant at a new position `ctx'`, which is
    strictly higher up unless the loop is about to end (`x` the root, or red) -/
def DFStep (S : Fv F) (s r : State F) (n : Nat) (xl : Sh) (x : Nat) (xr : Sh) (ctx : Ctx) (bound : Nat)
    (model : Tree (Fv F) × List Dir) : Prop :=
  (r.ctl = .run ∨ r.ctl = .cont) ∧
  ∃ (xl' : Sh) (x' : Nat) (xr' : Sh) (ctx' : Ctx), DFCore (runOf r) n xl' x' xr' ctx' ∧
    (ctx'.length < bound ∨ ctx' = [] ∨ nAt (r.ia "tree_nodes") x' 0 = 0) ∧
    (plug (.node xl' x' xr') ctx').idxs = (plug (.node xl x xr) ctx).idxs ∧
    vAt (r.fa "tree_vals") (n - 1) 7 = S ∧
    delFixP S (ctx'.map Fr.dir) (absT (r.fa "tree_vals") (r.ia "tree_nodes") (plug (.node xl' x' xr') ctx')) = model

/-- the colour test `== RB_BLACK` on a sane colour cell -/
theorem colV_black {c : Int} (h : ColV c) : (c = 1) ↔ ¬ (c = 0) := by
  rcases h with h | h <;> simp [h]

theorem isRed_absT_ptr (V : List F) (N : List Int) (n : Nat) (sh : Sh) (par : Int) (hl : Linked N n par sh)
    (hnil : nAt N (n - 1) 0 = 1) : isRed (absT V N sh) = decide (nAt N (rowOf n sh.ptr) 0 = 0) := by
  cases sh with
  | nil => simp [absT, isRed, Sh.ptr, hnil]
  | node l i r => simp [absT, isRed, Sh.ptr]

/-- `dfB` with the parent red (after case 1) never continues the loop above -/
theorem dfB_k_irrel {α : Type} [LT α] [DecidableLT α] [LE α] [DecidableLE α] (S : α) (dx : Dir) (rq1 : List Dir)
    (k k' : Tree α → Tree α × List Dir) (t : Tree α) : dfB S dx true rq1 k t = dfB S dx true rq1 k' t := by
  simp [dfB]

/-- the part of the left branch after case 1 -/
def dfLeftB : St :=
  (.seq (.ite (.cmpI .eq (.var "_rb_delete_fixup17$w") (.lit (-1)))
      (.seq (.setI "_rb_delete_fixup17$x" (.ld2 "tree_nodes" (.var "_rb_delete_fixup17$x") (.lit 3)))
      .cont)
      .skip)
  (.seq (.setI "_rb_delete_fixup17$w_left" (.ld2 "tree_nodes" (.var "_rb_delete_fixup17$w") (.lit 1)))
  (.seq (.setI "_rb_delete_fixup17$w_right" (.ld2 "tree_nodes" (.var "_rb_delete_fixup17$w") (.lit 2)))
  (.ite (.and (.cmpI .eq (.ld2 "tree_nodes" (.var "_rb_delete_fixup17$w_left") (.lit 0)) (.lit 1)) (.cmpI .eq (.ld2 "tree_nodes" (.var "_rb_delete_fixup17$w_right") (.lit 0)) (.lit 1)))
    dfCase2L
    (.seq (.ite (.cmpI .eq (.ld2 "tree_nodes" (.var "_rb_delete_fixup17$w_right") (.lit 0)) (.lit 1))
        (.seq (.stI2 "tree_nodes" (.var "_rb_delete_fixup17$w_left") (.lit 0) (.lit 1))
        (.seq (.stI2 "tree_nodes" (.var "_rb_delete_fixup17$w") (.lit 0) (.lit 0))
        (drrot21
        (.seq (.setI "_rb_delete_fixup17$x_parent" (.ld2 "tree_nodes" (.var "_rb_delete_fixup17$x") (.lit 3)))
        (.setI "_rb_delete_fixup17$w" (.ld2 "tree_nodes" (.var "_rb_delete_fixup17$x_parent") (.lit 2)))))))
        .skip)
    (.seq (.setI "_rb_delete_fixup17$x_parent" (.ld2 "tree_nodes" (.var "_rb_delete_fixup17$x") (.lit 3)))
    (.seq (.setI "_rb_delete_fixup17$w_right" (.ld2 "tree_nodes" (.var "_rb_delete_fixup17$w") (.lit 2)))
    (.seq (.stI2 "tree_nodes" (.var "_rb_delete_fixup17$w") (.lit 0) (.ld2 "tree_nodes" (.var "_rb_delete_fixup17$x_parent") (.lit 0)))
    (.seq (.stI2 "tree_nodes" (.var "_rb_delete_fixup17$x_parent") (.lit 0) (.lit 1))
    (.seq (.stI2 "tree_nodes" (.var "_rb_delete_fixup17$w_right") (.lit 0) (.lit 1))
    (dlrot24
    (.setI "_rb_delete_fixup17$x" (.var "_rb_delete_fixup17$root")))))))))))))

theorem dfLeft_eq : dfLeft =
    (.seq (.setI "_rb_delete_fixup17$w" (.ld2 "tree_nodes" (.var "_rb_delete_fixup17$x_parent") (.lit 2)))
    (.seq (dfCase1 2 dlrot18) dfLeftB)) := rfl

/-- the loop stops when `x` is the root or red: the model returns its argument and the position -/
theorem delFixP_stop (S : Fv F) (V : List F) (N : List Int) (xl : Sh) (x : Nat) (xr : Sh) (ctx : Ctx)
    (h : ctx = [] ∨ nAt N x 0 = 0) :
    delFixP S (ctx.map Fr.dir) (absT V N (plug (.node xl x xr) ctx)) =
      (absT V N (plug (.node xl x xr) ctx), ctx.map Fr.dir) := by
  cases ctx with
  | nil => exact delFixP_nil S _
  | cons fr rest =>
    rcases h with h | h
    · exact absurd h (by simp)
    · simp only [List.map_cons]
      refine delFixP_red S fr.dir (rest.map Fr.dir) _ ?_
      have hp : (rest.map Fr.dir).reverse ++ [fr.dir] = pathOf (fr :: rest) := by rw [pathOf_eq]; simp
      rw [hp, subAt_plug]
      simp [absT, isRed, h]

theorem DFCore.of_eq {s r : State F} {n : Nat} {xl : Sh} {x : Nat} {xr : Sh} {ctx : Ctx} (h : DFCore s n xl x xr ctx)
    (h1 : r.shp = s.shp) (h2 : r.fa = s.fa) (h3 : r.ia = s.ia) (h4 : r.ctl = .run)
    (h5 : r.ienv "_rb_delete_fixup17$x" = s.ienv "_rb_delete_fixup17$x")
    (h6 : r.ienv "_rb_delete_fixup17$root" = s.ienv "_rb_delete_fixup17$root") : DFCore r n xl x xr ctx :=
  ⟨h.vs.of_eq h1 h2 h3, h4, by rw [h3]; exact h.linked, h.nodup, by rw [h5]; exact h.hx,
   by rw [h6]; exact h.hroot, by rw [h3]; exact h.nilBlack, by rw [h3]; exact h.colOK⟩

/-- the colour test `== RB_BLACK` of a child pointer (NIL or a row of the tree) -/
theorem black_test (V : List F) (N : List Int) (n : Nat) (sub : Sh) (par : Int) (hl : Linked N n par sub)
    (hnil : nAt N (n - 1) 0 = 1) (hcol : ∀ j ∈ sub.idxs, ColV (nAt N j 0)) :
    decide (nAt N (rowOf n sub.ptr) 0 = 1) = !(isRed (absT V N sub)) := by
  cases sub with
  | nil => simp [absT, isRed, Sh.ptr, hnil]
  | node l i r =>
    have := colV_black (hcol i (by simp [Sh.idxs]))
    simp only [absT, isRed, Sh.ptr, rowOf_nat]
    by_cases h0 : nAt N i 0 = 0
    · simp [h0]
    · simp [h0, this.mpr h0]

/-- **the iteration after case 1, `x` the left child**: NIL sibling, case 2, case 3 + 4, case 4 = the model's `dfB` -/
theorem dfLeftB_spec (fuel n : Nat) (s : State F) (xl : Sh) (x : Nat) (xr : Sh) (p : Nat) (wB : Sh) (restB : Ctx)
    (c1 : Bool) (bound : Nat) (h : DFCore s n xl x xr (.L p wB :: restB))
    (ew : s.ienv "_rb_delete_fixup17$w" = wB.ptr)
    (hc1 : c1 = true → nAt (s.ia "tree_nodes") p 0 = 0) (hb : c1 = false → restB.length < bound) :
    DFStep (vAt (s.fa "tree_vals") (n - 1) 7) s (exec fuel dfLeftB s) n xl x xr (.L p wB :: restB) bound
      (dfB (vAt (s.fa "tree_vals") (n - 1) 7) Dir.L c1 (restB.map Fr.dir)
        (delFixP (vAt (s.fa "tree_vals") (n - 1) 7) (restB.map Fr.dir))
        (absT (s.fa "tree_vals") (s.ia "tree_nodes") (plug (.node xl x xr) (.L p wB :: restB)))) := by
  obtain ⟨hv, hrun, hL, hN, hx, hroot, hnil, hcol⟩ := h
  obtain ⟨hlx, hcx, _⟩ := unplug _ _ hL hN
  have hx3 : nAt (s.ia "tree_nodes") x 3 = p := hlx.2.2.2.1
  have hxn : x + 1 < n := hlx.1
  obtain ⟨hpn, _, hp2, _, _, hlw, _⟩ := hcx
  have hpg : (restB.map Fr.dir).reverse = pathOf restB := map_dir_reverse restB
  have hpw : pathOf restB ++ [Dir.R] = pathOf (.R (.node xl x xr) p :: restB) := rfl
  generalize hS : vAt (s.fa "tree_vals") (n - 1) 7 = S
  generalize hT : absT (s.fa "tree_vals") (s.ia "tree_nodes") (plug (.node xl x xr) (.L p wB :: restB)) = T
  have hsubw : subAt (pathOf restB ++ [Dir.R]) T = absT (s.fa "tree_vals") (s.ia "tree_nodes") wB := by
    rw [← hT, hpw]; exact subAt_plug _ _ (.R (.node xl x xr) p :: restB) wB
  have hsubp : ∀ (V' : List F) (N' : List Int) (sib : Sh), isRed (subAt (pathOf restB)
      (absT V' N' (plug (.node xl x xr) (.L p sib :: restB)))) = decide (nAt N' p 0 = 0) := fun V' N' sib => by
    show isRed (subAt (pathOf restB) (absT V' N' (plug (.node (.node xl x xr) p sib) restB))) = _
    rw [subAt_plug]; rfl
  cases wB with
  | nil =>
    -- NIL sibling: `x = x.parent; continue`
    have hwv : s.ienv "_rb_delete_fixup17$w" = -1 := ew
    have hr : exec fuel dfLeftB s = { s with ienv := setS s.ienv "_rb_delete_fixup17$x" (p : Int), ctl := .cont } := by
      simp only [dfLeftB]
      rw [exec_seq_stop _ _ _ _ (by
        rw [exec_ite_true _ _ _ _ _ (by simp [BE.ok, IE.ok_var, IE.ok_lit]) (by simp [BE.eval, IE.eval_var, IE.eval_lit, cmpInt, hwv]),
          dnilL_spec fuel n s hv hrun x p hxn hx3 hx]; simp),
        exec_ite_true _ _ _ _ _ (by simp [BE.ok, IE.ok_var, IE.ok_lit]) (by simp [BE.eval, IE.eval_var, IE.eval_lit, cmpInt, hwv]),
        dnilL_spec fuel n s hv hrun x p hxn hx3 hx]
    rw [hr]
    refine ⟨Or.inr rfl, .node xl x xr, p, .nil, restB, ?_, ?_, rfl, hS, ?_⟩
    · exact ⟨hv.of_eq rfl rfl rfl, rfl, hL, hN, by simp [runOf, setS], by simp [runOf, setS, hroot]; rfl, hnil, hcol⟩
    · cases c1 with
      | false => exact Or.inl (hb rfl)
      | true => exact Or.inr (Or.inr (hc1 rfl))
    · show delFixP S (restB.map Fr.dir) (absT (s.fa "tree_vals") (s.ia "tree_nodes") (plug (.node (.node xl x xr) p .nil) restB)) = _
      have hT' : absT (s.fa "tree_vals") (s.ia "tree_nodes") (plug (.node (.node xl x xr) p .nil) restB) = T := hT
      rw [hT', dfB_nil S Dir.L c1 _ _ T (by rw [hpg]; exact hsubw)]
      cases c1 with
      | false => rfl
      | true =>
        simp only [if_true]
        rw [← hT']
        exact delFixP_stop S _ _ _ _ _ restB (Or.inr (hc1 rfl))
  | node wl w wr =>
    simp only [Sh.ptr] at ew hp2
    obtain ⟨hwn, hw1, hw2, _, hlwl, hlwr⟩ := hlw
    have hwne : ¬ ((w : Int) = -1) := by omega
    have hinw : inRange (w : Int) n = true := inRange_ptr n _ (by omega) hv.pos
    -- the two reads
    have h1 := exec_ldN fuel n s hv.shpN "_rb_delete_fixup17$w_left" "_rb_delete_fixup17$w" 1 (by decide)
      (by rw [ew]; exact hinw) wl.ptr (by rw [ew, rowOf_nat]; exact hw1)
    generalize hs1 : ({ s with ienv := setS s.ienv "_rb_delete_fixup17$w_left" wl.ptr } : State F) = s1 at h1
    have hv1 : VS s1 n := by rw [← hs1]; exact hv.of_eq rfl rfl rfl
    have hrun1 : s1.ctl = .run := by rw [← hs1]; exact hrun
    have hia1 : s1.ia = s.ia := by rw [← hs1]
    have ew1 : s1.ienv "_rb_delete_fixup17$w" = w := by rw [← hs1]; simp [setS, ew]
    have h2 := exec_ldN fuel n s1 hv1.shpN "_rb_delete_fixup17$w_right" "_rb_delete_fixup17$w" 2 (by decide)
      (by rw [ew1]; exact hinw) wr.ptr (by rw [ew1, rowOf_nat, hia1]; exact hw2)
    generalize hs2 : ({ s1 with ienv := setS s1.ienv "_rb_delete_fixup17$w_right" wr.ptr } : State F) = s2 at h2
    have hv2 : VS s2 n := by rw [← hs2]; exact hv1.of_eq rfl rfl rfl
    have hrun2 : s2.ctl = .run := by rw [← hs2]; exact hrun1
    have hia2 : s2.ia = s.ia := by rw [← hs2]; exact hia1
    have hfa2 : s2.fa = s.fa := by rw [← hs2, ← hs1]
    have ew2 : s2.ienv "_rb_delete_fixup17$w" = w := by rw [← hs2]; simp [setS, ew1]
    have ewl2 : s2.ienv "_rb_delete_fixup17$w_left" = wl.ptr := by rw [← hs2, ← hs1]; simp [setS]
    have ewr2 : s2.ienv "_rb_delete_fixup17$w_right" = wr.ptr := by rw [← hs2]; simp [setS]
    have ex2 : s2.ienv "_rb_delete_fixup17$x" = x := by rw [← hs2, ← hs1]; simp [setS, hx]
    have er2 : s2.ienv "_rb_delete_fixup17$root" = s.ienv "_rb_delete_fixup17$root" := by rw [← hs2, ← hs1]; simp [setS]
    have hcore2 : DFCore s2 n xl x xr (.L p (.node wl w wr) :: restB) :=
      DFCore.of_eq ⟨hv, hrun, hL, hN, hx, hroot, hnil, hcol⟩ (by rw [← hs2, ← hs1]) hfa2 hia2 hrun2 (by rw [ex2, hx]) er2
    have hrest : exec fuel dfLeftB s = exec fuel (.ite (.and (.cmpI .eq (.ld2 "tree_nodes" (.var "_rb_delete_fixup17$w_left") (.lit 0)) (.lit 1)) (.cmpI .eq (.ld2 "tree_nodes" (.var "_rb_delete_fixup17$w_right") (.lit 0)) (.lit 1)))
        dfCase2L
        (.seq (.ite (.cmpI .eq (.ld2 "tree_nodes" (.var "_rb_delete_fixup17$w_right") (.lit 0)) (.lit 1))
            (.seq (.stI2 "tree_nodes" (.var "_rb_delete_fixup17$w_left") (.lit 0) (.lit 1))
            (.seq (.stI2 "tree_nodes" (.var "_rb_delete_fixup17$w") (.lit 0) (.lit 0))
            (drrot21
            (.seq (.setI "_rb_delete_fixup17$x_parent" (.ld2 "tree_nodes" (.var "_rb_delete_fixup17$x") (.lit 3)))
            (.setI "_rb_delete_fixup17$w" (.ld2 "tree_nodes" (.var "_rb_delete_fixup17$x_parent") (.lit 2)))))))
            .skip)
        (.seq (.setI "_rb_delete_fixup17$x_parent" (.ld2 "tree_nodes" (.var "_rb_delete_fixup17$x") (.lit 3)))
        (.seq (.setI "_rb_delete_fixup17$w_right" (.ld2 "tree_nodes" (.var "_rb_delete_fixup17$w") (.lit 2)))
        (.seq (.stI2 "tree_nodes" (.var "_rb_delete_fixup17$w") (.lit 0) (.ld2 "tree_nodes" (.var "_rb_delete_fixup17$x_parent") (.lit 0)))
        (.seq (.stI2 "tree_nodes" (.var "_rb_delete_fixup17$x_parent") (.lit 0) (.lit 1))
        (.seq (.stI2 "tree_nodes" (.var "_rb_delete_fixup17$w_right") (.lit 0) (.lit 1))
        (dlrot24
        (.setI "_rb_delete_fixup17$x" (.var "_rb_delete_fixup17$root")))))))))) s2 := by
      simp only [dfLeftB]
      rw [exec_seq_run _ _ _ _ (by
        rw [exec_ite_false _ _ _ _ _ (by simp [BE.ok, IE.ok_var, IE.ok_lit]) (by simp [BE.eval, IE.eval_var, IE.eval_lit, cmpInt, ew, hwne]), exec_skip]; exact hrun),
        exec_ite_false _ _ _ _ _ (by simp [BE.ok, IE.ok_var, IE.ok_lit]) (by simp [BE.eval, IE.eval_var, IE.eval_lit, cmpInt, ew, hwne]), exec_skip,
        exec_seq_run _ _ _ _ (by rw [h1]; exact hrun1), h1, exec_seq_run _ _ _ _ (by rw [h2]; exact hrun2), h2]
    rw [hrest]
    -- the colour tests
    have hinwl := hlwl.inRange hv.pos
    have hinwr := hlwr.inRange hv.pos
    have hmemw : ∀ j ∈ (Sh.node wl w wr).idxs, j ∈ (plug (.node xl x xr) (.L p (.node wl w wr) :: restB)).idxs := fun j hj => by
      have : j ∈ (plug (Sh.node (Sh.node xl x xr) p (Sh.node wl w wr)) restB).idxs := mem_plug _ restB _ (List.mem_append_right _ (List.mem_cons_of_mem _ hj))
      exact this
    have hbl := black_test (s.fa "tree_vals") (s.ia "tree_nodes") n wl _ hlwl hnil (fun j hj => hcol j (hmemw j (by simp [Sh.idxs, hj])))
    have hbr := black_test (s.fa "tree_vals") (s.ia "tree_nodes") n wr _ hlwr hnil (fun j hj => hcol j (hmemw j (by simp [Sh.idxs, hj])))
    have hok_both : BE.ok s2 (.and (.cmpI .eq (.ld2 "tree_nodes" (.var "_rb_delete_fixup17$w_left") (.lit 0)) (.lit 1)) (.cmpI .eq (.ld2 "tree_nodes" (.var "_rb_delete_fixup17$w_right") (.lit 0)) (.lit 1))) = true := by
      simp [BE.ok, okN s2 n hv2.shpN, ewl2, ewr2, hinwl, hinwr, IE.ok_lit]
    have hev_both : BE.eval s2 (.and (.cmpI .eq (.ld2 "tree_nodes" (.var "_rb_delete_fixup17$w_left") (.lit 0)) (.lit 1)) (.cmpI .eq (.ld2 "tree_nodes" (.var "_rb_delete_fixup17$w_right") (.lit 0)) (.lit 1))) =
        (!(isRed (absT (s.fa "tree_vals") (s.ia "tree_nodes") wl)) && !(isRed (absT (s.fa "tree_vals") (s.ia "tree_nodes") wr))) := by
      simp only [BE.eval_and, BE.eval_cmpI, evalN s2 n hv2.shpN _ 0 (by decide : (0 : Int) ≤ 0), ewl2, ewr2, hia2, IE.eval_lit, cmpInt]
      rw [← hbl, ← hbr]; rfl
    have hsubw' : subAt ((restB.map Fr.dir).reverse ++ [Dir.L.flip]) T =
        .node (absT (s.fa "tree_vals") (s.ia "tree_nodes") wl) (nodeAt (s.fa "tree_vals") w) (vAt (s.fa "tree_vals") w 7)
          (decide (nAt (s.ia "tree_nodes") w 0 = 0)) (absT (s.fa "tree_vals") (s.ia "tree_nodes") wr) := by
      rw [hpg]; exact hsubw
    by_cases hboth : (!(isRed (absT (s.fa "tree_vals") (s.ia "tree_nodes") wl)) && !(isRed (absT (s.fa "tree_vals") (s.ia "tree_nodes") wr))) = true
    · -- case 2
      obtain ⟨c1', c2, c3, c4, c5, c6, c7, c8, c9, c10⟩ := dcase2L_spec fuel n s2 hv2 hrun2 xl x xr p wl w wr restB
        (by rw [hia2]; exact hL) hN ew2 ex2
      rw [exec_ite_true _ _ _ _ _ hok_both (by rw [hev_both]; exact hboth)]
      generalize hs3 : exec fuel dfCase2L s2 = s3 at c1' c2 c3 c4 c5 c6 c7 c8 c9 c10
      rw [hfa2, hia2] at c5
      simp only [Bool.and_eq_true, Bool.not_eq_true'] at hboth
      refine ⟨Or.inl c1', .node xl x xr, p, .node wl w wr, restB, ?_, ?_, rfl, by rw [c3, hfa2]; exact hS, ?_⟩
      · exact ⟨c2.of_eq rfl rfl rfl, rfl, c4, hN, c6, by show s3.ienv _ = _; rw [c7, er2, hroot]; rfl,
          by show nAt (s3.ia "tree_nodes") _ _ = _; rw [c8, hia2]; exact hnil,
          fun j hj => by
            show ColV (nAt (s3.ia "tree_nodes") j 0)
            exact c9 j (by rw [hia2]; exact hcol j hj)⟩
      · cases c1 with
        | false => exact Or.inl (hb rfl)
        | true => exact Or.inr (Or.inr (by rw [c10, hia2]; exact hc1 rfl))
      · show delFixP S (restB.map Fr.dir) (absT (s3.fa "tree_vals") (s3.ia "tree_nodes") (plug (.node (.node xl x xr) p (.node wl w wr)) restB)) = _
        have c5' : absT (s3.fa "tree_vals") (s3.ia "tree_nodes") (plug (.node (.node xl x xr) p (.node wl w wr)) restB) =
            atPath (setCol true) (pathOf restB ++ [Dir.R]) T := by rw [← hT]; exact c5
        rw [dfB_case2 S Dir.L c1 _ _ T _ _ _ _ _ hsubw' hboth.1 hboth.2, hpg]
        cases c1 with
        | false => rw [c5']; rfl
        | true =>
          simp only [if_true]
          have := delFixP_stop S (s3.fa "tree_vals") (s3.ia "tree_nodes") (.node xl x xr) p (.node wl w wr) restB
            (Or.inr (by rw [c10, hia2]; exact hc1 rfl))
          rw [this, c5']; rfl
    · -- cases 3 / 4
      have hboth' : (!(isRed (absT (s.fa "tree_vals") (s.ia "tree_nodes") wl)) && !(isRed (absT (s.fa "tree_vals") (s.ia "tree_nodes") wr))) = false := by
        cases hh : (!(isRed (absT (s.fa "tree_vals") (s.ia "tree_nodes") wl)) && !(isRed (absT (s.fa "tree_vals") (s.ia "tree_nodes") wr)))
        · rfl
        · exact absurd hh hboth
      rw [exec_ite_false _ _ _ _ _ hok_both (by rw [hev_both]; exact hboth')]
      have hok3 : BE.ok s2 (.cmpI .eq (.ld2 "tree_nodes" (.var "_rb_delete_fixup17$w_right") (.lit 0)) (.lit 1)) = true := by
        simp [BE.ok, okN s2 n hv2.shpN, ewr2, hinwr, IE.ok_lit]
      have hev3 : BE.eval s2 (.cmpI .eq (.ld2 "tree_nodes" (.var "_rb_delete_fixup17$w_right") (.lit 0)) (.lit 1)) =
          !(isRed (absT (s.fa "tree_vals") (s.ia "tree_nodes") wr)) := by
        simp only [BE.eval_cmpI, evalN s2 n hv2.shpN _ 0 (by decide : (0 : Int) ≤ 0), ewr2, hia2, IE.eval_lit, cmpInt]
        rw [← hbr]; rfl
      have hpcol : ColV (nAt (s.ia "tree_nodes") p 0) := hcol p (by
        have : p ∈ (plug (Sh.node (Sh.node xl x xr) p (Sh.node wl w wr)) restB).idxs := mem_plug _ restB _ (by simp [Sh.idxs])
        exact this)
      by_cases hfar : isRed (absT (s.fa "tree_vals") (s.ia "tree_nodes") wr) = true
      · -- case 4 directly: the far child is a red node
        obtain ⟨fl, f, fr, rfl⟩ : ∃ fl f fr, wr = .node fl f fr := by
          cases wr with
          | nil => simp [absT, isRed] at hfar
          | node a b c => exact ⟨a, b, c, rfl⟩
        obtain ⟨d1, d2, d3, d4, d5, d6, d7, d8, d9, d10⟩ := dcase4L_spec fuel n s2 hv2 hrun2 xl x xr p wl w fl f fr restB
          (by rw [hia2]; exact hL) hN ew2 ex2 (by rw [er2]; exact hroot) (by rw [hia2]; exact hpcol)
        rw [exec_seq_run _ _ _ _ (by
          rw [exec_ite_false _ _ _ _ _ hok3 (by rw [hev3, hfar]; rfl), exec_skip]; exact hrun2),
          exec_ite_false _ _ _ _ _ hok3 (by rw [hev3, hfar]; rfl), exec_skip]
        generalize hs3 : exec fuel _ s2 = s3 at d1 d2 d3 d5 d6 d7 d8 d9 d10
        obtain ⟨l4, i4, r4, hsh4⟩ := plug_is_node restB (.node (.node xl x xr) p wl) w (.node fl f fr)
        rw [hsh4] at d3 d4 d5 d6 d7
        rw [hfa2, hia2] at d5
        refine ⟨Or.inl d1, l4, i4, r4, [], ?_, Or.inr (Or.inl rfl), ?_, by rw [d8, hfa2]; exact hS, ?_⟩
        · exact ⟨d2.of_eq rfl rfl rfl, rfl, d3, d4, d6, d7, by show nAt (s3.ia "tree_nodes") _ _ = _; rw [d9, hia2]; exact hnil,
            fun j hj => by
              show ColV (nAt (s3.ia "tree_nodes") j 0)
              refine d10 j ?_
              rw [hia2]; refine hcol j ?_
              have e1 : (plug (Sh.node l4 i4 r4) []).idxs = (plug (.node (.node (.node xl x xr) p wl) w (.node fl f fr)) restB).idxs := by
                rw [← hsh4]; rfl
              rw [e1] at hj
              have e2 := idxs_plug_congr restB (.node (.node (.node xl x xr) p wl) w (.node fl f fr))
                (.node (.node xl x xr) p (.node wl w (.node fl f fr))) (by simp [Sh.idxs])
              rw [e2] at hj; exact hj⟩
        · show (Sh.node l4 i4 r4).idxs = _
          rw [← hsh4]
          exact idxs_plug_congr restB _ (.node (.node xl x xr) p (.node wl w (.node fl f fr))) (by simp [Sh.idxs])
        · show delFixP S [] (absT (s3.fa "tree_vals") (s3.ia "tree_nodes") (.node l4 i4 r4)) = _
          have hpT : isRed (subAt (pathOf restB) T) = decide (nAt (s.ia "tree_nodes") p 0 = 0) := by
            rw [← hT]; exact hsubp _ _ _
          rw [delFixP_nil, d5, hS, hT, dfB_case4 S Dir.L c1 _ _ T _ _ _ _ _ hsubw' hfar, hpg, hpT]
          rfl
      · -- case 3, then case 4: the near child is a red node
        have hfar' : isRed (absT (s.fa "tree_vals") (s.ia "tree_nodes") wr) = false := by
          cases hh : isRed (absT (s.fa "tree_vals") (s.ia "tree_nodes") wr)
          · rfl
          · exact absurd hh hfar
        have hnear : isRed (absT (s.fa "tree_vals") (s.ia "tree_nodes") wl) = true := by
          rw [hfar'] at hboth'
          cases hh : isRed (absT (s.fa "tree_vals") (s.ia "tree_nodes") wl)
          · rw [hh] at hboth'; simp at hboth'
          · rfl
        obtain ⟨a, b, c, rfl⟩ : ∃ a b c, wl = .node a b c := by
          cases wl with
          | nil => simp [absT, isRed] at hnear
          | node a b c => exact ⟨a, b, c, rfl⟩
        simp only [Sh.ptr] at ewl2
        obtain ⟨e1, e2, e3, e4, e5, e6, e7, e8, e9, e10, e11, e12, e13, e14⟩ := dcase3L_spec fuel n s2 hv2 hrun2 xl x xr p
          a b c w wr restB (by rw [hia2]; exact hL) hN ew2 ewl2 ex2 (by rw [er2]; exact hroot)
        generalize hs3 : exec fuel (.seq (.stI2 "tree_nodes" (.var "_rb_delete_fixup17$w_left") (.lit 0) (.lit 1))
            (.seq (.stI2 "tree_nodes" (.var "_rb_delete_fixup17$w") (.lit 0) (.lit 0))
            (drrot21
            (.seq (.setI "_rb_delete_fixup17$x_parent" (.ld2 "tree_nodes" (.var "_rb_delete_fixup17$x") (.lit 3)))
            (.setI "_rb_delete_fixup17$w" (.ld2 "tree_nodes" (.var "_rb_delete_fixup17$x_parent") (.lit 2))))))) s2 = s3
          at e1 e2 e3 e5 e6 e7 e8 e9 e10 e11 e12 e13 e14
        rw [hfa2, hia2] at e5
        rw [hia2] at e11 e12 e13
        obtain ⟨d1, d2, d3, d4, d5, d6, d7, d8, d9, d10⟩ := dcase4L_spec fuel n s3 e2 e1 xl x xr p a b c w wr restB
          e3 e4 e6 e8 e9 (by rw [e13]; exact hpcol)
        rw [exec_seq_run _ _ _ _ (by
          rw [exec_ite_true _ _ _ _ _ hok3 (by rw [hev3, hfar']; rfl), hs3]; exact e1),
          exec_ite_true _ _ _ _ _ hok3 (by rw [hev3, hfar']; rfl), hs3]
        generalize hs4 : exec fuel _ s3 = s4 at d1 d2 d3 d5 d6 d7 d8 d9 d10
        obtain ⟨l4, i4, r4, hsh4⟩ := plug_is_node restB (.node (.node xl x xr) p a) b (.node c w wr)
        rw [hsh4] at d3 d4 d5 d6 d7
        rw [e5, e10, hfa2, e13] at d5
        refine ⟨Or.inl d1, l4, i4, r4, [], ?_, Or.inr (Or.inl rfl), ?_, by rw [d8, e10, hfa2]; exact hS, ?_⟩
        · exact ⟨d2.of_eq rfl rfl rfl, rfl, d3, d4, d6, d7,
            by show nAt (s4.ia "tree_nodes") _ _ = _; rw [d9, e11]; exact hnil,
            fun j hj => by
              show ColV (nAt (s4.ia "tree_nodes") j 0)
              refine d10 j (e12 j (hcol j ?_))
              have q1 : (plug (Sh.node l4 i4 r4) []).idxs = (plug (.node (.node (.node xl x xr) p a) b (.node c w wr)) restB).idxs := by
                rw [← hsh4]; rfl
              rw [q1] at hj
              have q2 := idxs_plug_congr restB (.node (.node (.node xl x xr) p a) b (.node c w wr))
                (.node (.node xl x xr) p (.node (.node a b c) w wr)) (by simp [Sh.idxs])
              rw [q2] at hj; exact hj⟩
        · show (Sh.node l4 i4 r4).idxs = _
          rw [← hsh4]
          exact idxs_plug_congr restB _ (.node (.node xl x xr) p (.node (.node a b c) w wr)) (by simp [Sh.idxs])
        · show delFixP S [] (absT (s4.fa "tree_vals") (s4.ia "tree_nodes") (.node l4 i4 r4)) = _
          rw [delFixP_nil, d5]
          rw [dfB_case3 S Dir.L c1 _ _ T _ _ _ _ _ hsubw' hnear hfar', hpg, hS, hT]
          have hcp : isRed (subAt (pathOf restB) (atPath (rotD S Dir.L.flip) (pathOf restB ++ [Dir.L.flip])
              (atPath (setCol true) (pathOf restB ++ [Dir.L.flip]) (atPath (setCol false) (pathOf restB ++ [Dir.L.flip] ++ [Dir.L]) T)))) =
              decide (nAt (s.ia "tree_nodes") p 0 = 0) := by
            have := hsubp (s3.fa "tree_vals") (s3.ia "tree_nodes") (.node a b (.node c w wr))
            rw [e5, e13, hS, hT] at this
            exact this
          simp only [hcp]
          rfl

/-- the part of the right branch after case 1 -/
def dfRightB : St :=
  (.seq (.ite (.cmpI .eq (.var "_rb_delete_fixup17$w") (.lit (-1)))
      (.seq (.setI "_rb_delete_fixup17$x" (.var "_rb_delete_fixup17$x_parent"))
      .cont)
      .skip)
  (.seq (.setI "_rb_delete_fixup17$w_left" (.ld2 "tree_nodes" (.var "_rb_delete_fixup17$w") (.lit 1)))
  (.seq (.setI "_rb_delete_fixup17$w_right" (.ld2 "tree_nodes" (.var "_rb_delete_fixup17$w") (.lit 2)))
  (.seq (.setI "_rb_delete_fixup17$x_parent" (.ld2 "tree_nodes" (.var "_rb_delete_fixup17$x") (.lit 3)))
  (.ite (.and (.cmpI .eq (.ld2 "tree_nodes" (.var "_rb_delete_fixup17$w_right") (.lit 0)) (.lit 1)) (.cmpI .eq (.ld2 "tree_nodes" (.var "_rb_delete_fixup17$w_left") (.lit 0)) (.lit 1)))
    dfCase2R
    (.seq (.ite (.cmpI .eq (.ld2 "tree_nodes" (.var "_rb_delete_fixup17$w_left") (.lit 0)) (.lit 1))
        (.seq (.stI2 "tree_nodes" (.var "_rb_delete_fixup17$w_right") (.lit 0) (.lit 1))
        (.seq (.stI2 "tree_nodes" (.var "_rb_delete_fixup17$w") (.lit 0) (.lit 0))
        (dlrot30
        (.setI "_rb_delete_fixup17$w" (.ld2 "tree_nodes" (.var "_rb_delete_fixup17$x_parent") (.lit 1))))))
        .skip)
    (.seq (.stI2 "tree_nodes" (.var "_rb_delete_fixup17$w") (.lit 0) (.ld2 "tree_nodes" (.var "_rb_delete_fixup17$x_parent") (.lit 0)))
    (.seq (.stI2 "tree_nodes" (.var "_rb_delete_fixup17$x_parent") (.lit 0) (.lit 1))
    (.seq (.setI "_rb_delete_fixup17$w_left" (.ld2 "tree_nodes" (.var "_rb_delete_fixup17$w") (.lit 1)))
    (.seq (.stI2 "tree_nodes" (.var "_rb_delete_fixup17$w_left") (.lit 0) (.lit 1))
    (drrot33
    (.setI "_rb_delete_fixup17$x" (.var "_rb_delete_fixup17$root")))))))))))))

theorem dfRight_eq : dfRight =
    (.seq (.setI "_rb_delete_fixup17$x_parent" (.ld2 "tree_nodes" (.var "_rb_delete_fixup17$x") (.lit 3)))
    (.seq (.setI "_rb_delete_fixup17$w" (.ld2 "tree_nodes" (.var "_rb_delete_fixup17$x_parent") (.lit 1)))
    (.seq (dfCase1 1 drrot27) dfRightB))) := rfl

/-- **the iteration after case 1, `x` the right child** -/
theorem dfRightB_spec (fuel n : Nat) (s : State F) (xl : Sh) (x : Nat) (xr : Sh) (p : Nat) (wB : Sh) (restB : Ctx)
    (c1 : Bool) (bound : Nat) (h : DFCore s n xl x xr (.R wB p :: restB))
    (ew : s.ienv "_rb_delete_fixup17$w" = wB.ptr) (exp : s.ienv "_rb_delete_fixup17$x_parent" = p)
    (hc1 : c1 = true → nAt (s.ia "tree_nodes") p 0 = 0) (hb : c1 = false → restB.length < bound) :
    DFStep (vAt (s.fa "tree_vals") (n - 1) 7) s (exec fuel dfRightB s) n xl x xr (.R wB p :: restB) bound
      (dfB (vAt (s.fa "tree_vals") (n - 1) 7) Dir.R c1 (restB.map Fr.dir)
        (delFixP (vAt (s.fa "tree_vals") (n - 1) 7) (restB.map Fr.dir))
        (absT (s.fa "tree_vals") (s.ia "tree_nodes") (plug (.node xl x xr) (.R wB p :: restB)))) := by
  obtain ⟨hv, hrun, hL, hN, hx, hroot, hnil, hcol⟩ := h
  obtain ⟨hlx, hcx, _⟩ := unplug _ _ hL hN
  have hx3 : nAt (s.ia "tree_nodes") x 3 = p := hlx.2.2.2.1
  have hxn : x + 1 < n := hlx.1
  obtain ⟨hpn, hp1, _, _, _, hlw, _⟩ := hcx
  have hpg : (restB.map Fr.dir).reverse = pathOf restB := map_dir_reverse restB
  have hpw : pathOf restB ++ [Dir.L] = pathOf (.L p (.node xl x xr) :: restB) := rfl
  generalize hS : vAt (s.fa "tree_vals") (n - 1) 7 = S
  generalize hT : absT (s.fa "tree_vals") (s.ia "tree_nodes") (plug (.node xl x xr) (.R wB p :: restB)) = T
  have hsubw : subAt (pathOf restB ++ [Dir.L]) T = absT (s.fa "tree_vals") (s.ia "tree_nodes") wB := by
    rw [← hT, hpw]; exact subAt_plug _ _ (.L p (.node xl x xr) :: restB) wB
  have hsubp : ∀ (V' : List F) (N' : List Int) (sib : Sh), isRed (subAt (pathOf restB)
      (absT V' N' (plug (.node xl x xr) (.R sib p :: restB)))) = decide (nAt N' p 0 = 0) := fun V' N' sib => by
    show isRed (subAt (pathOf restB) (absT V' N' (plug (.node sib p (.node xl x xr)) restB))) = _
    rw [subAt_plug]; rfl
  cases wB with
  | nil =>
    -- NIL sibling: `x = x_parent; continue`
    have hwv : s.ienv "_rb_delete_fixup17$w" = -1 := ew
    have hr : exec fuel dfRightB s = { s with ienv := setS s.ienv "_rb_delete_fixup17$x" (s.ienv "_rb_delete_fixup17$x_parent"), ctl := .cont } := by
      simp only [dfRightB]
      rw [exec_seq_stop _ _ _ _ (by
        rw [exec_ite_true _ _ _ _ _ (by simp [BE.ok, IE.ok_var, IE.ok_lit]) (by simp [BE.eval, IE.eval_var, IE.eval_lit, cmpInt, hwv]),
          dnilR_spec fuel s hrun]; simp),
        exec_ite_true _ _ _ _ _ (by simp [BE.ok, IE.ok_var, IE.ok_lit]) (by simp [BE.eval, IE.eval_var, IE.eval_lit, cmpInt, hwv]),
        dnilR_spec fuel s hrun]
    rw [hr]
    refine ⟨Or.inr rfl, .nil, p, .node xl x xr, restB, ?_, ?_, rfl, hS, ?_⟩
    · exact ⟨hv.of_eq rfl rfl rfl, rfl, hL, hN, by simp [runOf, setS, exp], by simp [runOf, setS, hroot]; rfl, hnil, hcol⟩
    · cases c1 with
      | false => exact Or.inl (hb rfl)
      | true => exact Or.inr (Or.inr (hc1 rfl))
    · show delFixP S (restB.map Fr.dir) (absT (s.fa "tree_vals") (s.ia "tree_nodes") (plug (.node .nil p (.node xl x xr)) restB)) = _
      have hT' : absT (s.fa "tree_vals") (s.ia "tree_nodes") (plug (.node .nil p (.node xl x xr)) restB) = T := hT
      rw [hT', dfB_nil S Dir.R c1 _ _ T (by rw [hpg]; exact hsubw)]
      cases c1 with
      | false => rfl
      | true =>
        simp only [if_true]
        rw [← hT']
        exact delFixP_stop S _ _ _ _ _ restB (Or.inr (hc1 rfl))
  | node wl w wr =>
    simp only [Sh.ptr] at ew hp1
    obtain ⟨hwn, hw1, hw2, _, hlwl, hlwr⟩ := hlw
    have hwne : ¬ ((w : Int) = -1) := by omega
    have hinw : inRange (w : Int) n = true := inRange_ptr n _ (by omega) hv.pos
    have hinx : inRange (x : Int) n = true := inRange_ptr n _ (by omega) hv.pos
    -- the three reads
    have h1 := exec_ldN fuel n s hv.shpN "_rb_delete_fixup17$w_left" "_rb_delete_fixup17$w" 1 (by decide)
      (by rw [ew]; exact hinw) wl.ptr (by rw [ew, rowOf_nat]; exact hw1)
    generalize hs1 : ({ s with ienv := setS s.ienv "_rb_delete_fixup17$w_left" wl.ptr } : State F) = s1 at h1
    have hv1 : VS s1 n := by rw [← hs1]; exact hv.of_eq rfl rfl rfl
    have hrun1 : s1.ctl = .run := by rw [← hs1]; exact hrun
    have hia1 : s1.ia = s.ia := by rw [← hs1]
    have ew1 : s1.ienv "_rb_delete_fixup17$w" = w := by rw [← hs1]; simp [setS, ew]
    have h2 := exec_ldN fuel n s1 hv1.shpN "_rb_delete_fixup17$w_right" "_rb_delete_fixup17$w" 2 (by decide)
      (by rw [ew1]; exact hinw) wr.ptr (by rw [ew1, rowOf_nat, hia1]; exact hw2)
    generalize hs2' : ({ s1 with ienv := setS s1.ienv "_rb_delete_fixup17$w_right" wr.ptr } : State F) = s2' at h2
    have hv2' : VS s2' n := by rw [← hs2']; exact hv1.of_eq rfl rfl rfl
    have hrun2' : s2'.ctl = .run := by rw [← hs2']; exact hrun1
    have hia2' : s2'.ia = s.ia := by rw [← hs2']; exact hia1
    have ex2' : s2'.ienv "_rb_delete_fixup17$x" = x := by rw [← hs2', ← hs1]; simp [setS, hx]
    have h3 := exec_ldN fuel n s2' hv2'.shpN "_rb_delete_fixup17$x_parent" "_rb_delete_fixup17$x" 3 (by decide)
      (by rw [ex2']; exact hinx) p (by rw [ex2', rowOf_nat, hia2']; exact hx3)
    generalize hs2 : ({ s2' with ienv := setS s2'.ienv "_rb_delete_fixup17$x_parent" (p : Int) } : State F) = s2 at h3
    have hv2 : VS s2 n := by rw [← hs2]; exact hv2'.of_eq rfl rfl rfl
    have hrun2 : s2.ctl = .run := by rw [← hs2]; exact hrun2'
    have hia2 : s2.ia = s.ia := by rw [← hs2]; exact hia2'
    have hfa2 : s2.fa = s.fa := by rw [← hs2, ← hs2', ← hs1]
    have ew2 : s2.ienv "_rb_delete_fixup17$w" = w := by rw [← hs2, ← hs2']; simp [setS, ew1]
    have ewl2 : s2.ienv "_rb_delete_fixup17$w_left" = wl.ptr := by rw [← hs2, ← hs2', ← hs1]; simp [setS]
    have ewr2 : s2.ienv "_rb_delete_fixup17$w_right" = wr.ptr := by rw [← hs2, ← hs2']; simp [setS]
    have ex2 : s2.ienv "_rb_delete_fixup17$x" = x := by rw [← hs2]; simp [setS, ex2']
    have exp2 : s2.ienv "_rb_delete_fixup17$x_parent" = p := by rw [← hs2]; simp [setS]
    have er2 : s2.ienv "_rb_delete_fixup17$root" = s.ienv "_rb_delete_fixup17$root" := by rw [← hs2, ← hs2', ← hs1]; simp [setS]
    have hrest : exec fuel dfRightB s = exec fuel (.ite (.and (.cmpI .eq (.ld2 "tree_nodes" (.var "_rb_delete_fixup17$w_right") (.lit 0)) (.lit 1)) (.cmpI .eq (.ld2 "tree_nodes" (.var "_rb_delete_fixup17$w_left") (.lit 0)) (.lit 1)))
        dfCase2R
        (.seq (.ite (.cmpI .eq (.ld2 "tree_nodes" (.var "_rb_delete_fixup17$w_left") (.lit 0)) (.lit 1))
            (.seq (.stI2 "tree_nodes" (.var "_rb_delete_fixup17$w_right") (.lit 0) (.lit 1))
            (.seq (.stI2 "tree_nodes" (.var "_rb_delete_fixup17$w") (.lit 0) (.lit 0))
            (dlrot30
            (.setI "_rb_delete_fixup17$w" (.ld2 "tree_nodes" (.var "_rb_delete_fixup17$x_parent") (.lit 1))))))
            .skip)
        (.seq (.stI2 "tree_nodes" (.var "_rb_delete_fixup17$w") (.lit 0) (.ld2 "tree_nodes" (.var "_rb_delete_fixup17$x_parent") (.lit 0)))
        (.seq (.stI2 "tree_nodes" (.var "_rb_delete_fixup17$x_parent") (.lit 0) (.lit 1))
        (.seq (.setI "_rb_delete_fixup17$w_left" (.ld2 "tree_nodes" (.var "_rb_delete_fixup17$w") (.lit 1)))
        (.seq (.stI2 "tree_nodes" (.var "_rb_delete_fixup17$w_left") (.lit 0) (.lit 1))
        (drrot33
        (.setI "_rb_delete_fixup17$x" (.var "_rb_delete_fixup17$root"))))))))) s2 := by
      simp only [dfRightB]
      rw [exec_seq_run _ _ _ _ (by
        rw [exec_ite_false _ _ _ _ _ (by simp [BE.ok, IE.ok_var, IE.ok_lit]) (by simp [BE.eval, IE.eval_var, IE.eval_lit, cmpInt, ew, hwne]), exec_skip]; exact hrun),
        exec_ite_false _ _ _ _ _ (by simp [BE.ok, IE.ok_var, IE.ok_lit]) (by simp [BE.eval, IE.eval_var, IE.eval_lit, cmpInt, ew, hwne]), exec_skip,
        exec_seq_run _ _ _ _ (by rw [h1]; exact hrun1), h1, exec_seq_run _ _ _ _ (by rw [h2]; exact hrun2'), h2,
        exec_seq_run _ _ _ _ (by rw [h3]; exact hrun2), h3]
    rw [hrest]
    -- the colour tests
    have hinwl := hlwl.inRange hv.pos
    have hinwr := hlwr.inRange hv.pos
    have hmemw : ∀ j ∈ (Sh.node wl w wr).idxs, j ∈ (plug (.node xl x xr) (.R (.node wl w wr) p :: restB)).idxs := fun j hj => by
      have : j ∈ (plug (Sh.node (Sh.node wl w wr) p (Sh.node xl x xr)) restB).idxs := mem_plug _ restB _ (List.mem_append_left _ hj)
      exact this
    have hbl := black_test (s.fa "tree_vals") (s.ia "tree_nodes") n wl _ hlwl hnil (fun j hj => hcol j (hmemw j (by simp [Sh.idxs, hj])))
    have hbr := black_test (s.fa "tree_vals") (s.ia "tree_nodes") n wr _ hlwr hnil (fun j hj => hcol j (hmemw j (by simp [Sh.idxs, hj])))
    have hok_both : BE.ok s2 (.and (.cmpI .eq (.ld2 "tree_nodes" (.var "_rb_delete_fixup17$w_right") (.lit 0)) (.lit 1)) (.cmpI .eq (.ld2 "tree_nodes" (.var "_rb_delete_fixup17$w_left") (.lit 0)) (.lit 1))) = true := by
      simp [BE.ok, okN s2 n hv2.shpN, ewl2, ewr2, hinwl, hinwr, IE.ok_lit]
    have hev_both : BE.eval s2 (.and (.cmpI .eq (.ld2 "tree_nodes" (.var "_rb_delete_fixup17$w_right") (.lit 0)) (.lit 1)) (.cmpI .eq (.ld2 "tree_nodes" (.var "_rb_delete_fixup17$w_left") (.lit 0)) (.lit 1))) =
        (!(isRed (absT (s.fa "tree_vals") (s.ia "tree_nodes") wr)) && !(isRed (absT (s.fa "tree_vals") (s.ia "tree_nodes") wl))) := by
      simp only [BE.eval_and, BE.eval_cmpI, evalN s2 n hv2.shpN _ 0 (by decide : (0 : Int) ≤ 0), ewl2, ewr2, hia2, IE.eval_lit, cmpInt]
      rw [← hbl, ← hbr]; rfl
    have hsubw' : subAt ((restB.map Fr.dir).reverse ++ [Dir.R.flip]) T =
        .node (absT (s.fa "tree_vals") (s.ia "tree_nodes") wl) (nodeAt (s.fa "tree_vals") w) (vAt (s.fa "tree_vals") w 7)
          (decide (nAt (s.ia "tree_nodes") w 0 = 0)) (absT (s.fa "tree_vals") (s.ia "tree_nodes") wr) := by
      rw [hpg]; exact hsubw
    by_cases hboth : (!(isRed (absT (s.fa "tree_vals") (s.ia "tree_nodes") wr)) && !(isRed (absT (s.fa "tree_vals") (s.ia "tree_nodes") wl))) = true
    · -- case 2
      obtain ⟨c1', c2, c3, c4, c5, c6, c7, c8, c9, c10⟩ := dcase2R_spec fuel n s2 hv2 hrun2 xl x xr p wl w wr restB
        (by rw [hia2]; exact hL) hN ew2 exp2
      rw [exec_ite_true _ _ _ _ _ hok_both (by rw [hev_both]; exact hboth)]
      generalize hs3 : exec fuel dfCase2R s2 = s3 at c1' c2 c3 c4 c5 c6 c7 c8 c9 c10
      rw [hfa2, hia2] at c5
      simp only [Bool.and_eq_true, Bool.not_eq_true'] at hboth
      refine ⟨Or.inl c1', .node wl w wr, p, .node xl x xr, restB, ?_, ?_, rfl, by rw [c3, hfa2]; exact hS, ?_⟩
      · exact ⟨c2.of_eq rfl rfl rfl, rfl, c4, hN, c6, by show s3.ienv _ = _; rw [c7, er2, hroot]; rfl,
          by show nAt (s3.ia "tree_nodes") _ _ = _; rw [c8, hia2]; exact hnil,
          fun j hj => by
            show ColV (nAt (s3.ia "tree_nodes") j 0)
            exact c9 j (by rw [hia2]; exact hcol j hj)⟩
      · cases c1 with
        | false => exact Or.inl (hb rfl)
        | true => exact Or.inr (Or.inr (by rw [c10, hia2]; exact hc1 rfl))
      · show delFixP S (restB.map Fr.dir) (absT (s3.fa "tree_vals") (s3.ia "tree_nodes") (plug (.node (.node wl w wr) p (.node xl x xr)) restB)) = _
        have c5' : absT (s3.fa "tree_vals") (s3.ia "tree_nodes") (plug (.node (.node wl w wr) p (.node xl x xr)) restB) =
            atPath (setCol true) (pathOf restB ++ [Dir.L]) T := by rw [← hT]; exact c5
        rw [dfB_case2 S Dir.R c1 _ _ T _ _ _ _ _ hsubw' hboth.1 hboth.2, hpg]
        cases c1 with
        | false => rw [c5']; rfl
        | true =>
          simp only [if_true]
          have := delFixP_stop S (s3.fa "tree_vals") (s3.ia "tree_nodes") (.node wl w wr) p (.node xl x xr) restB
            (Or.inr (by rw [c10, hia2]; exact hc1 rfl))
          rw [this, c5']; rfl
    · -- cases 3 / 4
      have hboth' : (!(isRed (absT (s.fa "tree_vals") (s.ia "tree_nodes") wr)) && !(isRed (absT (s.fa "tree_vals") (s.ia "tree_nodes") wl))) = false := by
        cases hh : (!(isRed (absT (s.fa "tree_vals") (s.ia "tree_nodes") wr)) && !(isRed (absT (s.fa "tree_vals") (s.ia "tree_nodes") wl)))
        · rfl
        · exact absurd hh hboth
      rw [exec_ite_false _ _ _ _ _ hok_both (by rw [hev_both]; exact hboth')]
      have hok3 : BE.ok s2 (.cmpI .eq (.ld2 "tree_nodes" (.var "_rb_delete_fixup17$w_left") (.lit 0)) (.lit 1)) = true := by
        simp [BE.ok, okN s2 n hv2.shpN, ewl2, hinwl, IE.ok_lit]
      have hev3 : BE.eval s2 (.cmpI .eq (.ld2 "tree_nodes" (.var "_rb_delete_fixup17$w_left") (.lit 0)) (.lit 1)) =
          !(isRed (absT (s.fa "tree_vals") (s.ia "tree_nodes") wl)) := by
        simp only [BE.eval_cmpI, evalN s2 n hv2.shpN _ 0 (by decide : (0 : Int) ≤ 0), ewl2, hia2, IE.eval_lit, cmpInt]
        rw [← hbl]; rfl
      have hpcol : ColV (nAt (s.ia "tree_nodes") p 0) := hcol p (by
        have : p ∈ (plug (Sh.node (Sh.node wl w wr) p (Sh.node xl x xr)) restB).idxs := mem_plug _ restB _ (by simp [Sh.idxs])
        exact this)
      by_cases hfar : isRed (absT (s.fa "tree_vals") (s.ia "tree_nodes") wl) = true
      · -- case 4 directly: the far child is a red node
        obtain ⟨fl, f, fr, rfl⟩ : ∃ fl f fr, wl = .node fl f fr := by
          cases wl with
          | nil => simp [absT, isRed] at hfar
          | node a b c => exact ⟨a, b, c, rfl⟩
        obtain ⟨d1, d2, d3, d4, d5, d6, d7, d8, d9, d10⟩ := dcase4R_spec fuel n s2 hv2 hrun2 xl x xr p fl f fr w wr restB
          (by rw [hia2]; exact hL) hN ew2 exp2 (by rw [er2]; exact hroot) (by rw [hia2]; exact hpcol)
        rw [exec_seq_run _ _ _ _ (by
          rw [exec_ite_false _ _ _ _ _ hok3 (by rw [hev3, hfar]; rfl), exec_skip]; exact hrun2),
          exec_ite_false _ _ _ _ _ hok3 (by rw [hev3, hfar]; rfl), exec_skip]
        generalize hs3 : exec fuel _ s2 = s3 at d1 d2 d3 d5 d6 d7 d8 d9 d10
        obtain ⟨l4, i4, r4, hsh4⟩ := plug_is_node restB (.node fl f fr) w (.node wr p (.node xl x xr))
        rw [hsh4] at d3 d4 d5 d6 d7
        rw [hfa2, hia2] at d5
        refine ⟨Or.inl d1, l4, i4, r4, [], ?_, Or.inr (Or.inl rfl), ?_, by rw [d8, hfa2]; exact hS, ?_⟩
        · exact ⟨d2.of_eq rfl rfl rfl, rfl, d3, d4, d6, d7, by show nAt (s3.ia "tree_nodes") _ _ = _; rw [d9, hia2]; exact hnil,
            fun j hj => by
              show ColV (nAt (s3.ia "tree_nodes") j 0)
              refine d10 j ?_
              rw [hia2]; refine hcol j ?_
              have e1 : (plug (Sh.node l4 i4 r4) []).idxs = (plug (.node (.node fl f fr) w (.node wr p (.node xl x xr))) restB).idxs := by
                rw [← hsh4]; rfl
              rw [e1] at hj
              have e2 := idxs_plug_congr restB (.node (.node fl f fr) w (.node wr p (.node xl x xr)))
                (.node (.node (.node fl f fr) w wr) p (.node xl x xr)) (by simp [Sh.idxs])
              rw [e2] at hj; exact hj⟩
        · show (Sh.node l4 i4 r4).idxs = _
          rw [← hsh4]
          exact idxs_plug_congr restB _ (.node (.node (.node fl f fr) w wr) p (.node xl x xr)) (by simp [Sh.idxs])
        · show delFixP S [] (absT (s3.fa "tree_vals") (s3.ia "tree_nodes") (.node l4 i4 r4)) = _
          have hpT : isRed (subAt (pathOf restB) T) = decide (nAt (s.ia "tree_nodes") p 0 = 0) := by
            rw [← hT]; exact hsubp _ _ _
          rw [delFixP_nil, d5, hS, hT, dfB_case4 S Dir.R c1 _ _ T _ _ _ _ _ hsubw' hfar, hpg, hpT]
          rfl
      · -- case 3, then case 4: the near child is a red node
        have hfar' : isRed (absT (s.fa "tree_vals") (s.ia "tree_nodes") wl) = false := by
          cases hh : isRed (absT (s.fa "tree_vals") (s.ia "tree_nodes") wl)
          · rfl
          · exact absurd hh hfar
        have hnear : isRed (absT (s.fa "tree_vals") (s.ia "tree_nodes") wr) = true := by
          rw [hfar'] at hboth'
          cases hh : isRed (absT (s.fa "tree_vals") (s.ia "tree_nodes") wr)
          · rw [hh] at hboth'; simp at hboth'
          · rfl
        obtain ⟨a, b, c, rfl⟩ : ∃ a b c, wr = .node a b c := by
          cases wr with
          | nil => simp [absT, isRed] at hnear
          | node a b c => exact ⟨a, b, c, rfl⟩
        simp only [Sh.ptr] at ewr2
        obtain ⟨e1, e2, e3, e4, e5, e6, e7, e8, e9, e10, e11, e12, e13, e14⟩ := dcase3R_spec fuel n s2 hv2 hrun2 xl x xr p
          wl w a b c restB (by rw [hia2]; exact hL) hN ew2 ewr2 exp2 (by rw [er2]; exact hroot)
        generalize hs3 : exec fuel (.seq (.stI2 "tree_nodes" (.var "_rb_delete_fixup17$w_right") (.lit 0) (.lit 1))
            (.seq (.stI2 "tree_nodes" (.var "_rb_delete_fixup17$w") (.lit 0) (.lit 0))
            (dlrot30
            (.setI "_rb_delete_fixup17$w" (.ld2 "tree_nodes" (.var "_rb_delete_fixup17$x_parent") (.lit 1)))))) s2 = s3
          at e1 e2 e3 e5 e6 e7 e8 e9 e10 e11 e12 e13 e14
        rw [hfa2, hia2] at e5
        rw [hia2] at e11 e12 e13
        obtain ⟨d1, d2, d3, d4, d5, d6, d7, d8, d9, d10⟩ := dcase4R_spec fuel n s3 e2 e1 xl x xr p wl w a b c restB
          e3 e4 e6 e7 e9 (by rw [e13]; exact hpcol)
        rw [exec_seq_run _ _ _ _ (by
          rw [exec_ite_true _ _ _ _ _ hok3 (by rw [hev3, hfar']; rfl), hs3]; exact e1),
          exec_ite_true _ _ _ _ _ hok3 (by rw [hev3, hfar']; rfl), hs3]
        generalize hs4 : exec fuel _ s3 = s4 at d1 d2 d3 d5 d6 d7 d8 d9 d10
        obtain ⟨l4, i4, r4, hsh4⟩ := plug_is_node restB (.node wl w a) b (.node c p (.node xl x xr))
        rw [hsh4] at d3 d4 d5 d6 d7
        rw [e5, e10, hfa2, e13] at d5
        refine ⟨Or.inl d1, l4, i4, r4, [], ?_, Or.inr (Or.inl rfl), ?_, by rw [d8, e10, hfa2]; exact hS, ?_⟩
        · exact ⟨d2.of_eq rfl rfl rfl, rfl, d3, d4, d6, d7,
            by show nAt (s4.ia "tree_nodes") _ _ = _; rw [d9, e11]; exact hnil,
            fun j hj => by
              show ColV (nAt (s4.ia "tree_nodes") j 0)
              refine d10 j (e12 j (hcol j ?_))
              have q1 : (plug (Sh.node l4 i4 r4) []).idxs = (plug (.node (.node wl w a) b (.node c p (.node xl x xr))) restB).idxs := by
                rw [← hsh4]; rfl
              rw [q1] at hj
              have q2 := idxs_plug_congr restB (.node (.node wl w a) b (.node c p (.node xl x xr)))
                (.node (.node wl w (.node a b c)) p (.node xl x xr)) (by simp [Sh.idxs])
              rw [q2] at hj; exact hj⟩
        · show (Sh.node l4 i4 r4).idxs = _
          rw [← hsh4]
          exact idxs_plug_congr restB _ (.node (.node wl w (.node a b c)) p (.node xl x xr)) (by simp [Sh.idxs])
        · show delFixP S [] (absT (s4.fa "tree_vals") (s4.ia "tree_nodes") (.node l4 i4 r4)) = _
          rw [delFixP_nil, d5]
          rw [dfB_case3 S Dir.R c1 _ _ T _ _ _ _ _ hsubw' hnear hfar', hpg, hS, hT]
          have hcp : isRed (subAt (pathOf restB) (atPath (rotD S Dir.R.flip) (pathOf restB ++ [Dir.R.flip])
              (atPath (setCol true) (pathOf restB ++ [Dir.R.flip]) (atPath (setCol false) (pathOf restB ++ [Dir.R.flip] ++ [Dir.R]) T)))) =
              decide (nAt (s.ia "tree_nodes") p 0 = 0) := by
            have := hsubp (s3.fa "tree_vals") (s3.ia "tree_nodes") (.node (.node wl w a) b c)
            rw [e5, e13, hS, hT] at this
            exact this
          simp only [hcp]
          rfl

end XrsVerif.ILVs
