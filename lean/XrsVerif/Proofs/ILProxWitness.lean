import XrsVerif.Proofs.ILProxNumpy
import XrsVerif.Proofs.TerrainReal
import Mathlib.Analysis.Real.Sqrt
import Mathlib.Algebra.Order.Field.Rat
import Mathlib.Tactic.NormNum
/-
  Proofs/ILProxWitness.lean -- the hypotheses of the refinement theorems for the generated proximity programs are
  satisfiable: `ValReading` over `NV ℚ`, and `PNInput` (hence `Arith`, the `_distance` hypothesis, the target
  hypothesis) for a 1 × 2 raster over `NV ℝ` with `sqrt = Real.sqrt`, Euclidean `_distance`, `max_distance = 2`.
-/
namespace XrsVerif.IL.Px.Witness
open XrsVerif XrsVerif.Prox XrsVerif.IL XrsVerif.IL.Px

/-! ### a reading of `NV ℚ` as raster values -/

/-- any interpretation of the transcendental functions over ℚ (they play no role in the target test) -/
@[instance_reducible] def trigQ : Trig Rat := ⟨fun x => x, fun x => x, fun x _ => x, fun x => x, fun x => x, fun x => x, fun x => x⟩

attribute [local instance] trigQ

def toValQ : NV Rat → Val
  | none => .nan
  | some q => .fin q

theorem ratReading : ValReading toValQ := by
  refine ⟨?_, ?_, ?_⟩
  · intro x y
    cases x <;> cases y <;> simp [toValQ, Val.ieq]
    rename_i a b
    by_cases h : a = b <;> simp [h]
  · simp [toValQ]
  · intro x; cases x <;> simp [toValQ]

/-! ### a 1 × 2 raster over `NV ℝ` -/

/-- one line, two columns, unit cells, Euclidean, `max_distance = 2` (`⌈2·max²⌉ = 8`) -/
def wc : Cfg := { H := 1, W := 2, sx := 1, sy := 1, metric := .euclid, max2x2 := some 8 }

theorem wc_refl : wc.Refl := by
  intro r p; simp [dist2, wc, adiff]

noncomputable def wemb (d : Nat) : NV ℝ := some (d : ℝ)

/-- the left cell is a target -/
def wtg (_ p : Nat) : Bool := p == 0

/-- Euclidean `_distance` -/
noncomputable def wext (_ : String) (x1 x2 y1 y2 : NV ℝ) (_ : Int) : NV ℝ :=
  Fl.sqrt (Fl.add (Fl.mul (Fl.sub x1 x2) (Fl.sub x1 x2)) (Fl.mul (Fl.sub y1 y2) (Fl.sub y1 y2)))

/-- `img = [[1, 0]]`, `x = [0, 1]`, `y = [0]`, default target rule, `max_distance = 2` -/
noncomputable def ws0 : State (NV ℝ) :=
  { (State.empty : State (NV ℝ)) with
    fa := fun a => if a = "img" then [some 1, some 0] else if a = "x_coords" then [some 0, some 1]
      else if a = "y_coords" then [some 0, some 0] else []
    shp := fun a => if a = "img" then [1, 2] else if a = "x_coords" then [1, 2] else if a = "y_coords" then [1, 2]
      else if a = "target_values" then [0] else []
    fenv := fun v => if v = "max_distance" then some 2 else none
    ext := wext }

theorem sqrt_def (x : ℝ) : (Trig.sqrt x : ℝ) = Real.sqrt x := rfl

theorem wArith : Arith wc wemb (some (2 : ℝ)) := by
  refine ⟨?_, ?_, ?_, ?_, ?_, ?_, ?_, ?_, ?_⟩
  · intro a b; simp [wemb]
  · intro d
    have : ((2 : ℝ) * 2 * (((2 : ℤ) : ℝ) / ((1 : ℕ) : ℝ))) = ((8 : ℕ) : ℝ) := by norm_num
    simp only [wemb, fl_mul, fl_lit, fl_lt, this, ltOpt, wc, Nat.cast_lt]
  · intro d
    have h4 : ((2 : ℝ) * 2) = ((4 : ℕ) : ℝ) := by norm_num
    simp only [wemb, fl_mul, fl_le, h4, withinMax, wc, Nat.cast_le]
    congr 1
    apply propext; constructor <;> intro h <;> omega
  · intro d; simp [wemb, sqrt_def, Real.mul_self_sqrt]
  · intro d; simp [wemb, sqrt_def, Real.sqrt_nonneg]
  · intro d; simp [wemb, sqrt_def, Real.sqrt_nonneg]
  · simp [wemb]
  · simp
  · simp

theorem wInput : PNInput wc wemb wtg ws0 := by
  refine ⟨rfl, by simp [ws0, wc], by simp [ws0, wc], by simp [ws0, wc], by simp [ws0], ?_, ?_, ?_, ?_⟩
  · simpa [ws0] using wArith
  · simp
  · intro tr tc r p h1 h2 h3 h4
    have e1 : tr = 0 := by simp [wc] at h1; omega
    have e3 : r = 0 := by simp [wc] at h3; omega
    subst e1; subst e3
    have h2' : tc < 2 := h2
    have h4' : p < 2 := h4
    have ht : tc = 0 ∨ tc = 1 := by omega
    have hp : p = 0 ∨ p = 1 := by omega
    rcases ht with rfl | rfl <;> rcases hp with rfl | rfl <;>
      simp [pnDist2, ws0, wext, wc, wemb, dist2, adiff, sqrt_def]
  · intro r p h1 h2
    have e1 : r = 0 := by simp [wc] at h1; omega
    subst e1
    have h2' : p < 2 := h2
    have hp : p = 0 ∨ p = 1 := by omega
    rcases hp with rfl | rfl <;> simp [targetTest, ws0, wc, wtg]

end XrsVerif.IL.Px.Witness
