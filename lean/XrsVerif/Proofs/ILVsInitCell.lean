import XrsVerif.Proofs.ILVsInitPos
/-
  Proofs/ILVsInitCell.lean -- one iteration of the per-cell loop of the generated `_init_event_list`:
  `cellBody_other` (a cell other than the observer's appends its ENTER, CENTER, EXIT records `evRowF` to the event list and,
  on the observer's row, writes its three elevations into `data`), `cellBody_obs` (the observer's cell: 180 into the
  visibility grid, its elevation three times into `data`, `continue`).
-/
namespace XrsVerif.ILSw
open XrsVerif XrsVerif.IL XrsVerif.ViewshedEvents
variable {F : Type} [Fl F]
set_option linter.unusedSectionVars false
set_option linter.unusedSimpArgs false
set_option linter.unusedVariables false

/-- the record of the event `ty` of cell `(i, j)`: row, col, type, bearing, the three elevations -/
def evRowF (T : Int → Int → F) (h w : Nat) (vr vc i j ty : Int) : List F :=
  [Fl.lit i 1, Fl.lit j 1, Fl.lit ty 1, bearingF i j vr vc ty, cornerElevF T h w vr vc 1 i j, T i j,
    cornerElevF T h w vr vc (-1) i j]

/-- `data[0][j] = a; data[1][j] = b; data[2][j] = c` on the flat `3 × w` buffer -/
def dataSet (d : List F) (w j : Nat) (a b c : F) : List F := ((d.set j a).set (w + j) b).set (2 * w + j) c

/-- what the per-cell code relies on -/
structure CellInv (s : State F) (T : Int → Int → F) (h w n vr vc i : Nat) : Prop where
  ctl : s.ctl = .run
  shInr : s.shp "inrast" = [3, w]
  shE : s.shp "e" = [7]
  lenE : (s.fa "e").length = 7
  shEL : s.shp "event_list" = [n, 7]
  lenEL : (s.fa "event_list").length = n * 7
  shD : s.shp "data" = [3, w]
  lenD : (s.fa "data").length = 3 * w
  shV : s.shp "visibility_grid" = [h, w]
  lenV : (s.fa "visibility_grid").length = h * w
  ring : Ring (s.fa "inrast") T h w i
  vi : s.ienv "i" = i
  nr : s.ienv "n_rows" = h
  nc : s.ienv "n_cols" = w
  vpr : s.ienv "vp_row" = vr
  vpc : s.ienv "vp_col" = vc
  shR : s.shp "raster" = [h, w]

theorem dataWrite_exec (f0 f1 f2 : Nat) (hf : f0 < 7 ∧ f1 < 7 ∧ f2 < 7) (s : State F) (fuel : Nat) (w i j : Nat) (vr : Int)
    (hs : s.ctl = .run) (hshD : s.shp "data" = [3, w]) (hshE : s.shp "e" = [7])
    (hi : s.ienv "i" = i) (hvr : s.ienv "vp_row" = vr) (hj : s.ienv "j" = j) (hjw : j < w) :
    exec fuel (dataWrite f0 f1 f2) s = { s with fa := (setS s.fa "data"
      (if (i : Int) = vr then dataSet (s.fa "data") w j ((s.fa "e").getD f0 Fl.nan) ((s.fa "e").getD f1 Fl.nan) ((s.fa "e").getD f2 Fl.nan)
       else s.fa "data")) } := by
  obtain ⟨ie, fe, be, ia, fa, shp, ext, ctl⟩ := s
  simp only at hs hshD hshE hi hvr hj; subst hs
  have r0 : inRange (0 : Int) 3 = true := by decide
  have r1 : inRange (1 : Int) 3 = true := by decide
  have r2 : inRange (2 : Int) 3 = true := by decide
  have rj : inRange (j : Int) w = true := inRange_of_lt j w hjw
  have q0 : inRange (f0 : Int) 7 = true := inRange_of_lt f0 7 hf.1
  have q1 : inRange (f1 : Int) 7 = true := inRange_of_lt f1 7 hf.2.1
  have q2 : inRange (f2 : Int) 7 = true := inRange_of_lt f2 7 hf.2.2
  have o0 : off2 [3, w] (0 : Int) (j : Int) = j := by have := off2_nat 3 w 0 j; simpa using this
  have o1 : off2 [3, w] (1 : Int) (j : Int) = w + j := by have := off2_nat 3 w 1 j; simpa using this
  have o2 : off2 [3, w] (2 : Int) (j : Int) = 2 * w + j := off2_nat 3 w 2 j
  by_cases h : (i : Int) = vr
  · simp [dataWrite, exec, BE.ok, BE.eval, IE.ok, IE.eval, FE.ok, FE.eval, cmpInt, hi, hvr, hj, h, hshD, hshE, r0, r1, r2, rj,
      q0, q1, q2, off1_nat, o0, o1, o2, setS_apply, setS_setS, dataSet]
  · simp [dataWrite, exec, BE.ok, BE.eval, IE.ok, IE.eval, cmpInt, hi, hvr, h, setS_self']


theorem dataSet_dataSet (d : List F) (w j : Nat) (hw : j < w) (a b c a' b' c' : F) :
    dataSet (dataSet d w j a b c) w j a' b' c' = dataSet d w j a' b' c' := by
  unfold dataSet
  apply List.ext_getElem?
  intro k
  simp only [List.getElem?_set, List.length_set]
  by_cases h1 : 2 * w + j = k
  · subst h1; simp
  · by_cases h2 : w + j = k
    · subst h2
      have e2 : ¬ (j = w + j) := by omega
      simp [h1, e2]
    · by_cases h3 : j = k
      · subst h3; simp [h1, h2]
      · simp [h1, h2, h3]

@[simp] theorem length_dataSet (d : List F) (w j : Nat) (a b c : F) : (dataSet d w j a b c).length = d.length := by
  simp [dataSet]

theorem countUp_exec (s : State F) (fuel : Nat) : exec fuel countUp s = { s with ienv := setS s.ienv "count_event" (s.ienv "count_event" + 1) } := by
  simp [countUp, exec, IE.ok, IE.eval, IOp.eval]

/-- the statements of `cellBody` before the `continue` test -/
theorem cellBody_unfold : cellBody =
    (.seq (.setI "e_row" (.var "i")) (.seq (.setI "e_col" (.var "j")) (.seq (.stF1 "e" (.lit 0) (.ofInt (.var "i")))
    (.seq (.stF1 "e" (.lit 1) (.ofInt (.var "j"))) (.seq (.stF1 "e" (.lit 5) (.ld2 "inrast" (.lit 1) (.var "j")))
    (.seq (dataWrite 5 5 5) (.seq obsSkip cellEvents3))))))) := rfl

/-- the first five statements: the event record gets row, column and centre elevation -/
theorem cellPrelude_exec (ie : String → Int) (fe : String → F) (be : String → Bool) (ia : String → List Int) (fa : String → List F)
    (shp : String → List Nat) (ext : String → F → F → F → F → Int → F) (fuel : Nat) (rest : St)
    (T : Int → Int → F) (h w i j : Nat) (e0 e1 e2 e3 e4 e5 e6 : F)
    (hshInr : shp "inrast" = [3, w]) (hshE : shp "e" = [7]) (hE : fa "e" = [e0, e1, e2, e3, e4, e5, e6])
    (hring : Ring (fa "inrast") T h w i) (hi : ie "i" = i) (hj : ie "j" = j) (hih : i < h) (hjw : j < w) :
    exec fuel (.seq (.setI "e_row" (.var "i")) (.seq (.setI "e_col" (.var "j")) (.seq (.stF1 "e" (.lit 0) (.ofInt (.var "i")))
      (.seq (.stF1 "e" (.lit 1) (.ofInt (.var "j"))) (.seq (.stF1 "e" (.lit 5) (.ld2 "inrast" (.lit 1) (.var "j"))) rest)))))
      ⟨ie, fe, be, ia, fa, shp, ext, .run⟩ =
    exec fuel rest ⟨setS (setS ie "e_row" i) "e_col" j, fe, be, ia,
      setS fa "e" [Fl.lit i 1, Fl.lit j 1, e2, e3, e4, T i j, e6], shp, ext, .run⟩ := by
  have r11 := hring 1 j (by omega) (by omega) (by omega) (by omega) (by omega) (by omega)
  simp [rdI] at r11
  have rj : inRange (j : Int) w = true := inRange_of_lt j w hjw
  have r1 : inRange (1 : Int) 3 = true := by decide
  have o1 : off2 [3, w] (1 : Int) (j : Int) = 1 * w + j := off2_nat 3 w 1 j
  have hjn : ¬ ((j : Int) < 0) := by omega
  have hjw' : (j : Int) < w := by omega
  simp [exec, IE.ok, IE.eval, FE.ok, FE.eval, hshE, hshInr, inRange, normIdx, off1, off2, hE, setS_apply, hi, hj, r11, setS_setS,
    hjn, hjw']

theorem obsSkip_no (s : State F) (fuel : Nat) (i j vr vc : Int) (hs : s.ctl = .run) (hi : s.ienv "i" = i) (hj : s.ienv "j" = j)
    (hvr : s.ienv "vp_row" = vr) (hvc : s.ienv "vp_col" = vc) (hne : ¬ (i = vr ∧ j = vc)) : exec fuel obsSkip s = s := by
  simp [obsSkip, exec, BE.ok, BE.eval, IE.ok, IE.eval, cmpInt, hi, hj, hvr, hvc, hne]

theorem EvStep.trans {a b c : State F} (h1 : EvStep a b) (h2 : EvStep b c) : EvStep a c :=
  ⟨h2.ctl, h2.ia.trans h1.ia, h2.shp.trans h1.shp, h2.ext.trans h1.ext, fun v hv => (h2.live v hv).trans (h1.live v hv)⟩

theorem elevCall_post {p q : String} {ty idx : Int} {k : Nat} (spec : ElevCallSpec F p q ty idx k) (hL : LitOK F)
    {rest : St} {s : State F} {fuel : Nat} {Q : State F → Prop} (T : Int → Int → F) (h w : Nat) (i j vr vc : Int)
    (hs : s.ctl = .run) (hshp : s.shp "inrast" = [3, w]) (hshe : s.shp "e" = [7]) (hlen : (s.fa "e").length = 7)
    (hring : Ring (s.fa "inrast") T h w i) (hi : 0 ≤ i ∧ i < h) (hj : 0 ≤ j ∧ j < w)
    (h2 : s.ienv "e_row" = i) (h3 : s.ienv "e_col" = j) (h4 : s.ienv "n_rows" = h) (h5 : s.ienv "n_cols" = w)
    (h6 : s.ienv "vp_row" = vr) (h7 : s.ienv "vp_col" = vc)
    (kont : ∀ s' : State F, EvStep s s' →
      s'.fa = setS s.fa "e" (((s.fa "e").set 2 (Fl.lit ty 1)).set k (cornerElevF T h w vr vc ty i j)) → Post fuel rest s' Q) :
    Post fuel (elevCall p q ty idx rest) s Q := by
  obtain ⟨s', e, st, hfa⟩ := spec hL rest s fuel hs T h w i j vr vc hshp hshe hlen hring hi hj h2 h3 h4 h5 h6 h7
  unfold Post; rw [e]; exact kont s' st hfa

theorem posAng_post {p a : String} {ty : Int} (spec : PosAngSpec F p a ty) (hL : LitOK F) (hH : HalfOK F)
    {rest : St} {s : State F} {fuel : Nat} {Q : State F → Prop} (i j vr vc : Int)
    (hs : s.ctl = .run) (hshe : s.shp "e" = [7]) (hlen : (s.fa "e").length = 7)
    (h2 : s.ienv "e_row" = i) (h3 : s.ienv "e_col" = j) (h6 : s.ienv "vp_row" = vr) (h7 : s.ienv "vp_col" = vc)
    (kont : ∀ s' : State F, EvStep s s' →
      s'.fa = setS s.fa "e" (((s.fa "e").set 2 (Fl.lit ty 1)).set 3 (bearingF i j vr vc ty)) → Post fuel rest s' Q) :
    Post fuel (posAng p a ty rest) s Q := by
  obtain ⟨s', e, st, hfa⟩ := spec hL hH rest s fuel hs i j vr vc hshe hlen h2 h3 h6 h7
  unfold Post; rw [e]; exact kont s' st hfa

theorem appendE_post (cp : String) (hcp : ∀ v ∈ liveVars, v ≠ cp ++ "r" ∧ v ≠ cp ++ "k")
    {rest : St} {s : State F} {fuel : Nat} {Q : State F → Prop} (n c : Nat)
    (hs : s.ctl = .run) (hshp : s.shp "event_list" = [n, 7]) (hlen : (s.fa "event_list").length = n * 7)
    (hshe : s.shp "e" = [7]) (hc : s.ienv "count_event" = c) (hcn : c < n)
    (kont : ∀ s' : State F, EvStep s s' → s'.fenv = s.fenv →
      s'.fa = setS s.fa "event_list" (setRow (s.fa "event_list") 7 c (fun k => (s.fa "e").getD k Fl.nan)) → Post fuel rest s' Q) :
    Post fuel (appendE cp rest) s Q := by
  obtain ⟨s', e, st, hfe, hfa⟩ := appendE_exec cp hcp rest s fuel n c hs hshp hlen hshe hc hcn
  unfold Post; rw [e]; exact kont s' st hfe hfa

/-- the values of the live integer variables -/
structure LiveVals (s : State F) (i j h w vr vc c : Int) : Prop where
  vi : s.ienv "i" = i
  vj : s.ienv "j" = j
  er : s.ienv "e_row" = i
  ec : s.ienv "e_col" = j
  nr : s.ienv "n_rows" = h
  nc : s.ienv "n_cols" = w
  vpr : s.ienv "vp_row" = vr
  vpc : s.ienv "vp_col" = vc
  cnt : s.ienv "count_event" = c

theorem LiveVals.step {a b : State F} {i j h w vr vc c : Int} (v : LiveVals a i j h w vr vc c) (k : EvStep a b) :
    LiveVals b i j h w vr vc c :=
  ⟨(k.live _ (by simp [liveVars])).trans v.vi, (k.live _ (by simp [liveVars])).trans v.vj,
   (k.live _ (by simp [liveVars])).trans v.er, (k.live _ (by simp [liveVars])).trans v.ec,
   (k.live _ (by simp [liveVars])).trans v.nr, (k.live _ (by simp [liveVars])).trans v.nc,
   (k.live _ (by simp [liveVars])).trans v.vpr, (k.live _ (by simp [liveVars])).trans v.vpc,
   (k.live _ (by simp [liveVars])).trans v.cnt⟩

theorem LiveVals.fa {a : State F} {i j h w vr vc c : Int} (v : LiveVals a i j h w vr vc c) (f : String → List F) :
    LiveVals { a with fa := f } i j h w vr vc c := ⟨v.vi, v.vj, v.er, v.ec, v.nr, v.nc, v.vpr, v.vpc, v.cnt⟩

theorem LiveVals.count {a : State F} {i j h w vr vc c : Int} (v : LiveVals a i j h w vr vc c) :
    LiveVals { a with ienv := setS a.ienv "count_event" (a.ienv "count_event" + 1) } i j h w vr vc (c + 1) := by
  refine ⟨?_, ?_, ?_, ?_, ?_, ?_, ?_, ?_, ?_⟩ <;> simp [setS_apply, v.vi, v.vj, v.er, v.ec, v.nr, v.nc, v.vpr, v.vpc, v.cnt]

theorem live_cp (cp : String) (h : cp = "rowcp6$" ∨ cp = "rowcp7$" ∨ cp = "rowcp8$") :
    ∀ v ∈ liveVars, v ≠ cp ++ "r" ∧ v ≠ cp ++ "k" := by
  rcases h with rfl | rfl | rfl <;> decide

/-- what one non-observer cell leaves behind -/
def CellPost (s : State F) (T : Int → Int → F) (h w n vr vc i j c : Nat) (r : State F) : Prop :=
  CellInv r T h w n vr vc i ∧ r.fa "raster" = s.fa "raster" ∧ r.fa "inrast" = s.fa "inrast" ∧
    r.fa "visibility_grid" = s.fa "visibility_grid" ∧ r.ienv "count_event" = (c + 3 : Nat) ∧
    r.fa "event_list" = setRow (setRow (setRow (s.fa "event_list") 7 c (fun k => (evRowF T h w vr vc i j 1).getD k Fl.nan))
        7 (c + 1) (fun k => (evRowF T h w vr vc i j 0).getD k Fl.nan)) 7 (c + 2) (fun k => (evRowF T h w vr vc i j (-1)).getD k Fl.nan) ∧
    r.fa "data" = (if i = vr then dataSet (s.fa "data") w j (cornerElevF T h w vr vc 1 i j) (T i j) (cornerElevF T h w vr vc (-1) i j)
      else s.fa "data")

theorem cellBody_other (hL : LitOK F) (hH : HalfOK F) (s : State F) (fuel : Nat) (T : Int → Int → F) (h w n vr vc i j c : Nat)
    (inv : CellInv s T h w n vr vc i) (hj : s.ienv "j" = j) (hjw : j < w) (hih : i < h)
    (hc : s.ienv "count_event" = c) (hcn : c + 3 ≤ n) (hne : ¬ (i = vr ∧ j = vc)) :
    Post fuel cellBody s (CellPost s T h w n vr vc i j c) := by
  obtain ⟨hctl, shInr, shE, lenE, shEL, lenEL, shD, lenD, shV, lenV, ring, vi, nr, nc, vpr, vpc, shR⟩ := inv
  obtain ⟨ie, fe, be, ia, fa, shp, ext, ctl⟩ := s
  simp only at hctl shInr shE lenE shEL lenEL shD lenD shV lenV ring vi nr nc vpr vpc shR hj hc; subst hctl
  obtain ⟨e0, e1, e2, e3, e4, e5, e6, hE⟩ := list7 _ lenE
  have hne' : ¬ ((i : Int) = vr ∧ (j : Int) = vc) := by omega
  rw [cellBody_unfold]
  refine Post.rw (cellPrelude_exec ie fe be ia fa shp ext fuel _ T h w i j e0 e1 e2 e3 e4 e5 e6 shInr shE hE ring vi hj hih hjw) ?_
  -- the first write of the observer-row buffer
  have hd := dataWrite_exec (F := F) 5 5 5 (by omega) ⟨setS (setS ie "e_row" i) "e_col" j, fe, be, ia,
      setS fa "e" [Fl.lit i 1, Fl.lit j 1, e2, e3, e4, T i j, e6], shp, ext, .run⟩ fuel w i j vr rfl shD shE
      (by simp [setS_apply, vi]) (by simp [setS_apply, vpr]) (by simp [setS_apply, hj]) hjw
  simp [setS_apply] at hd
  refine Post.seq_eq _ hd rfl ?_
  refine Post.seq_eq _ (obsSkip_no _ fuel i j vr vc rfl (by simp [setS_apply, vi]) (by simp [setS_apply, hj])
    (by simp [setS_apply, vpr]) (by simp [setS_apply, vpc]) hne') rfl ?_
  -- ENTER corner elevation
  refine elevCall_post elevCall2 hL T h w i j vr vc rfl (by simpa using shInr) (by simpa using shE) (by simp [setS_apply])
    (by simpa [setS_apply] using ring) (by omega) (by omega) (by simp [setS_apply]) (by simp [setS_apply])
    (by simp [setS_apply, nr]) (by simp [setS_apply, nc]) (by simp [setS_apply, vpr]) (by simp [setS_apply, vpc]) ?_
  intro s2 k2 f2
  simp [setS_apply, hE] at f2
  have v1 : LiveVals (⟨setS (setS ie "e_row" i) "e_col" j, fe, be, ia,
      setS (setS fa "e" [Fl.lit i 1, Fl.lit j 1, e2, e3, e4, T i j, e6]) "data"
        (if i = vr then dataSet (fa "data") w j (T i j) (T i j) (T i j) else fa "data"), shp, ext, .run⟩ : State F) i j h w vr vc c :=
    ⟨by simp [setS_apply, vi], by simp [setS_apply, hj], by simp [setS_apply], by simp [setS_apply], by simp [setS_apply, nr],
     by simp [setS_apply, nc], by simp [setS_apply, vpr], by simp [setS_apply, vpc], by simp [setS_apply, hc]⟩
  have v2 := v1.step k2
  have sh2 := k2.shp
  simp only at sh2
  -- EXIT corner elevation
  refine elevCall_post elevCall4 hL T h w i j vr vc k2.ctl (by rw [sh2]; exact shInr) (by rw [sh2]; exact shE)
    (by rw [f2]; simp [setS_apply]) (by rw [f2]; simpa [setS_apply] using ring) (by omega) (by omega)
    v2.er v2.ec v2.nr v2.nc v2.vpr v2.vpc ?_
  intro s3 k3 f3
  rw [f2] at f3
  simp [setS_apply, setS_setS] at f3
  have v3 := v2.step k3
  have sh3 : s3.shp = shp := k3.shp.trans sh2
  -- the second write of the observer-row buffer
  have hd2 := dataWrite_exec (F := F) 4 5 6 (by omega) s3 fuel w i j vr k3.ctl (by rw [sh3]; exact shD) (by rw [sh3]; exact shE)
    v3.vi v3.vpr v3.vj hjw
  rw [f3] at hd2
  simp [setS_apply] at hd2
  refine Post.seq_eq _ hd2 k3.ctl ?_
  -- ENTER event
  refine posAng_post posAng6 hL hH i j vr vc k3.ctl (by simp only []; rw [sh3]; exact shE) (by simp [setS_apply])
    v3.er v3.ec v3.vpr v3.vpc ?_
  intro s4 k4 f4
  simp [setS_apply, setS_setS] at f4
  have v4 := (v3.fa _).step k4
  have sh4 : s4.shp = shp := k4.shp.trans sh3
  refine appendE_post "rowcp6$" (live_cp _ (by simp)) n c k4.ctl (by rw [sh4]; exact shEL) (by rw [f4]; simpa [setS_apply] using lenEL)
    (by rw [sh4]; exact shE) v4.cnt (by omega) ?_
  intro s5 k5 _ f5
  rw [f4] at f5
  simp [setS_apply] at f5
  have v5 := v4.step k5
  have sh5 : s5.shp = shp := k5.shp.trans sh4
  refine Post.seq_eq _ (countUp_exec s5 fuel) k5.ctl ?_
  have v5' := v5.count
  -- CENTER event
  refine posAng_post posAng8 hL hH i j vr vc k5.ctl (by simp only []; rw [sh5]; exact shE) (by simp only []; rw [f5]; simp [setS_apply])
    v5'.er v5'.ec v5'.vpr v5'.vpc ?_
  intro s6 k6 f6
  simp only [] at f6
  rw [f5] at f6
  simp [setS_apply, setS_setS] at f6
  have v6 := v5'.step k6
  have sh6 : s6.shp = shp := k6.shp.trans sh5
  refine appendE_post "rowcp7$" (live_cp _ (by simp)) n (c + 1) k6.ctl (by rw [sh6]; exact shEL)
    (by rw [f6]; simpa [setS_apply] using lenEL) (by rw [sh6]; exact shE) (by rw [v6.cnt]; push_cast; rfl) (by omega) ?_
  intro s7 k7 _ f7
  rw [f6] at f7
  simp [setS_apply] at f7
  have v7 := v6.step k7
  have sh7 : s7.shp = shp := k7.shp.trans sh6
  refine Post.seq_eq _ (countUp_exec s7 fuel) k7.ctl ?_
  have v7' := v7.count
  -- EXIT event
  refine posAng_post posAng10 hL hH i j vr vc k7.ctl (by simp only []; rw [sh7]; exact shE) (by simp only []; rw [f7]; simp [setS_apply])
    v7'.er v7'.ec v7'.vpr v7'.vpc ?_
  intro s8 k8 f8
  simp only [] at f8
  rw [f7] at f8
  simp [setS_apply, setS_setS] at f8
  have v8 := v7'.step k8
  have sh8 : s8.shp = shp := k8.shp.trans sh7
  refine appendE_post "rowcp8$" (live_cp _ (by simp)) n (c + 2) k8.ctl (by rw [sh8]; exact shEL)
    (by rw [f8]; simpa [setS_apply] using lenEL) (by rw [sh8]; exact shE) (by rw [v8.cnt]; push_cast; ring) (by omega) ?_
  intro s9 k9 _ f9
  rw [f8] at f9
  simp [setS_apply] at f9
  have v9 := v8.step k9
  have sh9 : s9.shp = shp := k9.shp.trans sh8
  refine Post.of_eq _ (countUp_exec s9 fuel) ?_
  have v9' := v9.count
  refine ⟨⟨k9.ctl, by simp only []; rw [sh9]; exact shInr, by simp only []; rw [sh9]; exact shE, ?_, by simp only []; rw [sh9]; exact shEL, ?_,
    by simp only []; rw [sh9]; exact shD, ?_, by simp only []; rw [sh9]; exact shV, ?_, ?_, v9'.vi, v9'.nr, v9'.nc, v9'.vpr, v9'.vpc, by simp only []; rw [sh9]; exact shR⟩,
    ?_, ?_, ?_, ?_, ?_, ?_⟩
  · simp only []; rw [f9]; simp [setS_apply]
  · simp only []; rw [f9]; simp [setS_apply, lenEL]
  · simp only []; rw [f9]; simp only [setS_apply]; simp; split <;> simp [lenD]
  · simp only []; rw [f9]; simp [setS_apply, lenV]
  · simp only []; rw [f9]; simpa [setS_apply] using ring
  · simp only []; rw [f9]; simp [setS_apply]
  · simp only []; rw [f9]; simp [setS_apply]
  · simp only []; rw [f9]; simp [setS_apply]
  · rw [v9'.cnt]; push_cast; ring
  · simp only []; rw [f9]; simp [setS_apply, evRowF]
  · simp only []; rw [f9]; simp only [setS_apply]; simp
    by_cases hiv : i = vr
    · simp [hiv, dataSet_dataSet _ _ _ hjw]
    · simp [hiv]

/-- what the observer's own cell leaves behind (the loop body ends with `continue`) -/
def ObsPost (s : State F) (T : Int → Int → F) (h w n vr vc c : Nat) (r : State F) : Prop :=
  r.ctl = .cont ∧ CellInv { r with ctl := .run } T h w n vr vc vr ∧ r.fa "raster" = s.fa "raster" ∧ r.fa "inrast" = s.fa "inrast" ∧
    r.fa "event_list" = s.fa "event_list" ∧ r.ienv "count_event" = c ∧
    r.fa "visibility_grid" = (s.fa "visibility_grid").set (vr * w + vc) (Fl.lit 180 1) ∧
    r.fa "data" = dataSet (s.fa "data") w vc (T vr vc) (T vr vc) (T vr vc)

theorem cellBody_obs (s : State F) (fuel : Nat) (T : Int → Int → F) (h w n vr vc c : Nat)
    (inv : CellInv s T h w n vr vc vr) (hj : s.ienv "j" = vc) (hjw : vc < w) (hih : vr < h)
    (hc : s.ienv "count_event" = c) :
    Post fuel cellBody s (ObsPost s T h w n vr vc c) := by
  obtain ⟨hctl, shInr, shE, lenE, shEL, lenEL, shD, lenD, shV, lenV, ring, vi, nr, nc, vpr, vpc, shR⟩ := inv
  obtain ⟨ie, fe, be, ia, fa, shp, ext, ctl⟩ := s
  simp only at hctl shInr shE lenE shEL lenEL shD lenD shV lenV ring vi nr nc vpr vpc shR hj hc; subst hctl
  obtain ⟨e0, e1, e2, e3, e4, e5, e6, hE⟩ := list7 _ lenE
  rw [cellBody_unfold]
  refine Post.rw (cellPrelude_exec ie fe be ia fa shp ext fuel _ T h w vr vc e0 e1 e2 e3 e4 e5 e6 shInr shE hE ring vi hj hih hjw) ?_
  have hd := dataWrite_exec (F := F) 5 5 5 (by omega) ⟨setS (setS ie "e_row" vr) "e_col" vc, fe, be, ia,
      setS fa "e" [Fl.lit vr 1, Fl.lit vc 1, e2, e3, e4, T vr vc, e6], shp, ext, .run⟩ fuel w vr vc vr rfl shD shE
      (by simp [setS_apply, vi]) (by simp [setS_apply, vpr]) (by simp [setS_apply, hj]) hjw
  simp [setS_apply] at hd
  refine Post.seq_eq _ hd rfl ?_
  have r1 : inRange (vr : Int) h = true := inRange_of_lt vr h hih
  have r2 : inRange (vc : Int) w = true := inRange_of_lt vc w hjw
  have o : off2 [h, w] (vr : Int) (vc : Int) = vr * w + vc := off2_nat h w vr vc
  unfold Post
  simp [obsSkip, exec, BE.ok, BE.eval, IE.ok, IE.eval, FE.ok, FE.eval, cmpInt, setS_apply, vi, hj, vpr, vpc, shV, r1, r2, o]
  refine ⟨?_, ⟨rfl, shInr, shE, ?_, shEL, ?_, shD, ?_, shV, ?_, ?_, ?_, ?_, ?_, ?_, ?_, shR⟩, ?_, ?_, ?_, ?_, ?_, ?_⟩ <;>
    simp [ObsPost, setS_apply, lenEL, lenD, lenV, vi, nr, nc, vpr, vpc, hc]
  exact ring
end XrsVerif.ILSw
