import XrsVerif.Proofs.ILVsAngle
import XrsVerif.Proofs.ViewshedOutput
/-
  Proofs/ILVsVang.lean -- the generated `_get_vertical_ang` (template `vangBody p`, layer T3) computes `vangF`, which is
  the value of the KLang translation of the same function (`Gen.viewshed_vertical_ang`, layer T1) -- the model
  `Viewshed.vertAng` the output theorems of Props/C05.lean (`vertical_angle_range`) are about.
-/
namespace XrsVerif.ILSw
open XrsVerif XrsVerif.IL
variable {F : Type} [Fl F]
set_option linter.unusedSectionVars false
set_option linter.unusedSimpArgs false
set_option linter.unusedVariables false

/-- **`_get_vertical_ang(viewpoint_elev, distance_to_viewpoint, elev)` on numbers** (once its assertion has passed) -/
def vangF (ve d e : F) : F :=
  if Fl.eq (Fl.sub ve e) (Fl.lit 0 1) = true then Fl.lit 90 1
  else if Fl.lt (Fl.lit 0 1) (Fl.sub ve e) = true then
    Fl.div (Fl.mul (Fl.atan (Fl.div (Fl.sqrt d) (Fl.sub ve e))) (Fl.lit 180 1)) piF
  else Fl.add (Fl.div (Fl.mul (Fl.atan (Fl.div (Fl.abs (Fl.sub ve e)) (Fl.sqrt d))) (Fl.lit 180 1)) piF) (Fl.lit 90 1)

/-- the numeric environment after `_get_vertical_ang` -/
def vangEnv (p : String) (s : State F) : String → F :=
  setS (setS s.fenv (p ++ "diff_elev") (Fl.sub (s.fenv (p ++ "viewpoint_elev")) (s.fenv (p ++ "elev"))))
    (p ++ "ret0") (vangF (s.fenv (p ++ "viewpoint_elev")) (s.fenv (p ++ "distance_to_viewpoint")) (s.fenv (p ++ "elev")))

/-- the template: with `abs(distance_to_viewpoint) > 0` the function returns `vangF`; otherwise its assertion stops it -/
theorem vangBody_exec (p : String) (s : State F) (fuel : Nat) (hs : s.ctl = .run) :
    (Fl.lt (Fl.lit 0 1) (Fl.abs (s.fenv (p ++ "distance_to_viewpoint"))) = true →
      exec fuel (vangBody p) s = { s with fenv := vangEnv p s, ctl := .ret }) ∧
    (Fl.lt (Fl.lit 0 1) (Fl.abs (s.fenv (p ++ "distance_to_viewpoint"))) = false →
      (exec fuel (vangBody p) s).ctl = .err "AssertionError") := by
  obtain ⟨ie, fe, be, ia, fa, shp, ext, ctl⟩ := s
  simp only at hs; subst hs
  constructor
  · intro hd
    simp only at hd
    cases h1 : Fl.eq (Fl.sub (fe (p ++ "viewpoint_elev")) (fe (p ++ "elev"))) (Fl.lit 0 1) <;>
    cases h2 : Fl.lt (Fl.lit 0 1) (Fl.sub (fe (p ++ "viewpoint_elev")) (fe (p ++ "elev"))) <;>
    simp [vangBody, exec, BE.ok, BE.eval, FE.ok, FE.eval, IE.ok, IE.eval, CmpOp.eval, BinOp.eval, UnOp.eval, setS_apply, piF,
      vangEnv, vangF, hd, h1, h2]
  · intro hd
    simp only at hd
    simp [vangBody, exec, BE.ok, BE.eval, FE.ok, FE.eval, IE.ok, IE.eval, CmpOp.eval, BinOp.eval, UnOp.eval, setS_apply, hd,
      State.error]

/-- **the generated `_get_vertical_ang` computes `vangF`** -/
theorem vsVerticalAng_refines (s : State F) (fuel : Nat) (hs : s.ctl = .run) :
    let r := Gen.IL.vsVerticalAng.run s fuel
    (Fl.lt (Fl.lit 0 1) (Fl.abs (s.fenv "distance_to_viewpoint")) = true →
      r.ctl = .ret ∧ r.fenv "ret0" = vangF (s.fenv "viewpoint_elev") (s.fenv "distance_to_viewpoint") (s.fenv "elev") ∧
        r.fa = s.fa ∧ r.ia = s.ia ∧ r.ienv = s.ienv) ∧
    (Fl.lt (Fl.lit 0 1) (Fl.abs (s.fenv "distance_to_viewpoint")) = false → r.ctl = .err "AssertionError") := by
  simp only [Prog.run, vsVerticalAng_is_template]
  obtain ⟨h1, h2⟩ := vangBody_exec "" s fuel hs
  refine ⟨fun hd => ?_, fun hd => h2 (by simpa using hd)⟩
  rw [h1 (by simpa using hd)]
  simp [vangEnv, setS_apply]

/-- the two translations of `_get_vertical_ang` agree: `vangF` (ILang, T3) is the cell value of the KLang kernel (T1) -/
theorem vangF_eq_kernel (ve d e : F) (hd : Fl.lt (Fl.lit 0 1) (Fl.abs d) = true) :
    vangF ve d e = Gen.viewshed_vertical_ang.cell
      (envOf [("viewpoint_elev", ve), ("distance_to_viewpoint", d), ("elev", e)]) (rd0 []) (fun _ => []) := by
  unfold vangF
  cases h1 : Fl.eq (Fl.sub ve e) (Fl.lit 0 1) <;> cases h2 : Fl.lt (Fl.lit 0 1) (Fl.sub ve e) <;>
  ksimp [Gen.viewshed_vertical_ang, hd, h1, h2, piF, setVar]

section NV
variable {K : Type} [Field K] [LinearOrder K] [IsStrictOrderedRing K] [Trig K]

/-- at the proof-side number domain: **the generated program's value is the model's `vertAng`** -/
theorem vangF_eq_vertAng (ve d2 e : K) (hd : 0 < d2) :
    vangF (some ve : NV K) (some d2) (some e) = Viewshed.vertAng ve d2 e := by
  rw [vangF_eq_kernel]
  · rfl
  · simp [abs_pos.mpr (ne_of_gt hd)]

end NV

end XrsVerif.ILSw
