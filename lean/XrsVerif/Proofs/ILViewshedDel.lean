import XrsVerif.Proofs.ILViewshedSucc
import XrsVerif.Proofs.ILViewshedArr
/-
  Proofs/ILViewshedDel.lean -- `Gen.IL.vsDelete` (`_delete_from_tree` with `_search_for_node`, `_compare`,
  `_tree_successor`, `_tree_minimum`, `_find_value_min_value`, `_rb_delete_fixup` and the rotations inlined): the
  *descent* only.

  * `vsDelete_absent`          the key is not in the tree: the program stops with `ValueError` (the model's
                               `delCore = none`);
  * `vsDelete_descent_refines` the key is in the tree: after the search and the choice of the node to splice out the
                               program continues (`delRest`) with `z` = the node found and `y` = `z` itself when it
                               has a NIL child, else the leftmost node of its right subtree (the in-order successor --
                               the node the model's `delMin` splices out).
  NOT covered (`delRest`): the splice, the loops L1 / L2 with the recomputations F1 / C of the stored maxima (the
  hand model's `del` / `ancestor`), the colour fixup.
-/
set_option linter.unusedSectionVars false
set_option linter.unusedVariables false
set_option linter.unusedSimpArgs false
namespace XrsVerif.ILVs
open XrsVerif XrsVerif.IL XrsVerif.Viewshed
variable {F : Type} [Fl F]

def delSearchNames : SearchNames :=
  ⟨"_search_for_node1$cur_node", "_search_for_node1$key", "_search_for_node1$_compare2$a", "_search_for_node1$_compare2$b",
   "_search_for_node1$_compare2$ret0", "_search_for_node1$_compare3$a", "_search_for_node1$_compare3$b", "_search_for_node1$_compare3$ret0"⟩

def delSearchItems : List St :=
  [(.setI "_search_for_node1$root" (.var "root")),
   (.setF "_search_for_node1$key" (.var "key")),
   (.scope (.seq (.setI "_search_for_node1$cur_node" (.var "_search_for_node1$root")) (.seq (searchLoop delSearchNames) (.seq (.setI "_search_for_node1$ret0" (.var "_search_for_node1$cur_node")) .ret)))),
   (.setI "z" (.var "_search_for_node1$ret0")),
   (.ite (.cmpI .eq (.var "z") (.lit (-1))) (.fail "ValueError") .skip)]

def delChoose : St :=
  (.ite (.or (.cmpI .eq (.ld2 "tree_nodes" (.var "z") (.lit 1)) (.lit (-1))) (.cmpI .eq (.ld2 "tree_nodes" (.var "z") (.lit 2)) (.lit (-1))))
    (.setI "y" (.var "z"))
    (.seq (.setI "_tree_successor4$x" (.var "z"))
    (.seq (.scope (.seq (.ite (.cmpI .ne (.ld2 "tree_nodes" (.var "_tree_successor4$x") (.lit 2)) (.lit (-1)))
            (.seq (.setI "_tree_successor4$_tree_minimum5$x" (.ld2 "tree_nodes" (.var "_tree_successor4$x") (.lit 2)))
            (.seq (.scope (.seq (minLoop "_tree_successor4$_tree_minimum5$x")
                (.seq (.setI "_tree_successor4$_tree_minimum5$ret0" (.var "_tree_successor4$_tree_minimum5$x"))
                .ret)))
            (.seq (.setI "_tree_successor4$ret0" (.var "_tree_successor4$_tree_minimum5$ret0")) .ret)))
            .skip)
        (.seq (.setI "_tree_successor4$y" (.ld2 "tree_nodes" (.var "_tree_successor4$x") (.lit 3)))
        (.seq (.while (.and (.cmpI .ne (.var "_tree_successor4$y") (.lit (-1))) (.cmpI .eq (.var "_tree_successor4$x") (.ld2 "tree_nodes" (.var "_tree_successor4$y") (.lit 2))))
            (.seq (.setI "_tree_successor4$x" (.var "_tree_successor4$y"))
            (.seq (.ite (.cmpI .eq (.ld2 "tree_nodes" (.var "_tree_successor4$y") (.lit 3)) (.lit (-1)))
                (.seq (.setI "_tree_successor4$ret0" (.var "_tree_successor4$y")) .ret)
                .skip)
            (.setI "_tree_successor4$y" (.ld2 "tree_nodes" (.var "_tree_successor4$y") (.lit 3))))))
        (.seq (.setI "_tree_successor4$ret0" (.var "_tree_successor4$y")) .ret)))))
    (.setI "y" (.var "_tree_successor4$ret0")))))

def delRest : St :=
  (.seq (.ite (.cmpI .eq (.var "y") (.lit (-1))) (.fail "ValueError") .skip)
  (.seq (.setI "deleted" (.var "y"))
  (.seq (.ite (.cmpI .ne (.ld2 "tree_nodes" (.var "y") (.lit 1)) (.lit (-1)))
      (.setI "x" (.ld2 "tree_nodes" (.var "y") (.lit 1)))
      (.setI "x" (.ld2 "tree_nodes" (.var "y") (.lit 2))))
  (.seq (.stI2 "tree_nodes" (.var "x") (.lit 3) (.ld2 "tree_nodes" (.var "y") (.lit 3)))
  (.seq (.ite (.cmpI .eq (.ld2 "tree_nodes" (.var "y") (.lit 3)) (.lit (-1)))
      (.seq (.setI "root" (.var "x")) (.setI "to_fix" (.var "root")))
      (.seq (.setI "y_parent" (.ld2 "tree_nodes" (.var "y") (.lit 3)))
      (.seq (.ite (.cmpI .eq (.var "y") (.ld2 "tree_nodes" (.var "y_parent") (.lit 1)))
          (.stI2 "tree_nodes" (.var "y_parent") (.lit 1) (.var "x"))
          (.stI2 "tree_nodes" (.var "y_parent") (.lit 2) (.var "x")))
      (.setI "to_fix" (.var "y_parent")))))
  (.seq (.setI "cur_node" (.var "y"))
  (.seq (.while (.cmpI .ne (.ld2 "tree_nodes" (.var "cur_node") (.lit 3)) (.lit (-1)))
      (.seq (.setI "cur_parent" (.ld2 "tree_nodes" (.var "cur_node") (.lit 3)))
      (.seq (.setI "_find_value_min_value6$node_id" (.var "y"))
      (.seq (minvScope "_find_value_min_value6$node_id" "_find_value_min_value6$ret0")
      (.seq (.ite (.cmpF .eq (.ld2 "tree_vals" (.var "cur_parent") (.lit 7)) (.var "_find_value_min_value6$ret0"))
          (.seq (.setI "cur_parent_left" (.ld2 "tree_nodes" (.var "cur_parent") (.lit 1)))
          (.seq (.setI "cur_parent_right" (.ld2 "tree_nodes" (.var "cur_parent") (.lit 2)))
          (.seq (.setI "_find_max_value7$row$tree_vals" (.var "cur_parent_left"))
          (.seq (.scope (.seq (.setF "_find_max_value7$ret0" (.ld2 "tree_vals" (.var "_find_max_value7$row$tree_vals") (.lit 7)))
              .ret))
          (.seq (.setF "left" (.var "_find_max_value7$ret0"))
          (.seq (.setI "_find_max_value8$row$tree_vals" (.var "cur_parent_right"))
          (.seq (.scope (.seq (.setF "_find_max_value8$ret0" (.ld2 "tree_vals" (.var "_find_max_value8$row$tree_vals") (.lit 7)))
              .ret))
          (.seq (.setF "right" (.var "_find_max_value8$ret0"))
          (.seq (stMax "tree_vals" (.var "cur_parent") (.lit 7) (.var "left") (.var "right"))
          (.seq (.setI "_find_value_min_value9$node_id" (.var "cur_parent"))
          (.seq (minvScope "_find_value_min_value9$node_id" "_find_value_min_value9$ret0")
          (.seq (.setF "min_value" (.var "_find_value_min_value9$ret0"))
          (.ite (.cmpF .gt (.var "min_value") (.ld2 "tree_vals" (.var "cur_parent") (.lit 7)))
            (.stF2 "tree_vals" (.var "cur_parent") (.lit 7) (.var "min_value"))
            .skip)))))))))))))
          .brk)
      (.setI "cur_node" (.var "cur_parent")))))))
  (.seq (.setI "to_fix_left" (.ld2 "tree_nodes" (.var "to_fix") (.lit 1)))
  (.seq (.setI "to_fix_right" (.ld2 "tree_nodes" (.var "to_fix") (.lit 2)))
  (.seq (selMax "tmp_max" (.ld2 "tree_vals" (.var "to_fix_left") (.lit 7)) (.ld2 "tree_vals" (.var "to_fix_right") (.lit 7)))
  (.seq (.setI "_find_value_min_value10$node_id" (.var "to_fix"))
  (.seq (minvScope "_find_value_min_value10$node_id" "_find_value_min_value10$ret0")
  (.seq (.setF "min_value" (.var "_find_value_min_value10$ret0"))
  (.seq (stMax "tree_vals" (.var "to_fix") (.lit 7) (.var "tmp_max") (.var "min_value"))
  (.seq (.ite (.and (.cmpI .ne (.var "y") (.lit (-1))) (.cmpI .ne (.var "y") (.var "z")))
      (.seq (.setI "_find_value_min_value11$node_id" (.var "z"))
      (.seq (minvScope "_find_value_min_value11$node_id" "_find_value_min_value11$ret0")
      (.seq (.setF "z_gradient" (.var "_find_value_min_value11$ret0"))
      (.seq (.stF2 "tree_vals" (.var "z") (.lit 0) (.ld2 "tree_vals" (.var "y") (.lit 0)))
      (.seq (.stF2 "tree_vals" (.var "z") (.lit 1) (.ld2 "tree_vals" (.var "y") (.lit 1)))
      (.seq (.stF2 "tree_vals" (.var "z") (.lit 2) (.ld2 "tree_vals" (.var "y") (.lit 2)))
      (.seq (.stF2 "tree_vals" (.var "z") (.lit 3) (.ld2 "tree_vals" (.var "y") (.lit 3)))
      (.seq (.stF2 "tree_vals" (.var "z") (.lit 4) (.ld2 "tree_vals" (.var "y") (.lit 4)))
      (.seq (.stF2 "tree_vals" (.var "z") (.lit 5) (.ld2 "tree_vals" (.var "y") (.lit 5)))
      (.seq (.stF2 "tree_vals" (.var "z") (.lit 6) (.ld2 "tree_vals" (.var "y") (.lit 6)))
      (.seq (.setI "to_fix" (.var "z"))
      (.seq (.setI "to_fix_left" (.ld2 "tree_nodes" (.var "to_fix") (.lit 1)))
      (.seq (.setI "to_fix_right" (.ld2 "tree_nodes" (.var "to_fix") (.lit 2)))
      (.seq (selMax "tmp_max" (.ld2 "tree_vals" (.var "to_fix_left") (.lit 7)) (.ld2 "tree_vals" (.var "to_fix_right") (.lit 7)))
      (.seq (.setI "_find_value_min_value12$node_id" (.var "to_fix"))
      (.seq (minvScope "_find_value_min_value12$node_id" "_find_value_min_value12$ret0")
      (.seq (.setF "min_value" (.var "_find_value_min_value12$ret0"))
      (.seq (stMax "tree_vals" (.var "to_fix") (.lit 7) (.var "tmp_max") (.var "min_value"))
      (.while (.cmpI .ne (.ld2 "tree_nodes" (.var "z") (.lit 3)) (.lit (-1)))
        (.seq (.setI "z_parent" (.ld2 "tree_nodes" (.var "z") (.lit 3)))
        (.seq (.ite (.cmpF .eq (.ld2 "tree_vals" (.var "z_parent") (.lit 7)) (.var "z_gradient"))
            (.seq (.setI "z_parent_left" (.ld2 "tree_nodes" (.var "z_parent") (.lit 1)))
            (.seq (.setI "z_parent_right" (.ld2 "tree_nodes" (.var "z_parent") (.lit 2)))
            (.seq (.setI "x_parent" (.ld2 "tree_nodes" (.var "x") (.lit 3)))
            (.seq (.setI "x_parent_right" (.ld2 "tree_nodes" (.var "x_parent") (.lit 2)))
            (.seq (.setI "_find_value_min_value13$node_id" (.var "z_parent"))
            (.seq (minvScope "_find_value_min_value13$node_id" "_find_value_min_value13$ret0")
            (.ite (.and (.cmpF .ne (.var "_find_value_min_value13$ret0") (.var "z_gradient")) (.not (.and (.cmpF .eq (.ld2 "tree_vals" (.var "z_parent_left") (.lit 7)) (.var "z_gradient")) (.cmpF .eq (.ld2 "tree_vals" (.var "x_parent_right") (.lit 7)) (.var "z_gradient")))))
              (.seq (.setI "_find_max_value14$row$tree_vals" (.var "z_parent_left"))
              (.seq (.scope (.seq (.setF "_find_max_value14$ret0" (.ld2 "tree_vals" (.var "_find_max_value14$row$tree_vals") (.lit 7)))
                  .ret))
              (.seq (.setF "left" (.var "_find_max_value14$ret0"))
              (.seq (.setI "_find_max_value15$row$tree_vals" (.var "z_parent_right"))
              (.seq (.scope (.seq (.setF "_find_max_value15$ret0" (.ld2 "tree_vals" (.var "_find_max_value15$row$tree_vals") (.lit 7)))
                  .ret))
              (.seq (.setF "right" (.var "_find_max_value15$ret0"))
              (.seq (stMax "tree_vals" (.var "z_parent") (.lit 7) (.var "left") (.var "right"))
              (.seq (.setI "_find_value_min_value16$node_id" (.var "z_parent"))
              (.seq (minvScope "_find_value_min_value16$node_id" "_find_value_min_value16$ret0")
              (.seq (.setF "min_value" (.var "_find_value_min_value16$ret0"))
              (.ite (.cmpF .gt (.var "min_value") (.ld2 "tree_vals" (.var "z_parent") (.lit 7)))
                (.stF2 "tree_vals" (.var "z_parent") (.lit 7) (.var "min_value"))
                .skip)))))))))))
              .skip)))))))
            (.ite (.cmpF .gt (.ld2 "tree_vals" (.var "z") (.lit 7)) (.ld2 "tree_vals" (.var "z_parent") (.lit 7)))
              (.stF2 "tree_vals" (.var "z_parent") (.lit 7) (.ld2 "tree_vals" (.var "z") (.lit 7)))
              .skip))
        (.setI "z" (.var "z_parent")))))))))))))))))))))))
      .skip)
  (.seq (.ite (.and (.cmpI .eq (.ld2 "tree_nodes" (.var "y") (.lit 0)) (.lit 1)) (.cmpI .ne (.var "x") (.lit (-1))))
      (.seq (.setI "_rb_delete_fixup17$root" (.var "root"))
      (.seq (.setI "_rb_delete_fixup17$x" (.var "x"))
      (.seq (.scope (.seq (.while (.and (.cmpI .ne (.var "_rb_delete_fixup17$x") (.var "_rb_delete_fixup17$root")) (.cmpI .eq (.ld2 "tree_nodes" (.var "_rb_delete_fixup17$x") (.lit 0)) (.lit 1)))
              (.seq (.setI "_rb_delete_fixup17$x_parent" (.ld2 "tree_nodes" (.var "_rb_delete_fixup17$x") (.lit 3)))
              (.ite (.cmpI .eq (.var "_rb_delete_fixup17$x") (.ld2 "tree_nodes" (.var "_rb_delete_fixup17$x_parent") (.lit 1)))
                (.seq (.setI "_rb_delete_fixup17$w" (.ld2 "tree_nodes" (.var "_rb_delete_fixup17$x_parent") (.lit 2)))
                (.seq (.ite (.cmpI .eq (.ld2 "tree_nodes" (.var "_rb_delete_fixup17$w") (.lit 0)) (.lit 0))
                    (.seq (.stI2 "tree_nodes" (.var "_rb_delete_fixup17$w") (.lit 0) (.lit 1))
                    (.seq (.stI2 "tree_nodes" (.var "_rb_delete_fixup17$x_parent") (.lit 0) (.lit 0))
                    (.seq (.setI "_rb_delete_fixup17$_left_rotate18$root" (.var "_rb_delete_fixup17$root"))
                    (.seq (.setI "_rb_delete_fixup17$_left_rotate18$x" (.var "_rb_delete_fixup17$x_parent"))
                    (.seq (.scope (.seq (.setI "_rb_delete_fixup17$_left_rotate18$y" (.ld2 "tree_nodes" (.var "_rb_delete_fixup17$_left_rotate18$x") (.lit 2)))
                        (.seq (.setI "_rb_delete_fixup17$_left_rotate18$x_left" (.ld2 "tree_nodes" (.var "_rb_delete_fixup17$_left_rotate18$x") (.lit 1)))
                        (.seq (.setI "_rb_delete_fixup17$_left_rotate18$y_left" (.ld2 "tree_nodes" (.var "_rb_delete_fixup17$_left_rotate18$y") (.lit 1)))
                        (.seq (selMax "_rb_delete_fixup17$_left_rotate18$tmp_max" (.ld2 "tree_vals" (.var "_rb_delete_fixup17$_left_rotate18$x_left") (.lit 7)) (.ld2 "tree_vals" (.var "_rb_delete_fixup17$_left_rotate18$y_left") (.lit 7)))
                        (.seq (.setI "_rb_delete_fixup17$_left_rotate18$_find_value_min_value19$node_id" (.var "_rb_delete_fixup17$_left_rotate18$x"))
                        (.seq (minvScope "_rb_delete_fixup17$_left_rotate18$_find_value_min_value19$node_id" "_rb_delete_fixup17$_left_rotate18$_find_value_min_value19$ret0")
                        (.seq (.setF "_rb_delete_fixup17$_left_rotate18$min_value" (.var "_rb_delete_fixup17$_left_rotate18$_find_value_min_value19$ret0"))
                        (.seq (stMax "tree_vals" (.var "_rb_delete_fixup17$_left_rotate18$x") (.lit 7) (.var "_rb_delete_fixup17$_left_rotate18$tmp_max") (.var "_rb_delete_fixup17$_left_rotate18$min_value"))
                        (.seq (.setI "_rb_delete_fixup17$_left_rotate18$y_right" (.ld2 "tree_nodes" (.var "_rb_delete_fixup17$_left_rotate18$y") (.lit 2)))
                        (.seq (selMax "_rb_delete_fixup17$_left_rotate18$tmp_max" (.ld2 "tree_vals" (.var "_rb_delete_fixup17$_left_rotate18$x") (.lit 7)) (.ld2 "tree_vals" (.var "_rb_delete_fixup17$_left_rotate18$y_right") (.lit 7)))
                        (.seq (.setI "_rb_delete_fixup17$_left_rotate18$_find_value_min_value20$node_id" (.var "_rb_delete_fixup17$_left_rotate18$y"))
                        (.seq (minvScope "_rb_delete_fixup17$_left_rotate18$_find_value_min_value20$node_id" "_rb_delete_fixup17$_left_rotate18$_find_value_min_value20$ret0")
                        (.seq (.setF "_rb_delete_fixup17$_left_rotate18$min_value" (.var "_rb_delete_fixup17$_left_rotate18$_find_value_min_value20$ret0"))
                        (.seq (stMax "tree_vals" (.var "_rb_delete_fixup17$_left_rotate18$y") (.lit 7) (.var "_rb_delete_fixup17$_left_rotate18$tmp_max") (.var "_rb_delete_fixup17$_left_rotate18$min_value"))
                        (.seq (.stI2 "tree_nodes" (.var "_rb_delete_fixup17$_left_rotate18$x") (.lit 2) (.ld2 "tree_nodes" (.var "_rb_delete_fixup17$_left_rotate18$y") (.lit 1)))
                        (.seq (.setI "_rb_delete_fixup17$_left_rotate18$y_left" (.ld2 "tree_nodes" (.var "_rb_delete_fixup17$_left_rotate18$y") (.lit 1)))
                        (.seq (.stI2 "tree_nodes" (.var "_rb_delete_fixup17$_left_rotate18$y_left") (.lit 3) (.var "_rb_delete_fixup17$_left_rotate18$x"))
                        (.seq (.stI2 "tree_nodes" (.var "_rb_delete_fixup17$_left_rotate18$y") (.lit 3) (.ld2 "tree_nodes" (.var "_rb_delete_fixup17$_left_rotate18$x") (.lit 3)))
                        (.seq (.ite (.cmpI .eq (.ld2 "tree_nodes" (.var "_rb_delete_fixup17$_left_rotate18$x") (.lit 3)) (.lit (-1)))
                            (.setI "_rb_delete_fixup17$_left_rotate18$root" (.var "_rb_delete_fixup17$_left_rotate18$y"))
                            (.seq (.setI "_rb_delete_fixup17$_left_rotate18$x_parent" (.ld2 "tree_nodes" (.var "_rb_delete_fixup17$_left_rotate18$x") (.lit 3)))
                            (.ite (.cmpI .eq (.var "_rb_delete_fixup17$_left_rotate18$x") (.ld2 "tree_nodes" (.var "_rb_delete_fixup17$_left_rotate18$x_parent") (.lit 1)))
                              (.stI2 "tree_nodes" (.var "_rb_delete_fixup17$_left_rotate18$x_parent") (.lit 1) (.var "_rb_delete_fixup17$_left_rotate18$y"))
                              (.stI2 "tree_nodes" (.var "_rb_delete_fixup17$_left_rotate18$x_parent") (.lit 2) (.var "_rb_delete_fixup17$_left_rotate18$y")))))
                        (.seq (.stI2 "tree_nodes" (.var "_rb_delete_fixup17$_left_rotate18$y") (.lit 1) (.var "_rb_delete_fixup17$_left_rotate18$x"))
                        (.seq (.stI2 "tree_nodes" (.var "_rb_delete_fixup17$_left_rotate18$x") (.lit 3) (.var "_rb_delete_fixup17$_left_rotate18$y"))
                        (.seq (.setI "_rb_delete_fixup17$_left_rotate18$ret0" (.var "_rb_delete_fixup17$_left_rotate18$root"))
                        .ret)))))))))))))))))))))))
                    (.seq (.setI "_rb_delete_fixup17$root" (.var "_rb_delete_fixup17$_left_rotate18$ret0"))
                    (.setI "_rb_delete_fixup17$w" (.ld2 "tree_nodes" (.var "_rb_delete_fixup17$x_parent") (.lit 2)))))))))
                    .skip)
                (.seq (.ite (.cmpI .eq (.var "_rb_delete_fixup17$w") (.lit (-1)))
                    (.seq (.setI "_rb_delete_fixup17$x" (.ld2 "tree_nodes" (.var "_rb_delete_fixup17$x") (.lit 3)))
                    .cont)
                    .skip)
                (.seq (.setI "_rb_delete_fixup17$w_left" (.ld2 "tree_nodes" (.var "_rb_delete_fixup17$w") (.lit 1)))
                (.seq (.setI "_rb_delete_fixup17$w_right" (.ld2 "tree_nodes" (.var "_rb_delete_fixup17$w") (.lit 2)))
                (.ite (.and (.cmpI .eq (.ld2 "tree_nodes" (.var "_rb_delete_fixup17$w_left") (.lit 0)) (.lit 1)) (.cmpI .eq (.ld2 "tree_nodes" (.var "_rb_delete_fixup17$w_right") (.lit 0)) (.lit 1)))
                  (.seq (.stI2 "tree_nodes" (.var "_rb_delete_fixup17$w") (.lit 0) (.lit 0))
                  (.setI "_rb_delete_fixup17$x" (.ld2 "tree_nodes" (.var "_rb_delete_fixup17$x") (.lit 3))))
                  (.seq (.ite (.cmpI .eq (.ld2 "tree_nodes" (.var "_rb_delete_fixup17$w_right") (.lit 0)) (.lit 1))
                      (.seq (.stI2 "tree_nodes" (.var "_rb_delete_fixup17$w_left") (.lit 0) (.lit 1))
                      (.seq (.stI2 "tree_nodes" (.var "_rb_delete_fixup17$w") (.lit 0) (.lit 0))
                      (.seq (.setI "_rb_delete_fixup17$_right_rotate21$root" (.var "_rb_delete_fixup17$root"))
                      (.seq (.setI "_rb_delete_fixup17$_right_rotate21$y" (.var "_rb_delete_fixup17$w"))
                      (.seq (.scope (.seq (.setI "_rb_delete_fixup17$_right_rotate21$x" (.ld2 "tree_nodes" (.var "_rb_delete_fixup17$_right_rotate21$y") (.lit 1)))
                          (.seq (.setI "_rb_delete_fixup17$_right_rotate21$x_right" (.ld2 "tree_nodes" (.var "_rb_delete_fixup17$_right_rotate21$x") (.lit 2)))
                          (.seq (.setI "_rb_delete_fixup17$_right_rotate21$y_right" (.ld2 "tree_nodes" (.var "_rb_delete_fixup17$_right_rotate21$y") (.lit 2)))
                          (.seq (selMax "_rb_delete_fixup17$_right_rotate21$tmp_max" (.ld2 "tree_vals" (.var "_rb_delete_fixup17$_right_rotate21$x_right") (.lit 7)) (.ld2 "tree_vals" (.var "_rb_delete_fixup17$_right_rotate21$y_right") (.lit 7)))
                          (.seq (.setI "_rb_delete_fixup17$_right_rotate21$_find_value_min_value22$node_id" (.var "_rb_delete_fixup17$_right_rotate21$y"))
                          (.seq (minvScope "_rb_delete_fixup17$_right_rotate21$_find_value_min_value22$node_id" "_rb_delete_fixup17$_right_rotate21$_find_value_min_value22$ret0")
                          (.seq (.setF "_rb_delete_fixup17$_right_rotate21$min_value" (.var "_rb_delete_fixup17$_right_rotate21$_find_value_min_value22$ret0"))
                          (.seq (stMax "tree_vals" (.var "_rb_delete_fixup17$_right_rotate21$y") (.lit 7) (.var "_rb_delete_fixup17$_right_rotate21$tmp_max") (.var "_rb_delete_fixup17$_right_rotate21$min_value"))
                          (.seq (.setI "_rb_delete_fixup17$_right_rotate21$x_left" (.ld2 "tree_nodes" (.var "_rb_delete_fixup17$_right_rotate21$x") (.lit 1)))
                          (.seq (selMax "_rb_delete_fixup17$_right_rotate21$tmp_max" (.ld2 "tree_vals" (.var "_rb_delete_fixup17$_right_rotate21$x_left") (.lit 7)) (.ld2 "tree_vals" (.var "_rb_delete_fixup17$_right_rotate21$y") (.lit 7)))
                          (.seq (.setI "_rb_delete_fixup17$_right_rotate21$_find_value_min_value23$node_id" (.var "_rb_delete_fixup17$_right_rotate21$x"))
                          (.seq (minvScope "_rb_delete_fixup17$_right_rotate21$_find_value_min_value23$node_id" "_rb_delete_fixup17$_right_rotate21$_find_value_min_value23$ret0")
                          (.seq (.setF "_rb_delete_fixup17$_right_rotate21$min_value" (.var "_rb_delete_fixup17$_right_rotate21$_find_value_min_value23$ret0"))
                          (.seq (stMax "tree_vals" (.var "_rb_delete_fixup17$_right_rotate21$x") (.lit 7) (.var "_rb_delete_fixup17$_right_rotate21$tmp_max") (.var "_rb_delete_fixup17$_right_rotate21$min_value"))
                          (.seq (.stI2 "tree_nodes" (.var "_rb_delete_fixup17$_right_rotate21$y") (.lit 1) (.ld2 "tree_nodes" (.var "_rb_delete_fixup17$_right_rotate21$x") (.lit 2)))
                          (.seq (.setI "_rb_delete_fixup17$_right_rotate21$x_right" (.ld2 "tree_nodes" (.var "_rb_delete_fixup17$_right_rotate21$x") (.lit 2)))
                          (.seq (.stI2 "tree_nodes" (.var "_rb_delete_fixup17$_right_rotate21$x_right") (.lit 3) (.var "_rb_delete_fixup17$_right_rotate21$y"))
                          (.seq (.stI2 "tree_nodes" (.var "_rb_delete_fixup17$_right_rotate21$x") (.lit 3) (.ld2 "tree_nodes" (.var "_rb_delete_fixup17$_right_rotate21$y") (.lit 3)))
                          (.seq (.ite (.cmpI .eq (.ld2 "tree_nodes" (.var "_rb_delete_fixup17$_right_rotate21$y") (.lit 3)) (.lit (-1)))
                              (.setI "_rb_delete_fixup17$_right_rotate21$root" (.var "_rb_delete_fixup17$_right_rotate21$x"))
                              (.seq (.setI "_rb_delete_fixup17$_right_rotate21$y_parent" (.ld2 "tree_nodes" (.var "_rb_delete_fixup17$_right_rotate21$y") (.lit 3)))
                              (.ite (.cmpI .eq (.ld2 "tree_nodes" (.var "_rb_delete_fixup17$_right_rotate21$y_parent") (.lit 1)) (.var "_rb_delete_fixup17$_right_rotate21$y"))
                                (.stI2 "tree_nodes" (.var "_rb_delete_fixup17$_right_rotate21$y_parent") (.lit 1) (.var "_rb_delete_fixup17$_right_rotate21$x"))
                                (.stI2 "tree_nodes" (.var "_rb_delete_fixup17$_right_rotate21$y_parent") (.lit 2) (.var "_rb_delete_fixup17$_right_rotate21$x")))))
                          (.seq (.stI2 "tree_nodes" (.var "_rb_delete_fixup17$_right_rotate21$x") (.lit 2) (.var "_rb_delete_fixup17$_right_rotate21$y"))
                          (.seq (.stI2 "tree_nodes" (.var "_rb_delete_fixup17$_right_rotate21$y") (.lit 3) (.var "_rb_delete_fixup17$_right_rotate21$x"))
                          (.seq (.setI "_rb_delete_fixup17$_right_rotate21$ret0" (.var "_rb_delete_fixup17$_right_rotate21$root"))
                          .ret)))))))))))))))))))))))
                      (.seq (.setI "_rb_delete_fixup17$root" (.var "_rb_delete_fixup17$_right_rotate21$ret0"))
                      (.seq (.setI "_rb_delete_fixup17$x_parent" (.ld2 "tree_nodes" (.var "_rb_delete_fixup17$x") (.lit 3)))
                      (.setI "_rb_delete_fixup17$w" (.ld2 "tree_nodes" (.var "_rb_delete_fixup17$x_parent") (.lit 2))))))))))
                      .skip)
                  (.seq (.setI "_rb_delete_fixup17$x_parent" (.ld2 "tree_nodes" (.var "_rb_delete_fixup17$x") (.lit 3)))
                  (.seq (.setI "_rb_delete_fixup17$w_right" (.ld2 "tree_nodes" (.var "_rb_delete_fixup17$w") (.lit 2)))
                  (.seq (.stI2 "tree_nodes" (.var "_rb_delete_fixup17$w") (.lit 0) (.ld2 "tree_nodes" (.var "_rb_delete_fixup17$x_parent") (.lit 0)))
                  (.seq (.stI2 "tree_nodes" (.var "_rb_delete_fixup17$x_parent") (.lit 0) (.lit 1))
                  (.seq (.stI2 "tree_nodes" (.var "_rb_delete_fixup17$w_right") (.lit 0) (.lit 1))
                  (.seq (.setI "_rb_delete_fixup17$_left_rotate24$root" (.var "_rb_delete_fixup17$root"))
                  (.seq (.setI "_rb_delete_fixup17$_left_rotate24$x" (.var "_rb_delete_fixup17$x_parent"))
                  (.seq (.scope (.seq (.setI "_rb_delete_fixup17$_left_rotate24$y" (.ld2 "tree_nodes" (.var "_rb_delete_fixup17$_left_rotate24$x") (.lit 2)))
                      (.seq (.setI "_rb_delete_fixup17$_left_rotate24$x_left" (.ld2 "tree_nodes" (.var "_rb_delete_fixup17$_left_rotate24$x") (.lit 1)))
                      (.seq (.setI "_rb_delete_fixup17$_left_rotate24$y_left" (.ld2 "tree_nodes" (.var "_rb_delete_fixup17$_left_rotate24$y") (.lit 1)))
                      (.seq (selMax "_rb_delete_fixup17$_left_rotate24$tmp_max" (.ld2 "tree_vals" (.var "_rb_delete_fixup17$_left_rotate24$x_left") (.lit 7)) (.ld2 "tree_vals" (.var "_rb_delete_fixup17$_left_rotate24$y_left") (.lit 7)))
                      (.seq (.setI "_rb_delete_fixup17$_left_rotate24$_find_value_min_value25$node_id" (.var "_rb_delete_fixup17$_left_rotate24$x"))
                      (.seq (minvScope "_rb_delete_fixup17$_left_rotate24$_find_value_min_value25$node_id" "_rb_delete_fixup17$_left_rotate24$_find_value_min_value25$ret0")
                      (.seq (.setF "_rb_delete_fixup17$_left_rotate24$min_value" (.var "_rb_delete_fixup17$_left_rotate24$_find_value_min_value25$ret0"))
                      (.seq (stMax "tree_vals" (.var "_rb_delete_fixup17$_left_rotate24$x") (.lit 7) (.var "_rb_delete_fixup17$_left_rotate24$tmp_max") (.var "_rb_delete_fixup17$_left_rotate24$min_value"))
                      (.seq (.setI "_rb_delete_fixup17$_left_rotate24$y_right" (.ld2 "tree_nodes" (.var "_rb_delete_fixup17$_left_rotate24$y") (.lit 2)))
                      (.seq (selMax "_rb_delete_fixup17$_left_rotate24$tmp_max" (.ld2 "tree_vals" (.var "_rb_delete_fixup17$_left_rotate24$x") (.lit 7)) (.ld2 "tree_vals" (.var "_rb_delete_fixup17$_left_rotate24$y_right") (.lit 7)))
                      (.seq (.setI "_rb_delete_fixup17$_left_rotate24$_find_value_min_value26$node_id" (.var "_rb_delete_fixup17$_left_rotate24$y"))
                      (.seq (minvScope "_rb_delete_fixup17$_left_rotate24$_find_value_min_value26$node_id" "_rb_delete_fixup17$_left_rotate24$_find_value_min_value26$ret0")
                      (.seq (.setF "_rb_delete_fixup17$_left_rotate24$min_value" (.var "_rb_delete_fixup17$_left_rotate24$_find_value_min_value26$ret0"))
                      (.seq (stMax "tree_vals" (.var "_rb_delete_fixup17$_left_rotate24$y") (.lit 7) (.var "_rb_delete_fixup17$_left_rotate24$tmp_max") (.var "_rb_delete_fixup17$_left_rotate24$min_value"))
                      (.seq (.stI2 "tree_nodes" (.var "_rb_delete_fixup17$_left_rotate24$x") (.lit 2) (.ld2 "tree_nodes" (.var "_rb_delete_fixup17$_left_rotate24$y") (.lit 1)))
                      (.seq (.setI "_rb_delete_fixup17$_left_rotate24$y_left" (.ld2 "tree_nodes" (.var "_rb_delete_fixup17$_left_rotate24$y") (.lit 1)))
                      (.seq (.stI2 "tree_nodes" (.var "_rb_delete_fixup17$_left_rotate24$y_left") (.lit 3) (.var "_rb_delete_fixup17$_left_rotate24$x"))
                      (.seq (.stI2 "tree_nodes" (.var "_rb_delete_fixup17$_left_rotate24$y") (.lit 3) (.ld2 "tree_nodes" (.var "_rb_delete_fixup17$_left_rotate24$x") (.lit 3)))
                      (.seq (.ite (.cmpI .eq (.ld2 "tree_nodes" (.var "_rb_delete_fixup17$_left_rotate24$x") (.lit 3)) (.lit (-1)))
                          (.setI "_rb_delete_fixup17$_left_rotate24$root" (.var "_rb_delete_fixup17$_left_rotate24$y"))
                          (.seq (.setI "_rb_delete_fixup17$_left_rotate24$x_parent" (.ld2 "tree_nodes" (.var "_rb_delete_fixup17$_left_rotate24$x") (.lit 3)))
                          (.ite (.cmpI .eq (.var "_rb_delete_fixup17$_left_rotate24$x") (.ld2 "tree_nodes" (.var "_rb_delete_fixup17$_left_rotate24$x_parent") (.lit 1)))
                            (.stI2 "tree_nodes" (.var "_rb_delete_fixup17$_left_rotate24$x_parent") (.lit 1) (.var "_rb_delete_fixup17$_left_rotate24$y"))
                            (.stI2 "tree_nodes" (.var "_rb_delete_fixup17$_left_rotate24$x_parent") (.lit 2) (.var "_rb_delete_fixup17$_left_rotate24$y")))))
                      (.seq (.stI2 "tree_nodes" (.var "_rb_delete_fixup17$_left_rotate24$y") (.lit 1) (.var "_rb_delete_fixup17$_left_rotate24$x"))
                      (.seq (.stI2 "tree_nodes" (.var "_rb_delete_fixup17$_left_rotate24$x") (.lit 3) (.var "_rb_delete_fixup17$_left_rotate24$y"))
                      (.seq (.setI "_rb_delete_fixup17$_left_rotate24$ret0" (.var "_rb_delete_fixup17$_left_rotate24$root"))
                      .ret)))))))))))))))))))))))
                  (.seq (.setI "_rb_delete_fixup17$root" (.var "_rb_delete_fixup17$_left_rotate24$ret0"))
                  (.setI "_rb_delete_fixup17$x" (.var "_rb_delete_fixup17$root"))))))))))))))))))
                (.seq (.setI "_rb_delete_fixup17$x_parent" (.ld2 "tree_nodes" (.var "_rb_delete_fixup17$x") (.lit 3)))
                (.seq (.setI "_rb_delete_fixup17$w" (.ld2 "tree_nodes" (.var "_rb_delete_fixup17$x_parent") (.lit 1)))
                (.seq (.ite (.cmpI .eq (.ld2 "tree_nodes" (.var "_rb_delete_fixup17$w") (.lit 0)) (.lit 0))
                    (.seq (.stI2 "tree_nodes" (.var "_rb_delete_fixup17$w") (.lit 0) (.lit 1))
                    (.seq (.stI2 "tree_nodes" (.var "_rb_delete_fixup17$x_parent") (.lit 0) (.lit 0))
                    (.seq (.setI "_rb_delete_fixup17$_right_rotate27$root" (.var "_rb_delete_fixup17$root"))
                    (.seq (.setI "_rb_delete_fixup17$_right_rotate27$y" (.var "_rb_delete_fixup17$x_parent"))
                    (.seq (.scope (.seq (.setI "_rb_delete_fixup17$_right_rotate27$x" (.ld2 "tree_nodes" (.var "_rb_delete_fixup17$_right_rotate27$y") (.lit 1)))
                        (.seq (.setI "_rb_delete_fixup17$_right_rotate27$x_right" (.ld2 "tree_nodes" (.var "_rb_delete_fixup17$_right_rotate27$x") (.lit 2)))
                        (.seq (.setI "_rb_delete_fixup17$_right_rotate27$y_right" (.ld2 "tree_nodes" (.var "_rb_delete_fixup17$_right_rotate27$y") (.lit 2)))
                        (.seq (selMax "_rb_delete_fixup17$_right_rotate27$tmp_max" (.ld2 "tree_vals" (.var "_rb_delete_fixup17$_right_rotate27$x_right") (.lit 7)) (.ld2 "tree_vals" (.var "_rb_delete_fixup17$_right_rotate27$y_right") (.lit 7)))
                        (.seq (.setI "_rb_delete_fixup17$_right_rotate27$_find_value_min_value28$node_id" (.var "_rb_delete_fixup17$_right_rotate27$y"))
                        (.seq (minvScope "_rb_delete_fixup17$_right_rotate27$_find_value_min_value28$node_id" "_rb_delete_fixup17$_right_rotate27$_find_value_min_value28$ret0")
                        (.seq (.setF "_rb_delete_fixup17$_right_rotate27$min_value" (.var "_rb_delete_fixup17$_right_rotate27$_find_value_min_value28$ret0"))
                        (.seq (stMax "tree_vals" (.var "_rb_delete_fixup17$_right_rotate27$y") (.lit 7) (.var "_rb_delete_fixup17$_right_rotate27$tmp_max") (.var "_rb_delete_fixup17$_right_rotate27$min_value"))
                        (.seq (.setI "_rb_delete_fixup17$_right_rotate27$x_left" (.ld2 "tree_nodes" (.var "_rb_delete_fixup17$_right_rotate27$x") (.lit 1)))
                        (.seq (selMax "_rb_delete_fixup17$_right_rotate27$tmp_max" (.ld2 "tree_vals" (.var "_rb_delete_fixup17$_right_rotate27$x_left") (.lit 7)) (.ld2 "tree_vals" (.var "_rb_delete_fixup17$_right_rotate27$y") (.lit 7)))
                        (.seq (.setI "_rb_delete_fixup17$_right_rotate27$_find_value_min_value29$node_id" (.var "_rb_delete_fixup17$_right_rotate27$x"))
                        (.seq (minvScope "_rb_delete_fixup17$_right_rotate27$_find_value_min_value29$node_id" "_rb_delete_fixup17$_right_rotate27$_find_value_min_value29$ret0")
                        (.seq (.setF "_rb_delete_fixup17$_right_rotate27$min_value" (.var "_rb_delete_fixup17$_right_rotate27$_find_value_min_value29$ret0"))
                        (.seq (stMax "tree_vals" (.var "_rb_delete_fixup17$_right_rotate27$x") (.lit 7) (.var "_rb_delete_fixup17$_right_rotate27$tmp_max") (.var "_rb_delete_fixup17$_right_rotate27$min_value"))
                        (.seq (.stI2 "tree_nodes" (.var "_rb_delete_fixup17$_right_rotate27$y") (.lit 1) (.ld2 "tree_nodes" (.var "_rb_delete_fixup17$_right_rotate27$x") (.lit 2)))
                        (.seq (.setI "_rb_delete_fixup17$_right_rotate27$x_right" (.ld2 "tree_nodes" (.var "_rb_delete_fixup17$_right_rotate27$x") (.lit 2)))
                        (.seq (.stI2 "tree_nodes" (.var "_rb_delete_fixup17$_right_rotate27$x_right") (.lit 3) (.var "_rb_delete_fixup17$_right_rotate27$y"))
                        (.seq (.stI2 "tree_nodes" (.var "_rb_delete_fixup17$_right_rotate27$x") (.lit 3) (.ld2 "tree_nodes" (.var "_rb_delete_fixup17$_right_rotate27$y") (.lit 3)))
                        (.seq (.ite (.cmpI .eq (.ld2 "tree_nodes" (.var "_rb_delete_fixup17$_right_rotate27$y") (.lit 3)) (.lit (-1)))
                            (.setI "_rb_delete_fixup17$_right_rotate27$root" (.var "_rb_delete_fixup17$_right_rotate27$x"))
                            (.seq (.setI "_rb_delete_fixup17$_right_rotate27$y_parent" (.ld2 "tree_nodes" (.var "_rb_delete_fixup17$_right_rotate27$y") (.lit 3)))
                            (.ite (.cmpI .eq (.ld2 "tree_nodes" (.var "_rb_delete_fixup17$_right_rotate27$y_parent") (.lit 1)) (.var "_rb_delete_fixup17$_right_rotate27$y"))
                              (.stI2 "tree_nodes" (.var "_rb_delete_fixup17$_right_rotate27$y_parent") (.lit 1) (.var "_rb_delete_fixup17$_right_rotate27$x"))
                              (.stI2 "tree_nodes" (.var "_rb_delete_fixup17$_right_rotate27$y_parent") (.lit 2) (.var "_rb_delete_fixup17$_right_rotate27$x")))))
                        (.seq (.stI2 "tree_nodes" (.var "_rb_delete_fixup17$_right_rotate27$x") (.lit 2) (.var "_rb_delete_fixup17$_right_rotate27$y"))
                        (.seq (.stI2 "tree_nodes" (.var "_rb_delete_fixup17$_right_rotate27$y") (.lit 3) (.var "_rb_delete_fixup17$_right_rotate27$x"))
                        (.seq (.setI "_rb_delete_fixup17$_right_rotate27$ret0" (.var "_rb_delete_fixup17$_right_rotate27$root"))
                        .ret)))))))))))))))))))))))
                    (.seq (.setI "_rb_delete_fixup17$root" (.var "_rb_delete_fixup17$_right_rotate27$ret0"))
                    (.setI "_rb_delete_fixup17$w" (.ld2 "tree_nodes" (.var "_rb_delete_fixup17$x_parent") (.lit 1)))))))))
                    .skip)
                (.seq (.ite (.cmpI .eq (.var "_rb_delete_fixup17$w") (.lit (-1)))
                    (.seq (.setI "_rb_delete_fixup17$x" (.var "_rb_delete_fixup17$x_parent")) .cont)
                    .skip)
                (.seq (.setI "_rb_delete_fixup17$w_left" (.ld2 "tree_nodes" (.var "_rb_delete_fixup17$w") (.lit 1)))
                (.seq (.setI "_rb_delete_fixup17$w_right" (.ld2 "tree_nodes" (.var "_rb_delete_fixup17$w") (.lit 2)))
                (.seq (.setI "_rb_delete_fixup17$x_parent" (.ld2 "tree_nodes" (.var "_rb_delete_fixup17$x") (.lit 3)))
                (.ite (.and (.cmpI .eq (.ld2 "tree_nodes" (.var "_rb_delete_fixup17$w_right") (.lit 0)) (.lit 1)) (.cmpI .eq (.ld2 "tree_nodes" (.var "_rb_delete_fixup17$w_left") (.lit 0)) (.lit 1)))
                  (.seq (.stI2 "tree_nodes" (.var "_rb_delete_fixup17$w") (.lit 0) (.lit 0))
                  (.setI "_rb_delete_fixup17$x" (.var "_rb_delete_fixup17$x_parent")))
                  (.seq (.ite (.cmpI .eq (.ld2 "tree_nodes" (.var "_rb_delete_fixup17$w_left") (.lit 0)) (.lit 1))
                      (.seq (.stI2 "tree_nodes" (.var "_rb_delete_fixup17$w_right") (.lit 0) (.lit 1))
                      (.seq (.stI2 "tree_nodes" (.var "_rb_delete_fixup17$w") (.lit 0) (.lit 0))
                      (.seq (.setI "_rb_delete_fixup17$_left_rotate30$root" (.var "_rb_delete_fixup17$root"))
                      (.seq (.setI "_rb_delete_fixup17$_left_rotate30$x" (.var "_rb_delete_fixup17$w"))
                      (.seq (.scope (.seq (.setI "_rb_delete_fixup17$_left_rotate30$y" (.ld2 "tree_nodes" (.var "_rb_delete_fixup17$_left_rotate30$x") (.lit 2)))
                          (.seq (.setI "_rb_delete_fixup17$_left_rotate30$x_left" (.ld2 "tree_nodes" (.var "_rb_delete_fixup17$_left_rotate30$x") (.lit 1)))
                          (.seq (.setI "_rb_delete_fixup17$_left_rotate30$y_left" (.ld2 "tree_nodes" (.var "_rb_delete_fixup17$_left_rotate30$y") (.lit 1)))
                          (.seq (selMax "_rb_delete_fixup17$_left_rotate30$tmp_max" (.ld2 "tree_vals" (.var "_rb_delete_fixup17$_left_rotate30$x_left") (.lit 7)) (.ld2 "tree_vals" (.var "_rb_delete_fixup17$_left_rotate30$y_left") (.lit 7)))
                          (.seq (.setI "_rb_delete_fixup17$_left_rotate30$_find_value_min_value31$node_id" (.var "_rb_delete_fixup17$_left_rotate30$x"))
                          (.seq (minvScope "_rb_delete_fixup17$_left_rotate30$_find_value_min_value31$node_id" "_rb_delete_fixup17$_left_rotate30$_find_value_min_value31$ret0")
                          (.seq (.setF "_rb_delete_fixup17$_left_rotate30$min_value" (.var "_rb_delete_fixup17$_left_rotate30$_find_value_min_value31$ret0"))
                          (.seq (stMax "tree_vals" (.var "_rb_delete_fixup17$_left_rotate30$x") (.lit 7) (.var "_rb_delete_fixup17$_left_rotate30$tmp_max") (.var "_rb_delete_fixup17$_left_rotate30$min_value"))
                          (.seq (.setI "_rb_delete_fixup17$_left_rotate30$y_right" (.ld2 "tree_nodes" (.var "_rb_delete_fixup17$_left_rotate30$y") (.lit 2)))
                          (.seq (selMax "_rb_delete_fixup17$_left_rotate30$tmp_max" (.ld2 "tree_vals" (.var "_rb_delete_fixup17$_left_rotate30$x") (.lit 7)) (.ld2 "tree_vals" (.var "_rb_delete_fixup17$_left_rotate30$y_right") (.lit 7)))
                          (.seq (.setI "_rb_delete_fixup17$_left_rotate30$_find_value_min_value32$node_id" (.var "_rb_delete_fixup17$_left_rotate30$y"))
                          (.seq (minvScope "_rb_delete_fixup17$_left_rotate30$_find_value_min_value32$node_id" "_rb_delete_fixup17$_left_rotate30$_find_value_min_value32$ret0")
                          (.seq (.setF "_rb_delete_fixup17$_left_rotate30$min_value" (.var "_rb_delete_fixup17$_left_rotate30$_find_value_min_value32$ret0"))
                          (.seq (stMax "tree_vals" (.var "_rb_delete_fixup17$_left_rotate30$y") (.lit 7) (.var "_rb_delete_fixup17$_left_rotate30$tmp_max") (.var "_rb_delete_fixup17$_left_rotate30$min_value"))
                          (.seq (.stI2 "tree_nodes" (.var "_rb_delete_fixup17$_left_rotate30$x") (.lit 2) (.ld2 "tree_nodes" (.var "_rb_delete_fixup17$_left_rotate30$y") (.lit 1)))
                          (.seq (.setI "_rb_delete_fixup17$_left_rotate30$y_left" (.ld2 "tree_nodes" (.var "_rb_delete_fixup17$_left_rotate30$y") (.lit 1)))
                          (.seq (.stI2 "tree_nodes" (.var "_rb_delete_fixup17$_left_rotate30$y_left") (.lit 3) (.var "_rb_delete_fixup17$_left_rotate30$x"))
                          (.seq (.stI2 "tree_nodes" (.var "_rb_delete_fixup17$_left_rotate30$y") (.lit 3) (.ld2 "tree_nodes" (.var "_rb_delete_fixup17$_left_rotate30$x") (.lit 3)))
                          (.seq (.ite (.cmpI .eq (.ld2 "tree_nodes" (.var "_rb_delete_fixup17$_left_rotate30$x") (.lit 3)) (.lit (-1)))
                              (.setI "_rb_delete_fixup17$_left_rotate30$root" (.var "_rb_delete_fixup17$_left_rotate30$y"))
                              (.seq (.setI "_rb_delete_fixup17$_left_rotate30$x_parent" (.ld2 "tree_nodes" (.var "_rb_delete_fixup17$_left_rotate30$x") (.lit 3)))
                              (.ite (.cmpI .eq (.var "_rb_delete_fixup17$_left_rotate30$x") (.ld2 "tree_nodes" (.var "_rb_delete_fixup17$_left_rotate30$x_parent") (.lit 1)))
                                (.stI2 "tree_nodes" (.var "_rb_delete_fixup17$_left_rotate30$x_parent") (.lit 1) (.var "_rb_delete_fixup17$_left_rotate30$y"))
                                (.stI2 "tree_nodes" (.var "_rb_delete_fixup17$_left_rotate30$x_parent") (.lit 2) (.var "_rb_delete_fixup17$_left_rotate30$y")))))
                          (.seq (.stI2 "tree_nodes" (.var "_rb_delete_fixup17$_left_rotate30$y") (.lit 1) (.var "_rb_delete_fixup17$_left_rotate30$x"))
                          (.seq (.stI2 "tree_nodes" (.var "_rb_delete_fixup17$_left_rotate30$x") (.lit 3) (.var "_rb_delete_fixup17$_left_rotate30$y"))
                          (.seq (.setI "_rb_delete_fixup17$_left_rotate30$ret0" (.var "_rb_delete_fixup17$_left_rotate30$root"))
                          .ret)))))))))))))))))))))))
                      (.seq (.setI "_rb_delete_fixup17$root" (.var "_rb_delete_fixup17$_left_rotate30$ret0"))
                      (.setI "_rb_delete_fixup17$w" (.ld2 "tree_nodes" (.var "_rb_delete_fixup17$x_parent") (.lit 1)))))))))
                      .skip)
                  (.seq (.stI2 "tree_nodes" (.var "_rb_delete_fixup17$w") (.lit 0) (.ld2 "tree_nodes" (.var "_rb_delete_fixup17$x_parent") (.lit 0)))
                  (.seq (.stI2 "tree_nodes" (.var "_rb_delete_fixup17$x_parent") (.lit 0) (.lit 1))
                  (.seq (.setI "_rb_delete_fixup17$w_left" (.ld2 "tree_nodes" (.var "_rb_delete_fixup17$w") (.lit 1)))
                  (.seq (.stI2 "tree_nodes" (.var "_rb_delete_fixup17$w_left") (.lit 0) (.lit 1))
                  (.seq (.setI "_rb_delete_fixup17$_right_rotate33$root" (.var "_rb_delete_fixup17$root"))
                  (.seq (.setI "_rb_delete_fixup17$_right_rotate33$y" (.var "_rb_delete_fixup17$x_parent"))
                  (.seq (.scope (.seq (.setI "_rb_delete_fixup17$_right_rotate33$x" (.ld2 "tree_nodes" (.var "_rb_delete_fixup17$_right_rotate33$y") (.lit 1)))
                      (.seq (.setI "_rb_delete_fixup17$_right_rotate33$x_right" (.ld2 "tree_nodes" (.var "_rb_delete_fixup17$_right_rotate33$x") (.lit 2)))
                      (.seq (.setI "_rb_delete_fixup17$_right_rotate33$y_right" (.ld2 "tree_nodes" (.var "_rb_delete_fixup17$_right_rotate33$y") (.lit 2)))
                      (.seq (selMax "_rb_delete_fixup17$_right_rotate33$tmp_max" (.ld2 "tree_vals" (.var "_rb_delete_fixup17$_right_rotate33$x_right") (.lit 7)) (.ld2 "tree_vals" (.var "_rb_delete_fixup17$_right_rotate33$y_right") (.lit 7)))
                      (.seq (.setI "_rb_delete_fixup17$_right_rotate33$_find_value_min_value34$node_id" (.var "_rb_delete_fixup17$_right_rotate33$y"))
                      (.seq (minvScope "_rb_delete_fixup17$_right_rotate33$_find_value_min_value34$node_id" "_rb_delete_fixup17$_right_rotate33$_find_value_min_value34$ret0")
                      (.seq (.setF "_rb_delete_fixup17$_right_rotate33$min_value" (.var "_rb_delete_fixup17$_right_rotate33$_find_value_min_value34$ret0"))
                      (.seq (stMax "tree_vals" (.var "_rb_delete_fixup17$_right_rotate33$y") (.lit 7) (.var "_rb_delete_fixup17$_right_rotate33$tmp_max") (.var "_rb_delete_fixup17$_right_rotate33$min_value"))
                      (.seq (.setI "_rb_delete_fixup17$_right_rotate33$x_left" (.ld2 "tree_nodes" (.var "_rb_delete_fixup17$_right_rotate33$x") (.lit 1)))
                      (.seq (selMax "_rb_delete_fixup17$_right_rotate33$tmp_max" (.ld2 "tree_vals" (.var "_rb_delete_fixup17$_right_rotate33$x_left") (.lit 7)) (.ld2 "tree_vals" (.var "_rb_delete_fixup17$_right_rotate33$y") (.lit 7)))
                      (.seq (.setI "_rb_delete_fixup17$_right_rotate33$_find_value_min_value35$node_id" (.var "_rb_delete_fixup17$_right_rotate33$x"))
                      (.seq (minvScope "_rb_delete_fixup17$_right_rotate33$_find_value_min_value35$node_id" "_rb_delete_fixup17$_right_rotate33$_find_value_min_value35$ret0")
                      (.seq (.setF "_rb_delete_fixup17$_right_rotate33$min_value" (.var "_rb_delete_fixup17$_right_rotate33$_find_value_min_value35$ret0"))
                      (.seq (stMax "tree_vals" (.var "_rb_delete_fixup17$_right_rotate33$x") (.lit 7) (.var "_rb_delete_fixup17$_right_rotate33$tmp_max") (.var "_rb_delete_fixup17$_right_rotate33$min_value"))
                      (.seq (.stI2 "tree_nodes" (.var "_rb_delete_fixup17$_right_rotate33$y") (.lit 1) (.ld2 "tree_nodes" (.var "_rb_delete_fixup17$_right_rotate33$x") (.lit 2)))
                      (.seq (.setI "_rb_delete_fixup17$_right_rotate33$x_right" (.ld2 "tree_nodes" (.var "_rb_delete_fixup17$_right_rotate33$x") (.lit 2)))
                      (.seq (.stI2 "tree_nodes" (.var "_rb_delete_fixup17$_right_rotate33$x_right") (.lit 3) (.var "_rb_delete_fixup17$_right_rotate33$y"))
                      (.seq (.stI2 "tree_nodes" (.var "_rb_delete_fixup17$_right_rotate33$x") (.lit 3) (.ld2 "tree_nodes" (.var "_rb_delete_fixup17$_right_rotate33$y") (.lit 3)))
                      (.seq (.ite (.cmpI .eq (.ld2 "tree_nodes" (.var "_rb_delete_fixup17$_right_rotate33$y") (.lit 3)) (.lit (-1)))
                          (.setI "_rb_delete_fixup17$_right_rotate33$root" (.var "_rb_delete_fixup17$_right_rotate33$x"))
                          (.seq (.setI "_rb_delete_fixup17$_right_rotate33$y_parent" (.ld2 "tree_nodes" (.var "_rb_delete_fixup17$_right_rotate33$y") (.lit 3)))
                          (.ite (.cmpI .eq (.ld2 "tree_nodes" (.var "_rb_delete_fixup17$_right_rotate33$y_parent") (.lit 1)) (.var "_rb_delete_fixup17$_right_rotate33$y"))
                            (.stI2 "tree_nodes" (.var "_rb_delete_fixup17$_right_rotate33$y_parent") (.lit 1) (.var "_rb_delete_fixup17$_right_rotate33$x"))
                            (.stI2 "tree_nodes" (.var "_rb_delete_fixup17$_right_rotate33$y_parent") (.lit 2) (.var "_rb_delete_fixup17$_right_rotate33$x")))))
                      (.seq (.stI2 "tree_nodes" (.var "_rb_delete_fixup17$_right_rotate33$x") (.lit 2) (.var "_rb_delete_fixup17$_right_rotate33$y"))
                      (.seq (.stI2 "tree_nodes" (.var "_rb_delete_fixup17$_right_rotate33$y") (.lit 3) (.var "_rb_delete_fixup17$_right_rotate33$x"))
                      (.seq (.setI "_rb_delete_fixup17$_right_rotate33$ret0" (.var "_rb_delete_fixup17$_right_rotate33$root"))
                      .ret)))))))))))))))))))))))
                  (.seq (.setI "_rb_delete_fixup17$root" (.var "_rb_delete_fixup17$_right_rotate33$ret0"))
                  (.setI "_rb_delete_fixup17$x" (.var "_rb_delete_fixup17$root"))))))))))))))))))))))
          (.seq (.stI2 "tree_nodes" (.var "_rb_delete_fixup17$x") (.lit 0) (.lit 1))
          (.seq (.setI "_rb_delete_fixup17$ret0" (.var "_rb_delete_fixup17$root")) .ret))))
      (.setI "root" (.var "_rb_delete_fixup17$ret0")))))
      .skip)
  (.seq (.setI "ret0" (.var "root")) (.seq (.setI "ret1" (.var "deleted")) .ret))))))))))))))))))

theorem vsDelete_body : Gen.IL.vsDelete.body = seqK delSearchItems (.seq delChoose delRest) := rfl


def delIv : List String := ["_search_for_node1$root", "_search_for_node1$ret0", "z"] ++ delSearchNames.iv
def delFv : List String := "_search_for_node1$key" :: delSearchNames.fv

/-- the search of `_delete_from_tree`: `z` = the node with the key, the program goes on iff there is one -/
theorem delSearch_spec (n : Nat) (sh : Sh) (fuel : Nat) (s : State F) (hv : VS s n) (hrun : s.ctl = .run)
    (hL : Linked (s.ia "tree_nodes") n (-1) sh) (hroot : s.ienv "root" = sh.ptr) (hf : sh.height < fuel) :
    let q := exec fuel (seqL delSearchItems) s
    let z := findPtr (s.fa "tree_vals") ⟨s.fenv "key"⟩ sh
    Frame delIv delFv [] s q ∧ q.ienv "z" = z ∧
      (z = -1 → q.ctl = .err "ValueError") ∧ (z ≠ -1 → q.ctl = .run) := by
  intro q z
  have hN : delSearchNames.OK := by simp [SearchNames.OK, delSearchNames]
  have h := searchLoop_spec delSearchNames hN n sh (-1) fuel
    { s with ienv := setS (setS s.ienv "_search_for_node1$root" sh.ptr) "_search_for_node1$cur_node" sh.ptr,
             fenv := setS s.fenv "_search_for_node1$key" (s.fenv "key") }
    (hv.of_eq rfl rfl rfl) hrun hL (by simp [delSearchNames, setS]) hf
  have e1 : delSearchNames.cur = "_search_for_node1$cur_node" := rfl
  have e2 : delSearchNames.key = "_search_for_node1$key" := rfl
  simp only [e1, e2] at h
  have e0 : (setS s.fenv "_search_for_node1$key" (s.fenv "key")) "_search_for_node1$key" = s.fenv "key" := by simp [setS]
  simp only [e0] at h
  obtain ⟨h1, h2, h3⟩ := h
  generalize hsB : exec fuel (searchLoop delSearchNames)
    { s with ienv := setS (setS s.ienv "_search_for_node1$root" sh.ptr) "_search_for_node1$cur_node" sh.ptr,
             fenv := setS s.fenv "_search_for_node1$key" (s.fenv "key") } = sB at h1 h2 h3
  simp only [hrun] at hsB
  have hfr0 : Frame delIv delFv [] s
      { s with ienv := setS (setS s.ienv "_search_for_node1$root" sh.ptr) "_search_for_node1$cur_node" sh.ptr,
               fenv := setS s.fenv "_search_for_node1$key" (s.fenv "key") } := by
    refine ⟨rfl, rfl, rfl, rfl, ?_, ?_, fun _ _ => rfl⟩ <;> intro v hv' <;>
      simp only [delIv, delFv, SearchNames.iv, SearchNames.fv, delSearchNames, List.mem_cons, List.cons_append,
        List.nil_append, List.not_mem_nil, or_false, not_or] at hv' <;> simp [setS, hv']
  have hfrB : Frame delIv delFv [] s sB :=
    hfr0.trans (h2.mono (fun v h => by simp [delIv, h]) (fun v h => by simp [delFv, h]) (fun _ h => h))
  by_cases hz : z = -1
  · have hq : q = { sB with ienv := setS (setS sB.ienv "_search_for_node1$ret0" (-1)) "z" (-1),
                            ctl := .err "ValueError" } := by
      simp only [z] at hz
      rw [hz] at h3
      simp [q, delSearchItems, seqL, exec, IE.ok_var, IE.eval_var, IE.ok_lit, IE.eval_lit, FE.ok_var, FE.eval_var, BE.ok,
        BE.eval, cmpInt, hroot, hrun, hsB, h1, h3, setS, State.error]
    rw [hq]
    refine ⟨hfrB.trans ?_, by simp [setS, hz], fun _ => rfl, fun h => absurd hz h⟩
    refine ⟨rfl, rfl, rfl, rfl, ?_, fun _ _ => rfl, fun _ _ => rfl⟩
    intro v hv'
    simp only [delIv, List.mem_cons, List.cons_append, List.nil_append, not_or] at hv'
    simp [setS, hv'.1, hv'.2.1, hv'.2.2.1]
  · have hq : q = { sB with ienv := setS (setS sB.ienv "_search_for_node1$ret0" z) "z" z } := by
      simp only [z] at hz
      simp [q, delSearchItems, seqL, exec, IE.ok_var, IE.eval_var, IE.ok_lit, IE.eval_lit, FE.ok_var, FE.eval_var, BE.ok,
        BE.eval, cmpInt, hroot, hrun, hsB, h1, h3, setS, hz, z]
    rw [hq]
    refine ⟨hfrB.trans ?_, by simp [setS], fun h => absurd h hz, fun _ => h1⟩
    refine ⟨rfl, rfl, rfl, rfl, ?_, fun _ _ => rfl, fun _ _ => rfl⟩
    intro v hv'
    simp only [delIv, List.mem_cons, List.cons_append, List.nil_append, not_or] at hv'
    simp [setS, hv'.1, hv'.2.1, hv'.2.2.1]

/-- **the key is absent: `_delete_from_tree` raises** (the model's `delCore` is `none`) -/
theorem vsDelete_absent (s : State F) (fuel n : Nat) (hv : VS s n) (hrun : s.ctl = .run) (sh : Sh)
    (hL : Linked (s.ia "tree_nodes") n (-1) sh) (hroot : s.ienv "root" = sh.ptr) (hf : sh.height < fuel)
    (habs : (absT (s.fa "tree_vals") (s.ia "tree_nodes") sh).contains ⟨s.fenv "key"⟩ = false) :
    (Gen.IL.vsDelete.run s fuel).ctl = .err "ValueError" := by
  have hz : findPtr (s.fa "tree_vals") ⟨s.fenv "key"⟩ sh = -1 := by
    rw [findPtr_contains] at habs
    simpa using habs
  obtain ⟨_, _, h3, _⟩ := delSearch_spec n sh fuel s hv hrun hL hroot hf
  simp only [Prog.run, vsDelete_body, delSearchItems]
  rw [exec_seqK, exec_seq_stop _ _ _ _ (by rw [← delSearchItems, h3 hz]; simp), ← delSearchItems]
  exact h3 hz

/-- the node `_delete_from_tree` splices out: `z` itself when it has a NIL child, else its in-order successor -/
def spliceIdx (l : Sh) (z : Nat) (r : Sh) : Nat :=
  match l, r with
  | .nil, _ => z
  | _, .nil => z
  | _, .node rl m _ => minIdx rl m

theorem delChoose_spec (n fuel : Nat) (s : State F) (hv : VS s n) (hrun : s.ctl = .run) (l : Sh) (z : Nat) (r : Sh) (par : Int)
    (hl : Linked (s.ia "tree_nodes") n par (.node l z r)) (hz : s.ienv "z" = z) (hf : r.height + 1 < fuel) :
    let q := exec fuel delChoose s
    q.ctl = .run ∧ q.ia = s.ia ∧ q.fa = s.fa ∧ q.shp = s.shp ∧ q.ienv "y" = spliceIdx l z r ∧ q.ienv "z" = z ∧
      q.ienv "root" = s.ienv "root" := by
  obtain ⟨hzn, hzL, hzR, hzP, hlL, hlR⟩ := hl
  have hin : inRange (z : Int) n = true := inRange_ptr n _ (by omega) hv.pos
  have eN := fun (s' : State F) => evalN s' n
  have oN := fun (s' : State F) => okN s' n
  intro q
  cases l with
  | nil =>
    simp only [Sh.ptr] at hzL
    have hq : q = { s with ienv := setS s.ienv "y" (z : Int) } := by
      simp [q, delChoose, exec, eN, oN, hv.shpN, hz, hin, hzL, IE.ok_var, IE.eval_var, IE.ok_lit, IE.eval_lit, BE.ok, BE.eval,
        cmpInt]
    rw [hq]; simp [setS, spliceIdx, hrun, hz]
  | node ll a lr =>
    simp only [Sh.ptr] at hzL
    cases r with
    | nil =>
      simp only [Sh.ptr] at hzR
      have ha : ¬ ((a : Int) = -1) := by omega
      have hq : q = { s with ienv := setS s.ienv "y" (z : Int) } := by
        simp [q, delChoose, exec, eN, oN, hv.shpN, hz, hin, hzL, hzR, ha, IE.ok_var, IE.eval_var, IE.ok_lit, IE.eval_lit, BE.ok,
          BE.eval, cmpInt]
      rw [hq]; simp [setS, spliceIdx, hrun, hz]
    | node rl m rrr =>
      simp only [Sh.ptr] at hzR
      have ha : ¬ ((a : Int) = -1) := by omega
      have hm : ¬ ((m : Int) = -1) := by omega
      -- the state in which the inlined `_tree_minimum` loop starts
      have hml := minLoop_spec "_tree_successor4$_tree_minimum5$x" n rl m rrr (z : Int) fuel
        { s with ienv := setS (setS s.ienv "_tree_successor4$x" (z : Int)) "_tree_successor4$_tree_minimum5$x" (m : Int) }
        (hv.of_eq rfl rfl rfl) hrun hlR (by simp [setS])
        (by have := Sh.lheight_le rl; simp only [Sh.height] at hf; omega)
      simp only [hrun] at hml
      have hq : q = { s with ienv := setS (setS (setS (setS (setS s.ienv "_tree_successor4$x" (z : Int))
          "_tree_successor4$_tree_minimum5$x" (minIdx rl m : Int)) "_tree_successor4$_tree_minimum5$ret0" (minIdx rl m : Int))
          "_tree_successor4$ret0" (minIdx rl m : Int)) "y" (minIdx rl m : Int) } := by
        simp [q, delChoose, exec, eN, oN, hv.shpN, hz, hin, hzL, hzR, ha, hm, IE.ok_var, IE.eval_var, IE.ok_lit, IE.eval_lit,
          BE.ok, BE.eval, cmpInt, setS, hrun, hml, setS_setS_same]
      rw [hq]; simp [setS, spliceIdx, hrun, hz]

/-- **the descent of `_delete_from_tree`** (PARTIAL refinement: everything after the choice of `y` -- `delRest` -- is
    not covered): with the key in the tree, at position `(l, z, r, ctx)`, the program continues with `delRest` in a state
    that differs from the initial one in scalars only, `z` the node found and `y` the node to splice out -/
theorem vsDelete_descent_refines (s : State F) (fuel n : Nat) (hv : VS s n) (hrun : s.ctl = .run) (sh : Sh)
    (hL : Linked (s.ia "tree_nodes") n (-1) sh) (hN : sh.idxs.Nodup) (hroot : s.ienv "root" = sh.ptr)
    (l : Sh) (z : Nat) (r : Sh) (ctx : Ctx)
    (hfind : findZ (s.fa "tree_vals") ⟨s.fenv "key"⟩ sh [] = some (l, z, r, ctx)) (hf : sh.height + 1 < fuel) :
    ∃ sD : State F, Gen.IL.vsDelete.run s fuel = exec fuel delRest sD ∧ sD.ctl = .run ∧ sD.ia = s.ia ∧ sD.fa = s.fa ∧
      sD.shp = s.shp ∧ sD.ienv "z" = z ∧ sD.ienv "y" = spliceIdx l z r ∧ sD.ienv "root" = s.ienv "root" := by
  obtain ⟨hp, hplug, _, _⟩ := findZ_some _ _ sh [] l z r ctx hfind
  simp only [plug] at hplug
  obtain ⟨hlz, _, _⟩ := unplug ctx (.node l z r) (by rw [hplug]; exact hL) (by rw [hplug]; exact hN)
  obtain ⟨d1, d2, _, d4⟩ := delSearch_spec n sh fuel s hv hrun hL hroot (by omega)
  rw [hp] at d2 d4
  have hne : ¬ ((z : Int) = -1) := by omega
  have d4' := d4 hne
  generalize hs1 : exec fuel (seqL delSearchItems) s = s1 at d1 d2 d4'
  have hph := plug_height ctx (.node l z r)
  rw [hplug] at hph
  simp only [Sh.height] at hph
  have hC := delChoose_spec n fuel s1 (d1.vs hv) d4' l z r (ctxPar ctx) (by rw [d1.ia]; exact hlz) d2 (by omega)
  obtain ⟨c1, c2, c3, c4, c5, c6, c7⟩ := hC
  refine ⟨exec fuel delChoose s1, ?_, c1, c2.trans d1.ia, c3.trans d1.fa, c4.trans d1.shp, c6, c5,
    c7.trans (d1.ienv _ (by simp [delIv, SearchNames.iv, delSearchNames]))⟩
  simp only [Prog.run, vsDelete_body, delSearchItems]
  rw [exec_seqK, exec_seq_run _ _ _ _ (by rw [← delSearchItems, hs1]; exact d4'), ← delSearchItems, hs1,
    exec_seq_run _ _ _ _ c1]

end XrsVerif.ILVs
