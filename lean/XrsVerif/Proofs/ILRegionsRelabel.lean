import XrsVerif.Proofs.ILRegionsRel
/-
  Proofs/ILRegionsRelabel.lean -- the whole-raster relabelling loops of the second pass of `Gen.IL.areaConnectivity`

      for y1 in range(0, rows):
          for x1 in range(0, cols):
              if out[y1, x1] == a:
                  out[y1, x1] = b

  `exec_relabel`: afterwards `out` is `out.map (fun v => if Fl.eq v a then b else v)` (every cell is read before it is
  written, once); only `y1`, `x1` and `out` change (`Keeps`).
-/
namespace XrsVerif.IL.Rg
open XrsVerif XrsVerif.IL XrsVerif.Regions
variable {F : Type} [Fl F]
set_option linter.unusedSectionVars false
set_option linter.unusedVariables false
set_option linter.unusedSimpArgs false

/-- `t` is a running state that differs from `s` at most in the integer variables `iv` and the array `out` -/
structure Keeps (iv : List String) (s t : State F) : Prop where
  run : t.ctl = .run
  fenv : t.fenv = s.fenv
  benv : t.benv = s.benv
  ia : t.ia = s.ia
  shp : t.shp = s.shp
  fa : ∀ a, a ≠ "out" → t.fa a = s.fa a
  ienv : ∀ v, v ∉ iv → t.ienv v = s.ienv v

/-- `out[out == a] = b`, one value -/
def relabelF (A B : F) (v : F) : F := if Fl.eq v A then B else v

/-- `f` applied to the first `k` entries -/
def mapTo (f : F → F) (k : Nat) (l : List F) : List F := (l.take k).map f ++ l.drop k

theorem mapTo_zero (f : F → F) (l : List F) : mapTo f 0 l = l := by simp [mapTo]

theorem mapTo_all (f : F → F) (l : List F) (k : Nat) (h : l.length ≤ k) : mapTo f k l = l.map f := by
  simp [mapTo, List.take_of_length_le h, List.drop_eq_nil_of_le h]

theorem mapTo_length (f : F → F) (k : Nat) (l : List F) : (mapTo f k l).length = l.length := by
  simp [mapTo]; omega

theorem mapTo_cons_succ (f : F → F) (k : Nat) (a : F) (l : List F) :
    mapTo f (k + 1) (a :: l) = f a :: mapTo f k l := by simp [mapTo]

theorem mapTo_getD (f : F → F) (k : Nat) (l : List F) (d : F) : (mapTo f k l).getD k d = l.getD k d := by
  induction l generalizing k with
  | nil => simp [mapTo]
  | cons a l ih =>
    cases k with
    | zero => simp [mapTo]
    | succ k => rw [mapTo_cons_succ]; simpa using ih k

theorem mapTo_set (f : F → F) (k : Nat) (l : List F) (d : F) (h : k < l.length) :
    (mapTo f k l).set k (f (l.getD k d)) = mapTo f (k + 1) l := by
  induction l generalizing k with
  | nil => simp at h
  | cons a l ih =>
    cases k with
    | zero => simp [mapTo]
    | succ k =>
      rw [mapTo_cons_succ, mapTo_cons_succ, List.set_cons_succ]
      have := ih k (by simpa using h)
      simp only [List.getD_cons_succ]
      rw [this]

theorem mapTo_fix (f : F → F) (k : Nat) (l : List F) (d : F) (hf : f (l.getD k d) = l.getD k d) :
    mapTo f (k + 1) l = mapTo f k l := by
  induction l generalizing k with
  | nil => simp [mapTo]
  | cons a l ih =>
    cases k with
    | zero => simp only [List.getD_cons_zero] at hf; simp [mapTo, hf]
    | succ k =>
      rw [mapTo_cons_succ, mapTo_cons_succ]
      simp only [List.getD_cons_succ] at hf
      rw [ih k hf]

/-- one raster cell of the relabelling -/
theorem exec_relabelBody (fuel rows cols i j : Nat) (hi : i < rows) (hj : j < cols) (a b : String) (st : State F)
    (hrun : st.ctl = .run) (hy1 : st.ienv "y1" = (i : Int)) (hx1 : st.ienv "x1" = (j : Int))
    (hos : st.shp "out" = [rows, cols]) :
    exec fuel (relabelBody a b) st =
      { st with fa := setS st.fa "out"
                  (if Fl.eq ((st.fa "out").getD (i * cols + j) Fl.nan) (st.fenv a)
                   then (st.fa "out").set (i * cols + j) (st.fenv b) else st.fa "out") } := by
  unfold relabelBody
  rw [exec_ite]
  simp only [BE.ok, FE.ok, IE.ok, BE.eval, FE.eval, IE.eval, CmpOp.eval, hy1, hx1, hos, List.length_cons,
    List.length_nil, List.getD_cons_zero, List.getD_cons_succ, decide_true, Bool.and_true, Bool.true_and,
    inRange_of_lt _ _ hi, inRange_of_lt _ _ hj, off2_nat, if_true]
  by_cases hc : Fl.eq ((st.fa "out").getD (i * cols + j) Fl.nan) (st.fenv a) = true
  · simp only [hc, if_true]
    rw [exec_stF2]
    simp only [FE.ok, IE.ok, FE.eval, IE.eval, hy1, hx1, hos, List.length_cons, List.length_nil,
      List.getD_cons_zero, List.getD_cons_succ, decide_true, Bool.and_true, Bool.true_and, inRange_of_lt _ _ hi,
      inRange_of_lt _ _ hj, off2_nat, if_true]
  · simp only [hc, Bool.false_eq_true, if_false, exec_skip, setS_self]

/-- the relabelling loops -/
theorem exec_relabel (fuel rows cols : Nat) (a b : String) (s : State F) (hrun : s.ctl = .run)
    (hrv : s.ienv "rows" = (rows : Int)) (hcv : s.ienv "cols" = (cols : Int))
    (hos : s.shp "out" = [rows, cols]) (hol : (s.fa "out").length = rows * cols) :
    Keeps ["y1", "x1"] s (exec fuel (relabel a b) s) ∧
    (exec fuel (relabel a b) s).fa "out" = (s.fa "out").map (relabelF (s.fenv a) (s.fenv b)) := by
  let f := relabelF (s.fenv a) (s.fenv b)
  let O := s.fa "out"
  -- the invariant: `k` cells done
  let Q : Nat → State F → Prop := fun k st =>
    st.fenv = s.fenv ∧ st.benv = s.benv ∧ st.ia = s.ia ∧ st.shp = s.shp ∧ (∀ c, c ≠ "out" → st.fa c = s.fa c) ∧
    (∀ v, v ∉ ["y1", "x1"] → st.ienv v = s.ienv v) ∧ st.fa "out" = mapTo f k O
  -- one row
  have hrow : ∀ (i : Nat), i < rows → ∀ st : State F, st.ctl = .run → st.ienv "y1" = (i : Int) → Q (i * cols) st →
      (exec fuel (relabelRow a b) st).ctl = .run ∧ Q ((i + 1) * cols) (exec fuel (relabelRow a b) st) := by
    intro i hi st hst hy1 hQ
    obtain ⟨q1, q2, q3, q4, q5, q6, q7⟩ := hQ
    have hcv' : st.ienv "cols" = (cols : Int) := by rw [q6 _ (by simp)]; exact hcv
    have hl : exec fuel (relabelRow a b) st =
        loopOver (fun st j => exec fuel (relabelBody a b) { st with ienv := setS st.ienv "x1" j })
          ((List.range cols).map (fun (k : Nat) => (k : Int))) st := by
      unfold relabelRow
      exact exec_forRange_nat fuel "x1" _ _ st cols (by simp [IE.ok]) (by simp [IE.eval, hcv'])
    have := loopOver_inv (fun st j => exec fuel (relabelBody a b) { st with ienv := setS st.ienv "x1" j })
      ((List.range cols).map (fun (k : Nat) => (k : Int)))
      (fun j st => st.ienv "y1" = (i : Int) ∧ Q (i * cols + j) st) st hst ⟨hy1, q1, q2, q3, q4, q5, q6, q7⟩
      (by
        intro j hj st' hst' hQ'
        obtain ⟨hy1', r1, r2, r3, r4, r5, r6, r7⟩ := hQ'
        have hj' : j < cols := by simpa using hj
        have hxs : ((List.range cols).map (fun (k : Nat) => (k : Int)))[j] = (j : Int) := by simp
        rw [hxs]
        have hb := exec_relabelBody fuel rows cols i j hi hj' a b { st' with ienv := setS st'.ienv "x1" (j : Int) }
          hst' (by simp [setS, hy1']) (by simp [setS]) (by show st'.shp "out" = _; rw [r4]; exact hos)
        rw [hb, afterBody_run _ (by exact hst')]
        have hp : i * cols + j < O.length := by
          have := pos_lt rows cols (i, j) hi hj'
          simp only [pos] at this
          simp only [O]; omega
        refine ⟨hst', ?_, r1, r2, r3, r4, ?_, ?_, ?_⟩
        · simp [setS, hy1']
        · intro c hc; simp [setS, hc]; exact r5 c hc
        · intro v hv
          have : v ≠ "x1" := by intro e; apply hv; simp [e]
          simp only [setS, this, if_false]; exact r6 v hv
        · simp only [setS_same]
          rw [r7, r1, mapTo_getD, ← Nat.add_assoc]
          by_cases hc : Fl.eq (O.getD (i * cols + j) Fl.nan) (s.fenv a) = true
          · rw [if_pos hc]
            have : f (O.getD (i * cols + j) Fl.nan) = s.fenv b := by simp only [f, relabelF, hc, if_true]
            rw [← this]
            exact mapTo_set f _ O Fl.nan hp
          · rw [if_neg hc]
            have : f (O.getD (i * cols + j) Fl.nan) = O.getD (i * cols + j) Fl.nan := by
              simp only [f, relabelF, hc, Bool.false_eq_true, if_false]
            exact (mapTo_fix f _ O Fl.nan this).symm)
    rw [← hl] at this
    obtain ⟨hc, _, hQ'⟩ := this
    simp only [List.length_map, List.length_range] at hQ'
    have he : (i + 1) * cols = i * cols + cols := by rw [Nat.add_mul, Nat.one_mul]
    rw [he]
    exact ⟨hc, hQ'⟩
  -- all rows
  have hl : exec fuel (relabel a b) s =
      loopOver (fun st i => exec fuel (relabelRow a b) { st with ienv := setS st.ienv "y1" i })
        ((List.range rows).map (fun (k : Nat) => (k : Int))) s := by
    unfold relabel
    exact exec_forRange_nat fuel "y1" _ _ s rows (by simp [IE.ok]) (by simp [IE.eval, hrv])
  have := loopOver_inv (fun st i => exec fuel (relabelRow a b) { st with ienv := setS st.ienv "y1" i })
    ((List.range rows).map (fun (k : Nat) => (k : Int))) (fun i st => Q (i * cols) st) s hrun
    ⟨rfl, rfl, rfl, rfl, fun _ _ => rfl, fun _ _ => rfl, by simp only [Nat.zero_mul, mapTo_zero, O]⟩
    (by
      intro i hi st hst hQ
      have hi' : i < rows := by simpa using hi
      have hxs : ((List.range rows).map (fun (k : Nat) => (k : Int)))[i] = (i : Int) := by simp
      rw [hxs]
      obtain ⟨q1, q2, q3, q4, q5, q6, q7⟩ := hQ
      have := hrow i hi' { st with ienv := setS st.ienv "y1" (i : Int) } hst (by simp [setS])
        ⟨q1, q2, q3, q4, q5, by
          intro v hv
          have : v ≠ "y1" := by intro e; apply hv; simp [e]
          simp only [setS, this, if_false]; exact q6 v hv, q7⟩
      obtain ⟨hc, hQ'⟩ := this
      rw [afterBody_run _ hc]
      exact ⟨hc, hQ'⟩)
  rw [← hl] at this
  obtain ⟨hc, q1, q2, q3, q4, q5, q6, q7⟩ := this
  simp only [List.length_map, List.length_range] at q7
  refine ⟨⟨hc, q1, q2, q3, q4, q5, q6⟩, ?_⟩
  rw [q7, mapTo_all f O _ (by simp only [O]; omega)]

end XrsVerif.IL.Rg
