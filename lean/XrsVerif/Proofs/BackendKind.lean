import XrsVerif.Model.BackendKind
/-!
  Helper lemmas for the backend clause of C10: the abstraction relation between concrete kind environments and
  abstract ones, soundness of the abstract right-hand sides (in particular of `liftSet`), the post-fixpoint property of
  `bloop`, and soundness of `bcheck` for every run.
-/
namespace XrsVerif.BK

/-- every variable's actual kind is among the kinds the abstract environment allows -/
def Rel (e : Env) (a : AEnv) : Prop := ∀ v, (a v).has (e v) = true

theorem has_top (x : Kind) : KSet.top.has x = true := by cases x <;> rfl

theorem has_only (x : Kind) : (KSet.only x).has x = true := by cases x <;> rfl

theorem has_only_iff {x y : Kind} : (KSet.only x).has y = true ↔ y = x := by
  cases x <;> cases y <;> simp [KSet.only, KSet.has]

theorem has_join {a b : KSet} {x : Kind} : (a.join b).has x = true ↔ (a.has x = true ∨ b.has x = true) := by
  cases x <;> simp [KSet.join, KSet.has]

theorem sub_has {a b : KSet} (h : a.sub b = true) {x : Kind} (hx : a.has x = true) : b.has x = true := by
  cases a; cases b; cases x <;> simp_all [KSet.sub, KSet.has]

theorem Rel.weaken {e : Env} {a b : AEnv} (h : Rel e a) (hsub : ∀ v x, (a v).has x = true → (b v).has x = true) :
    Rel e b := fun v => hsub v _ (h v)

theorem rel_set {e : Env} {a : AEnv} {d : Nat} {x : Kind} {s : KSet} (h : Rel e a) (hs : s.has x = true) :
    Rel (e.set d x) (a.set d s) := by
  intro v
  by_cases hv : v = d
  · simp [Env.set, AEnv.set, hv, hs]
  · simp [Env.set, AEnv.set, hv, h v]

theorem rel_joinL {e : Env} {a b : AEnv} (h : Rel e a) : Rel e (joinE a b) :=
  fun v => has_join.mpr (Or.inl (h v))

theorem rel_joinR {e : Env} {a b : AEnv} (h : Rel e b) : Rel e (joinE a b) :=
  fun v => has_join.mpr (Or.inr (h v))

theorem rel_widen {e : Env} {a : AEnv} (n : Nat) (h : Rel e a) : Rel e (widen n a) := by
  intro v
  by_cases hv : v < n
  · simp [widen, hv, h v]
  · simp [widen, hv, has_top]

theorem rel_init {e : Env} {ps : List Nat} (h : ∀ p ∈ ps, e p = .lazy) : Rel e (initEnv ps) := by
  intro v
  by_cases hv : v ∈ ps
  · simp [initEnv, hv, h v hv, KSet.only, KSet.has]
  · simp [initEnv, hv, has_top]

/-- soundness of the abstract elementwise operation -/
theorem lift_sound {e : Env} {a : AEnv} (h : Rel e a) (vs : List Nat) :
    (liftSet (vs.map a)).has (liftKind (vs.map e)) = true := by
  unfold liftKind
  by_cases hl : (vs.map e).contains Kind.lazy = true
  · rw [if_pos hl]
    simp only [List.contains_eq_mem, List.mem_map, decide_eq_true_eq] at hl
    obtain ⟨v, hv, hev⟩ := hl
    have hv' := h v
    rw [hev] at hv'
    simp only [KSet.has, liftSet, List.any_eq_true, List.mem_map]
    exact ⟨a v, ⟨v, hv, rfl⟩, hv'⟩
  · rw [if_neg hl]
    simp only [List.contains_eq_mem, List.mem_map, decide_eq_true_eq, not_exists, not_and] at hl
    have hnl : ∀ v ∈ vs, ((a v).e || (a v).s) = true := by
      intro v hv
      have h1 := h v
      have h2 := hl v hv
      cases hev : e v with
      | lazy => exact absurd hev h2
      | eager => rw [hev] at h1; simp [KSet.has] at h1; simp [h1]
      | scalar => rw [hev] at h1; simp [KSet.has] at h1; simp [h1]
    by_cases he : (vs.map e).contains Kind.eager = true
    · rw [if_pos he]
      simp only [List.contains_eq_mem, List.mem_map, decide_eq_true_eq] at he
      obtain ⟨v, hv, hev⟩ := he
      have hv' := h v
      rw [hev] at hv'
      simp only [KSet.has, liftSet, Bool.and_eq_true, List.all_eq_true, List.any_eq_true, List.mem_map]
      refine ⟨?_, a v, ⟨v, hv, rfl⟩, hv'⟩
      rintro s ⟨w, hw, rfl⟩
      exact hnl w hw
    · rw [if_neg he]
      simp only [List.contains_eq_mem, List.mem_map, decide_eq_true_eq, not_exists, not_and] at he
      simp only [KSet.has, liftSet, List.all_eq_true, List.mem_map]
      rintro s ⟨w, hw, rfl⟩
      have h1 := h w
      cases hev : e w with
      | lazy => exact absurd hev (hl w hw)
      | eager => exact absurd hev (he w hw)
      | scalar => rw [hev] at h1; exact h1

theorem aeval_sound {e : Env} {a : AEnv} {r : Rhs} {x : Kind} (h : Rel e a) (hy : r.yields e x) :
    (r.aeval a).has x = true := by
  cases hy with
  | const => exact has_only _
  | same => exact h _
  | lift => exact lift_sound h _
  | any => exact has_top _

/-- environments that know nothing about the variables `≥ n` -/
def Wide (n : Nat) (a : AEnv) : Prop := ∀ v, n ≤ v → a v = .top

theorem wide_widen (n : Nat) (a : AEnv) : Wide n (widen n a) := by
  intro v hv
  have : ¬ v < n := by omega
  simp [widen, this]

theorem widen_of_wide {n : Nat} {a : AEnv} (h : Wide n a) : widen n a = a := by
  funext v
  by_cases hv : v < n
  · simp [widen, hv]
  · simp [widen, hv, h v (by omega)]

theorem wide_joinE {n : Nat} {a b : AEnv} (h : Wide n a) : Wide n (joinE a b) := by
  intro v hv
  simp [joinE, h v hv, KSet.join, KSet.top]

theorem subN_spec {n : Nat} {a b : AEnv} (h : subN n a b = true) (hb : Wide n b) :
    ∀ v x, (a v).has x = true → (b v).has x = true := by
  intro v x hx
  by_cases hv : v < n
  · simp only [subN, List.all_eq_true, List.mem_range] at h
    exact sub_has (h v hv) hx
  · rw [hb v (by omega)]; exact has_top x

/-- what `bloop` returns is a post-fixpoint of the abstract body that contains the entry environment, together
    with the kinds the body may return when started there -/
theorem bloop_spec {n : Nat} {f : AEnv → Option (AEnv × KSet)} {fuel : Nat} {a m : AEnv} {r : KSet}
    (h : bloop n f fuel a = some (m, r)) (ha : Wide n a) :
    (∀ v x, (a v).has x = true → (m v).has x = true) ∧ Wide n m ∧
      ∃ m', f m = some (m', r) ∧ subN n m' m = true := by
  induction fuel generalizing a with
  | zero => simp [bloop] at h
  | succ k ih =>
    simp only [bloop] at h
    cases hf : f a with
    | none => simp [hf] at h
    | some pr =>
      obtain ⟨a', r'⟩ := pr
      simp only [hf] at h
      by_cases hs : subN n a' a = true
      · simp only [hs, if_true, Option.some.injEq, Prod.mk.injEq] at h
        obtain ⟨h1, h2⟩ := h
        subst h1; subst h2
        exact ⟨fun _ _ hx => hx, ha, a', hf, hs⟩
      · simp only [hs] at h
        obtain ⟨h1, h2, h3⟩ := ih h (wide_joinE ha)
        exact ⟨fun v x hx => h1 v x (has_join.mpr (Or.inl hx)), h2, h3⟩

/-- re-entering the loop check at its own result returns that result again -/
theorem bloop_stable {n : Nat} {f : AEnv → Option (AEnv × KSet)} {fuel : Nat} {a m : AEnv} {r : KSet}
    (h : bloop n f fuel a = some (m, r)) (ha : Wide n a) : bloop n f fuel m = some (m, r) := by
  obtain ⟨_, _, m', hf, hs⟩ := bloop_spec h ha
  cases fuel with
  | zero => simp [bloop] at h
  | succ k => simp [bloop, hf, hs]

/-- what soundness means for one outcome -/
def Sound (o : Outcome) (a' : AEnv) (rs : KSet) : Prop :=
  match o with
  | .fell e' => Rel e' a'
  | .returned x => rs.has x = true

theorem Sound.mono {o : Outcome} {a' : AEnv} {rs rs' : KSet} (h : Sound o a' rs)
    (hsub : ∀ x, rs.has x = true → rs'.has x = true) : Sound o a' rs' := by
  cases o with
  | fell e' => exact h
  | returned x => exact hsub x h

/-- **soundness of the checker**: along every run the fall-through environment is covered by the abstract one and a
    returned value's kind is among the kinds the checker reports -/
theorem bcheck_sound {n : Nat} {p : Prog} {e : Env} {o : Outcome} (hx : Exec p e o) :
    ∀ {a a' : AEnv} {rs : KSet}, Rel e a → bcheck n p a = some (a', rs) → Sound o a' rs := by
  induction hx with
  | done e =>
    intro a a' rs h hb
    simp only [bcheck, Option.some.injEq, Prod.mk.injEq] at hb
    obtain ⟨h1, _⟩ := hb; subst h1; exact h
  | assign hy _ ih =>
    intro a a' rs h hb
    simp only [bcheck] at hb
    exact ih (rel_set h (aeval_sound h hy)) hb
  | ret hy =>
    intro a a' rs h hb
    simp only [bcheck, Option.some.injEq, Prod.mk.injEq] at hb
    obtain ⟨_, h2⟩ := hb; subst h2
    exact aeval_sound h hy
  | iteL _ _ ihp ihk =>
    intro a a' rs h hb
    simp only [bcheck] at hb
    split at hb
    · rename_i a1 r1 a2 r2 hp hq
      split at hb
      · rename_i a3 r3 hk
        simp only [Option.some.injEq, Prod.mk.injEq] at hb
        obtain ⟨h1, h2⟩ := hb; subst h1; subst h2
        have h1 : Rel _ a1 := ihp h hp
        exact (ihk (rel_joinL h1) hk).mono fun x hx => has_join.mpr (Or.inr hx)
      · simp at hb
    · simp at hb
  | iteLret _ ihp =>
    intro a a' rs h hb
    simp only [bcheck] at hb
    split at hb
    · rename_i a1 r1 a2 r2 hp hq
      split at hb
      · rename_i a3 r3 hk
        simp only [Option.some.injEq, Prod.mk.injEq] at hb
        obtain ⟨h1, h2⟩ := hb; subst h1; subst h2
        have h1 : r1.has _ = true := ihp h hp
        exact has_join.mpr (Or.inl (has_join.mpr (Or.inl h1)))
      · simp at hb
    · simp at hb
  | iteR _ _ ihq ihk =>
    intro a a' rs h hb
    simp only [bcheck] at hb
    split at hb
    · rename_i a1 r1 a2 r2 hp hq
      split at hb
      · rename_i a3 r3 hk
        simp only [Option.some.injEq, Prod.mk.injEq] at hb
        obtain ⟨h1, h2⟩ := hb; subst h1; subst h2
        have h1 : Rel _ a2 := ihq h hq
        exact (ihk (rel_joinR h1) hk).mono fun x hx => has_join.mpr (Or.inr hx)
      · simp at hb
    · simp at hb
  | iteRret _ ihq =>
    intro a a' rs h hb
    simp only [bcheck] at hb
    split at hb
    · rename_i a1 r1 a2 r2 hp hq
      split at hb
      · rename_i a3 r3 hk
        simp only [Option.some.injEq, Prod.mk.injEq] at hb
        obtain ⟨h1, h2⟩ := hb; subst h1; subst h2
        have h1 : r2.has _ = true := ihq h hq
        exact has_join.mpr (Or.inl (has_join.mpr (Or.inr h1)))
      · simp at hb
    · simp at hb
  | loopExit _ ihk =>
    intro a a' rs h hb
    simp only [bcheck] at hb
    split at hb
    · rename_i m rb hm
      split at hb
      · rename_i a3 r3 hk
        simp only [Option.some.injEq, Prod.mk.injEq] at hb
        obtain ⟨h1, h2⟩ := hb; subst h1; subst h2
        have hm1 := (bloop_spec hm (wide_widen n a)).1
        exact (ihk ((rel_widen n h).weaken hm1) hk).mono fun x hx => has_join.mpr (Or.inr hx)
      · simp at hb
    · simp at hb
  | loopIter _ _ ihb ihloop =>
    intro a a' rs h hb
    have hb0 := hb
    simp only [bcheck] at hb
    split at hb
    · rename_i m rb hm
      obtain ⟨hsub, hwide, m', hf, hs⟩ := bloop_spec hm (wide_widen n a)
      have hrel : Rel _ m := (rel_widen n h).weaken hsub
      have h1 : Rel _ m' := ihb hrel hf
      have h2 : Rel _ m := h1.weaken (subN_spec hs hwide)
      refine ihloop h2 ?_
      simp only [bcheck, widen_of_wide hwide, bloop_stable hm (wide_widen n a)]
      exact hb
    · simp at hb
  | loopRet _ ihb =>
    intro a a' rs h hb
    simp only [bcheck] at hb
    split at hb
    · rename_i m rb hm
      split at hb
      · rename_i a3 r3 hk
        simp only [Option.some.injEq, Prod.mk.injEq] at hb
        obtain ⟨h1, h2⟩ := hb; subst h1; subst h2
        obtain ⟨hsub, hwide, m', hf, hs⟩ := bloop_spec hm (wide_widen n a)
        have hrel : Rel _ m := (rel_widen n h).weaken hsub
        have h1 : rb.has _ = true := ihb hrel hf
        exact has_join.mpr (Or.inl h1)
      · simp at hb
    · simp at hb

end XrsVerif.BK
