import XrsVerif.Proofs.ILRegionsRel
/-
  Proofs/ILRegionsFind.lean -- the search loop of the first pass of `Gen.IL.areaConnectivity`

      assigned_value = None
      for j in range(len(neighbor_matches)):
          area_val = area_window[neighbor_matches[j]]
          if area_val > 0:
              assigned_value = area_val
              break

  `exec_findLoop`: afterwards `assigned_value$some` says whether some matching window position `k` has
  `area_window[k] > 0`, and `assigned_value` is `area_window[k]` for the first such `k` (in the order of
  `neighbor_matches`); only `j`, `area_val`, `assigned_value`, `assigned_value$some` change.
-/
namespace XrsVerif.IL.Rg
open XrsVerif XrsVerif.IL XrsVerif.Regions
variable {F : Type} [Fl F]
set_option linter.unusedSectionVars false
set_option linter.unusedVariables false
set_option linter.unusedSimpArgs false

theorem getD_map_cast (l : List Nat) (j : Nat) : (l.map natCast).getD j 0 = ((l.getD j 0 : Nat) : Int) := by
  simp only [List.getD_eq_getElem?_getD, List.getElem?_map]
  cases l[j]? <;> simp

theorem getD_mem (l : List Nat) (j : Nat) (h : j < l.length) : l.getD j 0 ∈ l := by
  simp only [List.getD_eq_getElem?_getD, List.getElem?_eq_getElem h, Option.getD_some]
  exact List.getElem_mem h

/-- `area_val > 0` -/
def isPos (a : F) : Bool := Fl.lt (Fl.lit 0 1) a

theorem findLoop_aux (fuel : Nat) (n : Nat) (idx : List Nat) (AW : List F) (hAW : AW.length = n)
    (hidx : ∀ k ∈ idx, k < n) (m : Nat) :
    ∀ (j0 : Nat) (st : State F), j0 + m = idx.length → st.ctl = .run →
      st.shp "neighbor_matches" = [idx.length] → st.ia "neighbor_matches" = idx.map natCast →
      st.shp "area_window" = [n] → st.fa "area_window" = AW →
      ∃ (ie' : String → Int) (fe' : String → F), (∀ v, v ≠ "j" → ie' v = st.ienv v) ∧
        (∀ v, v ≠ "area_val" → v ≠ "assigned_value" → fe' v = st.fenv v) ∧
        (∀ j, (List.range' j0 m).find? (fun j => isPos (AW.getD (idx.getD j 0) Fl.nan)) = some j →
          fe' "assigned_value" = AW.getD (idx.getD j 0) Fl.nan) ∧
        loopOver (fun st i => exec fuel findBody { st with ienv := setS st.ienv "j" i })
            ((List.range' j0 m).map natCast) st =
          { st with
            ienv := ie', fenv := fe',
            benv := if ((List.range' j0 m).find? (fun j => isPos (AW.getD (idx.getD j 0) Fl.nan))).isSome
                    then setS st.benv "assigned_value$some" true else st.benv } := by
  induction m with
  | zero =>
    intro j0 st hj hrun hns hni has haf
    refine ⟨st.ienv, st.fenv, fun _ _ => rfl, fun _ _ _ => rfl, ?_, ?_⟩
    · intro j hj; simp at hj
    · simp only [List.range'_zero, List.map_nil, loopOver_nil, afterLoop_run _ hrun, List.find?_nil,
        Option.isSome_none, Bool.false_eq_true, if_false]
  | succ m ih =>
    intro j0 st hj hrun hns hni has haf
    have hj0 : j0 < idx.length := by omega
    have hk : idx.getD j0 0 < n := hidx _ (getD_mem idx j0 hj0)
    let a : F := AW.getD (idx.getD j0 0) Fl.nan
    -- `area_val = area_window[neighbor_matches[j]]`
    let st1 : State F := { st with ienv := setS st.ienv "j" (j0 : Int), fenv := setS st.fenv "area_val" a }
    have h1 : exec fuel (.setF "area_val" (.ld1 "area_window" (.ld1 "neighbor_matches" (.var "j"))))
        { st with ienv := setS st.ienv "j" (j0 : Int) } = st1 := by
      rw [exec_setF]
      simp only [FE.ok, IE.ok, FE.eval, IE.eval, setS_same, hns, hni, has, haf, List.length_cons, List.length_nil,
        List.getD_cons_zero, decide_true, Bool.and_true, Bool.true_and, inRange_of_lt _ _ hj0, off1_nat,
        getD_map_cast, inRange_of_lt _ _ hk, if_true]
      rfl
    rw [List.range'_succ, List.map_cons, loopOver_cons _ _ _ _ hrun]
    by_cases hp : isPos a = true
    · -- found: break
      let st2 : State F :=
        { st with
          ienv := setS st.ienv "j" (j0 : Int),
          fenv := setS (setS st.fenv "area_val" a) "assigned_value" a,
          benv := setS st.benv "assigned_value$some" true,
          ctl := .brk }
      have hbody : exec fuel findBody { st with ienv := setS st.ienv "j" (j0 : Int) } = st2 := by
        unfold findBody
        rw [exec_seq, h1, if_pos (by exact hrun), exec_ite]
        have hc : Fl.lt (Fl.lit 0 1) (setS st.fenv "area_val" a "area_val") = true := by rw [setS_same]; exact hp
        simp only [BE.ok, FE.ok, IE.ok, BE.eval, FE.eval, IE.eval, CmpOp.eval, st1, hc, Bool.and_true, if_true]
        rw [exec_seq, exec_setF]
        simp only [FE.ok, FE.eval, setS_same, if_true]
        rw [if_pos (by exact hrun), exec_seq, exec_setB]
        simp only [BE.ok, BE.eval, if_true]
        rw [if_pos (by exact hrun), exec_brk]
      rw [hbody]
      have hfind : (j0 :: List.range' (j0 + 1) m).find? (fun j => isPos (AW.getD (idx.getD j 0) Fl.nan)) = some j0 := by
        rw [List.find?_cons]; simp only [show isPos (AW.getD (idx.getD j0 0) Fl.nan) = true from hp]
      refine ⟨setS st.ienv "j" (j0 : Int), setS (setS st.fenv "area_val" a) "assigned_value" a,
        fun v hv => setS_other _ _ _ _ hv, fun v h1 h2 => ?_, ?_, ?_⟩
      · rw [setS_other _ _ _ _ h2, setS_other _ _ _ _ h1]
      · intro j hj
        rw [hfind] at hj
        cases hj
        exact setS_same _ _ _
      · rw [hfind]
        simp [afterBody, afterLoop, st2, hrun]
    · -- not found here: go on
      have hp' : isPos a = false := by simpa using hp
      have hbody : exec fuel findBody { st with ienv := setS st.ienv "j" (j0 : Int) } = st1 := by
        unfold findBody
        rw [exec_seq, h1, if_pos (by exact hrun), exec_ite]
        have hc : Fl.lt (Fl.lit 0 1) (setS st.fenv "area_val" a "area_val") = false := by rw [setS_same]; exact hp'
        simp only [BE.ok, FE.ok, IE.ok, BE.eval, FE.eval, IE.eval, CmpOp.eval, st1, hc, Bool.and_true, if_true,
          Bool.false_eq_true, if_false, exec_skip]
      rw [hbody, afterBody_run _ (by exact hrun), if_pos (by exact hrun)]
      obtain ⟨ie', fe', hie, hfe, hfound, heq⟩ := ih (j0 + 1) st1 (by omega) (by exact hrun) (by exact hns)
        (by exact hni) (by exact has) (by exact haf)
      have hfind : (j0 :: List.range' (j0 + 1) m).find? (fun j => isPos (AW.getD (idx.getD j 0) Fl.nan)) =
          (List.range' (j0 + 1) m).find? (fun j => isPos (AW.getD (idx.getD j 0) Fl.nan)) := by
        rw [List.find?_cons]; simp only [show isPos (AW.getD (idx.getD j0 0) Fl.nan) = false from hp']
      refine ⟨ie', fe', fun v hv => ?_, fun v h1 h2 => ?_, ?_, ?_⟩
      · rw [hie v hv]; exact setS_other _ _ _ _ hv
      · rw [hfe v h1 h2]; exact setS_other _ _ _ _ h1
      · intro j hj; rw [hfind] at hj; exact hfound j hj
      · rw [heq, hfind]

/-- the search loop of the first pass -/
theorem exec_findLoop (fuel : Nat) (n : Nat) (idx : List Nat) (s : State F) (hrun : s.ctl = .run)
    (hidx : ∀ k ∈ idx, k < n) (hns : s.shp "neighbor_matches" = [idx.length])
    (hni : s.ia "neighbor_matches" = idx.map natCast) (has : s.shp "area_window" = [n])
    (hal : (s.fa "area_window").length = n) :
    ∃ (ie' : String → Int) (fe' : String → F), (∀ v, v ≠ "j" → ie' v = s.ienv v) ∧
      (∀ v, v ≠ "area_val" → v ≠ "assigned_value" → fe' v = s.fenv v) ∧
      (∀ k, idx.find? (fun k => isPos ((s.fa "area_window").getD k Fl.nan)) = some k →
        fe' "assigned_value" = (s.fa "area_window").getD k Fl.nan) ∧
      exec fuel findLoop s =
        { s with
          ienv := ie', fenv := fe',
          benv := if (idx.find? (fun k => isPos ((s.fa "area_window").getD k Fl.nan))).isSome
                  then setS s.benv "assigned_value$some" true else s.benv } := by
  obtain ⟨ie', fe', hie, hfe, hfound, heq⟩ := findLoop_aux fuel n idx (s.fa "area_window") hal hidx idx.length 0 s
    (by omega) hrun hns hni has rfl
  -- the search over positions `j` is the search over the list
  have hconv : idx.find? (fun k => isPos ((s.fa "area_window").getD k Fl.nan)) =
      ((List.range' 0 idx.length).find? (fun j => isPos ((s.fa "area_window").getD (idx.getD j 0) Fl.nan))).map
        (fun j => idx.getD j 0) := by
    have h : idx = (List.range' 0 idx.length).map fun j => idx.getD j 0 := by
      apply List.ext_getElem
      · simp
      · intro i h1 h2; simp [List.getD_eq_getElem?_getD, List.getElem?_eq_getElem h1]
    conv => lhs; rw [h]
    rw [List.find?_map]
    rfl
  refine ⟨ie', fe', hie, hfe, ?_, ?_⟩
  · intro k hk
    rw [hconv] at hk
    cases hf : (List.range' 0 idx.length).find? (fun j => isPos ((s.fa "area_window").getD (idx.getD j 0) Fl.nan)) with
    | none => rw [hf] at hk; simp at hk
    | some j =>
      rw [hf] at hk
      simp only [Option.map_some, Option.some.injEq] at hk
      rw [← hk]
      exact hfound j hf
  · unfold findLoop
    rw [exec_forRange_nat fuel "j" _ _ s idx.length (by simp [IE.ok, hns]) (by simp [IE.eval, hns]), range_map_cast,
      heq, hconv]
    simp only [Option.isSome_map]

end XrsVerif.IL.Rg
