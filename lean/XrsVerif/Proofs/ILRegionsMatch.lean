import XrsVerif.Proofs.ILRegionsGather
/-
  Proofs/ILRegionsMatch.lean -- step 2 of the refinement of `Gen.IL.areaConnectivity`: the match block

      rtol = 1e-05; atol = 1e-08
      is_close = np.abs(src_window - val) <= (atol + rtol * np.abs(val))
      neighbor_matches = np.where(is_close)[0]

  which the translator expands into two loops (`closeLoop`, `whereLoop`) and two allocations.

  `exec_matchThen`: afterwards `neighbor_matches` is the increasing list of the window positions `k` with
  `closeF val src_window[k]`, where `closeF v a = Fl.le (Fl.abs (Fl.sub a v)) (Fl.add 1e-8 (Fl.mul 1e-5 (Fl.abs v)))` is the
  source's test read off the `Fl` operations (an abstract Boolean relation: no law of `Fl` is used); its shape is
  `[number of such positions]`; apart from that only the scratch variables `rtol`, `atol`, `is_close`, the loop
  variables and the counter changed.  No access is out of range.
-/
namespace XrsVerif.IL.Rg
open XrsVerif XrsVerif.IL XrsVerif.Regions
variable {F : Type} [Fl F]
set_option linter.unusedSectionVars false
set_option linter.unusedVariables false
set_option linter.unusedSimpArgs false

/-- the closeness test of the source with explicit tolerances: window value `a` against the centre value `v` -/
def closeT (atol rtol v a : F) : Bool := Fl.le (Fl.abs (Fl.sub a v)) (Fl.add atol (Fl.mul rtol (Fl.abs v)))

/-- ... with the source's tolerances `atol = 1e-08`, `rtol = 1e-05` -/
def closeF (v a : F) : Bool := closeT (Fl.lit 1 100000000) (Fl.lit 1 100000) v a

abbrev natCast : Nat → Int := fun k => (k : Int)

theorem range_map_cast (n : Nat) :
    (List.range n).map (fun (k : Nat) => (k : Int)) = (List.range' 0 n).map natCast := by
  rw [List.range_eq_range']

/-! ### `is_close = …` -/

theorem closeLoop_aux (fuel : Nat) (ek : String) (n : Nat) (A R V : F) (SW : List F) (m : Nat) :
    ∀ (k0 : Nat) (st : State F), k0 + m = n → st.ctl = .run → st.shp "src_window" = [n] →
      st.shp "is_close" = [n] → (st.ia "is_close").length = n → st.fenv "atol" = A → st.fenv "rtol" = R →
      st.fenv "val" = V → st.fa "src_window" = SW →
      ∃ ie' : String → Int, (∀ v, v ≠ ek → ie' v = st.ienv v) ∧
        loopOver (fun st i => exec fuel (closeBody ek) { st with ienv := setS st.ienv ek i })
            ((List.range' k0 m).map natCast) st =
          { st with
            ienv := ie',
            ia := setS st.ia "is_close" (putFrom (st.ia "is_close") k0
                    ((List.range' k0 m).map fun k => if closeT A R V (SW.getD k Fl.nan) then (1 : Int) else 0)) } := by
  induction m with
  | zero =>
    intro k0 st hk hrun hsw hic hil hA hR hV hS
    refine ⟨st.ienv, fun _ _ => rfl, ?_⟩
    simp only [List.range'_zero, List.map_nil, loopOver_nil, afterLoop_run _ hrun, putFrom, setS_self]
  | succ m ih =>
    intro k0 st hk hrun hsw hic hil hA hR hV hS
    have hk0 : k0 < n := by omega
    let st1 : State F :=
      { st with
        ienv := setS st.ienv ek (k0 : Int),
        ia := setS st.ia "is_close" ((st.ia "is_close").set k0
                (if closeT A R V (SW.getD k0 Fl.nan) then (1 : Int) else 0)) }
    have hbody : exec fuel (closeBody ek) { st with ienv := setS st.ienv ek (k0 : Int) } = st1 := by
      unfold closeBody
      rw [exec_ite]
      simp only [closeBE, BE.ok, FE.ok, IE.ok, BE.eval, FE.eval, IE.eval, CmpOp.eval, UnOp.eval, BinOp.eval,
        setS_same, hsw, hA, hR, hV, hS, natCast, List.length_cons, List.length_nil, List.getD_cons_zero,
        decide_true, Bool.and_true, Bool.true_and, inRange_of_lt _ _ hk0, off1_nat, if_true]
      by_cases hc : closeT A R V (SW.getD k0 Fl.nan) = true
      · simp only [closeT] at hc
        simp only [hc, if_true, closeT]
        rw [exec_stI1]
        simp only [IE.ok, IE.eval, setS_same, hic, List.length_cons, List.length_nil, List.getD_cons_zero,
          decide_true, Bool.and_true, Bool.true_and, inRange_of_lt _ _ hk0, off1_nat, if_true]
        simp only [st1, closeT, hc, if_true, natCast]
      · simp only [closeT] at hc
        simp only [hc, Bool.false_eq_true, if_false, closeT]
        rw [exec_stI1]
        simp only [IE.ok, IE.eval, setS_same, hic, List.length_cons, List.length_nil, List.getD_cons_zero,
          decide_true, Bool.and_true, Bool.true_and, inRange_of_lt _ _ hk0, off1_nat, if_true]
        simp only [st1, closeT, hc, Bool.false_eq_true, if_false, natCast]
    rw [List.range'_succ, List.map_cons, loopOver_cons _ _ _ _ hrun, hbody, afterBody_run _ (by exact hrun),
      if_pos (by exact hrun)]
    obtain ⟨ie', hie, heq⟩ := ih (k0 + 1) st1 (by omega) (by exact hrun) (by exact hsw) (by exact hic)
      (by simp [st1, hil]) (by exact hA) (by exact hR) (by exact hV) (by exact hS)
    refine ⟨ie', fun v hv => ?_, ?_⟩
    · rw [hie v hv]; exact setS_other _ _ _ _ hv
    · rw [heq]
      simp only [st1, setS_same, setS_setS, List.map_cons, putFrom]

/-- `is_close = np.abs(src_window - val) <= (atol + rtol * np.abs(val))` -/
theorem exec_closeLoop (fuel : Nat) (ek : String) (n : Nat) (s : State F) (hrun : s.ctl = .run)
    (hsw : s.shp "src_window" = [n]) (hsl : (s.fa "src_window").length = n)
    (hic : s.shp "is_close" = [n]) (hil : (s.ia "is_close").length = n) :
    ∃ ie' : String → Int, (∀ v, v ≠ ek → ie' v = s.ienv v) ∧
      exec fuel (closeLoop ek) s =
        { s with
          ienv := ie',
          ia := setS s.ia "is_close" ((s.fa "src_window").map fun a =>
                  if closeT (s.fenv "atol") (s.fenv "rtol") (s.fenv "val") a then (1 : Int) else 0) } := by
  obtain ⟨ie', hie, heq⟩ := closeLoop_aux fuel ek n (s.fenv "atol") (s.fenv "rtol") (s.fenv "val")
    (s.fa "src_window") n 0 s (by omega) hrun hsw hic hil rfl rfl rfl rfl
  refine ⟨ie', hie, ?_⟩
  unfold closeLoop
  rw [exec_forRange_nat fuel ek _ _ s n (by simp [IE.ok, hsw]) (by simp [IE.eval, hsw]), range_map_cast]
  rw [heq, putFrom_all _ _ (by simp [hil])]
  congr 2
  apply List.ext_getElem
  · simp [hsl]
  · intro i h1 h2
    simp only [List.length_map, List.length_range'] at h1
    simp [List.getD_eq_getElem?_getD, List.getElem?_eq_getElem (show i < (s.fa "src_window").length by omega)]

/-! ### `neighbor_matches = np.where(is_close)[0]` -/

theorem whereLoop_aux (fuel : Nat) (wn wk : String) (hne : wn ≠ wk) (n cnt : Nat) (M : List Int) (m : Nat) :
    ∀ (k0 c0 : Nat) (st : State F), k0 + m = n → st.ctl = .run → st.shp "is_close" = [n] →
      st.shp "neighbor_matches" = [cnt] → (st.ia "neighbor_matches").length = cnt → st.ia "is_close" = M →
      st.ienv wn = (c0 : Int) →
      c0 + ((List.range' k0 m).filter fun k => decide (M.getD k 0 ≠ 0)).length ≤ cnt →
      ∃ ie' : String → Int, (∀ v, v ≠ wn → v ≠ wk → ie' v = st.ienv v) ∧
        loopOver (fun st i => exec fuel (whereBody wn wk) { st with ienv := setS st.ienv wk i })
            ((List.range' k0 m).map natCast) st =
          { st with
            ienv := ie',
            ia := setS st.ia "neighbor_matches" (putFrom (st.ia "neighbor_matches") c0
                    (((List.range' k0 m).filter fun k => decide (M.getD k 0 ≠ 0)).map natCast)) } := by
  induction m with
  | zero =>
    intro k0 c0 st hk hrun hic hnm hnl hM hc0 hcnt
    refine ⟨st.ienv, fun _ _ _ => rfl, ?_⟩
    simp only [List.range'_zero, List.map_nil, List.filter_nil, loopOver_nil, afterLoop_run _ hrun, putFrom, setS_self]
  | succ m ih =>
    intro k0 c0 st hk hrun hic hnm hnl hM hc0 hcnt
    have hk0 : k0 < n := by omega
    have hwn : setS st.ienv wk (k0 : Int) wn = (c0 : Int) := by rw [setS_other _ _ _ _ hne, hc0]
    rw [List.range'_succ, List.map_cons, loopOver_cons _ _ _ _ hrun]
    by_cases hc : M.getD k0 0 ≠ 0
    · -- a match: stored at position c0
      have hd : decide (M.getD k0 0 ≠ 0) = true := by simpa using hc
      rw [List.range'_succ, List.filter_cons, if_pos hd, List.length_cons] at hcnt
      have hlen : c0 < cnt := by omega
      let st1 : State F :=
        { st with
          ienv := setS (setS st.ienv wk (k0 : Int)) wn ((c0 : Int) + 1),
          ia := setS st.ia "neighbor_matches" ((st.ia "neighbor_matches").set c0 (k0 : Int)) }
      have hbody : exec fuel (whereBody wn wk) { st with ienv := setS st.ienv wk (k0 : Int) } = st1 := by
        unfold whereBody
        rw [exec_ite]
        simp only [BE.ok, IE.ok, BE.eval, IE.eval, cmpInt, setS_same, hic, hM, natCast, List.length_cons,
          List.length_nil, List.getD_cons_zero, decide_true, Bool.and_true, Bool.true_and, inRange_of_lt _ _ hk0,
          off1_nat, if_true, hd]
        rw [exec_seq, exec_stI1]
        simp only [IE.ok, IE.eval, setS_same, hnm, hwn, natCast, List.length_cons, List.length_nil,
          List.getD_cons_zero, decide_true, Bool.and_true, Bool.true_and, inRange_of_lt _ _ hlen, off1_nat, if_true,
          hrun]
        rw [exec_setI]
        simp only [IE.ok, IE.eval, IOp.eval, Bool.and_true, if_true, hwn, natCast]
        simp only [st1, hrun]
      rw [hbody, afterBody_run _ (by exact hrun), if_pos (by exact hrun)]
      obtain ⟨ie', hie, heq⟩ := ih (k0 + 1) (c0 + 1) st1 (by omega) (by exact hrun) (by exact hic) (by exact hnm)
        (by simp [st1, hnl]) (by exact hM) (by simp [st1]) (by omega)
      refine ⟨ie', fun v h1 h2 => ?_, ?_⟩
      · rw [hie v h1 h2]; show setS (setS st.ienv wk (k0 : Int)) wn _ v = _
        rw [setS_other _ _ _ _ h1, setS_other _ _ _ _ h2]
      · rw [heq]
        simp only [st1, setS_same, setS_setS, List.range'_succ, List.filter_cons, hd, if_true, List.map_cons, putFrom]
    · have hc' : M.getD k0 0 = 0 := by simpa using hc
      have hd : decide (M.getD k0 0 ≠ 0) = false := by rw [hc']; decide
      rw [List.range'_succ, List.filter_cons, if_neg (by rw [hd]; exact Bool.false_ne_true)] at hcnt
      let st1 : State F := { st with ienv := setS st.ienv wk (k0 : Int) }
      have hbody : exec fuel (whereBody wn wk) { st with ienv := setS st.ienv wk (k0 : Int) } = st1 := by
        unfold whereBody
        rw [exec_ite]
        simp only [BE.ok, IE.ok, BE.eval, IE.eval, cmpInt, setS_same, hic, hM, natCast, List.length_cons,
          List.length_nil, List.getD_cons_zero, decide_true, Bool.and_true, Bool.true_and, inRange_of_lt _ _ hk0,
          off1_nat, if_true, hc', ne_eq, not_true_eq_false, decide_false, Bool.false_eq_true, if_false, exec_skip]
        rfl
      rw [hbody, afterBody_run _ (by exact hrun), if_pos (by exact hrun)]
      obtain ⟨ie', hie, heq⟩ := ih (k0 + 1) c0 st1 (by omega) (by exact hrun) (by exact hic) (by exact hnm)
        (by exact hnl) (by exact hM) (by exact hwn) hcnt
      refine ⟨ie', fun v h1 h2 => ?_, ?_⟩
      · rw [hie v h1 h2]; exact setS_other _ _ _ _ h2
      · rw [heq]
        simp only [st1, List.range'_succ, List.filter_cons, hd, Bool.false_eq_true, if_false]

/-! ### counting -/

theorem sum_mask_aux (c : F → Bool) (l : List F) (acc : Int) :
    (l.map fun a => if c a then (1 : Int) else 0).foldl (· + ·) acc = acc + ((l.filter c).length : Int) := by
  induction l generalizing acc with
  | nil => simp
  | cons a l ih =>
    simp only [List.map_cons, List.foldl_cons, ih, List.filter_cons]
    by_cases h : c a = true <;> simp [h] <;> omega

/-- the matching window positions, in increasing order -/
def matchIdx (c : F → Bool) (SW : List F) : List Nat :=
  (List.range SW.length).filter fun k => c (SW.getD k Fl.nan)

theorem filter_eq_matchIdx (c : F → Bool) (SW : List F) :
    SW.filter c = (matchIdx c SW).map fun k => SW.getD k Fl.nan := by
  have h : SW = (List.range SW.length).map fun k => SW.getD k Fl.nan := by
    apply List.ext_getElem
    · simp
    · intro i h1 h2; simp [List.getD_eq_getElem?_getD, List.getElem?_eq_getElem h1]
  conv => lhs; rw [h]
  rw [List.filter_map]
  rfl

theorem matchIdx_length (c : F → Bool) (SW : List F) : (matchIdx c SW).length = (SW.filter c).length := by
  rw [filter_eq_matchIdx]; simp

theorem matchIdx_lt (c : F → Bool) (SW : List F) (k : Nat) (h : k ∈ matchIdx c SW) : k < SW.length := by
  simp only [matchIdx, List.mem_filter, List.mem_range] at h; exact h.1

/-- the positions where the mask built from `c` is non-zero -/
theorem mask_filter (c : F → Bool) (SW : List F) :
    ((List.range' 0 SW.length).filter fun k =>
        decide ((SW.map fun a => if c a then (1 : Int) else 0).getD k 0 ≠ 0)) = matchIdx c SW := by
  rw [matchIdx, List.range_eq_range']
  apply List.filter_congr
  intro k hk
  have hk' : k < SW.length := by simpa using hk
  simp only [List.getD_eq_getElem?_getD, List.getElem?_map, List.getElem?_eq_getElem hk', Option.map_some,
    Option.getD_some]
  by_cases h : c SW[k] = true <;> simp [h]

/-! ### the whole block -/

/-- the positions where the mask built from `c` is non-zero -/
theorem mask_filter_len (c : F → Bool) (SW : List F) (n : Nat) (h : SW.length = n) :
    ((List.range' 0 n).filter fun k =>
        decide ((SW.map fun a => if c a then (1 : Int) else 0).getD k 0 ≠ 0)) = matchIdx c SW := by
  subst h; exact mask_filter c SW

/-- **step 2**: tolerances, closeness mask and `np.where`: `neighbor_matches` = the window positions close to `val` -/
theorem exec_matchThen (fuel : Nat) (ek wn wk : String) (hne : wn ≠ wk) (rest : St) (n : Nat) (s : State F)
    (hrun : s.ctl = .run) (hsw : s.shp "src_window" = [n]) (hsl : (s.fa "src_window").length = n) :
    ∃ ie' : String → Int, (∀ v, v ≠ ek → v ≠ wn → v ≠ wk → ie' v = s.ienv v) ∧
      exec fuel (matchThen ek wn wk rest) s = exec fuel rest
        { s with
          ienv := ie',
          fenv := setS (setS s.fenv "rtol" (Fl.lit 1 100000)) "atol" (Fl.lit 1 100000000),
          shp := setS (setS s.shp "is_close" [n]) "neighbor_matches"
                  [(matchIdx (closeF (s.fenv "val")) (s.fa "src_window")).length],
          ia := setS (setS s.ia "is_close"
                  ((s.fa "src_window").map fun a => if closeF (s.fenv "val") a then (1 : Int) else 0))
                  "neighbor_matches" ((matchIdx (closeF (s.fenv "val")) (s.fa "src_window")).map natCast) } := by
  -- rtol, atol, allocation of the mask
  let s3 : State F :=
    { s with
      fenv := setS (setS s.fenv "rtol" (Fl.lit 1 100000)) "atol" (Fl.lit 1 100000000),
      shp := setS s.shp "is_close" [n],
      ia := setS s.ia "is_close" (List.replicate n 0) }
  have h3 : ∀ k : St, exec fuel (.seq (.setF "rtol" (.lit 1 100000)) (.seq (.setF "atol" (.lit 1 100000000))
      (.seq (.allocI "is_close" [(.dim "src_window" 0)] (.lit 0)) k))) s = exec fuel k s3 := by
    intro k
    rw [exec_seq, exec_setF]
    simp only [FE.ok, FE.eval, if_true]
    rw [if_pos (by exact hrun), exec_seq, exec_setF]
    simp only [FE.ok, FE.eval, if_true]
    rw [if_pos (by exact hrun), exec_seq, exec_allocI]
    simp only [IE.ok, IE.eval, hsw, List.all_cons, List.all_nil, List.length_cons, List.length_nil,
      List.getD_cons_zero, List.map_cons, List.map_nil, List.foldl_cons, List.foldl_nil, Bool.and_true,
      Nat.lt_add_one, decide_true, Int.toNat_natCast, Nat.one_mul, Int.natCast_nonneg, if_true]
    rw [if_pos (by exact hrun)]
  have hs3sw : s3.shp "src_window" = [n] := by
    show setS s.shp "is_close" [n] "src_window" = [n]
    rw [setS_other _ _ _ _ (by decide)]; exact hsw
  -- the mask
  obtain ⟨ie4, hie4, h4⟩ := exec_closeLoop fuel ek n s3 hrun hs3sw hsl (by simp [s3]) (by simp [s3])
  have hval : s3.fenv "val" = s.fenv "val" := by simp [s3, setS]
  have hat : s3.fenv "atol" = Fl.lit 1 100000000 := by simp [s3]
  have hrt : s3.fenv "rtol" = Fl.lit 1 100000 := by simp [s3, setS]
  rw [hval, hat, hrt] at h4
  let M : List Int := (s.fa "src_window").map fun a => if closeF (s.fenv "val") a then (1 : Int) else 0
  let idx := matchIdx (closeF (s.fenv "val")) (s.fa "src_window")
  have hsum : M.foldl (· + ·) 0 = (idx.length : Int) := by
    simp only [M, idx, sum_mask_aux, matchIdx_length]; simp
  have h4' : exec fuel (closeLoop ek) s3 = { s3 with ienv := ie4, ia := setS s3.ia "is_close" M } := h4
  -- allocation of the result, counter
  let s6 : State F :=
    { s3 with
      ienv := setS ie4 wn 0,
      shp := setS s3.shp "neighbor_matches" [idx.length],
      ia := setS (setS s3.ia "is_close" M) "neighbor_matches" (List.replicate idx.length 0) }
  have h6 : ∀ k : St, exec fuel (.seq (closeLoop ek) (.seq (.allocI "neighbor_matches" [(.sum "is_close")] (.lit 0))
      (.seq (.setI wn (.lit 0)) k))) s3 = exec fuel k s6 := by
    intro k
    rw [exec_seq, h4', if_pos (by exact hrun), exec_seq, exec_allocI]
    simp only [IE.ok, IE.eval, List.all_cons, List.all_nil, List.map_cons, List.map_nil, List.foldl_cons,
      List.foldl_nil, Bool.and_true, decide_true, if_true, Nat.one_mul, setS_same, hsum,
      Int.natCast_nonneg, Int.toNat_natCast]
    rw [if_pos (by exact hrun), exec_seq, exec_setI]
    simp only [IE.ok, IE.eval, if_true]
    rw [if_pos (by exact hrun)]
  -- np.where
  obtain ⟨ie7, hie7, h7⟩ := whereLoop_aux fuel wn wk hne n idx.length M n 0 0 s6 (by omega) hrun
    (by simp [s6, s3, setS]) (by simp [s6]) (by simp [s6]) (by simp [s6, setS]) (by simp [s6])
    (by simp only [M, idx]; rw [mask_filter_len _ _ _ hsl]; omega)
  have h7' : exec fuel (whereLoop wn wk) s6 =
      { s6 with ienv := ie7, ia := setS s6.ia "neighbor_matches" (idx.map natCast) } := by
    unfold whereLoop
    rw [exec_forRange_nat fuel wk _ _ s6 n (by simp [IE.ok, s6, s3, setS]) (by simp [IE.eval, s6, s3, setS]),
      range_map_cast, h7]
    have : ((List.range' 0 n).filter fun k => decide (M.getD k 0 ≠ 0)) = idx := mask_filter_len _ _ _ hsl
    rw [this, putFrom_all _ _ (by simp [s6])]
  refine ⟨ie7, fun v h1 h2 h3 => ?_, ?_⟩
  · rw [hie7 v h2 h3]
    show setS ie4 wn 0 v = _
    rw [setS_other _ _ _ _ h2, hie4 v h1]
  · unfold matchThen
    rw [h3, h6, exec_seq, h7', if_pos (by exact hrun)]
    simp only [s6, s3, setS_setS]
    rfl

end XrsVerif.IL.Rg
