import Mathlib.Geometry.Euclidean.Angle.Unoriented.TriangleInequality
import Mathlib.Analysis.InnerProductSpace.PiL2
import Mathlib.Analysis.SpecialFunctions.Trigonometric.Inverse
/-
  The spherical triangle inequality for the haversine central angle (C19, great-circle distance).
  `hv` is the haversine term of two (longitude, latitude) pairs in radians; `vec` the corresponding unit
  vector of Euclidean 3-space; `1 - 2 hv = <vec p, vec q>`, so `2 arcsin √hv` is the angle between the
  two vectors and Mathlib's `InnerProductGeometry.angle_le_angle_add_angle` applies.
-/
open Real

namespace XrsVerif.Sphere

/-- haversine term for (longitude, latitude) pairs in radians -/
noncomputable def hv (l1 f1 l2 f2 : ℝ) : ℝ :=
  sin ((f2 - f1) / 2) * sin ((f2 - f1) / 2) + cos f1 * cos f2 * (sin ((l2 - l1) / 2) * sin ((l2 - l1) / 2))

/-- the point of the unit sphere -/
noncomputable def vec (l f : ℝ) : EuclideanSpace ℝ (Fin 3) := !₂[cos f * cos l, cos f * sin l, sin f]

theorem inner_vec (l1 f1 l2 f2 : ℝ) : inner ℝ (vec l1 f1) (vec l2 f2) = 1 - 2 * hv l1 f1 l2 f2 := by
  simp only [vec, PiLp.inner_apply, Fin.sum_univ_three, hv]
  simp
  have h1 : sin ((f2 - f1) / 2) * sin ((f2 - f1) / 2) = 1 / 2 - cos (f2 - f1) / 2 := by
    have := Real.sin_sq_eq_half_sub ((f2 - f1) / 2)
    rw [show 2 * ((f2 - f1) / 2) = f2 - f1 by ring] at this
    rw [← this]; ring
  have h2 : sin ((l2 - l1) / 2) * sin ((l2 - l1) / 2) = 1 / 2 - cos (l2 - l1) / 2 := by
    have := Real.sin_sq_eq_half_sub ((l2 - l1) / 2)
    rw [show 2 * ((l2 - l1) / 2) = l2 - l1 by ring] at this
    rw [← this]; ring
  rw [h1, h2, Real.cos_sub, Real.cos_sub]
  ring


theorem hv_self (l f : ℝ) : hv l f l f = 0 := by simp [hv]

theorem norm_vec (l f : ℝ) : ‖vec l f‖ = 1 := by
  have h : ‖vec l f‖ ^ 2 = 1 := by
    rw [← real_inner_self_eq_norm_sq, inner_vec, hv_self]; ring
  have h0 : 0 ≤ ‖vec l f‖ := norm_nonneg _
  nlinarith [sq_nonneg (‖vec l f‖ - 1), sq_nonneg (‖vec l f‖ + 1)]

theorem angle_vec (l1 f1 l2 f2 : ℝ) :
    InnerProductGeometry.angle (vec l1 f1) (vec l2 f2) = arccos (1 - 2 * hv l1 f1 l2 f2) := by
  unfold InnerProductGeometry.angle
  rw [norm_vec, norm_vec, inner_vec]; simp

/-- `2 arcsin √a = arccos (1 - 2a)` on [0, 1] -/
theorem two_arcsin_sqrt (a : ℝ) (h0 : 0 ≤ a) (h1 : a ≤ 1) : 2 * arcsin (sqrt a) = arccos (1 - 2 * a) := by
  have hs0 : 0 ≤ sqrt a := sqrt_nonneg a
  have hs1 : sqrt a ≤ 1 := Real.sqrt_le_one.mpr h1
  have ht0 : 0 ≤ arcsin (sqrt a) := arcsin_nonneg.mpr hs0
  have ht1 : arcsin (sqrt a) ≤ π / 2 := arcsin_le_pi_div_two _
  have hsin : sin (arcsin (sqrt a)) = sqrt a := sin_arcsin (by linarith) hs1
  have hcos : cos (2 * arcsin (sqrt a)) = 1 - 2 * a := by
    rw [cos_two_mul, cos_sq', hsin, sq_sqrt h0]; ring
  rw [← hcos, arccos_cos (by linarith) (by linarith)]

/-- the haversine term lies in [0, 1] when both latitudes are in [-π/2, π/2] -/
theorem hv_nonneg (l1 f1 l2 f2 : ℝ) (a1 : -(π / 2) ≤ f1) (b1 : f1 ≤ π / 2) (a2 : -(π / 2) ≤ f2) (b2 : f2 ≤ π / 2) :
    0 ≤ hv l1 f1 l2 f2 := by
  unfold hv
  have c1 := cos_nonneg_of_neg_pi_div_two_le_of_le a1 b1
  have c2 := cos_nonneg_of_neg_pi_div_two_le_of_le a2 b2
  exact add_nonneg (mul_self_nonneg _) (mul_nonneg (mul_nonneg c1 c2) (mul_self_nonneg _))

theorem hv_le_one (l1 f1 l2 f2 : ℝ) : hv l1 f1 l2 f2 ≤ 1 := by
  have h := inner_vec l1 f1 l2 f2
  have hb := abs_real_inner_le_norm (vec l1 f1) (vec l2 f2)
  rw [norm_vec, norm_vec, h] at hb
  have := (abs_le.mp hb).1
  linarith

/-- **spherical triangle inequality** for the haversine central angle -/
theorem haversine_triangle (l1 f1 l2 f2 l3 f3 : ℝ)
    (a1 : -(π / 2) ≤ f1) (b1 : f1 ≤ π / 2) (a2 : -(π / 2) ≤ f2) (b2 : f2 ≤ π / 2)
    (a3 : -(π / 2) ≤ f3) (b3 : f3 ≤ π / 2) :
    2 * arcsin (sqrt (hv l1 f1 l3 f3)) ≤
      2 * arcsin (sqrt (hv l1 f1 l2 f2)) + 2 * arcsin (sqrt (hv l2 f2 l3 f3)) := by
  rw [two_arcsin_sqrt _ (hv_nonneg _ _ _ _ a1 b1 a3 b3) (hv_le_one _ _ _ _),
      two_arcsin_sqrt _ (hv_nonneg _ _ _ _ a1 b1 a2 b2) (hv_le_one _ _ _ _),
      two_arcsin_sqrt _ (hv_nonneg _ _ _ _ a2 b2 a3 b3) (hv_le_one _ _ _ _),
      ← angle_vec, ← angle_vec, ← angle_vec]
  exact InnerProductGeometry.angle_le_angle_add_angle _ _ _

end XrsVerif.Sphere
