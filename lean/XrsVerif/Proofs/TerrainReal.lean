import XrsVerif.Proofs.NV
import Mathlib.Analysis.SpecialFunctions.Trigonometric.Arctan
import Mathlib.Analysis.SpecialFunctions.Complex.Arg
import Mathlib.Analysis.Real.Pi.Bounds
/-!
  The real-number interpretation of the transcendental symbols of the generated kernels
  (`Trig ℝ`: `Real.sqrt`, `Real.arctan`, `atan2 y x = Complex.arg (x + y i)`, ...) and the analytic facts
  C08 needs about it: ranges of `arctan` / `arg`, `4 * arctan 1 = π`, the numeric bound on the code's
  radian-to-degree constant, and the quarter-turn law of `atan2`.
-/
namespace XrsVerif

noncomputable instance realTrig : Trig ℝ where
  sqrt := Real.sqrt
  atan := Real.arctan
  atan2 := fun y x => Complex.arg ⟨x, y⟩
  exp := Real.exp
  sin := Real.sin
  cos := Real.cos
  asin := Real.arcsin

namespace RealTrig
open Real

theorem four_atan_one : (4 : ℝ) * Trig.atan (1 : ℝ) = π := by
  show (4 : ℝ) * Real.arctan 1 = π
  rw [Real.arctan_one]; ring

theorem sqrt_zero : Trig.sqrt (0 : ℝ) = 0 := Real.sqrt_zero
theorem atan_zero : Trig.atan (0 : ℝ) = 0 := Real.arctan_zero

theorem atan_sqrt_nonneg (p : ℝ) : 0 ≤ Trig.atan (Trig.sqrt p : ℝ) :=
  Real.arctan_nonneg.2 (Real.sqrt_nonneg p)

theorem atan_lt (p : ℝ) : Trig.atan (p : ℝ) < π / 2 := Real.arctan_lt_pi_div_two p

/-- the code multiplies by 57.29578, slightly more than 180/π: the supremum of the slope over the reals
    is 57.29578·π/2 = 90.000000765…, *above* 90 but below 90 + 10⁻⁶ -/
theorem slope_const_bound : (2864789 / 50000 : ℝ) * (π / 2) < 90 + 1 / 1000000 := by
  have := Real.pi_lt_d20
  norm_num at this ⊢
  linarith

/-- … and it really is above 90 (so "slope ≤ 90 over ℝ" is not a theorem about this code) -/
theorem slope_const_above : (90 : ℝ) < (2864789 / 50000 : ℝ) * (π / 2) := by
  have := Real.pi_gt_d20
  norm_num at this ⊢
  linarith

theorem atan2_range (y x : ℝ) : -π < Trig.atan2 y x ∧ Trig.atan2 y x ≤ π :=
  ⟨Complex.neg_pi_lt_arg _, Complex.arg_le_pi _⟩

theorem sin_sq_add_cos_sq (t : ℝ) : Trig.sin t * Trig.sin t + Trig.cos t * Trig.cos t = 1 := by
  show Real.sin t * Real.sin t + Real.cos t * Real.cos t = 1
  have := Real.sin_sq_add_cos_sq t
  nlinarith [this]

theorem cos_sq_le_one (t : ℝ) : Trig.cos t * Trig.cos t ≤ 1 := by
  have := sin_sq_add_cos_sq t
  nlinarith [mul_self_nonneg (Trig.sin t : ℝ)]

/-- **quarter-turn law**: turning the point (x, y) ≠ 0 by +90° (to (−y, x)) adds π/2 to its argument,
    wrapped into (−π, π] -/
theorem atan2_quarter_turn (x y : ℝ) (h : x ≠ 0 ∨ y ≠ 0) :
    Trig.atan2 x (-y) =
      if Trig.atan2 y x ≤ π / 2 then Trig.atan2 y x + π / 2 else Trig.atan2 y x - 3 * π / 2 := by
  show Complex.arg ⟨-y, x⟩ =
    if Complex.arg ⟨x, y⟩ ≤ π / 2 then Complex.arg ⟨x, y⟩ + π / 2 else Complex.arg ⟨x, y⟩ - 3 * π / 2
  set z : ℂ := ⟨x, y⟩ with hz
  have hz0 : z ≠ 0 := by
    intro h0
    have h1 := congrArg Complex.re h0
    have h2 := congrArg Complex.im h0
    simp [hz] at h1 h2
    rcases h with h | h
    · exact h h1
    · exact h h2
  have hmul : (⟨-y, x⟩ : ℂ) = z * Complex.I := by
    apply Complex.ext <;> simp [hz]
  rw [hmul]
  have hang : ((z * Complex.I).arg : Real.Angle) = ((z.arg + π / 2 : ℝ) : Real.Angle) := by
    rw [Complex.arg_mul_coe_angle hz0 Complex.I_ne_zero, Complex.arg_I, Real.Angle.coe_add]
  have hlo := Complex.neg_pi_lt_arg z
  have hhi := Complex.arg_le_pi z
  have hpos := Real.pi_pos
  have htr : (z * Complex.I).arg = ((z.arg + π / 2 : ℝ) : Real.Angle).toReal := by
    rw [← hang, Complex.arg_coe_angle_toReal_eq_arg]
  rw [htr]
  split
  · rename_i hle
    rw [Real.Angle.toReal_coe_eq_self_iff]
    constructor <;> linarith
  · rename_i hgt
    have : ((z.arg + π / 2 : ℝ) : Real.Angle).toReal = (z.arg + π / 2) - 2 * π := by
      rw [Real.Angle.toReal_coe_eq_self_sub_two_pi_iff, Set.mem_Ioc]
      constructor <;> linarith
    rw [this]; ring

end RealTrig
end XrsVerif
