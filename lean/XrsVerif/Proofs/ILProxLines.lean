import XrsVerif.Proofs.ILProxRow
/-
  Proofs/ILProxLines.lean -- step 4 (second half): one line of the top-down pass of the generated `_process_numpy`
  (`tdLine`) and one line of the bottom-up pass (`buLine`) refine `Prox.rowStep`.
-/
namespace XrsVerif.IL.Px
open XrsVerif XrsVerif.Prox
variable {F : Type} [Fl F]
set_option linter.unusedSectionVars false
set_option linter.unusedSimpArgs false
attribute [-simp] List.getD_eq_getElem?_getD
attribute [local simp] List.getD_cons_zero List.getD_cons_succ

/-- what holds before every line `n` of either pass -/
structure LineCtx (c : Cfg) (emb : Nat → F) (tg : Nat → Nat → Bool) (n : Nat) (st : State F) : Prop where
  run : st.ctl = .run
  hn : n < c.H
  line : st.ienv "line" = n
  width : st.ienv "width" = c.W
  px : st.shp "pan_near_x" = [c.W]
  py : st.shp "pan_near_y" = [c.W]
  nx : st.shp "nearest_xs" = [c.W]
  ny : st.shp "nearest_ys" = [c.W]
  scan : st.shp "scan_line" = [c.W]
  img : st.shp "img" = [c.H, c.W]
  xc : st.shp "x_coords" = [c.H, c.W]
  yc : st.shp "y_coords" = [c.H, c.W]
  out : st.shp "output_img" = [c.H, c.W]
  dist : st.shp "img_distance" = [c.H, c.W]
  tv : st.shp "target_values" = [(st.fa "target_values").length]
  lpx : (st.ia "pan_near_x").length = c.W
  lpy : (st.ia "pan_near_y").length = c.W
  lnx : (st.ia "nearest_xs").length = c.W
  lny : (st.ia "nearest_ys").length = c.W
  lscan : (st.fa "scan_line").length = c.W
  lout : (st.fa "output_img").length = c.H * c.W
  ldist : (st.fa "img_distance").length = c.H * c.W
  arith : Arith c emb (st.fenv "max_distance")
  d2 : ∀ tr tc r p, tr < c.H → tc < c.W → r < c.H → p < c.W → pnDist2 c.W st tr tc r p = emb (dist2 c tr tc r p)
  tgt : ∀ p, p < c.W → targetTest ((st.fa "img").getD (n * c.W + p) Fl.nan) (st.fa "target_values") = tg n p
  /-- the `-1.0` a line starts with is negative -/
  neg1 : Fl.lt (Fl.neg (Fl.lit 1 1) : F) (Fl.lit 0 1) = true

/-- `pan_near_x/y` against the model's remembered targets -/
def PanRel (c : Cfg) (st : State F) (pan : List Tgt) : Prop :=
  pan.length = c.W ∧
  ∀ q, q < c.W → tgtRel c.H c.W ((st.ia "pan_near_x").getD q 0) ((st.ia "pan_near_y").getD q 0) (pan.getD q none)

/-- what a line of a pass leaves unchanged (it reallocates / rewrites `line_proximity` and `scan_line`) -/
structure PassFrame (W : Nat) (s r : State F) : Prop where
  shp : ∀ a, a ≠ "line_proximity" → r.shp a = s.shp a
  shp_lp : r.shp "line_proximity" = [W]
  llp : (r.fa "line_proximity").length = W
  ext : r.ext = s.ext
  ienv : ∀ v, v.toList.head? ≠ some '_' → v ≠ "i" → r.ienv v = s.ienv v
  fenv : ∀ v, v.toList.head? ≠ some '_' → r.fenv v = s.fenv v
  fa : ∀ a, a ≠ "line_proximity" → a ≠ "output_img" → a ≠ "img_distance" → a ≠ "scan_line" → r.fa a = s.fa a
  lpx : (r.ia "pan_near_x").length = W
  lpy : (r.ia "pan_near_y").length = W
  lnx : (r.ia "nearest_xs").length = W
  lny : (r.ia "nearest_ys").length = W
  lscan : (r.fa "scan_line").length = W

variable {c : Cfg} {emb : Nat → F} {tg : Nat → Nat → Bool}

/-- the state after `line_proximity = np.zeros(width)` -/
def allocLpSt (st : State F) (W : Nat) : State F :=
  { st with
    shp := setS st.shp "line_proximity" [W]
    fa := setS st.fa "line_proximity" (List.replicate W (Fl.lit 0 1)) }

omit c emb tg in
theorem allocLp_exec (st : State F) (fuel W : Nat) (hw : st.ienv "width" = W) :
    exec fuel (.allocF "line_proximity" [(.var "width")] (.lit 0 1)) st = allocLpSt st W := by
  simp [exec, IE.ok, IE.eval, FE.ok, FE.eval, hw, allocLpSt]

/-- **one line of the top-down pass refines `Prox.rowStep … true n pan (blankRow c)`** -/
theorem tdLine_refines (st : State F) (fuel n : Nat) (pan : List Tgt) (cx : LineCtx c emb tg n st)
    (hpan : PanRel c st pan)
    (hout : ∀ p, p < c.W → (st.fa "output_img").getD (n * c.W + p) Fl.nan = Fl.nan)
    (r : State F) (hr : exec fuel tdLine st = r) (rs : List Tgt × RowOut) (hrs0 : rs = rowStep c tg true n pan (blankRow c)) :
    r.ctl = .run ∧ PassFrame c.W st r ∧ PanRel c r rs.1 ∧ rs.2.lp.length = c.W ∧ rs.2.al.length = c.W ∧
    (r.fa "output_img").length = c.H * c.W ∧ (r.fa "img_distance").length = c.H * c.W ∧
    (∀ p, p < c.W → lpRel emb ((r.fa "img_distance").getD (n * c.W + p) Fl.nan) (rs.2.lp.getD p none) ∧
      (r.fa "output_img").getD (n * c.W + p) Fl.nan =
        outVal (st.ienv "process_mode") (st.fa "img") (st.fa "x_coords") (st.fa "y_coords") c.W n p (rs.2.al.getD p none)) ∧
    (∀ j, (j < n * c.W ∨ n * c.W + c.W ≤ j) → (r.fa "output_img").getD j Fl.nan = (st.fa "output_img").getD j Fl.nan ∧
      (r.fa "img_distance").getD j Fl.nan = (st.fa "img_distance").getD j Fl.nan) := by
  -- scan_line[i] = img[line][i]
  obtain ⟨c1, f1, l1, v1⟩ := readLine_exec st fuel c.H c.W n cx.run cx.width cx.line cx.hn cx.scan cx.img cx.lscan
  rw [tdLine, exec_seq_run _ _ _ _ c1] at hr
  generalize hst1 : exec fuel readLine st = st1 at c1 f1 l1 v1 hr
  -- line_proximity = np.zeros(width)
  have w1 : st1.ienv "width" = c.W := by rw [f1.ienv _ (by decide)]; exact cx.width
  rw [exec_seq_run _ _ _ _ (by rw [allocLp_exec st1 fuel c.W w1]; exact c1), allocLp_exec st1 fuel c.W w1] at hr
  generalize hst2 : allocLpSt st1 c.W = st2 at hr
  have e2 : st2.ctl = .run ∧ st2.ienv = st1.ienv ∧ st2.fenv = st1.fenv ∧ st2.ia = st1.ia ∧ st2.ext = st1.ext ∧
      (∀ a, a ≠ "line_proximity" → st2.shp a = st1.shp a ∧ st2.fa a = st1.fa a) ∧ st2.shp "line_proximity" = [c.W] ∧
      (st2.fa "line_proximity").length = c.W := by
    subst hst2
    exact ⟨c1, rfl, rfl, rfl, rfl, fun a ha => by simp [allocLpSt, setS, ha], by simp [allocLpSt, setS],
      by simp [allocLpSt, setS]⟩
  obtain ⟨c2, i2, fe2, ia2, ex2, o2, s2, l2⟩ := e2
  -- line_proximity[i] = -1.0; nearest_xs[i] = -1; nearest_ys[i] = -1
  obtain ⟨c3, f3, l3, l3x, l3y, v3⟩ := resetLine_exec st2 fuel c.W c2 (by rw [i2]; exact w1) s2
    (by rw [(o2 _ (by decide)).1, f1.shp]; exact cx.nx) (by rw [(o2 _ (by decide)).1, f1.shp]; exact cx.ny) l2
    (by rw [ia2, f1.ia _ (by simp)]; exact cx.lnx) (by rw [ia2, f1.ia _ (by simp)]; exact cx.lny)
  rw [exec_seq_run _ _ _ _ c3] at hr
  generalize hst3 : exec fuel resetLine st2 = st3 at c3 f3 l3 l3x l3y v3 hr
  -- the state before the first sweep
  have sh3 : ∀ a, a ≠ "line_proximity" → st3.shp a = st.shp a := by
    intro a ha; rw [f3.shp, (o2 a ha).1, f1.shp]
  have fa3 : ∀ a, a ≠ "line_proximity" → a ≠ "scan_line" → st3.fa a = st.fa a := by
    intro a h1 h2; rw [f3.fa a (by simpa using h1), (o2 a h1).2, f1.fa a (by simpa using h2)]
  have ie3 : ∀ v, v ≠ "i" → st3.ienv v = st.ienv v := by
    intro v hv; rw [f3.ienv v hv, i2, f1.ienv v hv]
  have fe3 : st3.fenv = st.fenv := by rw [f3.fenv, fe2, f1.fenv]
  have ex3 : st3.ext = st.ext := by rw [f3.ext, ex2, f1.ext]
  have px3 : st3.ia "pan_near_x" = st.ia "pan_near_x" := by rw [f3.ia _ (by decide), ia2, f1.ia _ (by simp)]
  have py3 : st3.ia "pan_near_y" = st.ia "pan_near_y" := by rw [f3.ia _ (by decide), ia2, f1.ia _ (by simp)]
  have sc3 : st3.fa "scan_line" = st1.fa "scan_line" := by rw [f3.fa _ (by decide), (o2 _ (by decide)).2]
  have cx3 : CallCtx c emb tg n st3 := by
    refine ⟨c3, cx.hn, by rw [ie3 _ (by decide)]; exact cx.line, by rw [ie3 _ (by decide)]; exact cx.width,
      by rw [sh3 _ (by decide)]; exact cx.px, by rw [sh3 _ (by decide)]; exact cx.py, by rw [sh3 _ (by decide)]; exact cx.nx,
      by rw [sh3 _ (by decide)]; exact cx.ny, by rw [f3.shp]; exact s2, by rw [sh3 _ (by decide)]; exact cx.scan,
      by rw [sh3 _ (by decide)]; exact cx.xc, by rw [sh3 _ (by decide)]; exact cx.yc,
      by rw [sh3 _ (by decide), fa3 _ (by decide) (by decide)]; exact cx.tv, by rw [fe3]; exact cx.arith, ?_, ?_⟩
    · intro tr tc r' p h1 h2 h3 h4
      have := cx.d2 tr tc r' p h1 h2 h3 h4
      simpa [pnDist2, fa3 "x_coords" (by decide) (by decide), fa3 "y_coords" (by decide) (by decide), ex3,
        ie3 "distance_metric" (by decide)] using this
    · intro p hp
      rw [sc3, v1 p hp, fa3 _ (by decide) (by decide)]; exact cx.tgt p hp
  have g3 : GridCtx c.H c.W n st3 :=
    ⟨by rw [sh3 _ (by decide)]; exact cx.img, by rw [sh3 _ (by decide)]; exact cx.out,
     by rw [sh3 _ (by decide)]; exact cx.dist, by rw [fa3 _ (by decide) (by decide)]; exact cx.lout,
     by rw [fa3 _ (by decide) (by decide)]; exact cx.ldist⟩
  have rel3 : LineRel c emb st3 { pan := pan, lp := List.replicate c.W none, nr := List.replicate c.W none } :=
    ⟨by rw [px3]; exact cx.lpx, by rw [py3]; exact cx.lpy, l3x, l3y, l3, hpan.1, by simp, by simp,
     by rw [px3, py3]; exact hpan.2,
     fun q hq => by simp only [Prox.getD_replicate_none]; exact (v3 q hq).2.1,
     fun q hq => by
       simp only [Prox.getD_replicate_none, (v3 q hq).1]
       exact cx.neg1,
     fun q _ hne => by simp only [Prox.getD_replicate_none] at hne; exact absurd rfl hne⟩
  have hout3 : ∀ p, p < c.W → (st3.fa "output_img").getD (n * c.W + p) Fl.nan =
      outVal (st3.ienv "process_mode") (st3.fa "img") (st3.fa "x_coords") (st3.fa "y_coords") c.W n p
        ((List.replicate c.W (none : Tgt)).getD p none) := by
    intro p hp
    rw [fa3 _ (by decide) (by decide), hout p hp, Prox.getD_replicate_none]; rfl
  -- two sweeps
  obtain ⟨st4, h4, cx4, g4, f4, r4, v4, o4, d4, ln1⟩ := twoSweeps_refines "1" "3" "2" .tt .ff true (Or.inl ⟨rfl, rfl, rfl⟩)
    (storeMergeLoop (D "4")) st3 fuel n pan (List.replicate c.W none) (List.replicate c.W none) (by simp) cx3 g3 rel3 hout3
  rw [h4] at hr
  generalize hm1 : sweep c tg n true pan (List.replicate c.W none) = m1 at r4 v4 ln1
  generalize hm2 : sweep c tg n (!true) m1.pan m1.lp = m2 at r4
  -- img_distance[line][i] = line_proximity[i]; merge
  have hlp4 : ∀ q, q < c.W → m2.nr.getD q none ≠ none →
      Fl.le (Fl.lit 0 1) ((st4.fa "line_proximity").getD q Fl.nan) = true := by
    intro q hq hne
    have h2 := r4.nrlp q hq hne
    have h3 := r4.lp q hq
    cases hl : m2.lp.getD q none with
    | none => exact absurd hl h2
    | some d => rw [hl] at h3; exact h3.2.1
  obtain ⟨c5, f5, l5o, l5d, v5, o5⟩ := storeMergeLoop_exec (D "4") st4 fuel c.H c.W n (rowCtx_of cx4 g4 r4.len_lp) m2.nr r4.nr hlp4
  rw [hr] at c5 f5 l5o l5d v5 o5
  have hrs : rs = (m2.pan, { lp := m2.lp, al := mergeNr (mergeNr (List.replicate c.W none) m1.nr) m2.nr }) := by
    have hm2' : sweep c tg n false m1.pan m1.lp = m2 := hm2
    simp only [hrs0, rowStep, blankRow, hm1, hm2', Bool.not_true]
  rw [hrs]
  have fr5 : RowFrame st4 r := f5.row (by intro a ha; simp at ha; rcases ha with e | e <;> simp [e])
  have fr35 : RowFrame st3 r := f4.trans fr5
  refine ⟨c5, ⟨?_, ?_, ?_, ?_, ?_, ?_, ?_, ?_, ?_, ?_, ?_, ?_⟩, ⟨r4.mlen_pan, ?_⟩, r4.mlen_lp,
    by rw [Prox.mergeNr_length _ _ (by rw [Prox.mergeNr_length _ _ (by simp [ln1]), r4.mlen_nr]; simp),
      Prox.mergeNr_length _ _ (by simp [ln1])]; simp, l5o, l5d, ?_, ?_⟩
  · intro a ha; rw [fr35.shp, sh3 a ha]
  · rw [fr35.shp]; exact cx3.lp
  · rw [f5.fa _ (by decide)]; exact r4.len_lp
  · rw [fr35.ext, ex3]
  · intro v h1 h2; rw [fr35.ienv v h1 h2, ie3 v h2]
  · intro v h1; rw [fr35.fenv v h1, fe3]
  · intro a h1 h2 h3 h4; rw [fr35.fa a h1 h2 h3, fa3 a h1 h4]
  · rw [f5.ia]; exact r4.len_px
  · rw [f5.ia]; exact r4.len_py
  · rw [f5.ia]; exact r4.len_nx
  · rw [f5.ia]; exact r4.len_ny
  · rw [fr35.fa _ (by decide) (by decide) (by decide), sc3]; exact l1
  · rw [f5.ia]; exact r4.pan
  · intro p hp
    obtain ⟨a, b⟩ := v5 p hp
    refine ⟨by rw [b]; exact r4.lp p hp, ?_⟩
    rw [a, v4 p hp, f4.ienv _ (by decide) (by decide), f4.fa "img" (by decide) (by decide) (by decide),
      f4.fa "x_coords" (by decide) (by decide) (by decide), f4.fa "y_coords" (by decide) (by decide) (by decide),
      mergeVal_outVal, ie3 _ (by decide), fa3 "img" (by decide) (by decide), fa3 "x_coords" (by decide) (by decide),
      fa3 "y_coords" (by decide) (by decide)]
    simp only
    rw [Prox.mergeNr_getD (mergeNr (List.replicate c.W none) m1.nr) m2.nr p
      (by rw [Prox.mergeNr_length _ _ (by simp [ln1]), r4.mlen_nr]; simp)]
    rfl
  · intro j hj
    obtain ⟨a, b⟩ := o5 j hj
    exact ⟨by rw [a, o4 j hj, fa3 _ (by decide) (by decide)], by rw [b, d4, fa3 _ (by decide) (by decide)]⟩

/-- a final `img_distance` value against the model: NaN for "no target within reach" -/
def lpFin (emb : Nat → F) (x : F) : Option Nat → Prop
  | none => x = Fl.nan
  | some d => lpRel emb x (some d)

/-- **one line of the bottom-up pass refines `Prox.rowStep … false n pan o`**, `o` = what the top-down pass
    left in line `n` of `img_distance` / `output_img` -/
theorem buLine_refines (st : State F) (fuel n : Nat) (pan : List Tgt) (o : RowOut) (cx : LineCtx c emb tg n st)
    (slp : st.shp "line_proximity" = [c.W]) (llp : (st.fa "line_proximity").length = c.W)
    (hpan : PanRel c st pan) (holp : o.lp.length = c.W) (hoal : o.al.length = c.W)
    (hdist : ∀ p, p < c.W → lpRel emb ((st.fa "img_distance").getD (n * c.W + p) Fl.nan) (o.lp.getD p none))
    (hout : ∀ p, p < c.W → (st.fa "output_img").getD (n * c.W + p) Fl.nan =
      outVal (st.ienv "process_mode") (st.fa "img") (st.fa "x_coords") (st.fa "y_coords") c.W n p (o.al.getD p none))
    (r : State F) (hr : exec fuel buLine st = r) (rs : List Tgt × RowOut) (hrs0 : rs = rowStep c tg false n pan o) :
    r.ctl = .run ∧ PassFrame c.W st r ∧ PanRel c r rs.1 ∧
    (r.fa "output_img").length = c.H * c.W ∧ (r.fa "img_distance").length = c.H * c.W ∧
    (∀ p, p < c.W → lpFin emb ((r.fa "img_distance").getD (n * c.W + p) Fl.nan) (rs.2.lp.getD p none) ∧
      (r.fa "output_img").getD (n * c.W + p) Fl.nan =
        outVal (st.ienv "process_mode") (st.fa "img") (st.fa "x_coords") (st.fa "y_coords") c.W n p (rs.2.al.getD p none)) ∧
    (∀ j, (j < n * c.W ∨ n * c.W + c.W ≤ j) → (r.fa "output_img").getD j Fl.nan = (st.fa "output_img").getD j Fl.nan ∧
      (r.fa "img_distance").getD j Fl.nan = (st.fa "img_distance").getD j Fl.nan) := by
  -- line_proximity[i] = img_distance[line][i]
  obtain ⟨c1, f1, l1, v1⟩ := readDistance_exec st fuel c.H c.W n cx.run cx.width cx.line cx.hn slp cx.dist llp
  rw [buLine, exec_seq_run _ _ _ _ c1] at hr
  generalize hst1 : exec fuel readDistance st = st1 at c1 f1 l1 v1 hr
  -- scan_line[i] = img[line][i]
  obtain ⟨c2, f2, l2, v2⟩ := readLine_exec st1 fuel c.H c.W n c1 (by rw [f1.ienv _ (by decide)]; exact cx.width)
    (by rw [f1.ienv _ (by decide)]; exact cx.line) cx.hn (by rw [f1.shp]; exact cx.scan) (by rw [f1.shp]; exact cx.img)
    (by rw [f1.fa _ (by simp)]; exact cx.lscan)
  rw [exec_seq_run _ _ _ _ c2] at hr
  generalize hst2 : exec fuel readLine st1 = st2 at c2 f2 l2 v2 hr
  -- nearest_xs[i] = -1; nearest_ys[i] = -1
  obtain ⟨c3, f3, l3x, l3y, v3⟩ := resetNearest_exec st2 fuel c.W c2
    (by rw [f2.ienv _ (by decide), f1.ienv _ (by decide)]; exact cx.width)
    (by rw [f2.shp, f1.shp]; exact cx.nx) (by rw [f2.shp, f1.shp]; exact cx.ny)
    (by rw [f2.ia _ (by simp), f1.ia _ (by simp)]; exact cx.lnx) (by rw [f2.ia _ (by simp), f1.ia _ (by simp)]; exact cx.lny)
  rw [exec_seq_run _ _ _ _ c3] at hr
  generalize hst3 : exec fuel resetNearest st2 = st3 at c3 f3 l3x l3y v3 hr
  -- the state before the first sweep
  have sh3 : st3.shp = st.shp := by rw [f3.shp, f2.shp, f1.shp]
  have fa3 : ∀ a, a ≠ "line_proximity" → a ≠ "scan_line" → st3.fa a = st.fa a := by
    intro a h1 h2; rw [f3.fa a (by simp), f2.fa a (by simpa using h2), f1.fa a (by simpa using h1)]
  have ie3 : ∀ v, v ≠ "i" → st3.ienv v = st.ienv v := by
    intro v hv; rw [f3.ienv v hv, f2.ienv v hv, f1.ienv v hv]
  have fe3 : st3.fenv = st.fenv := by rw [f3.fenv, f2.fenv, f1.fenv]
  have ex3 : st3.ext = st.ext := by rw [f3.ext, f2.ext, f1.ext]
  have px3 : st3.ia "pan_near_x" = st.ia "pan_near_x" := by rw [f3.ia _ (by decide), f2.ia _ (by simp), f1.ia _ (by simp)]
  have py3 : st3.ia "pan_near_y" = st.ia "pan_near_y" := by rw [f3.ia _ (by decide), f2.ia _ (by simp), f1.ia _ (by simp)]
  have sc3 : st3.fa "scan_line" = st2.fa "scan_line" := by rw [f3.fa _ (by simp)]
  have lp3 : st3.fa "line_proximity" = st1.fa "line_proximity" := by rw [f3.fa _ (by simp), f2.fa _ (by decide)]
  have cx3 : CallCtx c emb tg n st3 := by
    refine ⟨c3, cx.hn, by rw [ie3 _ (by decide)]; exact cx.line, by rw [ie3 _ (by decide)]; exact cx.width,
      by rw [sh3]; exact cx.px, by rw [sh3]; exact cx.py, by rw [sh3]; exact cx.nx,
      by rw [sh3]; exact cx.ny, by rw [sh3]; exact slp, by rw [sh3]; exact cx.scan,
      by rw [sh3]; exact cx.xc, by rw [sh3]; exact cx.yc,
      by rw [sh3, fa3 _ (by decide) (by decide)]; exact cx.tv, by rw [fe3]; exact cx.arith, ?_, ?_⟩
    · intro tr tc r' p h1 h2 h3 h4
      have := cx.d2 tr tc r' p h1 h2 h3 h4
      simpa [pnDist2, fa3 "x_coords" (by decide) (by decide), fa3 "y_coords" (by decide) (by decide), ex3,
        ie3 "distance_metric" (by decide)] using this
    · intro p hp
      rw [sc3, v2 p hp, f1.fa "img" (by simp), fa3 _ (by decide) (by decide)]; exact cx.tgt p hp
  have g3 : GridCtx c.H c.W n st3 :=
    ⟨by rw [sh3]; exact cx.img, by rw [sh3]; exact cx.out,
     by rw [sh3]; exact cx.dist, by rw [fa3 _ (by decide) (by decide)]; exact cx.lout,
     by rw [fa3 _ (by decide) (by decide)]; exact cx.ldist⟩
  have rel3 : LineRel c emb st3 { pan := pan, lp := o.lp, nr := List.replicate c.W none } :=
    ⟨by rw [px3]; exact cx.lpx, by rw [py3]; exact cx.lpy, l3x, l3y, by rw [lp3]; exact l1, hpan.1, holp, by simp,
     by rw [px3, py3]; exact hpan.2,
     fun q hq => by simp only [Prox.getD_replicate_none]; exact (v3 q hq).1,
     fun q hq => by rw [lp3, v1 q hq]; exact hdist q hq,
     fun q _ hne => by simp only [Prox.getD_replicate_none] at hne; exact absurd rfl hne⟩
  have hout3 : ∀ p, p < c.W → (st3.fa "output_img").getD (n * c.W + p) Fl.nan =
      outVal (st3.ienv "process_mode") (st3.fa "img") (st3.fa "x_coords") (st3.fa "y_coords") c.W n p (o.al.getD p none) := by
    intro p hp
    rw [fa3 _ (by decide) (by decide), hout p hp, ie3 _ (by decide), fa3 "img" (by decide) (by decide),
      fa3 "x_coords" (by decide) (by decide), fa3 "y_coords" (by decide) (by decide)]
  -- two sweeps
  obtain ⟨st4, h4, cx4, g4, f4, r4, v4, o4, d4, ln1⟩ := twoSweeps_refines "5" "7" "6" .ff .tt false (Or.inr ⟨rfl, rfl, rfl⟩)
    (.seq (finalLoop (D "8")) storeDistance) st3 fuel n pan o.lp o.al hoal cx3 g3 rel3 hout3
  rw [h4] at hr
  generalize hm1 : sweep c tg n false pan o.lp = m1 at r4 v4 ln1
  generalize hm2 : sweep c tg n (!false) m1.pan m1.lp = m2 at r4
  -- final post processing
  have hlp4 : ∀ q, q < c.W → m2.nr.getD q none ≠ none →
      Fl.lt ((st4.fa "line_proximity").getD q Fl.nan) (Fl.lit 0 1) = false ∧
      Fl.le (Fl.lit 0 1) ((st4.fa "line_proximity").getD q Fl.nan) = true := by
    intro q hq hne
    have h2 := r4.nrlp q hq hne
    have h3 := r4.lp q hq
    cases hl : m2.lp.getD q none with
    | none => exact absurd hl h2
    | some d => rw [hl] at h3; exact ⟨h3.1, h3.2.1⟩
  obtain ⟨c5, f5, l5o, l5l, v5, o5⟩ := finalLoop_exec (D "8") st4 fuel c.H c.W n (rowCtx_of cx4 g4 r4.len_lp) m2.nr r4.nr hlp4
  rw [exec_seq_run _ _ _ _ c5] at hr
  generalize hst5 : exec fuel (finalLoop (D "8")) st4 = st5 at c5 f5 l5o l5l v5 o5 hr
  have fr5 : RowFrame st4 st5 := f5.row (by intro a ha; simp at ha; rcases ha with e | e <;> simp [e])
  -- img_distance[line][i] = line_proximity[i]
  obtain ⟨c6, f6, l6, v6, o6⟩ := storeDistance_exec st5 fuel c.H c.W n c5
    (by rw [fr5.ienv _ (by decide) (by decide)]; exact cx4.width) (by rw [fr5.ienv _ (by decide) (by decide)]; exact cx4.line)
    cx.hn (by rw [fr5.shp]; exact cx4.lp) (by rw [fr5.shp]; exact g4.dist)
    (by rw [f5.fa _ (by decide)]; exact g4.ldist)
  rw [hr] at c6 f6 l6 v6 o6
  have fr6 : RowFrame st5 r := f6.row (by intro a ha; simp at ha; simp [ha])
  have fr36 : RowFrame st3 r := f4.trans (fr5.trans fr6)
  have hrs : rs = (m2.pan, { lp := m2.lp, al := mergeNr (mergeNr o.al m1.nr) m2.nr }) := by
    have hm2' : sweep c tg n true m1.pan m1.lp = m2 := hm2
    simp only [hrs0, rowStep, hm1, hm2', Bool.not_false]
  rw [hrs]
  have ia6 : r.ia = st4.ia := by
    funext a; rw [f6.ia a (by simp), f5.ia]
  refine ⟨c6, ⟨?_, ?_, ?_, ?_, ?_, ?_, ?_, ?_, ?_, ?_, ?_, ?_⟩, ⟨r4.mlen_pan, ?_⟩, ?_, l6, ?_, ?_⟩
  · intro a _; rw [fr36.shp, sh3]
  · rw [fr36.shp]; exact cx3.lp
  · rw [f6.fa _ (by decide)]; exact l5l
  · rw [fr36.ext, ex3]
  · intro v h1 h2; rw [fr36.ienv v h1 h2, ie3 v h2]
  · intro v h1; rw [fr36.fenv v h1, fe3]
  · intro a h1 h2 h3 h4; rw [fr36.fa a h1 h2 h3, fa3 a h1 h4]
  · rw [ia6]; exact r4.len_px
  · rw [ia6]; exact r4.len_py
  · rw [ia6]; exact r4.len_nx
  · rw [ia6]; exact r4.len_ny
  · rw [fr36.fa _ (by decide) (by decide) (by decide), sc3]; exact l2
  · rw [ia6]; exact r4.pan
  · rw [f6.fa _ (by decide)]; exact l5o
  · intro p hp
    obtain ⟨a, b⟩ := v5 p hp
    refine ⟨?_, ?_⟩
    · rw [v6 p hp, b]
      have h3 := r4.lp p hp
      cases hl : m2.lp.getD p none with
      | none =>
        rw [hl] at h3
        have : Fl.lt ((st4.fa "line_proximity").getD p Fl.nan) (Fl.lit 0 1) = true := h3
        simp [lpFin, this]
      | some d =>
        rw [hl] at h3
        have h31 : Fl.lt ((st4.fa "line_proximity").getD p Fl.nan) (Fl.lit 0 1) = false := h3.1
        simp only [lpFin, h31, Bool.false_eq_true, if_false]
        exact h3
    · rw [f6.fa _ (by decide), a, v4 p hp, f4.ienv _ (by decide) (by decide), f4.fa "img" (by decide) (by decide) (by decide),
        f4.fa "x_coords" (by decide) (by decide) (by decide), f4.fa "y_coords" (by decide) (by decide) (by decide),
        mergeVal_outVal, ie3 _ (by decide), fa3 "img" (by decide) (by decide), fa3 "x_coords" (by decide) (by decide),
        fa3 "y_coords" (by decide) (by decide)]
      simp only
      rw [Prox.mergeNr_getD (mergeNr o.al m1.nr) m2.nr p
        (by rw [Prox.mergeNr_length _ _ (by rw [hoal, ln1]), r4.mlen_nr, hoal])]
      rfl
  · intro j hj
    refine ⟨?_, ?_⟩
    · rw [f6.fa _ (by decide), o5 j hj, o4 j hj, fa3 _ (by decide) (by decide)]
    · rw [o6 j hj, f5.fa _ (by decide), d4, fa3 _ (by decide) (by decide)]

end XrsVerif.IL.Px
