import XrsVerif.Proofs.ILVsInitRing
/-
  Proofs/ILVsInit.lean -- **`vsInitEventList_refines`**: the generated `_init_event_list` (`Gen.IL.vsInitEventList`,
  translated statement by statement, callees inlined) fills `event_list`, `data` and `visibility_grid` as the hand model
  of the event list says, for every raster size, observer position and terrain (NaN included), over every number type
  with the two laws `LitOK`, `HalfOK`.  Row loop: invariant `RowInv`; prologue: `initPrologue_exec`.
-/
namespace XrsVerif.ILSw
open XrsVerif XrsVerif.IL XrsVerif.ViewshedEvents
variable {F : Type} [Fl F]
set_option linter.unusedSectionVars false
set_option linter.unusedSimpArgs false
set_option linter.unusedVariables false

/-- the state of `_init_event_list` at the head of iteration `i` of the row loop -/
structure RowInv (s0 s : State F) (h w n vr vc i : Nat) : Prop where
  ctl : s.ctl = .run
  shInr : s.shp "inrast" = [3, w]
  lenInr : (s.fa "inrast").length = 3 * w
  shR : s.shp "raster" = [h, w]
  shE : s.shp "e" = [7]
  lenE : (s.fa "e").length = 7
  shEL : s.shp "event_list" = [n, 7]
  lenEL : (s.fa "event_list").length = n * 7
  shD : s.shp "data" = [3, w]
  lenD : (s.fa "data").length = 3 * w
  shV : s.shp "visibility_grid" = [h, w]
  lenV : (s.fa "visibility_grid").length = h * w
  pre : PreRing (s.fa "inrast") (terr (s0.fa "raster") w) h w i
  nr : s.ienv "n_rows" = h
  nc : s.ienv "n_cols" = w
  vpr : s.ienv "vp_row" = vr
  vpc : s.ienv "vp_col" = vc
  cnt : s.ienv "count_event" = ((3 * cntBefore (vr * w + vc) (i * w) : Nat) : Int)
  rast : s.fa "raster" = s0.fa "raster"
  el : ELDone (s.fa "event_list") (terr (s0.fa "raster") w) h w vr vc (i * w)
  data : DataDone (s.fa "data") (terr (s0.fa "raster") w) h w vr vc (i * w)
  vis : s.fa "visibility_grid" = if vr * w + vc < i * w then (s0.fa "visibility_grid").set (vr * w + vc) (Fl.lit 180 1)
    else s0.fa "visibility_grid"

/-- **one iteration of the row loop** -/
theorem rowBody_exec (hL : LitOK F) (hH : HalfOK F) (s0 st : State F) (fuel : Nat) (h w n vr vc i : Nat)
    (hn : n = 3 * (h * w - 1)) (hih : i < h) (hvr : vr < h) (hvc : vc < w) (inv : RowInv s0 st h w n vr vc i) :
    let r := exec fuel rowBody { st with ienv := setS st.ienv "i" (i : Int) }
    r.ctl = .run ∧ RowInv s0 r h w n vr vc (i + 1) := by
  intro r
  have hw : 0 < w := by omega
  have hr : r = exec fuel (.seq (ILVs.seqL ringStep) cellLoop) { st with ienv := setS st.ienv "i" (i : Int) } := by
    simp only [r, rowBody]
    exact ILVs.exec_seqK fuel _ _ _ _
  have rp := ringStep_exec { st with ienv := setS st.ienv "i" (i : Int) } fuel h w i inv.ctl inv.shInr inv.lenInr inv.shR
    (by simpa [inv.rast] using inv.pre) (by simp [setS_apply]) (by simp [setS_apply, inv.nr]) (by simp [setS_apply, inv.nc]) hw hih
  rw [exec_seq_eq _ _ _ _ _ rfl rp.ctl] at hr
  generalize exec fuel (ILVs.seqL ringStep) { st with ienv := setS st.ienv "i" (i : Int) } = s1 at rp hr
  have hsh := rp.shp
  simp only at hsh
  have hT : terr ((⟨setS st.ienv "i" (i : Int), st.fenv, st.benv, st.ia, st.fa, st.shp, st.ext, st.ctl⟩ : State F).fa "raster") w =
      terr (s0.fa "raster") w := by simp [inv.rast]
  have kp : ∀ v ∈ keepVars, v ≠ "i" → s1.ienv v = st.ienv v := by
    intro v hv hne
    rw [rp.keep v hv]; simp [setS_apply, hne]
  have pinv : PosInv s0 s1 (terr (s0.fa "raster") w) h w n vr vc i (i * w) := by
    refine ⟨⟨rp.ctl, by rw [hsh]; exact inv.shInr, by rw [hsh]; exact inv.shE, ?_, by rw [hsh]; exact inv.shEL, ?_,
      by rw [hsh]; exact inv.shD, ?_, by rw [hsh]; exact inv.shV, ?_, ?_, ?_, ?_, ?_, ?_, ?_, by rw [hsh]; exact inv.shR⟩,
      ?_, ?_, ?_, ?_, ?_⟩
    · rw [rp.fa _ (by decide)]; exact inv.lenE
    · rw [rp.fa _ (by decide)]; exact inv.lenEL
    · rw [rp.fa _ (by decide)]; exact inv.lenD
    · rw [rp.fa _ (by decide)]; exact inv.lenV
    · rw [← hT]; exact rp.ring
    · rw [rp.keep _ (by simp [keepVars])]; simp [setS_apply]
    · rw [kp _ (by simp [keepVars]) (by decide)]; exact inv.nr
    · rw [kp _ (by simp [keepVars]) (by decide)]; exact inv.nc
    · rw [kp _ (by simp [keepVars]) (by decide)]; exact inv.vpr
    · rw [kp _ (by simp [keepVars]) (by decide)]; exact inv.vpc
    · rw [kp _ (by simp [keepVars]) (by decide)]; exact inv.cnt
    · rw [rp.fa _ (by decide)]; exact inv.rast
    · rw [rp.fa _ (by decide)]; exact inv.el
    · rw [rp.fa _ (by decide)]; exact inv.data
    · rw [rp.fa _ (by decide)]; exact inv.vis
  obtain ⟨c1, c2, c3⟩ := cellLoop_exec hL hH s0 s1 fuel (terr (s0.fa "raster") w) h w n vr vc i hn hih hvr hvc pinv
  rw [← hr] at c1 c2 c3
  have e1 : i * w + w = (i + 1) * w := by rw [Nat.add_mul]; omega
  rw [e1] at c2
  refine ⟨c1, ⟨c1, c2.cell.shInr, ?_, c2.cell.shR, c2.cell.shE, c2.cell.lenE, c2.cell.shEL, c2.cell.lenEL, c2.cell.shD,
    c2.cell.lenD, c2.cell.shV, c2.cell.lenV, ?_, c2.cell.nr, c2.cell.nc, c2.cell.vpr, c2.cell.vpc, c2.cnt, c2.rast, c2.el, c2.data,
    c2.vis⟩⟩
  · rw [c3]; exact rp.len
  · have := c2.cell.ring.pre
    simpa using this


/-- well-formed inputs of `_init_event_list`: an `h × w` raster, the observer inside, the event list with room for three
    events per non-observer cell, the `3 × w` observer-row buffer, the `h × w` visibility grid -/
structure InitWf (s : State F) (h w n vr vc : Nat) : Prop where
  ctl : s.ctl = .run
  shR : s.shp "raster" = [h, w]
  lenR : (s.fa "raster").length = h * w
  shEL : s.shp "event_list" = [n, 7]
  lenEL : (s.fa "event_list").length = n * 7
  shD : s.shp "data" = [3, w]
  lenD : (s.fa "data").length = 3 * w
  shV : s.shp "visibility_grid" = [h, w]
  lenV : (s.fa "visibility_grid").length = h * w
  vpr : s.ienv "vp_row" = vr
  vpc : s.ienv "vp_col" = vc
  hvr : vr < h
  hvc : vc < w
  hn : n = 3 * (h * w - 1)

theorem initPrologue_exec (s : State F) (fuel : Nat) (h w n vr vc : Nat) (wf : InitWf s h w n vr vc) :
    let r := exec fuel (ILVs.seqL initPrologue) s
    RowInv s r h w n vr vc 0 := by
  obtain ⟨hctl, shR, lenR, shEL, lenEL, shD, lenD, shV, lenV, vpr, vpc, hvr, hvc, hn⟩ := wf
  obtain ⟨ie, fe, be, ia, fa, shp, ext, ctl⟩ := s
  simp only at hctl shR lenR shEL lenEL shD lenD shV lenV vpr vpc; subst hctl
  have hw : 0 < w := by omega
  intro r
  have hr : exec fuel (ILVs.seqL initPrologue) ⟨ie, fe, be, ia, fa, shp, ext, .run⟩ = r := rfl
  clear_value r
  have hwi : (0 : Int) ≤ w := by omega
  have hvh : 0 < h := by omega
  have hcp := rowcp_exec (F := F) "rowcp1$" "inrast" "raster" "rowcp1$s" (by decide)
    ⟨setS (setS (setS (setS ie "n_rows" h) "n_cols" w) "rowcp1$r" 2) "rowcp1$s" 0, fe, be, ia,
      setS (setS fa "inrast" (List.replicate (3 * w) (Fl.lit 0 1))) "inrast" (List.replicate (3 * w) Fl.nan),
      setS (setS shp "inrast" [3, w]) "inrast" [3, w], ext, .run⟩ fuel 3 w h 2 0 rfl (by simp [setS_apply]) (by simp [setS_apply])
    (by simp [setS_apply, shR]) (by simp [setS_apply]) (by omega) (by simp [setS_apply]) hvh hw
    (by intro e; exact absurd e (by decide))
  simp [initPrologue, ILVs.seqL, exec, IE.ok, IE.eval, FE.ok, FE.eval, shR, setS_apply, hwi, hcp] at hr
  subst hr
  refine ⟨rfl, ?_, ?_, ?_, ?_, ?_, ?_, ?_, ?_, ?_, ?_, ?_, ?_, ?_, ?_, ?_, ?_, ?_, ?_, ?_, ?_, ?_⟩ <;>
    simp [setS_apply, shR, shEL, lenEL, shD, lenD, shV, lenV, vpr, vpc, cntBefore]
  · -- row 2 of the fresh ring buffer is raster row 0
    intro d c h1 h2 h3 h4 h5 h6
    obtain ⟨cn, rfl⟩ := Int.eq_ofNat_of_zero_le h5
    have hd : d = 2 := by omega
    subst hd
    simp only [rdI, terr]
    rw [getD_setRow]
    have a1 : 2 * w ≤ (2 : Int).toNat * w + (cn : Int).toNat ∧ (2 : Int).toNat * w + (cn : Int).toNat < 2 * w + w ∧
        (2 : Int).toNat * w + (cn : Int).toNat < (List.replicate (3 * w) (Fl.nan : F)).length := by
      simp; omega
    rw [if_pos a1]
    simp
  · intro p hp; omega
  · intro col _ hlt; omega

/-- **the generated `_init_event_list` computes the model's event list** (generic in the number type, over the laws
    `LitOK`, `HalfOK` of event codes and half-cell offsets): after the run, for every non-observer cell in row-major order
    (`cntBefore` = its rank) the three rows of `event_list` are the records `evRowF` -- row, column, type ENTER / CENTER /
    EXIT, the bearing `bearingF` of the model's event point, and the elevations of the entering corner, the centre, the
    exiting corner (`cornerElevF`, read through the three-row ring buffer); `data` holds the observer row's three
    elevations (`dataTriple`), `visibility_grid[vp] = 180`, nothing else in it changes; the raster is untouched. -/
theorem vsInitEventList_refines (hL : LitOK F) (hH : HalfOK F) (s : State F) (fuel h w n vr vc : Nat) (wf : InitWf s h w n vr vc) :
    let r := Gen.IL.vsInitEventList.run s fuel
    let T := terr (s.fa "raster") w
    r.ctl = .ret ∧
    (∀ p, p < h * w → p ≠ vr * w + vc → ∀ t, t < 3 → ∀ k, k < 7 →
      (r.fa "event_list").getD ((3 * cntBefore (vr * w + vc) p + t) * 7 + k) Fl.nan =
        (evRowF T h w vr vc ((p / w : Nat) : Int) ((p % w : Nat) : Int) (tyOf t)).getD k Fl.nan) ∧
    (r.fa "event_list").length = n * 7 ∧
    (∀ col, col < w →
      (r.fa "data").getD col Fl.nan = (dataTriple T h w vr vc col).1 ∧
      (r.fa "data").getD (w + col) Fl.nan = (dataTriple T h w vr vc col).2.1 ∧
      (r.fa "data").getD (2 * w + col) Fl.nan = (dataTriple T h w vr vc col).2.2) ∧
    (r.fa "data").length = 3 * w ∧
    r.fa "visibility_grid" = (s.fa "visibility_grid").set (vr * w + vc) (Fl.lit 180 1) ∧
    r.fa "raster" = s.fa "raster" := by
  intro r T
  have hr : r = exec fuel (.seq (ILVs.seqL initPrologue) (.seq rowLoop .ret)) s := by
    simp only [r, Prog.run, vsInitEventList_is_template, initBody]
    exact ILVs.exec_seqK fuel _ _ _ _
  have h0 := initPrologue_exec s fuel h w n vr vc wf
  rw [exec_seq_eq _ _ _ _ _ rfl h0.ctl] at hr
  generalize exec fuel (ILVs.seqL initPrologue) s = s1 at h0 hr
  have hl := Px.forRange_up "i" (.var "n_rows") rowBody s1 fuel h h0.ctl (by simp [IE.ok]) (by simp [IE.eval, h0.nr])
    (fun i st => RowInv s st h w n vr vc i) h0
    (fun i hi st hrun hP => by
      obtain ⟨a, b⟩ := rowBody_exec hL hH s st fuel h w n vr vc i wf.hn hi wf.hvr wf.hvc hP
      have : afterBody (exec fuel rowBody { st with ienv := setS st.ienv "i" (i : Int) }) =
          exec fuel rowBody { st with ienv := setS st.ienv "i" (i : Int) } := afterBody_run _ a
      rw [this]; exact ⟨a, b⟩)
  rw [show rowLoop = St.forRange "i" (.lit 0) (.var "n_rows") (.lit 1) rowBody from rfl,
    exec_seq_eq _ _ _ _ _ rfl hl.1, ILVs.exec_ret] at hr
  have inv := hl.2
  generalize exec fuel (St.forRange "i" (.lit 0) (.var "n_rows") (.lit 1) rowBody) s1 = s2 at hr inv
  clear_value r
  subst hr
  have hobs : vr * w + vc < h * w := by
    have : (vr + 1) * w ≤ h * w := Nat.mul_le_mul_right w wf.hvr
    rw [Nat.add_mul] at this; have := wf.hvc; omega
  refine ⟨rfl, ?_, inv.lenEL, ?_, inv.lenD, ?_, inv.rast⟩
  · intro p hp hpo t ht k hk
    exact inv.el p hp hpo t ht k hk
  · intro col hcol
    refine inv.data col hcol ?_
    have : (vr + 1) * w ≤ h * w := Nat.mul_le_mul_right w wf.hvr
    rw [Nat.add_mul] at this; omega
  · have := inv.vis
    simp only [hobs, if_true] at this
    exact this
end XrsVerif.ILSw
