import XrsVerif.Proofs.ViewshedOrder
import Mathlib.Data.List.Nodup
/-
  C05 -- the active-set discipline of the sweep's operation list (Model/ViewshedEvents.lean: `sweepOps`, `replay`):
  the global replay over the set of active cells decomposes into one two-state automaton per cell, and for every cell
  the operations are  insert, query, delete  (on the east ray: initial insert, query, delete, insert).
-/
namespace XrsVerif.ViewshedEvents

/-- the kinds of the operations that concern cell `(r, c)`, in order -/
def kinds (ops : List COp) (r c : Int) : List Int :=
  (ops.filter fun o => decide (o.row = r) && decide (o.col = c)).map COp.kind

theorem kinds_cons (op : COp) (ops : List COp) (r c : Int) :
    kinds (op :: ops) r c = if op.row = r ∧ op.col = c then op.kind :: kinds ops r c else kinds ops r c := by
  unfold kinds
  by_cases h : op.row = r ∧ op.col = c
  · rw [if_pos h, List.filter_cons_of_pos (by simp [h.1, h.2])]; rfl
  · rw [if_neg h, List.filter_cons_of_neg]
    simp only [Bool.and_eq_true, decide_eq_true_eq]; exact h

theorem kinds_append (a b : List COp) (r c : Int) : kinds (a ++ b) r c = kinds a r c ++ kinds b r c := by
  simp [kinds, List.filter_append]

theorem contains_cons_self (act : List (Int × Int)) (p : Int × Int) : (p :: act).contains p = true := by simp

theorem contains_cons_ne (act : List (Int × Int)) (p q : Int × Int) (h : q ≠ p) :
    (p :: act).contains q = act.contains q := by
  simp [h]

theorem contains_filter_self (act : List (Int × Int)) (p : Int × Int) :
    (act.filter fun q => !(q == p)).contains p = false := by
  rw [Bool.eq_false_iff, Ne, List.contains_iff_mem, List.mem_filter]
  simp

theorem contains_filter_ne (act : List (Int × Int)) (p q : Int × Int) (h : q ≠ p) :
    (act.filter fun x => !(x == p)).contains q = act.contains q := by
  rw [Bool.eq_iff_iff, List.contains_iff_mem, List.contains_iff_mem, List.mem_filter]
  simp [h]

/-- **the replay over the active set is the conjunction of the per-cell automata** -/
theorem replay_iff (ops : List COp) : ∀ act : List (Int × Int),
    replay act ops = true ↔ ∀ r c, replay1 (act.contains (r, c)) (kinds ops r c) = true := by
  induction ops with
  | nil => intro act; simp [replay, kinds, replay1]
  | cons op ops ih =>
    intro act
    cases op with
    | ins r0 c0 b =>
      simp only [replay, Bool.and_eq_true, Bool.not_eq_true']
      constructor
      · rintro ⟨hn, hrest⟩ r c
        rw [kinds_cons]
        by_cases hrc : r0 = r ∧ c0 = c
        · obtain ⟨rfl, rfl⟩ := hrc
          simp only [COp.row, COp.col, COp.kind, and_self, if_true, replay1, hn, Bool.not_false, Bool.true_and]
          have := (ih _).mp hrest r0 c0
          rwa [contains_cons_self] at this
        · simp only [COp.row, COp.col, hrc, if_false]
          have := (ih _).mp hrest r c
          rwa [contains_cons_ne _ _ _ (by intro h; apply hrc; cases h; exact ⟨rfl, rfl⟩)] at this
      · intro hall
        have h0 := hall r0 c0
        rw [kinds_cons] at h0
        simp only [COp.row, COp.col, COp.kind, and_self, if_true, replay1, Bool.and_eq_true, Bool.not_eq_true'] at h0
        refine ⟨h0.1, (ih _).mpr fun r c => ?_⟩
        by_cases hrc : r0 = r ∧ c0 = c
        · obtain ⟨rfl, rfl⟩ := hrc
          rw [contains_cons_self]; exact h0.2
        · rw [contains_cons_ne _ _ _ (by intro h; apply hrc; cases h; exact ⟨rfl, rfl⟩)]
          have := hall r c
          rw [kinds_cons] at this
          simpa only [COp.row, COp.col, hrc, if_false] using this
    | del r0 c0 =>
      simp only [replay, Bool.and_eq_true]
      constructor
      · rintro ⟨hn, hrest⟩ r c
        rw [kinds_cons]
        by_cases hrc : r0 = r ∧ c0 = c
        · obtain ⟨rfl, rfl⟩ := hrc
          simp only [COp.row, COp.col, COp.kind, and_self, if_true, replay1, hn, Bool.true_and]
          have := (ih _).mp hrest r0 c0
          rw [contains_filter_self] at this
          simpa using this
        · simp only [COp.row, COp.col, hrc, if_false]
          have := (ih _).mp hrest r c
          rwa [contains_filter_ne _ _ _ (by intro h; apply hrc; cases h; exact ⟨rfl, rfl⟩)] at this
      · intro hall
        have h0 := hall r0 c0
        rw [kinds_cons] at h0
        simp only [COp.row, COp.col, COp.kind, and_self, if_true, replay1] at h0
        have h0' : act.contains (r0, c0) = true ∧ replay1 false (kinds ops r0 c0) = true := by
          simpa using h0
        refine ⟨h0'.1, (ih _).mpr fun r c => ?_⟩
        by_cases hrc : r0 = r ∧ c0 = c
        · obtain ⟨rfl, rfl⟩ := hrc
          rw [contains_filter_self]; exact h0'.2
        · rw [contains_filter_ne _ _ _ (by intro h; apply hrc; cases h; exact ⟨rfl, rfl⟩)]
          have := hall r c
          rw [kinds_cons] at this
          simpa only [COp.row, COp.col, hrc, if_false] using this
    | qry r0 c0 =>
      simp only [replay, Bool.and_eq_true]
      constructor
      · rintro ⟨hn, hrest⟩ r c
        rw [kinds_cons]
        by_cases hrc : r0 = r ∧ c0 = c
        · obtain ⟨rfl, rfl⟩ := hrc
          simp only [COp.row, COp.col, COp.kind, and_self, if_true, replay1, hn, Bool.true_and]
          have := (ih _).mp hrest r0 c0
          rw [hn] at this
          simpa using this
        · simp only [COp.row, COp.col, hrc, if_false]
          exact (ih _).mp hrest r c
      · intro hall
        have h0 := hall r0 c0
        rw [kinds_cons] at h0
        simp only [COp.row, COp.col, COp.kind, and_self, if_true, replay1] at h0
        have h0' : act.contains (r0, c0) = true ∧ replay1 (act.contains (r0, c0)) (kinds ops r0 c0) = true := by
          simpa using h0
        refine ⟨h0'.1, (ih _).mpr fun r c => ?_⟩
        by_cases hrc : r0 = r ∧ c0 = c
        · obtain ⟨rfl, rfl⟩ := hrc
          exact h0'.2
        · have := hall r c
          rw [kinds_cons] at this
          simpa only [COp.row, COp.col, hrc, if_false] using this

/-! ### the operations of one cell -/

theorem kinds_cons_ins (r0 c0 : Int) (b : Bool) (ops : List COp) (r c : Int) :
    kinds (COp.ins r0 c0 b :: ops) r c = if r0 = r ∧ c0 = c then 1 :: kinds ops r c else kinds ops r c :=
  kinds_cons _ _ _ _

theorem kinds_initial (vr : Int) : ∀ l : List Int, l.Nodup → ∀ r c : Int,
    kinds (l.map fun j => COp.ins vr j true) r c = if r = vr ∧ c ∈ l then [1] else [] := by
  intro l
  induction l with
  | nil => intro _ r c; simp [kinds]
  | cons j l ih =>
    intro hnd r c
    rw [List.nodup_cons] at hnd
    rw [List.map_cons, kinds_cons_ins, ih hnd.2]
    by_cases h1 : vr = r ∧ j = c
    · obtain ⟨rfl, rfl⟩ := h1
      simp [hnd.1]
    · rw [if_neg h1]
      by_cases h2 : r = vr
      · subst h2
        have : ¬ c = j := fun h => h1 ⟨rfl, h.symm⟩
        simp [this]
      · simp [h2]

theorem initialCols_nodup (w : Nat) (vc : Int) : (initialCols w vc).Nodup := by
  unfold initialCols
  refine List.Nodup.sublist List.filter_sublist ?_
  rw [List.nodup_map_iff_inj_on List.nodup_range]
  intro a _ b _ h
  exact_mod_cast h

theorem mem_initialCols' (w : Nat) (vc j : Int) : j ∈ initialCols w vc ↔ vc < j ∧ 0 ≤ j ∧ j < w := by
  simp only [initialCols, List.mem_filter, List.mem_map, List.mem_range, decide_eq_true_eq]
  constructor
  · rintro ⟨⟨k, hk, rfl⟩, hv⟩; omega
  · rintro ⟨hv, h0, hw⟩; exact ⟨⟨j.toNat, by omega, by omega⟩, hv⟩

theorem eventList_mem_bounds (T : Int → Int → Rat) (h w : Nat) (vr vc : Int) (e : Event)
    (he : e ∈ eventList T h w vr vc) : ∃ i j : Nat, i < h ∧ j < w ∧ e.row = i ∧ e.col = j := by
  unfold eventList at he
  rw [List.mem_flatMap] at he
  obtain ⟨i, hi, he⟩ := he
  rw [List.mem_flatMap] at he
  obtain ⟨j, hj, he⟩ := he
  rw [List.mem_range] at hi hj
  split at he
  · simp at he
  · simp only [cellEvents, List.mem_cons, List.not_mem_nil, or_false] at he
    exact ⟨i, j, hi, hj, by rcases he with rfl | rfl | rfl <;> rfl, by rcases he with rfl | rfl | rfl <;> rfl⟩

/-- the filtered sorted list, for any integer cell coordinates -/
theorem sortedEvents_filter_cell_int (T : Int → Int → Rat) (h w : Nat) (vr vc r c : Int) :
    (sortedEvents T h w vr vc).filter (ofCell r c) =
      if 0 ≤ r ∧ r < h ∧ 0 ≤ c ∧ c < w ∧ ¬(r = vr ∧ c = vc) then
        (if r = vr ∧ vc < c
         then [mkEvent T h w vr vc r c 0, mkEvent T h w vr vc r c (-1), mkEvent T h w vr vc r c 1]
         else [mkEvent T h w vr vc r c 1, mkEvent T h w vr vc r c 0, mkEvent T h w vr vc r c (-1)])
      else [] := by
  by_cases hin : 0 ≤ r ∧ r < h ∧ 0 ≤ c ∧ c < w ∧ ¬(r = vr ∧ c = vc)
  · rw [if_pos hin]
    obtain ⟨n, rfl⟩ : ∃ n : Nat, r = n := ⟨r.toNat, by omega⟩
    obtain ⟨m, rfl⟩ : ∃ m : Nat, c = m := ⟨c.toNat, by omega⟩
    exact sortedEvents_filter_cell T h w vr vc n m ⟨by omega, by omega, hin.2.2.2.2⟩
  · rw [if_neg hin, List.filter_eq_nil_iff]
    intro e he
    have he' := (sortedEvents_perm T h w vr vc).mem_iff.mp he
    obtain ⟨i, j, hi, hj, er, ec⟩ := eventList_mem_bounds T h w vr vc e he'
    intro hoc
    simp only [ofCell, Bool.and_eq_true, decide_eq_true_eq] at hoc
    -- the only way out: the observer's own cell, which has no events
    have hobs : r = vr ∧ c = vc := by
      by_contra hno
      exact hin ⟨by omega, by omega, by omega, by omega, hno⟩
    have : e ∈ (eventList T h w vr vc).filter (ofCell i j) := by
      rw [List.mem_filter]; exact ⟨he', by simp [ofCell, er, ec]⟩
    rw [eventList_filter_cell, if_neg (by omega)] at this
    simp at this

theorem kind_opOfEvent_mkEvent (T : Int → Int → Rat) (h w vr vc r c : Int) :
    (opOfEvent (mkEvent T h w vr vc r c 1)).kind = 1 ∧ (opOfEvent (mkEvent T h w vr vc r c 0)).kind = 0 ∧
    (opOfEvent (mkEvent T h w vr vc r c (-1))).kind = -1 := by
  simp [opOfEvent, mkEvent, COp.kind]

theorem kinds_map_opOfEvent (l : List Event) (r c : Int) :
    kinds (l.map opOfEvent) r c = ((l.filter (ofCell r c)).map opOfEvent).map COp.kind := by
  unfold kinds
  rw [List.filter_map]
  congr 2
  apply List.filter_congr
  intro e _
  simp only [Function.comp, ofCell, opOfEvent]
  split <;> [skip; split] <;> rfl

/-- **the operations of one cell, for all raster sizes, observer positions and terrains**: insert, query, delete -- and on
    the east ray: initial insert, query (first events of the sweep, bearing 0), delete, and a second insert at the very end
    of the sweep (bearing just below 2π), never deleted -/
theorem kinds_sweepOps (T : Int → Int → Rat) (h w : Nat) (vr vc : Int) (hobs : 0 ≤ vr ∧ vr < h) (r c : Int) :
    kinds (sweepOps T h w vr vc) r c =
      if 0 ≤ r ∧ r < h ∧ 0 ≤ c ∧ c < w ∧ ¬(r = vr ∧ c = vc) then
        (if r = vr ∧ vc < c then [1, 0, -1, 1] else [1, 0, -1])
      else [] := by
  unfold sweepOps
  rw [kinds_append, kinds_initial vr _ (initialCols_nodup w vc), kinds_map_opOfEvent, sortedEvents_filter_cell_int]
  simp only [mem_initialCols']
  obtain ⟨k1, k0, km⟩ := kind_opOfEvent_mkEvent T h w vr vc r c
  by_cases hin : 0 ≤ r ∧ r < h ∧ 0 ≤ c ∧ c < w ∧ ¬(r = vr ∧ c = vc)
  · rw [if_pos hin, if_pos hin]
    by_cases he : r = vr ∧ vc < c
    · rw [if_pos he, if_pos he, if_pos ⟨he.1, he.2, hin.2.2.1, hin.2.2.2.1⟩]
      simp only [List.map_cons, List.map_nil, k1, k0, km, List.cons_append, List.nil_append]
    · rw [if_neg he, if_neg he, if_neg (by intro h'; exact he ⟨h'.1, h'.2.1⟩)]
      simp only [List.map_cons, List.map_nil, k1, k0, km, List.nil_append]
  · rw [if_neg hin, if_neg hin]
    have : ¬(r = vr ∧ vc < c ∧ 0 ≤ c ∧ c < w) := by
      intro h'
      exact hin ⟨by omega, by omega, h'.2.2.1, h'.2.2.2, by omega⟩
    rw [if_neg this]; rfl

/-- **the active-set discipline holds for every raster, observer and terrain**: replaying the initial fill and the sorted
    events, every insertion is of a cell that is not in the status structure, every deletion and every query of a cell
    that is -/
theorem replay_sweepOps (T : Int → Int → Rat) (h w : Nat) (vr vc : Int) (hobs : 0 ≤ vr ∧ vr < h) :
    replay [] (sweepOps T h w vr vc) = true := by
  rw [replay_iff]
  intro r c
  rw [kinds_sweepOps T h w vr vc hobs]
  have : ([] : List (Int × Int)).contains (r, c) = false := rfl
  rw [this]
  split
  · split <;> decide
  · rfl

end XrsVerif.ViewshedEvents
