import XrsVerif.Proofs.ILang
import XrsVerif.Model.AStar
/-
  Proofs/ILangAstar.lean -- generic ILang lemmas used by the refinement proofs of the programs generated
  from xrspatial/pathfinding.py (Proofs/ILAStar*.lean):

  * `setS_*`, `State.eta_ctl`: environments;
  * `ilsimp`: symbolic execution of straight-line ILang code by `simp`;
  * `Ren q`: an injective renaming of local variables (`id` for the stand-alone function, `(prefix ++ ·)` for a
    copy inlined by the translator), so that one proof serves the function and its inlined copies;
  * `Frame iv fv bv s s'`: `s'` differs from `s` only in control and in the listed scalar variables;
  * `forRange_up`: invariant rule for `for v in range(n)`;
  * `cidx`, `inside_*`, `getD_set_*`: row-major cell offsets and array updates;
  * `foldl_cells`: a fold over `AStar.cells h w` is a fold over rows of folds over columns.
-/
namespace XrsVerif.IL
open XrsVerif XrsVerif.AStar
variable {F : Type} [Fl F]
set_option linter.unusedSectionVars false

/-! ### environments -/

theorem setS_apply {α} (env : String → α) (v w : String) (x : α) :
    setS env v x w = if w = v then x else env w := rfl

theorem setS_setS {α} (env : String → α) (v : String) (x y : α) :
    setS (setS env v x) v y = setS env v y := by
  funext w; simp only [setS]; split <;> rfl

theorem setS_self {α} (env : String → α) (v : String) : setS env v (env v) = env := by
  funext w; simp only [setS]; split <;> simp_all

theorem State.eta_ctl (s : State F) (c : Ctl) (h : s.ctl = c) : { s with ctl := c } = s := by
  cases s; simp_all

theorem getD_pair_0 {α} (a b d : α) : [a, b].getD 0 d = a := rfl
theorem getD_pair_1 {α} (a b d : α) : [a, b].getD 1 d = b := rfl
theorem getD_single_0 {α} (a d : α) : [a].getD 0 d = a := rfl

/-- unfold the ILang semantics (plus the given facts) and simplify -/
syntax "ilsimp" ("[" Lean.Parser.Tactic.simpLemma,* "]")? (Lean.Parser.Tactic.location)? : tactic
macro_rules
  | `(tactic| ilsimp) => `(tactic| simp [exec, BE.ok, BE.eval, IE.ok, IE.eval, FE.ok, FE.eval, IOp.eval, cmpInt,
      CmpOp.eval, BinOp.eval, UnOp.eval, setS_apply, State.error, -List.getD_eq_getElem?_getD, getD_pair_0, getD_pair_1, getD_single_0])
  | `(tactic| ilsimp [$ts,*]) => `(tactic| simp [exec, BE.ok, BE.eval, IE.ok, IE.eval, FE.ok, FE.eval, IOp.eval,
      cmpInt, CmpOp.eval, BinOp.eval, UnOp.eval, setS_apply, State.error, -List.getD_eq_getElem?_getD, getD_pair_0, getD_pair_1, getD_single_0, $ts,*])
  | `(tactic| ilsimp $loc:location) => `(tactic| simp [exec, BE.ok, BE.eval, IE.ok, IE.eval, FE.ok, FE.eval,
      IOp.eval, cmpInt, CmpOp.eval, BinOp.eval, UnOp.eval, setS_apply, State.error, -List.getD_eq_getElem?_getD, getD_pair_0, getD_pair_1, getD_single_0] $loc)
  | `(tactic| ilsimp [$ts,*] $loc:location) => `(tactic| simp [exec, BE.ok, BE.eval, IE.ok, IE.eval, FE.ok, FE.eval,
      IOp.eval, cmpInt, CmpOp.eval, BinOp.eval, UnOp.eval, setS_apply, State.error, -List.getD_eq_getElem?_getD, getD_pair_0, getD_pair_1, getD_single_0, $ts,*] $loc)

/-! ### sequencing under control -/

/-- run the first statement to a known state, then continue -/
theorem exec_seq_eq {fuel : Nat} {a b : St} {s s1 : State F} (h : exec fuel a s = s1) :
    exec fuel (.seq a b) s = if s1.ctl = .run then exec fuel b s1 else s1 := by
  rw [exec]; simp only [h]

theorem exec_seq_to {fuel : Nat} {a b : St} {s s1 : State F} (h : exec fuel a s = s1) (hc : s1.ctl = .run) :
    exec fuel (.seq a b) s = exec fuel b s1 := by
  rw [exec_seq_eq h, if_pos hc]

theorem exec_scope_eq {fuel : Nat} {a : St} {s s1 : State F} (h : exec fuel a s = s1) :
    exec fuel (.scope a) s = if s1.ctl = .ret then { s1 with ctl := .run } else s1 := by
  rw [exec]; simp only [h]

/-! ### `while`, one iteration at a time -/

theorem exec_while_to {fuel : Nat} {c : BE} {body : St} {s s1 : State F} (hok : c.ok s = true)
    (hc : c.eval s = true) (h1 : exec fuel body s = s1) (hr : s1.ctl = .run) :
    exec (fuel + 1) (.while c body) s = exec fuel (.while c body) s1 := by
  rw [exec]; simp only [hok, hc, if_true, h1, hr]

theorem exec_while_exit {fuel : Nat} {c : BE} {body : St} {s : State F} (hok : c.ok s = true)
    (hc : c.eval s = false) : exec (fuel + 1) (.while c body) s = s := by
  rw [exec]; simp [hok, hc]

/-! ### renamings -/

/-- an injective renaming of variable names -/
structure Ren (q : String → String) : Prop where
  inj : ∀ a b, q a = q b ↔ a = b

theorem Ren.id : Ren (fun a => a) := ⟨fun _ _ => Iff.rfl⟩

theorem Ren.pre (p : String) : Ren (fun a => p ++ a) := ⟨fun _ _ => String.append_right_inj p⟩

/-! ### frames -/

/-- `s'` agrees with `s` on all arrays, shapes, external functions and on every scalar variable outside the
    given lists (control may differ) -/
structure Frame (iv fv bv : List String) (s s' : State F) : Prop where
  ia : s'.ia = s.ia
  fa : s'.fa = s.fa
  shp : s'.shp = s.shp
  ext : s'.ext = s.ext
  ienv : ∀ x, x ∉ iv → s'.ienv x = s.ienv x
  fenv : ∀ x, x ∉ fv → s'.fenv x = s.fenv x
  benv : ∀ x, x ∉ bv → s'.benv x = s.benv x

theorem Frame.refl (iv fv bv : List String) (s : State F) : Frame iv fv bv s s :=
  ⟨rfl, rfl, rfl, rfl, fun _ _ => rfl, fun _ _ => rfl, fun _ _ => rfl⟩

theorem Frame.trans {iv fv bv : List String} {s s' s'' : State F} (h1 : Frame iv fv bv s s')
    (h2 : Frame iv fv bv s' s'') : Frame iv fv bv s s'' :=
  ⟨h2.ia.trans h1.ia, h2.fa.trans h1.fa, h2.shp.trans h1.shp, h2.ext.trans h1.ext,
   fun x hx => (h2.ienv x hx).trans (h1.ienv x hx), fun x hx => (h2.fenv x hx).trans (h1.fenv x hx),
   fun x hx => (h2.benv x hx).trans (h1.benv x hx)⟩

theorem Frame.mono {iv fv bv iv' fv' bv' : List String} {s s' : State F} (h : Frame iv fv bv s s')
    (hi : ∀ x ∈ iv, x ∈ iv') (hf : ∀ x ∈ fv, x ∈ fv') (hb : ∀ x ∈ bv, x ∈ bv') : Frame iv' fv' bv' s s' :=
  ⟨h.ia, h.fa, h.shp, h.ext, fun x hx => h.ienv x (fun hm => hx (hi x hm)),
   fun x hx => h.fenv x (fun hm => hx (hf x hm)), fun x hx => h.benv x (fun hm => hx (hb x hm))⟩


theorem Frame.setI {iv fv bv : List String} {s st : State F} (h : Frame iv fv bv s st) (v : String) (x : Int)
    (hv : v ∈ iv) : Frame iv fv bv s { st with ienv := setS st.ienv v x } :=
  ⟨h.ia, h.fa, h.shp, h.ext, fun y hy => by
    have : y ≠ v := fun e => hy (e ▸ hv)
    simp only [setS_apply, this, if_false]; exact h.ienv y hy, h.fenv, h.benv⟩

theorem Frame.setF {iv fv bv : List String} {s st : State F} (h : Frame iv fv bv s st) (v : String) (x : F)
    (hv : v ∈ fv) : Frame iv fv bv s { st with fenv := setS st.fenv v x } :=
  ⟨h.ia, h.fa, h.shp, h.ext, h.ienv, fun y hy => by
    have : y ≠ v := fun e => hy (e ▸ hv)
    simp only [setS_apply, this, if_false]; exact h.fenv y hy, h.benv⟩

theorem Frame.setB {iv fv bv : List String} {s st : State F} (h : Frame iv fv bv s st) (v : String) (x : Bool)
    (hv : v ∈ bv) : Frame iv fv bv s { st with benv := setS st.benv v x } :=
  ⟨h.ia, h.fa, h.shp, h.ext, h.ienv, h.fenv, fun y hy => by
    have : y ≠ v := fun e => hy (e ▸ hv)
    simp only [setS_apply, this, if_false]; exact h.benv y hy⟩

theorem Frame.setCtl {iv fv bv : List String} {s st : State F} (h : Frame iv fv bv s st) (c : Ctl) :
    Frame iv fv bv s { st with ctl := c } :=
  ⟨h.ia, h.fa, h.shp, h.ext, h.ienv, h.fenv, h.benv⟩

/-- a frame is extended to a state whose arrays agree with the origin and whose scalars differ from the previous
    state only in listed variables (shape-insensitive: the hypotheses are equations between projections) -/
theorem Frame.of_eqs {iv fv bv : List String} {s st st2 : State F} (h : Frame iv fv bv s st)
    (hia : st2.ia = s.ia) (hfa : st2.fa = s.fa) (hshp : st2.shp = s.shp) (hext : st2.ext = s.ext)
    (hi : ∀ x, x ∉ iv → st2.ienv x = st.ienv x) (hf : ∀ x, x ∉ fv → st2.fenv x = st.fenv x)
    (hb : ∀ x, x ∉ bv → st2.benv x = st.benv x) : Frame iv fv bv s st2 :=
  ⟨hia, hfa, hshp, hext, fun x hx => (hi x hx).trans (h.ienv x hx), fun x hx => (hf x hx).trans (h.fenv x hx),
   fun x hx => (hb x hx).trans (h.benv x hx)⟩

/-- `frame_from [defs] h`: prove `Frame iv fv bv s st2` from `h : Frame iv fv bv s st` when `st2` is `st` with
    listed scalars updated; `defs` unfold the variable lists -/
syntax "frame_from" "[" Lean.Parser.Tactic.simpLemma,* "]" term : tactic
macro_rules
  | `(tactic| frame_from [$ts,*] $h) => `(tactic|
      refine Frame.of_eqs $h ?_ ?_ ?_ ?_ ?_ ?_ ?_ <;>
      first
      | (simp [($h).ia, ($h).fa, ($h).shp, ($h).ext]; done)
      | (intro x hx; rfl)
      | (intro x hx; simp [$ts,*] at hx; simp [setS_apply, hx]; done))

/-! ### `for v in range(n)` -/

/-- invariant rule for `for v in range(0, hi, 1)` where `hi` evaluates to the natural number `n` -/
theorem forRange_up (v : String) (hi : IE) (body : St) (n : Nat) (fuel : Nat) (s : State F)
    (hs : s.ctl = .run) (hok : hi.ok s = true) (hn : hi.eval s = (n : Int))
    (P : Nat → State F → Prop) (h0 : P 0 s)
    (step : ∀ i, i < n → ∀ st : State F, st.ctl = .run → P i st →
      (afterBody (exec fuel body { st with ienv := setS st.ienv v (i : Int) })).ctl = .run ∧
      P (i + 1) (afterBody (exec fuel body { st with ienv := setS st.ienv v (i : Int) }))) :
    (exec fuel (.forRange v (.lit 0) hi (.lit 1) body) s).ctl = .run ∧
    P n (exec fuel (.forRange v (.lit 0) hi (.lit 1) body) s) := by
  rw [exec]
  simp only [IE.ok, IE.eval, hok, hn, Bool.true_and, Bool.and_true]
  simp only [rangeList_up]
  have := loopOver_inv (fun st (i : Int) => exec fuel body { st with ienv := setS st.ienv v i })
    ((List.range n).map (fun (k : Nat) => (k : Int))) P s hs h0
    (fun i hi st hst hp => by
      have hi' : i < n := by simpa using hi
      have := step i hi' st hst hp
      simpa using this)
  simpa using this

/-! ### cells and offsets -/

/-- row-major offset of a cell -/
def cidx (w : Nat) (c : Cell) : Nat := c.1.toNat * w + c.2.toNat

theorem inside_iff (h w : Nat) (c : Cell) :
    inside h w c = true ↔ 0 ≤ c.1 ∧ c.1 < (h : Int) ∧ 0 ≤ c.2 ∧ c.2 < (w : Int) := by
  unfold inside; simp only [Bool.and_eq_true, decide_eq_true_eq]; omega

theorem inRange_inside {n : Nat} {i : Int} (h0 : 0 ≤ i) (h1 : i < (n : Int)) : inRange i n = true := by
  unfold inRange normIdx; simp; omega

theorem off2_inside (h w : Nat) (c : Cell) (hc : inside h w c = true) : off2 [h, w] c.1 c.2 = cidx w c := by
  rw [inside_iff] at hc
  unfold off2 cidx normIdx
  simp only [List.getD_cons_zero, List.getD_cons_succ]
  have h1 : ¬ c.1 < 0 := by omega
  have h2 : ¬ c.2 < 0 := by omega
  simp [h1, h2]

theorem cidx_lt (h w : Nat) (c : Cell) (hc : inside h w c = true) : cidx w c < h * w := by
  rw [inside_iff] at hc
  unfold cidx
  have h1 : c.1.toNat < h := by omega
  have h2 : c.2.toNat < w := by omega
  calc c.1.toNat * w + c.2.toNat < c.1.toNat * w + w := by omega
    _ = (c.1.toNat + 1) * w := by rw [Nat.add_mul]; simp
    _ ≤ h * w := Nat.mul_le_mul_right w h1

theorem cidx_inj (h w : Nat) (c c' : Cell) (hc : inside h w c = true) (hc' : inside h w c' = true)
    (he : cidx w c = cidx w c') : c = c' := by
  rw [inside_iff] at hc hc'
  unfold cidx at he
  have h2 : c.2.toNat < w := by omega
  have h2' : c'.2.toNat < w := by omega
  have hw : 0 < w := by omega
  have e1 : (c.1.toNat * w + c.2.toNat) / w = c.1.toNat := by
    rw [Nat.mul_comm, Nat.mul_add_div hw, Nat.div_eq_of_lt h2]; simp
  have e1' : (c'.1.toNat * w + c'.2.toNat) / w = c'.1.toNat := by
    rw [Nat.mul_comm, Nat.mul_add_div hw, Nat.div_eq_of_lt h2']; simp
  have e2 : (c.1.toNat * w + c.2.toNat) % w = c.2.toNat := by
    rw [Nat.mul_comm, Nat.mul_add_mod, Nat.mod_eq_of_lt h2]
  have e2' : (c'.1.toNat * w + c'.2.toNat) % w = c'.2.toNat := by
    rw [Nat.mul_comm, Nat.mul_add_mod, Nat.mod_eq_of_lt h2']
  rw [he] at e1 e2
  have a1 : c.1.toNat = c'.1.toNat := by omega
  have a2 : c.2.toNat = c'.2.toNat := by omega
  apply Prod.ext <;> omega

theorem cidx_nat (w i j : Nat) : cidx w ((i : Int), (j : Int)) = i * w + j := by
  unfold cidx; simp

theorem inside_nat (h w i j : Nat) (hi : i < h) (hj : j < w) : inside h w ((i : Int), (j : Int)) = true := by
  rw [inside_iff]; simp; omega

theorem getD_set_same {α} (l : List α) (k : Nat) (x d : α) (hk : k < l.length) : (l.set k x).getD k d = x := by
  simp [List.getD_eq_getElem?_getD, hk]

theorem getD_set_other {α} (l : List α) (k k' : Nat) (x d : α) (hk : k ≠ k') :
    (l.set k x).getD k' d = l.getD k' d := by
  simp [List.getD_eq_getElem?_getD, hk]

/-- a fold over all cells in row-major order = fold over rows of folds over columns -/
theorem foldl_cells {β} (g : β → Cell → β) (h w : Nat) (a : β) :
    (cells h w).foldl g a =
      (List.range h).foldl (fun acc (i : Nat) =>
        ((List.range w).map fun (j : Nat) => ((i : Int), (j : Int))).foldl g acc) a := by
  unfold cells; rw [List.foldl_flatMap]

theorem foldl_range_succ {β} (g : β → Nat → β) (n : Nat) (a : β) :
    (List.range (n + 1)).foldl g a = g ((List.range n).foldl g a) n := by
  rw [List.range_succ, List.foldl_append]; rfl

theorem foldl_map_range_succ {β γ} (f : Nat → γ) (g : β → γ → β) (n : Nat) (a : β) :
    ((List.range (n + 1)).map f).foldl g a = g (((List.range n).map f).foldl g a) (f n) := by
  rw [List.range_succ, List.map_append, List.foldl_append]; rfl

/-- the encoding of an optional cell in two integer variables: `(NONE, NONE) = (-1, -1)` -/
def enc : Option Cell → Cell
  | none => (-1, -1)
  | some c => c

end XrsVerif.IL
