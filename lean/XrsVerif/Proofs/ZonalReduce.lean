import XrsVerif.Proofs.Zonal
import Mathlib.Algebra.Order.Field.Basic
import Mathlib.Algebra.BigOperators.Group.List.Basic
import Mathlib.Tactic.Ring
import Mathlib.Tactic.FieldSimp
import Mathlib.Tactic.Order
/-
  Proofs/ZonalReduce.lean -- the built-in reducers over an arbitrary linearly ordered field:
  they are order independent, `rmax`/`rmin` (folds) are the greatest / least element, sums over a
  concatenation add, and the dask variance formula `(ss - s^2/n)/n` is the population variance.
-/
set_option linter.unusedSectionVars false
set_option linter.unusedVariables false
namespace XrsVerif.Zonal

variable {F : Type} [Field F] [LinearOrder F] [IsStrictOrderedRing F]

/-! ### max / min -/

theorem foldl_max_spec (xs : List F) (a : F) :
    let m := xs.foldl (fun a b => if a < b then b else a) a
    (m = a ∨ m ∈ xs) ∧ a ≤ m ∧ ∀ x ∈ xs, x ≤ m := by
  induction xs generalizing a with
  | nil => simp
  | cons x xs ih =>
    simp only [List.foldl_cons]
    by_cases hax : a < x
    · obtain ⟨h1, h2, h3⟩ := ih x
      simp only [hax, if_true]
      refine ⟨?_, by order, ?_⟩
      · rcases h1 with h | h
        · right; rw [h]; simp
        · right; exact List.mem_cons_of_mem _ h
      · intro y hy
        rcases List.mem_cons.mp hy with rfl | hy
        · exact h2
        · exact h3 y hy
    · obtain ⟨h1, h2, h3⟩ := ih a
      simp only [hax, if_false]
      refine ⟨?_, h2, ?_⟩
      · rcases h1 with h | h
        · left; exact h
        · right; exact List.mem_cons_of_mem _ h
      · intro y hy
        rcases List.mem_cons.mp hy with rfl | hy
        · order
        · exact h3 y hy

theorem foldl_min_spec (xs : List F) (a : F) :
    let m := xs.foldl (fun a b => if b < a then b else a) a
    (m = a ∨ m ∈ xs) ∧ m ≤ a ∧ ∀ x ∈ xs, m ≤ x := by
  induction xs generalizing a with
  | nil => simp
  | cons x xs ih =>
    simp only [List.foldl_cons]
    by_cases hax : x < a
    · obtain ⟨h1, h2, h3⟩ := ih x
      simp only [hax, if_true]
      refine ⟨?_, by order, ?_⟩
      · rcases h1 with h | h
        · right; rw [h]; simp
        · right; exact List.mem_cons_of_mem _ h
      · intro y hy
        rcases List.mem_cons.mp hy with rfl | hy
        · exact h2
        · exact h3 y hy
    · obtain ⟨h1, h2, h3⟩ := ih a
      simp only [hax, if_false]
      refine ⟨?_, h2, ?_⟩
      · rcases h1 with h | h
        · left; exact h
        · right; exact List.mem_cons_of_mem _ h
      · intro y hy
        rcases List.mem_cons.mp hy with rfl | hy
        · order
        · exact h3 y hy

/-- `rmax` of a non-empty list is its greatest element -/
theorem rmax_spec (l : List F) (hl : l ≠ []) : rmax l ∈ l ∧ ∀ x ∈ l, x ≤ rmax l := by
  cases l with
  | nil => exact absurd rfl hl
  | cons a xs =>
    obtain ⟨h1, h2, h3⟩ := foldl_max_spec xs a
    refine ⟨?_, ?_⟩
    · rcases h1 with h | h
      · show xs.foldl _ a ∈ _; rw [h]; simp
      · exact List.mem_cons_of_mem _ h
    · intro x hx
      rcases List.mem_cons.mp hx with rfl | hx
      · exact h2
      · exact h3 x hx

/-- `rmin` of a non-empty list is its least element -/
theorem rmin_spec (l : List F) (hl : l ≠ []) : rmin l ∈ l ∧ ∀ x ∈ l, rmin l ≤ x := by
  cases l with
  | nil => exact absurd rfl hl
  | cons a xs =>
    obtain ⟨h1, h2, h3⟩ := foldl_min_spec xs a
    refine ⟨?_, ?_⟩
    · rcases h1 with h | h
      · show xs.foldl _ a ∈ _; rw [h]; simp
      · exact List.mem_cons_of_mem _ h
    · intro x hx
      rcases List.mem_cons.mp hx with rfl | hx
      · exact h2
      · exact h3 x hx

/-- a greatest element is unique: whatever list has the same members has the same `rmax` -/
theorem rmax_eq_of_mem_iff (l l' : List F) (h : ∀ x, x ∈ l ↔ x ∈ l') : rmax l = rmax l' := by
  cases l with
  | nil => cases l' with
    | nil => rfl
    | cons b _ => have := (h b).mpr (by simp); simp at this
  | cons a xs =>
    have hl' : l' ≠ [] := by intro e; subst e; have := (h a).mp (by simp); simp at this
    obtain ⟨m1, g1⟩ := rmax_spec (a :: xs) (by simp)
    obtain ⟨m2, g2⟩ := rmax_spec l' hl'
    exact le_antisymm (g2 _ ((h _).mp m1)) (g1 _ ((h _).mpr m2))

theorem rmin_eq_of_mem_iff (l l' : List F) (h : ∀ x, x ∈ l ↔ x ∈ l') : rmin l = rmin l' := by
  cases l with
  | nil => cases l' with
    | nil => rfl
    | cons b _ => have := (h b).mpr (by simp); simp at this
  | cons a xs =>
    have hl' : l' ≠ [] := by intro e; subst e; have := (h a).mp (by simp); simp at this
    obtain ⟨m1, g1⟩ := rmin_spec (a :: xs) (by simp)
    obtain ⟨m2, g2⟩ := rmin_spec l' hl'
    exact le_antisymm (g1 _ ((h _).mpr m2)) (g2 _ ((h _).mp m1))

/-! ### order independence of every built-in statistic -/

theorem rsum_perm (l l' : List F) (h : l.Perm l') : rsum l = rsum l' := h.sum_eq
theorem rcount_perm (l l' : List F) (h : l.Perm l') : rcount l = rcount l' := by
  unfold rcount; rw [h.length_eq]
theorem rmean_perm (l l' : List F) (h : l.Perm l') : rmean l = rmean l' := by
  unfold rmean; rw [rsum_perm l l' h, rcount_perm l l' h]
theorem rsumsq_perm (l l' : List F) (h : l.Perm l') : rsumsq l = rsumsq l' := (h.map _).sum_eq
theorem rvar_perm (l l' : List F) (h : l.Perm l') : rvar l = rvar l' := by
  unfold rvar; rw [rmean_perm l l' h, rcount_perm l l' h, (h.map _).sum_eq]
theorem rmax_perm (l l' : List F) (h : l.Perm l') : rmax l = rmax l' :=
  rmax_eq_of_mem_iff l l' (fun _ => h.mem_iff)
theorem rmin_perm (l l' : List F) (h : l.Perm l') : rmin l = rmin l' :=
  rmin_eq_of_mem_iff l l' (fun _ => h.mem_iff)

theorem Stat.eval_perm (sqrt : F → F) (s : Stat) (l l' : List F) (h : l.Perm l') :
    s.eval sqrt l = s.eval sqrt l' := by
  cases s <;> simp only [Stat.eval]
  · exact rmean_perm l l' h
  · exact rmax_perm l l' h
  · exact rmin_perm l l' h
  · exact rsum_perm l l' h
  · rw [rvar_perm l l' h]
  · exact rvar_perm l l' h
  · exact rcount_perm l l' h

theorem Stat.func_permInv (sqrt : F → F) (s : Stat) : PermInv (Stat.func sqrt s : List (X F) → Option F) := by
  intro l l' h
  unfold Stat.func
  rw [Stat.eval_perm sqrt s _ _ (h.filterMap _)]

/-! ### additivity over a concatenation (per-block partials) -/

theorem rsum_append (a b : List F) : rsum (a ++ b) = rsum a + rsum b := by simp [rsum]
theorem rsumsq_append (a b : List F) : rsumsq (a ++ b) = rsumsq a + rsumsq b := by simp [rsumsq]
theorem rcount_append (a b : List F) : rcount (a ++ b) = rcount a + rcount b := by simp [rcount]

theorem rmax_append (a b : List F) (ha : a ≠ []) (hb : b ≠ []) :
    rmax (a ++ b) = if rmax a < rmax b then rmax b else rmax a := by
  obtain ⟨ma, ga⟩ := rmax_spec a ha
  obtain ⟨mb, gb⟩ := rmax_spec b hb
  obtain ⟨m, g⟩ := rmax_spec (a ++ b) (by simp [ha])
  apply le_antisymm
  · rcases List.mem_append.mp m with h | h
    · have := ga _ h; split <;> order
    · have := gb _ h; split <;> order
  · split
    · exact g _ (List.mem_append.mpr (Or.inr mb))
    · exact g _ (List.mem_append.mpr (Or.inl ma))

theorem rmin_append (a b : List F) (ha : a ≠ []) (hb : b ≠ []) :
    rmin (a ++ b) = if rmin b < rmin a then rmin b else rmin a := by
  obtain ⟨ma, ga⟩ := rmin_spec a ha
  obtain ⟨mb, gb⟩ := rmin_spec b hb
  obtain ⟨m, g⟩ := rmin_spec (a ++ b) (by simp [ha])
  apply le_antisymm
  · split
    · exact g _ (List.mem_append.mpr (Or.inr mb))
    · exact g _ (List.mem_append.mpr (Or.inl ma))
  · rcases List.mem_append.mp m with h | h
    · have := ga _ h; split <;> order
    · have := gb _ h; split <;> order

/-! ### the documented dask formulas are the NumPy statistics -/

theorem sum_sq_dev (l : List F) (m : F) :
    (l.map (fun x => (x - m) * (x - m))).sum = rsumsq l - 2 * m * rsum l + (l.length : F) * (m * m) := by
  induction l with
  | nil => simp [rsumsq, rsum]
  | cons a l ih =>
    simp only [List.map_cons, List.sum_cons, ih, rsumsq, rsum, List.length_cons, Nat.cast_add, Nat.cast_one]
    ring

/-- `(sum_squares - sum^2 / n) / n` is the population variance (for a non-empty zone) -/
theorem dask_var_eq (l : List F) (hl : l ≠ []) :
    (rsumsq l - rsum l * rsum l / rcount l) / rcount l = rvar l := by
  have hn : (l.length : F) ≠ 0 := by
    have : 0 < l.length := List.length_pos_iff.mpr hl
    exact Nat.cast_ne_zero.mpr (by omega)
  unfold rvar rmean
  rw [sum_sq_dev]
  unfold rcount
  field_simp
  ring

/-- `sum / count` is the mean -/
theorem dask_mean_eq (l : List F) : rsum l / rcount l = rmean l := rfl

end XrsVerif.Zonal
