import XrsVerif.Proofs.ILViewshedDelPre
/-
  Proofs/ILViewshedDelCopy.lean -- the successor case of `_delete_from_tree` on the arrays (`delCopy`): `z` -- some
  frames above the spliced-out node -- gets the successor's content, its maximum is recomputed (C), loop L2 runs over
  its ancestors.  `delCopyB_spec`: the abstraction of the context afterwards is the model's `cl2T`;
  `delCopyA_spec`: when `y = z` the block does nothing.
-/
set_option linter.unusedSectionVars false
set_option linter.unusedVariables false
set_option linter.unusedSimpArgs false
namespace XrsVerif.ILVs
open XrsVerif XrsVerif.IL XrsVerif.Viewshed
variable {F : Type} [Fl F]

/-! ### splitting a context -/

/-- the pointer of the child below the frame that follows `below` -/
def lastPtr : Int → Ctx → Int
  | c, [] => c
  | _, fr :: rest => lastPtr (fr.idx : Int) rest

theorem CtxLinked.append {N : List Int} {n : Nat} : ∀ (a : Ctx) (c : Int) (b : Ctx), CtxLinked N n c (a ++ b) →
    CtxLinked N n (lastPtr c a) b := by
  intro a
  induction a with
  | nil => intro c b h; exact h
  | cons fr rest ih => intro c b h; exact ih _ _ h.step.2.2

theorem mxAt_lastPtr (V : List F) (N : List Int) (n : Nat) : ∀ (a : Ctx) (c : Int),
    mxAt V n (lastPtr c a) = lastMx (mxAt V n c) (absCtx V N a) := by
  intro a
  induction a with
  | nil => intro c; rfl
  | cons fr rest ih =>
    intro c
    simp only [lastPtr, absCtx, List.map_cons, lastMx, absFr_mx]
    rw [ih]
    simp [mxAt, absCtx]

theorem ctxIdxs_append : ∀ (a b : Ctx), ctxIdxs (a ++ b) = ctxIdxs a ++ ctxIdxs b := by
  intro a
  induction a with
  | nil => intro b; rfl
  | cons fr rest ih => intro b; simp only [List.cons_append, ctxIdxs_cons, ih, List.append_assoc, List.cons_append]

theorem absCtx_append (V : List F) (N : List Int) (a b : Ctx) : absCtx V N (a ++ b) = absCtx V N a ++ absCtx V N b := by
  simp [absCtx]

theorem absCtx_length (V : List F) (N : List Int) (a : Ctx) : (absCtx V N a).length = a.length := by simp [absCtx]

/-- `lastPtr` is NIL-or-row like its start -/
theorem lastPtr_ok {N : List Int} {n : Nat} : ∀ (a : Ctx) (c : Int) (b : Ctx), CtxLinked N n c (a ++ b) → PtrOK n c →
    PtrOK n (lastPtr c a) := by
  intro a
  induction a with
  | nil => intro c b _ h; exact h
  | cons fr rest ih =>
    intro c b h _
    exact ih _ _ h.step.2.2 (by have := h.step.1; simp only [PtrOK]; omega)

/-! ### `y = z`: nothing to copy -/

theorem delCopyA_spec (fuel : Nat) (s : State F) (hrun : s.ctl = .run) (y : Nat) (ey : s.ienv "y" = y)
    (ez : s.ienv "z" = y) : exec fuel delCopy s = s := by
  have hne : ¬ ((y : Int) = -1) := by omega
  simp [delCopy, exec, BE.ok, BE.eval, IE.ok_var, IE.eval_var, IE.ok_lit, IE.eval_lit, cmpInt, ey, ez, hne]

/-! ### `x_parent_right` -/

/-- the right child of `x`'s parent after the splice: its pointer is NIL or a row, its row is no frame row, and its
    stored maximum is the model's `xprOf` -/
theorem xr_facts (V : List F) (N : List Int) (n : Nat) (xsh : Sh) (hd : Fr) (tl : Ctx) (par : Int)
    (hlx : Linked N n par xsh) (hc : CtxLinked N n xsh.ptr (hd :: tl)) (hnd : (xsh.idxs ++ ctxIdxs (hd :: tl)).Nodup)
    (hlt : ∀ i ∈ ctxIdxs (hd :: tl), i + 1 < n) (hn : 0 < n) :
    PtrOK n (nAt N hd.idx 2) ∧ rowOf n (nAt N hd.idx 2) ∉ (hd :: tl).map Fr.idx ∧
      xprOf (vAt V (n - 1) 7) (absT V N xsh) (absCtx V N (hd :: tl)) = mxAt V n (nAt N hd.idx 2) := by
  rw [ctxIdxs_cons] at hnd hlt
  have hnd1 := List.nodup_append.mp hnd
  have hnd2 := List.nodup_cons.mp hnd1.2.1
  have hnd3 := List.nodup_append.mp hnd2.2
  have hframes : ∀ j ∈ tl.map Fr.idx, j ∈ ctxIdxs tl := fun j hj => (frameRows_sublist tl).subset hj
  -- a row of `x`'s subtree or of the head's sibling, or the NIL row, is no frame row
  have key : ∀ (sub : Sh) (pp : Int), Linked N n pp sub → (∀ j ∈ sub.idxs, j ≠ hd.idx ∧ j ∉ ctxIdxs tl) →
      rowOf n sub.ptr ∉ (hd :: tl).map Fr.idx := by
    intro sub pp hl hsub h
    simp only [List.map_cons, List.mem_cons] at h
    rcases rowOf_ptr_cases hl with e | e
    · rcases h with h | h
      · have := hlt hd.idx (by simp); omega
      · have := hlt (rowOf n sub.ptr) (by simp [hframes _ h]); omega
    · rcases h with h | h
      · exact (hsub _ e).1 h
      · exact (hsub _ e).2 (hframes _ h)
  cases hd with
  | L p sib =>
    obtain ⟨_, h1, h2, _, _, hls, _⟩ := hc
    simp only [Fr.idx, h2]
    refine ⟨hls.ptrOK hn, key sib _ hls (fun j hj => ⟨fun e => hnd2.1 (by simp [Fr.sib, ← e, hj]),
      fun h => hnd3.2.2 j (by simp [Fr.sib, hj]) j h rfl⟩), ?_⟩
    simp only [absCtx, List.map_cons, absFr, xprOf, mxAt_absT V N n sib]
  | R sib p =>
    obtain ⟨_, h1, h2, _, _, hls, _⟩ := hc
    simp only [Fr.idx, h2]
    refine ⟨hlx.ptrOK hn, key xsh _ hlx (fun j hj => ⟨fun e => hnd1.2.2 j hj j (by simp [Fr.idx, e]) rfl,
      fun h => hnd1.2.2 j hj j (by simp [h]) rfl⟩), ?_⟩
    simp only [absCtx, List.map_cons, absFr, xprOf, mxAt_absT V N n xsh]

/-- the recomputation C of the frame of `z` with the successor's content -/
theorem recompF_setNd (V : List F) (N : List Int) (n : Nat) (c : Int) (fr : Fr) (rest : Ctx) (yn : Node (Fv F)) (cm : Fv F)
    (hc : CtxLinked N n c (fr :: rest)) (hcm : mxAt V n c = cm) :
    ((absFr V N fr).setNd yn).recompF (vAt V (n - 1) 7) cm =
      mx2 (mx2 (mxAt V n (nAt N fr.idx 1)) (mxAt V n (nAt N fr.idx 2))) (minv yn) := by
  cases fr with
  | L p sib =>
    obtain ⟨_, h1, h2, _⟩ := hc
    simp only [absFr, TFr.setNd, TFr.recompF, TFr.kids, TFr.nd, Fr.idx, h1, h2, mxAt_absT V N n sib, hcm]
  | R sib p =>
    obtain ⟨_, h1, h2, _⟩ := hc
    simp only [absFr, TFr.setNd, TFr.recompF, TFr.kids, TFr.nd, Fr.idx, h1, h2, mxAt_absT V N n sib, hcm]

/-! ### the successor copy, C and L2 -/

/-- the state after `z_gradient = _find_value_min_value(tree_vals, z)` -/
def copySt (s : State F) (z : Nat) : State F :=
  { s with
    ienv := (setS s.ienv "_find_value_min_value11$node_id" (z : Int)),
    fenv := (setS (setS s.fenv "_find_value_min_value11$ret0" (minv (nodeAt (s.fa "tree_vals") z)).v) "z_gradient" (minv (nodeAt (s.fa "tree_vals") z)).v) }

theorem delCopyB_spec (fuel n : Nat) (s : State F) (hv : VS s n) (hrun : s.ctl = .run) (xsh : Sh) (y : Nat)
    (below : Ctx) (zf : Fr) (above : Ctx) (hyz : y ≠ zf.idx) (hyn : y + 1 < n)
    (hL : Linked (s.ia "tree_nodes") n (-1) (plug xsh (below ++ zf :: above)))
    (hN : (plug xsh (below ++ zf :: above)).idxs.Nodup) (hynot : y ∉ (plug xsh (below ++ zf :: above)).idxs)
    (ey : s.ienv "y" = y) (ez : s.ienv "z" = zf.idx) (ex : s.ienv "x" = xsh.ptr)
    (hxp : nAt (s.ia "tree_nodes") (rowOf n xsh.ptr) 3 = ctxPar (below ++ zf :: above))
    (hf : above.length < fuel) :
    let V := s.fa "tree_vals"
    let N := s.ia "tree_nodes"
    let S : Fv F := vAt V (n - 1) 7
    let cy := below ++ zf :: above
    let xT := absT V N xsh
    let r := exec fuel delCopy s
    r.ctl = .run ∧ VS r n ∧ r.ia = s.ia ∧ absT (r.fa "tree_vals") N xsh = xT ∧
      absCtx (r.fa "tree_vals") N cy =
        cl2T feq S (nodeAt V y) (xprOf S xT (absCtx V N cy)) below.length (mxOf S xT) (absCtx V N cy) ∧
      vAt (r.fa "tree_vals") (n - 1) 7 = S ∧ (∀ a, a ≠ "tree_vals" → r.fa a = s.fa a) := by
  intro V N S cy xT r
  generalize hzdef : zf.idx = z at hyz ez
  obtain ⟨hlx, hcx, hnx⟩ := unplug cy xsh hL hN
  have hnd := (nodup_plug_iff cy xsh).mp hN
  have hxOK : PtrOK n xsh.ptr := hlx.ptrOK hv.pos
  have hcz : CtxLinked N n (lastPtr xsh.ptr below) (zf :: above) := CtxLinked.append below _ _ hcx
  have hczOK : PtrOK n (lastPtr xsh.ptr below) := lastPtr_ok below _ _ hcx hxOK
  obtain ⟨hzn, hz3, hcab⟩ := hcz.step
  rw [hzdef] at hzn hz3 hcab
  obtain ⟨hk1, hk2⟩ := hcz.kidsOK hczOK hv.pos
  rw [hzdef] at hk1 hk2
  have hctxlt : ∀ i ∈ ctxIdxs cy, i + 1 < n := fun i hi =>
    Linked.idx_lt hL i ((mem_plug_iff cy xsh i).mpr (Or.inr hi))
  -- the head of the context (it is not empty)
  obtain ⟨hd, tl, hcy⟩ : ∃ hd tl, cy = hd :: tl := by
    cases hb : below with
    | nil => exact ⟨zf, above, by simp [cy, hb]⟩
    | cons a b => exact ⟨a, b ++ zf :: above, by simp [cy, hb]⟩
  obtain ⟨hXR1, hXR2, hXR3⟩ := xr_facts V N n xsh hd tl _ hlx (by rw [← hcy]; exact hcx) (by rw [← hcy]; exact hnd)
    (by rw [← hcy]; exact hctxlt) hv.pos
  have hhd : hd.idx + 1 < n := hctxlt _ (by rw [hcy, ctxIdxs_cons]; simp)
  have hxp' : nAt N (rowOf n xsh.ptr) 3 = (hd.idx : Int) := by
    rw [hxp]; show ctxPar cy = _; rw [hcy, ctxPar_cons]
  -- rows
  have hidx : ctxIdxs cy = ctxIdxs below ++ (z :: (zf.sib.idxs ++ ctxIdxs above)) := by
    simp only [cy, ctxIdxs_append, ctxIdxs_cons, hzdef]
  rw [hidx] at hnd
  have hnd1 := List.nodup_append.mp hnd
  have hnd2 := List.nodup_append.mp hnd1.2.1
  have hnd3 := List.nodup_cons.mp hnd2.2.1
  have hnd4 := List.nodup_append.mp hnd3.2
  have habove : ∀ j ∈ above.map Fr.idx, j ∈ ctxIdxs above := fun j hj => (frameRows_sublist above).subset hj
  have hz_above : z ∉ above.map Fr.idx := fun h => hnd3.1 (by simp [habove _ h])
  have hx_rows : ∀ i ∈ xsh.idxs, i ≠ z ∧ i ∉ above.map Fr.idx := fun i hi =>
    ⟨fun e => hnd1.2.2 i hi z (by simp) e, fun h => hnd1.2.2 i hi i (by simp [habove _ h]) rfl⟩
  have hb_rows : ∀ i ∈ ctxIdxs below, i ≠ z ∧ i ∉ above.map Fr.idx := fun i hi =>
    ⟨fun e => hnd2.2.2 i hi z (by simp) e, fun h => hnd2.2.2 i hi i (by simp [habove _ h]) rfl⟩
  have hs_rows : ∀ i ∈ zf.sib.idxs, i ≠ z ∧ i ∉ above.map Fr.idx := fun i hi =>
    ⟨fun e => hnd3.1 (by simp [← e, hi]), fun h => hnd4.2.2 i hi i (habove _ h) rfl⟩
  have ha_rows : ∀ i ∈ ctxIdxs above, i ≠ z := fun i hi e => hnd3.1 (by simp [← e, hi])
  have hy_rows : y ∉ above.map Fr.idx := fun h => hynot ((mem_plug_iff cy xsh y).mpr (Or.inr (by
    rw [hidx]; simp [habove _ h])))
  have hlenz : z * 8 + 7 < V.length := by simp only [V]; rw [hv.lenV]; omega
  have hXRz : rowOf n (nAt N hd.idx 2) ≠ z := fun e => hXR2 (by
    rw [e]
    have : z ∈ cy.map Fr.idx := by simp [cy, hzdef]
    rw [hcy] at this; exact this)
  have hXRab : rowOf n (nAt N hd.idx 2) ∉ above.map Fr.idx := fun h => hXR2 (by
    have : rowOf n (nAt N hd.idx 2) ∈ cy.map Fr.idx := by simp only [cy, List.map_append, List.map_cons, List.mem_append, List.mem_cons]; exact Or.inr (Or.inr h)
    rw [hcy] at this; exact this)
  -- the copy
  have hne : ¬ ((y : Int) = -1) := by omega
  have hne2 : ¬ ((y : Int) = (z : Int)) := by omega
  have hinz : inRange (z : Int) n = true := inRange_ptr n _ (by omega) hv.pos
  have mS := fun (a b : String) (s' : State F) => minvScope_spec a b fuel n s'
  have h0 : exec fuel (seqL [(.setI "_find_value_min_value11$node_id" (.var "z")),
      (minvScope "_find_value_min_value11$node_id" "_find_value_min_value11$ret0"),
      (.setF "z_gradient" (.var "_find_value_min_value11$ret0"))]) s =
      copySt s z := by
    simp [seqL, exec, mS, hv.shpV, ez, hinz, IE.ok_var, IE.eval_var, FE.ok_var, FE.eval_var, setS, hrun, V, copySt]
  have hcs : copySt s z = copySt s z := rfl
  generalize hs1 : copySt s z = s1 at h0
  simp only [copySt] at hs1
  have hv1 : VS s1 n := by rw [← hs1]; exact hv.of_eq rfl rfl rfl
  have hrun1 : s1.ctl = .run := by rw [← hs1]; exact hrun
  have hfa1 : s1.fa = s.fa := by rw [← hs1]
  have hia1 : s1.ia = s.ia := by rw [← hs1]
  have hcopy := delCopyCols_spec fuel n s1 hv1 hrun1 y z hyn hzn (by omega) (by rw [← hs1]; simp [setS, ey])
    (by rw [← hs1]; simp [setS, ez])
  rw [hfa1] at hcopy
  generalize hs2 : ({ s1 with fa := setS s.fa "tree_vals" (copyArr (s.fa "tree_vals") y z) } : State F) = s2 at hcopy
  have hV2 : s2.fa "tree_vals" = copyArr V y z := by rw [← hs2]; simp [setS, V]
  have hrun2 : s2.ctl = .run := by rw [← hs2]; exact hrun1
  have hia2 : s2.ia = s.ia := by rw [← hs2]; exact hia1
  have h3 : exec fuel (.setI "to_fix" (.var "z")) s2 = { s2 with ienv := setS s2.ienv "to_fix" (z : Int) } := by
    rw [exec_setI _ _ _ _ (IE.ok_var _ _), IE.eval_var, ← hs2, ← hs1]; simp [setS, ez]
  generalize hs3 : ({ s2 with ienv := setS s2.ienv "to_fix" (z : Int) } : State F) = s3 at h3
  have hV3 : s3.fa "tree_vals" = copyArr V y z := by rw [← hs3]; exact hV2
  have hrun3 : s3.ctl = .run := by rw [← hs3]; exact hrun2
  have hia3 : s3.ia = s.ia := by rw [← hs3]; exact hia2
  have hv3 : VS s3 n := ⟨by rw [← hs3, ← hs2]; exact hv1.shpV, by rw [← hs3, ← hs2]; exact hv1.shpN,
    by rw [hV3, copyArr_length]; exact hv.lenV, by rw [hia3]; exact hv.lenN, hv.pos⟩
  obtain ⟨c1, c2, c3, c4, c5⟩ := recompFix12_spec fuel n s3 hv3 hrun3 z hzn (by rw [hia3]; exact hk1) (by rw [hia3]; exact hk2)
    (by rw [← hs3]; simp [setS])
  rw [hia3, hV3] at c4
  generalize hs4 : exec fuel (seqL (recompFixItems "12")) s3 = s4 at c1 c2 c3 c4 c5
  have hfr4 := exec_frame fuel (seqL (recompFixItems "12")) s3
  rw [hs4] at hfr4
  have hia4 : s4.ia = s.ia := by rw [c2]; exact hia3
  have hlen4 : (s4.fa "tree_vals").length = n * 8 := by rw [c4]; simp [copyArr_length, V, hv.lenV]
  have hv4 : VS s4 n := ⟨by rw [c3]; exact hv3.shpV, by rw [c3]; exact hv3.shpN, hlen4, by rw [hia4]; exact hv.lenN, hv.pos⟩
  have ez4 : s4.ienv "z" = z := by
    rw [hfr4.ienv _ (by decide), ← hs3, ← hs2, ← hs1]; simp [setS, ez]
  have ex4 : s4.ienv "x" = xsh.ptr := by
    rw [hfr4.ienv _ (by decide), ← hs3, ← hs2, ← hs1]; simp [setS, ex]
  have ezg4 : s4.fenv "z_gradient" = (minv (nodeAt V z)).v := by
    rw [hfr4.fenv _ (by decide), ← hs3, ← hs2, ← hs1]; simp [setS, V]
  -- loop L2
  obtain ⟨d1, d2, d3, d4, d5⟩ := delL2_spec n xsh.ptr (nAt N hd.idx 2) hxOK hXR1 above z fuel s4 hv4 c1
    (by rw [hia4]; exact hcab) (by rw [hia4]; exact hz3) hzn ez4 ex4
    (by rw [hia4, hxp']; simp only [PtrOK]; omega) (by rw [hia4, hxp', rowOf_nat]) hXRab hf
  rw [hia4, ezg4] at d4
  generalize hs5 : exec fuel delL2 s4 = s5 at d1 d2 d3 d4 d5
  have hr : r = s5 := by
    simp only [r, delCopy]
    rw [exec_ite_true _ _ _ _ _ (by simp [BE.ok, IE.ok_var, IE.ok_lit])
      (by simp [BE.eval, IE.eval_var, IE.eval_lit, cmpInt, ey, ez, hne, hne2])]
    rw [exec_seqK, exec_seq_run _ _ _ _ (by rw [h0]; exact hrun1), h0]
    simp only [delCopyColsItems]
    rw [exec_seqK, ← delCopyColsItems, exec_seq_run _ _ _ _ (by rw [hcopy]; exact hrun2), hcopy,
      exec_seq_run _ _ _ _ (by rw [h3]; exact hrun3), h3]
    simp only [recompFixItems]
    rw [exec_seqK, ← recompFixItems, exec_seq_run _ _ _ _ (by rw [hs4]; exact c1), hs4, hs5]
  -- the values after C
  obtain ⟨m, hm⟩ : ∃ m : Fv F, m = fixMax (copyArr V y z) n z (nAt N z 1) (nAt N z 2) := ⟨_, rfl⟩
  obtain ⟨V4, hV4⟩ : ∃ V4 : List F, V4 = (copyArr V y z).set (z * 8 + 7) m.v := ⟨_, rfl⟩
  rw [← hm, ← hV4] at c4
  have hlen3 : z * 8 + 7 < (copyArr V y z).length := by rw [copyArr_length]; exact hlenz
  have hget4 : ∀ i k, k < 8 → vAt V4 i k = if i = z then (if k < 7 then vAt V y k else m) else vAt V i k := by
    intro i k hk
    rw [hV4, vAt_set _ _ _ _ _ _ (by decide) hk hlen3, copyArr_get V y z hlenz i k hk]
    by_cases hi : i = z
    · by_cases hk7 : k = 7
      · subst hk7; simp [hi]
      · have : k < 7 := by omega
        simp [hi, hk7, this]
    · simp [hi]
  have hS4 : vAt V4 (n - 1) 7 = S := by
    rw [hget4 _ _ (by decide)]
    have : ¬ (n - 1 = z) := by omega
    simp [this, S]
  have hXR4 : mxAt V4 n (nAt N hd.idx 2) = mxAt V n (nAt N hd.idx 2) := by
    simp only [mxAt]; rw [hget4 _ _ (by decide)]; simp [hXRz]
  have hlen4' : ∀ fr ∈ above, fr.idx * 8 + 7 < V4.length := fun fr hfr => by
    have := hctxlt fr.idx (by rw [hidx]; simp [habove _ (List.mem_map_of_mem hfr)])
    rw [hV4]; simp [copyArr_length, V, hv.lenV]; omega
  have hget5 : ∀ i k, k < 8 → (i ∉ above.map Fr.idx ∨ k ≠ 7) → vAt (s5.fa "tree_vals") i k = vAt V4 i k := by
    intro i k hk h
    rw [d4, c4]
    exact scanArr_other _ n N above V4 (z : Int) hlen4' i k hk h
  have hfinal : ∀ i k, k < 8 → i ≠ z → i ∉ above.map Fr.idx → vAt (s5.fa "tree_vals") i k = vAt V i k := by
    intro i k hk h1 h2
    rw [hget5 i k hk (Or.inl h2), hget4 i k hk]; simp [h1]
  -- the value C stores is the model's
  have hmval : m = ((absFr V N zf).setNd (nodeAt V y)).recompF S (lastMx (mxOf S xT) (absCtx V N below)) := by
    rw [recompF_setNd V N n (lastPtr xsh.ptr below) zf above (nodeAt V y) _ hcz
      (by rw [mxAt_lastPtr V N n below xsh.ptr, mxAt_absT V N n xsh])]
    simp only [hm, fixMax, hzdef, mxAt]
    have hnd : nodeAt (copyArr V y z) z = nodeAt V y := by
      simp only [nodeAt, copyArr_get V y z hlenz z _ (by decide : 0 < 8), copyArr_get V y z hlenz z _ (by decide : 1 < 8),
        copyArr_get V y z hlenz z _ (by decide : 2 < 8), copyArr_get V y z hlenz z _ (by decide : 3 < 8),
        copyArr_get V y z hlenz z _ (by decide : 4 < 8), copyArr_get V y z hlenz z _ (by decide : 5 < 8),
        copyArr_get V y z hlenz z _ (by decide : 6 < 8)]
      simp
    rw [hnd, copyArr_get V y z hlenz _ 7 (by decide), copyArr_get V y z hlenz _ 7 (by decide)]
    simp
  -- assemble
  rw [hr]
  refine ⟨d1, ⟨by rw [d3]; exact hv4.shpV, by rw [d3]; exact hv4.shpN, by rw [d4, scanArr_length]; exact hlen4,
    by rw [d2, hia4]; exact hv.lenN, hv.pos⟩, d2.trans hia4, ?_, ?_, ?_, ?_⟩
  · exact absT_congr xsh (fun i hi => ⟨fun k hk => hfinal i k hk (hx_rows i hi).1 (hx_rows i hi).2, rfl⟩)
  · -- the context
    have hB : absCtx (s5.fa "tree_vals") N below = absCtx V N below :=
      absCtx_congr below (fun i hi => ⟨fun k hk => hfinal i k hk (hb_rows i hi).1 (hb_rows i hi).2, rfl⟩)
    have hA4 : absCtx V4 N above = absCtx V N above :=
      absCtx_congr above (fun i hi => ⟨fun k hk => by rw [hget4 i k hk]; simp [ha_rows i hi], rfl⟩)
    have hA : absCtx (s5.fa "tree_vals") N above =
        scanT (l2Step feq S (minv (nodeAt V z)) (mxAt V n (nAt N hd.idx 2))) m (absCtx V N above) := by
      rw [d4, c4, absCtx_scanArr _ n N above V4 (z : Int) hnd4.2.1
        (fun i hi => by
          have := hctxlt i (by rw [hidx]; simp [hi])
          rw [hV4]; simp [copyArr_length, V, hv.lenV]; omega), hS4, hXR4, hA4]
      congr 1
      simp only [mxAt, rowOf_nat]
      rw [hget4 _ _ (by decide)]; simp
    have hZ : absFr (s5.fa "tree_vals") N zf = ((absFr V N zf).setNd (nodeAt V y)).setMx m := by
      have hnz : nodeAt (s5.fa "tree_vals") z = nodeAt V y := by
        simp only [nodeAt, hget5 z _ (by decide : 0 < 8) (Or.inr (by decide)), hget5 z _ (by decide : 1 < 8) (Or.inr (by decide)),
          hget5 z _ (by decide : 2 < 8) (Or.inr (by decide)), hget5 z _ (by decide : 3 < 8) (Or.inr (by decide)),
          hget5 z _ (by decide : 4 < 8) (Or.inr (by decide)), hget5 z _ (by decide : 5 < 8) (Or.inr (by decide)),
          hget5 z _ (by decide : 6 < 8) (Or.inr (by decide)), hget4 z _ (by decide : 0 < 8), hget4 z _ (by decide : 1 < 8),
          hget4 z _ (by decide : 2 < 8), hget4 z _ (by decide : 3 < 8), hget4 z _ (by decide : 4 < 8),
          hget4 z _ (by decide : 5 < 8), hget4 z _ (by decide : 6 < 8)]
        simp
      have hmz : vAt (s5.fa "tree_vals") z 7 = m := by
        rw [hget5 z 7 (by decide) (Or.inl hz_above), hget4 z 7 (by decide)]; simp
      have hsib : absT (s5.fa "tree_vals") N zf.sib = absT V N zf.sib :=
        absT_congr zf.sib (fun i hi => ⟨fun k hk => hfinal i k hk (hs_rows i hi).1 (hs_rows i hi).2, rfl⟩)
      cases zf with
      | L p sib =>
        simp only [Fr.idx] at hzdef; subst hzdef
        simp only [absFr, TFr.setNd, TFr.setMx, hnz, hmz]
        rw [show absT (s5.fa "tree_vals") N sib = absT V N sib from hsib]
      | R sib p =>
        simp only [Fr.idx] at hzdef; subst hzdef
        simp only [absFr, TFr.setNd, TFr.setMx, hnz, hmz]
        rw [show absT (s5.fa "tree_vals") N sib = absT V N sib from hsib]
    have hlenb : (absCtx V N below).length = below.length := absCtx_length V N below
    show absCtx (s5.fa "tree_vals") N (below ++ zf :: above) = _
    rw [absCtx_append, show absCtx (s5.fa "tree_vals") N (zf :: above) =
      absFr (s5.fa "tree_vals") N zf :: absCtx (s5.fa "tree_vals") N above from rfl, hB, hZ, hA]
    show _ = cl2T feq S (nodeAt V y) (xprOf S xT (absCtx V N (below ++ zf :: above))) below.length (mxOf S xT)
      (absCtx V N (below ++ zf :: above))
    rw [absCtx_append V N below (zf :: above), show absCtx V N (zf :: above) = absFr V N zf :: absCtx V N above from rfl,
      ← hlenb, cl2T_append, ← hmval, absFr_nd, hzdef]
    have hx : xprOf S xT (absCtx V N below ++ absFr V N zf :: absCtx V N above) = mxAt V n (nAt N hd.idx 2) := by
      rw [← hXR3, ← hcy]
      show _ = xprOf S xT (absCtx V N (below ++ zf :: above))
      rw [absCtx_append]; rfl
    rw [hx]
  · rw [hget5 _ _ (by decide) (Or.inl (fun h => by
      have := hctxlt (n - 1) (by rw [hidx]; simp [habove _ h]); omega)), hS4]
  · intro a ha
    rw [d5 a ha, c5 a ha, ← hs3, ← hs2, ← hs1]; simp [setS, ha]

end XrsVerif.ILVs
