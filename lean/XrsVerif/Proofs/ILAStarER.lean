import XrsVerif.Proofs.ILAStarSnap
import Mathlib.Analysis.Real.Sqrt
/-
  Proofs/ILAStarER.lean -- a number type satisfying `SqrtLt` (non-vacuity of the hypothesis under which the
  generated `_find_nearest_pixel` is the hand model `findNearest`): the reals extended by `+inf`, `-inf`, NaN, with
  the real square root, `1/0 = +inf`, and comparisons as in IEEE arithmetic.
-/
namespace XrsVerif.IL
open XrsVerif

/-- extended reals: NaN, ±∞ or a real number -/
inductive ER where
  | nan | pinf | ninf
  | fin (r : ℝ)

open Classical in
noncomputable instance instFlER : Fl ER where
  lit n d := .fin ((n : ℝ) / (d : ℝ))
  nan := .nan
  add a b := match a, b with | .fin x, .fin y => .fin (x + y) | _, _ => .nan
  sub a b := match a, b with | .fin x, .fin y => .fin (x - y) | _, _ => .nan
  mul a b := match a, b with | .fin x, .fin y => .fin (x * y) | _, _ => .nan
  div a b := match a, b with
    | .fin x, .fin y => if y = 0 then (if 0 < x then .pinf else if x < 0 then .ninf else .nan) else .fin (x / y)
    | _, _ => .nan
  neg a := match a with | .fin x => .fin (-x) | .pinf => .ninf | .ninf => .pinf | .nan => .nan
  abs a := match a with | .fin x => .fin |x| | .nan => .nan | _ => .pinf
  lt a b := match a, b with
    | .fin x, .fin y => decide (x < y)
    | .fin _, .pinf => true | .ninf, .fin _ => true | .ninf, .pinf => true
    | _, _ => false
  le a b := match a, b with
    | .fin x, .fin y => decide (x ≤ y)
    | .fin _, .pinf => true | .ninf, .fin _ => true | .ninf, .pinf => true | .pinf, .pinf => true | .ninf, .ninf => true
    | _, _ => false
  eq a b := match a, b with
    | .fin x, .fin y => decide (x = y) | .pinf, .pinf => true | .ninf, .ninf => true
    | _, _ => false
  isnan a := match a with | .nan => true | _ => false
  isfinite a := match a with | .fin _ => true | _ => false
  sqrt a := match a with | .fin x => .fin (Real.sqrt x) | .pinf => .pinf | _ => .nan
  atan _ := .nan
  atan2 _ _ := .nan
  exp _ := .nan
  sin _ := .nan
  cos _ := .nan
  asin _ := .nan

/-- over the extended reals `sqrt` of non-negative integers is strictly monotone and below `1/0 = +inf` -/
theorem sqrtLt_ER : SqrtLt ER := by
  constructor
  · intro a ha
    simp [flInf, Fl.lt, Fl.sqrt, Fl.lit, Fl.div]
  · intro a b ha hb
    simp only [Fl.lt, Fl.sqrt, Fl.lit]
    have ha' : (0 : ℝ) ≤ (a : ℝ) / ((1 : ℕ) : ℝ) := by
      have : (0 : ℝ) ≤ (a : ℝ) := by exact_mod_cast ha
      simpa using this
    rw [decide_eq_decide, Real.sqrt_lt_sqrt_iff ha']
    simp

end XrsVerif.IL
