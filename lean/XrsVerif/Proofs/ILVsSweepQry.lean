import XrsVerif.Proofs.ILVsSweepCenter
import XrsVerif.Proofs.ILangVsclose
/-
  Proofs/ILVsSweepQry.lean -- **the contract of the inlined `_max_grad_in_status_struct` discharged** (`qryContract`):
  the copy inside the generated sweep (`qryLoop`, cut out of `Gen.IL.vsSweep`) is the stand-alone program's body
  `Gen.IL.vsQuery.body` with its scalars renamed by the table `qryTbl` (prefix `_max_grad_in_status_struct101$`, inline
  counters shifted by 101) and its array parameters replaced by the sweep's arrays (`arrTbl`) -- `qryLoop_is_renaming`,
  checked by evaluation against the regenerated program -- so `exec_ren` / `exec_renA` carry `vsQuery_refines` over, and
  `exec_frame` gives the frame (the copy stores to no array and assigns only scalars with its own prefix).
-/
namespace XrsVerif.ILSw
open XrsVerif XrsVerif.IL XrsVerif.ILVs XrsVerif.Viewshed
variable {F : Type} [Fl F]
set_option linter.unusedSectionVars false
set_option linter.unusedSimpArgs false
set_option linter.unusedVariables false

/-- scalar names of the stand-alone `_max_grad_in_status_struct` and of its copy in the sweep -/
def qryTbl : List (String × String) := [
  ("root", "_max_grad_in_status_struct101$root"),
  ("ret0", "_max_grad_in_status_struct101$ret0"),
  ("_find_max_value_within_key1$root", "_max_grad_in_status_struct101$_find_max_value_within_key102$root"),
  ("_find_max_value_within_key1$max_key", "_max_grad_in_status_struct101$_find_max_value_within_key102$max_key"),
  ("distance", "_max_grad_in_status_struct101$distance"),
  ("_find_max_value_within_key1$ang", "_max_grad_in_status_struct101$_find_max_value_within_key102$ang"),
  ("angle", "_max_grad_in_status_struct101$angle"),
  ("_find_max_value_within_key1$gradient", "_max_grad_in_status_struct101$_find_max_value_within_key102$gradient"),
  ("gradient", "_max_grad_in_status_struct101$gradient"),
  ("_find_max_value_within_key1$_search_for_node2$root", "_max_grad_in_status_struct101$_find_max_value_within_key102$_search_for_node103$root"),
  ("_find_max_value_within_key1$_search_for_node2$key", "_max_grad_in_status_struct101$_find_max_value_within_key102$_search_for_node103$key"),
  ("_find_max_value_within_key1$_search_for_node2$cur_node", "_max_grad_in_status_struct101$_find_max_value_within_key102$_search_for_node103$cur_node"),
  ("_find_max_value_within_key1$_search_for_node2$_compare3$a", "_max_grad_in_status_struct101$_find_max_value_within_key102$_search_for_node103$_compare104$a"),
  ("_find_max_value_within_key1$_search_for_node2$_compare3$b", "_max_grad_in_status_struct101$_find_max_value_within_key102$_search_for_node103$_compare104$b"),
  ("_find_max_value_within_key1$_search_for_node2$_compare3$ret0", "_max_grad_in_status_struct101$_find_max_value_within_key102$_search_for_node103$_compare104$ret0"),
  ("_find_max_value_within_key1$_search_for_node2$_compare4$a", "_max_grad_in_status_struct101$_find_max_value_within_key102$_search_for_node103$_compare105$a"),
  ("_find_max_value_within_key1$_search_for_node2$_compare4$b", "_max_grad_in_status_struct101$_find_max_value_within_key102$_search_for_node103$_compare105$b"),
  ("_find_max_value_within_key1$_search_for_node2$_compare4$ret0", "_max_grad_in_status_struct101$_find_max_value_within_key102$_search_for_node103$_compare105$ret0"),
  ("_find_max_value_within_key1$_search_for_node2$ret0", "_max_grad_in_status_struct101$_find_max_value_within_key102$_search_for_node103$ret0"),
  ("_find_max_value_within_key1$key_node", "_max_grad_in_status_struct101$_find_max_value_within_key102$key_node"),
  ("_find_max_value_within_key1$ret0", "_max_grad_in_status_struct101$_find_max_value_within_key102$ret0"),
  ("_find_max_value_within_key1$cur_node", "_max_grad_in_status_struct101$_find_max_value_within_key102$cur_node"),
  ("_find_max_value_within_key1$max", "_max_grad_in_status_struct101$_find_max_value_within_key102$max"),
  ("_find_max_value_within_key1$cur_parent", "_max_grad_in_status_struct101$_find_max_value_within_key102$cur_parent"),
  ("_find_max_value_within_key1$cur_parent_left", "_max_grad_in_status_struct101$_find_max_value_within_key102$cur_parent_left"),
  ("_find_max_value_within_key1$_find_max_value5$row$tree_vals", "_max_grad_in_status_struct101$_find_max_value_within_key102$_find_max_value106$row$tree_vals"),
  ("_find_max_value_within_key1$_find_max_value5$ret0", "_max_grad_in_status_struct101$_find_max_value_within_key102$_find_max_value106$ret0"),
  ("_find_max_value_within_key1$tmp_max", "_max_grad_in_status_struct101$_find_max_value_within_key102$tmp_max"),
  ("_find_max_value_within_key1$_find_value_min_value6$node_id", "_max_grad_in_status_struct101$_find_max_value_within_key102$_find_value_min_value107$node_id"),
  ("_find_max_value_within_key1$_find_value_min_value6$ret0", "_max_grad_in_status_struct101$_find_max_value_within_key102$_find_value_min_value107$ret0"),
  ("_find_max_value_within_key1$min_value", "_max_grad_in_status_struct101$_find_max_value_within_key102$min_value"),
  ("_find_max_value_within_key1$check_me", "_max_grad_in_status_struct101$_find_max_value_within_key102$check_me"),
  ("_find_max_value_within_key1$cur_grad", "_max_grad_in_status_struct101$_find_max_value_within_key102$cur_grad"),
  ("_find_max_value_within_key1$last_node", "_max_grad_in_status_struct101$_find_max_value_within_key102$last_node")]

/-- the array parameters of the status-tree routines and the sweep's arrays passed for them -/
def arrTbl : List (String × String) :=
  [("tree_vals", "status_values"), ("tree_nodes", "status_struct"), ("value", "status_node")]

/-- a quick duplicate test -/
def nodupB : List String → Bool
  | [] => true
  | x :: r => r.all (fun y => !(y == x)) && nodupB r

theorem nodup_of_nodupB : ∀ l : List String, nodupB l = true → l.Nodup
  | [], _ => List.nodup_nil
  | x :: r, h => by
    simp only [nodupB, Bool.and_eq_true, List.all_eq_true, Bool.not_eq_true', beq_eq_false_iff_ne, ne_eq] at h
    exact List.nodup_cons.mpr ⟨fun hm => h.1 x hm rfl, nodup_of_nodupB r h.2⟩

theorem arrTbl_ok : TblOK arrTbl := nodup_of_nodupB _ (by decide +kernel)

set_option maxRecDepth 100000 in
theorem qryTbl_ok : TblOK qryTbl := nodup_of_nodupB _ (by decide +kernel)

set_option maxRecDepth 100000 in
/-- **the inlined query is the stand-alone program renamed** (breaks when `_max_grad_in_status_struct`, one of its callees
    or the call in `_viewshed_cpu_sweep` is edited) -/
theorem qryLoop_is_renaming : renAS (swapT arrTbl) (renS (swapT qryTbl) Gen.IL.vsQuery.body) = qryLoop := by decide +kernel

set_option maxRecDepth 100000 in
theorem qryLoop_writes : wIA qryLoop = [] ∧ wFA qryLoop = [] ∧ wSh qryLoop = [] ∧
    (wI qryLoop).all (fun v => qP.isPrefixOf v) = true ∧ (wF qryLoop).all (fun v => qP.isPrefixOf v) = true := by
  decide +kernel

theorem qry_names : swapT arrTbl "tree_vals" = "status_values" ∧ swapT arrTbl "tree_nodes" = "status_struct" ∧
    swapT qryTbl "root" = qP ++ "root" ∧ swapT qryTbl "distance" = qP ++ "distance" ∧ swapT qryTbl "angle" = qP ++ "angle" ∧
    swapT qryTbl "gradient" = qP ++ "gradient" ∧ swapT qryTbl "ret0" = qP ++ "ret0" := by decide +kernel

/-- **the contract of the inlined query holds** -/
theorem qryContract : QryContract F qryLoop qP := by
  intro s fuel n sh hrun hv hL hN hroot hS hnf hfuel
  obtain ⟨n1, n2, n3, n4, n5, n6, n7⟩ := qry_names
  obtain ⟨w1, w2, w3, w4, w5⟩ := qryLoop_writes
  have hA := exec_renA (F := F) (swapT arrTbl) (inj_swapT _ arrTbl_ok) fuel (renS (swapT qryTbl) Gen.IL.vsQuery.body) s
  have hB := exec_ren (F := F) (swapT qryTbl) (inj_swapT _ qryTbl_ok) fuel Gen.IL.vsQuery.body (pullA (swapT arrTbl) s)
  rw [qryLoop_is_renaming] at hA
  rw [← hA] at hB
  generalize hs0 : pull (swapT qryTbl) (pullA (swapT arrTbl) s) = s0 at hB
  have e1 : s0.fa "tree_vals" = s.fa "status_values" := by rw [← hs0]; simp only [pull_fa, pullA_fa, n1]
  have e2 : s0.ia "tree_nodes" = s.ia "status_struct" := by rw [← hs0]; simp only [pull_ia, pullA_ia, n2]
  have e3 : s0.shp "tree_vals" = s.shp "status_values" := by rw [← hs0]; simp only [pull_shp, pullA_shp, n1]
  have e4 : s0.shp "tree_nodes" = s.shp "status_struct" := by rw [← hs0]; simp only [pull_shp, pullA_shp, n2]
  have e5 : s0.ienv "root" = s.ienv (qP ++ "root") := by rw [← hs0]; simp only [pull_ienv, pullA_ienv, n3]
  have e6 : s0.fenv "distance" = s.fenv (qP ++ "distance") := by rw [← hs0]; simp only [pull_fenv, pullA_fenv, n4]
  have e7 : s0.fenv "angle" = s.fenv (qP ++ "angle") := by rw [← hs0]; simp only [pull_fenv, pullA_fenv, n5]
  have e8 : s0.fenv "gradient" = s.fenv (qP ++ "gradient") := by rw [← hs0]; simp only [pull_fenv, pullA_fenv, n6]
  have hv0 : VS s0 n := ⟨by rw [e3]; exact hv.shpV, by rw [e4]; exact hv.shpN, by rw [e1]; exact hv.lenV,
    by rw [e2]; exact hv.lenN, hv.pos⟩
  have href := vsQuery_refines s0 fuel n hv0 (by rw [← hs0]; exact hrun) sh (by rw [e2]; exact hL) hN (by rw [e5]; exact hroot)
    (by rw [e1]; exact hS) (by rw [e1, e2, e6]; exact hnf) hfuel
  simp only [Prog.run] at href
  rw [← hB] at href
  obtain ⟨r1, r2, _, _⟩ := href
  rw [e1, e2, e6, e7, e8] at r2
  have hfr := exec_frame fuel qryLoop s
  generalize hs' : exec fuel qryLoop s = s' at hfr r1 r2
  have c1 : s'.ctl = .ret := r1
  have c2 := r2
  simp only [pull_fenv, pullA_fenv, n7] at c2
  have a1 : s'.ia = s.ia := by funext a; exact hfr.ia a (by rw [w1]; simp)
  have a2 : s'.fa = s.fa := by funext a; exact hfr.fa a (by rw [w2]; simp)
  have a3 : s'.shp = s.shp := by funext a; exact hfr.shp a (by rw [w3]; simp)
  refine ⟨s'.ienv, s'.fenv, s'.benv, ?_, c2, ?_, ?_⟩
  · rw [exec_scope, hs', if_pos c1]
    obtain ⟨ie, fe, be, ia, fa, shp, ext, ctl⟩ := s'
    obtain ⟨ie0, fe0, be0, ia0, fa0, shp0, ext0, ctl0⟩ := s
    simp only at a1 a2 a3 hrun
    have := hfr.ext
    simp only at this
    subst a1 a2 a3 hrun this
    rfl
  · intro v hp
    refine hfr.ienv v (fun hm => ?_)
    have := List.all_eq_true.mp w4 v hm
    rw [hp] at this; exact absurd this (by simp)
  · intro v hp
    refine hfr.fenv v (fun hm => ?_)
    have := List.all_eq_true.mp w5 v hm
    rw [hp] at this; exact absurd this (by simp)

end XrsVerif.ILSw
