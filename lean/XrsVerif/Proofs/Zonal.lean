import XrsVerif.Model.Zonal
import Mathlib.Order.Defs.LinearOrder
import Mathlib.Tactic.Order
import Mathlib.Tactic.Set
/-
  Proofs/Zonal.lean -- helper lemmas for C02 / C03 / C04:
  * `sortDedup` / `isort` meet the contracts of `np.unique` / `np.sort`;
  * sort-and-stride slicing (DESIGN.md Appendix A.3, generalised from `Int` keys to any linear order);
  * the position-faithful `sortAndStride true` (indices of non-finite zones dropped before the
    gather) cuts, for every sorting permutation, exactly the cells of each zone.
-/
set_option linter.unusedSectionVars false
set_option linter.unusedVariables false
namespace XrsVerif.Zonal

variable {κ ν ρ : Type} [LinearOrder κ]

/-! ### `np.unique`, `np.sort` -/

theorem mem_insertU (x y : κ) (l : List κ) : y ∈ insertU x l ↔ y = x ∨ y ∈ l := by
  induction l with
  | nil => simp [insertU]
  | cons z zs ih =>
    unfold insertU
    split
    · simp
    · split
      · rename_i h1 h2; subst h2; simp
      · simp [ih, or_left_comm]

theorem sorted_insertU (x : κ) (l : List κ) (h : l.Pairwise (· < ·)) : (insertU x l).Pairwise (· < ·) := by
  induction l with
  | nil => simp [insertU]
  | cons z zs ih =>
    rw [List.pairwise_cons] at h
    unfold insertU
    split
    · rename_i hlt
      refine List.pairwise_cons.mpr ⟨?_, List.pairwise_cons.mpr h⟩
      intro a ha
      rcases List.mem_cons.mp ha with rfl | ha
      · exact hlt
      · exact lt_trans hlt (h.1 a ha)
    · split
      · exact List.pairwise_cons.mpr h
      · rename_i h1 h2
        refine List.pairwise_cons.mpr ⟨?_, ih h.2⟩
        intro a ha
        rcases (mem_insertU x a zs).mp ha with rfl | ha
        · order
        · exact h.1 a ha

theorem mem_sortDedup (y : κ) (l : List κ) : y ∈ sortDedup l ↔ y ∈ l := by
  induction l with
  | nil => simp [sortDedup]
  | cons x xs ih =>
    have : sortDedup (x :: xs) = insertU x (sortDedup xs) := rfl
    rw [this, mem_insertU, ih]; simp

theorem sorted_sortDedup (l : List κ) : (sortDedup l).Pairwise (· < ·) := by
  induction l with
  | nil => simp [sortDedup]
  | cons x xs ih => exact sorted_insertU x _ ih

/-- two ascending duplicate-free lists with the same members are the same list -/
theorem sorted_ext : ∀ (l₁ l₂ : List κ), l₁.Pairwise (· < ·) → l₂.Pairwise (· < ·) →
    (∀ x, x ∈ l₁ ↔ x ∈ l₂) → l₁ = l₂
  | [], [], _, _, _ => rfl
  | [], b :: l₂, _, _, h => by have := (h b).mpr (by simp); simp at this
  | a :: l₁, [], _, _, h => by have := (h a).mp (by simp); simp at this
  | a :: l₁, b :: l₂, h₁, h₂, h => by
    rw [List.pairwise_cons] at h₁ h₂
    have hab : a = b := by
      have ha := (h a).mp (by simp)
      have hb := (h b).mpr (by simp)
      rcases List.mem_cons.mp ha with e | ha
      · exact e
      · rcases List.mem_cons.mp hb with e | hb
        · exact e.symm
        · have := h₂.1 a ha; have := h₁.1 b hb; order
    subst hab
    congr 1
    apply sorted_ext l₁ l₂ h₁.2 h₂.2
    intro x
    constructor
    · intro hx
      rcases List.mem_cons.mp ((h x).mp (List.mem_cons_of_mem _ hx)) with e | hx'
      · subst e; exact absurd (h₁.1 x hx) (lt_irrefl _)
      · exact hx'
    · intro hx
      rcases List.mem_cons.mp ((h x).mpr (List.mem_cons_of_mem _ hx)) with e | hx'
      · subst e; exact absurd (h₂.1 x hx) (lt_irrefl _)
      · exact hx'

theorem filter_sorted (p : κ → Bool) (l : List κ) (h : l.Pairwise (· < ·)) : (l.filter p).Pairwise (· < ·) :=
  h.sublist List.filter_sublist

theorem perm_insertS (x : κ) (l : List κ) : (insertS x l).Perm (x :: l) := by
  induction l with
  | nil => simp [insertS]
  | cons y ys ih =>
    unfold insertS
    split
    · exact ((List.Perm.cons y ih).trans (List.Perm.swap x y ys))
    · exact List.Perm.refl _

theorem perm_isort (l : List κ) : (isort l).Perm l := by
  induction l with
  | nil => simp [isort]
  | cons x xs ih =>
    have : isort (x :: xs) = insertS x (isort xs) := rfl
    rw [this]
    exact (perm_insertS x _).trans (List.Perm.cons x ih)

theorem sorted_insertS (x : κ) (l : List κ) (h : l.Pairwise (· ≤ ·)) : (insertS x l).Pairwise (· ≤ ·) := by
  induction l with
  | nil => simp [insertS]
  | cons y ys ih =>
    rw [List.pairwise_cons] at h
    unfold insertS
    split
    · rename_i hlt
      refine List.pairwise_cons.mpr ⟨?_, ih h.2⟩
      intro a ha
      rcases List.mem_cons.mp ((perm_insertS x ys).subset ha) with rfl | ha
      · exact le_of_lt hlt
      · exact h.1 a ha
    · rename_i hnlt
      refine List.pairwise_cons.mpr ⟨?_, List.pairwise_cons.mpr h⟩
      intro a ha
      rcases List.mem_cons.mp ha with rfl | ha
      · exact not_lt.mp hnlt
      · exact le_trans (not_lt.mp hnlt) (h.1 a ha)

theorem sorted_isort (l : List κ) : (isort l).Pairwise (· ≤ ·) := by
  induction l with
  | nil => simp [isort]
  | cons x xs ih => exact sorted_insertS x _ ih

/-! ### sort-and-stride slicing on key/payload pairs (Appendix A.3 over a linear order) -/

/-- slices of a key-sorted list of (key, payload) by an ascending list of distinct keys -/
def slices {α : Type} : List (κ × α) → List κ → List (List α)
  | _, [] => []
  | ps, z :: zs =>
      ((ps.takeWhile (fun p => p.1 == z)).map Prod.snd) :: slices (ps.dropWhile (fun p => p.1 == z)) zs

theorem takeWhile_eq_filter_of_sorted {α : Type} (ps : List (κ × α)) (z : κ)
    (hs : ps.Pairwise (fun a b => a.1 ≤ b.1)) (hge : ∀ p ∈ ps, z ≤ p.1) :
    ps.takeWhile (fun p => p.1 == z) = ps.filter (fun p => p.1 == z) := by
  induction ps with
  | nil => rfl
  | cons p ps ih =>
    rw [List.pairwise_cons] at hs
    have hp := hge p (by simp)
    by_cases h : p.1 = z
    · simp only [List.takeWhile, List.filter, h, beq_self_eq_true]
      rw [ih hs.2 (fun q hq => hge q (by simp [hq]))]
    · have hlt : z < p.1 := lt_of_le_of_ne hp (Ne.symm h)
      have hnone : ∀ q ∈ ps, ¬ (q.1 == z) = true := by
        intro q hq; have := hs.1 q hq; simp; intro h'; order
      have hbeq : (p.1 == z) = false := by simp [h]
      simp only [List.takeWhile, List.filter, hbeq]
      symm; rw [List.filter_eq_nil_iff]; exact hnone

theorem dropWhile_keys_gt {α : Type} (ps : List (κ × α)) (z : κ)
    (hs : ps.Pairwise (fun a b => a.1 ≤ b.1)) (hge : ∀ p ∈ ps, z ≤ p.1) :
    ∀ q ∈ ps.dropWhile (fun p => p.1 == z), z < q.1 := by
  induction ps with
  | nil => simp
  | cons p ps ih =>
    rw [List.pairwise_cons] at hs
    by_cases h : p.1 = z
    · simp only [List.dropWhile, h, beq_self_eq_true]
      exact ih hs.2 (fun q hq => hge q (by simp [hq]))
    · have hbeq : (p.1 == z) = false := by simp [h]
      have hp := hge p (by simp)
      simp only [List.dropWhile, hbeq]
      intro q hq
      rcases List.mem_cons.mp hq with rfl | hq
      · exact lt_of_le_of_ne hp (Ne.symm h)
      · have := hs.1 q hq; order

theorem filter_dropWhile_of_ne {α : Type} (z z' : κ) (hne : z ≠ z') (l : List (κ × α)) :
    (l.dropWhile (fun p => p.1 == z)).filter (fun p => p.1 == z') = l.filter (fun p => p.1 == z') := by
  induction l with
  | nil => rfl
  | cons q l ihl =>
    by_cases h : q.1 = z
    · have h' : (q.1 == z') = false := by simp; rw [h]; exact hne
      simp only [List.dropWhile, h, beq_self_eq_true]
      rw [ihl]
      have : (q :: l).filter (fun p => p.1 == z') = l.filter (fun p => p.1 == z') := by
        simp only [List.filter, h']
      rw [this]
    · have hbeq : (q.1 == z) = false := by simp [h]
      simp only [List.dropWhile, hbeq]

/-- the i-th slice is exactly the payloads whose key is the i-th unique key, in sorted order -/
theorem slices_eq_filter {α : Type} (ps : List (κ × α)) (zs : List κ)
    (hs : ps.Pairwise (fun a b => a.1 ≤ b.1))
    (hz : zs.Pairwise (· < ·))
    (hmem : ∀ p ∈ ps, p.1 ∈ zs) :
    slices ps zs = zs.map (fun z => (ps.filter (fun p => p.1 == z)).map Prod.snd) := by
  induction zs generalizing ps with
  | nil => rfl
  | cons z zs ih =>
    rw [List.pairwise_cons] at hz
    have hge : ∀ p ∈ ps, z ≤ p.1 := by
      intro p hp
      rcases List.mem_cons.mp (hmem p hp) with h | h
      · exact le_of_eq h.symm
      · exact le_of_lt (hz.1 _ h)
    simp only [slices, List.map_cons]
    rw [takeWhile_eq_filter_of_sorted ps z hs hge]
    congr 1
    have hgt := dropWhile_keys_gt ps z hs hge
    have hsub : (ps.dropWhile (fun p => p.1 == z)).Sublist ps := List.dropWhile_sublist _
    rw [ih (ps.dropWhile (fun p => p.1 == z)) (hs.sublist hsub) hz.2]
    · apply List.map_congr_left
      intro z' hz'
      have hlt := hz.1 z' hz'
      rw [filter_dropWhile_of_ne z z' (ne_of_lt hlt) ps]
    · intro p hp
      have h1 := hgt p hp
      have h2 := hmem p (hsub.subset hp)
      rcases List.mem_cons.mp h2 with h | h
      · exact absurd h1 (by rw [h]; exact lt_irrefl _)
      · exact h

/-! ### the pointer loop (`strides`) and positional slicing (`zoneSlices`) compute `slices` -/

theorem take_length_takeWhile {α : Type} (p : α → Bool) (l : List α) :
    l.take (l.takeWhile p).length = l.takeWhile p := by
  induction l with
  | nil => rfl
  | cons a l ih =>
    by_cases h : p a = true
    · simp [List.takeWhile, h, ih]
    · have : p a = false := by simpa using h
      simp [List.takeWhile, this]

theorem drop_length_takeWhile {α : Type} (p : α → Bool) (l : List α) :
    l.drop (l.takeWhile p).length = l.dropWhile p := by
  induction l with
  | nil => rfl
  | cons a l ih =>
    by_cases h : p a = true
    · simp [List.takeWhile, List.dropWhile, h, ih]
    · have : p a = false := by simpa using h
      simp [List.takeWhile, List.dropWhile, this]

theorem zoneSlices_strides {α : Type} (pre : List α) (ps : List (κ × α)) (us : List κ) :
    zoneSlices (pre ++ ps.map Prod.snd) pre.length (strides (ps.map Prod.fst) pre.length us)
      = slices ps us := by
  induction us generalizing pre ps with
  | nil => rfl
  | cons u us ih =>
    have hk : ((ps.map Prod.fst).takeWhile (· == u)).length
        = (ps.takeWhile (fun p => p.1 == u)).length := by
      rw [List.takeWhile_map]; simp [Function.comp_def]
    simp only [strides, zoneSlices, slices]
    rw [hk]
    congr 1
    · -- the slice itself
      rw [List.drop_append_of_le_length (Nat.le_refl _)]
      simp only [List.drop_length, List.nil_append, Nat.add_sub_cancel_left]
      rw [← List.map_take, take_length_takeWhile]
    · -- the rest of the loop
      have e1 : pre ++ ps.map Prod.snd
          = (pre ++ (ps.takeWhile (fun p => p.1 == u)).map Prod.snd)
              ++ (ps.dropWhile (fun p => p.1 == u)).map Prod.snd := by
        rw [List.append_assoc, ← List.map_append, List.takeWhile_append_dropWhile]
      have e2 : pre.length + (ps.takeWhile (fun p => p.1 == u)).length
          = (pre ++ (ps.takeWhile (fun p => p.1 == u)).map Prod.snd).length := by simp
      have e3 : (ps.map Prod.fst).drop (ps.takeWhile (fun p => p.1 == u)).length
          = (ps.dropWhile (fun p => p.1 == u)).map Prod.fst := by
        rw [← List.map_drop, drop_length_takeWhile]
      rw [e3, e2]
      conv => lhs; arg 1; rw [e1]
      exact ih _ _

/-! ### `sortAndStride` with the non-finite-zone indices dropped before the gather -/

/-- the (zone, payload) pair of a cell whose zone is finite -/
def pairOf (zones : Nat → X κ) (values : Nat → ν) (i : Nat) : Option (κ × ν) :=
  (zones i).toFin?.map (fun k => (k, values i))

theorem keys_eq (zones : Nat → X κ) (values : Nat → ν) (perm : List Nat) :
    ((perm.filter (fun i => (zones i).isFin)).map zones).filterMap X.toFin?
      = (perm.filterMap (pairOf zones values)).map Prod.fst := by
  induction perm with
  | nil => rfl
  | cons i l ih =>
    cases h : zones i <;> simp_all [pairOf, X.isFin, X.toFin?, List.filter, List.filterMap]

theorem payload_eq (zones : Nat → X κ) (values : Nat → ν) (perm : List Nat) :
    (perm.filter (fun i => (zones i).isFin)).map values
      = (perm.filterMap (pairOf zones values)).map Prod.snd := by
  induction perm with
  | nil => rfl
  | cons i l ih =>
    cases h : zones i <;> simp_all [pairOf, X.isFin, X.toFin?, List.filter, List.filterMap]

theorem zone_filter_eq (zones : Nat → X κ) (values : Nat → ν) (perm : List Nat) (u : κ) :
    ((perm.filterMap (pairOf zones values)).filter (fun p => p.1 == u)).map Prod.snd
      = (perm.filter (fun i => zones i == .fin u)).map values := by
  induction perm with
  | nil => rfl
  | cons i l ih =>
    rw [List.filter_cons]
    cases h : zones i with
    | fin k =>
      have e : pairOf zones values i = some (k, values i) := by simp [pairOf, h, X.toFin?]
      rw [List.filterMap_cons_some e, List.filter_cons]
      by_cases hk : k = u
      · subst hk; simp [ih]
      · have : (X.fin k == X.fin u) = false := by simp [hk]
        simp [hk, this, ih]
    | nan =>
      have e : pairOf zones values i = none := by simp [pairOf, h, X.toFin?]
      rw [List.filterMap_cons_none e]; simpa using ih
    | ninf =>
      have e : pairOf zones values i = none := by simp [pairOf, h, X.toFin?]
      rw [List.filterMap_cons_none e]; simpa using ih
    | pinf =>
      have e : pairOf zones values i = none := by simp [pairOf, h, X.toFin?]
      rw [List.filterMap_cons_none e]; simpa using ih

/-- the contract of `np.argsort(zones.ravel())` restricted to the cells `cells` -/
structure SortsCells (zones : Nat → X κ) (cells perm : List Nat) : Prop where
  isPerm : perm.Perm cells
  isSorted : (perm.map zones).Pairwise (fun a b => X.sortLe a b = true)

/-- the contract of `unique_zones` (possibly the *global* one handed to a dask block):
    ascending, duplicate free, containing every finite zone of the cells -/
structure CoversCells (zones : Nat → X κ) (cells : List Nat) (uniq : List κ) : Prop where
  sorted : uniq.Pairwise (· < ·)
  cover : ∀ i ∈ cells, ∀ k, zones i = .fin k → k ∈ uniq

theorem pairs_sorted (zones : Nat → X κ) (values : Nat → ν) (perm : List Nat)
    (hs : (perm.map zones).Pairwise (fun a b => X.sortLe a b = true)) :
    (perm.filterMap (pairOf zones values)).Pairwise (fun a b => a.1 ≤ b.1) := by
  rw [List.pairwise_map] at hs
  refine List.Pairwise.filterMap (pairOf zones values) ?_ hs
  intro i j hij b hb b' hb'
  cases hi : zones i <;> cases hj : zones j <;> simp_all [pairOf, X.toFin?, X.sortLe]
  obtain ⟨rfl⟩ := hb; obtain ⟨rfl⟩ := hb'; simpa using hij

/-- **raw slices of the repaired sort-and-stride**: for every sorting permutation the slice of
    the i-th unique zone is the payload of exactly the cells of that zone (in `perm` order) -/
theorem slices_fixed (zones : Nat → X κ) (values : Nat → ν) (cells perm : List Nat) (uniq : List κ)
    (hp : SortsCells zones cells perm) (hu : CoversCells zones cells uniq) :
    let sas := sortAndStride true zones values uniq perm
    zoneSlices sas.vbz 0 sas.breaks
      = uniq.map (fun u => (perm.filter (fun i => zones i == .fin u)).map values) := by
  intro sas
  have hv : sas.vbz = (perm.filterMap (pairOf zones values)).map Prod.snd := payload_eq zones values perm
  have hb : sas.breaks = strides ((perm.filterMap (pairOf zones values)).map Prod.fst) 0 uniq := by
    show strides _ 0 uniq = _
    rw [← keys_eq zones values perm]; rfl
  rw [hv, hb]
  have := zoneSlices_strides ([] : List ν) (perm.filterMap (pairOf zones values)) uniq
  simp only [List.nil_append, List.length_nil] at this
  rw [this, slices_eq_filter _ _ (pairs_sorted zones values perm hp.isSorted) hu.sorted]
  · apply List.map_congr_left
    intro u _
    exact zone_filter_eq zones values perm u
  · intro p hp'
    rw [List.mem_filterMap] at hp'
    obtain ⟨i, hi, hpi⟩ := hp'
    cases hz : zones i <;> simp_all [pairOf, X.toFin?]
    obtain ⟨rfl⟩ := hpi
    exact hu.cover i (hp.isPerm.subset hi) _ hz

theorem uniqueZones_covers (zones : Nat → X κ) (cells : List Nat) :
    CoversCells zones cells (uniqueZones zones cells) where
  sorted := sorted_sortDedup _
  cover := by
    intro i hi k hk
    rw [uniqueZones, mem_sortDedup, List.mem_filterMap]
    exact ⟨i, hi, by simp [hk, X.toFin?]⟩

theorem mem_uniqueZones (zones : Nat → X κ) (cells : List Nat) (k : κ) :
    k ∈ uniqueZones zones cells ↔ ∃ i ∈ cells, zones i = .fin k := by
  rw [uniqueZones, mem_sortDedup, List.mem_filterMap]
  constructor
  · rintro ⟨i, hi, h⟩; refine ⟨i, hi, ?_⟩
    cases hz : zones i <;> simp_all [X.toFin?]
  · rintro ⟨i, hi, h⟩; exact ⟨i, hi, by simp [h, X.toFin?]⟩

/-! ### the table of `_stats_numpy` -/

/-- a reducer that does not depend on the order of its argument (every built-in one) -/
def PermInv {α β : Type} (f : List α → β) : Prop := ∀ l l' : List α, l.Perm l' → f l = f l'

/-- the valid values of zone `u`, the cells enumerated in the order `order` -/
def zoneCells (zones : Nat → X κ) (values : Nat → ν) (valid : ν → Bool) (order : List Nat) (u : κ) : List ν :=
  ((order.filter (fun i => zones i == .fin u)).map values).filter valid

/-- the statistic the property asks for: `f` of the zone's valid values, NaN when there is none -/
def zoneStat (zones : Nat → X κ) (values : Nat → ν) (valid : ν → Bool) (nanρ : ρ) (f : List ν → ρ)
    (order : List Nat) (u : κ) : ρ :=
  if (zoneCells zones values valid order u).isEmpty then nanρ else f (zoneCells zones values valid order u)

/-- is the zone requested? (`zone_ids=None` requests every zone) -/
def wanted : Option (List κ) → κ → Bool
  | none, _ => true
  | some ids, u => ids.contains u

/-- the rows the property asks for: distinct finite zone ids, ascending, restricted to the request -/
def wantedZones (zones : Nat → X κ) (cells : List Nat) (zoneIds : Option (List κ)) : List κ :=
  (uniqueZones zones cells).filter (wanted zoneIds)

theorem zoneCells_perm (zones : Nat → X κ) (values : Nat → ν) (valid : ν → Bool) (o₁ o₂ : List Nat)
    (h : o₁.Perm o₂) (u : κ) : (zoneCells zones values valid o₁ u).Perm (zoneCells zones values valid o₂ u) :=
  ((h.filter _).map _).filter _

theorem zoneStat_perm (zones : Nat → X κ) (values : Nat → ν) (valid : ν → Bool) (nanρ : ρ) (f : List ν → ρ)
    (hf : PermInv f) (o₁ o₂ : List Nat) (h : o₁.Perm o₂) (u : κ) :
    zoneStat zones values valid nanρ f o₁ u = zoneStat zones values valid nanρ f o₂ u := by
  have hp := zoneCells_perm zones values valid o₁ o₂ h u
  unfold zoneStat
  rw [hf _ _ hp]
  have : (zoneCells zones values valid o₁ u).isEmpty = (zoneCells zones values valid o₂ u).isEmpty := by
    cases h1 : zoneCells zones values valid o₁ u <;> cases h2 : zoneCells zones values valid o₂ u <;>
      simp_all
  rw [this]

theorem zip_map_self {α β : Type} (l : List α) (h : α → β) : l.zip (l.map h) = l.map (fun u => (u, h u)) := by
  induction l with
  | nil => rfl
  | cons a l ih => simp [ih]

/-- `_calc_stats` on the repaired sort-and-stride: every selected zone gets the statistic of
    exactly its valid cells (enumerated in `perm` order), every other position NaN -/
theorem calcStats_fixed (zones : Nat → X κ) (values : Nat → ν) (cells perm : List Nat) (uniq : List κ)
    (valid : ν → Bool) (nanρ : ρ) (f : List ν → ρ) (sel : κ → Bool)
    (hp : SortsCells zones cells perm) (hu : CoversCells zones cells uniq) :
    calcStats valid nanρ f (sortAndStride true zones values uniq perm) uniq sel
      = uniq.map (fun u => if sel u then zoneStat zones values valid nanρ f perm u else nanρ) := by
  unfold calcStats
  rw [slices_fixed zones values cells perm uniq hp hu, zip_map_self, List.map_map]
  rfl

theorem selectZoneIds_eq (uniq : List κ) (hu : uniq.Pairwise (· < ·)) (zoneIds : Option (List κ)) :
    selectZoneIds uniq zoneIds = uniq.filter (wanted zoneIds) := by
  cases zoneIds with
  | none =>
    have : wanted (none : Option (List κ)) = fun _ => true := rfl
    simp only [selectZoneIds, this]
    exact (List.filter_eq_self.mpr (fun _ _ => rfl)).symm
  | some ids =>
    apply sorted_ext _ _ (filter_sorted _ _ (sorted_sortDedup ids)) (filter_sorted _ _ hu)
    intro x
    simp [wanted, List.mem_filter, mem_sortDedup, and_comm]

theorem filter_contains_filter (l : List κ) (p : κ → Bool) :
    l.filter (fun u => (l.filter p).contains u) = l.filter p := by
  apply List.filter_congr
  intro x hx
  by_cases h : p x = true <;> simp [List.mem_filter, hx, h]

/-- **the DataFrame of the repaired `_stats_numpy`**, for every sorting permutation and every
    reducer: rows = the wanted zones, entry = the reducer on the zone's valid values in `perm` order -/
theorem statsNumpy_fixed (zones : Nat → X κ) (values : Nat → ν) (cells perm : List Nat)
    (valid : ν → Bool) (nanρ : ρ) (funcs : List (List ν → ρ)) (zoneIds : Option (List κ))
    (hp : SortsCells zones cells perm) :
    statsNumpy true zones values cells valid nanρ funcs zoneIds perm
      = { zone := wantedZones zones cells zoneIds
          cols := funcs.map (fun f => (wantedZones zones cells zoneIds).map
                    (zoneStat zones values valid nanρ f perm)) } := by
  have hu := uniqueZones_covers zones cells
  have hsel := selectZoneIds_eq (uniqueZones zones cells) hu.sorted zoneIds
  unfold statsNumpy wantedZones
  simp only [hsel]
  congr 1
  apply List.map_congr_left
  intro f _
  rw [calcStats_fixed zones values cells perm _ valid nanρ f _ hp hu, zip_map_self]
  rw [List.filter_map, List.map_map]
  have : (fun p : κ × ρ => decide (p.1 ∈ List.filter (wanted zoneIds) (uniqueZones zones cells)))
      ∘ (fun u => (u, if (List.filter (wanted zoneIds) (uniqueZones zones cells)).contains u = true
            then zoneStat zones values valid nanρ f perm u else nanρ))
      = fun u => (List.filter (wanted zoneIds) (uniqueZones zones cells)).contains u := by
    funext u; simp
  simp only [List.contains_eq_mem] at this ⊢
  rw [this]
  have h2 := filter_contains_filter (uniqueZones zones cells) (wanted zoneIds)
  simp only [List.contains_eq_mem] at h2
  rw [h2]
  apply List.map_congr_left
  intro u hu'
  have := List.mem_filter.mp hu'
  simp [this.1, this.2]

/-! ### the raster form -/

theorem find_map_key {β : Type} (l : List κ) (F : κ → β) (z : κ) (hz : z ∈ l) :
    (l.map (fun u => (u, F u))).find? (fun r => r.1 == z) = some (z, F z) := by
  induction l with
  | nil => simp at hz
  | cons a l ih =>
    by_cases h : a = z
    · subst h; simp
    · have hz' : z ∈ l := by
        rcases List.mem_cons.mp hz with e | e
        · exact absurd e.symm h
        · exact e
      simp [h, ih hz']

theorem foldl_scatter (zones : Nat → X κ) (perm : List Nat) (g : κ → ρ) (ids : List κ) (res : Nat → ρ) (j : Nat) :
    (ids.foldl (fun res z => scatter res (perm.filter (fun i => zones i == .fin z)) (g z)) res) j
      = match zones j with
        | .fin k => if ids.contains k ∧ perm.contains j then g k else res j
        | _ => res j := by
  induction ids generalizing res with
  | nil => cases zones j <;> simp
  | cons z ids ih =>
    rw [List.foldl_cons, ih]
    cases hz : zones j with
    | fin k =>
      simp only [scatter, List.contains_eq_mem, List.mem_filter, hz, List.mem_cons, decide_eq_true_eq,
        Bool.decide_and, Bool.and_eq_true, beq_iff_eq, X.fin.injEq]
      by_cases h1 : k ∈ ids <;> by_cases h2 : j ∈ perm <;> by_cases h3 : k = z <;> simp_all
    | _ => simp [scatter, List.mem_filter, hz]

theorem foldl_congr_mem {α β : Type} (l : List α) (f g : β → α → β) (init : β)
    (h : ∀ a ∈ l, ∀ b, f b a = g b a) : l.foldl f init = l.foldl g init := by
  induction l generalizing init with
  | nil => rfl
  | cons a l ih =>
    simp only [List.foldl_cons]
    rw [h a (by simp) init]
    exact ih _ (fun x hx b => h x (List.mem_cons_of_mem _ hx) b)

theorem zip_map_map {α β γ : Type} (l : List α) (f : α → β) (g : α → γ) :
    (l.map f).zip (l.map g) = l.map (fun u => (f u, g u)) := by
  induction l with
  | nil => rfl
  | cons a l ih => simp [ih]

/-- `sorted_indices[zone_breaks[i-1]:zone_breaks[i]]` of the repaired sort-and-stride are the cells of zone i -/
theorem idx_slices_fixed (zones : Nat → X κ) (values : Nat → ν) (cells perm : List Nat) (uniq : List κ)
    (hp : SortsCells zones cells perm) (hu : CoversCells zones cells uniq) :
    let sas := sortAndStride true zones values uniq perm
    zoneSlices sas.idx 0 sas.breaks = uniq.map (fun u => perm.filter (fun i => zones i == .fin u)) := by
  intro sas
  have h := slices_fixed zones (fun i => i) cells perm uniq hp hu
  simp only [List.map_id'] at h
  have e1 : sas.idx = (sortAndStride true zones (fun i => i) uniq perm).vbz := by
    show _ = List.map (fun i => i) _
    simp [sas, sortAndStride]
  have e2 : sas.breaks = (sortAndStride true zones (fun i => i) uniq perm).breaks := rfl
  rw [e1, e2]
  exact h

/-- **the raster of the repaired `_stats_numpy`**: a cell carries the statistic of its zone when the
    zone is finite and wanted (and the cell is one of `perm`), NaN otherwise -/
theorem statsRaster_fixed (zones : Nat → X κ) (values : Nat → ν) (cells perm : List Nat)
    (valid : ν → Bool) (nanρ : ρ) (funcs : List (List ν → ρ)) (zoneIds : Option (List κ))
    (hp : SortsCells zones cells perm) :
    statsRaster true zones values cells valid nanρ funcs zoneIds perm
      = funcs.map (fun f => fun j =>
          match zones j with
          | .fin k => if (wantedZones zones cells zoneIds).contains k ∧ perm.contains j
                        then zoneStat zones values valid nanρ f perm k else nanρ
          | _ => nanρ) := by
  have hu := uniqueZones_covers zones cells
  have hsel := selectZoneIds_eq (uniqueZones zones cells) hu.sorted zoneIds
  unfold statsRaster wantedZones
  simp only [hsel]
  apply List.map_congr_left
  intro f _
  rw [calcStats_fixed zones values cells perm _ valid nanρ f _ hp hu,
    idx_slices_fixed zones values cells perm _ hp hu, zip_map_map, zip_map_self]
  set W := List.filter (wanted zoneIds) (uniqueZones zones cells) with hW
  refine (foldl_congr_mem W _ (fun res z => scatter res (perm.filter (fun i => zones i == .fin z))
      (zoneStat zones values valid nanρ f perm z)) _ ?_).trans ?_
  · intro z hz res
    have hzu : z ∈ uniqueZones zones cells := (List.mem_filter.mp hz).1
    have hf := find_map_key (uniqueZones zones cells) (fun u =>
        ((if W.contains u = true then zoneStat zones values valid nanρ f perm u else nanρ),
          perm.filter (fun i => zones i == .fin u))) z hzu
    simp only [hf]
    simp [hz]
  · funext j
    exact foldl_scatter zones perm (zoneStat zones values valid nanρ f perm) W (fun _ => nanρ) j


/-! ### the unrepaired gather (only `sorted_zones` stripped) agrees when no zone cell is -inf -/

theorem keys_strip_irrelevant (zones : Nat → X κ) (perm : List Nat) :
    (perm.map zones).filterMap X.toFin?
      = ((perm.filter (fun i => (zones i).isFin)).map zones).filterMap X.toFin? := by
  induction perm with
  | nil => rfl
  | cons i l ih => cases h : zones i <;> simp_all [X.isFin, X.toFin?, List.filter, List.filterMap]

theorem strides_le (fz : List κ) (c : Nat) (us : List κ) : ∀ e ∈ strides fz c us, c ≤ e ∧ e ≤ c + fz.length := by
  induction us generalizing fz c with
  | nil => simp [strides]
  | cons u us ih =>
    intro e he
    simp only [strides, List.mem_cons] at he
    have hk : (fz.takeWhile (· == u)).length ≤ fz.length := (List.takeWhile_sublist _).length_le
    rcases he with rfl | he
    · omega
    · have := ih (fz.drop (fz.takeWhile (· == u)).length) (c + (fz.takeWhile (· == u)).length) e he
      simp only [List.length_drop] at this
      omega

theorem strides_mono (fz : List κ) (c : Nat) (us : List κ) : (strides fz c us).Pairwise (· ≤ ·) := by
  induction us generalizing fz c with
  | nil => simp [strides]
  | cons u us ih =>
    simp only [strides, List.pairwise_cons]
    refine ⟨?_, ih _ _⟩
    intro e he
    exact (strides_le _ _ _ e he).1

/-- slices taken inside a prefix do not see what follows the prefix -/
theorem zoneSlices_prefix {α : Type} (a r : List α) (start : Nat) (bs : List Nat)
    (hs : start ≤ a.length) (hb : ∀ e ∈ bs, e ≤ a.length) (hm : bs.Pairwise (· ≤ ·)) (h0 : ∀ e ∈ bs, start ≤ e) :
    zoneSlices (a ++ r) start bs = zoneSlices a start bs := by
  induction bs generalizing start with
  | nil => rfl
  | cons e bs ih =>
    rw [List.pairwise_cons] at hm
    have he := hb e (by simp)
    have hse := h0 e (by simp)
    simp only [zoneSlices]
    congr 1
    · rw [List.drop_append_of_le_length hs, List.take_append_of_le_length]
      simp only [List.length_drop]; omega
    · exact ih e he (fun x hx => hb x (List.mem_cons_of_mem _ hx)) hm.2 (fun x hx => hm.1 x hx)

/-- without -inf keys the finite keys form a prefix of any sorted permutation -/
theorem finite_prefix (zones : Nat → X κ) (perm : List Nat)
    (hs : (perm.map zones).Pairwise (fun a b => X.sortLe a b = true))
    (hno : ∀ i ∈ perm, zones i ≠ .ninf) :
    ∃ rest, perm = perm.filter (fun i => (zones i).isFin) ++ rest := by
  induction perm with
  | nil => exact ⟨[], rfl⟩
  | cons i l ih =>
    rw [List.map_cons, List.pairwise_cons] at hs
    obtain ⟨rest, hr⟩ := ih hs.2 (fun j hj => hno j (List.mem_cons_of_mem _ hj))
    cases hz : zones i with
    | fin k =>
      refine ⟨rest, ?_⟩
      have hi : (zones i).isFin = true := by rw [hz]; rfl
      rw [List.filter_cons_of_pos (p := fun i => (zones i).isFin) (a := i) hi, List.cons_append, ← hr]
    | ninf => exact absurd hz (hno i (by simp))
    | nan =>
      refine ⟨i :: l, ?_⟩
      have : l.filter (fun j => (zones j).isFin) = [] := by
        rw [List.filter_eq_nil_iff]
        intro j hj
        have h1 := hs.1 (zones j) (List.mem_map.mpr ⟨j, hj, rfl⟩)
        rw [hz] at h1
        cases hzj : zones j with
        | fin q => rw [hzj] at h1; simp [X.sortLe, X.rank] at h1
        | _ => simp [X.isFin]
      have hi : ¬ ((zones i).isFin = true) := by rw [hz]; simp [X.isFin]
      rw [List.filter_cons_of_neg (p := fun i => (zones i).isFin) (a := i) hi, this]; rfl
    | pinf =>
      refine ⟨i :: l, ?_⟩
      have : l.filter (fun j => (zones j).isFin) = [] := by
        rw [List.filter_eq_nil_iff]
        intro j hj
        have h1 := hs.1 (zones j) (List.mem_map.mpr ⟨j, hj, rfl⟩)
        rw [hz] at h1
        cases hzj : zones j with
        | fin q => rw [hzj] at h1; simp [X.sortLe, X.rank] at h1
        | _ => simp [X.isFin]
      have hi : ¬ ((zones i).isFin = true) := by rw [hz]; simp [X.isFin]
      rw [List.filter_cons_of_neg (p := fun i => (zones i).isFin) (a := i) hi, this]; rfl

/-- **the forced hypothesis**: when no zone cell is -inf, stripping only `sorted_zones` (the
    unrepaired `_sort_and_stride`) cuts the same slices as the repaired code -/
theorem slices_unrepaired_eq (zones : Nat → X κ) (values : Nat → ν) (perm : List Nat) (uniq : List κ)
    (hs : (perm.map zones).Pairwise (fun a b => X.sortLe a b = true))
    (hno : ∀ i ∈ perm, zones i ≠ .ninf) :
    let a := sortAndStride false zones values uniq perm
    let b := sortAndStride true zones values uniq perm
    a.breaks = b.breaks ∧ zoneSlices a.vbz 0 a.breaks = zoneSlices b.vbz 0 b.breaks := by
  intro a b
  have hb : a.breaks = b.breaks := by
    show strides _ 0 uniq = strides _ 0 uniq
    simp only [if_true, Bool.false_eq_true, if_false]
    rw [keys_strip_irrelevant]
  refine ⟨hb, ?_⟩
  obtain ⟨rest, hr⟩ := finite_prefix zones perm hs hno
  have hv : a.vbz = b.vbz ++ rest.map values := by
    show perm.map values = (perm.filter _).map values ++ _
    rw [← List.map_append, ← hr]
  rw [hv, hb]
  have hlen : b.vbz.length = (((perm.filter (fun i => (zones i).isFin)).map zones).filterMap X.toFin?).length := by
    show ((perm.filter _).map values).length = _
    have : ∀ l : List Nat, (∀ i ∈ l, (zones i).isFin = true) → ((l.map zones).filterMap X.toFin?).length = l.length := by
      intro l hl
      induction l with
      | nil => rfl
      | cons i l ih =>
        have hi := hl i (by simp)
        have ih' := ih (fun j hj => hl j (List.mem_cons_of_mem _ hj))
        cases hz : zones i with
        | fin q =>
          rw [List.map_cons, hz, List.filterMap_cons_some (by rfl : X.toFin? (X.fin q) = some q),
            List.length_cons, List.length_cons, ih']
        | nan => rw [hz] at hi; simp [X.isFin] at hi
        | ninf => rw [hz] at hi; simp [X.isFin] at hi
        | pinf => rw [hz] at hi; simp [X.isFin] at hi
    rw [this _ (fun i hi => (List.mem_filter.mp hi).2)]
    simp
  apply zoneSlices_prefix
  · omega
  · intro e he
    have := (strides_le _ 0 uniq e he).2
    rw [hlen]; simpa using this
  · exact strides_mono _ _ _
  · intro e _; omega


theorem statsNumpy_unrepaired_eq (zones : Nat → X κ) (values : Nat → ν) (cells perm : List Nat)
    (valid : ν → Bool) (nanρ : ρ) (funcs : List (List ν → ρ)) (zoneIds : Option (List κ))
    (hs : (perm.map zones).Pairwise (fun a b => X.sortLe a b = true))
    (hno : ∀ i ∈ perm, zones i ≠ .ninf) :
    statsNumpy false zones values cells valid nanρ funcs zoneIds perm
      = statsNumpy true zones values cells valid nanρ funcs zoneIds perm := by
  unfold statsNumpy calcStats
  simp only
  rw [(slices_unrepaired_eq zones values perm (uniqueZones zones cells) hs hno).2]

end XrsVerif.Zonal
