import XrsVerif.Proofs.ILRegionsPass2
/-
  Proofs/ILRegions.lean -- refinement: the program `Gen.IL.areaConnectivity`, translated statement by statement from
  `zonal._area_connectivity(data, n)` (layer T3), computes the hand model `Regions.regions` of Model/Regions.lean
  (the model the component theorems of Props/C16.lean are about), for every raster size (0 included), every data,
  `n = 4` and `n = 8`, every number type `F` that satisfies `LabelLaws`:

      out = [ data[c]                    if data[c] is NaN
              lab (label of c)           otherwise           for c in raster order ]

  with `regions rows cols (n = 8) closeF (dataOf cols data) c = some (label of c)`.  No array access is out of range
  (`Ctl.err` is never reached: the run ends with `ret`).
-/
namespace XrsVerif.IL.Rg
open XrsVerif XrsVerif.IL XrsVerif.Regions
variable {F : Type} [Fl F]
set_option linter.unusedSectionVars false
set_option linter.unusedVariables false
set_option linter.unusedSimpArgs false

/-! ### the raster as a flat list -/

theorem gridCells_map_pos (rows cols : Nat) : (gridCells rows cols).map (pos cols) = List.range (rows * cols) := by
  induction rows with
  | zero => simp [gridCells]
  | succ r ih =>
    rw [gridCells_succ, List.map_append, ih, Nat.add_mul, Nat.one_mul, List.range_add]
    congr 1
    simp [pos, List.map_map, Function.comp_def]

theorem flat_eq_map (rows cols : Nat) (out : List F) (h : out.length = rows * cols) :
    out = (gridCells rows cols).map (at_ cols out) := by
  have h1 : out = (List.range (rows * cols)).map fun i => out.getD i Fl.nan := by
    apply List.ext_getElem
    · simp [h]
    · intro i h1 h2; simp [List.getD_eq_getElem?_getD, List.getElem?_eq_getElem h1]
  conv => lhs; rw [h1, ← gridCells_map_pos, List.map_map]
  rfl

/-! ### the prologue -/

/-- the state in which the first pass starts -/
def afterInit (s : State F) (rows cols n : Nat) : State F :=
  { s with
    ienv := setS (setS (setS s.ienv "rows" (rows : Int)) "cols" (cols : Int)) "uid" 1,
    shp := setS (setS (setS s.shp "out" [rows, cols]) "src_window" [n]) "area_window" [n],
    fa := setS (setS (setS s.fa "out" (List.replicate (rows * cols) (Fl.lit 0 1)))
            "src_window" (List.replicate n (Fl.lit 0 1))) "area_window" (List.replicate n (Fl.lit 0 1)) }

theorem exec_init (fuel rows cols n : Nat) (rest : List St) (s : State F) (hs : s.ctl = .run)
    (hshp : s.shp "data" = [rows, cols]) (hnv : s.ienv "n" = (n : Int)) :
    exec fuel (seqL (init ++ rest)) s = exec fuel (seqL rest) (afterInit s rows cols n) := by
  simp only [init, List.cons_append, List.nil_append]
  -- out = np.zeros_like(data)
  rw [exec_seqL_cons, exec_allocF]
  simp only [IE.ok, IE.eval, FE.ok, FE.eval, hshp, List.all_cons, List.all_nil, List.length_cons, List.length_nil,
    List.getD_cons_zero, List.getD_cons_succ, List.map_cons, List.map_nil, List.foldl_cons, List.foldl_nil,
    Bool.and_true, decide_true, Int.toNat_natCast, Nat.one_mul, Int.natCast_nonneg, if_true,
    show (0 : Nat) < 0 + 1 + 1 from by omega, show (1 : Nat) < 0 + 1 + 1 from by omega]
  rw [if_pos (by exact hs)]
  -- rows, cols = data.shape
  have hd1 : setS s.shp "out" [rows, cols] "data" = [rows, cols] := by rw [setS_other _ _ _ _ (by decide)]; exact hshp
  rw [exec_seqL_cons, exec_setI]
  simp only [IE.ok, IE.eval, hd1, List.length_cons, List.length_nil, List.getD_cons_zero, decide_true, if_true,
    show (0 : Nat) < 0 + 1 + 1 from by omega]
  rw [if_pos (by exact hs), exec_seqL_cons, exec_setI]
  simp only [IE.ok, IE.eval, hd1, List.length_cons, List.length_nil, List.getD_cons_zero, List.getD_cons_succ,
    decide_true, if_true, show (1 : Nat) < 0 + 1 + 1 from by omega]
  -- uid = 1
  rw [if_pos (by exact hs), exec_seqL_cons, exec_setI]
  simp only [IE.ok, IE.eval, if_true]
  rw [if_pos (by exact hs)]
  -- the two window arrays
  have hn1 : setS (setS (setS s.ienv "rows" (rows : Int)) "cols" (cols : Int)) "uid" 1 "n" = (n : Int) := by
    rw [setS_other _ _ _ _ (by decide), setS_other _ _ _ _ (by decide), setS_other _ _ _ _ (by decide)]; exact hnv
  rw [exec_seqL_cons, exec_allocF]
  simp only [IE.ok, IE.eval, FE.ok, FE.eval, hn1, List.all_cons, List.all_nil, List.map_cons, List.map_nil,
    List.foldl_cons, List.foldl_nil, Bool.and_true, decide_true, Int.toNat_natCast, Nat.one_mul, Int.natCast_nonneg,
    if_true]
  rw [if_pos (by exact hs), exec_seqL_cons, exec_allocF]
  simp only [IE.ok, IE.eval, FE.ok, FE.eval, hn1, List.all_cons, List.all_nil, List.map_cons, List.map_nil,
    List.foldl_cons, List.foldl_nil, Bool.and_true, decide_true, Int.toNat_natCast, Nat.one_mul, Int.natCast_nonneg,
    if_true]
  rw [if_pos (by exact hs)]
  rfl

theorem afterInit_geo (s : State F) (rows cols n : Nat) (hs : s.ctl = .run) (hshp : s.shp "data" = [rows, cols])
    (hnv : s.ienv "n" = (n : Int)) : Geo rows cols n (s.fa "data") (afterInit s rows cols n) :=
  { run := hs
    rv := by simp [afterInit, setS]
    cv := by simp [afterInit, setS]
    nv := by simp [afterInit, setS, hnv]
    dshp := by simp [afterInit, setS, hshp]
    oshp := by simp [afterInit, setS]
    sshp := by simp [afterInit, setS]
    ashp := by simp [afterInit, setS]
    dat := by simp [afterInit, setS]
    olen := by simp [afterInit, setS]
    slen := by simp [afterInit, setS]
    alen := by simp [afterInit, setS] }

/-! ### the whole program -/

/-- what the generated program returns at cell `c`, in terms of the hand model: the input value at a NaN cell,
    else the number of the model's label -/
def cellOut (rows cols n : Nat) (D : List F) (c : Cell) : F :=
  match regions rows cols (decide (n = 8)) closeF (dataOf cols D) c with
  | none => at_ cols D c
  | some k => lab k

/-- what the generated program returns -/
def modelOut (rows cols n : Nat) (D : List F) : List F := (gridCells rows cols).map (cellOut rows cols n D)

/-- **the refinement theorem**: `Gen.IL.areaConnectivity` computes `Regions.regions` -/
theorem areaConnectivity_refines (laws : LabelLaws F) (s : State F) (fuel rows cols n : Nat) (hs : s.ctl = .run)
    (hshp : s.shp "data" = [rows, cols]) (hnv : s.ienv "n" = (n : Int)) (hn : n = 4 ∨ n = 8) :
    let r := Gen.IL.areaConnectivity.run s fuel
    r.ctl = .ret ∧ r.shp "out" = [rows, cols] ∧ r.fa "data" = s.fa "data" ∧
      r.fa "out" = modelOut rows cols n (s.fa "data") := by
  intro r
  let D := s.fa "data"
  let nbF := gridNbrs rows cols (decide (n = 8))
  have hr : r = exec fuel (seqL [pass cell1, pass cell2, .ret]) (afterInit s rows cols n) := by
    show Prog.run _ _ _ = _
    unfold Prog.run
    rw [body_eq]
    exact exec_init fuel rows cols n _ s hs hshp hnv
  have hg0 := afterInit_geo s rows cols n hs hshp hnv
  -- first pass
  have hP0 : P1 rows cols n D [] 0 (afterInit s rows cols n) := by
    refine ⟨hg0, by simp [afterInit, setS], ?_, ?_⟩
    · intro c h1 h2 _
      have := pos_lt rows cols c h1 h2
      simp only [List.foldl_nil, afterInit, setS_same]
      have ho : (setS (setS (setS s.fa "out" (List.replicate (rows * cols) (Fl.lit 0 1 : F))) "src_window"
          (List.replicate n (Fl.lit 0 1))) "area_window" (List.replicate n (Fl.lit 0 1))) "out"
          = List.replicate (rows * cols) (Fl.lit 0 1) := by simp [setS]
      rw [ho]
      simp only [at_, List.getD_eq_getElem?_getD]
      rw [List.getElem?_replicate]
      simp [this]; rfl
    · intro c _ _ hp; omega
  obtain ⟨hc1, hg1, _, hrel1, hnd1⟩ := pass1_refines laws fuel rows cols n hn D (afterInit s rows cols n) hP0
  -- second pass
  let t1 := exec fuel (pass cell1) (afterInit s rows cols n)
  let L1 := ((gridCells rows cols).foldl (step1 nbF closeF (dataOf cols D)) (fun _ => 0, 1)).1
  have hnk1 : NaNKeep rows cols D (t1.fa "out") := fun c h1 h2 hc => hnd1 c h1 h2 (pos_lt rows cols c h1 h2) hc
  obtain ⟨hc2, hg2, hrel2, hnk2⟩ := pass2_refines laws fuel rows cols n hn D L1 t1 ⟨hg1, hrel1, hnk1⟩
  let t2 := exec fuel (pass cell2) t1
  have hr2 : r = { t2 with ctl := .ret } := by
    rw [hr, exec_seqL_cons, if_pos hc1, exec_seqL_cons, if_pos hc2]
    simp only [seqL, exec_ret]
    rfl
  rw [hr2]
  refine ⟨rfl, hg2.oshp, hg2.dat, ?_⟩
  show t2.fa "out" = _
  rw [flat_eq_map rows cols (t2.fa "out") hg2.olen]
  unfold modelOut
  apply List.map_congr_left
  intro c hc
  unfold cellOut
  obtain ⟨h1, h2⟩ := mem_gridCells.mp hc
  cases hnan : Fl.isnan (at_ cols D c) with
  | true =>
    have : regions rows cols (decide (n = 8)) closeF (dataOf cols D) c = none := by
      simp only [regions, result, dataOf_none cols D c hnan]
    rw [this]
    exact hnk2 c h1 h2 hnan
  | false =>
    have : regions rows cols (decide (n = 8)) closeF (dataOf cols D) c =
        some (((gridCells rows cols).foldl (step2 nbF closeF (dataOf cols D)) (L1, none)).1 c) := by
      simp only [regions, result, dataOf_some cols D c hnan]
      rfl
    rw [this]
    exact hrel2 c h1 h2 hnan

end XrsVerif.IL.Rg
