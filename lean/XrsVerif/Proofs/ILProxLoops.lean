import XrsVerif.Proofs.ILProxNumpyDefs
/-
  Proofs/ILProxLoops.lean -- the elementwise loops of the generated `_process_numpy` (resets, reading a raster
  line, reading / storing a line of distances): each ends in `run`, changes only the loop counter `i` and the
  arrays it writes (`Only`), and its effect is given entry by entry.
-/
namespace XrsVerif.IL.Px
open XrsVerif
variable {F : Type} [Fl F]
set_option linter.unusedSectionVars false
set_option linter.unusedSimpArgs false
attribute [-simp] List.getD_eq_getElem?_getD
attribute [local simp] List.getD_cons_zero List.getD_cons_succ

/-- `r` differs from `s` at most in the loop counter `i` and in the listed arrays -/
structure Only (ias fas : List String) (s r : State F) : Prop where
  shp : r.shp = s.shp
  ext : r.ext = s.ext
  ienv : ∀ v, v ≠ "i" → r.ienv v = s.ienv v
  fenv : r.fenv = s.fenv
  benv : r.benv = s.benv
  ia : ∀ a, a ∉ ias → r.ia a = s.ia a
  fa : ∀ a, a ∉ fas → r.fa a = s.fa a

theorem Only.refl (ias fas : List String) (s : State F) : Only ias fas s s :=
  ⟨rfl, rfl, fun _ _ => rfl, rfl, rfl, fun _ _ => rfl, fun _ _ => rfl⟩

/-- `for i in range(width): a[i] = -1; b[i] = -1` for two integer arrays -/
theorem reset2_exec (a b : String) (hab : a ≠ b) (st : State F) (fuel W : Nat) (hs : st.ctl = .run)
    (hw : st.ienv "width" = W) (ha : st.shp a = [W]) (hb : st.shp b = [W])
    (la : (st.ia a).length = W) (lb : (st.ia b).length = W) :
    let r := exec fuel (.forRange "i" (.lit 0) (.var "width") (.lit 1)
      (.seq (.stI1 a (.var "i") (.lit (-1))) (.stI1 b (.var "i") (.lit (-1))))) st
    r.ctl = .run ∧ Only [a, b] [] st r ∧ (r.ia a).length = W ∧ (r.ia b).length = W ∧
    ∀ q, q < W → (r.ia a).getD q 0 = -1 ∧ (r.ia b).getD q 0 = -1 := by
  have hba : b ≠ a := fun e => hab e.symm
  exact forRange_up "i" (.var "width") (.seq (.stI1 a (.var "i") (.lit (-1))) (.stI1 b (.var "i") (.lit (-1)))) st fuel W
    hs rfl (by simp [IE.eval, hw])
    (fun k r => Only [a, b] [] st r ∧ (r.ia a).length = W ∧ (r.ia b).length = W ∧
      ∀ q, q < k → (r.ia a).getD q 0 = -1 ∧ (r.ia b).getD q 0 = -1)
    ⟨Only.refl _ _ st, la, lb, fun q hq => absurd hq (Nat.not_lt_zero q)⟩
    (by
      intro k hk r hr ⟨fr, l1, l2, hq⟩
      have e1 : r.shp a = [W] := by rw [fr.shp, ha]
      have e2 : r.shp b = [W] := by rw [fr.shp, hb]
      simp [exec, exec_seq, hr, IE.ok, IE.eval, setS, e1, e2, inRange_of_lt _ _ hk, off1_nat, afterBody, hab, hba]
      refine ⟨⟨fr.shp, fr.ext, ?_, fr.fenv, fr.benv, ?_, fr.fa⟩, l1, l2, ?_⟩
      · intro v hv; simp [setS, hv, fr.ienv v hv]
      · intro x hx; simp at hx; simp [setS, hx, fr.ia x (by simp [hx])]
      · intro q hq'
        by_cases hqk : k = q
        · subst hqk; simp [getD_set, l1, l2, hk]
        · simp [getD_set_ne _ _ _ _ _ hqk]
          exact hq q (by omega))

theorem resetPan_exec (st : State F) (fuel W : Nat) (hs : st.ctl = .run) (hw : st.ienv "width" = W)
    (hpx : st.shp "pan_near_x" = [W]) (hpy : st.shp "pan_near_y" = [W])
    (lpx : (st.ia "pan_near_x").length = W) (lpy : (st.ia "pan_near_y").length = W) :
    let r := exec fuel resetPan st
    r.ctl = .run ∧ Only ["pan_near_x", "pan_near_y"] [] st r ∧
    (r.ia "pan_near_x").length = W ∧ (r.ia "pan_near_y").length = W ∧
    ∀ q, q < W → (r.ia "pan_near_x").getD q 0 = -1 ∧ (r.ia "pan_near_y").getD q 0 = -1 :=
  reset2_exec "pan_near_x" "pan_near_y" (by decide) st fuel W hs hw hpx hpy lpx lpy

theorem resetNearest_exec (st : State F) (fuel W : Nat) (hs : st.ctl = .run) (hw : st.ienv "width" = W)
    (hnx : st.shp "nearest_xs" = [W]) (hny : st.shp "nearest_ys" = [W])
    (lnx : (st.ia "nearest_xs").length = W) (lny : (st.ia "nearest_ys").length = W) :
    let r := exec fuel resetNearest st
    r.ctl = .run ∧ Only ["nearest_xs", "nearest_ys"] [] st r ∧
    (r.ia "nearest_xs").length = W ∧ (r.ia "nearest_ys").length = W ∧
    ∀ q, q < W → (r.ia "nearest_xs").getD q 0 = -1 ∧ (r.ia "nearest_ys").getD q 0 = -1 :=
  reset2_exec "nearest_xs" "nearest_ys" (by decide) st fuel W hs hw hnx hny lnx lny

/-- `for i in range(width): line_proximity[i] = -1.0; nearest_xs[i] = -1; nearest_ys[i] = -1` -/
theorem resetLine_exec (st : State F) (fuel W : Nat) (hs : st.ctl = .run) (hw : st.ienv "width" = W)
    (hlp : st.shp "line_proximity" = [W]) (hnx : st.shp "nearest_xs" = [W]) (hny : st.shp "nearest_ys" = [W])
    (llp : (st.fa "line_proximity").length = W) (lnx : (st.ia "nearest_xs").length = W)
    (lny : (st.ia "nearest_ys").length = W) :
    let r := exec fuel resetLine st
    r.ctl = .run ∧ Only ["nearest_xs", "nearest_ys"] ["line_proximity"] st r ∧
    (r.fa "line_proximity").length = W ∧ (r.ia "nearest_xs").length = W ∧ (r.ia "nearest_ys").length = W ∧
    ∀ q, q < W → (r.fa "line_proximity").getD q Fl.nan = Fl.neg (Fl.lit 1 1) ∧
      (r.ia "nearest_xs").getD q 0 = -1 ∧ (r.ia "nearest_ys").getD q 0 = -1 := by
  exact forRange_up "i" (.var "width") resetLineBody st fuel W hs rfl (by simp [IE.eval, hw])
    (fun k r => Only ["nearest_xs", "nearest_ys"] ["line_proximity"] st r ∧
      (r.fa "line_proximity").length = W ∧ (r.ia "nearest_xs").length = W ∧ (r.ia "nearest_ys").length = W ∧
      ∀ q, q < k → (r.fa "line_proximity").getD q Fl.nan = Fl.neg (Fl.lit 1 1) ∧
        (r.ia "nearest_xs").getD q 0 = -1 ∧ (r.ia "nearest_ys").getD q 0 = -1)
    ⟨Only.refl _ _ st, llp, lnx, lny, fun q hq => absurd hq (Nat.not_lt_zero q)⟩
    (by
      intro k hk r hr ⟨fr, l0, l1, l2, hq⟩
      have e0 : r.shp "line_proximity" = [W] := by rw [fr.shp, hlp]
      have e1 : r.shp "nearest_xs" = [W] := by rw [fr.shp, hnx]
      have e2 : r.shp "nearest_ys" = [W] := by rw [fr.shp, hny]
      simp [resetLineBody, exec, exec_seq, hr, IE.ok, IE.eval, FE.ok, FE.eval, UnOp.eval, setS, e0, e1, e2,
        inRange_of_lt _ _ hk, off1_nat, afterBody]
      refine ⟨⟨fr.shp, fr.ext, ?_, fr.fenv, fr.benv, ?_, ?_⟩, l0, l1, l2, ?_⟩
      · intro v hv; simp [setS, hv, fr.ienv v hv]
      · intro x hx; simp at hx; simp [setS, hx, fr.ia x (by simp [hx])]
      · intro x hx; simp at hx; simp [setS, hx, fr.fa x (by simp [hx])]
      · intro q hq'
        by_cases hqk : k = q
        · subst hqk; simp [getD_set, l0, l1, l2, hk]
        · simp [getD_set_ne _ _ _ _ _ hqk]
          exact hq q (by omega))

/-- `for i in range(width): dst[i] = src[line][i]` (`dst` 1-D of width `W`, `src` 2-D `H × W`, `line = n < H`) -/
theorem readRow_exec (dst src : String) (hds : dst ≠ src) (st : State F) (fuel H W n : Nat) (hs : st.ctl = .run)
    (hw : st.ienv "width" = W) (hline : st.ienv "line" = n) (hn : n < H)
    (hd : st.shp dst = [W]) (hsrc : st.shp src = [H, W]) (ld : (st.fa dst).length = W) :
    let r := exec fuel (.forRange "i" (.lit 0) (.var "width") (.lit 1)
      (.stF1 dst (.var "i") (.ld2 src (.var "line") (.var "i")))) st
    r.ctl = .run ∧ Only [] [dst] st r ∧ (r.fa dst).length = W ∧
    ∀ q, q < W → (r.fa dst).getD q Fl.nan = (st.fa src).getD (n * W + q) Fl.nan := by
  exact forRange_up "i" (.var "width") (.stF1 dst (.var "i") (.ld2 src (.var "line") (.var "i"))) st fuel W
    hs rfl (by simp [IE.eval, hw])
    (fun k r => Only [] [dst] st r ∧ (r.fa dst).length = W ∧
      ∀ q, q < k → (r.fa dst).getD q Fl.nan = (st.fa src).getD (n * W + q) Fl.nan)
    ⟨Only.refl _ _ st, ld, fun q hq => absurd hq (Nat.not_lt_zero q)⟩
    (by
      intro k hk r hr ⟨fr, l0, hq⟩
      have e0 : r.shp dst = [W] := by rw [fr.shp, hd]
      have e1 : r.shp src = [H, W] := by rw [fr.shp, hsrc]
      have e2 : r.ienv "line" = n := by rw [fr.ienv _ (by decide), hline]
      have e3 : r.fa src = st.fa src := fr.fa src (by simp; exact fun e => hds e.symm)
      simp [exec, hr, IE.ok, IE.eval, FE.ok, FE.eval, setS, e0, e1, e2, e3,
        inRange_of_lt _ _ hk, inRange_of_lt _ _ hn, off1_nat, off2_nat, afterBody]
      refine ⟨⟨fr.shp, fr.ext, ?_, fr.fenv, fr.benv, fr.ia, ?_⟩, l0, ?_⟩
      · intro v hv; simp [setS, hv, fr.ienv v hv]
      · intro x hx; simp at hx; simp [setS, hx, fr.fa x (by simp [hx])]
      · intro q hq'
        by_cases hqk : k = q
        · subst hqk; simp [getD_set, l0, hk]
        · simp [getD_set_ne _ _ _ _ _ hqk]
          exact hq q (by omega))


/-- `for i in range(width): scan_line[i] = img[line][i]` -/
theorem readLine_exec (st : State F) (fuel H W n : Nat) (hs : st.ctl = .run)
    (hw : st.ienv "width" = W) (hline : st.ienv "line" = n) (hn : n < H)
    (hd : st.shp "scan_line" = [W]) (hsrc : st.shp "img" = [H, W]) (ld : (st.fa "scan_line").length = W) :
    let r := exec fuel readLine st
    r.ctl = .run ∧ Only [] ["scan_line"] st r ∧ (r.fa "scan_line").length = W ∧
    ∀ q, q < W → (r.fa "scan_line").getD q Fl.nan = (st.fa "img").getD (n * W + q) Fl.nan :=
  readRow_exec "scan_line" "img" (by decide) st fuel H W n hs hw hline hn hd hsrc ld

/-- `for i in range(width): line_proximity[i] = img_distance[line][i]` -/
theorem readDistance_exec (st : State F) (fuel H W n : Nat) (hs : st.ctl = .run)
    (hw : st.ienv "width" = W) (hline : st.ienv "line" = n) (hn : n < H)
    (hd : st.shp "line_proximity" = [W]) (hsrc : st.shp "img_distance" = [H, W]) (ld : (st.fa "line_proximity").length = W) :
    let r := exec fuel readDistance st
    r.ctl = .run ∧ Only [] ["line_proximity"] st r ∧ (r.fa "line_proximity").length = W ∧
    ∀ q, q < W → (r.fa "line_proximity").getD q Fl.nan = (st.fa "img_distance").getD (n * W + q) Fl.nan :=
  readRow_exec "line_proximity" "img_distance" (by decide) st fuel H W n hs hw hline hn hd hsrc ld

/-- `for i in range(width): img_distance[line][i] = line_proximity[i]` -/
theorem storeDistance_exec (st : State F) (fuel H W n : Nat) (hs : st.ctl = .run)
    (hw : st.ienv "width" = W) (hline : st.ienv "line" = n) (hn : n < H)
    (hlp : st.shp "line_proximity" = [W]) (hdist : st.shp "img_distance" = [H, W])
    (ld : (st.fa "img_distance").length = H * W) :
    let r := exec fuel storeDistance st
    r.ctl = .run ∧ Only [] ["img_distance"] st r ∧ (r.fa "img_distance").length = H * W ∧
    (∀ q, q < W → (r.fa "img_distance").getD (n * W + q) Fl.nan = (st.fa "line_proximity").getD q Fl.nan) ∧
    (∀ j, (j < n * W ∨ n * W + W ≤ j) → (r.fa "img_distance").getD j Fl.nan = (st.fa "img_distance").getD j Fl.nan) := by
  have hnW : n * W + W ≤ H * W := by
    have : (n + 1) * W ≤ H * W := Nat.mul_le_mul_right W hn
    simpa [Nat.add_mul] using this
  exact forRange_up "i" (.var "width") storeDistanceBody st fuel W hs rfl (by simp [IE.eval, hw])
    (fun k r => Only [] ["img_distance"] st r ∧ (r.fa "img_distance").length = H * W ∧
      (∀ q, q < k → (r.fa "img_distance").getD (n * W + q) Fl.nan = (st.fa "line_proximity").getD q Fl.nan) ∧
      (∀ j, (j < n * W ∨ n * W + k ≤ j) → (r.fa "img_distance").getD j Fl.nan = (st.fa "img_distance").getD j Fl.nan))
    ⟨Only.refl _ _ st, ld, fun q hq => absurd hq (Nat.not_lt_zero q), fun _ _ => rfl⟩
    (by
      intro k hk r hr ⟨fr, l0, hq, hj⟩
      have e0 : r.shp "line_proximity" = [W] := by rw [fr.shp, hlp]
      have e1 : r.shp "img_distance" = [H, W] := by rw [fr.shp, hdist]
      have e2 : r.ienv "line" = n := by rw [fr.ienv _ (by decide), hline]
      have e3 : r.fa "line_proximity" = st.fa "line_proximity" := fr.fa _ (by decide)
      simp [storeDistanceBody, exec, hr, IE.ok, IE.eval, FE.ok, FE.eval, setS, e0, e1, e2, e3,
        inRange_of_lt _ _ hk, inRange_of_lt _ _ hn, off1_nat, off2_nat, afterBody]
      refine ⟨⟨fr.shp, fr.ext, ?_, fr.fenv, fr.benv, fr.ia, ?_⟩, l0, ?_, ?_⟩
      · intro v hv; simp [setS, hv, fr.ienv v hv]
      · intro x hx; simp at hx; simp [setS, hx, fr.fa x (by simp [hx])]
      · intro q hq'
        by_cases hqk : k = q
        · subst hqk
          have : n * W + k < H * W := by omega
          simp [getD_set, l0, this]
        · rw [getD_set_ne _ _ _ _ _ (by omega)]
          exact hq q (by omega)
      · intro j hj'
        rw [getD_set_ne _ _ _ _ _ (by omega)]
        exact hj j (by omega))

end XrsVerif.IL.Px
