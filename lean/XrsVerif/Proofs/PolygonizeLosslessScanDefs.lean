import XrsVerif.Proofs.PolygonizeLosslessFollow
import XrsVerif.Proofs.PolygonizeLosslessParity
/-
  C15, losslessness: the invariant of `_scan` (definitions and small lemmas).

  Ghost data: `cyc r` = the cycles of boundary-edge states followed so far for region `r` (exterior first),
  `fs r` = the first pixel of region `r`.  `ScanInv ks kc st cyc fs`: the polygons are the rings of the
  cycles, the column holds the values of the first pixels, `regionDone` bounds the ids of the pixels
  `< ks`, every followed region is `GoodReg` (cycles closed, pairwise disjoint, duplicate free, the first one
  through the S edge of the first pixel), `v2` holds exactly the pixels above the followed W-headed states,
  and every hole-start candidate `< kc` is flagged.
  Core Lean only.
-/
set_option linter.unusedVariables false
namespace XrsVerif.Polygonize

/-- E-headed / W-headed state of the pixel with flat index `p` -/
def Est (nx p : Nat) : FSt := ⟨(p % nx : Nat), (p / nx : Nat), .E⟩
def Wst (nx p : Nat) : FSt := ⟨(p % nx : Nat), (p / nx : Nat), .W⟩

/-- a followed cycle: a closed list `start, step start, …` that returns to its start -/
def IsCyc (R : Int → Int → Bool) (c : List FSt) : Prop :=
  Closed R c ∧ ∃ m start, 1 ≤ m ∧ c = orbitL (step R) m start ∧ iterS (step R) m start = start

theorem closed_flatten {R : Int → Int → Bool} : ∀ (cs : List (List FSt)), (∀ c ∈ cs, Closed R c) → Closed R cs.flatten := by
  intro cs
  induction cs with
  | nil => intro _; exact Closed.nil R
  | cons c cs ih =>
    intro h
    rw [List.flatten_cons]
    exact (h c List.mem_cons_self).append (ih fun c' hc' => h c' (List.mem_cons_of_mem _ hc'))

/-- what `_scan` has established about a followed region `r` with first pixel `f` and cycles `cs` -/
structure GoodReg (nx ny : Nat) (regs : Nat → Nat) (r f : Nat) (cs : List (List FSt)) : Prop where
  inr : f < nx * ny
  reg : regs f = r
  first : ∀ p, p < f → regs p ≠ r
  head : ∃ c0 rest, cs = c0 :: rest ∧ Est nx f ∈ c0 ∧
    ∀ c ∈ rest, ∃ q, nx ≤ q ∧ q < nx * ny ∧ regs q ≠ r ∧ Wst nx (q - nx) ∈ c
  cyc : ∀ c ∈ cs, IsCyc (inRegion nx ny regs r) c
  nodup : cs.flatten.Nodup

structure ScanInv {V : Type} (nx ny : Nat) (regs : Nat → Nat) (values : Nat → V) (ks kc : Nat) (st : Scan V)
    (cyc : Nat → List (List FSt)) (fs : Nat → Nat) : Prop where
  ok : st.ok = true
  polys : st.polys = (List.range st.regionDone).map (fun i => (cyc (i + 1)).map cycRing)
  col : st.column = ((List.range st.regionDone).map (fun i => values (fs (i + 1)))).reverse
  seen : ∀ p, p < ks → regs p ≤ st.regionDone
  good : ∀ r, 1 ≤ r → r ≤ st.regionDone → GoodReg nx ny regs r (fs r) (cyc r) ∧ fs r < ks
  v2 : ∀ q, q ∈ st.v2 ↔ nx ≤ q ∧ q < nx * ny ∧ 1 ≤ regs (q - nx) ∧ regs (q - nx) ≤ st.regionDone ∧
        Wst nx (q - nx) ∈ (cyc (regs (q - nx))).flatten
  v1 : ∀ q, q ∈ st.v1 → 1 ≤ regs q ∧ regs q ≤ st.regionDone
  cov : ∀ q, nx ≤ q → q < kc → regs q ≠ regs (q - nx) → regs (q - nx) ≠ 0 → q ∈ st.v2

/-- the exterior half of `scanStep` -/
def extPart {V : Type} (nx ny : Nat) (regs : Nat → Nat) (values : Nat → V) (st : Scan V) (ij : Nat) : Scan V :=
  if !(st.v1.contains ij) && regs ij == st.regionDone + 1 then
    match follow nx ny regs ij false with
    | none => { st with ok := false }
    | some tr => { st with v1 := tr.v1 ++ st.v1, v2 := tr.v2 ++ st.v2, regionDone := regs ij,
                           column := values ij :: st.column, polys := st.polys ++ [[tr.pts]] }
  else st

/-- the hole half of `scanStep` -/
def holePart {V : Type} (nx ny : Nat) (regs : Nat → Nat) (st1 : Scan V) (ij : Nat) : Scan V :=
  if decide (nx ≤ ij) && !(st1.v2.contains ij) && regs ij != regs (ij - nx) && regs (ij - nx) != 0 then
    match follow nx ny regs (ij - nx) true with
    | none => { st1 with ok := false }
    | some tr =>
      let region := regs (ij - nx)
      { st1 with v1 := tr.v1 ++ st1.v1, v2 := tr.v2 ++ st1.v2,
                 polys := appendAt st1.polys (region - 1) tr.pts,
                 ok := st1.ok && decide (region - 1 < st1.polys.length) }
  else st1

theorem scanStep_eq {V : Type} (nx ny : Nat) (regs : Nat → Nat) (values : Nat → V) (st : Scan V) (ij : Nat) :
    scanStep nx ny regs values st ij = holePart nx ny regs (extPart nx ny regs values st ij) ij := rfl

/-- a state of the region in coordinates -/
theorem state_coords {nx ny : Nat} {regs : Nat → Nat} {r : Nat} {s : FSt}
    (hs : inRegion nx ny regs r s.x s.y = true) :
    s.x = ((s.idx nx % nx : Nat) : Int) ∧ s.y = ((s.idx nx / nx : Nat) : Int) ∧ s.idx nx < nx * ny ∧
      regs (s.idx nx) = r := by
  obtain ⟨h0, h1, h2, h3⟩ := inRegion_inRaster nx ny regs r _ _ hs
  obtain ⟨x, y, d⟩ := s
  simp only at h0 h1 h2 h3 hs ⊢
  obtain ⟨X, rfl⟩ := Int.eq_ofNat_of_zero_le h0
  obtain ⟨Y, rfl⟩ := Int.eq_ofNat_of_zero_le h2
  have hX : X < nx := by omega
  have hY : Y < ny := by omega
  obtain ⟨_, _, hr⟩ := (inRegion_nat nx ny regs r X Y).mp hs
  simp only [FSt.idx, flat_xy]
  have := xy_of X Y hX
  rw [this.1, this.2]
  refine ⟨rfl, rfl, ?_, hr⟩
  have : (Y + 1) * nx ≤ ny * nx := Nat.mul_le_mul_right nx hY
  rw [Nat.add_mul, Nat.mul_comm ny nx] at this; omega

/-- the pixels flagged in `v2` by a cycle of region `r` -/
theorem trv2_iff {nx ny : Nat} (hnx : 0 < nx) {regs : Nat → Nat} {r : Nat} {c : List FSt}
    (hc : ∀ s ∈ c, Valid (inRegion nx ny regs r) s) (q : Nat) :
    (∃ s ∈ c, s.d = .W ∧ q = s.idx nx + nx ∧ q < nx * ny) ↔
      (nx ≤ q ∧ q < nx * ny ∧ regs (q - nx) = r ∧ Wst nx (q - nx) ∈ c) := by
  constructor
  · rintro ⟨s, hs, hd, hq, hn⟩
    obtain ⟨e1, e2, e3, e4⟩ := state_coords (hc s hs).1
    have hsub : q - nx = s.idx nx := by omega
    refine ⟨by omega, hn, by rw [hsub]; exact e4, ?_⟩
    rw [hsub]
    have : Wst nx (s.idx nx) = s := by
      obtain ⟨x, y, d⟩ := s
      simp only at hd e1 e2
      simp only [Wst]; rw [← e1, ← e2, hd]
    rw [this]; exact hs
  · rintro ⟨h1, h2, h3, h4⟩
    refine ⟨Wst nx (q - nx), h4, rfl, ?_, h2⟩
    simp only [Wst, FSt.idx, flat_xy, decode_ij]
    omega

theorem modify_range_map {β : Type} (n i : Nat) (f : Nat → β) (g : β → β) :
    ((List.range n).map f).modify i g = (List.range n).map (fun j => if j = i then g (f j) else f j) := by
  apply List.ext_getElem?
  intro j
  rw [List.getElem?_modify, List.getElem?_map, List.getElem?_map]
  by_cases hj : j < n
  · rw [List.getElem?_range hj]
    simp only [Option.map_some, Option.map_eq_map]
    by_cases hji : i = j
    · subst hji; simp
    · simp [hji, Ne.symm hji]
  · rw [List.getElem?_eq_none (by simpa using hj)]
    simp

end XrsVerif.Polygonize
