import XrsVerif.Proofs.KSimp
import XrsVerif.Gen.Kernels
/-!
  C05 helper lemmas, part 6: symbolic evaluation of the generated `_get_vertical_ang`
  (`Gen.viewshed_vertical_ang`) in its three branches.
-/
set_option linter.unusedSectionVars false
set_option linter.unusedVariables false
namespace XrsVerif.Viewshed
open XrsVerif

variable {K : Type} [Field K] [LinearOrder K] [IsStrictOrderedRing K] [Trig K]

/-- the value `_get_vertical_ang(viewpoint_elev, dist², elev)` stores for a visible cell -/
def vertAng (ve d2 e : K) : NV K :=
  Gen.viewshed_vertical_ang.cell
    (envOf [("viewpoint_elev", some ve), ("distance_to_viewpoint", some d2), ("elev", some e)]) (rd0 []) (fun _ => [])

def vertAngFailed (ve d2 e : K) : Option String :=
  Gen.viewshed_vertical_ang.cellFailed
    (envOf [("viewpoint_elev", some ve), ("distance_to_viewpoint", some d2), ("elev", some e)]) (rd0 []) (fun _ => [])

theorem vertAng_below (ve d2 e : K) (hd : 0 < d2) (hlt : e < ve) (hpi : (4 : K) * Trig.atan 1 ≠ 0) :
    vertAng ve d2 e = some (Trig.atan (Trig.sqrt d2 / (ve - e)) * 180 / (4 * Trig.atan 1)) := by
  unfold vertAng
  have hne : d2 ≠ 0 := ne_of_gt hd
  have h0 : ve - e ≠ 0 := ne_of_gt (sub_pos.mpr hlt)
  ksimp [Gen.viewshed_vertical_ang, hne, h0, hlt, hpi]

theorem vertAng_level (ve d2 : K) (hd : 0 < d2) : vertAng ve d2 ve = some 90 := by
  unfold vertAng
  have hne : d2 ≠ 0 := ne_of_gt hd
  ksimp [Gen.viewshed_vertical_ang, hne]

theorem vertAng_above (ve d2 e : K) (hd : 0 < d2) (hgt : ve < e) (hpi : (4 : K) * Trig.atan 1 ≠ 0)
    (hs : Trig.sqrt d2 ≠ 0) :
    vertAng ve d2 e = some (Trig.atan (|ve - e| / Trig.sqrt d2) * 180 / (4 * Trig.atan 1) + 90) := by
  unfold vertAng
  have hne : d2 ≠ 0 := ne_of_gt hd
  have h0 : ve - e ≠ 0 := ne_of_lt (sub_neg.mpr hgt)
  have h1 : ¬ e < ve := not_lt_of_gt hgt
  ksimp [Gen.viewshed_vertical_ang, hne, h0, h1, hpi, hs]

theorem vertAng_not_failed (ve d2 e : K) (hd : 0 < d2) : vertAngFailed ve d2 e = none := by
  unfold vertAngFailed
  have hne : d2 ≠ 0 := ne_of_gt hd
  rcases lt_trichotomy e ve with hlt | rfl | hgt
  · have h0 : ve - e ≠ 0 := ne_of_gt (sub_pos.mpr hlt)
    ksimp [Gen.viewshed_vertical_ang, hne, h0, hlt]
  · ksimp [Gen.viewshed_vertical_ang, hne]
  · have h0 : ve - e ≠ 0 := ne_of_lt (sub_neg.mpr hgt)
    have h1 : ¬ e < ve := not_lt_of_gt hgt
    ksimp [Gen.viewshed_vertical_ang, hne, h0, h1]

end XrsVerif.Viewshed
