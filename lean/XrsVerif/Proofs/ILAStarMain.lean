import XrsVerif.Proofs.ILAStarIter
/-
  Proofs/ILAStarMain.lean -- the main loop and the whole of the generated `_a_star_search`:

  * `anyOpen_iff_sum`: `np.sum(is_open) > 0` is the model's `anyOpen`;
  * `main_loop`: by induction on the model's fuel, `while num_open > 0: ...` follows `AStar.loop`: when the model
    finds the goal the program returns with the chain of the parent walk written into `path_img`; when the model's
    open list runs empty the program leaves the loop with `path_img` untouched;
  * `init_exec`: the statements before the loop establish the abstraction of `AStar.init`;
  * `aStarSearch_refines`: `Gen.IL.aStarSearch` computes `AStar.search` (on every input on which the model does not
    report the `(NONE, NONE)` anomaly of `_min_cost_pixel_id`).
-/
namespace XrsVerif.IL
open XrsVerif XrsVerif.AStar
variable {F : Type} [Fl F]
set_option linter.unusedSectionVars false
set_option linter.unusedVariables false
set_option linter.unusedSimpArgs false

theorem foldl_add_init (l : List Int) (a : Int) : l.foldl (· + ·) a = a + l.foldl (· + ·) 0 := by
  induction l generalizing a with
  | nil => simp
  | cons x l ih => simp only [List.foldl_cons]; rw [ih (a + x), ih (0 + x)]; omega

theorem sumI_cons (x : Int) (l : List Int) : sumI (x :: l) = x + sumI l := by
  unfold sumI; simp only [List.foldl_cons]; rw [foldl_add_init]; omega

theorem sumI_01 (l : List Int) (hl : ∀ x ∈ l, x = 0 ∨ x = 1) :
    0 ≤ sumI l ∧ (0 < sumI l ↔ ∃ x ∈ l, x = 1) := by
  induction l with
  | nil => simp [sumI]
  | cons x l ih =>
    have ih' := ih (fun y hy => hl y (by simp [hy]))
    rw [sumI_cons]
    rcases hl x (by simp) with hx | hx
    · subst hx
      refine ⟨by omega, ?_⟩
      simp only [Int.zero_add, ih'.2, List.mem_cons, exists_eq_or_imp]
      simp
    · subst hx
      refine ⟨by omega, ?_⟩
      constructor
      · intro _; exact ⟨1, by simp, rfl⟩
      · intro _; omega

/-- `np.sum(is_open) > 0` is the model's `anyOpen` -/
theorem anyOpen_iff_sum {e : Env F} {s : State F} {mst : AStar.St F} (ha : SrchAbs e s mst) :
    anyOpen e mst = true ↔ 0 < sumI (s.ia "is_open") := by
  rw [(sumI_01 _ ha.open01).2]
  unfold anyOpen
  rw [List.any_eq_true]
  constructor
  · rintro ⟨c, hc, ho⟩
    have hin := mem_cells.1 hc
    rw [ha.isOpen c hin] at ho
    simp only [ne_eq, decide_eq_true_eq] at ho
    have hlt : cidx e.w c < (s.ia "is_open").length := by rw [ha.l_open]; exact cidx_lt _ _ _ hin
    have hg : (s.ia "is_open").getD (cidx e.w c) 0 = (s.ia "is_open")[cidx e.w c] := by
      simp [List.getD_eq_getElem?_getD, hlt]
    have hm : (s.ia "is_open")[cidx e.w c] ∈ s.ia "is_open" := List.getElem_mem hlt
    refine ⟨_, hm, ?_⟩
    rcases ha.open01 _ hm with h0 | h1
    · rw [hg] at ho; exact absurd h0 ho
    · exact h1
  · rintro ⟨x, hx, rfl⟩
    obtain ⟨k, hk, hkx⟩ := List.getElem_of_mem hx
    rw [ha.l_open] at hk
    have hw : 0 < e.w := by
      rcases Nat.eq_zero_or_pos e.w with h0 | h0
      · rw [h0] at hk; simp at hk
      · exact h0
    have hkd : k / e.w < e.h := by
      rw [Nat.div_lt_iff_lt_mul hw]; exact hk
    have hkm : k % e.w < e.w := Nat.mod_lt _ hw
    have hin : inside e.h e.w (((k / e.w : Nat) : Int), ((k % e.w : Nat) : Int)) = true :=
      inside_nat _ _ _ _ hkd hkm
    refine ⟨_, mem_cells.2 hin, ?_⟩
    rw [ha.isOpen _ hin, cidx_nat]
    have : k / e.w * e.w + k % e.w = k := by rw [Nat.mul_comm]; exact Nat.div_add_mod k e.w
    rw [this]
    have hlt : k < (s.ia "is_open").length := by rw [ha.l_open]; exact hk
    simp [List.getD_eq_getElem?_getD, hlt, hkx]

/-- what the loop is entered with: constants, abstraction of `mst`, `num_open` counted -/
structure LoopInv (e : Env F) (s : State F) (mst : AStar.St F) : Prop where
  run : s.ctl = .run
  const : SrchConst e s
  abs : SrchAbs e s mst
  num : s.ienv "num_open" = sumI (s.ia "is_open")

theorem mainLoop_cond {e : Env F} {s : State F} {mst : AStar.St F} (hl : LoopInv e s mst) :
    (BE.cmpI .gt (.var "num_open") (.lit 0)).ok s = true ∧
    (BE.cmpI .gt (.var "num_open") (.lit 0)).eval s = anyOpen e mst := by
  refine ⟨by simp [BE.ok, IE.ok], ?_⟩
  simp only [BE.eval, IE.eval, cmpInt, hl.num]
  by_cases h : anyOpen e mst = true
  · rw [h]; simpa using (anyOpen_iff_sum hl.abs).1 h
  · have : ¬ 0 < sumI (s.ia "is_open") := fun h' => h ((anyOpen_iff_sum hl.abs).2 h')
    simp only [Bool.not_eq_true] at h
    rw [h]; simpa using this

/-- **the main loop follows the model's `loop`** (induction on the model's fuel `n`; the program needs `n` units of
    `while` fuel for the iterations plus `h * w` for the parent walk of `_reconstruct_path`):
    * `loop e n mst = found st'`: the program returns, and for the chain of the model's parent walk (if it succeeds and
      stays in the raster) `path_img` received `g[c]` on exactly the cells of the chain, where the array `g`
      (`d_from_start`) holds `st'.g`;
    * `loop e n mst = exhausted st'`: the program leaves the loop normally and `path_img` is untouched. -/
theorem main_loop (e : Env F) : ∀ (n : Nat) (mst : AStar.St F) (s : State F) (fuel : Nat),
    LoopInv e s mst → n + e.h * e.w ≤ fuel →
    (∀ st', loop e n mst = .found st' → ∀ m chain, walk st'.parent e.start m e.goal = some chain →
      (∀ c ∈ chain, inside e.h e.w c = true) → chain.length ≤ e.h * e.w →
      (exec fuel mainLoop s).ctl = .ret ∧ ∃ g : List F,
        (∀ c, inside e.h e.w c = true → st'.g c = g.getD (cidx e.w c) Fl.nan) ∧
        (exec fuel mainLoop s).fa "path_img" = chainW g e.w (e.start :: chain.dropLast) (s.fa "path_img")) ∧
    (∀ st', loop e n mst = .exhausted st' →
      (exec fuel mainLoop s).ctl = .run ∧ (exec fuel mainLoop s).fa "path_img" = s.fa "path_img")
  | 0, mst, s, fuel, hl, hf => by simp [loop]
  | n + 1, mst, s, fuel, hl, hf => by
    obtain ⟨fuel, rfl⟩ : ∃ f, fuel = f + 1 := ⟨fuel - 1, by omega⟩
    obtain ⟨hok, hcond⟩ := mainLoop_cond hl
    unfold loop
    by_cases hany : anyOpen e mst = true
    swap
    · simp only [Bool.not_eq_true] at hany
      rw [hany] at hcond
      have hd : exec (fuel + 1) mainLoop s = s := exec_while_done fuel _ _ s hok hcond
      simp only [hany, Bool.not_false, if_true]
      refine ⟨(by intro st' h; cases h), ?_⟩
      intro st' _
      rw [hd]; exact ⟨hl.run, rfl⟩
    · rw [hany] at hcond
      simp only [hany, Bool.not_true, Bool.false_eq_true, if_false]
      cases hmin : minCostOpen e mst with
      | none => simp
      | some u =>
        simp only []
        by_cases hug : u = e.goal
        · subst hug
          simp only [if_true]
          refine ⟨?_, by intro st' h; cases h⟩
          intro st' hst' m chain hw hin hlen
          simp only [LoopEnd.found.injEq] at hst'
          subst hst'
          have hg := iter_goal e mst s hl.run hl.const hl.abs hmin fuel m chain hw hin (by omega)
          have hr : exec (fuel + 1) mainLoop s = exec fuel whileBody s :=
            exec_while_ret fuel _ _ s hok hcond hg.1
          rw [hr]
          exact ⟨hg.1, s.fa "d_from_start", fun c hc => hl.abs.g c hc, hg.2⟩
        · simp only [hug, if_false]
          have hx := iter_expand e mst s hl.run hl.const hl.abs u hmin hug fuel
          have hr : exec (fuel + 1) mainLoop s = exec fuel mainLoop (exec fuel whileBody s) :=
            exec_while_to hok hcond rfl hx.1
          have ih := main_loop e n (expand e mst u) (exec fuel whileBody s) fuel
            ⟨hx.1, hx.2.1, hx.2.2.1, hx.2.2.2.1⟩ (by omega)
          rw [hr, ← hx.2.2.2.2]
          exact ih

/-- well-formed inputs of `_a_star_search`, described by the environment `e` of the hand model -/
structure SrchIn (e : Env F) (s : State F) : Prop where
  ops : e.ops = flOps
  s_data : s.shp "data" = [e.h, e.w]
  s_bars : (s.shp "barriers").length = 1
  s_nys : s.shp "neighbor_ys" = [(s.ia "neighbor_ys").length]
  s_nxs : s.shp "neighbor_xs" = [(s.ia "neighbor_xs").length]
  s_path : s.shp "path_img" = [e.h, e.w]
  nbrs : e.nbrs = (s.ia "neighbor_ys").zip (s.ia "neighbor_xs")
  cross : ∀ c, inside e.h e.w c = true →
    e.cross c = !notCross ((s.fa "data").getD (cidx e.w c) Fl.nan) (s.fa "barriers")
  gy : s.ienv "goal_py" = e.goal.1
  gx : s.ienv "goal_px" = e.goal.2
  sy : s.ienv "start_py" = e.start.1
  sx : s.ienv "start_px" = e.start.2
  start_in : inside e.h e.w e.start = true

theorem getD_replicate_lt {α} (n k : Nat) (x d : α) (h : k < n) : (List.replicate n x).getD k d = x := by
  simp [List.getD_eq_getElem?_getD, h]

theorem replicate_01 (n : Nat) : ∀ x ∈ List.replicate n (0 : Int), x = 0 ∨ x = 1 := by
  intro x hx; exact Or.inl (List.eq_of_mem_replicate hx)

/-- the arrays after the statements before the loop represent the model's `init` -/
theorem SrchAbs.init {e : Env F} {r : State F} (hops : e.ops = flOps) (hstart : inside e.h e.w e.start = true)
    (h1 : r.ia "is_open" = if e.cross e.start = true then (List.replicate (e.h * e.w) 0).set (cidx e.w e.start) 1
      else List.replicate (e.h * e.w) 0)
    (h2 : r.ia "is_closed" = List.replicate (e.h * e.w) 0)
    (h3 : r.ia "parent_ys" = (List.replicate (e.h * e.w) (-1)).set (cidx e.w e.start) e.start.1)
    (h4 : r.ia "parent_xs" = (List.replicate (e.h * e.w) (-1)).set (cidx e.w e.start) e.start.2)
    (h5 : r.fa "d_from_start" = if e.cross e.start = true then
      (List.replicate (e.h * e.w) (Fl.lit 0 1)).set (cidx e.w e.start) (Fl.lit 0 1)
      else List.replicate (e.h * e.w) (Fl.lit 0 1))
    (h6 : r.fa "cost" = if e.cross e.start = true then
      (List.replicate (e.h * e.w) (Fl.lit 0 1)).set (cidx e.w e.start)
        (Fl.add (Fl.lit 0 1) (flDist e.start e.goal))
      else List.replicate (e.h * e.w) (Fl.lit 0 1)) :
    SrchAbs e r (AStar.init e) := by
  have hs' := (inside_iff e.h e.w e.start).1 hstart
  have hlr : ∀ {α} (x : α), (List.replicate (e.h * e.w) x).length = e.h * e.w := fun x => List.length_replicate
  have hpar : ∀ c, inside e.h e.w c = true →
      (upd (fun _ => none) e.start (some e.start) : Cell → Option Cell) c =
        parentOf (r.ia "parent_ys") (r.ia "parent_xs") e.w c := by
    intro c hc
    rw [h3, h4]
    unfold parentOf
    rw [getD_set_cell e.h e.w _ (hlr _) e.start c hstart hc, getD_set_cell e.h e.w _ (hlr _) e.start c hstart hc,
      getD_replicate_lt _ _ _ _ (cidx_lt _ _ _ hc)]
    simp only [upd]
    split
    · have a1 : e.start.1 ≠ -1 := by omega
      have a2 : e.start.2 ≠ -1 := by omega
      simp [a1, a2]
    · simp
  have hps : parentOf (r.ia "parent_ys") (r.ia "parent_xs") e.w e.start ≠ none := by
    rw [← hpar _ hstart]; simp [upd]
  unfold AStar.init
  by_cases hcr : e.cross e.start = true
  · simp only [hcr, if_true] at h1 h5 h6 ⊢
    refine ⟨by rw [h1]; simp, by rw [h2]; simp, by rw [h5]; simp, by rw [h6]; simp, by rw [h3]; simp,
      by rw [h4]; simp, by rw [h1]; exact mem_set_01 _ _ _ (Or.inr rfl) (replicate_01 _), ?_, ?_, ?_, ?_, hpar, hps⟩
    · intro c hc
      rw [h1, getD_set_cell e.h e.w _ (hlr _) e.start c hstart hc, getD_replicate_lt _ _ _ _ (cidx_lt _ _ _ hc)]
      simp only [upd]; split <;> simp
    · intro c hc
      rw [h2, getD_replicate_lt _ _ _ _ (cidx_lt _ _ _ hc)]; simp
    · intro c hc
      rw [h5, getD_set_cell e.h e.w _ (hlr _) e.start c hstart hc, getD_replicate_lt _ _ _ _ (cidx_lt _ _ _ hc),
        hops]
      try simp [flOps]
    · intro c hc
      rw [h6, getD_set_cell e.h e.w _ (hlr _) e.start c hstart hc, getD_replicate_lt _ _ _ _ (cidx_lt _ _ _ hc),
        hops]
      simp only [upd, flOps]
  · simp only [hcr, if_false, Bool.false_eq_true] at h1 h5 h6 ⊢
    refine ⟨by rw [h1]; simp, by rw [h2]; simp, by rw [h5]; simp, by rw [h6]; simp, by rw [h3]; simp,
      by rw [h4]; simp, by rw [h1]; exact replicate_01 _, ?_, ?_, ?_, ?_, hpar, hps⟩
    · intro c hc
      rw [h1, getD_replicate_lt _ _ _ _ (cidx_lt _ _ _ hc)]; simp
    · intro c hc
      rw [h2, getD_replicate_lt _ _ _ _ (cidx_lt _ _ _ hc)]; simp
    · intro c hc
      rw [h5, getD_replicate_lt _ _ _ _ (cidx_lt _ _ _ hc), hops]; rfl
    · intro c hc
      rw [h6, getD_replicate_lt _ _ _ _ (cidx_lt _ _ _ hc), hops]; rfl

/-- the state after the allocations at the top of `_a_star_search` -/
def initA (e : Env F) (s : State F) : State F :=
  { s with
    ienv := setS (setS s.ienv "height" (e.h : Int)) "width" (e.w : Int),
    ia :=
      setS (setS (setS (setS (setS (setS s.ia "parent_ys" (List.replicate (e.h * e.w) (-1))) "parent_xs"
        (List.replicate (e.h * e.w) (-1)))
        "parent_ys" ((List.replicate (e.h * e.w) (-1)).set (cidx e.w e.start) e.start.1))
        "parent_xs" ((List.replicate (e.h * e.w) (-1)).set (cidx e.w e.start) e.start.2))
        "is_open" (List.replicate (e.h * e.w) 0)) "is_closed" (List.replicate (e.h * e.w) 0),
    fa := setS (setS s.fa "d_from_start" (List.replicate (e.h * e.w) (Fl.lit 0 1))) "cost"
        (List.replicate (e.h * e.w) (Fl.lit 0 1)),
    shp := setS (setS (setS (setS (setS (setS s.shp "parent_ys" [e.h, e.w]) "parent_xs" [e.h, e.w])
        "d_from_start" [e.h, e.w]) "cost" [e.h, e.w]) "is_open" [e.h, e.w]) "is_closed" [e.h, e.w],
    ctl := .run }

theorem SrchConst.of_in {e : Env F} {s r : State F} (hi : SrchIn e s) (hshp : r.shp = (initA e s).shp)
    (hd : r.fa "data" = s.fa "data") (hb : r.fa "barriers" = s.fa "barriers")
    (hn1 : r.ia "neighbor_ys" = s.ia "neighbor_ys") (hn2 : r.ia "neighbor_xs" = s.ia "neighbor_xs")
    (h1 : r.ienv "height" = (e.h : Int)) (h2 : r.ienv "width" = (e.w : Int))
    (h3 : r.ienv "goal_py" = s.ienv "goal_py") (h4 : r.ienv "goal_px" = s.ienv "goal_px")
    (h5 : r.ienv "start_py" = s.ienv "start_py") (h6 : r.ienv "start_px" = s.ienv "start_px") : SrchConst e r :=
  ⟨hi.ops, by rw [hshp]; simp [initA, setS_apply, hi.s_data], by rw [hshp]; simp [initA, setS_apply, hi.s_bars],
   by rw [hshp, hn1]; simp [initA, setS_apply, hi.s_nys], by rw [hshp, hn2]; simp [initA, setS_apply, hi.s_nxs],
   by rw [hshp]; simp [initA, setS_apply], by rw [hshp]; simp [initA, setS_apply],
   by rw [hshp]; simp [initA, setS_apply], by rw [hshp]; simp [initA, setS_apply],
   by rw [hshp]; simp [initA, setS_apply], by rw [hshp]; simp [initA, setS_apply],
   by rw [hshp]; simp [initA, setS_apply, hi.s_path], by rw [hn1, hn2]; exact hi.nbrs,
   by rw [hd, hb]; exact hi.cross, h1, h2, by rw [h3]; exact hi.gy, by rw [h4]; exact hi.gx,
   by rw [h5]; exact hi.sy, by rw [h6]; exact hi.sx, hi.start_in⟩

/-- **the statements before the loop establish the model's `init`** -/
theorem init_exec (e : Env F) (s : State F) (hs : s.ctl = .run) (hi : SrchIn e s) (fuel : Nat) :
    ∃ s0 : State F, exec fuel searchSt s = exec fuel searchTail s0 ∧ LoopInv e s0 (AStar.init e) ∧
      s0.fa "path_img" = s.fa "path_img" := by
  have hsi := (inside_iff e.h e.w e.start).1 hi.start_in
  have r1 : inRange e.start.1 e.h = true := inRange_inside hsi.1 hsi.2.1
  have r2 : inRange e.start.2 e.w = true := inRange_inside hsi.2.2.1 hsi.2.2.2
  have ho := off2_inside e.h e.w e.start hi.start_in
  have hlt : cidx e.w e.start < e.h * e.w := cidx_lt _ _ _ hi.start_in
  have hA : exec fuel searchSt s = exec fuel searchB (initA e s) := by
    ilsimp [searchSt, initA, hs, hi.s_data, hi.sy, hi.sx, r1, r2, ho]
  have hcr := hi.cross _ hi.start_in
  generalize hdv : (s.fa "data").getD (cidx e.w e.start) Fl.nan = dv at hcr
  let sB : State F := { initA e s with fenv := setS (initA e s).fenv "_is_not_crossable1$cell_value" dv }
  obtain ⟨z, hz⟩ := nc_scope "_is_not_crossable1$cell_value" "_is_not_crossable1$i" "_is_not_crossable1$ret0"
    (by decide) fuel sB rfl (by simp [sB, initA, setS_apply, hi.s_bars])
  let sC : State F :=
    { sB with
      benv := setS sB.benv "_is_not_crossable1$ret0"
        (notCross (sB.fenv "_is_not_crossable1$cell_value") (sB.fa "barriers")),
      fenv := setS sB.fenv "_is_not_crossable1$i" z }
  have hz' : exec fuel (.scope (ncSt "_is_not_crossable1$cell_value" "_is_not_crossable1$i"
      "_is_not_crossable1$ret0")) sB = sC := hz
  have hB : exec fuel searchB (initA e s) = exec fuel searchC sC := by
    rw [searchB, exec_seq_to (s1 := sB) (by ilsimp [sB, initA, hi.s_data, hi.sy, hi.sx, r1, r2, ho, hdv]) rfl,
      exec_seq_to hz' rfl]
  rw [hA, hB]
  by_cases hbar : notCross dv (s.fa "barriers") = true
  · have hcf : e.cross e.start = false := by rw [hcr, hbar]; rfl
    ilsimp [searchC, initOpen, sC, sB, initA, hbar]
    refine ⟨_, rfl, ⟨rfl, SrchConst.of_in hi ?_ ?_ ?_ ?_ ?_ ?_ ?_ ?_ ?_ ?_ ?_,
      SrchAbs.init hi.ops hi.start_in ?_ ?_ ?_ ?_ ?_ ?_, ?_⟩, ?_⟩
    all_goals simp [initA, setS_apply, hcf, sumI]
  · have hct : e.cross e.start = true := by rw [hcr]; simp [hbar]
    have hlt' : cidx e.w e.start < (List.replicate (e.h * e.w) (Fl.lit 0 1 : F)).length := by simpa using hlt
    ilsimp [searchC, initOpen, sC, sB, initA, hbar, r1, r2, ho, hi.sy, hi.sx, hi.gy, hi.gx,
      getD_set_same _ _ _ _ hlt', getD_replicate_lt _ _ _ _ hlt]
    refine ⟨_, rfl, ⟨rfl, SrchConst.of_in hi ?_ ?_ ?_ ?_ ?_ ?_ ?_ ?_ ?_ ?_ ?_,
      SrchAbs.init hi.ops hi.start_in ?_ ?_ ?_ ?_ ?_ ?_, ?_⟩, ?_⟩
    all_goals simp [initA, setS_apply, hct, sumI, flDist, sqDist, getD_replicate_lt _ _ _ _ hlt]

theorem walk_length_le {par : Cell → Option Cell} {s : Cell} :
    ∀ {n : Nat} {c : Cell} {l : List Cell}, walk par s n c = some l → l.length ≤ n
  | 0, _, _, h => by simp [walk] at h
  | n + 1, c, l, h => by
    simp only [walk] at h
    split at h
    · simp at h; subst h; simp
    · split at h
      · simp at h
      · simp only [Option.map_eq_some_iff] at h
        obtain ⟨t, ht, rfl⟩ := h
        have := walk_length_le ht
        simp; omega

/-- **`Gen.IL.aStarSearch` computes the hand model `AStar.search`.**  For well-formed inputs (`SrchIn`: `data` and
    `path_img` are `h × w`, the start cell lies in the raster, `e` is the model environment the arrays describe) and
    enough `while` fuel:
    * if the model returns `path chain g` (and the chain lies in the raster, which `C14.path_is_chain` proves), the
      program returns and has written `g c` into `path_img[c]` for exactly the cells `c` of the chain;
    * if the model returns `noPath`, the program returns with `path_img` untouched;
    * nothing is claimed when the model reports the anomaly of `_min_cost_pixel_id` returning `(NONE, NONE)` while a
      cell is open (the program then indexes `[-1][-1]`; excluded for exact costs by `C14.astar_exact`). -/
theorem aStarSearch_refines (e : Env F) (s : State F) (fuel : Nat) (hs : s.ctl = .run) (hi : SrchIn e s)
    (hlen : (s.fa "path_img").length = e.h * e.w) (hfuel : 2 * (e.h * e.w) + 1 ≤ fuel) :
    let r := Gen.IL.aStarSearch.run s fuel
    match search e with
    | .path chain g => (∀ c ∈ chain, inside e.h e.w c = true) →
        r.ctl = .ret ∧ (r.fa "path_img").length = e.h * e.w ∧
        ∀ c, inside e.h e.w c = true → ∀ d, (r.fa "path_img").getD (cidx e.w c) d =
          if c ∈ chain then g c else (s.fa "path_img").getD (cidx e.w c) d
    | .noPath => r.ctl = .ret ∧ r.fa "path_img" = s.fa "path_img"
    | .anomaly _ => True := by
  intro r
  obtain ⟨s0, h0, hl0, hp0⟩ := init_exec e s hs hi fuel
  have hr : r = exec fuel searchTail s0 := by
    show exec fuel Gen.IL.aStarSearch.body s = _
    rw [aStarSearch_body, h0]
  have hm := main_loop e (e.h * e.w + 1) (AStar.init e) s0 fuel hl0 (by omega)
  unfold search
  cases hloop : loop e (e.h * e.w + 1) (AStar.init e) with
  | found st =>
    simp only []
    cases hwalk : walk st.parent e.start (e.h * e.w) e.goal with
    | none => simp
    | some chain =>
      simp only []
      intro hin
      obtain ⟨hret, garr, hg, hpath⟩ := hm.1 st hloop _ chain hwalk hin (walk_length_le hwalk)
      have hr' : r = exec fuel mainLoop s0 := by
        rw [hr, searchTail, exec_seq_stop _ _ _ _ (by rw [hret]; simp)]
      have hlast := walk_last hwalk
      have hsin : inside e.h e.w e.start = true := hi.start_in
      rw [hr', hpath, hp0]
      refine ⟨hret, by rw [chainW_length, hlen], ?_⟩
      intro c hc d
      rw [chainW_getD _ e.h e.w _ _ hlen (fun x hx => by
        rcases List.mem_cons.1 hx with rfl | hx
        · exact hsin
        · exact hin x (List.dropLast_subset _ hx)) c hc d]
      simp only [mem_start_dropLast hlast, hg c hc]
  | exhausted st =>
    simp only []
    obtain ⟨hrun, hpath⟩ := hm.2 st hloop
    have hr' : r = { exec fuel mainLoop s0 with ctl := .ret } := by
      rw [hr, searchTail, exec_seq_run _ _ _ _ hrun]; simp [exec]
    rw [hr']
    exact ⟨rfl, by rw [← hp0, ← hpath]⟩
  | sentinel st => simp
  | fuel st => simp

end XrsVerif.IL
