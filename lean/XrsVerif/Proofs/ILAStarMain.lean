import XrsVerif.Proofs.ILAStarIter
/-
  Proofs/ILAStarMain.lean -- the main loop and the whole of the generated `_a_star_search`:

  * `anyOpen_iff_sum`: `np.sum(is_open) > 0` is the model's `anyOpen`;
  * `main_loop`: by induction on the model's fuel, `while num_open > 0: ...` follows `AStar.loop`: when the model
    finds the goal the program returns with the chain of the parent walk written into `path_img`; when the model's
    open list runs empty the program leaves the loop with `path_img` untouched;
  * `init_exec`: the statements before the loop establish the abstraction of `AStar.init`;
  * `aStarSearch_refines`: `Gen.IL.aStarSearch` computes `AStar.search` (on every input on which the model does not
    report the `(NONE, NONE)` anomaly of `_min_cost_pixel_id`).
-/
namespace XrsVerif.IL
open XrsVerif XrsVerif.AStar
variable {F : Type} [Fl F]
set_option linter.unusedSectionVars false
set_option linter.unusedVariables false
set_option linter.unusedSimpArgs false

theorem foldl_add_init (l : List Int) (a : Int) : l.foldl (· + ·) a = a + l.foldl (· + ·) 0 := by
  induction l generalizing a with
  | nil => simp
  | cons x l ih => simp only [List.foldl_cons]; rw [ih (a + x), ih (0 + x)]; omega

theorem sumI_cons (x : Int) (l : List Int) : sumI (x :: l) = x + sumI l := by
  unfold sumI; simp only [List.foldl_cons]; rw [foldl_add_init]; omega

theorem sumI_01 (l : List Int) (hl : ∀ x ∈ l, x = 0 ∨ x = 1) :
    0 ≤ sumI l ∧ (0 < sumI l ↔ ∃ x ∈ l, x = 1) := by
  induction l with
  | nil => simp [sumI]
  | cons x l ih =>
    have ih' := ih (fun y hy => hl y (by simp [hy]))
    rw [sumI_cons]
    rcases hl x (by simp) with hx | hx
    · subst hx
      refine ⟨by omega, ?_⟩
      simp only [Int.zero_add, ih'.2, List.mem_cons, exists_eq_or_imp]
      simp
    · subst hx
      refine ⟨by omega, ?_⟩
      constructor
      · intro _; exact ⟨1, by simp, rfl⟩
      · intro _; omega

/-- `np.sum(is_open) > 0` is the model's `anyOpen` -/
theorem anyOpen_iff_sum {e : Env F} {s : State F} {mst : AStar.St F} (ha : SrchAbs e s mst) :
    anyOpen e mst = true ↔ 0 < sumI (s.ia "is_open") := by
  rw [(sumI_01 _ ha.open01).2]
  unfold anyOpen
  rw [List.any_eq_true]
  constructor
  · rintro ⟨c, hc, ho⟩
    have hin := mem_cells.1 hc
    rw [ha.isOpen c hin] at ho
    simp only [ne_eq, decide_eq_true_eq] at ho
    have hlt : cidx e.w c < (s.ia "is_open").length := by rw [ha.l_open]; exact cidx_lt _ _ _ hin
    have hg : (s.ia "is_open").getD (cidx e.w c) 0 = (s.ia "is_open")[cidx e.w c] := by
      simp [List.getD_eq_getElem?_getD, hlt]
    have hm : (s.ia "is_open")[cidx e.w c] ∈ s.ia "is_open" := List.getElem_mem hlt
    refine ⟨_, hm, ?_⟩
    rcases ha.open01 _ hm with h0 | h1
    · rw [hg] at ho; exact absurd h0 ho
    · exact h1
  · rintro ⟨x, hx, rfl⟩
    obtain ⟨k, hk, hkx⟩ := List.getElem_of_mem hx
    rw [ha.l_open] at hk
    have hw : 0 < e.w := by
      rcases Nat.eq_zero_or_pos e.w with h0 | h0
      · rw [h0] at hk; simp at hk
      · exact h0
    have hkd : k / e.w < e.h := by
      rw [Nat.div_lt_iff_lt_mul hw]; exact hk
    have hkm : k % e.w < e.w := Nat.mod_lt _ hw
    have hin : inside e.h e.w (((k / e.w : Nat) : Int), ((k % e.w : Nat) : Int)) = true :=
      inside_nat _ _ _ _ hkd hkm
    refine ⟨_, mem_cells.2 hin, ?_⟩
    rw [ha.isOpen _ hin, cidx_nat]
    have : k / e.w * e.w + k % e.w = k := by rw [Nat.mul_comm]; exact Nat.div_add_mod k e.w
    rw [this]
    have hlt : k < (s.ia "is_open").length := by rw [ha.l_open]; exact hk
    simp [List.getD_eq_getElem?_getD, hlt, hkx]

/-- what the loop is entered with: constants, abstraction of `mst`, `num_open` counted -/
structure LoopInv (e : Env F) (s : State F) (mst : AStar.St F) : Prop where
  run : s.ctl = .run
  const : SrchConst e s
  abs : SrchAbs e s mst
  num : s.ienv "num_open" = sumI (s.ia "is_open")

theorem mainLoop_cond {e : Env F} {s : State F} {mst : AStar.St F} (hl : LoopInv e s mst) :
    (BE.cmpI .gt (.var "num_open") (.lit 0)).ok s = true ∧
    (BE.cmpI .gt (.var "num_open") (.lit 0)).eval s = anyOpen e mst := by
  refine ⟨by simp [BE.ok, IE.ok], ?_⟩
  simp only [BE.eval, IE.eval, cmpInt, hl.num]
  by_cases h : anyOpen e mst = true
  · rw [h]; simpa using (anyOpen_iff_sum hl.abs).1 h
  · have : ¬ 0 < sumI (s.ia "is_open") := fun h' => h ((anyOpen_iff_sum hl.abs).2 h')
    simp only [Bool.not_eq_true] at h
    rw [h]; simpa using this

/-- **the main loop follows the model's `loop`** (induction on the model's fuel `n`; the program needs `n` units of
    `while` fuel for the iterations plus `h * w` for the parent walk of `_reconstruct_path`):
    * `loop e n mst = found st'`: the program returns, and for the chain of the model's parent walk (if it succeeds and
      stays in the raster) `path_img` received `g[c]` on exactly the cells of the chain, where the array `g`
      (`d_from_start`) holds `st'.g`;
    * `loop e n mst = exhausted st'`: the program leaves the loop normally and `path_img` is untouched. -/
theorem main_loop (e : Env F) : ∀ (n : Nat) (mst : AStar.St F) (s : State F) (fuel : Nat),
    LoopInv e s mst → n + e.h * e.w ≤ fuel →
    (∀ st', loop e n mst = .found st' → ∀ m chain, walk st'.parent e.start m e.goal = some chain →
      (∀ c ∈ chain, inside e.h e.w c = true) → chain.length ≤ e.h * e.w →
      (exec fuel mainLoop s).ctl = .ret ∧ ∃ g : List F,
        (∀ c, inside e.h e.w c = true → st'.g c = g.getD (cidx e.w c) Fl.nan) ∧
        (exec fuel mainLoop s).fa "path_img" = chainW g e.w (e.start :: chain.dropLast) (s.fa "path_img")) ∧
    (∀ st', loop e n mst = .exhausted st' →
      (exec fuel mainLoop s).ctl = .run ∧ (exec fuel mainLoop s).fa "path_img" = s.fa "path_img")
  | 0, mst, s, fuel, hl, hf => by simp [loop]
  | n + 1, mst, s, fuel, hl, hf => by
    obtain ⟨fuel, rfl⟩ : ∃ f, fuel = f + 1 := ⟨fuel - 1, by omega⟩
    obtain ⟨hok, hcond⟩ := mainLoop_cond hl
    unfold loop
    by_cases hany : anyOpen e mst = true
    swap
    · simp only [Bool.not_eq_true] at hany
      rw [hany] at hcond
      have hd : exec (fuel + 1) mainLoop s = s := exec_while_done fuel _ _ s hok hcond
      simp only [hany, Bool.not_false, if_true]
      refine ⟨(by intro st' h; cases h), ?_⟩
      intro st' _
      rw [hd]; exact ⟨hl.run, rfl⟩
    · rw [hany] at hcond
      simp only [hany, Bool.not_true, Bool.false_eq_true, if_false]
      cases hmin : minCostOpen e mst with
      | none => simp
      | some u =>
        simp only []
        by_cases hug : u = e.goal
        · subst hug
          simp only [if_true]
          refine ⟨?_, by intro st' h; cases h⟩
          intro st' hst' m chain hw hin hlen
          simp only [LoopEnd.found.injEq] at hst'
          subst hst'
          have hg := iter_goal e mst s hl.run hl.const hl.abs hmin fuel m chain hw hin (by omega)
          have hr : exec (fuel + 1) mainLoop s = exec fuel whileBody s :=
            exec_while_ret fuel _ _ s hok hcond hg.1
          rw [hr]
          exact ⟨hg.1, s.fa "d_from_start", fun c hc => hl.abs.g c hc, hg.2⟩
        · simp only [hug, if_false]
          have hx := iter_expand e mst s hl.run hl.const hl.abs u hmin hug fuel
          have hr : exec (fuel + 1) mainLoop s = exec fuel mainLoop (exec fuel whileBody s) :=
            exec_while_to hok hcond rfl hx.1
          have ih := main_loop e n (expand e mst u) (exec fuel whileBody s) fuel
            ⟨hx.1, hx.2.1, hx.2.2.1, hx.2.2.2.1⟩ (by omega)
          rw [hr, ← hx.2.2.2.2]
          exact ih

end XrsVerif.IL
