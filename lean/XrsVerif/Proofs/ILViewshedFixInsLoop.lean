import XrsVerif.Proofs.ILViewshedFixIns
/-
  Proofs/ILViewshedFixInsLoop.lean -- one iteration of the loop of `_rb_insert_fixup` (inlined in `Gen.IL.vsInsert`)
  is one step of the model's `insFixP` (Model/ViewshedFix.lean), for both mirror images and all cases:

  * `FixCore s n zl z zr ctx`   the loop invariant: well-formed arrays, the tree well linked without repeated rows,
                                `z` at the position `ctx`, the fix-up's `root` variable the root row, the NIL row black,
                                the root black unless `z` is the root;
  * `FixStep`                   what an iteration establishes: the invariant at a position strictly higher up, the same
                                rows in the same in-order sequence, the NIL row's maximum untouched, and
                                `insFixP` of the new abstraction at the new position = `insFixP` of the old one;
  * `caseL_spec`, `caseR_spec`  the two branches (`z.parent` left / right child of the grandparent);
  * `insFixBody_spec`           the loop body; `insFixLoop_spec` the loop by induction on the depth of `z`.
-/
set_option linter.unusedSectionVars false
set_option linter.unusedVariables false
set_option linter.unusedSimpArgs false
namespace XrsVerif.ILVs
open XrsVerif XrsVerif.IL XrsVerif.Viewshed
variable {F : Type} [Fl F]

/-! ### positions -/

def Fr.fill : Fr → Sh → Sh
  | .L i r, t => .node t i r
  | .R l i, t => .node l i t

theorem plug_cons (fr : Fr) (rest : Ctx) (t : Sh) : plug t (fr :: rest) = plug (fr.fill t) rest := by
  cases fr <;> rfl

theorem isRed_fill (V : List F) (N : List Int) (fr : Fr) (t : Sh) :
    isRed (absT V N (fr.fill t)) = decide (nAt N fr.idx 0 = 0) := by cases fr <;> rfl

theorem fill_ptr (fr : Fr) (t : Sh) : (fr.fill t).ptr = (fr.idx : Int) := by cases fr <;> rfl

/-- the in-order sequence of rows of a tree depends on the position's subtree only through its in-order sequence -/
theorem idxs_plug_congr : ∀ (ctx : Ctx) (a b : Sh), a.idxs = b.idxs → (plug a ctx).idxs = (plug b ctx).idxs := by
  intro ctx
  induction ctx with
  | nil => intro a b h; exact h
  | cons fr rest ih =>
    intro a b h
    cases fr with
    | L i r => exact ih _ _ (by simp [Sh.idxs, h])
    | R l i => exact ih _ _ (by simp [Sh.idxs, h])

theorem map_dir_reverse (ctx : Ctx) : (ctx.map Fr.dir).reverse = pathOf ctx := (pathOf_eq ctx).symm

/-- the loop stops at a black parent: the model returns its argument -/
theorem insFixP_stop (S : Fv F) (V : List F) (N : List Int) (zsh : Sh) (ctx : Ctx)
    (h : ∀ pf rest, ctx = pf :: rest → nAt N pf.idx 0 ≠ 0) :
    insFixP S (ctx.map Fr.dir) (absT V N (plug zsh ctx)) = absT V N (plug zsh ctx) := by
  match ctx, h with
  | [], _ => simp [insFixP]
  | [pf], _ => simp [insFixP]
  | pf :: gf :: rest, h =>
    have hp := h pf (gf :: rest) rfl
    simp only [List.map_cons, insFixP]
    have hpath : (rest.map Fr.dir).reverse ++ [gf.dir] = pathOf (gf :: rest) := by rw [pathOf_eq]; simp
    rw [hpath, plug_cons pf, subAt_plug, isRed_fill]
    simp [hp]

/-! ### the invariant -/

structure FixCore (s : State F) (n : Nat) (zl : Sh) (z : Nat) (zr : Sh) (ctx : Ctx) : Prop where
  vs : VS s n
  run : s.ctl = .run
  linked : Linked (s.ia "tree_nodes") n (-1) (plug (.node zl z zr) ctx)
  nodup : (plug (.node zl z zr) ctx).idxs.Nodup
  hz : s.ienv "_rb_insert_fixup6$z" = z
  hroot : s.ienv "_rb_insert_fixup6$root" = (plug (.node zl z zr) ctx).ptr
  nilBlack : nAt (s.ia "tree_nodes") (n - 1) 0 ≠ 0
  rootBlack : ctx ≠ [] → isRed (absT (s.fa "tree_vals") (s.ia "tree_nodes") (plug (.node zl z zr) ctx)) = false

/-- what one iteration (or a block of it) establishes -/
def FixStep (s r : State F) (n : Nat) (zl : Sh) (z : Nat) (zr : Sh) (ctx : Ctx) : Prop :=
  ∃ (zl' : Sh) (z' : Nat) (zr' : Sh) (ctx' : Ctx), FixCore r n zl' z' zr' ctx' ∧ ctx'.length < ctx.length ∧
    (plug (.node zl' z' zr') ctx').idxs = (plug (.node zl z zr) ctx).idxs ∧
    vAt (r.fa "tree_vals") (n - 1) 7 = vAt (s.fa "tree_vals") (n - 1) 7 ∧
    insFixP (vAt (s.fa "tree_vals") (n - 1) 7) (ctx'.map Fr.dir)
        (absT (r.fa "tree_vals") (r.ia "tree_nodes") (plug (.node zl' z' zr') ctx')) =
      insFixP (vAt (s.fa "tree_vals") (n - 1) 7) (ctx.map Fr.dir)
        (absT (s.fa "tree_vals") (s.ia "tree_nodes") (plug (.node zl z zr) ctx))

/-- a state that differs in scalars other than `z`, `root` satisfies the invariant as well -/
theorem FixCore.of_eq {s r : State F} {n : Nat} {zl : Sh} {z : Nat} {zr : Sh} {ctx : Ctx} (h : FixCore s n zl z zr ctx)
    (h1 : r.shp = s.shp) (h2 : r.fa = s.fa) (h3 : r.ia = s.ia) (h4 : r.ctl = s.ctl)
    (h5 : r.ienv "_rb_insert_fixup6$z" = s.ienv "_rb_insert_fixup6$z")
    (h6 : r.ienv "_rb_insert_fixup6$root" = s.ienv "_rb_insert_fixup6$root") : FixCore r n zl z zr ctx :=
  ⟨h.vs.of_eq h1 h2 h3, by rw [h4]; exact h.run, by rw [h3]; exact h.linked, h.nodup, by rw [h5]; exact h.hz,
   by rw [h6]; exact h.hroot, by rw [h3]; exact h.nilBlack, by rw [h2, h3]; exact h.rootBlack⟩

/-! ### `z.parent` is the left child of the grandparent -/

theorem caseL_spec (fuel n : Nat) (s : State F) (zl : Sh) (z : Nat) (zr : Sh) (pf : Fr) (g : Nat) (u : Sh) (rest : Ctx)
    (h : FixCore s n zl z zr (pf :: .L g u :: rest))
    (hzp : s.ienv "_rb_insert_fixup6$z_parent" = pf.idx) (hzpp : s.ienv "_rb_insert_fixup6$z_parent_parent" = g)
    (hred : nAt (s.ia "tree_nodes") pf.idx 0 = 0) :
    let r := exec fuel (insFixCase 2 2 lrot7 rrot10) s
    r.ctl = .run ∧ FixStep s r n zl z zr (pf :: .L g u :: rest) := by
  intro r
  obtain ⟨hv, hrun, hL, hN, hz, hroot, hnil, hrb⟩ := h
  have hrb' := hrb (by simp)
  -- the position of the parent's subtree
  have hLp : Linked (s.ia "tree_nodes") n (-1) (plug (pf.fill (.node zl z zr)) (.L g u :: rest)) := by
    rw [← plug_cons]; exact hL
  have hNp : (plug (pf.fill (.node zl z zr)) (.L g u :: rest)).idxs.Nodup := by rw [← plug_cons]; exact hN
  obtain ⟨_, hcg, _⟩ := unplug _ _ hLp hNp
  obtain ⟨hg, hg1, hg2, _, hg3, hlu, hcr⟩ := hcg
  have hinu := hlu.inRange hv.pos
  -- y = the uncle
  have h1 := exec_ldN fuel n s hv.shpN "_rb_insert_fixup6$y" "_rb_insert_fixup6$z_parent_parent" 2 (by decide)
    (by rw [hzpp]; exact inRange_ptr n _ (by omega) hv.pos) u.ptr (by rw [hzpp, rowOf_nat]; exact hg2)
  generalize hs1 : ({ s with ienv := setS s.ienv "_rb_insert_fixup6$y" u.ptr } : State F) = s1 at h1
  have hv1 : VS s1 n := by rw [← hs1]; exact hv.of_eq rfl rfl rfl
  have hrun1 : s1.ctl = .run := by rw [← hs1]; exact hrun
  have hia1 : s1.ia = s.ia := by rw [← hs1]
  have hfa1 : s1.fa = s.fa := by rw [← hs1]
  have ey : s1.ienv "_rb_insert_fixup6$y" = u.ptr := by rw [← hs1]; simp [setS]
  have ezp : s1.ienv "_rb_insert_fixup6$z_parent" = pf.idx := by rw [← hs1]; simp [setS, hzp]
  have ezpp : s1.ienv "_rb_insert_fixup6$z_parent_parent" = g := by rw [← hs1]; simp [setS, hzpp]
  have ez : s1.ienv "_rb_insert_fixup6$z" = z := by rw [← hs1]; simp [setS, hz]
  have eroot : s1.ienv "_rb_insert_fixup6$root" = s.ienv "_rb_insert_fixup6$root" := by rw [← hs1]; simp [setS]
  have hr1 : r = exec fuel (.ite (.cmpI .eq (.ld2 "tree_nodes" (.var "_rb_insert_fixup6$y") (.lit 0)) (.lit 0))
      recolBlock
      (.seq (.ite (.cmpI .eq (.var "_rb_insert_fixup6$z") (.ld2 "tree_nodes" (.var "_rb_insert_fixup6$z_parent") (.lit 2)))
        (case2 lrot7) .skip) (case3 rrot10))) s1 := by
    simp only [r, insFixCase]
    rw [exec_seq_run _ _ _ _ (by rw [h1]; exact hrun1), h1]
  -- the colour test of the uncle
  have hcok : BE.ok s1 (.cmpI .eq (.ld2 "tree_nodes" (.var "_rb_insert_fixup6$y") (.lit 0)) (.lit 0)) = true := by
    rw [BE.ok_cmpI, okN s1 n hv1.shpN _ 0 (by decide), ey, hinu, IE.ok_lit]; rfl
  have hcev : BE.eval s1 (.cmpI .eq (.ld2 "tree_nodes" (.var "_rb_insert_fixup6$y") (.lit 0)) (.lit 0)) =
      decide (nAt (s.ia "tree_nodes") (rowOf n u.ptr) 0 = 0) := by
    rw [BE.eval_cmpI, evalN s1 n hv1.shpN _ 0 (by decide), ey, hia1, IE.eval_lit]; rfl
  -- the model's two tests
  have hpp : (rest.map Fr.dir).reverse ++ [Dir.L] = pathOf (.L g u :: rest) := by rw [pathOf_eq]; simp [Fr.dir]
  have hpg : (rest.map Fr.dir).reverse = pathOf rest := map_dir_reverse rest
  have hparent : isRed (subAt (pathOf (.L g u :: rest))
      (absT (s.fa "tree_vals") (s.ia "tree_nodes") (plug (.node zl z zr) (pf :: .L g u :: rest)))) = true := by
    rw [plug_cons pf, subAt_plug, isRed_fill]; simp [hred]
  have huncle : subAt (pathOf rest ++ [Dir.R])
      (absT (s.fa "tree_vals") (s.ia "tree_nodes") (plug (.node zl z zr) (pf :: .L g u :: rest))) =
      absT (s.fa "tree_vals") (s.ia "tree_nodes") u := by
    rw [plug_cons pf]
    exact subAt_plug (s.fa "tree_vals") (s.ia "tree_nodes") (.R (pf.fill (.node zl z zr)) g :: rest) u
  have hpathsne : pathOf (.L g u :: rest) ≠ [] := pathOf_ne_nil _ _
  by_cases hured : nAt (s.ia "tree_nodes") (rowOf n u.ptr) 0 = 0
  · -- red uncle: it is a node
    cases u with
    | nil => simp only [Sh.ptr, rowOf_neg_one] at hured; exact absurd hured hnil
    | node ul ui ur =>
      simp only [Sh.ptr, rowOf_nat] at hured ey
      have hr2 : r = exec fuel recolBlock s1 := by
        rw [hr1, exec_ite_true _ _ _ _ _ hcok (by rw [hcev]; simp [Sh.ptr, hured])]
      -- the parent's subtree is a node `al ai ar` with `ai = pf.idx`
      obtain ⟨al, ar, hfill⟩ : ∃ al ar, pf.fill (.node zl z zr) = .node al pf.idx ar := by
        cases pf with
        | L p pr => exact ⟨_, _, rfl⟩
        | R pl p => exact ⟨_, _, rfl⟩
      have hW : plug (.node zl z zr) (pf :: .L g (.node ul ui ur) :: rest) =
          plug (.node (.node al pf.idx ar) g (.node ul ui ur)) rest := by rw [plug_cons, hfill]; rfl
      obtain ⟨c1, c2, c3, c4, c5, c6, c7, c8⟩ := recolL_spec fuel n s1 hv1 hrun1 al pf.idx ar g ul ui ur rest
        (by rw [hia1, ← hW]; exact hL) (by rw [← hW]; exact hN) ezp ey ezpp
      rw [← hr2] at c1 c2 c3 c4 c5 c6 c7 c8
      refine ⟨c1, .node al pf.idx ar, g, .node ul ui ur, rest, ?_, by simp only [List.length_cons]; omega, by rw [hW],
        by rw [c3, hfa1], ?_⟩
      · refine ⟨c2, c1, c5, by rw [← hW]; exact hN, by rw [c4]; simp [setS], ?_, by rw [c8, hia1]; exact hnil, ?_⟩
        · rw [c4, ← hW]; simp [setS, eroot, hroot]
        · intro hne
          rw [c6, hfa1, hia1, ← hW]
          have hpne : pathOf rest ≠ [] := by
            cases rest with
            | nil => exact absurd rfl hne
            | cons f rs => exact pathOf_ne_nil _ _
          rw [isRed_atPath _ _ hpne, isRed_atPath _ _ (by simp), isRed_atPath _ _ (by simp)]
          exact hrb'
      · -- the model: red parent, red uncle
        rw [c6, hfa1, hia1, ← hW]
        have hm := insFixP_recol (vAt (s.fa "tree_vals") (n - 1) 7) pf.dir Dir.L (rest.map Fr.dir) _
          (by rw [hpp]; exact hparent)
          (by show isRed (subAt ((rest.map Fr.dir).reverse ++ [Dir.R]) _) = true
              rw [hpg, huncle]; simp [absT, isRed, hured])
        rw [hpg] at hm
        exact hm.symm
  · -- black uncle
    have hr2 : r = exec fuel (.seq (.ite (.cmpI .eq (.var "_rb_insert_fixup6$z")
        (.ld2 "tree_nodes" (.var "_rb_insert_fixup6$z_parent") (.lit 2))) (case2 lrot7) .skip) (case3 rrot10)) s1 := by
      rw [hr1, exec_ite_false _ _ _ _ _ hcok (by rw [hcev]; simp [hured])]
    have hublack : isRed (absT (s.fa "tree_vals") (s.ia "tree_nodes") u) = false := by
      cases u with
      | nil => rfl
      | node ul ui ur => simp only [Sh.ptr, rowOf_nat] at hured; simp [absT, isRed, hured]
    have hpfn : pf.idx + 1 < n := Linked.idx_lt hL _ (by
      rw [plug_cons]; exact mem_plug _ _ _ (Sh.ptr_mem _ _ (fill_ptr pf _)))
    have hc2ok : BE.ok s1 (.cmpI .eq (.var "_rb_insert_fixup6$z")
        (.ld2 "tree_nodes" (.var "_rb_insert_fixup6$z_parent") (.lit 2))) = true := by
      rw [BE.ok_cmpI, okN s1 n hv1.shpN _ 2 (by decide), ezp, inRange_ptr n _ (by omega) hv.pos, IE.ok_var]; rfl
    have hc2ev : BE.eval s1 (.cmpI .eq (.var "_rb_insert_fixup6$z")
        (.ld2 "tree_nodes" (.var "_rb_insert_fixup6$z_parent") (.lit 2))) =
        decide ((z : Int) = nAt (s.ia "tree_nodes") pf.idx 2) := by
      rw [BE.eval_cmpI, evalN s1 n hv1.shpN _ 2 (by decide), ezp, rowOf_nat, hia1, IE.eval_var, ez]; rfl
    obtain ⟨_, hcz, _⟩ := unplug _ _ hL hN
    have hcore1 : FixCore s1 n zl z zr (pf :: .L g u :: rest) :=
      FixCore.of_eq ⟨hv, hrun, hL, hN, hz, hroot, hnil, hrb⟩ (by rw [← hs1]) hfa1 hia1 (by rw [← hs1])
        (by rw [ez, hz]) eroot
    cases pf with
    | L p pr =>
      -- outer child
      obtain ⟨_, hp1, hp2, hp4, _, _, _⟩ := hcz
      have hne : ¬ ((z : Int) = nAt (s.ia "tree_nodes") p 2) := by
        rw [hp2]; intro e; exact hp4 (by simp [Sh.ptr]) e.symm
      have hr3 : r = exec fuel (case3 rrot10) s1 := by
        rw [hr2, exec_seq_run _ _ _ _ (by
          rw [exec_ite_false _ _ _ _ _ hc2ok (by rw [hc2ev]; simp [Fr.idx, hne]), exec_skip]; exact hrun1),
          exec_ite_false _ _ _ _ _ hc2ok (by rw [hc2ev]; simp [Fr.idx, hne]), exec_skip]
      obtain ⟨c1, c2, c3, c4, c5, c6, c7, c8, c9, c10⟩ := outL_spec fuel n s1 hv1 hrun1 zl z zr p pr g u rest
        (by rw [hia1]; exact hL) hN ez (by rw [eroot]; exact hroot)
      rw [← hr3] at c1 c2 c3 c5 c6 c7 c8 c9 c10
      refine ⟨c1, zl, z, zr, .L p (.node pr g u) :: rest, ?_, by simp, ?_, by rw [c8, hfa1], ?_⟩
      · refine ⟨c2, c1, c3, c4, c6, c7, by rw [c9, hia1]; exact hnil, ?_⟩
        intro _
        cases rest with
        | nil => simp [plug, absT, isRed, c10]
        | cons f rs =>
          rw [c5, hfa1, hia1]
          rw [isRed_atPath _ _ (pathOf_ne_nil _ _), isRed_atPath _ _ (pathOf_ne_nil _ _), isRed_atPath _ _ (by simp)]
          exact hrb'
      · exact idxs_plug_congr rest _ _ (by simp [Sh.idxs])
      · rw [insFixP_stop _ _ _ _ _ (fun pf' rest' e => by
          simp only [List.cons.injEq] at e; rw [← e.1]; simp [Fr.idx, c10])]
        rw [c5, hfa1, hia1]
        have hm := insFixP_outer (vAt (s.fa "tree_vals") (n - 1) 7) Dir.L (rest.map Fr.dir) _
          (by rw [hpp]; exact hparent)
          (by show isRed (subAt ((rest.map Fr.dir).reverse ++ [Dir.R]) _) = false
              rw [hpg, huncle]; exact hublack)
        rw [hpg] at hm
        exact hm.symm
    | R pl p =>
      -- inner child: rotate it outwards first
      obtain ⟨_, hp1, hp2, hp4, _, _, _⟩ := hcz
      have heq : (z : Int) = nAt (s.ia "tree_nodes") p 2 := by rw [hp2]; rfl
      obtain ⟨d1, d2, d3, d4, d5, d6, d7, d8, d9⟩ := inL_spec fuel n s1 hv1 hrun1 zl z zr pl p g u rest
        (by rw [hia1]; exact hL) hN ezp (by rw [eroot]; exact hroot)
      generalize hs2 : exec fuel (case2 lrot7) s1 = s2 at d1 d2 d3 d5 d6 d7 d8 d9
      have hr3 : r = exec fuel (case3 rrot10) s2 := by
        rw [hr2, exec_seq_run _ _ _ _ (by
          rw [exec_ite_true _ _ _ _ _ hc2ok (by rw [hc2ev]; simp [Fr.idx, heq]), hs2]; exact d1),
          exec_ite_true _ _ _ _ _ hc2ok (by rw [hc2ev]; simp [Fr.idx, heq]), hs2]
      obtain ⟨c1, c2, c3, c4, c5, c6, c7, c8, c9, c10⟩ := outL_spec fuel n s2 d2 d1 pl p zl z zr g u rest d3 d4 d6 d7
      rw [← hr3] at c1 c2 c3 c5 c6 c7 c8 c9 c10
      refine ⟨c1, pl, p, zl, .L z (.node zr g u) :: rest, ?_, by simp, ?_, by rw [c8, d8, hfa1], ?_⟩
      · refine ⟨c2, c1, c3, c4, c6, c7, by rw [c9, d9, hia1]; exact hnil, ?_⟩
        intro _
        cases rest with
        | nil => simp [plug, absT, isRed, c10]
        | cons f rs =>
          rw [c5, d5, hfa1, hia1]
          rw [isRed_atPath _ _ (pathOf_ne_nil _ _), isRed_atPath _ _ (pathOf_ne_nil _ _), isRed_atPath _ _ (by simp),
            isRed_atPath _ _ (by simp)]
          exact hrb'
      · exact idxs_plug_congr rest _ _ (by simp [Sh.idxs])
      · rw [insFixP_stop _ _ _ _ _ (fun pf' rest' e => by
          simp only [List.cons.injEq] at e; rw [← e.1]; simp [Fr.idx, c10])]
        rw [c5, d5, d8, hfa1, hia1]
        have hm := insFixP_inner (vAt (s.fa "tree_vals") (n - 1) 7) Dir.R Dir.L (rest.map Fr.dir) _ (by decide)
          (by rw [hpp]; exact hparent)
          (by show isRed (subAt ((rest.map Fr.dir).reverse ++ [Dir.R]) _) = false
              rw [hpg, huncle]; exact hublack)
        rw [hpg] at hm
        exact hm.symm

/-! ### `z.parent` is the right child of the grandparent -/

theorem caseR_spec (fuel n : Nat) (s : State F) (zl : Sh) (z : Nat) (zr : Sh) (pf : Fr) (u : Sh) (g : Nat) (rest : Ctx)
    (h : FixCore s n zl z zr (pf :: .R u g :: rest))
    (hzp : s.ienv "_rb_insert_fixup6$z_parent" = pf.idx) (hzpp : s.ienv "_rb_insert_fixup6$z_parent_parent" = g)
    (hred : nAt (s.ia "tree_nodes") pf.idx 0 = 0) :
    let r := exec fuel (insFixCase 1 1 rrot13 lrot16) s
    r.ctl = .run ∧ FixStep s r n zl z zr (pf :: .R u g :: rest) := by
  intro r
  obtain ⟨hv, hrun, hL, hN, hz, hroot, hnil, hrb⟩ := h
  have hrb' := hrb (by simp)
  -- the position of the parent's subtree
  have hLp : Linked (s.ia "tree_nodes") n (-1) (plug (pf.fill (.node zl z zr)) (.R u g :: rest)) := by
    rw [← plug_cons]; exact hL
  have hNp : (plug (pf.fill (.node zl z zr)) (.R u g :: rest)).idxs.Nodup := by rw [← plug_cons]; exact hN
  obtain ⟨_, hcg, _⟩ := unplug _ _ hLp hNp
  obtain ⟨hg, hg2, hg1, _, hg3, hlu, hcr⟩ := hcg
  have hinu := hlu.inRange hv.pos
  -- y = the uncle
  have h1 := exec_ldN fuel n s hv.shpN "_rb_insert_fixup6$y" "_rb_insert_fixup6$z_parent_parent" 1 (by decide)
    (by rw [hzpp]; exact inRange_ptr n _ (by omega) hv.pos) u.ptr (by rw [hzpp, rowOf_nat]; exact hg2)
  generalize hs1 : ({ s with ienv := setS s.ienv "_rb_insert_fixup6$y" u.ptr } : State F) = s1 at h1
  have hv1 : VS s1 n := by rw [← hs1]; exact hv.of_eq rfl rfl rfl
  have hrun1 : s1.ctl = .run := by rw [← hs1]; exact hrun
  have hia1 : s1.ia = s.ia := by rw [← hs1]
  have hfa1 : s1.fa = s.fa := by rw [← hs1]
  have ey : s1.ienv "_rb_insert_fixup6$y" = u.ptr := by rw [← hs1]; simp [setS]
  have ezp : s1.ienv "_rb_insert_fixup6$z_parent" = pf.idx := by rw [← hs1]; simp [setS, hzp]
  have ezpp : s1.ienv "_rb_insert_fixup6$z_parent_parent" = g := by rw [← hs1]; simp [setS, hzpp]
  have ez : s1.ienv "_rb_insert_fixup6$z" = z := by rw [← hs1]; simp [setS, hz]
  have eroot : s1.ienv "_rb_insert_fixup6$root" = s.ienv "_rb_insert_fixup6$root" := by rw [← hs1]; simp [setS]
  have hr1 : r = exec fuel (.ite (.cmpI .eq (.ld2 "tree_nodes" (.var "_rb_insert_fixup6$y") (.lit 0)) (.lit 0))
      recolBlock
      (.seq (.ite (.cmpI .eq (.var "_rb_insert_fixup6$z") (.ld2 "tree_nodes" (.var "_rb_insert_fixup6$z_parent") (.lit 1)))
        (case2 rrot13) .skip) (case3 lrot16))) s1 := by
    simp only [r, insFixCase]
    rw [exec_seq_run _ _ _ _ (by rw [h1]; exact hrun1), h1]
  -- the colour test of the uncle
  have hcok : BE.ok s1 (.cmpI .eq (.ld2 "tree_nodes" (.var "_rb_insert_fixup6$y") (.lit 0)) (.lit 0)) = true := by
    rw [BE.ok_cmpI, okN s1 n hv1.shpN _ 0 (by decide), ey, hinu, IE.ok_lit]; rfl
  have hcev : BE.eval s1 (.cmpI .eq (.ld2 "tree_nodes" (.var "_rb_insert_fixup6$y") (.lit 0)) (.lit 0)) =
      decide (nAt (s.ia "tree_nodes") (rowOf n u.ptr) 0 = 0) := by
    rw [BE.eval_cmpI, evalN s1 n hv1.shpN _ 0 (by decide), ey, hia1, IE.eval_lit]; rfl
  -- the model's two tests
  have hpp : (rest.map Fr.dir).reverse ++ [Dir.R] = pathOf (.R u g :: rest) := by rw [pathOf_eq]; simp [Fr.dir]
  have hpg : (rest.map Fr.dir).reverse = pathOf rest := map_dir_reverse rest
  have hparent : isRed (subAt (pathOf (.R u g :: rest))
      (absT (s.fa "tree_vals") (s.ia "tree_nodes") (plug (.node zl z zr) (pf :: .R u g :: rest)))) = true := by
    rw [plug_cons pf, subAt_plug, isRed_fill]; simp [hred]
  have huncle : subAt (pathOf rest ++ [Dir.L])
      (absT (s.fa "tree_vals") (s.ia "tree_nodes") (plug (.node zl z zr) (pf :: .R u g :: rest))) =
      absT (s.fa "tree_vals") (s.ia "tree_nodes") u := by
    rw [plug_cons pf]
    exact subAt_plug (s.fa "tree_vals") (s.ia "tree_nodes") (.L g (pf.fill (.node zl z zr)) :: rest) u
  have hpathsne : pathOf (.R u g :: rest) ≠ [] := pathOf_ne_nil _ _
  by_cases hured : nAt (s.ia "tree_nodes") (rowOf n u.ptr) 0 = 0
  · -- red uncle: it is a node
    cases u with
    | nil => simp only [Sh.ptr, rowOf_neg_one] at hured; exact absurd hured hnil
    | node ul ui ur =>
      simp only [Sh.ptr, rowOf_nat] at hured ey
      have hr2 : r = exec fuel recolBlock s1 := by
        rw [hr1, exec_ite_true _ _ _ _ _ hcok (by rw [hcev]; simp [Sh.ptr, hured])]
      -- the parent's subtree is a node `al ai ar` with `ai = pf.idx`
      obtain ⟨al, ar, hfill⟩ : ∃ al ar, pf.fill (.node zl z zr) = .node al pf.idx ar := by
        cases pf with
        | L p pr => exact ⟨_, _, rfl⟩
        | R pl p => exact ⟨_, _, rfl⟩
      have hW : plug (.node zl z zr) (pf :: .R (.node ul ui ur) g :: rest) =
          plug (.node (.node ul ui ur) g (.node al pf.idx ar)) rest := by rw [plug_cons, hfill]; rfl
      obtain ⟨c1, c2, c3, c4, c5, c6, c7, c8⟩ := recolR_spec fuel n s1 hv1 hrun1 ul ui ur g al pf.idx ar rest
        (by rw [hia1, ← hW]; exact hL) (by rw [← hW]; exact hN) ezp ey ezpp
      rw [← hr2] at c1 c2 c3 c4 c5 c6 c7 c8
      refine ⟨c1, .node ul ui ur, g, .node al pf.idx ar, rest, ?_, by simp only [List.length_cons]; omega, by rw [hW],
        by rw [c3, hfa1], ?_⟩
      · refine ⟨c2, c1, c5, by rw [← hW]; exact hN, by rw [c4]; simp [setS], ?_, by rw [c8, hia1]; exact hnil, ?_⟩
        · rw [c4, ← hW]; simp [setS, eroot, hroot]
        · intro hne
          rw [c6, hfa1, hia1, ← hW]
          have hpne : pathOf rest ≠ [] := by
            cases rest with
            | nil => exact absurd rfl hne
            | cons f rs => exact pathOf_ne_nil _ _
          rw [isRed_atPath _ _ hpne, isRed_atPath _ _ (by simp), isRed_atPath _ _ (by simp)]
          exact hrb'
      · -- the model: red parent, red uncle
        rw [c6, hfa1, hia1, ← hW]
        have hm := insFixP_recol (vAt (s.fa "tree_vals") (n - 1) 7) pf.dir Dir.R (rest.map Fr.dir) _
          (by rw [hpp]; exact hparent)
          (by show isRed (subAt ((rest.map Fr.dir).reverse ++ [Dir.L]) _) = true
              rw [hpg, huncle]; simp [absT, isRed, hured])
        rw [hpg] at hm
        exact hm.symm
  · -- black uncle
    have hr2 : r = exec fuel (.seq (.ite (.cmpI .eq (.var "_rb_insert_fixup6$z")
        (.ld2 "tree_nodes" (.var "_rb_insert_fixup6$z_parent") (.lit 1))) (case2 rrot13) .skip) (case3 lrot16)) s1 := by
      rw [hr1, exec_ite_false _ _ _ _ _ hcok (by rw [hcev]; simp [hured])]
    have hublack : isRed (absT (s.fa "tree_vals") (s.ia "tree_nodes") u) = false := by
      cases u with
      | nil => rfl
      | node ul ui ur => simp only [Sh.ptr, rowOf_nat] at hured; simp [absT, isRed, hured]
    have hpfn : pf.idx + 1 < n := Linked.idx_lt hL _ (by
      rw [plug_cons]; exact mem_plug _ _ _ (Sh.ptr_mem _ _ (fill_ptr pf _)))
    have hc2ok : BE.ok s1 (.cmpI .eq (.var "_rb_insert_fixup6$z")
        (.ld2 "tree_nodes" (.var "_rb_insert_fixup6$z_parent") (.lit 1))) = true := by
      rw [BE.ok_cmpI, okN s1 n hv1.shpN _ 1 (by decide), ezp, inRange_ptr n _ (by omega) hv.pos, IE.ok_var]; rfl
    have hc2ev : BE.eval s1 (.cmpI .eq (.var "_rb_insert_fixup6$z")
        (.ld2 "tree_nodes" (.var "_rb_insert_fixup6$z_parent") (.lit 1))) =
        decide ((z : Int) = nAt (s.ia "tree_nodes") pf.idx 1) := by
      rw [BE.eval_cmpI, evalN s1 n hv1.shpN _ 1 (by decide), ezp, rowOf_nat, hia1, IE.eval_var, ez]; rfl
    obtain ⟨_, hcz, _⟩ := unplug _ _ hL hN
    have hcore1 : FixCore s1 n zl z zr (pf :: .R u g :: rest) :=
      FixCore.of_eq ⟨hv, hrun, hL, hN, hz, hroot, hnil, hrb⟩ (by rw [← hs1]) hfa1 hia1 (by rw [← hs1])
        (by rw [ez, hz]) eroot
    cases pf with
    | R pl p =>
      -- outer child
      obtain ⟨_, hp1, hp2, hp4, _, _, _⟩ := hcz
      have hne : ¬ ((z : Int) = nAt (s.ia "tree_nodes") p 1) := by
        rw [hp1]; intro e; exact hp4 (by simp [Sh.ptr]) e.symm
      have hr3 : r = exec fuel (case3 lrot16) s1 := by
        rw [hr2, exec_seq_run _ _ _ _ (by
          rw [exec_ite_false _ _ _ _ _ hc2ok (by rw [hc2ev]; simp [Fr.idx, hne]), exec_skip]; exact hrun1),
          exec_ite_false _ _ _ _ _ hc2ok (by rw [hc2ev]; simp [Fr.idx, hne]), exec_skip]
      obtain ⟨c1, c2, c3, c4, c5, c6, c7, c8, c9, c10⟩ := outR_spec fuel n s1 hv1 hrun1 zl z zr pl p u g rest
        (by rw [hia1]; exact hL) hN ez (by rw [eroot]; exact hroot)
      rw [← hr3] at c1 c2 c3 c5 c6 c7 c8 c9 c10
      refine ⟨c1, zl, z, zr, .R (.node u g pl) p :: rest, ?_, by simp, ?_, by rw [c8, hfa1], ?_⟩
      · refine ⟨c2, c1, c3, c4, c6, c7, by rw [c9, hia1]; exact hnil, ?_⟩
        intro _
        cases rest with
        | nil => simp [plug, absT, isRed, c10]
        | cons f rs =>
          rw [c5, hfa1, hia1]
          rw [isRed_atPath _ _ (pathOf_ne_nil _ _), isRed_atPath _ _ (pathOf_ne_nil _ _), isRed_atPath _ _ (by simp)]
          exact hrb'
      · exact idxs_plug_congr rest _ _ (by simp [Sh.idxs])
      · rw [insFixP_stop _ _ _ _ _ (fun pf' rest' e => by
          simp only [List.cons.injEq] at e; rw [← e.1]; simp [Fr.idx, c10])]
        rw [c5, hfa1, hia1]
        have hm := insFixP_outer (vAt (s.fa "tree_vals") (n - 1) 7) Dir.R (rest.map Fr.dir) _
          (by rw [hpp]; exact hparent)
          (by show isRed (subAt ((rest.map Fr.dir).reverse ++ [Dir.L]) _) = false
              rw [hpg, huncle]; exact hublack)
        rw [hpg] at hm
        exact hm.symm
    | L p pr =>
      -- inner child: rotate it outwards first
      obtain ⟨_, hp1, hp2, hp4, _, _, _⟩ := hcz
      have heq : (z : Int) = nAt (s.ia "tree_nodes") p 1 := by rw [hp1]; rfl
      obtain ⟨d1, d2, d3, d4, d5, d6, d7, d8, d9⟩ := inR_spec fuel n s1 hv1 hrun1 zl z zr p pr u g rest
        (by rw [hia1]; exact hL) hN ezp (by rw [eroot]; exact hroot)
      generalize hs2 : exec fuel (case2 rrot13) s1 = s2 at d1 d2 d3 d5 d6 d7 d8 d9
      have hr3 : r = exec fuel (case3 lrot16) s2 := by
        rw [hr2, exec_seq_run _ _ _ _ (by
          rw [exec_ite_true _ _ _ _ _ hc2ok (by rw [hc2ev]; simp [Fr.idx, heq]), hs2]; exact d1),
          exec_ite_true _ _ _ _ _ hc2ok (by rw [hc2ev]; simp [Fr.idx, heq]), hs2]
      obtain ⟨c1, c2, c3, c4, c5, c6, c7, c8, c9, c10⟩ := outR_spec fuel n s2 d2 d1 zr p pr zl z u g rest d3 d4 d6 d7
      rw [← hr3] at c1 c2 c3 c5 c6 c7 c8 c9 c10
      refine ⟨c1, zr, p, pr, .R (.node u g zl) z :: rest, ?_, by simp, ?_, by rw [c8, d8, hfa1], ?_⟩
      · refine ⟨c2, c1, c3, c4, c6, c7, by rw [c9, d9, hia1]; exact hnil, ?_⟩
        intro _
        cases rest with
        | nil => simp [plug, absT, isRed, c10]
        | cons f rs =>
          rw [c5, d5, hfa1, hia1]
          rw [isRed_atPath _ _ (pathOf_ne_nil _ _), isRed_atPath _ _ (pathOf_ne_nil _ _), isRed_atPath _ _ (by simp),
            isRed_atPath _ _ (by simp)]
          exact hrb'
      · exact idxs_plug_congr rest _ _ (by simp [Sh.idxs])
      · rw [insFixP_stop _ _ _ _ _ (fun pf' rest' e => by
          simp only [List.cons.injEq] at e; rw [← e.1]; simp [Fr.idx, c10])]
        rw [c5, d5, d8, hfa1, hia1]
        have hm := insFixP_inner (vAt (s.fa "tree_vals") (n - 1) 7) Dir.L Dir.R (rest.map Fr.dir) _ (by decide)
          (by rw [hpp]; exact hparent)
          (by show isRed (subAt ((rest.map Fr.dir).reverse ++ [Dir.L]) _) = false
              rw [hpg, huncle]; exact hublack)
        rw [hpg] at hm
        exact hm.symm

end XrsVerif.ILVs
