import XrsVerif.Proofs.ILViewshedDelCut
import XrsVerif.Proofs.ILViewshedDelPass
import XrsVerif.Proofs.ILViewshedFixInsLoop
/-
  Proofs/ILViewshedDelSplice.lean -- the splice of `_delete_from_tree` (`delSpliceItems`): the node `y` (which has a NIL
  child) is cut out of the tree, its only child `x` (possibly NIL) takes its place.

  * `spliceArr`           the link array afterwards: `x.parent = y.parent` (written to the NIL row when `x` is NIL, as in
                          CLRS), and the child cell of `y`'s parent redirected to `x`;
  * `spliceArr_linked`    the links then spell out `plug x cy` (`cy` the position of `y`), row `y` and every colour cell
                          untouched;
  * `delSplice_spec`      the generated statements compute it, and set `x`, `to_fix`, `root`, `cur_node`, `deleted`.
-/
set_option linter.unusedSectionVars false
set_option linter.unusedVariables false
set_option linter.unusedSimpArgs false
namespace XrsVerif.ILVs
open XrsVerif XrsVerif.IL XrsVerif.Viewshed
variable {F : Type} [Fl F]

/-- `y`'s only child: the left one unless it is NIL -/
def spliceSub (yl yr : Sh) : Sh :=
  match yl with
  | .nil => yr
  | .node a b c => .node a b c

/-- the link array after the splice -/
def spliceArr (N : List Int) (n : Nat) (xp : Int) (cy : Ctx) : List Int :=
  match cy with
  | [] => N.set (rowOf n xp * 4 + 3) (-1)
  | .L p _ :: _ => (N.set (rowOf n xp * 4 + 3) (p : Int)).set (p * 4 + 1) xp
  | .R _ p :: _ => (N.set (rowOf n xp * 4 + 3) (p : Int)).set (p * 4 + 2) xp

/-- the cells of the link array after the splice -/
theorem spliceArr_cells (N : List Int) (n : Nat) (xp : Int) (cy : Ctx) (hlen : N.length = n * 4) (hx : rowOf n xp < n)
    (hp : ∀ fr rest, cy = fr :: rest → fr.idx + 1 < n) :
    (spliceArr N n xp cy).length = N.length ∧
    (∀ j, nAt (spliceArr N n xp cy) j 0 = nAt N j 0) ∧
    (∀ j k, k < 4 → j ≠ rowOf n xp → (∀ fr rest, cy = fr :: rest → j ≠ fr.idx) → nAt (spliceArr N n xp cy) j k = nAt N j k) ∧
    (∀ k, k < 3 → (∀ fr rest, cy = fr :: rest → rowOf n xp ≠ fr.idx) →
      nAt (spliceArr N n xp cy) (rowOf n xp) k = nAt N (rowOf n xp) k) ∧
    ((∀ fr rest, cy = fr :: rest → rowOf n xp ≠ fr.idx) → nAt (spliceArr N n xp cy) (rowOf n xp) 3 = ctxPar cy) := by
  have l0 : rowOf n xp * 4 + 3 < N.length := by omega
  cases cy with
  | nil =>
    simp only [spliceArr, ctxPar]
    refine ⟨by simp, fun j => ?_, fun j k hk h1 _ => ?_, fun k hk _ => ?_, fun _ => ?_⟩
    · rw [nAt_set _ _ _ _ _ _ (by decide) (by decide) l0]; simp
    · rw [nAt_set _ _ _ _ _ _ (by decide) hk l0]; simp [h1]
    · rw [nAt_set _ _ _ _ _ _ (by decide) (by omega) l0]
      have : ¬ (k = 3) := by omega
      simp [this]
    · rw [nAt_set _ _ _ _ _ _ (by decide) (by decide) l0]; simp
  | cons fr rest =>
    have hpn := hp fr rest rfl
    cases fr with
    | L p r =>
      simp only [Fr.idx] at hpn
      have l1 : p * 4 + 1 < (N.set (rowOf n xp * 4 + 3) (p : Int)).length := by simp; omega
      simp only [spliceArr, ctxPar]
      refine ⟨by simp, fun j => ?_, fun j k hk h1 h2 => ?_, fun k hk h2 => ?_, fun h2 => ?_⟩
      · rw [nAt_set _ _ _ _ _ _ (by decide) (by decide) l1, nAt_set _ _ _ _ _ _ (by decide) (by decide) l0]; simp
      · have h2' := h2 _ _ rfl
        simp only [Fr.idx] at h2'
        rw [nAt_set _ _ _ _ _ _ (by decide) hk l1, nAt_set _ _ _ _ _ _ (by decide) hk l0]; simp [h1, h2']
      · have h2' := h2 _ _ rfl
        simp only [Fr.idx] at h2'
        rw [nAt_set _ _ _ _ _ _ (by decide) (by omega) l1, nAt_set _ _ _ _ _ _ (by decide) (by omega) l0]
        have : ¬ (k = 3) := by omega
        simp [this, h2']
      · have h2' := h2 _ _ rfl
        simp only [Fr.idx] at h2'
        rw [nAt_set _ _ _ _ _ _ (by decide) (by decide) l1, nAt_set _ _ _ _ _ _ (by decide) (by decide) l0]; simp [h2']
    | R l p =>
      simp only [Fr.idx] at hpn
      have l1 : p * 4 + 2 < (N.set (rowOf n xp * 4 + 3) (p : Int)).length := by simp; omega
      simp only [spliceArr, ctxPar]
      refine ⟨by simp, fun j => ?_, fun j k hk h1 h2 => ?_, fun k hk h2 => ?_, fun h2 => ?_⟩
      · rw [nAt_set _ _ _ _ _ _ (by decide) (by decide) l1, nAt_set _ _ _ _ _ _ (by decide) (by decide) l0]; simp
      · have h2' := h2 _ _ rfl
        simp only [Fr.idx] at h2'
        rw [nAt_set _ _ _ _ _ _ (by decide) hk l1, nAt_set _ _ _ _ _ _ (by decide) hk l0]; simp [h1, h2']
      · have h2' := h2 _ _ rfl
        simp only [Fr.idx] at h2'
        rw [nAt_set _ _ _ _ _ _ (by decide) (by omega) l1, nAt_set _ _ _ _ _ _ (by decide) (by omega) l0]
        have : ¬ (k = 3) := by omega
        simp [this, h2']
      · have h2' := h2 _ _ rfl
        simp only [Fr.idx] at h2'
        rw [nAt_set _ _ _ _ _ _ (by decide) (by decide) l1, nAt_set _ _ _ _ _ _ (by decide) (by decide) l0]; simp [h2']

/-- the cells of the parent row after the splice -/
theorem spliceArr_parent (N : List Int) (n : Nat) (xp : Int) (fr : Fr) (rest : Ctx) (hlen : N.length = n * 4)
    (hx : rowOf n xp < n) (hp : fr.idx + 1 < n) (hne : rowOf n xp ≠ fr.idx) :
    nAt (spliceArr N n xp (fr :: rest)) fr.idx 3 = nAt N fr.idx 3 ∧
    (match fr with
      | .L p _ => nAt (spliceArr N n xp (fr :: rest)) p 1 = xp ∧ nAt (spliceArr N n xp (fr :: rest)) p 2 = nAt N p 2
      | .R _ p => nAt (spliceArr N n xp (fr :: rest)) p 2 = xp ∧ nAt (spliceArr N n xp (fr :: rest)) p 1 = nAt N p 1) := by
  have l0 : rowOf n xp * 4 + 3 < N.length := by omega
  cases fr with
  | L p r =>
    simp only [Fr.idx] at hp hne
    have l1 : p * 4 + 1 < (N.set (rowOf n xp * 4 + 3) (p : Int)).length := by simp; omega
    simp only [spliceArr, Fr.idx]
    refine ⟨?_, ?_, ?_⟩
    · rw [nAt_set _ _ _ _ _ _ (by decide) (by decide) l1, nAt_set _ _ _ _ _ _ (by decide) (by decide) l0]; simp [Ne.symm hne]
    · rw [nAt_set _ _ _ _ _ _ (by decide) (by decide) l1]; simp
    · rw [nAt_set _ _ _ _ _ _ (by decide) (by decide) l1, nAt_set _ _ _ _ _ _ (by decide) (by decide) l0]; simp
  | R l p =>
    simp only [Fr.idx] at hp hne
    have l1 : p * 4 + 2 < (N.set (rowOf n xp * 4 + 3) (p : Int)).length := by simp; omega
    simp only [spliceArr, Fr.idx]
    refine ⟨?_, ?_, ?_⟩
    · rw [nAt_set _ _ _ _ _ _ (by decide) (by decide) l1, nAt_set _ _ _ _ _ _ (by decide) (by decide) l0]; simp [Ne.symm hne]
    · rw [nAt_set _ _ _ _ _ _ (by decide) (by decide) l1]; simp
    · rw [nAt_set _ _ _ _ _ _ (by decide) (by decide) l1, nAt_set _ _ _ _ _ _ (by decide) (by decide) l0]; simp

theorem spliceSub_sublist (yl : Sh) (y : Nat) (yr : Sh) : (spliceSub yl yr).idxs.Sublist (Sh.node yl y yr).idxs := by
  cases yl with
  | nil => simp [spliceSub, Sh.idxs]
  | node a b c => simp only [spliceSub, Sh.idxs]; exact List.sublist_append_left _ _

/-- **the splice re-links the tree**: `y`'s only child takes `y`'s place -/
theorem spliceArr_linked {N : List Int} {n : Nat} (cy : Ctx) (yl : Sh) (y : Nat) (yr : Sh) (hone : yl = .nil ∨ yr = .nil)
    (hL : Linked N n (-1) (plug (.node yl y yr) cy)) (hN : (plug (.node yl y yr) cy).idxs.Nodup)
    (hlen : N.length = n * 4) (hn : 0 < n) :
    let xsh := spliceSub yl yr
    let N' := spliceArr N n xsh.ptr cy
    Linked N' n (-1) (plug xsh cy) ∧ (plug xsh cy).idxs.Nodup ∧ N'.length = N.length ∧ (∀ j, nAt N' j 0 = nAt N j 0) ∧
      (∀ k, k < 4 → nAt N' y k = nAt N y k) ∧ nAt N' (rowOf n xsh.ptr) 3 = ctxPar cy ∧
      (∀ j k, k < 4 → j ∉ (plug (.node yl y yr) cy).idxs → j ≠ n - 1 → nAt N' j k = nAt N j k) ∧
      (∀ i ∈ (plug xsh cy).idxs, i ∈ (plug (.node yl y yr) cy).idxs) ∧ y ∉ (plug xsh cy).idxs := by
  intro xsh N'
  obtain ⟨hly, hcy, hny⟩ := unplug cy _ hL hN
  obtain ⟨hyn, hy1, hy2, hy3, hlyl, hlyr⟩ := hly
  have hdy := Sh.ptr_ne_of_nodup yl yr y hny
  have hnd := (nodup_plug_iff cy (.node yl y yr)).mp hN
  have hdis : ∀ j ∈ ctxIdxs cy, j ∉ (Sh.node yl y yr).idxs := fun j hj h => (List.nodup_append.mp hnd).2.2 j h j hj rfl
  have hsub := spliceSub_sublist yl y yr
  have hxmem : ∀ i ∈ xsh.idxs, i ∈ (Sh.node yl y yr).idxs := fun i hi => hsub.subset hi
  -- `x` hangs below `y`
  have hlx : Linked N n (y : Int) xsh := by
    cases yl with
    | nil => exact hlyr
    | node a b c => exact hlyl
  have hyx : y ∉ xsh.idxs := by
    cases yl with
    | nil => exact hdy.2.2.2.2.2
    | node a b c => exact hdy.2.2.2.2.1
  have hxnd : xsh.idxs.Nodup := hny.sublist hsub
  have hxrow := rowOf_ptr_cases hlx
  have hxlt : rowOf n xsh.ptr < n := rowOf_ptr_lt hlx hn
  have hctxlt : ∀ j ∈ ctxIdxs cy, j + 1 < n := fun j hj =>
    Linked.idx_lt hL j ((mem_plug_iff cy _ j).mpr (Or.inr hj))
  have hxr_ctx : ∀ j ∈ ctxIdxs cy, j ≠ rowOf n xsh.ptr := by
    intro j hj e
    rcases hxrow with h | h
    · have := hctxlt j hj; omega
    · exact hdis j hj (hxmem _ (e ▸ h))
  have hxr_y : rowOf n xsh.ptr ≠ y := by
    intro e
    rcases hxrow with h | h
    · omega
    · exact hyx (e ▸ h)
  have hfrm : ∀ fr rest, cy = fr :: rest → fr.idx ∈ ctxIdxs cy := fun fr rest e => by rw [e, ctxIdxs_cons]; simp
  have hp : ∀ fr rest, cy = fr :: rest → fr.idx + 1 < n := fun fr rest e => hctxlt _ (hfrm fr rest e)
  have hxr_fr : ∀ fr rest, cy = fr :: rest → rowOf n xsh.ptr ≠ fr.idx := fun fr rest e h =>
    hxr_ctx _ (hfrm fr rest e) h.symm
  obtain ⟨c1, c2, c3, c4, c5⟩ := spliceArr_cells N n xsh.ptr cy hlen hxlt hp
  have c5' := c5 hxr_fr
  -- rows of the subtrees / of `y` are not frame rows
  have hnotfr : ∀ j, j ∈ (Sh.node yl y yr).idxs → ∀ fr rest, cy = fr :: rest → j ≠ fr.idx := fun j hj fr rest e h =>
    hdis _ (hfrm fr rest e) (h ▸ hj)
  -- the subtree of `x` under its new parent
  have hlx' : Linked N' n (ctxPar cy) xsh := by
    refine hlx.reparent hxnd (fun i hi => ?_) (fun i hi hne => ?_) (fun i hi => ?_)
    · by_cases e : i = rowOf n xsh.ptr
      · rw [e]; exact ⟨c4 1 (by decide) hxr_fr, c4 2 (by decide) hxr_fr⟩
      · exact ⟨c3 i 1 (by decide) e (hnotfr i (hxmem i hi)), c3 i 2 (by decide) e (hnotfr i (hxmem i hi))⟩
    · refine c3 i 3 (by decide) (fun e => hne ?_) (hnotfr i (hxmem i hi))
      cases hx : xsh with
      | nil => rw [hx] at hi; simp [Sh.idxs] at hi
      | node a b c => rw [hx] at e; simp only [Sh.ptr, rowOf_nat] at e ⊢; omega
    · have : rowOf n xsh.ptr = i := by rw [hi, rowOf_nat]
      rw [← this]; exact c5'
  -- the context above
  have hcy' : CtxLinked N' n xsh.ptr cy := by
    cases hcy_eq : cy with
    | nil => trivial
    | cons fr rest =>
      rw [hcy_eq] at hcy hnd
      have hfrn : fr.idx + 1 < n := hp fr rest hcy_eq
      have hpar := spliceArr_parent N n xsh.ptr fr rest hlen hxlt hfrn (hxr_fr fr rest hcy_eq)
      have hndc : (fr.idx :: (fr.sib.idxs ++ ctxIdxs rest)).Nodup := by
        rw [← ctxIdxs_cons]; exact (List.nodup_append.mp hnd).2.1
      have hnd2 := List.nodup_cons.mp hndc
      have hoth : ∀ j ∈ fr.sib.idxs ++ ctxIdxs rest, ∀ k, k < 4 → nAt N' j k = nAt N j k := by
        intro j hj k hk
        have hjc : j ∈ ctxIdxs cy := by rw [hcy_eq, ctxIdxs_cons]; exact List.mem_cons_of_mem _ hj
        refine c3 j k hk (hxr_ctx j hjc) (fun fr' rest' e => ?_)
        rw [hcy_eq] at e
        simp only [List.cons.injEq] at e
        rw [← e.1]
        intro h; exact hnd2.1 (h ▸ hj)
      have hsibne : (0 ≤ xsh.ptr → fr.sib.ptr ≠ xsh.ptr) := by
        intro h0 he
        obtain ⟨j, hj⟩ := Int.eq_ofNat_of_zero_le h0
        have h1 : j ∈ xsh.idxs := Sh.ptr_mem _ _ hj
        have h2 : j ∈ fr.sib.idxs := Sh.ptr_mem _ _ (he.trans hj)
        exact hdis j (by rw [hcy_eq, ctxIdxs_cons]; simp [h2]) (hxmem j h1)
      have hN'eq : N' = spliceArr N n xsh.ptr (fr :: rest) := by simp only [N', hcy_eq]
      rw [← hN'eq] at hpar
      cases fr with
      | L p r =>
        obtain ⟨g1, g2, g3, g4, g5, g6, g7⟩ := hcy
        obtain ⟨e3, e1, e2⟩ := hpar
        refine ⟨g1, e1, by rw [e2]; exact g3, hsibne, e3.trans g5, ?_, ?_⟩
        · exact g6.congr (fun j hj => ⟨hoth j (by simp [Fr.sib, hj]) 1 (by decide), hoth j (by simp [Fr.sib, hj]) 2 (by decide),
            hoth j (by simp [Fr.sib, hj]) 3 (by decide)⟩)
        · exact g7.congr (fun j hj => ⟨hoth j (by simp [hj]) 1 (by decide), hoth j (by simp [hj]) 2 (by decide),
            hoth j (by simp [hj]) 3 (by decide)⟩)
      | R l p =>
        obtain ⟨g1, g2, g3, g4, g5, g6, g7⟩ := hcy
        obtain ⟨e3, e1, e2⟩ := hpar
        refine ⟨g1, by rw [e2]; exact g2, e1, hsibne, e3.trans g5, ?_, ?_⟩
        · exact g6.congr (fun j hj => ⟨hoth j (by simp [Fr.sib, hj]) 1 (by decide), hoth j (by simp [Fr.sib, hj]) 2 (by decide),
            hoth j (by simp [Fr.sib, hj]) 3 (by decide)⟩)
        · exact g7.congr (fun j hj => ⟨hoth j (by simp [hj]) 1 (by decide), hoth j (by simp [hj]) 2 (by decide),
            hoth j (by simp [hj]) 3 (by decide)⟩)
  have hndnew : (xsh.idxs ++ ctxIdxs cy).Nodup := hnd.sublist (List.Sublist.append hsub (List.Sublist.refl _))
  refine ⟨replug cy xsh hlx' hcy', (nodup_plug_iff cy xsh).mpr hndnew, c1, c2,
    fun k hk => c3 y k hk (Ne.symm hxr_y) (hnotfr y (by simp [Sh.idxs])), c5', fun j k hk hj hjn => ?_, fun i hi => ?_, ?_⟩
  · refine c3 j k hk (fun e => ?_) (fun fr rest e h => hj ((mem_plug_iff cy _ j).mpr (Or.inr (h ▸ hfrm fr rest e))))
    rcases hxrow with h | h
    · exact hjn (e.trans h)
    · exact hj ((mem_plug_iff cy _ j).mpr (Or.inl (hxmem _ (e ▸ h))))
  · rw [mem_plug_iff] at hi ⊢
    rcases hi with hi | hi
    · exact Or.inl (hxmem i hi)
    · exact Or.inr hi
  · rw [mem_plug_iff]
    rintro (h | h)
    · exact hyx h
    · exact hdis y h (by simp [Sh.idxs])

/-- `to_fix` after the splice: `y`'s parent, or `x` when `y` was the root -/
def headOr (xp : Int) : Ctx → Int
  | [] => xp
  | fr :: _ => (fr.idx : Int)

/-- `root` after the splice -/
def rootOr (xp old : Int) : Ctx → Int
  | [] => xp
  | _ :: _ => old

/-- the generated splice: `deleted = y`, `x`, `x.parent = y.parent`, the child cell of `y`'s parent / `root`, `to_fix`,
    `cur_node = y` -/
theorem delSplice_spec (fuel n : Nat) (s : State F) (hv : VS s n) (hrun : s.ctl = .run) (cy : Ctx) (yl : Sh) (y : Nat)
    (yr : Sh) (hone : yl = .nil ∨ yr = .nil)
    (hL : Linked (s.ia "tree_nodes") n (-1) (plug (.node yl y yr) cy)) (hN : (plug (.node yl y yr) cy).idxs.Nodup)
    (hy : s.ienv "y" = y) :
    let xsh := spliceSub yl yr
    let r := exec fuel (seqL delSpliceItems) s
    r.ctl = .run ∧ r.fa = s.fa ∧ r.shp = s.shp ∧
      r.ia "tree_nodes" = spliceArr (s.ia "tree_nodes") n xsh.ptr cy ∧
      r.ienv "x" = xsh.ptr ∧ r.ienv "to_fix" = headOr xsh.ptr cy ∧
      r.ienv "root" = rootOr xsh.ptr (s.ienv "root") cy ∧
      r.ienv "cur_node" = y ∧ r.ienv "deleted" = y ∧ r.ienv "y" = y ∧ r.ienv "z" = s.ienv "z" := by
  intro xsh r
  obtain ⟨hly, hcy, hny⟩ := unplug cy _ hL hN
  obtain ⟨hyn, hy1, hy2, hy3, hlyl, hlyr⟩ := hly
  have hiny : inRange (y : Int) n = true := inRange_ptr n _ (by omega) hv.pos
  have hlx : Linked (s.ia "tree_nodes") n (y : Int) xsh := by
    cases yl with
    | nil => exact hlyr
    | node a b c => exact hlyl
  have hinx := hlx.inRange hv.pos
  have hxlt : rowOf n xsh.ptr < n := rowOf_ptr_lt hlx hv.pos
  have hdy := Sh.ptr_ne_of_nodup yl yr y hny
  have hyx : y ∉ xsh.idxs := by
    cases yl with
    | nil => exact hdy.2.2.2.2.2
    | node a b c => exact hdy.2.2.2.2.1
  have hxr_y : rowOf n xsh.ptr ≠ y := by
    intro e
    rcases rowOf_ptr_cases hlx with h | h
    · omega
    · exact hyx (e ▸ h)
  have eN := fun (s' : State F) => evalN s' n
  have oN := fun (s' : State F) => okN s' n
  -- deleted, x
  have h1 : exec fuel (.setI "deleted" (.var "y")) s = { s with ienv := setS s.ienv "deleted" (y : Int) } := by
    rw [exec_setI _ _ _ _ (IE.ok_var _ _), IE.eval_var, hy]
  have h2 : exec fuel delPickX { s with ienv := setS s.ienv "deleted" (y : Int) } =
      { s with ienv := setS (setS s.ienv "deleted" (y : Int)) "x" xsh.ptr } := by
    cases yl with
    | nil =>
      simp only [Sh.ptr] at hy1
      simp [delPickX, exec, eN, oN, hv.shpN, hy, hiny, hy1, hy2, IE.ok_var, IE.eval_var, IE.ok_lit, IE.eval_lit, BE.ok, BE.eval,
        cmpInt, setS, xsh, spliceSub]
    | node a b c =>
      simp only [Sh.ptr] at hy1
      have hb : ¬ ((b : Int) = -1) := by omega
      simp [delPickX, exec, eN, oN, hv.shpN, hy, hiny, hy1, hy2, hb, IE.ok_var, IE.eval_var, IE.ok_lit, IE.eval_lit, BE.ok,
        BE.eval, cmpInt, setS, xsh, spliceSub, Sh.ptr]
  generalize hs2 : ({ s with ienv := setS (setS s.ienv "deleted" (y : Int)) "x" xsh.ptr } : State F) = s2 at h2
  have hv2 : VS s2 n := by rw [← hs2]; exact hv.of_eq rfl rfl rfl
  have hrun2 : s2.ctl = .run := by rw [← hs2]; exact hrun
  have hia2 : s2.ia = s.ia := by rw [← hs2]
  have ex2 : s2.ienv "x" = xsh.ptr := by rw [← hs2]; simp [setS]
  have ey2 : s2.ienv "y" = y := by rw [← hs2]; simp [setS, hy]
  -- x.parent = y.parent
  have h3 := exec_stN fuel s2 n hv2.shpN "x" 3 (.ld2 "tree_nodes" (.var "y") (.lit 3)) (by decide) (by rw [ex2]; exact hinx)
    (by rw [okN s2 n hv2.shpN "y" 3 (by decide), ey2]; exact hiny)
  rw [ex2, evalN s2 n hv2.shpN "y" 3 (by decide), ey2, rowOf_nat, hia2, show (3 : Int).toNat = 3 from rfl, hy3] at h3
  generalize hs3 : ({ s2 with ia := (setS s.ia "tree_nodes" ((s.ia "tree_nodes").set (rowOf n xsh.ptr * 4 + 3) (ctxPar cy))) } : State F) = s3 at h3
  have hlen3 : (s3.ia "tree_nodes").length = n * 4 := by rw [← hs3]; simp [setS, hv.lenN]
  have hv3 : VS s3 n := ⟨by rw [← hs3]; exact hv2.shpV, by rw [← hs3]; exact hv2.shpN, by rw [← hs3]; exact hv2.lenV, hlen3, hv.pos⟩
  have hrun3 : s3.ctl = .run := by rw [← hs3]; exact hrun2
  have hN3 : s3.ia "tree_nodes" = (s.ia "tree_nodes").set (rowOf n xsh.ptr * 4 + 3) (ctxPar cy) := by rw [← hs3]; simp [setS]
  have ex3 : s3.ienv "x" = xsh.ptr := by rw [← hs3]; exact ex2
  have ey3 : s3.ienv "y" = y := by rw [← hs3]; exact ey2
  have ez3 : s3.ienv "z" = s.ienv "z" := by rw [← hs3, ← hs2]; simp [setS]
  have ed3 : s3.ienv "deleted" = y := by rw [← hs3, ← hs2]; simp [setS]
  have er3 : s3.ienv "root" = s.ienv "root" := by rw [← hs3, ← hs2]; simp [setS]
  have hfa3 : s3.fa = s.fa := by rw [← hs3, ← hs2]
  have hshp3 : s3.shp = s.shp := by rw [← hs3, ← hs2]
  have l0 : rowOf n xsh.ptr * 4 + 3 < (s.ia "tree_nodes").length := by rw [hv.lenN]; omega
  have hget3 : ∀ j k, k < 4 → nAt (s3.ia "tree_nodes") j k =
      if j = rowOf n xsh.ptr ∧ k = 3 then ctxPar cy else nAt (s.ia "tree_nodes") j k := fun j k hk => by
    rw [hN3, nAt_set _ _ _ _ _ _ (by decide) hk l0]
  have hy3' : nAt (s3.ia "tree_nodes") y 3 = ctxPar cy := by
    rw [hget3 y 3 (by decide)]; simp [Ne.symm hxr_y, hy3]
  -- the child cell of the parent, or the root
  have hfin : ∀ (s4 : State F), exec fuel delRelink s3 = s4 → s4.ctl = .run →
      r = { s4 with ienv := setS s4.ienv "cur_node" (s4.ienv "y") } := by
    intro s4 h4 hrun4
    have h5 : exec fuel (.setI "cur_node" (.var "y")) s4 = { s4 with ienv := setS s4.ienv "cur_node" (s4.ienv "y") } := by
      rw [exec_setI _ _ _ _ (IE.ok_var _ _), IE.eval_var]
    simp only [r, delSpliceItems, seqL]
    rw [exec_seq_run _ _ _ _ (by rw [h1]; exact hrun), h1, exec_seq_run _ _ _ _ (by rw [h2]; exact hrun2), h2,
      exec_seq_run _ _ _ _ (by rw [h3]; exact hrun3), h3, exec_seq_run _ _ _ _ (by rw [h4]; exact hrun4), h4, h5]
  have sN := fun (s' : State F) => exec_stN fuel s' n
  cases cy with
  | nil =>
    simp only [ctxPar] at hy3'
    have h4 : exec fuel delRelink s3 =
        { s3 with ienv := setS (setS s3.ienv "root" xsh.ptr) "to_fix" xsh.ptr } := by
      simp [delRelink, exec, eN, oN, hv3.shpN, ey3, ex3, hiny, hy3', IE.ok_var, IE.eval_var, IE.ok_lit, IE.eval_lit, BE.ok, BE.eval,
        cmpInt, setS, hrun3]
    rw [hfin _ h4 hrun3]
    refine ⟨hrun3, hfa3, hshp3, by simp [hN3, spliceArr, ctxPar], by simp [setS, ex3], by simp [setS, headOr],
      by simp [setS, rootOr], by simp [setS, ey3], by simp [setS, ed3], by simp [setS, ey3], by simp [setS, ez3]⟩
  | cons fr rest =>
    rw [ctxPar_cons] at hy3' hN3
    obtain ⟨hpn, _, _⟩ := hcy.step
    have hinp : inRange (fr.idx : Int) n = true := inRange_ptr n _ (by omega) hv.pos
    have hne1 : ¬ ((fr.idx : Int) = -1) := by omega
    have hp1 : nAt (s3.ia "tree_nodes") fr.idx 1 = nAt (s.ia "tree_nodes") fr.idx 1 := by
      rw [hget3 _ 1 (by decide)]; simp
    cases fr with
    | L p r0 =>
      obtain ⟨_, g2, _⟩ := hcy
      simp only [Sh.ptr] at g2
      simp only [Fr.idx] at hy3' hinp hne1 hp1 hN3
      have h4 : exec fuel delRelink s3 =
          { s3 with ienv := setS (setS s3.ienv "y_parent" (p : Int)) "to_fix" (p : Int),
                    ia := (setS s3.ia "tree_nodes" ((s3.ia "tree_nodes").set (p * 4 + 1) xsh.ptr)) } := by
        simp [delRelink, exec, sN, eN, oN, hv3.shpN, ey3, ex3, hiny, hinp, hy3', hne1, hp1, g2, IE.ok_var, IE.eval_var, IE.ok_lit,
          IE.eval_lit, BE.ok, BE.eval, cmpInt, setS, hrun3]
      rw [hfin _ h4 hrun3]
      refine ⟨hrun3, hfa3, hshp3, by simp [setS, hN3, spliceArr], by simp [setS, ex3], by simp [setS, headOr, Fr.idx],
        by simp [setS, er3, rootOr], by simp [setS, ey3], by simp [setS, ed3], by simp [setS, ey3], by simp [setS, ez3]⟩
    | R l0 p =>
      obtain ⟨_, g2, _, g4, _⟩ := hcy
      simp only [Sh.ptr] at g4
      simp only [Fr.idx] at hy3' hinp hne1 hp1 hN3
      have hne2 : ¬ ((y : Int) = nAt (s.ia "tree_nodes") p 1) := by rw [g2]; intro e; exact g4 (by omega) e.symm
      have h4 : exec fuel delRelink s3 =
          { s3 with ienv := setS (setS s3.ienv "y_parent" (p : Int)) "to_fix" (p : Int),
                    ia := (setS s3.ia "tree_nodes" ((s3.ia "tree_nodes").set (p * 4 + 2) xsh.ptr)) } := by
        simp [delRelink, exec, sN, eN, oN, hv3.shpN, ey3, ex3, hiny, hinp, hy3', hne1, hp1, hne2, IE.ok_var, IE.eval_var, IE.ok_lit,
          IE.eval_lit, BE.ok, BE.eval, cmpInt, setS, hrun3]
      rw [hfin _ h4 hrun3]
      refine ⟨hrun3, hfa3, hshp3, by simp [setS, hN3, spliceArr], by simp [setS, ex3], by simp [setS, headOr, Fr.idx],
        by simp [setS, er3, rootOr], by simp [setS, ey3], by simp [setS, ed3], by simp [setS, ey3], by simp [setS, ez3]⟩

end XrsVerif.ILVs
