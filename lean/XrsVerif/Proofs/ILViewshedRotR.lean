import XrsVerif.Proofs.ILViewshedRot
/-
  Proofs/ILViewshedRotR.lean -- refinement of `Gen.IL.vsRightRotate` (`_right_rotate`) to the hand model's `rotR`:
  the mirror image of Proofs/ILViewshedRot.lean (`y` on top, `x` its left child, the middle subtree `xr` moves).
-/
set_option linter.unusedSectionVars false
set_option linter.unusedVariables false
set_option linter.unusedSimpArgs false
namespace XrsVerif.ILVs
open XrsVerif XrsVerif.IL XrsVerif.Viewshed
variable {F : Type} [Fl F]

def rrotItems : List St :=
  [(.setI "x" (.ld2 "tree_nodes" (.var "y") (.lit 1))),
   (.setI "x_right" (.ld2 "tree_nodes" (.var "x") (.lit 2))),
   (.setI "y_right" (.ld2 "tree_nodes" (.var "y") (.lit 2))),
   (selMax "tmp_max" (.ld2 "tree_vals" (.var "x_right") (.lit 7)) (.ld2 "tree_vals" (.var "y_right") (.lit 7))),
   (.setI "_find_value_min_value1$node_id" (.var "y")),
   (minvScope "_find_value_min_value1$node_id" "_find_value_min_value1$ret0"),
   (.setF "min_value" (.var "_find_value_min_value1$ret0")),
   (stMax "tree_vals" (.var "y") (.lit 7) (.var "tmp_max") (.var "min_value")),
   (.setI "x_left" (.ld2 "tree_nodes" (.var "x") (.lit 1))),
   (selMax "tmp_max" (.ld2 "tree_vals" (.var "x_left") (.lit 7)) (.ld2 "tree_vals" (.var "y") (.lit 7))),
   (.setI "_find_value_min_value2$node_id" (.var "x")),
   (minvScope "_find_value_min_value2$node_id" "_find_value_min_value2$ret0"),
   (.setF "min_value" (.var "_find_value_min_value2$ret0")),
   (stMax "tree_vals" (.var "x") (.lit 7) (.var "tmp_max") (.var "min_value"))]

def rrotB : St :=
  (.seq (.stI2 "tree_nodes" (.var "y") (.lit 1) (.ld2 "tree_nodes" (.var "x") (.lit 2)))
  (.seq (.setI "x_right" (.ld2 "tree_nodes" (.var "x") (.lit 2)))
  (.seq (.stI2 "tree_nodes" (.var "x_right") (.lit 3) (.var "y"))
  (.seq (.stI2 "tree_nodes" (.var "x") (.lit 3) (.ld2 "tree_nodes" (.var "y") (.lit 3)))
  (.seq (.ite (.cmpI .eq (.ld2 "tree_nodes" (.var "y") (.lit 3)) (.lit (-1)))
      (.setI "root" (.var "x"))
      (.seq (.setI "y_parent" (.ld2 "tree_nodes" (.var "y") (.lit 3)))
      (.ite (.cmpI .eq (.ld2 "tree_nodes" (.var "y_parent") (.lit 1)) (.var "y"))
        (.stI2 "tree_nodes" (.var "y_parent") (.lit 1) (.var "x"))
        (.stI2 "tree_nodes" (.var "y_parent") (.lit 2) (.var "x")))))
  (.seq (.stI2 "tree_nodes" (.var "x") (.lit 2) (.var "y"))
  (.seq (.stI2 "tree_nodes" (.var "y") (.lit 3) (.var "x")) (.seq (.setI "ret0" (.var "root")) .ret))))))))

theorem vsRightRotate_body : Gen.IL.vsRightRotate.body = seqK rrotItems rrotB := rfl



/-- the stored maxima `_right_rotate` writes: `y` first, then `x` (which reads the new value of `y`) -/
def rrotYm (V : List F) (n : Nat) (xr : Sh) (y : Nat) (yr : Sh) : Fv F :=
  mx2 (mx2 (mxAt V n xr.ptr) (mxAt V n yr.ptr)) (minv (nodeAt V y))
def rrotXm (V : List F) (n : Nat) (xl : Sh) (x : Nat) (xr : Sh) (y : Nat) (yr : Sh) : Fv F :=
  mx2 (mx2 (mxAt V n xl.ptr) (rrotYm V n xr y yr)) (minv (nodeAt V x))

theorem rrotA_spec (fuel n : Nat) (s : State F) (hv : VS s n) (hrun : s.ctl = .run) (xl : Sh) (x : Nat) (xr : Sh) (y : Nat)
    (yr : Sh) (par : Int) (hl : Linked (s.ia "tree_nodes") n par (.node (.node xl x xr) y yr))
    (hn : (Sh.node (.node xl x xr) y yr).idxs.Nodup) (hy : s.ienv "y" = y) :
    let q := exec fuel (seqL rrotItems) s
    q.ctl = .run ∧
      q.fa = setS s.fa "tree_vals" (((s.fa "tree_vals").set (y * 8 + 7) (rrotYm (s.fa "tree_vals") n xr y yr).v).set
        (x * 8 + 7) (rrotXm (s.fa "tree_vals") n xl x xr y yr).v) ∧
      q.ia = s.ia ∧ q.shp = s.shp ∧ q.ienv "x" = x ∧ q.ienv "y" = y ∧ q.ienv "root" = s.ienv "root" := by
  obtain ⟨hyn, hyL, hyR, hyP, hlx, hlyr⟩ := hl
  obtain ⟨hxn, hxL, hxR, hxP, hlxl, hlxr⟩ := hlx
  simp only [Sh.ptr] at hyL
  have hinx : inRange (x : Int) n = true := inRange_ptr n _ (by omega) hv.pos
  have hiny : inRange (y : Int) n = true := inRange_ptr n _ (by omega) hv.pos
  have hinxl := hlxl.inRange hv.pos
  have hinxr := hlxr.inRange hv.pos
  have hinyr := hlyr.inRange hv.pos
  have eN := fun (s' : State F) => evalN s' n
  have oN := fun (s' : State F) => okN s' n
  have eV := fun (s' : State F) => evalV s' n
  have oV := fun (s' : State F) => okV s' n
  have mS := fun (a b : String) (s' : State F) => minvScope_spec a b fuel n s'
  have sM := fun (s' : State F) => stMax_spec fuel s' n
  have hlen : y * 8 + 7 < (s.fa "tree_vals").length := by rw [hv.lenV]; omega
  have hd := Sh.ptr_ne_of_nodup (.node xl x xr) yr y hn
  have hxy : x ≠ y := fun e => hd.2.2.2.2.1 (by simp [Sh.idxs, e])
  have hxly : rowOf n xl.ptr ≠ y := by
    cases xl with
    | nil => simp only [Sh.ptr, rowOf_neg_one]; omega
    | node a b c =>
      simp only [Sh.ptr, rowOf_nat]
      intro e
      exact hd.2.2.2.2.1 (by simp [Sh.idxs, e])
  intro q
  simp [q, rrotItems, seqL, exec, selMax_spec, mS, sM, eN, oN, eV, oV, hv.shpN, hv.shpV, hy, hinx, hiny, hinxl, hinxr, hinyr,
    hxL, hxR, hyL, hyR, IE.ok_var, IE.eval_var, FE.ok_var, FE.eval_var, setS, hrun, vAt_set, hlen, hxy, hxy.symm, hxly,
    nodeAt_set7, setS_setS_same, rrotXm, rrotYm, mxAt]

/-- what the pointer surgery of `_right_rotate` establishes, cell by cell -/
structure RRotCells (N N' : List Int) (n : Nat) (xl : Sh) (x : Nat) (xr : Sh) (y : Nat) (yr : Sh) (par : Int) : Prop where
  len : N'.length = N.length
  x2 : nAt N' x 2 = y
  x1 : nAt N' x 1 = xl.ptr
  x3 : nAt N' x 3 = par
  y2 : nAt N' y 2 = yr.ptr
  y1 : nAt N' y 1 = xr.ptr
  y3 : nAt N' y 3 = x
  xr3 : nAt N' (rowOf n xr.ptr) 3 = y
  col0 : ∀ i, nAt N' i 0 = nAt N i 0
  other12 : ∀ i, i ≠ x → i ≠ y → (par < 0 ∨ (i : Int) ≠ par) → nAt N' i 1 = nAt N i 1 ∧ nAt N' i 2 = nAt N i 2
  other3 : ∀ i, i ≠ x → i ≠ y → i ≠ rowOf n xr.ptr → nAt N' i 3 = nAt N i 3
  parent : ∀ p : Nat, par = (p : Int) →
    (nAt N p 1 = y → nAt N' p 1 = x ∧ nAt N' p 2 = nAt N p 2) ∧
    (nAt N p 1 ≠ y → nAt N' p 2 = x ∧ nAt N' p 1 = nAt N p 1)

theorem rrotB_spec (fuel n : Nat) (s : State F) (hv : VS s n) (hrun : s.ctl = .run) (xl : Sh) (x : Nat) (xr : Sh) (y : Nat)
    (yr : Sh) (par : Int) (hl : Linked (s.ia "tree_nodes") n par (.node (.node xl x xr) y yr))
    (hn : (Sh.node (.node xl x xr) y yr).idxs.Nodup) (hx : s.ienv "x" = x) (hy : s.ienv "y" = y)
    (hpar : par = -1 ∨ ∃ p : Nat, par = (p : Int) ∧ p + 1 < n ∧ p ∉ (Sh.node (.node xl x xr) y yr).idxs) :
    let q := exec fuel rrotB s
    q.ctl = .ret ∧ q.fa = s.fa ∧ q.shp = s.shp ∧
      q.ienv "ret0" = (if par = -1 then (x : Int) else s.ienv "root") ∧
      (∀ a, a ≠ "tree_nodes" → q.ia a = s.ia a) ∧
      RRotCells (s.ia "tree_nodes") (q.ia "tree_nodes") n xl x xr y yr par := by
  obtain ⟨hyn, hyL, hyR, hyP, hlx, hlyr⟩ := hl
  obtain ⟨hxn, hxL, hxR, hxP, hlxl, hlxr⟩ := hlx
  simp only [Sh.ptr] at hyL
  have hinx : inRange (x : Int) n = true := inRange_ptr n _ (by omega) hv.pos
  have hiny : inRange (y : Int) n = true := inRange_ptr n _ (by omega) hv.pos
  have hinxr := hlxr.inRange hv.pos
  have hmr := rowOf_ptr_lt hlxr hv.pos
  have eN := fun (s' : State F) => evalN s' n
  have oN := fun (s' : State F) => okN s' n
  have sN := fun (s' : State F) => exec_stN fuel s' n
  have hd := Sh.ptr_ne_of_nodup (.node xl x xr) yr y hn
  have hd2 := Sh.ptr_ne_of_nodup xl xr x hd.2.2.1
  have hxy : x ≠ y := fun e => hd.2.2.2.2.1 (by simp [Sh.idxs, e])
  have hmy : rowOf n xr.ptr ≠ y := by
    cases xr with
    | nil => simp only [Sh.ptr, rowOf_neg_one]; omega
    | node a b c =>
      simp only [Sh.ptr, rowOf_nat]
      intro e
      exact hd.2.2.2.2.1 (by simp [Sh.idxs, e])
  have hmx : rowOf n xr.ptr ≠ x := by
    cases xr with
    | nil => simp only [Sh.ptr, rowOf_neg_one]; omega
    | node a b c =>
      simp only [Sh.ptr, rowOf_nat]
      intro e
      exact hd2.2.2.2.2.2 (by simp [Sh.idxs, e])
  have hL : (s.ia "tree_nodes").length = n * 4 := hv.lenN
  have l1 : y * 4 + 1 < (s.ia "tree_nodes").length := by omega
  have l2 : rowOf n xr.ptr * 4 + 3 < (s.ia "tree_nodes").length := by omega
  have l3 : x * 4 + 3 < (s.ia "tree_nodes").length := by omega
  have l4 : x * 4 + 2 < (s.ia "tree_nodes").length := by omega
  have l5 : y * 4 + 3 < (s.ia "tree_nodes").length := by omega
  intro q
  rcases hpar with hp | ⟨p, hp, hpn, hpi⟩
  · subst hp
    have hne : ¬ ((y : Int) = -1) := by omega
    simp [q, rrotB, exec, sN, eN, oN, hv.shpN, hx, hy, hinx, hiny, hinxr, hxL, hxR, hyL, hyR, hyP, IE.ok_var, IE.eval_var,
      IE.ok_lit, IE.eval_lit, BE.ok, BE.eval, cmpInt, setS, hrun, nAt_set, l1, l2, l3, l4, l5, hxy, hxy.symm, hmx, hmy,
      hmx.symm, hmy.symm]
    refine ⟨fun a ha => by simp [ha], ?_⟩
    constructor
    · simp
    · simp [nAt_set, l1, l2, l3, l4, l5, hxy, hxy.symm, hmx, hmy, hmx.symm, hmy.symm]
    · simp [nAt_set, l1, l2, l3, l4, l5, hxy, hxy.symm, hmx, hmy, hmx.symm, hmy.symm, hxL]
    · simp [nAt_set, l1, l2, l3, l4, l5, hxy, hxy.symm, hmx, hmy, hmx.symm, hmy.symm]
    · simp [nAt_set, l1, l2, l3, l4, l5, hxy, hxy.symm, hmx, hmy, hmx.symm, hmy.symm, hyR]
    · simp [nAt_set, l1, l2, l3, l4, l5, hxy, hxy.symm, hmx, hmy, hmx.symm, hmy.symm]
    · simp [nAt_set, l1, l2, l3, l4, l5, hxy, hxy.symm, hmx, hmy, hmx.symm, hmy.symm]
    · simp [nAt_set, l1, l2, l3, l4, l5, hxy, hxy.symm, hmx, hmy, hmx.symm, hmy.symm]
    · intro i; simp [nAt_set, l1, l2, l3, l4, l5]
    · intro i h1 h2 _; simp [nAt_set, l1, l2, l3, l4, l5, h1, h2]
    · intro i h1 h2 h3; simp [nAt_set, l1, l2, l3, l4, l5, h1, h2, h3]
    · intro p hp; omega
  · subst hp
    have hne : ¬ ((p : Int) = -1) := by omega
    have hinp : inRange (p : Int) n = true := inRange_ptr n _ (by omega) hv.pos
    have hpx : p ≠ x := fun e => hpi (by simp [Sh.idxs, e])
    have hpy : p ≠ y := fun e => hpi (by simp [Sh.idxs, e])
    have hpm : rowOf n xr.ptr ≠ p := by
      cases xr with
      | nil => simp only [Sh.ptr, rowOf_neg_one]; omega
      | node a b c =>
        simp only [Sh.ptr, rowOf_nat]
        intro e
        exact hpi (by simp [Sh.idxs, e])
    have l6 : p * 4 + 1 < (s.ia "tree_nodes").length := by omega
    have l7 : p * 4 + 2 < (s.ia "tree_nodes").length := by omega
    by_cases hc : nAt (s.ia "tree_nodes") p 1 = (y : Int)
    · simp [q, rrotB, exec, sN, eN, oN, hv.shpN, hx, hy, hinx, hiny, hinxr, hinp, hxL, hxR, hyL, hyR, hyP, IE.ok_var,
        IE.eval_var, IE.ok_lit, IE.eval_lit, BE.ok, BE.eval, cmpInt, setS, hrun, nAt_set, l1, l2, l3, l4, l5, l6, l7, hxy,
        hxy.symm, hmx, hmy, hmx.symm, hmy.symm, hne, hpx, hpy, hpx.symm, hpy.symm, hpm, hpm.symm, hc]
      refine ⟨fun a ha => by simp [ha], ?_⟩
      constructor
      · simp
      · simp [nAt_set, l1, l2, l3, l4, l5, l6, l7, hxy, hxy.symm, hmx, hmy, hmx.symm, hmy.symm, hpx, hpy, hpx.symm, hpy.symm]
      · simp [nAt_set, l1, l2, l3, l4, l5, l6, l7, hxy, hxy.symm, hmx, hmy, hmx.symm, hmy.symm, hpx, hpy, hpx.symm, hpy.symm, hxL]
      · simp [nAt_set, l1, l2, l3, l4, l5, l6, l7, hxy, hxy.symm, hmx, hmy, hmx.symm, hmy.symm, hpx, hpy, hpx.symm, hpy.symm]
      · simp [nAt_set, l1, l2, l3, l4, l5, l6, l7, hxy, hxy.symm, hmx, hmy, hmx.symm, hmy.symm, hpx, hpy, hpx.symm, hpy.symm, hyR]
      · simp [nAt_set, l1, l2, l3, l4, l5, l6, l7, hxy, hxy.symm, hmx, hmy, hmx.symm, hmy.symm, hpx, hpy, hpx.symm, hpy.symm]
      · simp [nAt_set, l1, l2, l3, l4, l5, l6, l7, hxy, hxy.symm, hmx, hmy, hmx.symm, hmy.symm, hpx, hpy, hpx.symm, hpy.symm]
      · simp [nAt_set, l1, l2, l3, l4, l5, l6, l7, hxy, hxy.symm, hmx, hmy, hmx.symm, hmy.symm, hpx, hpy, hpx.symm, hpy.symm, hpm, hpm.symm]
      · intro i; simp [nAt_set, l1, l2, l3, l4, l5, l6, l7]
      · intro i h1 h2 h3
        have h3' : i ≠ p := by rcases h3 with h3 | h3 <;> omega
        simp [nAt_set, l1, l2, l3, l4, l5, l6, l7, h1, h2, h3']
      · intro i h1 h2 h3; simp [nAt_set, l1, l2, l3, l4, l5, l6, l7, h1, h2, h3]
      · intro p' hp'
        have : p' = p := by omega
        subst this
        refine ⟨fun _ => ?_, fun h => absurd hc h⟩
        simp [nAt_set, l1, l2, l3, l4, l5, l6, l7, hpx, hpy, hpx.symm, hpy.symm, hpm, hpm.symm]
    · simp [q, rrotB, exec, sN, eN, oN, hv.shpN, hx, hy, hinx, hiny, hinxr, hinp, hxL, hxR, hyL, hyR, hyP, IE.ok_var,
        IE.eval_var, IE.ok_lit, IE.eval_lit, BE.ok, BE.eval, cmpInt, setS, hrun, nAt_set, l1, l2, l3, l4, l5, l6, l7, hxy,
        hxy.symm, hmx, hmy, hmx.symm, hmy.symm, hne, hpx, hpy, hpx.symm, hpy.symm, hpm, hpm.symm, hc, Ne.symm hc]
      refine ⟨fun a ha => by simp [ha], ?_⟩
      constructor
      · simp
      · simp [nAt_set, l1, l2, l3, l4, l5, l6, l7, hxy, hxy.symm, hmx, hmy, hmx.symm, hmy.symm, hpx, hpy, hpx.symm, hpy.symm]
      · simp [nAt_set, l1, l2, l3, l4, l5, l6, l7, hxy, hxy.symm, hmx, hmy, hmx.symm, hmy.symm, hpx, hpy, hpx.symm, hpy.symm, hxL]
      · simp [nAt_set, l1, l2, l3, l4, l5, l6, l7, hxy, hxy.symm, hmx, hmy, hmx.symm, hmy.symm, hpx, hpy, hpx.symm, hpy.symm]
      · simp [nAt_set, l1, l2, l3, l4, l5, l6, l7, hxy, hxy.symm, hmx, hmy, hmx.symm, hmy.symm, hpx, hpy, hpx.symm, hpy.symm, hyR]
      · simp [nAt_set, l1, l2, l3, l4, l5, l6, l7, hxy, hxy.symm, hmx, hmy, hmx.symm, hmy.symm, hpx, hpy, hpx.symm, hpy.symm]
      · simp [nAt_set, l1, l2, l3, l4, l5, l6, l7, hxy, hxy.symm, hmx, hmy, hmx.symm, hmy.symm, hpx, hpy, hpx.symm, hpy.symm]
      · simp [nAt_set, l1, l2, l3, l4, l5, l6, l7, hxy, hxy.symm, hmx, hmy, hmx.symm, hmy.symm, hpx, hpy, hpx.symm, hpy.symm, hpm, hpm.symm]
      · intro i; simp [nAt_set, l1, l2, l3, l4, l5, l6, l7]
      · intro i h1 h2 h3
        have h3' : i ≠ p := by rcases h3 with h3 | h3 <;> omega
        simp [nAt_set, l1, l2, l3, l4, l5, l6, l7, h1, h2, h3']
      · intro i h1 h2 h3; simp [nAt_set, l1, l2, l3, l4, l5, l6, l7, h1, h2, h3]
      · intro p' hp'
        have : p' = p := by omega
        subst this
        refine ⟨fun h => absurd h hc, fun _ => ?_⟩
        simp [nAt_set, l1, l2, l3, l4, l5, l6, l7, hpx, hpy, hpx.symm, hpy.symm, hpm, hpm.symm]

/-- **Refinement of `_right_rotate`** at the node `y` whose left child is `x` (mirror of `vsLeftRotate_refines`) -/
theorem vsRightRotate_refines (s : State F) (fuel n : Nat) (hv : VS s n) (hrun : s.ctl = .run) (xl : Sh) (x : Nat)
    (xr : Sh) (y : Nat) (yr : Sh) (par : Int)
    (hl : Linked (s.ia "tree_nodes") n par (.node (.node xl x xr) y yr))
    (hn : (Sh.node (.node xl x xr) y yr).idxs.Nodup) (hy : s.ienv "y" = y)
    (hpar : par = -1 ∨ ∃ p : Nat, par = (p : Int) ∧ p + 1 < n ∧ p ∉ (Sh.node (.node xl x xr) y yr).idxs) :
    let q := Gen.IL.vsRightRotate.run s fuel
    let S : Fv F := vAt (s.fa "tree_vals") (n - 1) 7
    q.ctl = .ret ∧ VS q n ∧
      q.ienv "ret0" = (if par = -1 then (x : Int) else s.ienv "root") ∧
      Linked (q.ia "tree_nodes") n par (.node xl x (.node xr y yr)) ∧
      absT (q.fa "tree_vals") (q.ia "tree_nodes") (.node xl x (.node xr y yr)) =
        rotR S (absT (s.fa "tree_vals") (s.ia "tree_nodes") (.node (.node xl x xr) y yr)) ∧
      vAt (q.fa "tree_vals") (n - 1) 7 = S ∧
      (∀ i, i ≠ x → i ≠ y → ∀ c, c < 8 → vAt (q.fa "tree_vals") i c = vAt (s.fa "tree_vals") i c) ∧
      RRotCells (s.ia "tree_nodes") (q.ia "tree_nodes") n xl x xr y yr par := by
  intro q S
  have hA := rrotA_spec fuel n s hv hrun xl x xr y yr par hl hn hy
  obtain ⟨a1, a2, a3, a4, a5, a6, a7⟩ := hA
  generalize hsA : exec fuel (seqL rrotItems) s = sA at a1 a2 a3 a4 a5 a6 a7
  obtain ⟨hyn, hyL, hyR, hyP, hlx, hlyr⟩ := id hl
  obtain ⟨hxn, hxL, hxR, hxP, hlxl, hlxr⟩ := hlx
  have hlenV : (s.fa "tree_vals").length = n * 8 := hv.lenV
  have hvA : VS sA n := by
    refine ⟨by rw [a4]; exact hv.shpV, by rw [a4]; exact hv.shpN, ?_, by rw [a3]; exact hv.lenN, hv.pos⟩
    rw [a2]; simp [setS, hv.lenV]
  have hB := rrotB_spec fuel n sA hvA a1 xl x xr y yr par (by rw [a3]; exact hl) hn a5 a6 hpar
  obtain ⟨b1, b2, b3, b4, b5, b6⟩ := hB
  have hq : q = exec fuel rrotB sA := by
    simp only [q, Prog.run, vsRightRotate_body, rrotItems]
    rw [exec_seqK, ← hsA, exec_seq_run _ _ _ _ (by rw [← rrotItems, hsA]; exact a1)]
    rfl
  rw [← hq] at b1 b2 b3 b4 b5 b6
  rw [a3] at b6
  rw [a7] at b4
  have hd := Sh.ptr_ne_of_nodup (.node xl x xr) yr y hn
  have hd2 := Sh.ptr_ne_of_nodup xl xr x hd.2.2.1
  have hxy : x ≠ y := fun e => hd.2.2.2.2.1 (by simp [Sh.idxs, e])
  have hly : y * 8 + 7 < (s.fa "tree_vals").length := by omega
  have hlx' : x * 8 + 7 < ((s.fa "tree_vals").set (y * 8 + 7) (rrotYm (s.fa "tree_vals") n xr y yr).v).length := by
    simp; omega
  have hqV : q.fa "tree_vals" = ((s.fa "tree_vals").set (y * 8 + 7) (rrotYm (s.fa "tree_vals") n xr y yr).v).set
      (x * 8 + 7) (rrotXm (s.fa "tree_vals") n xl x xr y yr).v := by rw [b2, a2]; simp [setS]
  have hVother : ∀ i, i ≠ x → i ≠ y → ∀ c, c < 8 → vAt (q.fa "tree_vals") i c = vAt (s.fa "tree_vals") i c := by
    intro i h1 h2 c hc
    rw [hqV, vAt_set _ _ _ _ _ _ (by decide) hc hlx', vAt_set _ _ _ _ _ _ (by decide) hc hly]
    simp [h1, h2]
  have hVy : vAt (q.fa "tree_vals") y 7 = rrotYm (s.fa "tree_vals") n xr y yr := by
    rw [hqV, vAt_set _ _ _ _ _ _ (by decide) (by decide) hlx', vAt_set _ _ _ _ _ _ (by decide) (by decide) hly]
    simp [hxy.symm]
  have hVx : vAt (q.fa "tree_vals") x 7 = rrotXm (s.fa "tree_vals") n xl x xr y yr := by
    rw [hqV, vAt_set _ _ _ _ _ _ (by decide) (by decide) hlx']
    simp
  have hndx : nodeAt (q.fa "tree_vals") x = nodeAt (s.fa "tree_vals") x := by rw [hqV, nodeAt_set7, nodeAt_set7]
  have hndy : nodeAt (q.fa "tree_vals") y = nodeAt (s.fa "tree_vals") y := by rw [hqV, nodeAt_set7, nodeAt_set7]
  have hrow : ∀ (sub : Sh) (pp : Int), Linked (s.ia "tree_nodes") n pp sub → (∀ i ∈ sub.idxs, i ≠ x ∧ i ≠ y) →
      (∀ i ∈ sub.idxs, i ∈ (Sh.node (.node xl x xr) y yr).idxs) →
      ∀ i ∈ sub.idxs, i ≠ x ∧ i ≠ y ∧ (par < 0 ∨ (i : Int) ≠ par) ∧ i + 1 < n := by
    intro sub pp hls hxy' hmem i hi
    refine ⟨(hxy' i hi).1, (hxy' i hi).2, ?_, hls.idx_lt i hi⟩
    rcases hpar with hp | ⟨p, hp, _, hpi⟩
    · left; omega
    · right; intro e; rw [hp] at e
      have : i = p := by omega
      exact hpi (this ▸ hmem i hi)
  have hn' : ((Sh.node xl x xr).idxs ++ y :: yr.idxs).Nodup := hn
  have hdis : ∀ a ∈ (Sh.node xl x xr).idxs, ∀ b ∈ yr.idxs, a ≠ b :=
    fun a ha b hb => (List.nodup_append.mp hn').2.2 a ha b (List.mem_cons_of_mem _ hb)
  have hdisx := List.nodup_append.mp (by simpa [Sh.idxs] using hd.2.2.1)
  have hxl := hrow xl _ hlxl (fun i hi => ⟨fun e => hd2.2.2.2.2.1 (e ▸ hi),
    fun e => hd.2.2.2.2.1 (by subst e; simp [Sh.idxs, hi])⟩) (fun i hi => by simp [Sh.idxs, hi])
  have hxr := hrow xr _ hlxr (fun i hi => ⟨fun e => hd2.2.2.2.2.2 (e ▸ hi),
    fun e => hd.2.2.2.2.1 (by subst e; simp [Sh.idxs, hi])⟩) (fun i hi => by simp [Sh.idxs, hi])
  have hyr := hrow yr _ hlyr (fun i hi => ⟨fun e => hdis x (by simp [Sh.idxs]) i hi e.symm,
    fun e => hd.2.2.2.2.2 (e ▸ hi)⟩) (fun i hi => by simp [Sh.idxs, hi])
  have hmrow := rowOf_ptr_cases hlxr
  have hne_m : ∀ (sub : Sh), (∀ i ∈ sub.idxs, i + 1 < n) → (∀ i ∈ sub.idxs, i ∉ xr.idxs) →
      ∀ i ∈ sub.idxs, i ≠ rowOf n xr.ptr := by
    intro sub h1 h2 i hi e
    rcases hmrow with h | h
    · have := h1 i hi; omega
    · exact h2 i hi (e ▸ h)
  have hxl_xr : ∀ i ∈ xl.idxs, i ∉ xr.idxs := fun i hi h' => hdisx.2.2 i hi i (by simp [h']) rfl
  have hyr_xr : ∀ i ∈ yr.idxs, i ∉ xr.idxs := fun i hi h' =>
    hdis i (by simp [Sh.idxs, h']) i hi rfl
  refine ⟨b1, ?_, b4, ?_, ?_, ?_, hVother, b6⟩
  · exact ⟨by rw [b3, a4]; exact hv.shpV, by rw [b3, a4]; exact hv.shpN, by rw [hqV]; simp [hv.lenV],
      by rw [b6.len]; exact hv.lenN, hv.pos⟩
  · refine ⟨hxn, b6.x1, b6.x2, b6.x3, ?_, ⟨hyn, b6.y1, b6.y2, b6.y3, ?_, ?_⟩⟩
    · refine hlxl.congr (fun i hi => ?_)
      obtain ⟨h1, h2, h3, h4⟩ := hxl i hi
      obtain ⟨c1, c2⟩ := b6.other12 i h1 h2 h3
      exact ⟨c1, c2, b6.other3 i h1 h2 (hne_m xl (fun j hj => (hxl j hj).2.2.2) hxl_xr i hi)⟩
    · refine hlxr.reparent hd2.2.2.2.1 (fun i hi => ?_) (fun i hi hne => ?_) (fun i hi => ?_)
      · obtain ⟨h1, h2, h3, h4⟩ := hxr i hi
        exact b6.other12 i h1 h2 h3
      · obtain ⟨h1, h2, h3, h4⟩ := hxr i hi
        refine b6.other3 i h1 h2 (fun e => hne ?_)
        cases xr with
        | nil => simp [Sh.idxs] at hi
        | node a b c => simp only [Sh.ptr, rowOf_nat] at e ⊢; omega
      · have := b6.xr3; rw [hi, rowOf_nat] at this; exact this
    · refine hlyr.congr (fun i hi => ?_)
      obtain ⟨h1, h2, h3, h4⟩ := hyr i hi
      obtain ⟨c1, c2⟩ := b6.other12 i h1 h2 h3
      exact ⟨c1, c2, b6.other3 i h1 h2 (hne_m yr (fun j hj => (hyr j hj).2.2.2) hyr_xr i hi)⟩
  · have hcg : ∀ (sub : Sh), (∀ i ∈ sub.idxs, i ≠ x ∧ i ≠ y ∧ (par < 0 ∨ (i : Int) ≠ par) ∧ i + 1 < n) →
        absT (q.fa "tree_vals") (q.ia "tree_nodes") sub = absT (s.fa "tree_vals") (s.ia "tree_nodes") sub :=
      fun sub h => absT_congr sub (fun i hi => ⟨fun c hc => hVother i (h i hi).1 (h i hi).2.1 c hc, b6.col0 i⟩)
    simp only [absT, rotR, hcg xl hxl, hcg xr hxr, hcg yr hyr, hndx, hndy, hVx, hVy, b6.col0, recomp, recompM, rrotXm, rrotYm,
      mxAt_absT _ (s.ia "tree_nodes")]
    rfl
  · rw [hqV, vAt_set _ _ _ _ _ _ (by decide) (by decide) hlx', vAt_set _ _ _ _ _ _ (by decide) (by decide) hly]
    have : ¬ (n - 1 = y) := by omega
    have : ¬ (n - 1 = x) := by omega
    simp [*]
    rfl

end XrsVerif.ILVs
