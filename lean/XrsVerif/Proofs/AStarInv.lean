import XrsVerif.Model.AStar
import Mathlib.Data.List.Perm.Subperm
/-
  Invariants of the A* loop of `Model/AStar.lean`, for EVERY cost structure `Ops C` (nothing is
  assumed about `add`, `lt`, ...; in particular they hold for the IEEE instance the driver runs).

    * `Inv`            the loop invariant (open/closed bookkeeping, parent chains, frontier)
    * `inv_init`, `inv_expand`
    * `loop_spec`      what each way of leaving the loop means
    * `walk_*`         the parent walk of `_reconstruct_path` is deterministic, duplicate-free
-/
set_option linter.unusedSectionVars false
set_option linter.unusedVariables false
namespace XrsVerif.AStar
variable {C : Type}

@[simp] theorem upd_same {α} (f : Cell → α) (c : Cell) (v : α) : upd f c v c = v := by simp [upd]
theorem upd_other {α} (f : Cell → α) {c c' : Cell} (v : α) (h : c' ≠ c) : upd f c v c' = f c' := by
  simp [upd, h]

theorem inside_iff {h w : Nat} {c : Cell} :
    inside h w c = true ↔ 0 ≤ c.1 ∧ c.1 < (h : Int) ∧ 0 ≤ c.2 ∧ c.2 < (w : Int) := by
  simp [inside, and_assoc]

theorem mem_cells {h w : Nat} {c : Cell} : c ∈ cells h w ↔ inside h w c = true := by
  rw [inside_iff]
  simp only [cells, List.mem_flatMap, List.mem_range, List.mem_map]
  constructor
  · rintro ⟨i, hi, j, hj, rfl⟩
    simp; omega
  · rintro ⟨h1, h2, h3, h4⟩
    refine ⟨c.1.toNat, by omega, c.2.toNat, by omega, ?_⟩
    ext <;> simp <;> omega

theorem length_cells (h w : Nat) : (cells h w).length = h * w := by
  simp only [cells, List.length_flatMap, List.length_map, List.length_range]
  induction h with
  | zero => simp
  | succ n ih => simp [List.range_succ, Nat.succ_mul]

/-! ### the graph and the specification vocabulary -/

/-- inside the raster and crossable -/
def Free (e : Env C) (c : Cell) : Prop := inside e.h e.w c = true ∧ e.cross c = true

/-- `v` is reached from `u` by one of the allowed offsets (4- or 8-neighbourhood) -/
def Adj (e : Env C) (u v : Cell) : Prop := ∃ off ∈ e.nbrs, v = (u.1 + off.1, u.2 + off.2)

/-- one link of the result: `c` is a neighbour of `p` and carries `p`'s value plus the step length -/
def Link (e : Env C) (g : Cell → C) (p c : Cell) : Prop :=
  Adj e p c ∧ g c = e.ops.add (g p) (e.ops.step p c)

/-- a list of cells, far end first, is a chain down to `start` (which carries `zero`) -/
def IsChain (e : Env C) (g : Cell → C) : List Cell → Prop
  | [] => False
  | [c] => c = e.start ∧ g c = e.ops.zero
  | c :: p :: rest => Link e g p c ∧ IsChain e g (p :: rest)

/-- a route of crossable cells from `start` to a cell, with its length -/
inductive Route (e : Env C) : Cell → C → Prop
  | start : Free e e.start → Route e e.start e.ops.zero
  | step {u v : Cell} {l : C} : Route e u l → Adj e u v → Free e v →
      Route e v (e.ops.add l (e.ops.step u v))

theorem IsChain.congr {e : Env C} {g g' : Cell → C} :
    ∀ {l : List Cell}, (∀ x ∈ l, g' x = g x) → IsChain e g l → IsChain e g' l
  | [], _, h => h
  | [c], hg, h => by
    simp only [IsChain] at h ⊢
    exact ⟨h.1, by rw [hg c (by simp)]; exact h.2⟩
  | c :: p :: rest, hg, h => by
    simp only [IsChain] at h ⊢
    refine ⟨⟨h.1.1, ?_⟩, IsChain.congr (fun x hx => hg x (by simp [hx])) h.2⟩
    rw [hg c (by simp), hg p (by simp)]; exact h.1.2

theorem route_of_chain {e : Env C} {g : Cell → C} :
    ∀ {l : List Cell} {c : Cell} {t : List Cell}, l = c :: t → IsChain e g l → (∀ x ∈ l, Free e x) →
      Route e c (g c)
  | _, c, [], rfl, h, hf => by
    simp only [IsChain] at h
    rw [h.1, ← h.1, h.2, h.1]
    exact Route.start (h.1 ▸ hf c (by simp))
  | _, c, p :: rest, rfl, h, hf => by
    simp only [IsChain] at h
    rw [h.1.2]
    exact Route.step (route_of_chain rfl h.2 (fun x hx => hf x (by simp [hx]))) h.1.1 (hf c (by simp))

/-! ### the parent walk -/

theorem walk_head {par : Cell → Option Cell} {s : Cell} :
    ∀ {n : Nat} {c : Cell} {l : List Cell}, walk par s n c = some l → ∃ t, l = c :: t
  | 0, _, _, h => by simp [walk] at h
  | n + 1, c, l, h => by
    simp only [walk] at h
    split at h
    · rename_i hc; simp at h; exact ⟨[], by rw [← h, hc]⟩
    · split at h
      · simp at h
      · simp only [Option.map_eq_some_iff] at h
        obtain ⟨t, _, rfl⟩ := h
        exact ⟨t, rfl⟩

theorem walk_mono {par : Cell → Option Cell} {s : Cell} :
    ∀ {n m : Nat} {c : Cell} {l : List Cell}, walk par s n c = some l → n ≤ m → walk par s m c = some l
  | 0, _, _, _, h, _ => by simp [walk] at h
  | n + 1, 0, _, _, _, hm => by omega
  | n + 1, m + 1, c, l, h, hm => by
    simp only [walk] at h ⊢
    split
    · rename_i hc; simpa [hc] using h
    · rename_i hc
      simp only [hc, if_false] at h
      split at h
      · simp at h
      · rename_i p hp
        simp only [Option.map_eq_some_iff] at h ⊢
        obtain ⟨t, ht, rfl⟩ := h
        exact ⟨t, walk_mono ht (by omega), rfl⟩

theorem walk_det {par : Cell → Option Cell} {s : Cell} {n m : Nat} {c : Cell} {l l' : List Cell}
    (h : walk par s n c = some l) (h' : walk par s m c = some l') : l = l' := by
  rcases Nat.le_total n m with hnm | hnm
  · have := walk_mono h hnm; rw [this] at h'; exact Option.some.inj h'
  · have := walk_mono h' hnm; rw [this] at h; exact (Option.some.inj h).symm

/-- every cell met by a walk starts a (not longer) walk of its own -/
theorem walk_suffix {par : Cell → Option Cell} {s : Cell} :
    ∀ {n : Nat} {c : Cell} {l : List Cell}, walk par s n c = some l →
      ∀ x ∈ l, ∃ m l', walk par s m x = some l' ∧ l'.length ≤ l.length
  | 0, _, _, h => by simp [walk] at h
  | n + 1, c, l, h => by
    intro x hx
    have h0 := h
    simp only [walk] at h
    split at h
    · rename_i hc
      simp at h; subst h
      obtain rfl : x = s := by simpa using hx
      exact ⟨n + 1, [x], by simp [walk], by simp⟩
    · rename_i hc
      split at h
      · simp at h
      · rename_i p hp
        simp only [Option.map_eq_some_iff] at h
        obtain ⟨t, ht, rfl⟩ := h
        rcases List.mem_cons.mp hx with rfl | hxt
        · exact ⟨n + 1, _, h0, by simp⟩
        · obtain ⟨m, l', hm, hl⟩ := walk_suffix ht x hxt
          exact ⟨m, l', hm, by simp; omega⟩

theorem walk_nodup {par : Cell → Option Cell} {s : Cell} :
    ∀ {n : Nat} {c : Cell} {l : List Cell}, walk par s n c = some l → l.Nodup
  | 0, _, _, h => by simp [walk] at h
  | n + 1, c, l, h => by
    have h0 := h
    simp only [walk] at h
    split at h
    · simp at h; subst h; simp
    · split at h
      · simp at h
      · rename_i p hp
        simp only [Option.map_eq_some_iff] at h
        obtain ⟨t, ht, rfl⟩ := h
        refine List.nodup_cons.mpr ⟨?_, walk_nodup ht⟩
        intro hc
        obtain ⟨m, l', hm, hl⟩ := walk_suffix ht c hc
        have := walk_det hm h0
        subst this
        simp at hl; omega

/-- fuel equal to the length of the walk is enough -/
theorem walk_length_fuel {par : Cell → Option Cell} {s : Cell} :
    ∀ {n : Nat} {c : Cell} {l : List Cell}, walk par s n c = some l → walk par s l.length c = some l
  | 0, _, _, h => by simp [walk] at h
  | n + 1, c, l, h => by
    simp only [walk] at h
    split at h
    · rename_i hc; simp at h; subst h; simp [walk, hc]
    · rename_i hc
      split at h
      · simp at h
      · rename_i p hp
        simp only [Option.map_eq_some_iff] at h
        obtain ⟨t, ht, rfl⟩ := h
        simp only [List.length_cons, walk, hc, if_false, hp, Option.map_eq_some_iff]
        exact ⟨t, walk_length_fuel ht, rfl⟩

/-- a walk does not look at the parent of a cell it never visits -/
theorem walk_upd {par : Cell → Option Cell} {s v : Cell} {x : Option Cell} :
    ∀ {n : Nat} {c : Cell} {l : List Cell}, walk par s n c = some l → v ∉ l →
      walk (upd par v x) s n c = some l
  | 0, _, _, h, _ => by simp [walk] at h
  | n + 1, c, l, h, hv => by
    simp only [walk] at h ⊢
    split
    · rename_i hc; simpa [hc] using h
    · rename_i hc
      simp only [hc, if_false] at h
      split at h
      · simp at h
      · rename_i p hp
        simp only [Option.map_eq_some_iff] at h
        obtain ⟨t, ht, rfl⟩ := h
        have hcv : c ≠ v := fun hcv => hv (by simp [hcv])
        rw [upd_other _ _ hcv, hp]
        simp only [Option.map_eq_some_iff]
        exact ⟨t, walk_upd ht (fun hvt => hv (by simp [hvt])), rfl⟩

theorem walk_last {par : Cell → Option Cell} {s : Cell} :
    ∀ {n : Nat} {c : Cell} {l : List Cell}, walk par s n c = some l → l.getLast? = some s
  | 0, _, _, h => by simp [walk] at h
  | n + 1, c, l, h => by
    simp only [walk] at h
    split at h
    · simp at h; subst h; simp
    · split at h
      · simp at h
      · rename_i p hp
        simp only [Option.map_eq_some_iff] at h
        obtain ⟨t, ht, rfl⟩ := h
        obtain ⟨t', rfl⟩ := walk_head ht
        simpa [List.getLast?_cons_cons] using walk_last ht

/-! ### a fold keeps an invariant `P` and establishes `Q a` for every element `a` it processed -/

theorem foldl_inv {α β : Type} (f : β → α → β) (P : β → Prop) (Q : α → β → Prop) :
    ∀ (l : List α) (b : β), P b →
      (∀ b a, a ∈ l → P b → P (f b a) ∧ Q a (f b a)) →
      (∀ b a a', a' ∈ l → P b → Q a b → Q a (f b a')) →
      P (l.foldl f b) ∧ ∀ a ∈ l, Q a (l.foldl f b)
  | [], b, hP, _, _ => by simpa using hP
  | a :: l, b, hP, step, keep => by
    have h1 := step b a (by simp) hP
    have ih := foldl_inv f P Q l (f b a) h1.1 (fun b a' ha' => step b a' (by simp [ha']))
      (fun b a0 a' ha' => keep b a0 a' (by simp [ha']))
    refine ⟨by simpa using ih.1, ?_⟩
    intro a0 ha0
    rcases List.mem_cons.mp ha0 with rfl | ha0
    · -- Q a0 holds after the first step and is kept by the rest
      have : ∀ (l' : List α) (b' : β), (∀ x ∈ l', x ∈ l) → P b' → Q a0 b' →
          P (l'.foldl f b') ∧ Q a0 (l'.foldl f b') := by
        intro l'
        induction l' with
        | nil => intro b' _ hp hq; exact ⟨hp, hq⟩
        | cons x l' ih' =>
          intro b' hsub hp hq
          have hx : x ∈ l := hsub x (by simp)
          exact ih' (f b' x) (fun y hy => hsub y (by simp [hy])) (step b' x (by simp [hx]) hp).1
            (keep b' a0 x (by simp [hx]) hp hq)
      exact (this l (f b a0) (fun x hx => hx) h1.1 h1.2).2
    · exact ih.2 a0 ha0

/-! ### the loop invariant -/

/-- on the open or on the closed list -/
def seen (st : St C) (c : Cell) : Prop := st.isOpen c = true ∨ st.isClosed c = true

structure Core (e : Env C) (st : St C) : Prop where
  open_free : ∀ c, st.isOpen c = true → Free e c
  open_not_closed : ∀ c, st.isOpen c = true → st.isClosed c = false
  closed_free : ∀ c, st.isClosed c = true → Free e c
  /-- every listed cell is tied to `start` by its parents; all cells behind it are closed -/
  chain : ∀ c, seen st c → ∃ n l, walk st.parent e.start n c = some l ∧ IsChain e st.g l ∧
    ∀ x ∈ l.tail, st.isClosed x = true
  start_first : ∀ c, seen st c → c = e.start ∨ st.isClosed e.start = true
  start_seen : Free e e.start → seen st e.start

/-- every crossable neighbour of a closed cell is listed -/
def Frontier (e : Env C) (st : St C) : Prop :=
  ∀ u, st.isClosed u = true → ∀ v, Adj e u v → Free e v → seen st v

theorem core_init (e : Env C) (hs : inside e.h e.w e.start = true) : Core e (init e) := by
  unfold init
  by_cases hc : e.cross e.start = true
  · simp only [hc, if_true]
    have hopen : ∀ c, upd (fun _ => false) e.start true c = true → c = e.start := by
      intro c h; by_contra hne; simp [upd_other _ _ hne] at h
    refine ⟨?_, ?_, ?_, ?_, ?_, ?_⟩
    · intro c h; rw [hopen c h]; exact ⟨hs, hc⟩
    · intro c _; rfl
    · intro c h; simp at h
    · intro c h
      rcases h with h | h
      · rw [hopen c h]
        exact ⟨1, [e.start], by simp [walk], by simp [IsChain], by simp⟩
      · simp at h
    · intro c h
      rcases h with h | h
      · exact Or.inl (hopen c h)
      · simp at h
    · intro _; exact Or.inl (by simp)
  · simp only [hc]
    refine ⟨?_, ?_, ?_, ?_, ?_, ?_⟩
    · intro c h; simp at h
    · intro c h; simp at h
    · intro c h; simp at h
    · intro c h; rcases h with h | h <;> simp at h
    · intro c h; rcases h with h | h <;> simp at h
    · intro h; exact absurd h.2 hc

theorem seen_close {st : St C} {u : Cell} (hu : st.isOpen u = true) (c : Cell) :
    seen (close st u) c ↔ seen st c := by
  unfold seen close
  by_cases hcu : c = u
  · subst hcu; simp [hu]
  · simp [upd_other _ _ hcu]

theorem core_close {e : Env C} {st : St C} {u : Cell} (hc : Core e st) (hu : st.isOpen u = true) :
    Core e (close st u) := by
  have hmono : ∀ x, st.isClosed x = true → (close st u).isClosed x = true := by
    intro x hx
    by_cases hxu : x = u
    · subst hxu; simp [close]
    · simpa [close, upd_other _ _ hxu] using hx
  refine ⟨?_, ?_, ?_, ?_, ?_, ?_⟩
  · intro c h
    by_cases hcu : c = u
    · subst hcu; simp [close] at h
    · exact hc.open_free c (by simpa [close, upd_other _ _ hcu] using h)
  · intro c h
    by_cases hcu : c = u
    · subst hcu; simp [close] at h
    · have : st.isOpen c = true := by simpa [close, upd_other _ _ hcu] using h
      simpa [close, upd_other _ _ hcu] using hc.open_not_closed c this
  · intro c h
    by_cases hcu : c = u
    · subst hcu; exact hc.open_free c hu
    · exact hc.closed_free c (by simpa [close, upd_other _ _ hcu] using h)
  · intro c h
    obtain ⟨n, l, hw, hch, ht⟩ := hc.chain c ((seen_close hu c).mp h)
    exact ⟨n, l, hw, hch, fun x hx => hmono x (ht x hx)⟩
  · intro c h
    rcases hc.start_first c ((seen_close hu c).mp h) with h1 | h1
    · exact Or.inl h1
    · exact Or.inr (hmono _ h1)
  · intro h; exact (seen_close hu _).mpr (hc.start_seen h)

/-- the two ways one neighbour step can end -/
theorem relax_cases (e : Env C) (u : Cell) (st : St C) (off : Cell) :
    relax e u st off = st ∨
    (let v : Cell := (u.1 + off.1, u.2 + off.2)
     let d := e.ops.add (st.g u) (e.ops.step u v)
     inside e.h e.w v = true ∧ e.cross v = true ∧ st.isClosed v = false ∧
     ¬ (st.isOpen v = true ∧ e.ops.lt (st.g v) d = true) ∧
     relax e u st off =
      { isOpen := upd st.isOpen v true, isClosed := st.isClosed, g := upd st.g v d,
        f := upd st.f v (e.ops.add d (e.ops.heur v e.goal)), parent := upd st.parent v (some u) }) := by
  unfold relax
  simp only
  by_cases h1 : inside e.h e.w (u.1 + off.1, u.2 + off.2) = true
  · by_cases h2 : e.cross (u.1 + off.1, u.2 + off.2) = true
    · by_cases h3 : st.isClosed (u.1 + off.1, u.2 + off.2) = true
      · simp [h1, h2, h3]
      · by_cases h4 : st.isOpen (u.1 + off.1, u.2 + off.2) = true ∧
            e.ops.lt (st.g (u.1 + off.1, u.2 + off.2))
              (e.ops.add (st.g u) (e.ops.step u (u.1 + off.1, u.2 + off.2))) = true
        · simp [h1, h2, h3, h4.1, h4.2]
        · right
          refine ⟨h1, h2, by simpa using h3, h4, ?_⟩
          simp only [h1, h2, h3, Bool.not_true, Bool.false_eq_true, if_false]
          rw [if_neg]
          simpa using h4
    · simp [h1, h2]
  · simp [h1]

/-- the same, for a crossable target that is not closed: it says which of the two happened -/
theorem relax_target (e : Env C) (u : Cell) (st : St C) (off : Cell)
    (hf : Free e (u.1 + off.1, u.2 + off.2)) (hncl : st.isClosed (u.1 + off.1, u.2 + off.2) = false) :
    let v : Cell := (u.1 + off.1, u.2 + off.2)
    let d := e.ops.add (st.g u) (e.ops.step u v)
    (st.isOpen v = true ∧ e.ops.lt (st.g v) d = true ∧ relax e u st off = st) ∨
    (¬ (st.isOpen v = true ∧ e.ops.lt (st.g v) d = true) ∧
     relax e u st off =
      { isOpen := upd st.isOpen v true, isClosed := st.isClosed, g := upd st.g v d,
        f := upd st.f v (e.ops.add d (e.ops.heur v e.goal)), parent := upd st.parent v (some u) }) := by
  unfold relax
  simp only
  by_cases h4 : st.isOpen (u.1 + off.1, u.2 + off.2) = true ∧
      e.ops.lt (st.g (u.1 + off.1, u.2 + off.2))
        (e.ops.add (st.g u) (e.ops.step u (u.1 + off.1, u.2 + off.2))) = true
  · left
    simp [hf.1, hf.2, hncl, h4.1, h4.2]
  · right
    refine ⟨h4, ?_⟩
    simp only [hf.1, hf.2, hncl, Bool.not_true, Bool.false_eq_true, if_false]
    rw [if_neg]
    simpa using h4

theorem relax_closed (e : Env C) (u : Cell) (st : St C) (off : Cell) :
    (relax e u st off).isClosed = st.isClosed := by
  rcases relax_cases e u st off with h | ⟨_, _, _, _, h⟩ <;> rw [h]

theorem relax_seen_mono (e : Env C) (u : Cell) (st : St C) (off : Cell) (c : Cell) (h : seen st c) :
    seen (relax e u st off) c := by
  rcases relax_cases e u st off with h' | ⟨_, _, _, _, h'⟩
  · rw [h']; exact h
  · rw [h']
    rcases h with h | h
    · left
      by_cases hcv : c = (u.1 + off.1, u.2 + off.2)
      · rw [hcv]; simp
      · simpa [upd_other _ _ hcv] using h
    · right; exact h

theorem relax_seen_target (e : Env C) (u : Cell) (st : St C) (off : Cell)
    (hf : Free e (u.1 + off.1, u.2 + off.2)) : seen (relax e u st off) (u.1 + off.1, u.2 + off.2) := by
  unfold relax
  simp only [hf.1, hf.2, Bool.not_true, Bool.false_eq_true, if_false]
  by_cases h3 : st.isClosed (u.1 + off.1, u.2 + off.2) = true
  · simp only [h3, if_true]; exact Or.inr h3
  · simp only [h3, Bool.false_eq_true, if_false]
    split
    · rename_i h4
      simp only [Bool.and_eq_true] at h4
      exact Or.inl h4.1
    · left; simp

theorem core_relax {e : Env C} {st : St C} {u : Cell} {off : Cell} (hc : Core e st)
    (hu : st.isClosed u = true) (hoff : off ∈ e.nbrs) : Core e (relax e u st off) := by
  rcases relax_cases e u st off with h' | ⟨hin, hcr, hncl, _, h'⟩
  · rw [h']; exact hc
  · rw [h']
    -- abbreviations
    generalize hv : ((u.1 + off.1, u.2 + off.2) : Cell) = v at *
    generalize hd : e.ops.add (st.g u) (e.ops.step u v) = d at *
    have huv : u ≠ v := fun h => by rw [h] at hu; rw [hu] at hncl; cases hncl
    have hstart : st.isClosed e.start = true := by
      rcases hc.start_first u (Or.inr hu) with h | h
      · rw [← h]; exact hu
      · exact h
    have hvs : v ≠ e.start := fun h => by rw [h] at hncl; rw [hstart] at hncl; cases hncl
    -- u's own chain: entirely closed, so `v` is not on it
    obtain ⟨nu, lu, hwu, hchu, htu⟩ := hc.chain u (Or.inr hu)
    obtain ⟨tu, rfl⟩ := walk_head hwu
    have hvlu : v ∉ u :: tu := by
      intro hmem
      rcases List.mem_cons.mp hmem with h | h
      · exact huv h.symm
      · have := htu v (by simpa using h); rw [this] at hncl; cases hncl
    refine ⟨?_, ?_, ?_, ?_, ?_, ?_⟩
    · intro c h
      by_cases hcv : c = v
      · rw [hcv]; exact ⟨hin, hcr⟩
      · exact hc.open_free c (by simpa [upd_other _ _ hcv] using h)
    · intro c h
      by_cases hcv : c = v
      · rw [hcv]; exact hncl
      · exact hc.open_not_closed c (by simpa [upd_other _ _ hcv] using h)
    · exact hc.closed_free
    · intro c h
      by_cases hcv : c = v
      · subst hcv
        refine ⟨nu + 1, c :: u :: tu, ?_, ?_, ?_⟩
        · simp only [walk, hvs, if_false, upd_same, Option.map_eq_some_iff]
          exact ⟨u :: tu, walk_upd hwu hvlu, rfl⟩
        · simp only [IsChain]
          refine ⟨⟨⟨off, hoff, hv.symm⟩, ?_⟩, ?_⟩
          · simp only [upd_same, upd_other _ _ huv]; exact hd.symm
          · exact IsChain.congr (fun x hx => upd_other _ _ (fun hxc => hvlu (hxc ▸ hx))) hchu
        · intro x hx
          rcases List.mem_cons.mp (by simpa using hx) with h | h
          · rw [h]; exact hu
          · exact htu x (by simpa using h)
      · have hs : seen st c := by
          rcases h with h | h
          · exact Or.inl (by simpa [upd_other _ _ hcv] using h)
          · exact Or.inr h
        obtain ⟨n, l, hw, hch, ht⟩ := hc.chain c hs
        obtain ⟨t, rfl⟩ := walk_head hw
        have hvl : v ∉ c :: t := by
          intro hmem
          rcases List.mem_cons.mp hmem with h | h
          · exact hcv h.symm
          · have := ht v (by simpa using h); rw [this] at hncl; cases hncl
        exact ⟨n, c :: t, walk_upd hw hvl,
          IsChain.congr (fun x hx => upd_other _ _ (fun hxc => hvl (hxc ▸ hx))) hch, ht⟩
    · intro c _; exact Or.inr hstart
    · intro h
      rcases hc.start_seen h with h1 | h1
      · left; simpa [upd_other _ _ (Ne.symm hvs)] using h1
      · right; exact h1

structure Inv (e : Env C) (st : St C) : Prop where
  core : Core e st
  frontier : Frontier e st
  goal_not_closed : st.isClosed e.goal = false

theorem inv_init (e : Env C) (hs : inside e.h e.w e.start = true) : Inv e (init e) := by
  refine ⟨core_init e hs, ?_, ?_⟩
  · intro u hu; unfold init at hu; split at hu <;> simp at hu
  · unfold init; split <;> rfl

/-- the facts about one expansion that every later argument uses -/
theorem expand_facts {e : Env C} {st : St C} {u : Cell} (hc : Core e st) (hu : st.isOpen u = true) :
    Core e (expand e st u) ∧ (expand e st u).isClosed = upd st.isClosed u true ∧
    (∀ c, seen st c → seen (expand e st u) c) ∧
    (∀ off ∈ e.nbrs, Free e (u.1 + off.1, u.2 + off.2) → seen (expand e st u) (u.1 + off.1, u.2 + off.2)) := by
  have hcl : (close st u).isClosed u = true := by simp [close]
  have := foldl_inv (relax e u)
    (fun s => Core e s ∧ s.isClosed = (close st u).isClosed ∧ ∀ c, seen (close st u) c → seen s c)
    (fun off s => Free e (u.1 + off.1, u.2 + off.2) → seen s (u.1 + off.1, u.2 + off.2))
    e.nbrs (close st u) ⟨core_close hc hu, rfl, fun _ h => h⟩
    (by
      intro b a ha ⟨hb, hbc, hbs⟩
      refine ⟨⟨core_relax hb (by rw [hbc]; exact hcl) ha, by rw [relax_closed, hbc],
        fun c h => relax_seen_mono e u b a c (hbs c h)⟩, fun hf => relax_seen_target e u b a hf⟩)
    (by
      intro b a a' _ _ hq hf
      exact relax_seen_mono e u b a' _ (hq hf))
  obtain ⟨⟨h1, h2, h3⟩, h4⟩ := this
  exact ⟨h1, h2, fun c h => h3 c ((seen_close hu c).mpr h), h4⟩

theorem inv_expand {e : Env C} {st : St C} {u : Cell} (hi : Inv e st) (hu : st.isOpen u = true)
    (hug : u ≠ e.goal) : Inv e (expand e st u) := by
  obtain ⟨h1, h2, h3, h4⟩ := expand_facts hi.core hu
  refine ⟨h1, ?_, ?_⟩
  · intro x hx v hadj hfree
    rw [h2] at hx
    by_cases hxu : x = u
    · subst hxu
      obtain ⟨off, hoff, rfl⟩ := hadj
      exact h4 off hoff hfree
    · rw [upd_other _ _ hxu] at hx
      exact h3 v (hi.frontier x hx v hadj hfree)
  · rw [h2, upd_other _ _ (Ne.symm hug)]; exact hi.goal_not_closed

/-! ### `_min_cost_pixel_id` returns an open cell of the raster -/

theorem minFold_open (e : Env C) (st : St C) :
    ∀ (l : List Cell) (acc : Option Cell × C),
      (∀ c, acc.1 = some c → st.isOpen c = true) →
      ∀ c, (l.foldl (minStep e st) acc).1 = some c → st.isOpen c = true
  | [], acc, h, c, hc => h c (by simpa using hc)
  | x :: l, acc, h, c, hc => by
    simp only [List.foldl_cons] at hc
    refine minFold_open e st l (minStep e st acc x) ?_ c hc
    intro c' hc'
    unfold minStep at hc'
    split at hc'
    · rename_i hx
      simp only [Bool.and_eq_true] at hx
      simp at hc'; rw [← hc']; exact hx.1
    · exact h c' hc'

theorem minCostOpen_open {e : Env C} {st : St C} {u : Cell} (h : minCostOpen e st = some u) :
    st.isOpen u = true :=
  minFold_open e st _ _ (by simp) u h

theorem anyOpen_false {e : Env C} {st : St C} (hc : Core e st) (h : anyOpen e st = false) :
    ∀ c, st.isOpen c = false := by
  intro c
  by_contra hne
  have hop : st.isOpen c = true := by simpa using hne
  have hin := (hc.open_free c hop).1
  have := List.any_eq_false.mp h c (mem_cells.mpr hin)
  exact this hop

/-! ### termination: every iteration closes a cell that was not closed -/

def remaining (e : Env C) (st : St C) : Nat := (cells e.h e.w).countP (fun c => !st.isClosed c)

theorem countP_lt_of_flip {p q : Cell → Bool} (hpq : ∀ x, q x = true → p x = true) {u : Cell} :
    ∀ {l : List Cell}, u ∈ l → p u = true → q u = false → l.countP q < l.countP p
  | [], h, _, _ => by simp at h
  | x :: l, h, hp, hq => by
    have hle : l.countP q ≤ l.countP p := List.countP_mono_left (fun y _ hy => hpq y hy)
    simp only [List.countP_cons]
    rcases List.mem_cons.mp h with rfl | h
    · simp [hp, hq]; omega
    · have := countP_lt_of_flip hpq h hp hq
      by_cases hqx : q x = true
      · simp [hqx, hpq x hqx]; omega
      · simp [hqx]; omega

theorem remaining_expand {e : Env C} {st : St C} {u : Cell} (hc : Core e st) (hu : st.isOpen u = true) :
    remaining e (expand e st u) < remaining e st := by
  unfold remaining
  rw [(expand_facts hc hu).2.1]
  refine countP_lt_of_flip (u := u) ?_ (mem_cells.mpr (hc.open_free u hu).1) ?_ ?_
  · intro x hx
    by_cases hxu : x = u
    · subst hxu; simp at hx
    · simpa [upd_other _ _ hxu] using hx
  · simp [hc.open_not_closed u hu]
  · simp

/-! ### the loop, with an extra invariant `J` supplied by the caller -/

theorem loop_spec (e : Env C) (J : St C → Prop)
    (hJ : ∀ st u, Inv e st → J st → minCostOpen e st = some u → u ≠ e.goal → J (expand e st u)) :
    ∀ (n : Nat) (st : St C), Inv e st → J st → remaining e st < n →
      match loop e n st with
      | .found st' => ∃ st0, Inv e st0 ∧ J st0 ∧ minCostOpen e st0 = some e.goal ∧ st' = close st0 e.goal
      | .exhausted st' => Inv e st' ∧ J st' ∧ ∀ c, st'.isOpen c = false
      | .sentinel st' => Inv e st' ∧ J st' ∧ anyOpen e st' = true ∧ minCostOpen e st' = none
      | .fuel _ => False
  | 0, st, _, _, hr => by omega
  | n + 1, st, hi, hj, hr => by
    unfold loop
    by_cases hany : anyOpen e st = true
    · simp only [hany, Bool.not_true, Bool.false_eq_true, if_false]
      cases hmin : minCostOpen e st with
      | none => exact ⟨hi, hj, hany, hmin⟩
      | some u =>
        simp only
        by_cases hug : u = e.goal
        · simp only [hug, if_true]
          exact ⟨st, hi, hj, hug ▸ hmin, rfl⟩
        · simp only [hug, if_false]
          have hu := minCostOpen_open hmin
          exact loop_spec e J hJ n (expand e st u) (inv_expand hi hu hug) (hJ st u hi hj hmin hug)
            (by have := remaining_expand hi.core hu; omega)
    · have hany' : anyOpen e st = false := by simpa using hany
      simp only [hany', Bool.not_false, if_true]
      exact ⟨hi, hj, anyOpen_false hi.core hany'⟩

theorem remaining_le (e : Env C) (st : St C) : remaining e st ≤ e.h * e.w := by
  unfold remaining
  calc _ ≤ (cells e.h e.w).length := List.countP_le_length
    _ = e.h * e.w := length_cells _ _

/-! ### what the caller sees -/

/-- the non-NaN cells of a result: a duplicate-free chain of crossable cells from `goal` back to
    `start`, linked by allowed steps, each carrying its predecessor's value plus the step length -/
structure ValidPath (e : Env C) (chain : List Cell) (g : Cell → C) : Prop where
  head : chain.head? = some e.goal
  last : chain.getLast? = some e.start
  links : IsChain e g chain
  free : ∀ x ∈ chain, Free e x
  nodup : chain.Nodup

theorem closed_of_route {e : Env C} {st : St C} (hi : Inv e st) (hno : ∀ c, st.isOpen c = false)
    {v : Cell} {l : C} (hr : Route e v l) : st.isClosed v = true := by
  induction hr with
  | start hf =>
    rcases hi.core.start_seen hf with h | h
    · rw [hno] at h; cases h
    · exact h
  | step _ hadj hf ih =>
    rcases hi.frontier _ ih _ hadj hf with h | h
    · rw [hno] at h; cases h
    · exact h

theorem search_spec (e : Env C) (hs : inside e.h e.w e.start = true) (J : St C → Prop)
    (hJ : ∀ st u, Inv e st → J st → minCostOpen e st = some u → u ≠ e.goal → J (expand e st u))
    (hJ0 : J (init e)) :
    match search e with
    | .path chain g => ValidPath e chain g ∧
        ∃ st0, Inv e st0 ∧ J st0 ∧ minCostOpen e st0 = some e.goal ∧ g = st0.g
    | .noPath => ∀ l, ¬ Route e e.goal l
    | .anomaly _ => ∃ st', Inv e st' ∧ J st' ∧ anyOpen e st' = true ∧ minCostOpen e st' = none := by
  have hl := loop_spec e J hJ (e.h * e.w + 1) (init e) (inv_init e hs) hJ0
    (by have := remaining_le e (init e); omega)
  unfold search
  cases hloop : loop e (e.h * e.w + 1) (init e) with
  | found st' =>
    rw [hloop] at hl
    obtain ⟨st0, hi, hj, hmin, rfl⟩ := hl
    have hopen := minCostOpen_open hmin
    obtain ⟨n, l, hw, hch, ht⟩ := hi.core.chain e.goal (Or.inl hopen)
    obtain ⟨t, rfl⟩ := walk_head hw
    have hfree : ∀ x ∈ e.goal :: t, Free e x := by
      intro x hx
      rcases List.mem_cons.mp hx with rfl | hx
      · exact hi.core.open_free _ hopen
      · exact hi.core.closed_free x (ht x (by simpa using hx))
    have hnd := walk_nodup hw
    have hlen : (e.goal :: t).length ≤ e.h * e.w := by
      rw [← length_cells]
      exact (hnd.subperm (fun x hx => mem_cells.mpr (hfree x hx).1)).length_le
    have hw' : walk (close st0 e.goal).parent e.start (e.h * e.w) e.goal = some (e.goal :: t) :=
      walk_mono (walk_length_fuel hw) hlen
    simp only [hw']
    exact ⟨⟨by simp, walk_last hw, hch, hfree, hnd⟩, st0, hi, hj, hmin, rfl⟩
  | exhausted st' =>
    rw [hloop] at hl
    obtain ⟨hi, _, hno⟩ := hl
    intro l hr
    have := closed_of_route hi hno hr
    rw [hi.goal_not_closed] at this; cases this
  | sentinel st' =>
    rw [hloop] at hl
    exact ⟨st', hl⟩
  | fuel st' =>
    rw [hloop] at hl; exact hl.elim

end XrsVerif.AStar
