import XrsVerif.Proofs.ILVsSweepDefs
import XrsVerif.Proofs.ILVsVang
/-
  Proofs/ILVsSweepGrad.lean -- the inlined `_calc_event_grad` / `_calc_dist_n_grad` of the generated sweep (templates
  `gradBody p`, `distBody p`): gradient `gradOf` of an elevation difference over a squared map distance, the key `keyF`.
-/
namespace XrsVerif.ILSw
open XrsVerif XrsVerif.IL
variable {F : Type} [Fl F]
set_option linter.unusedSectionVars false
set_option linter.unusedSimpArgs false
set_option linter.unusedVariables false

/-- the gradient of a point at squared map distance `d2` with elevation difference `de`: `atan (de / sqrt d2)`, ±π/2 or 0
    at distance 0 -/
def gradOf (de d2 : F) : F :=
  if Fl.eq d2 (Fl.lit 0 1) = true then
    (if Fl.lt (Fl.lit 0 1) de = true then Fl.div piF (Fl.lit 2 1)
     else if Fl.lt de (Fl.lit 0 1) = true then Fl.div (Fl.neg piF) (Fl.lit 2 1) else Fl.lit 0 1)
  else Fl.atan (Fl.div de (Fl.sqrt d2))

/-- `dx * dx + dy * dy` -/
def dist2F (dx dy : F) : F := Fl.add (Fl.mul dx dx) (Fl.mul dy dy)

/-- squared map distance of the event point `(row, col)` (numeric index coordinates) from the observer -/
def ptDist2 (row col : F) (vr vc : Int) (ew ns : F) : F :=
  dist2F (Fl.mul (Fl.sub col (Fl.lit vc 1)) ew) (Fl.mul (Fl.sub row (Fl.lit vr 1)) ns)

/-- `_calc_event_grad(row, col, elev, vr, vc, ve, ew, ns)` -/
def gradEventF (row col elev : F) (vr vc : Int) (ve ew ns : F) : F := gradOf (Fl.sub elev ve) (ptDist2 row col vr vc ew ns)

/-- the key of the cell `(r, c)`: `_calc_dist_n_grad`'s squared map distance -/
def keyF (r c vr vc : Int) (ew ns : F) : F :=
  dist2F (Fl.mul (Fl.lit (c - vc) 1) ew) (Fl.mul (Fl.lit (r - vr) 1) ns)

/-- the centre gradient of the cell `(r, c)` with elevation `elev` -/
def gradCellF (r c : Int) (elev : F) (vr vc : Int) (ve ew ns : F) : F := gradOf (Fl.sub elev ve) (keyF r c vr vc ew ns)

/-- the numeric environment after `_calc_event_grad` -/
def gradEnv (p : String) (s : State F) : String → F :=
  let de := Fl.sub (s.fenv (p ++ "elev")) (s.fenv (p ++ "viewpoint_elev"))
  let dx := Fl.mul (Fl.sub (s.fenv (p ++ "col")) (Fl.lit (s.ienv (p ++ "viewpoint_col")) 1)) (s.fenv (p ++ "ew_res"))
  let dy := Fl.mul (Fl.sub (s.fenv (p ++ "row")) (Fl.lit (s.ienv (p ++ "viewpoint_row")) 1)) (s.fenv (p ++ "ns_res"))
  setS (setS (setS (setS (setS (setS s.fenv (p ++ "diff_elev") de) (p ++ "dx") dx) (p ++ "dy") dy)
    (p ++ "distance_to_viewpoint") (dist2F dx dy)) (p ++ "gradient") (gradOf de (dist2F dx dy))) (p ++ "ret0") (gradOf de (dist2F dx dy))

theorem gradBody_exec (p : String) (s : State F) (fuel : Nat) (hs : s.ctl = .run) :
    exec fuel (gradBody p) s = { s with fenv := gradEnv p s, ctl := .ret } := by
  obtain ⟨ie, fe, be, ia, fa, shp, ext, ctl⟩ := s
  simp only at hs; subst hs
  simp only [gradEnv, dist2F]
  generalize hde : Fl.sub (fe (p ++ "elev")) (fe (p ++ "viewpoint_elev")) = de
  generalize hdx : Fl.mul (Fl.sub (fe (p ++ "col")) (Fl.lit (ie (p ++ "viewpoint_col")) 1)) (fe (p ++ "ew_res")) = dx
  generalize hdy : Fl.mul (Fl.sub (fe (p ++ "row")) (Fl.lit (ie (p ++ "viewpoint_row")) 1)) (fe (p ++ "ns_res")) = dy
  cases h1 : Fl.eq (Fl.add (Fl.mul dx dx) (Fl.mul dy dy)) (Fl.lit 0 1) <;> cases h2 : Fl.lt (Fl.lit 0 1) de <;> cases h3 : Fl.lt de (Fl.lit 0 1) <;>
  simp [gradBody, gradIte, dist2, exec, BE.ok, BE.eval, FE.ok, FE.eval, IE.ok, IE.eval, CmpOp.eval, BinOp.eval, UnOp.eval,
    setS_apply, gradOf, piF, hde, hdx, hdy, h1, h2, h3]

/-- the numeric environment after `_calc_dist_n_grad` -/
def distEnv (p : String) (s : State F) : String → F :=
  let de := Fl.sub (s.fenv (p ++ "elev")) (s.fenv (p ++ "viewpoint_elev"))
  let dx := Fl.mul (Fl.lit (s.ienv (p ++ "status_node_col") - s.ienv (p ++ "viewpoint_col")) 1) (s.fenv (p ++ "ew_res"))
  let dy := Fl.mul (Fl.lit (s.ienv (p ++ "status_node_row") - s.ienv (p ++ "viewpoint_row")) 1) (s.fenv (p ++ "ns_res"))
  setS (setS (setS (setS (setS (setS (setS s.fenv (p ++ "diff_elev") de) (p ++ "dx") dx) (p ++ "dy") dy)
    (p ++ "distance_to_viewpoint") (dist2F dx dy)) (p ++ "gradient") (gradOf de (dist2F dx dy)))
    (p ++ "ret0") (dist2F dx dy)) (p ++ "ret1") (gradOf de (dist2F dx dy))

theorem distBody_exec (p : String) (s : State F) (fuel : Nat) (hs : s.ctl = .run) :
    exec fuel (distBody p) s = { s with fenv := distEnv p s, ctl := .ret } := by
  obtain ⟨ie, fe, be, ia, fa, shp, ext, ctl⟩ := s
  simp only at hs; subst hs
  simp only [distEnv, dist2F]
  generalize hde : Fl.sub (fe (p ++ "elev")) (fe (p ++ "viewpoint_elev")) = de
  generalize hdx : Fl.mul (Fl.lit (ie (p ++ "status_node_col") - ie (p ++ "viewpoint_col")) 1) (fe (p ++ "ew_res")) = dx
  generalize hdy : Fl.mul (Fl.lit (ie (p ++ "status_node_row") - ie (p ++ "viewpoint_row")) 1) (fe (p ++ "ns_res")) = dy
  cases h1 : Fl.eq (Fl.add (Fl.mul dx dx) (Fl.mul dy dy)) (Fl.lit 0 1) <;> cases h2 : Fl.lt (Fl.lit 0 1) de <;> cases h3 : Fl.lt de (Fl.lit 0 1) <;>
  simp [distBody, gradIte, dist2, exec, BE.ok, BE.eval, FE.ok, FE.eval, IE.ok, IE.eval, CmpOp.eval, BinOp.eval, UnOp.eval,
    setS_apply, gradOf, piF, hde, hdx, hdy, h1, h2, h3, IOp.eval]

end XrsVerif.ILSw
