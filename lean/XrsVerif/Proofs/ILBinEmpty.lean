import XrsVerif.Proofs.ILBin
/-
  Proofs/ILBinEmpty.lean -- `_cpu_bin` with an EMPTY `bins` (no bin list at all: outside the property's domain, the
  data-driven classifiers never produce one on a raster with a finite cell).  The real code reads `bins[0]` of a
  zero-length array for the first finite cell (numba does not check bounds: whatever is in memory).  The generated
  ILang program checks bounds, so it stops there with `Ctl.err "index"`: `cpuBin_no_bins`.  (A raster without any
  finite cell never reads `bins` and is covered by `cpuBin_refines`.)

  Also here: the two facts about the read `bins[mid - 1]` at `mid = 0` (numba wraps it to the last bin, and so do
  ILang's `normIdx` and the model's `getW`): `loop_no_wrap` / `search_no_wrap` -- when `bins[0]` is comparable
  with the value (not NaN) the search never looks at a negative index, i.e. its result is the same for *any*
  meaning of `bins[-1]`.
-/
set_option linter.unusedSectionVars false
set_option linter.unusedVariables false
set_option linter.unusedSimpArgs false
namespace XrsVerif.ILBin
open XrsVerif XrsVerif.IL
variable {F : Type} [Fl F]

/-! ### a loop that may stop with an error -/

/-- invariant rule for a loop whose iterations either go on (invariant kept) or stop the program with `err m` -/
theorem loopOver_inv_err {α} (f : State F → α → State F) (xs : List α) (P : Nat → State F → Prop) (m : String)
    (s : State F) (h0 : s.ctl = .run) (hP : P 0 s)
    (step : ∀ (i : Nat) (hi : i < xs.length) (st : State F), st.ctl = .run → P i st →
        ((afterBody (f st xs[i])).ctl = .run ∧ P (i + 1) (afterBody (f st xs[i]))) ∨ (f st xs[i]).ctl = .err m) :
    ((loopOver f xs s).ctl = .run ∧ P xs.length (loopOver f xs s)) ∨ (loopOver f xs s).ctl = .err m := by
  induction xs generalizing s P with
  | nil => left; simp [h0, hP]
  | cons x xs ih =>
    rw [loopOver_cons _ _ _ _ h0]
    rcases step 0 (by simp) s h0 hP with ⟨hc, hp⟩ | he
    · simp only [List.getElem_cons_zero] at hc hp
      simp only [hc, if_true]
      have := ih (fun i st => P (i + 1) st) (afterBody (f s x)) hc hp
        (fun i hi st hst hpi => by
          have := step (i + 1) (by simpa using hi) st hst hpi
          simpa using this)
      simpa using this
    · simp only [List.getElem_cons_zero] at he
      right
      have h1 : afterBody (f s x) = f s x := by unfold afterBody; rw [he]
      rw [h1]
      have h2 : ¬ (f s x).ctl = .run := by rw [he]; simp
      simp only [h2, if_false]
      unfold afterLoop; rw [he]; exact he

/-! ### empty `bins` -/

theorem findBin_no_bins (fuel : Nat) (s : State F) (hs : s.shp "bins" = [0])
    (hfin : Fl.isfinite (s.fenv "val") = true) : (exec fuel findBin s).ctl = .err "index" := by
  unfold findBin
  rw [exec_ite_true _ _ _ _ _ rfl (show (BE.isfinite (.var "val")).eval s = true from hfin), exec_ite_err]
  · rfl
  · simp [BE.ok, FE.ok, IE.ok, IE.eval, hs, inRange, normIdx]

theorem cellBody_no_bins (fuel : Nat) (st : State F) (D B NV : List F) (rows cols nv y x : Nat)
    (hrun : st.ctl = .run) (he : Env D B NV rows cols 0 nv st)
    (hy : st.ienv "y" = y) (hx : st.ienv "x" = x) (hyr : y < rows) (hxc : x < cols)
    (hfin : Fl.isfinite (D.getD (y * cols + x) Fl.nan) = true) :
    (exec fuel cellBody st).ctl = .err "index" := by
  have hiy := inRange_of_lt y rows hyr
  have hix := inRange_of_lt x cols hxc
  generalize hs2 : ({ st with fenv := setS st.fenv "val" (D.getD (y * cols + x) Fl.nan),
                              ienv := setS st.ienv "val_bin" (-1) } : State F) = s2
  have hstep : exec fuel cellBody st = exec fuel (.seq findBin storeCell) s2 := by
    subst hs2
    simp [cellBody, exec, FE.ok, FE.eval, IE.ok, IE.eval, he.dshp, he.dfa, hy, hx, hiy, hix, hrun, off2_nat,
      List.getD_eq_getElem?_getD]
  have h := findBin_no_bins fuel s2 (by subst hs2; exact he.bshp) (by subst hs2; simpa using hfin)
  rw [hstep, exec_seq_stop _ _ _ _ (by rw [h]; simp)]
  exact h

theorem xLoop_no_bins (fuel : Nat) (st : State F) (D B NV : List F) (rows cols nv y : Nat)
    (hrun : st.ctl = .run) (he : Env D B NV rows cols 0 nv st)
    (hD : D.length = rows * cols) (hB : B.length = 0) (hNV : NV.length = nv)
    (hy : st.ienv "y" = y) (hyr : y < rows)
    (hprev : ∀ i, i < y * cols → Fl.isfinite (D.getD i Fl.nan) = false) :
    ((exec fuel xLoop st).ctl = .run ∧ Env D B NV rows cols 0 nv (exec fuel xLoop st) ∧
      ∀ i, i < (y + 1) * cols → Fl.isfinite (D.getD i Fl.nan) = false) ∨
    (exec fuel xLoop st).ctl = .err "index" := by
  unfold xLoop
  rw [exec_forRange _ _ _ _ _ _ _ (by simp [IE.ok, IE.eval])]
  have hr : rangeList ((IE.lit 0).eval st) ((IE.var "cols").eval st) ((IE.lit 1).eval st) =
      (List.range cols).map (fun (k : Nat) => (k : Int)) := by
    simp only [IE.eval, he.colsV]; exact rangeList_up cols
  rw [hr]
  have := loopOver_inv_err (fun st i => exec fuel cellBody { st with ienv := setS st.ienv "x" i })
    ((List.range cols).map (fun (k : Nat) => (k : Int)))
    (fun k s => Env D B NV rows cols 0 nv s ∧ s.ienv "y" = y ∧
      ∀ i, i < y * cols + k → Fl.isfinite (D.getD i Fl.nan) = false) "index"
    st hrun ⟨he, hy, by simpa using hprev⟩
    (by
      intro x hx s hsrun ⟨hse, hsy, hsp⟩
      simp only [List.length_map, List.length_range] at hx
      simp only [List.getElem_map, List.getElem_range]
      have henv := env_setI hse "x" x (by decide) (by decide) (by decide)
      cases hfin : Fl.isfinite (D.getD (y * cols + x) Fl.nan) with
      | true =>
        right
        exact cellBody_no_bins fuel _ D B NV rows cols nv y x hsrun henv (by simp [setS, hsy]) (by simp [setS])
          hyr hx hfin
      | false =>
        left
        obtain ⟨c1, c2, c3, _⟩ := cellBody_refines fuel { s with ienv := setS s.ienv "x" (x : Int) } D B NV rows cols
          0 nv y x hsrun henv hD hB hNV (by omega) (fun h => absurd h (by decide)) (by simp [setS, hsy]) (by simp [setS]) hyr hx
          (Or.inr hfin)
        rw [afterBody_run _ c1]
        refine ⟨c1, c2, c3, ?_⟩
        intro i hi
        by_cases hix : i = y * cols + x
        · rw [hix]; exact hfin
        · exact hsp i (by omega))
  simp only [List.length_map, List.length_range] at this
  rcases this with ⟨a, b, _, d⟩ | e
  · left
    refine ⟨a, b, fun i hi => d i ?_⟩
    rw [Nat.add_mul, Nat.one_mul] at hi; exact hi
  · right; exact e

theorem yLoop_no_bins (fuel : Nat) (st : State F) (D B NV : List F) (rows cols nv : Nat)
    (hrun : st.ctl = .run) (he : Env D B NV rows cols 0 nv st)
    (hD : D.length = rows * cols) (hB : B.length = 0) (hNV : NV.length = nv) :
    ((exec fuel yLoop st).ctl = .run ∧ ∀ i, i < rows * cols → Fl.isfinite (D.getD i Fl.nan) = false) ∨
    (exec fuel yLoop st).ctl = .err "index" := by
  unfold yLoop
  rw [exec_forRange _ _ _ _ _ _ _ (by simp [IE.ok, IE.eval])]
  have hr : rangeList ((IE.lit 0).eval st) ((IE.var "rows").eval st) ((IE.lit 1).eval st) =
      (List.range rows).map (fun (k : Nat) => (k : Int)) := by
    simp only [IE.eval, he.rowsV]; exact rangeList_up rows
  rw [hr]
  have := loopOver_inv_err (fun st i => exec fuel xLoop { st with ienv := setS st.ienv "y" i })
    ((List.range rows).map (fun (k : Nat) => (k : Int)))
    (fun k s => Env D B NV rows cols 0 nv s ∧ ∀ i, i < k * cols → Fl.isfinite (D.getD i Fl.nan) = false) "index"
    st hrun ⟨he, by simp⟩
    (by
      intro y hy s hsrun ⟨hse, hsp⟩
      simp only [List.length_map, List.length_range] at hy
      simp only [List.getElem_map, List.getElem_range]
      rcases xLoop_no_bins fuel { s with ienv := setS s.ienv "y" (y : Int) } D B NV rows cols nv y hsrun
        (env_setI hse "y" y (by decide) (by decide) (by decide)) hD hB hNV (by simp [setS]) hy hsp with ⟨a, b, c⟩ | e
      · left; rw [afterBody_run _ a]; exact ⟨a, b, c⟩
      · right; exact e)
  simp only [List.length_map, List.length_range] at this
  rcases this with ⟨a, _, c⟩ | e
  · left; exact ⟨a, c⟩
  · right; exact e

/-- **empty `bins`**: as soon as the raster has one finite cell the generated program stops with an index error
    at `bins[0]` (the real code reads out of bounds there) -/
theorem cpuBin_no_bins (s : State F) (fuel rows cols nv : Nat) (hrun : s.ctl = .run)
    (hd : s.shp "data" = [rows, cols]) (hdl : (s.fa "data").length = rows * cols)
    (hb : s.shp "bins" = [0]) (hbl : (s.fa "bins").length = 0)
    (hn : s.shp "new_values" = [nv]) (hnl : (s.fa "new_values").length = nv)
    (hfin : ∃ v ∈ s.fa "data", Fl.isfinite v = true) :
    (Gen.IL.cpuBin.run s fuel).ctl = .err "index" := by
  simp only [Prog.run, body_eq]
  rw [prologue_run fuel _ s rows cols 0 hrun hd hb]
  have he : Env (s.fa "data") (s.fa "bins") (s.fa "new_values") rows cols 0 nv (afterPrologue s rows cols 0) := by
    refine ⟨?_, ?_, ?_, ?_, ?_, ?_, ?_, ?_, ?_, ?_, ?_⟩ <;> simp [afterPrologue, setS, hd, hb, hn]
  rcases yLoop_no_bins fuel (afterPrologue s rows cols 0) _ _ _ rows cols nv hrun he hdl hbl hnl with ⟨_, c⟩ | e
  · exfalso
    obtain ⟨v, hv, hvf⟩ := hfin
    obtain ⟨i, hi, rfl⟩ := List.getElem_of_mem hv
    have := c i (by rw [← hdl]; exact hi)
    rw [List.getD_eq_getElem?_getD, List.getElem?_eq_getElem hi] at this
    simp only [Option.getD_some] at this
    rw [this] at hvf; cases hvf
  · rw [exec_seq_stop _ _ _ _ (by rw [e]; simp)]; exact e

/-! ### the read `bins[mid - 1]` at `mid = 0` -/

/-- if `bins[0] < val` holds (what `not (val <= bins[0])` means for a comparable `bins[0]`), the loop started at
    `start = 0` never evaluates its test at a negative index: two tests that agree on the non-negative indices
    give the same result -/
theorem loop_no_wrap (below below' : Int → Bool) (hagree : ∀ i, 0 ≤ i → below i = below' i) (n : Nat) :
    ∀ (start stp : Int), 0 ≤ start → (start = 0 → below 0 = true) →
      Bin.loop below n start stp = Bin.loop below' n start stp := by
  induction n with
  | zero => intro start stp _ _; rfl
  | succ n ih =>
    intro start stp h0 hlo
    rw [Bin.loop.eq_def below, Bin.loop.eq_def below']
    simp only []
    by_cases hle : start ≤ stp
    · simp only [hle, if_true]
      have hm1 : start ≤ (stp + start) / 2 := by omega
      generalize (stp + start) / 2 = mid at *
      rw [← hagree mid (by omega)]
      cases hb : below mid with
      | true =>
        simp only [if_true]
        exact ih (mid + 1) stp (by omega) (by omega)
      | false =>
        simp only [Bool.false_eq_true, if_false]
        have hmid : 1 ≤ mid := by
          by_cases h : 1 ≤ mid
          · exact h
          · have hz : mid = 0 := by omega
            have hs0 : start = 0 := by omega
            rw [hz, hlo hs0] at hb; cases hb
        rw [← hagree (mid - 1) (by omega)]
        cases below (mid - 1) with
        | true => rfl
        | false => simp only [Bool.false_eq_true, if_false]; exact ih start (mid - 1) h0 hlo
    · simp [hle]

/-- the whole search: when the first bin is comparable with the value (`bins[0] < v` iff not `v <= bins[0]`), the
    result does not depend on what a negative index reads -- `g` is *any* reading of `bins` that is right on
    `0 <= i` -/
theorem search_no_wrap {α : Type} (lt le : α → α → Bool) (d : α) (bins : List α) (v : α)
    (h0 : lt (Bin.getW d bins 0) v = !le v (Bin.getW d bins 0))
    (g : Int → α) (hg : ∀ i, 0 ≤ i → g i = Bin.getW d bins i) (hne : bins ≠ []) :
    Bin.search lt le d bins v = Bin.searchP (fun i => lt (g i) v) (fun i => le v (g i)) bins.length := by
  have hn : 1 ≤ bins.length := List.length_pos_iff.mpr hne
  unfold Bin.search Bin.searchP
  simp only [hg 0 (by omega), hg ((bins.length : Int) - 1) (by omega)]
  cases h : le v (Bin.getW d bins 0) with
  | true => simp
  | false =>
    simp only [Bool.false_eq_true, if_false]
    split
    · apply loop_no_wrap _ _ (fun i hi => by rw [hg i hi]) _ _ _ (by omega)
      intro _; rw [h0, h]; rfl
    · rfl

end XrsVerif.ILBin
