import XrsVerif.Model.Bin
import Mathlib.Order.Basic
import Mathlib.Order.Defs.LinearOrder
import Mathlib.Tactic.Ring
import Mathlib.Tactic.Linarith
import Mathlib.Tactic.FieldSimp
import Mathlib.Algebra.Order.Field.Basic
import Mathlib.Data.Rat.Floor
/-!
  Helper lemmas for C12: the `_cpu_bin` loop invariant, `searchP` on abstract tests, the bridge to lists
  over a linear order and over `Ext`, `uniq`, the equal-interval cuts.
-/
set_option linter.unusedVariables false
set_option linter.unusedSimpArgs false
set_option linter.unnecessarySeqFocus false
namespace XrsVerif.Bin

/-- the fuel is never what stops the loop: with at least `end - start + 1` units (the model gives it
    `nbins`) one more unit changes nothing, for *any* test `below` (sorted bins or not, NaN or not) -/
theorem loop_fuel (below : Int → Bool) (fuel : Nat) (start stp : Int)
    (h : (stp - start + 1).toNat ≤ fuel) :
    loop below (fuel + 1) start stp = loop below fuel start stp := by
  induction fuel generalizing start stp with
  | zero =>
    have : ¬ start ≤ stp := by omega
    simp [loop, this]
  | succ fuel ih =>
    rw [loop.eq_def below (fuel + 1 + 1), loop.eq_def below (fuel + 1)]
    simp only []
    by_cases hle : start ≤ stp
    · have hm1 : start ≤ (stp + start) / 2 := by omega
      have hm2 : (stp + start) / 2 ≤ stp := by omega
      simp only [hle, if_true]
      rw [ih ((stp + start) / 2 + 1) stp (by omega), ih start ((stp + start) / 2 - 1) (by omega)]
    · simp [hle]

theorem loop_fuel_ge (below : Int → Bool) (fuel extra : Nat) (start stp : Int)
    (h : (stp - start + 1).toNat ≤ fuel) :
    loop below (fuel + extra) start stp = loop below fuel start stp := by
  induction extra with
  | zero => rfl
  | succ e ih => rw [← Nat.add_assoc, loop_fuel below (fuel + e) start stp (by omega), ih]

/-- what the loop returns: an index `r` with `bins[r-1] < val` and not `bins[r] < val` -/
theorem loop_spec (below : Int → Bool) (fuel : Nat) (start stp : Int)
    (hle : start ≤ stp)
    (hlo : (1 ≤ start ∧ below (start - 1) = true) ∨ (start = 0 ∧ below 0 = true))
    (hhi : below stp = false)
    (hf : (stp - start + 1).toNat ≤ fuel) :
    start ≤ loop below fuel start stp ∧ loop below fuel start stp ≤ stp ∧ 1 ≤ loop below fuel start stp ∧
      below (loop below fuel start stp - 1) = true ∧ below (loop below fuel start stp) = false := by
  induction fuel generalizing start stp with
  | zero => omega
  | succ fuel ih =>
    have hm1 : start ≤ (stp + start) / 2 := by omega
    have hm2 : (stp + start) / 2 ≤ stp := by omega
    rw [loop.eq_def]
    simp only [hle, if_true]
    generalize (stp + start) / 2 = mid at *
    cases hc1 : below mid with
    | true =>
      have hne : mid ≠ stp := by intro h; subst h; simp [hhi] at hc1
      have := ih (mid + 1) stp (by omega) (Or.inl ⟨by omega, by simpa using hc1⟩) hhi (by omega)
      simp only [if_true]
      exact ⟨by omega, this.2.1, this.2.2.1, this.2.2.2.1, this.2.2.2.2⟩
    | false =>
      cases hc2 : below (mid - 1) with
      | true =>
        simp only [if_true, Bool.false_eq_true, if_false]
        refine ⟨hm1, hm2, ?_, hc2, hc1⟩
        rcases hlo with h | h
        · omega
        · by_cases hge : 1 ≤ mid
          · exact hge
          · have : mid = 0 := by omega
            subst this; rw [h.2] at hc1; cases hc1
      | false =>
        have hne : mid ≠ start := by
          intro h; subst h
          rcases hlo with h | h
          · rw [h.2] at hc2; cases hc2
          · rw [h.1] at hc1; rw [h.2] at hc1; cases hc1
        have := ih start (mid - 1) (by omega) hlo hc2 (by omega)
        simp only [Bool.false_eq_true, if_false]
        exact ⟨this.1, by omega, this.2.2.1, this.2.2.2.1, this.2.2.2.2⟩
/-- `searchP` under totality (`bins[i] < v` iff not `v <= bins[i]`: no NaN bin), any order of the bins:
    the result is `-1` only if `v` is above the first and the last bin, otherwise it is an index `r` whose bin
    holds `v` (`bins[r-1] < v <= bins[r]`). -/
theorem searchP_spec (below atMost : Int → Bool) (n : Nat) (hn : 1 ≤ n)
    (htot : ∀ i : Int, 0 ≤ i → i < n → below i = !atMost i) :
    (searchP below atMost n = -1 ∧ atMost 0 = false ∧ atMost ((n : Int) - 1) = false) ∨
    (0 ≤ searchP below atMost n ∧ searchP below atMost n < n ∧ atMost (searchP below atMost n) = true ∧
      (searchP below atMost n = 0 ∨ (1 ≤ searchP below atMost n ∧ atMost (searchP below atMost n - 1) = false))) := by
  unfold searchP
  cases h0 : atMost 0 with
  | true => right; simp only [if_true]; exact ⟨by omega, by omega, h0, Or.inl trivial⟩
  | false =>
    cases hl : atMost ((n : Int) - 1) with
    | false => left; simp
    | true =>
      right
      simp only [Bool.false_eq_true, if_false, if_true]
      have hn2 : 2 ≤ n := by
        rcases Nat.lt_or_ge n 2 with h | h
        · have : n = 1 := by omega
          subst this; simp at hl; rw [h0] at hl; cases hl
        · exact h
      have hb0 : below 0 = true := by rw [htot 0 (by omega) (by omega), h0]; rfl
      have hbl : below ((n : Int) - 1) = false := by rw [htot _ (by omega) (by omega), hl]; rfl
      have := loop_spec below n 0 ((n : Int) - 1) (by omega) (Or.inr ⟨rfl, hb0⟩) hbl (by omega)
      obtain ⟨h1, h2, h3, h4, h5⟩ := this
      generalize loop below n 0 ((n : Int) - 1) = r at *
      refine ⟨by omega, by omega, ?_, Or.inr ⟨h3, ?_⟩⟩
      · have := htot r (by omega) (by omega); rw [h5] at this
        cases h : atMost r with
        | true => rfl
        | false => rw [h] at this; cases this
      · have := htot (r - 1) (by omega) (by omega); rw [h4] at this
        cases h : atMost (r - 1) with
        | false => rfl
        | true => rw [h] at this; cases this

/-- ... and for ascending bins it is the *first* such index -/
theorem searchP_first (below atMost : Int → Bool) (n : Nat) (hn : 1 ≤ n)
    (htot : ∀ i : Int, 0 ≤ i → i < n → below i = !atMost i)
    (hmono : ∀ i : Int, 0 ≤ i → i + 1 < n → atMost i = true → atMost (i + 1) = true) :
    (searchP below atMost n = -1 ∧ ∀ i : Int, 0 ≤ i → i < n → atMost i = false) ∨
    (0 ≤ searchP below atMost n ∧ searchP below atMost n < n ∧ atMost (searchP below atMost n) = true ∧
      ∀ i : Int, 0 ≤ i → i < searchP below atMost n → atMost i = false) := by
  -- monotonicity, iterated
  have up : ∀ (k : Nat) (i : Int), 0 ≤ i → i + k < n → atMost i = true → atMost (i + k) = true := by
    intro k
    induction k with
    | zero => intro i _ _ h; simpa using h
    | succ k ih =>
      intro i hi hik h
      have := hmono (i + k) (by omega) (by omega) (ih i hi (by omega) h)
      rw [show i + ((k + 1 : Nat) : Int) = i + k + 1 by omega]; exact this
  have down : ∀ i j : Int, 0 ≤ i → i ≤ j → j < n → atMost j = false → atMost i = false := by
    intro i j hi hij hj hf
    cases h : atMost i with
    | false => rfl
    | true =>
      have := up (j - i).toNat i hi (by omega) h
      rw [show i + ((j - i).toNat : Int) = j by omega, hf] at this; cases this
  rcases searchP_spec below atMost n hn htot with ⟨h1, _, h3⟩ | ⟨h1, h2, h3, h4⟩
  · left; exact ⟨h1, fun i hi hin => down i ((n : Int) - 1) hi (by omega) (by omega) h3⟩
  · right
    refine ⟨h1, h2, h3, fun i hi hir => ?_⟩
    rcases h4 with h4 | h4
    · omega
    · exact down i _ hi (by omega) (by omega) h4.2

variable {α : Type}

theorem getW_nat (d : α) (l : List α) (i : Nat) (h : i < l.length) : getW d l (i : Int) = l[i] := by
  unfold getW
  have h1 : ¬ ((i : Int) < 0) := by omega
  simp only [h1, if_false]
  have h2 : (0 : Int) ≤ (i : Int) := by omega
  simp only [h2, if_true, Int.toNat_natCast]
  simp [List.getD_eq_getElem?_getD, h]

theorem getW_int (d : α) (l : List α) (i : Int) (h0 : 0 ≤ i) (h : i < l.length) :
    getW d l i = l[i.toNat]'(by omega) := by
  have := getW_nat d l i.toNat (by omega)
  rw [show ((i.toNat : Nat) : Int) = i by omega] at this
  exact this

theorem canonical_fields :
    canonical.firstOp = .le ∧ canonical.firstIdx = 0 ∧ canonical.firstBin = 0 ∧ canonical.lastOp = .le ∧
    canonical.lastOff = -1 ∧ canonical.startInit = 0 ∧ canonical.endOff = -1 ∧ canonical.loopOp = .le ∧
    canonical.rightOp = .lt ∧ canonical.rightOff = 0 ∧ canonical.rightStep = 1 ∧ canonical.stopOp = .gt ∧
    canonical.stopOff = -1 ∧ canonical.leftStep = -1 ∧ canonical.initBin = -1 := by
  refine ⟨rfl, rfl, rfl, rfl, rfl, rfl, rfl, rfl, rfl, rfl, rfl, rfl, rfl, rfl, rfl⟩

theorem loopS_canonical (below : Int → Bool) (fuel : Nat) (s e : Int) :
    loopS canonical below below fuel s e = loop below fuel s e := by
  induction fuel generalizing s e with
  | zero => rfl
  | succ fuel ih =>
    rw [loopS.eq_def, loop.eq_def]
    obtain ⟨_, _, _, _, _, _, _, h8, h9, h10, h11, h12, h13, h14, _⟩ := canonical_fields
    simp only [h8, h9, h10, h11, h12, h13, h14, Op.evI, decide_eq_true_eq, Int.add_zero, ← Int.sub_eq_add_neg, ih]

theorem searchS_canonical (lt le : α → α → Bool) (d : α) (bins : List α) (v : α) :
    searchS canonical lt le d bins v = search lt le d bins v := by
  unfold searchS search searchP
  obtain ⟨h1, h2, h3, h4, h5, h6, h7, _, h9, _, _, h12, _, _, h15⟩ := canonical_fields
  simp only [h1, h2, h3, h4, h5, h6, h7, h9, h12, h15, Op.ev, ← Int.sub_eq_add_neg, loopS_canonical]


section lin
variable [LinearOrder α]
theorem insertU_mem (x a : α) (l : List α) : a ∈ insertU x l ↔ a = x ∨ a ∈ l := by
  induction l with
  | nil => simp [insertU]
  | cons y ys ih =>
    unfold insertU
    split
    · simp
    · split
      · simp [ih]; tauto
      · have : x = y := by rename_i h1 h2; exact le_antisymm (not_lt.mp h2) (not_lt.mp h1)
        subst this; simp
theorem insertU_sorted (x : α) (l : List α) (h : l.Pairwise (· < ·)) : (insertU x l).Pairwise (· < ·) := by
  induction l with
  | nil => simp [insertU]
  | cons y ys ih =>
    unfold insertU
    rw [List.pairwise_cons] at h
    split
    · rename_i hxy
      rw [List.pairwise_cons]
      refine ⟨?_, List.pairwise_cons.mpr h⟩
      intro a ha
      rcases List.mem_cons.mp ha with rfl | ha
      · exact hxy
      · exact lt_trans hxy (h.1 a ha)
    · split
      · rename_i h1 h2
        rw [List.pairwise_cons]
        refine ⟨?_, ih h.2⟩
        intro a ha
        rcases (insertU_mem x a ys).mp ha with rfl | ha
        · exact h2
        · exact h.1 a ha
      · exact List.pairwise_cons.mpr h
theorem uniq_sorted (l : List α) : (uniq l).Pairwise (· < ·) := by
  induction l with
  | nil => simp [uniq]
  | cons x xs ih => exact insertU_sorted x _ ih
theorem mem_uniq (a : α) (l : List α) : a ∈ uniq l ↔ a ∈ l := by
  induction l with
  | nil => simp [uniq]
  | cons x xs ih =>
    show a ∈ insertU x (uniq xs) ↔ _
    rw [insertU_mem, ih]; simp
theorem insertU_length (x : α) (l : List α) : (insertU x l).length ≤ l.length + 1 := by
  induction l with
  | nil => simp [insertU]
  | cons y ys ih => unfold insertU; split <;> [simp; (split <;> simp <;> omega)]
theorem uniq_length (l : List α) : (uniq l).length ≤ l.length := by
  induction l with
  | nil => simp [uniq]
  | cons x xs ih =>
    show (insertU x (uniq xs)).length ≤ _
    have := insertU_length x (uniq xs); simp; omega
/-- `np.unique` leaves a strictly ascending list alone -/
theorem uniq_of_sorted (l : List α) (h : l.Pairwise (· < ·)) : uniq l = l := by
  induction l with
  | nil => simp [uniq]
  | cons x xs ih =>
    rw [List.pairwise_cons] at h
    show insertU x (uniq xs) = _
    rw [ih h.2]
    cases xs with
    | nil => simp [insertU]
    | cons y ys => simp [insertU, h.1 y (by simp)]
end lin

/-- list form, for any pair of boolean comparisons that behaves like a total order *on the bins against
    this value*: the search returns the first bin with `le v bin` -/
theorem search_eq_findIdx (lt le : α → α → Bool) (d v : α) (bins : List α) (hne : bins ≠ [])
    (htot : ∀ b ∈ bins, lt b v = !le v b)
    (hmono : bins.Pairwise (fun a b => le v a = true → le v b = true)) :
    search lt le d bins v =
      match bins.findIdx? (fun b => le v b) with | some i => (i : Int) | none => -1 := by
  have hn : 1 ≤ bins.length := by
    cases bins with
    | nil => exact absurd rfl hne
    | cons => simp
  have hs' := List.pairwise_iff_getElem.mp hmono
  have htot' : ∀ i : Int, 0 ≤ i → i < bins.length →
      (fun i => lt (getW d bins i) v) i = !(fun i => le v (getW d bins i)) i := by
    intro i h0 h1
    simp only [getW_int d bins i h0 h1]
    exact htot _ (List.getElem_mem _)
  have hmono' : ∀ i : Int, 0 ≤ i → i + 1 < bins.length →
      (fun i => le v (getW d bins i)) i = true → (fun i => le v (getW d bins i)) (i + 1) = true := by
    intro i h0 h1 h
    simp only at h ⊢
    rw [getW_int d bins i h0 (by omega)] at h
    rw [getW_int d bins (i + 1) (by omega) h1]
    exact hs' _ _ _ _ (by omega) h
  unfold search
  rcases searchP_first _ _ bins.length hn htot' hmono' with ⟨h1, h2⟩ | ⟨h1, h2, h3, h4⟩
  · rw [h1]
    have : bins.findIdx? (fun b => le v b) = none := by
      rw [List.findIdx?_eq_none_iff]
      intro x hx
      obtain ⟨i, hi, rfl⟩ := List.getElem_of_mem hx
      have := h2 i (by omega) (by omega)
      simp only [getW_nat d bins i hi] at this
      exact this
    rw [this]
  · generalize searchP (fun i => lt (getW d bins i) v) (fun i => le v (getW d bins i)) bins.length = r at *
    have : bins.findIdx? (fun b => le v b) = some r.toNat := by
      rw [List.findIdx?_eq_some_iff_getElem]
      refine ⟨by omega, ?_, ?_⟩
      · simp only [getW_int d bins r h1 h2] at h3; exact h3
      · intro j hj
        have := h4 j (by omega) (by omega)
        simp only [getW_nat d bins j (by omega)] at this
        simpa using this
    rw [this]
    simp only
    omega

section lin
variable [LinearOrder α]

def ltB (a b : α) : Bool := decide (a < b)
def leB (a b : α) : Bool := decide (a ≤ b)

/-- specification: the first bin whose upper bound is ≥ v -/
def firstGE (bins : List α) (v : α) : Option Nat := bins.findIdx? (fun b => decide (v ≤ b))

theorem search_eq_firstGE (d v : α) (bins : List α) (hne : bins ≠ [])
    (hs : bins.Pairwise (· ≤ ·)) :
    search ltB leB d bins v = match firstGE bins v with | some i => (i : Int) | none => -1 := by
  refine search_eq_findIdx ltB leB d v bins hne ?_ ?_
  · intro b _
    simp only [ltB, leB]
    by_cases h : v ≤ b
    · simp [h, not_lt.mpr h]
    · simp [h, not_le.mp h]
  · refine hs.imp ?_
    intro a b hab h
    simp only [leB, decide_eq_true_eq] at h ⊢
    exact le_trans h hab

theorem firstGE_some_iff (bins : List α) (v : α) (i : Nat) :
    firstGE bins v = some i ↔ ∃ h : i < bins.length, v ≤ bins[i] ∧ ∀ j (hj : j < i), bins[j] < v := by
  unfold firstGE
  rw [List.findIdx?_eq_some_iff_getElem]
  constructor
  · rintro ⟨h, h1, h2⟩
    exact ⟨h, by simpa using h1, fun j hj => by have := h2 j hj; simpa using this⟩
  · rintro ⟨h, h1, h2⟩
    exact ⟨h, by simpa using h1, fun j hj => by have := h2 j hj; simpa using this⟩

theorem firstGE_none_iff (bins : List α) (v : α) : firstGE bins v = none ↔ ∀ b ∈ bins, b < v := by
  unfold firstGE
  rw [List.findIdx?_eq_none_iff]
  simp

/-- the class is a valid bin index -/
theorem firstGE_lt_length (bins : List α) (v : α) (i : Nat) (h : firstGE bins v = some i) :
    i < bins.length := ((firstGE_some_iff bins v i).mp h).1

/-- a larger value never gets a smaller class, and if it has a class so has every smaller value -/
theorem firstGE_mono (bins : List α) (v w : α) (hvw : v ≤ w) (j : Nat) (hw : firstGE bins w = some j) :
    ∃ i, firstGE bins v = some i ∧ i ≤ j := by
  obtain ⟨hj, h1, h2⟩ := (firstGE_some_iff bins w j).mp hw
  cases hv : firstGE bins v with
  | none =>
    have := (firstGE_none_iff bins v).mp hv _ (List.getElem_mem hj)
    exact absurd (le_trans hvw h1) (not_le.mpr this)
  | some i =>
    refine ⟨i, rfl, ?_⟩
    obtain ⟨hi, h3, h4⟩ := (firstGE_some_iff bins v i).mp hv
    by_cases hle : i ≤ j
    · exact hle
    · have := h4 j (by omega)
      exact absurd (le_trans hvw h1) (not_le.mpr this)

/-- every value not above some bin has a class -/
theorem firstGE_isSome (bins : List α) (v b : α) (hb : b ∈ bins) (hv : v ≤ b) :
    ∃ i, firstGE bins v = some i := by
  cases h : firstGE bins v with
  | none => exact absurd hv (not_le.mpr ((firstGE_none_iff bins v).mp h b hb))
  | some i => exact ⟨i, rfl⟩

/-- for ascending bins: no class exactly above the last bin -/
theorem firstGE_none_iff_last (bins : List α) (v : α) (hne : bins ≠ []) (hs : bins.Pairwise (· ≤ ·)) :
    firstGE bins v = none ↔ bins.getLast hne < v := by
  rw [firstGE_none_iff]
  constructor
  · intro h; exact h _ (List.getLast_mem hne)
  · intro h b hb
    have : b ≤ bins.getLast hne := by
      obtain ⟨i, hi, rfl⟩ := List.getElem_of_mem hb
      rw [List.getLast_eq_getElem]
      by_cases hlt : i < bins.length - 1
      · exact (List.pairwise_iff_getElem.mp hs) _ _ _ _ hlt
      · have : i = bins.length - 1 := by omega
        subst this; exact le_refl _
    exact lt_of_le_of_lt this h

/-- for ascending bins: class `i` is exactly `bins[i-1] < v ≤ bins[i]` (no lower bound for `i = 0`) -/
theorem firstGE_some_iff_sorted (bins : List α) (v : α) (i : Nat) (hs : bins.Pairwise (· ≤ ·)) :
    firstGE bins v = some i ↔
      ∃ h : i < bins.length, v ≤ bins[i] ∧ (i = 0 ∨ ∃ h' : i - 1 < bins.length, bins[i - 1] < v) := by
  rw [firstGE_some_iff]
  constructor
  · rintro ⟨h, h1, h2⟩
    refine ⟨h, h1, ?_⟩
    by_cases h0 : i = 0
    · exact Or.inl h0
    · exact Or.inr ⟨by omega, h2 (i - 1) (by omega)⟩
  · rintro ⟨h, h1, h2⟩
    refine ⟨h, h1, fun j hj => ?_⟩
    rcases h2 with h0 | ⟨h', h2⟩
    · omega
    · by_cases hji : j = i - 1
      · subst hji; exact h2
      · exact lt_of_le_of_lt ((List.pairwise_iff_getElem.mp hs) _ _ _ _ (by omega)) h2
end lin

section ext
variable {K : Type} [LinearOrder K]

/-- an ascending bin list in the sense of the property: no NaN, each bin `<=` the next (IEEE); ±inf allowed -/
def ExtAscending (bins : List (Ext K)) : Prop :=
  (∀ b ∈ bins, b ≠ .nan) ∧ bins.Pairwise (fun a b => Ext.le a b = true)

/-- specification on extended bins: the first bin whose upper bound is `>=` the finite value `x` -/
def firstGEx (bins : List (Ext K)) (x : K) : Option Nat := bins.findIdx? (fun b => Ext.le (.fin x) b)

theorem Ext.lt_eq_not_le (b : Ext K) (x : K) (hb : b ≠ .nan) : Ext.lt b (.fin x) = !Ext.le (.fin x) b := by
  cases b with
  | nan => exact absurd rfl hb
  | ninf => rfl
  | pinf => rfl
  | fin y =>
    simp only [Ext.lt, Ext.le]
    by_cases h : x ≤ y
    · simp [h, not_lt.mpr h]
    · simp [h, not_le.mp h]

theorem Ext.le_trans_fin (x : K) (a b : Ext K) (h1 : Ext.le (.fin x) a = true) (h2 : Ext.le a b = true) :
    Ext.le (.fin x) b = true := by
  cases a <;> cases b <;> simp_all [Ext.le]
  exact le_trans h1 h2

theorem cell_nonfinite (bins newv : List (Ext K)) (v : Ext K) (hv : v.isFinite = false) :
    cell bins newv v = .nan := by
  unfold cell; simp [hv]

theorem cell_spec (bins newv : List (Ext K)) (hne : bins ≠ []) (hasc : ExtAscending bins) (x : K) :
    cell bins newv (.fin x) =
      match firstGEx bins x with | some i => getW .nan newv (i : Int) | none => .nan := by
  have hs : search Ext.lt Ext.le .nan bins (.fin x) =
      match bins.findIdx? (fun b => Ext.le (.fin x) b) with | some i => (i : Int) | none => -1 := by
    refine search_eq_findIdx Ext.lt Ext.le .nan (.fin x) bins hne ?_ ?_
    · intro b hb; exact Ext.lt_eq_not_le b x (hasc.1 b hb)
    · exact hasc.2.imp (fun hab h => Ext.le_trans_fin x _ _ h hab)
  unfold cell firstGEx
  simp only [Ext.isFinite, if_true, hs]
  cases bins.findIdx? (fun b => Ext.le (.fin x) b) with
  | none => simp
  | some i =>
    have : ((i : Int) > -1) := by omega
    simp [this]

theorem firstGEx_none_iff (bins : List (Ext K)) (x : K) (hne : bins ≠ []) (hasc : ExtAscending bins) :
    firstGEx bins x = none ↔ Ext.lt (bins.getLast hne) (.fin x) = true := by
  unfold firstGEx
  rw [List.findIdx?_eq_none_iff]
  constructor
  · intro h
    have h1 := h _ (List.getLast_mem hne)
    rw [Ext.lt_eq_not_le _ _ (hasc.1 _ (List.getLast_mem hne))]
    simpa using h1
  · intro h b hb
    cases hle : Ext.le (.fin x) b with
    | false => rfl
    | true =>
      have hbl : Ext.le b (bins.getLast hne) = true := by
        obtain ⟨i, hi, rfl⟩ := List.getElem_of_mem hb
        rw [List.getLast_eq_getElem]
        by_cases hlt : i < bins.length - 1
        · exact (List.pairwise_iff_getElem.mp hasc.2) _ _ _ _ hlt
        · have : i = bins.length - 1 := by omega
          subst this
          have hn := hasc.1 _ (List.getElem_mem hi)
          revert hn
          cases bins[bins.length - 1] <;> simp [Ext.le]
      have := Ext.le_trans_fin x _ _ hle hbl
      rw [Ext.lt_eq_not_le _ _ (hasc.1 _ (List.getLast_mem hne)), this] at h
      cases h

theorem firstGEx_fin (bs : List K) (x : K) : firstGEx (bs.map .fin) x = firstGE bs x := by
  unfold firstGEx firstGE
  induction bs with
  | nil => rfl
  | cons b bs ih =>
    have h0 : Ext.le (Ext.fin x) (Ext.fin b) = decide (x ≤ b) := rfl
    simp only [List.map_cons, List.findIdx?_cons, h0, ih]

theorem extAscending_fin (bs : List K) (hs : bs.Pairwise (· ≤ ·)) : ExtAscending (bs.map (.fin : K → Ext K)) := by
  refine ⟨?_, ?_⟩
  · intro b hb; simp only [List.mem_map] at hb; obtain ⟨a, _, rfl⟩ := hb; simp
  · rw [List.pairwise_map]; exact hs.imp (fun h => by simpa [Ext.le] using h)
end ext

theorem ceilQ_natCast (k : Nat) : ceilQ (k : Rat) = k := by
  unfold ceilQ
  have : (-(k : Rat)) = ((-(k : Int) : Int) : Rat) := by push_cast; ring
  rw [this, Rat.floor_intCast]; omega

theorem setLast_map_range {α : Type} (f : Nat → α) (k : Nat) (x : α) (h : f k = x) :
    setLast ((List.range (k + 1)).map f) x = (List.range (k + 1)).map f := by
  unfold setLast
  rw [List.range_succ, List.map_append]
  simp only [List.map_cons, List.map_nil]
  split
  · rename_i heq; simp at heq
  · rw [List.dropLast_concat, h]

/-- in exact arithmetic `arange` yields exactly `k` cuts, nothing is trimmed, and forcing the last cut to
    `max` changes nothing: the bins are `min + (i+1) * width`, `i = 0..k-1` -/
theorem equalIntervalCuts_eq (mn mx : Rat) (k : Nat) (hk : 1 ≤ k) (h : mn < mx) :
    equalIntervalCuts mn mx k =
      ((List.range k).map (fun i : Nat => mn + ((i : Rat) + 1) * ((mx - mn) / (k : Rat))), k) := by
  have hk0 : (0 : Rat) < (k : Rat) := by exact_mod_cast hk
  have hw : 0 < (mx - mn) / (k : Rat) := div_pos (by linarith) hk0
  unfold equalIntervalCuts
  simp only
  generalize hwd : (mx - mn) / (k : Rat) = w at *
  have hlen : ceilQ ((mx + w - (mn + w)) / w) = k := by
    have : (mx + w - (mn + w)) / w = (k : Rat) := by
      have hne : mx - mn ≠ 0 := by linarith
      have hk0' : (k : Rat) ≠ 0 := ne_of_gt hk0
      have : mx + w - (mn + w) = mx - mn := by ring
      rw [this, ← hwd]; field_simp
    rw [this, ceilQ_natCast]
  have har : arange (mn + w) (mx + w) w = (List.range k).map (fun i : Nat => mn + ((i : Rat) + 1) * w) := by
    unfold arange
    rw [hlen, Int.toNat_natCast]
    apply List.map_congr_left
    intro i _; ring
  rw [har]
  simp only [List.length_map, List.length_range, Nat.lt_irrefl, if_false]
  obtain ⟨k', rfl⟩ : ∃ k', k = k' + 1 := ⟨k - 1, by omega⟩
  rw [setLast_map_range]
  rw [← hwd]; push_cast; field_simp; ring

/-- the cuts ascend strictly -/
theorem equalInterval_sorted (mn w : Rat) (k : Nat) (hw : 0 < w) :
    ((List.range k).map (fun i : Nat => mn + ((i : Rat) + 1) * w)).Pairwise (· ≤ ·) := by
  rw [List.pairwise_iff_getElem]
  intro i j hi hj hij
  simp only [List.getElem_map, List.getElem_range]
  have : (i : Rat) < (j : Rat) := by exact_mod_cast hij
  nlinarith

/-- specification of a data-driven classifier with ascending finite bins `bs`:
    non-finite cells get NaN, a finite cell gets the index of the first bin `>=` it (NaN above the last bin) -/
def classOf (bs : List Rat) : Ext Rat → Ext Rat
  | .fin x => match firstGE bs x with | some i => .fin (i : Rat) | none => .nan
  | _ => .nan

theorem getW_classIds (l i : Nat) (h : i < l) : getW (Ext.nan : Ext Rat) (classIds l) (i : Int) = .fin (i : Rat) := by
  rw [getW_nat _ _ _ (by simp [classIds]; exact h)]
  simp [classIds]

theorem cell_classIds (bs : List Rat) (hne : bs ≠ []) (hs : bs.Pairwise (· ≤ ·)) (l : Nat)
    (hl : bs.length ≤ l) (v : Ext Rat) : cell (bs.map .fin) (classIds l) v = classOf bs v := by
  cases v with
  | fin x =>
    rw [cell_spec _ _ (by simpa using hne) (extAscending_fin bs hs), firstGEx_fin]
    cases h : firstGE bs x with
    | none => simp only [classOf, h]
    | some i =>
      have := firstGE_lt_length bs x i h
      simp only [classOf, h]
      rw [getW_classIds l i (by omega)]
  | nan => exact cell_nonfinite _ _ _ rfl
  | pinf => exact cell_nonfinite _ _ _ rfl
  | ninf => exact cell_nonfinite _ _ _ rfl

theorem maxQ_go (l : List Rat) (m0 : Rat) :
    ∃ m, l.foldl maxStep (some m0) = some m
      ∧ (m = m0 ∨ m ∈ l) ∧ m0 ≤ m ∧ ∀ x ∈ l, x ≤ m := by
  induction l generalizing m0 with
  | nil => exact ⟨m0, rfl, Or.inl rfl, le_refl _, by simp⟩
  | cons a as ih =>
    simp only [List.foldl_cons, maxStep]
    obtain ⟨m, h1, h2, h3, h4⟩ := ih (if m0 < a then a else m0)
    refine ⟨m, h1, ?_, ?_, ?_⟩
    · rcases h2 with h2 | h2
      · split at h2
        · right; rw [h2]; simp
        · left; exact h2
      · right; simp [h2]
    · split at h3 <;> linarith
    · intro x hx
      rcases List.mem_cons.mp hx with rfl | hx
      · split at h3 <;> linarith
      · exact h4 x hx

theorem maxQ_spec (l : List Rat) (m : Rat) (h : maxQ l = some m) : m ∈ l ∧ ∀ x ∈ l, x ≤ m := by
  cases l with
  | nil => simp [maxQ] at h
  | cons a as =>
    unfold maxQ at h
    simp only [List.foldl_cons, maxStep] at h
    obtain ⟨m', h1, h2, h3, h4⟩ := maxQ_go as a
    rw [h1] at h
    cases h
    refine ⟨?_, ?_⟩
    · rcases h2 with h2 | h2 <;> simp [h2]
    · intro x hx
      rcases List.mem_cons.mp hx with rfl | hx
      · exact h3
      · exact h4 x hx

theorem minQ_go (l : List Rat) (m0 : Rat) :
    ∃ m, l.foldl minStep (some m0) = some m
      ∧ (m = m0 ∨ m ∈ l) ∧ m ≤ m0 ∧ ∀ x ∈ l, m ≤ x := by
  induction l generalizing m0 with
  | nil => exact ⟨m0, rfl, Or.inl rfl, le_refl _, by simp⟩
  | cons a as ih =>
    simp only [List.foldl_cons, minStep]
    obtain ⟨m, h1, h2, h3, h4⟩ := ih (if a < m0 then a else m0)
    refine ⟨m, h1, ?_, ?_, ?_⟩
    · rcases h2 with h2 | h2
      · split at h2
        · right; rw [h2]; simp
        · left; exact h2
      · right; simp [h2]
    · split at h3 <;> linarith
    · intro x hx
      rcases List.mem_cons.mp hx with rfl | hx
      · split at h3 <;> linarith
      · exact h4 x hx

theorem minQ_spec (l : List Rat) (m : Rat) (h : minQ l = some m) : m ∈ l ∧ ∀ x ∈ l, m ≤ x := by
  cases l with
  | nil => simp [minQ] at h
  | cons a as =>
    unfold minQ at h
    simp only [List.foldl_cons, minStep] at h
    obtain ⟨m', h1, h2, h3, h4⟩ := minQ_go as a
    rw [h1] at h
    cases h
    refine ⟨?_, ?_⟩
    · rcases h2 with h2 | h2 <;> simp [h2]
    · intro x hx
      rcases List.mem_cons.mp hx with rfl | hx
      · exact h3
      · exact h4 x hx

theorem mem_finiteVals (cells : List (Ext Rat)) (x : Rat) : x ∈ finiteVals cells ↔ Ext.fin x ∈ cells := by
  unfold finiteVals
  rw [List.mem_filterMap]
  constructor
  · rintro ⟨c, hc, h⟩
    cases c <;> simp at h
    subst h; exact hc
  · intro h; exact ⟨_, h, rfl⟩

theorem classOf_nonfinite (bs : List Rat) (v : Ext Rat) (hv : v.isFinite = false) : classOf bs v = .nan := by
  cases v <;> simp_all [classOf, Ext.isFinite]

theorem classOf_fin (bs : List Rat) (x : Rat) (i : Nat) :
    classOf bs (.fin x) = .fin (i : Rat) ↔ firstGE bs x = some i := by
  simp only [classOf]
  cases h : firstGE bs x with
  | none => simp
  | some j =>
    simp only [Ext.fin.injEq, Option.some.injEq]
    constructor
    · intro h'; exact_mod_cast h'
    · intro h'; rw [h']

theorem classOf_cases (bs : List Rat) (x : Rat) :
    classOf bs (.fin x) = .nan ∨ ∃ i : Nat, i < bs.length ∧ classOf bs (.fin x) = .fin (i : Rat) := by
  simp only [classOf]
  cases h : firstGE bs x with
  | none => left; rfl
  | some j => right; exact ⟨j, firstGE_lt_length bs x j h, rfl⟩

/-- every finite value not above some bin is classified, with a class in `[0, len-1]` -/
theorem classOf_classified (bs : List Rat) (x b : Rat) (hb : b ∈ bs) (hx : x ≤ b) :
    ∃ i : Nat, i < bs.length ∧ classOf bs (.fin x) = .fin (i : Rat) := by
  obtain ⟨i, hi⟩ := firstGE_isSome bs x b hb hx
  exact ⟨i, firstGE_lt_length bs x i hi, (classOf_fin bs x i).mpr hi⟩

/-- order preservation: a larger value never gets a smaller class -/
theorem classOf_mono (bs : List Rat) (x y : Rat) (hxy : x ≤ y) (j : Nat)
    (hy : classOf bs (.fin y) = .fin (j : Rat)) :
    ∃ i : Nat, i ≤ j ∧ classOf bs (.fin x) = .fin (i : Rat) := by
  obtain ⟨i, hi, hij⟩ := firstGE_mono bs x y hxy j ((classOf_fin bs y j).mp hy)
  exact ⟨i, hij, (classOf_fin bs x i).mpr hi⟩

/-- for ascending bins, class `i` is the band `bs[i-1] < x <= bs[i]` -/
theorem classOf_band (bs : List Rat) (hs : bs.Pairwise (· ≤ ·)) (x : Rat) (i : Nat) :
    classOf bs (.fin x) = .fin (i : Rat) ↔
      ∃ h : i < bs.length, x ≤ bs[i] ∧ (i = 0 ∨ ∃ h' : i - 1 < bs.length, bs[i - 1] < x) := by
  rw [classOf_fin, firstGE_some_iff_sorted bs x i hs]

/-- NaN for a finite value exactly when it lies above the last bin -/
theorem classOf_nan_iff (bs : List Rat) (hne : bs ≠ []) (hs : bs.Pairwise (· ≤ ·)) (x : Rat) :
    classOf bs (.fin x) = .nan ↔ bs.getLast hne < x := by
  rw [← firstGE_none_iff_last bs x hne hs]
  simp only [classOf]
  cases h : firstGE bs x <;> simp

theorem setLast_ne_nil {α : Type} (l : List α) (x : α) (h : l ≠ []) : setLast l x = l.dropLast ++ [x] := by
  unfold setLast
  split
  · exact absurd rfl h
  · rfl

theorem setLast_sorted (l : List Rat) (mx : Rat) (h : l ≠ []) (hs : l.Pairwise (· ≤ ·)) (hmx : ∀ a ∈ l, a ≤ mx) :
    (setLast l mx).Pairwise (· ≤ ·) ∧ (setLast l mx).length = l.length ∧
    (setLast l mx) ≠ [] ∧ mx ∈ setLast l mx ∧ ∀ hne, (setLast l mx).getLast hne = mx := by
  rw [setLast_ne_nil l mx h]
  refine ⟨?_, ?_, by simp, by simp, by simp⟩
  · rw [List.pairwise_append]
    refine ⟨List.Pairwise.sublist (List.dropLast_sublist l) hs, by simp, ?_⟩
    intro a ha b hb
    simp only [List.mem_singleton] at hb; subst hb
    exact hmx a ((List.dropLast_sublist l).subset ha)
  · simp
    have : 0 < l.length := List.length_pos_iff.mpr h
    omega

end XrsVerif.Bin
